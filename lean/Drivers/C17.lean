import Firefly.Replay.C17
/-! `drv_C17 <tracefile>` — replays a harness trace through the Lean VT model, the reference
terminal and the property oracle. Core Lean only (links natively). -/
def main (args : List String) : IO UInt32 := do
  match args with
  | [file] => Firefly.Replay.C17.run (← IO.FS.lines file); return 0
  | _ => IO.eprintln "usage: drv_C17 <tracefile>"; return 2
