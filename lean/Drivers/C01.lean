import Firefly.Replay.Pmm
/-! `drv_C01 <tracefile>` — replays a pmm harness trace through the Lean model with the C01 oracle. -/
def main (args : List String) : IO UInt32 := do
  match args with
  | [file] => Firefly.Replay.Pmm.run "C01" (← IO.FS.lines file); return 0
  | _ => IO.eprintln "usage: drv_C01 <tracefile>"; return 2
