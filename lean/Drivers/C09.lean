import Firefly.Replay.C09
/-! `drv_C09 <tracefile>` — replays a C09 harness trace (sequential pmm lines through the model,
stress rounds through the C09 oracle). -/
def main (args : List String) : IO UInt32 := do
  match args with
  | [file] => Firefly.Replay.C09.run (← IO.FS.lines file); return 0
  | _ => IO.eprintln "usage: drv_C09 <tracefile>"; return 2
