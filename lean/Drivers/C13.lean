import Firefly.Replay.C13
/-! `drv_C13 <tracefile>` — replays a harness trace through the Lean model and the property
oracle. Core Lean only (links natively). -/
def main (args : List String) : IO UInt32 := do
  match args with
  | [file] => Firefly.Replay.C13.run (← IO.FS.lines file); return 0
  | _ => IO.eprintln "usage: drv_C13 <tracefile>"; return 2
