import Firefly.Replay.C10
/-! `drv_C10 <tracefile>` — replays a harness trace through the Lean model and the property
oracle. Core Lean only (links natively). -/
def main (args : List String) : IO UInt32 := do
  match args with
  | [file] => Firefly.Replay.C10.run (← IO.FS.lines file); return 0
  | _ => IO.eprintln "usage: drv_C10 <tracefile>"; return 2
