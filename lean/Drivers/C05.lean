import Firefly.Replay.C05
/-! `drv_C05 <tracefile>` — replays a harness trace through the Lean model and the property
oracle. Core Lean only (links natively). -/
def main (args : List String) : IO UInt32 := do
  match args with
  | [file] => Firefly.Replay.C05.run (← IO.FS.lines file); return 0
  | _ => IO.eprintln "usage: drv_C05 <tracefile>"; return 2
