import Firefly.Replay.Pmm
/-! `drv_C03 <tracefile>` — replays a pmm harness trace through the Lean model with the C03 oracle. -/
def main (args : List String) : IO UInt32 := do
  match args with
  | [file] => Firefly.Replay.Pmm.run "C03" (← IO.FS.lines file); return 0
  | _ => IO.eprintln "usage: drv_C03 <tracefile>"; return 2
