import Firefly.Replay.C15
/-! `drv_C15 <tracefile>` — replays a harness trace through the Lean model of kfmt.Fprintf and the
property oracle. Core Lean only (links natively). -/
def main (args : List String) : IO UInt32 := do
  match args with
  | [file] => Firefly.Replay.C15.run (← IO.FS.lines file); return 0
  | _ => IO.eprintln "usage: drv_C15 <tracefile>"; return 2
