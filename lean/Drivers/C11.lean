import Firefly.Replay.C11
/-! `drv_C11 <tracefile>` — replays a C11 harness trace. Core Lean only (links natively). -/
def main (args : List String) : IO UInt32 := do
  match args with
  | [file] => Firefly.Replay.C11.run (← IO.FS.lines file); return 0
  | _ => IO.eprintln "usage: drv_C11 <tracefile>"; return 2
