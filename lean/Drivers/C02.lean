import Firefly.Replay.Pmm
/-! `drv_C02 <tracefile>` — replays a pmm harness trace through the Lean model with the C02 oracle. -/
def main (args : List String) : IO UInt32 := do
  match args with
  | [file] => Firefly.Replay.Pmm.run "C02" (← IO.FS.lines file); return 0
  | _ => IO.eprintln "usage: drv_C02 <tracefile>"; return 2
