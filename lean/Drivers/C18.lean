import Firefly.Replay.C18
/-! `drv_C18 <tracefile>` — replays a C18 harness trace through the Lean VT model, the abstract
console, the reference terminal and the property oracle. Core Lean only (links natively). -/
def main (args : List String) : IO UInt32 := do
  match args with
  | [file] => Firefly.Replay.C18.run (← IO.FS.lines file); return 0
  | _ => IO.eprintln "usage: drv_C18 <tracefile>"; return 2
