import Firefly.Replay.C12
/-! `drv_C12 <tracefile>` — replays a C12 harness trace through the Lean AML parser model and the
property oracle. Core Lean only (links natively). -/
def main (args : List String) : IO UInt32 := do
  match args with
  | [file] => Firefly.Replay.C12.run (← IO.FS.lines file); return 0
  | _ => IO.eprintln "usage: drv_C12 <tracefile>"; return 2
