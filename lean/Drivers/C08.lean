import Firefly.Replay.C08
/-! `drv_C08 <tracefile>` — replays a harness trace through the Lean spin-lock model and the
property oracle, and runs the model search requested by `search` lines. Core Lean only. -/
def main (args : List String) : IO UInt32 := do
  match args with
  | [file] => Firefly.Replay.C08.run (← IO.FS.lines file); return 0
  | _ => IO.eprintln "usage: drv_C08 <tracefile>"; return 2
