import Firefly.Replay.C20
/-! `drv_C20 <tracefile>` — replays a harness trace through the Lean model and the property
oracle. Core Lean only (links natively). -/
def main (args : List String) : IO UInt32 := do
  match args with
  | [file] => Firefly.Replay.C20.run (← IO.FS.lines file); return 0
  | _ => IO.eprintln "usage: drv_C20 <tracefile>"; return 2
