import Firefly.Replay.C07
/-! `ffdriver <property> <tracefile>` — replays a harness trace through the Lean model and
the property oracle. Core Lean only (links natively). -/
def main (args : List String) : IO UInt32 := do
  match args with
  | [prop, file] =>
    let lines ← IO.FS.lines file
    match prop with
    | "C07" => Firefly.Replay.C07.run lines
    | _ => IO.eprintln s!"unknown property {prop}"; return 2
    return 0
  | _ => IO.eprintln "usage: ffdriver <property> <tracefile>"; return 2
