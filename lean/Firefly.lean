-- This module serves as the root of the `Firefly` library.
-- Import modules here that should be built as part of the library.
import Firefly.Basic
