import Firefly.Proof.AmlConstDecl
/-!
C11, the flat fragment — a table that is a sequence of `Name(path, integer)` declarations: what the first pass
(`parseObjectList`) builds, for every such table.
-/
namespace Firefly.AmlParser.F
open Firefly.AmlLex Firefly.AmlTree Firefly.C13 Firefly.AmlParser Firefly.AmlParser.G Firefly.AmlParser.S
open Firefly.Gen.C12 Firefly.AmlProg

/-- the table holds the bytes `l` from `base` on -/
def BytesAt (d : Bytes) (base : Nat) (l : List UInt8) : Prop := ∀ i, i < l.length → d[base + i]? = l[i]?

theorem BytesAt.left {d : Bytes} {base : Nat} {a b : List UInt8} (h : BytesAt d base (a ++ b)) : BytesAt d base a := by
  intro i hi
  have := h i (by rw [List.length_append]; omega)
  rw [List.getElem?_append_left hi] at this
  exact this

theorem BytesAt.right {d : Bytes} {base : Nat} {a b : List UInt8} (h : BytesAt d base (a ++ b)) :
    BytesAt d (base + a.length) b := by
  intro i hi
  have := h (a.length + i) (by rw [List.length_append]; omega)
  rw [List.getElem?_append_right (by omega)] at this
  have e1 : a.length + i - a.length = i := by omega
  have e2 : base + (a.length + i) = base + a.length + i := by omega
  rw [e1, e2] at this
  exact this

theorem BytesAt.tail {d : Bytes} {base : Nat} {x : UInt8} {l : List UInt8} (h : BytesAt d base (x :: l)) :
    d[base]? = some x ∧ BytesAt d (base + 1) l := by
  constructor
  · have := h 0 (by simp)
    simpa using this
  · have : BytesAt d (base + [x].length) l := BytesAt.right (a := [x]) (by simpa using h)
    simpa using this

/-- `Name(path, integer)`: the name string (root prefix, carets, segments) and the integer (encoding width, value) -/
structure Decl where
  root : Bool
  carets : Nat
  segs : List (List UInt8)
  w : Nat
  v : Nat

/-- `08 NameString DataObject` -/
def Decl.enc (q : Decl) : List UInt8 := 0x08 :: (encName q.root q.carets q.segs ++ encInt q.w q.v)

def encDecls : List Decl → List UInt8
  | [] => []
  | q :: qs => q.enc ++ encDecls qs

def Decl.OK (q : Decl) : Prop := NameOK q.segs ∧ IntW q.w

/-- the three objects of a declaration: the `Name` object, its name path, the integer; and where the path lies -/
structure Item where
  x : Nat
  c : Nat
  k : Nat
  off : Nat
  q : Decl

def Item.len (it : Item) : Nat := (encName it.q.root it.q.carets it.q.segs).length - (if it.q.segs = [] then 1 else 0)

/-- the objects of one declaration after the first pass -/
structure ItemOK (d : Bytes) (s0 s : PState) (top : Nat) (it : Item) : Prop where
  nx : live s0.tree it.x = false
  nc : live s0.tree it.c = false
  nk : live s0.tree it.k = false
  lx : live s.tree it.x = true
  lc : live s.tree it.c = true
  lk : live s.tree it.k = true
  opx : (slot s.tree it.x).opcode = 8
  infx : (slot s.tree it.x).infoIndex = pOpcodeTableIndex 8 true
  thx : (slot s.tree it.x).tableHandle = s0.tableHandle
  opc : (slot s.tree it.c).opcode = opIntNamePath
  infc : (slot s.tree it.c).infoIndex = pOpcodeTableIndex opIntNamePath true
  thc : (slot s.tree it.c).tableHandle = s0.tableHandle
  valc : (slot s.tree it.c).value = .bytes it.off it.len
  opk : (slot s.tree it.k).opcode = constOp it.q.w it.q.v
  infk : (slot s.tree it.k).infoIndex = pOpcodeTableIndex (constOp it.q.w it.q.v) true
  thk : (slot s.tree it.k).tableHandle = s0.tableHandle
  int : IntObj s.tree it.k (intVal it.q.w it.q.v)
  kx : K s.tree it.x = [it.c]
  kc : K s.tree it.c = []
  kk : K s.tree it.k = []
  px : C13.P s.tree it.x = top
  pc : C13.P s.tree it.c = it.x
  pk : C13.P s.tree it.k = top
  bytes : BytesAt d it.off (encName it.q.root it.q.carets it.q.segs)

theorem IntObj.of_pay {t t' : ObjectTree} {k n : Nat} (h : IntObj t k n) (hp : Pay (slot t' k) = Pay (slot t k)) : IntObj t' k n := by
  unfold IntObj at h ⊢
  rw [pay_opcode hp, pay_value hp]
  exact h

theorem ItemOK.kept {d : Bytes} {s0 s s' : PState} {top n : Nat} {it : Item} (h : ItemOK d s0 s top it)
    (ok : OldKept s s' top n) (htl : live s0.tree top = true) : ItemOK d s0 s' top it := by
  have hxt : it.x ≠ top := fun e => by have := h.nx; rw [e, htl] at this; cases this
  have hct : it.c ≠ top := fun e => by have := h.nc; rw [e, htl] at this; cases this
  have hkt : it.k ≠ top := fun e => by have := h.nk; rw [e, htl] at this; cases this
  have px := ok.pay _ h.lx
  have pc := ok.pay _ h.lc
  have pk := ok.pay _ h.lk
  exact ⟨h.nx, h.nc, h.nk, ok.lv _ h.lx, ok.lv _ h.lc, ok.lv _ h.lk,
    by rw [pay_opcode px]; exact h.opx, by rw [pay_info px]; exact h.infx, by rw [pay_handle px]; exact h.thx,
    by rw [pay_opcode pc]; exact h.opc, by rw [pay_info pc]; exact h.infc, by rw [pay_handle pc]; exact h.thc,
    by rw [pay_value pc]; exact h.valc,
    by rw [pay_opcode pk]; exact h.opk, by rw [pay_info pk]; exact h.infk, by rw [pay_handle pk]; exact h.thk,
    h.int.of_pay pk,
    by rw [ok.kids _ h.lx, if_neg hxt]; exact h.kx, by rw [ok.kids _ h.lc, if_neg hct]; exact h.kc,
    by rw [ok.kids _ h.lk, if_neg hkt]; exact h.kk,
    by rw [ok.par _ h.lx]; exact h.px, by rw [ok.par _ h.lc]; exact h.pc, by rw [ok.par _ h.lk]; exact h.pk, h.bytes⟩

/-- the state of the first pass after the declarations `its`, started in `s0` with `top` the innermost scope block -/
structure Acc (d : Bytes) (s0 s : PState) (top : Nat) (its : List Item) : Prop where
  fp : FP d s
  rest : SameRest s0 s
  topl : live s0.tree top = true
  ktop : K s.tree top = K s0.tree top ++ its.flatMap (fun it => [it.x, it.k])
  oldl : ∀ y, live s0.tree y = true → live s.tree y = true
  oldpay : ∀ y, live s0.tree y = true → Pay (slot s.tree y) = Pay (slot s0.tree y)
  oldpar : ∀ y, live s0.tree y = true → C13.P s.tree y = C13.P s0.tree y
  oldk : ∀ y, live s0.tree y = true → y ≠ top → K s.tree y = K s0.tree y
  items : ∀ it ∈ its, ItemOK d s0 s top it
  size : s.tree.pool.size ≤ s0.tree.pool.size + 3 * its.length
  nodup : (its.flatMap (fun it => [it.x, it.c, it.k])).Nodup

theorem Acc.init {d : Bytes} {s0 : PState} (h : FP d s0) {top : Nat} (htl : live s0.tree top = true) : Acc d s0 s0 top [] :=
  ⟨h, SameRest.refl _, htl, (by simp), fun _ h => h, fun _ _ => rfl, fun _ _ => rfl, fun _ _ _ => rfl,
    fun _ hm => (by cases hm), Nat.le_add_right _ _, (by simp)⟩

theorem topOf_rest {s s' : PState} (h : SameRest s s') : topOf s' = topOf s := by unfold topOf; rw [h.sc]

theorem Acc.step {d : Bytes} {s0 s s1 s2 : PState} {top : Nat} {its : List Item} (acc : Acc d s0 s top its)
    (htop : topOf s0 = top) {x c k off : Nat} (q : Decl)
    (nd : NameDecl d s s1 x c off ((encName q.root q.carets q.segs).length - (if q.segs = [] then 1 else 0)))
    (cd : ConstDecl d s1 s2 k q.w q.v) (hb : BytesAt d off (encName q.root q.carets q.segs)) :
    Acc d s0 s2 top (its ++ [⟨x, c, k, off, q⟩]) := by
  have ht : topOf s = top := by rw [topOf_rest acc.rest, htop]
  have ht1 : topOf s1 = top := by rw [topOf_rest nd.rest, ht]
  have ndo := nd.old
  have cdo := cd.old
  rw [ht] at ndo
  rw [ht1] at cdo
  have ltop : live s.tree top = true := acc.oldl _ acc.topl
  have ltop1 : live s1.tree top = true := ndo.lv _ ltop
  have hth : s.tableHandle = s0.tableHandle := acc.rest.th
  have hth1 : s1.tableHandle = s0.tableHandle := by rw [nd.rest.th, hth]
  have n0 : ∀ y, live s.tree y = false → live s0.tree y = false := by
    intro y hy
    cases hq : live s0.tree y with
    | false => rfl
    | true => rw [acc.oldl y hq] at hy; cases hy
  have n1 : ∀ y, live s1.tree y = false → live s.tree y = false := by
    intro y hy
    cases hq : live s.tree y with
    | false => rfl
    | true => rw [ndo.lv y hq] at hy; cases hy
  have hxt : x ≠ top := fun e => by have := nd.nx; rw [e, ltop] at this; cases this
  have hct : c ≠ top := fun e => by have := nd.nc; rw [e, ltop] at this; cases this
  have px := cdo.pay _ nd.lx
  have pc := cdo.pay _ nd.lc
  refine ⟨cd.fp, acc.rest.trans (nd.rest.trans cd.rest), acc.topl, ?_, fun y hy => cdo.lv _ (ndo.lv _ (acc.oldl y hy)), ?_, ?_, ?_, ?_, ?_, ?_⟩
  · rw [cdo.kids _ ltop1, if_pos rfl, ndo.kids _ ltop, if_pos rfl, acc.ktop]
    simp [List.flatMap_append]
  · intro y hy
    rw [cdo.pay _ (ndo.lv _ (acc.oldl y hy)), ndo.pay _ (acc.oldl y hy), acc.oldpay y hy]
  · intro y hy
    rw [cdo.par _ (ndo.lv _ (acc.oldl y hy)), ndo.par _ (acc.oldl y hy), acc.oldpar y hy]
  · intro y hy hyt
    rw [cdo.kids _ (ndo.lv _ (acc.oldl y hy)), if_neg hyt, ndo.kids _ (acc.oldl y hy), if_neg hyt, acc.oldk y hy hyt]
  · intro it hit
    rcases List.mem_append.1 hit with hit | hit
    · exact ((acc.items it hit).kept ndo acc.topl).kept cdo acc.topl
    · have : it = ⟨x, c, k, off, q⟩ := by simpa using hit
      subst this
      exact ⟨n0 _ nd.nx, n0 _ nd.nc, n0 _ (n1 _ cd.nk), cdo.lv _ nd.lx, cdo.lv _ nd.lc, cd.lk,
        by rw [pay_opcode px]; exact nd.opx, by rw [pay_info px]; exact nd.infx, by rw [pay_handle px, nd.thx, hth],
        by rw [pay_opcode pc]; exact nd.opc, by rw [pay_info pc]; exact nd.infc, by rw [pay_handle pc, nd.thc, hth],
        by rw [pay_value pc]; exact nd.valc, cd.opk, cd.infk, by rw [cd.thk, hth1], cd.int,
        by rw [cdo.kids _ nd.lx, if_neg hxt]; exact nd.kx, by rw [cdo.kids _ nd.lc, if_neg hct]; exact nd.kc, cd.kk,
        by rw [cdo.par _ nd.lx, nd.px, ht], by rw [cdo.par _ nd.lc]; exact nd.pc, by rw [cd.pk, ht1], hb⟩
  · have := acc.size
    have := nd.size
    have := cd.size
    rw [List.length_append]
    simp only [List.length_cons, List.length_nil]
    omega
  · rw [List.flatMap_append, List.nodup_append]
    refine ⟨acc.nodup, ?_, ?_⟩
    · have hxc : x ≠ c := fun e => by
        have h1 := nd.pc; rw [← e, nd.px, ht] at h1; exact hxt h1.symm
      have hxk : x ≠ k := fun e => by have := cd.nk; rw [← e, nd.lx] at this; cases this
      have hck : c ≠ k := fun e => by have := cd.nk; rw [← e, nd.lc] at this; cases this
      simp [hxc, hxk, hck]
    · intro a ha b hb
      have hal : live s.tree a = true := by
        obtain ⟨it, hit, hm⟩ := List.mem_flatMap.1 ha
        have io := acc.items it hit
        simp only [List.mem_cons, List.mem_nil_iff, or_false] at hm
        rcases hm with e | e | e <;> rw [e]
        · exact io.lx
        · exact io.lc
        · exact io.lk
      have hbl : live s.tree b = false := by
        simp only [List.flatMap_cons, List.flatMap_nil, List.append_nil, List.mem_cons, List.mem_nil_iff, or_false] at hb
        rcases hb with e | e | e <;> rw [e]
        · exact nd.nx
        · exact nd.nc
        · exact n1 _ cd.nk
      intro e
      rw [e, hbl] at hal; cases hal

theorem lex_eof (s : PState) : lex eof s = .ok (s.r.eof, s) := by
  have h : eof s.r = .ok (s.r.eof, s.r) := rfl
  have := lex_eq h
  rw [this]

theorem encInt_pos (w v : Nat) : 1 ≤ (encInt w v).length := by
  unfold encInt
  repeat' split
  all_goals simp

/-- **the object loop of the first pass on a sequence of `Name(path, integer)` declarations**: every declaration becomes
its three objects, in order, under the innermost scope block; nothing else changes -/
theorem objectListInner_flat {d : Bytes} (hd : d.size + 1024 ≤ 4294967296) (fuel : Nat) (hfuel : 5 ≤ fuel) {s0 : PState}
    {top pe : Nat} (htop : topOf s0 = top) (hsk : s0.allBlocks = false) (hne : s0.scopeStack.size ≠ 0) (hpe : pe ≤ d.size) :
    ∀ (qs : List Decl) (n : Nat) (s : PState) (its : List Item) (base : Nat),
      (∀ q ∈ qs, q.OK) → 2 * qs.length + 1 ≤ n → Acc d s0 s top its → s.r = { offset := base, pkgEnd := pe } →
      BytesAt d base (encDecls qs) → base + (encDecls qs).length = pe → s.tree.pool.size + 3 * qs.length < INV →
      ∃ s' its', objectListInner d fuel n s = .ok (true, s') ∧ Acc d s0 s' top (its ++ its') ∧ its'.map (·.q) = qs ∧
        s'.r = { offset := pe, pkgEnd := pe } := by
  intro qs
  induction qs with
  | nil =>
    intro n s its base _ hn acc hr _ hlen _
    obtain ⟨n', rfl⟩ : ∃ n', n = n' + 1 := ⟨n - 1, by simp at hn; omega⟩
    refine ⟨s, [], ?_, by simpa using acc, rfl, ?_⟩
    · unfold objectListInner
      refine bind_ex' (lex_eof s) ?_
      have : s.r.eof = true := by rw [hr]; simp [Reader.eof, encDecls] at hlen ⊢; omega
      rw [this]; rfl
    · rw [hr]; simp [encDecls] at hlen; rw [hlen]
  | cons q qs ih =>
    intro n s its base hok hn acc hr hb hlen hsz
    obtain ⟨n', rfl⟩ : ∃ n', n = n' + 2 := ⟨n - 2, by simp at hn; omega⟩
    obtain ⟨f, rfl⟩ : ∃ f, fuel = f + 5 := ⟨fuel - 5, by omega⟩
    have hq := hok q (List.mem_cons_self ..)
    have hb1 : BytesAt d base q.enc := BytesAt.left hb
    have hb2 : BytesAt d (base + q.enc.length) (encDecls qs) := BytesAt.right hb
    obtain ⟨hop, hb3⟩ := BytesAt.tail (show BytesAt d base (0x08 :: (encName q.root q.carets q.segs ++ encInt q.w q.v)) from hb1)
    have hbn : BytesAt d (base + 1) (encName q.root q.carets q.segs) := BytesAt.left hb3
    have hbi : BytesAt d (base + 1 + (encName q.root q.carets q.segs).length) (encInt q.w q.v) := BytesAt.right hb3
    have hql : q.enc.length = 1 + (encName q.root q.carets q.segs).length + (encInt q.w q.v).length := by
      simp [Decl.enc]; omega
    have hel : (encDecls (q :: qs)).length = q.enc.length + (encDecls qs).length := by simp [encDecls]
    have hip := encInt_pos q.w q.v
    have hsk' : s.allBlocks = false := by rw [acc.rest.ab]; exact hsk
    have hne' : s.scopeStack.size ≠ 0 := by rw [acc.rest.sc]; exact hne
    simp only [List.length_cons] at hsz hn
    -- the `Name` object
    obtain ⟨s1, x, c, e1, nd, hr1⟩ := name_decl_k hd f acc.fp hsk' hne' (by omega) q.root q.carets q.segs base pe hr hpe hq.1 hop
      hbn (by omega)
    -- the integer
    have hne1 : s1.scopeStack.size ≠ 0 := by rw [nd.rest.sc]; exact hne'
    obtain ⟨s2, k, e2, cd, hr2⟩ := const_decl_first_pass (f + 2) nd.fp hne1 (by have := nd.size; omega) q.w q.v hq.2 _ pe hr1 hpe
      hbi (by omega)
    have acc2 := acc.step htop q nd cd hbn
    have hr2' : s2.r = { offset := base + q.enc.length, pkgEnd := pe } := by
      rw [hr2, hql]; congr 1; omega
    obtain ⟨s', its', e', acc', hm, hr'⟩ := ih n' s2 (its ++ [⟨x, c, k, base + 1, q⟩]) (base + q.enc.length)
      (fun q' hq' => hok q' (List.mem_cons_of_mem _ hq')) (by omega) acc2 hr2' hb2 (by omega)
      (by have := nd.size; have := cd.size; omega)
    refine ⟨s', ⟨x, c, k, base + 1, q⟩ :: its', ?_, by simpa using acc', by simp [hm], hr'⟩
    have ne1 : s.r.eof = false := by rw [hr]; simp [Reader.eof]; omega
    have ne2 : s1.r.eof = false := by rw [hr1]; simp [Reader.eof]; omega
    unfold objectListInner
    refine bind_ex' (lex_eof s) ?_
    rw [ne1]
    simp only [Bool.false_eq_true, ↓reduceIte]
    refine bind_ex' e1 ?_
    rw [if_neg (by decide)]
    unfold objectListInner
    refine bind_ex' (lex_eof s1) ?_
    rw [ne2]
    simp only [Bool.false_eq_true, ↓reduceIte]
    refine bind_ex' e2 ?_
    rw [if_neg (by decide)]
    exact e'

/-- the state `init` and `scopeEnter(0)` leave -/
def initState (d : Bytes) (handle : Nat) (s : PState) : PState :=
  { s with tableHandle := handle, resolvePasses := 0, mergedScopes := 0, relocatedObjects := 0, allBlocks := false,
           scopeStack := #[0], pkgEndStack := #[d.size], r := { offset := headerLen, pkgEnd := d.size }, streamEnd := d.size }

theorem init_run (d : Bytes) (handle : Nat) (s : PState) (hd : headerLen ≤ d.size) :
    (init d handle >>= fun _ => scopeEnter 0) s = .ok ((), initState d handle s) := by
  have h1 : ¬ headerLen > d.size := by omega
  have h2 : ¬ d.size > d.size := by omega
  simp only [init, pushPkgEnd, lex, setPkgEnd, Reader.init, scopeEnter, modify, modifyGet, MonadStateOf.modifyGet, StateT.modifyGet,
    bind, StateT.bind, pure, StateT.pure, Except.bind, Except.pure, h1, h2, if_false, initState]
  rfl

theorem bind_run {α β : Type} {x : P α} {f : α → P β} {s s1 : PState} {a : α} (e : x s = .ok (a, s1)) :
    (x >>= f) s = f a s1 := by
  show (StateT.bind x f) s = _
  simp only [StateT.bind, e]
  rfl

theorem firstPass_eq (d : Bytes) (fuel handle : Nat) (s : PState) (hd : headerLen ≤ d.size) :
    firstPass d fuel handle s = parseObjectList d fuel fuel (initState d handle s) := by
  unfold firstPass
  show (init d handle >>= fun _ => (scopeEnter 0 >>= fun _ => parseObjectList d fuel fuel)) s = _
  rw [← bind_assoc, bind_run (init_run d handle s hd)]

/-- the end of `parseObjectList` at the outermost level: the root scope and the table's package end are popped -/
theorem parseObjectList_tail (d : Bytes) (fuel n : Nat) (s sL : PState) (e : objectListInner d fuel fuel s = .ok (true, sL))
    (h1 : s.scopeStack = #[0]) (hL1 : sL.scopeStack = #[0]) (hL2 : sL.pkgEndStack = #[d.size]) :
    parseObjectList d fuel (n + 2) s = .ok (PRes.ok, { sL with scopeStack := #[], pkgEndStack := #[] }) := by
  unfold parseObjectList
  have e0 : stackSizes s = .ok ((s.pkgEndStack.size, s.scopeStack.size), s) := rfl
  rw [bind_run e0]
  rw [if_neg (by rw [h1]; exact (show ¬ ((1 : Nat) = 0) by decide)), bind_run e]
  simp only [Bool.not_true, Bool.false_eq_true, ↓reduceIte]
  have e1 : stackSizes sL = .ok ((1, 1), sL) := by unfold stackSizes; rw [hL1, hL2]; rfl
  rw [bind_run e1]
  simp only [↓reduceIte]
  have e2 : scopeExit sL = .ok ((), { sL with scopeStack := #[] }) := by
    unfold scopeExit; rw [hL1]; rfl
  rw [bind_run e2]
  have e3 : popPkgEnd d { sL with scopeStack := #[] } = .ok ((), { sL with scopeStack := #[], pkgEndStack := #[] }) := by
    simp only [popPkgEnd, modify, modifyGet, MonadStateOf.modifyGet, StateT.modifyGet, pkgEndTop, bind, StateT.bind, pure,
      StateT.pure, Except.bind, Except.pure, hL2]
    rfl
  rw [bind_run e3]
  unfold parseObjectList
  rfl

/-- **the first pass on a table of `Name(path, integer)` declarations** (`init`; `scopeEnter(0)`; `parseObjectList`), from
any well-formed pool: it succeeds, and the pool it leaves is the old one plus, for every declaration in order, a `Name`
object and an integer object appended to the root's children, the `Name` object holding its name path -/
theorem firstPass_flat {d : Bytes} (hd : d.size + 1024 ≤ 4294967296) (hh : headerLen ≤ d.size) (qs : List Decl)
    (hok : ∀ q ∈ qs, q.OK) (hb : BytesAt d headerLen (encDecls qs)) (hlen : headerLen + (encDecls qs).length = d.size)
    (s : PState) (ht : TreeG s.tree) (hsz : s.tree.pool.size + 3 * qs.length < INV) (fuel : Nat)
    (hfuel : 2 * qs.length + 5 ≤ fuel) (handle : Nat) :
    ∃ sL its, firstPass d fuel handle s = .ok (PRes.ok, { sL with scopeStack := #[], pkgEndStack := #[] }) ∧
      Acc d (initState d handle s) sL 0 its ∧ its.map (·.q) = qs := by
  rw [firstPass_eq d fuel handle s hh]
  have hI : FP d (initState d handle s) := by
    refine ⟨⟨hh, Nat.le_refl _⟩, ht, ?_⟩
    intro x hx
    have : x = 0 := by simpa [initState] using hx
    rw [this]; exact ht.root
  have acc0 : Acc d (initState d handle s) (initState d handle s) 0 [] := Acc.init hI ht.root
  obtain ⟨sL, its, e, acc, hm, hr⟩ := objectListInner_flat hd fuel (by omega) (s0 := initState d handle s) (top := 0) (pe := d.size)
    rfl rfl (by simp [initState]) (Nat.le_refl _) qs fuel (initState d handle s) [] headerLen hok (by omega) acc0 rfl hb hlen hsz
  obtain ⟨n, rfl⟩ : ∃ n, fuel = n + 2 := ⟨fuel - 2, by omega⟩
  refine ⟨sL, its, ?_, by simpa using acc, hm⟩
  exact parseObjectList_tail d (n + 2) n _ sL e rfl (by rw [acc.rest.sc]; rfl) (by rw [acc.rest.pk]; rfl)

end Firefly.AmlParser.F
