import Firefly.Model.Kfmt
/-! Lemmas about the kfmt model (`Model/Kfmt.lean`) used by `Props/C15.lean`. -/
namespace Firefly.Kfmt
open Firefly.Gen.C15

theorem take_set_succ (l : List Byte) (i : Nat) (v : Byte) (h : i < l.length) :
    (l.set i v).take (i+1) = l.take i ++ [v] := by
  apply List.ext_getElem?
  intro j
  simp [List.getElem?_take, List.getElem?_set, List.getElem?_append]
  grind

theorem take_set_le (l : List Byte) (i n : Nat) (v : Byte) (h : n ≤ i) :
    (l.set i v).take n = l.take n := by
  apply List.ext_getElem?
  intro j
  simp [List.getElem?_take, List.getElem?_set]
  grind

theorem setB_ok (buf : List Byte) (i : Nat) (v : Byte) (h : i < buf.length) :
    setB buf i v = .ok (buf.set i v) := by
  simp [setB, h]

/-! ### digits -/

theorem digitsLE_length (d : Nat) : ∀ (f u : Nat), (digitsLE d f u).length ≤ f + 1
  | 0, u => by simp [digitsLE]
  | f+1, u => by
    simp only [digitsLE]
    split
    · simp
    · have := digitsLE_length d f (u / d)
      simp; omega

theorem digitsLE_ne_nil (d f u : Nat) : digitsLE d f u ≠ [] := by
  cases f <;> simp [digitsLE]

/-- enough fuel: the digit list does not depend on it -/
theorem digitsLE_fuel (d : Nat) (hd : 0 < d) : ∀ (f f' u : Nat), u < d^(f+1) → u < d^(f'+1) →
    digitsLE d f u = digitsLE d f' u
  | 0, f', u, h, _ => by
    have h0 : u / d = 0 := by
      apply Nat.div_eq_of_lt; simpa using h
    cases f' <;> simp [digitsLE, h0]
  | f+1, 0, u, _, h' => by
    have h0 : u / d = 0 := by
      apply Nat.div_eq_of_lt; simpa using h'
    simp [digitsLE, h0]
  | f+1, f'+1, u, h, h' => by
    simp only [digitsLE]
    by_cases h0 : u / d = 0
    · simp [h0]
    · simp only [h0, if_false]
      rw [digitsLE_fuel d hd f f' (u / d)]
      · apply Nat.div_lt_of_lt_mul; rw [Nat.pow_succ, Nat.mul_comm] at h; exact h
      · apply Nat.div_lt_of_lt_mul; rw [Nat.pow_succ, Nat.mul_comm] at h'; exact h'

theorem digitsOf_eq (d : Nat) (hd : 1 < d) (f u : Nat) (h : u < d^(f+1)) :
    digitsOf d u = (digitsLE d f u).reverse := by
  unfold digitsOf
  rw [digitsLE_fuel d (by omega) u f u _ h]
  have := @Nat.lt_pow_self u d hd
  calc u < d^u := this
    _ ≤ d^(u+1) := Nat.pow_le_pow_right (by omega) (by omega)

/-! ### the digit loop -/

theorem digitLoop_spec (d : Nat) : ∀ (k fuel : Nat) (buf : List Byte) (right u : Nat),
    u < d^(k+1) → k + 1 ≤ fuel → right + k + 1 ≤ maxBufSize → maxBufSize ≤ buf.length →
    ∃ buf', digitLoop d fuel buf right u = .ok (buf', right + (digitsLE d k u).length) ∧
      buf'.length = buf.length ∧
      buf'.take (right + (digitsLE d k u).length) = buf.take right ++ digitsLE d k u
  | 0, fuel, buf, right, u, hu, hf, hr, hb => by
    obtain ⟨fuel, rfl⟩ : ∃ f, fuel = f + 1 := ⟨fuel - 1, by omega⟩
    have h0 : u / d = 0 := by
      apply Nat.div_eq_of_lt; simpa using hu
    have hlt : right < maxBufSize := by omega
    have hlt' : right < buf.length := by omega
    refine ⟨buf.set right (digitCh (u % d)), ?_, by simp, ?_⟩
    · simp [digitLoop, hlt, setB_ok _ _ _ hlt', h0, digitsLE]
    · simp [digitsLE, take_set_succ _ _ _ hlt']
  | k+1, fuel, buf, right, u, hu, hf, hr, hb => by
    obtain ⟨fuel, rfl⟩ : ∃ f, fuel = f + 1 := ⟨fuel - 1, by omega⟩
    have hlt : right < maxBufSize := by omega
    have hlt' : right < buf.length := by omega
    by_cases h0 : u / d = 0
    · refine ⟨buf.set right (digitCh (u % d)), ?_, by simp, ?_⟩
      · simp [digitLoop, hlt, setB_ok _ _ _ hlt', h0, digitsLE]
      · simp [digitsLE, h0, take_set_succ _ _ _ hlt']
    · have hu' : u / d < d^(k+1) := by
        apply Nat.div_lt_of_lt_mul; rw [Nat.pow_succ, Nat.mul_comm] at hu; exact hu
      obtain ⟨buf', h1, h2, h3⟩ := digitLoop_spec d k fuel (buf.set right (digitCh (u % d))) (right+1) (u/d)
        hu' (by omega) (by omega) (by simpa using hb)
      refine ⟨buf', ?_, by simpa using h2, ?_⟩
      · simp only [digitLoop, hlt, if_true, setB_ok _ _ _ hlt', h0, if_false, h1, digitsLE]
        simp; omega
      · simp only [digitsLE, h0, if_false, List.length_cons]
        have : right + ((digitsLE d k (u / d)).length + 1) = right + 1 + (digitsLE d k (u / d)).length := by omega
        rw [this, h3, take_set_succ _ _ _ hlt']
        simp

/-! ### padding, sign scan, reverse -/

theorem padLoop_spec (c : Byte) : ∀ (n : Nat) (buf : List Byte) (right : Nat), right + n ≤ buf.length →
    ∃ buf', padLoop c n buf right = .ok (buf', right + n) ∧ buf'.length = buf.length ∧
      buf'.take (right + n) = buf.take right ++ List.replicate n c
  | 0, buf, right, _ => ⟨buf, by simp [padLoop]⟩
  | n+1, buf, right, h => by
    have hlt : right < buf.length := by omega
    obtain ⟨buf', h1, h2, h3⟩ := padLoop_spec c n (buf.set right c) (right+1) (by simp; omega)
    refine ⟨buf', ?_, by simpa using h2, ?_⟩
    · simp only [padLoop, setB_ok _ _ _ hlt, h1]
      simp; omega
    · have : right + (n + 1) = right + 1 + n := by omega
      rw [this, h3, take_set_succ _ _ _ hlt, List.replicate_succ]
      simp

theorem getElem?_of_take (buf L : List Byte) (n i : Nat) (h : buf.take n = L) (hi : i < n) :
    buf[i]? = L[i]? := by
  rw [← h, List.getElem?_take]; simp [hi]

theorem getB_some (buf : List Byte) (i : Nat) (b : Byte) (h : buf[i]? = some b) : getB buf i = .ok b := by
  simp [getB, h]

/-- the backwards scan stops at the last non-blank: `pre ++ [x] ++ blanks`, `x ≠ ' '` -/
theorem scanBlank_spec (buf pre : List Byte) (x : Byte) (hx : x ≠ 32) : ∀ (k : Nat),
    buf.take (pre.length + 1 + k) = pre ++ [x] ++ List.replicate k 32 →
    scanBlank buf (pre.length + k) = .ok pre.length
  | 0, h => by
    have hg := getElem?_of_take buf _ _ pre.length h (by omega)
    have hg' : buf[pre.length]? = some x := by rw [hg]; simp
    have := getB_some _ _ _ hg'
    cases hp : pre.length with
    | zero => rw [hp] at this; simp [scanBlank, this, hx]
    | succ m => rw [hp] at this; simp [scanBlank, this, hx]
  | k+1, h => by
    have hg := getElem?_of_take buf _ _ (pre.length + (k+1)) h (by omega)
    have h32 : buf[pre.length + (k+1)]? = some 32 := by
      rw [hg, List.getElem?_append_right (by simp)]
      have : pre.length + (k + 1) - (pre ++ [x]).length = k := by simp; omega
      rw [this]; simp
    have hb := getB_some _ _ _ h32
    have ih := scanBlank_spec buf pre x hx k (by
      have := congrArg (List.take (pre.length + 1 + k)) h
      rw [List.take_take, Nat.min_eq_left (by omega), List.replicate_succ', ← List.append_assoc] at this
      rw [this]
      apply List.take_left'
      simp; omega)
    have e : pre.length + (k + 1) = (pre.length + k) + 1 := by omega
    rw [e] at hb ⊢
    simp [scanBlank, hb, ih]

theorem revLoop_spec : ∀ (fuel : Nat) (buf : List Byte) (l r : Nat), r < buf.length → r ≤ fuel + l →
    ∃ buf', revLoop fuel buf l r = .ok buf' ∧ buf'.length = buf.length ∧
      ∀ i, buf'[i]? = if l ≤ i ∧ i ≤ r then buf[l + r - i]? else buf[i]?
  | 0, buf, l, r, hr, hf => by
    refine ⟨buf, by simp [revLoop], rfl, ?_⟩
    intro i
    split
    · have : l + r - i = i := by omega
      rw [this]
    · rfl
  | fuel+1, buf, l, r, hr, hf => by
    by_cases hlr : l < r
    · have hl : l < buf.length := by omega
      obtain ⟨buf', h1, h2, h3⟩ := revLoop_spec fuel ((buf.set l buf[r]).set r buf[l]) (l+1) (r-1)
        (by simp; omega) (by omega)
      refine ⟨buf', ?_, by simpa using h2, ?_⟩
      · have g1 : getB buf l = .ok buf[l] := getB_some _ _ _ (by simp [hl])
        have g2 : getB buf r = .ok buf[r] := getB_some _ _ _ (by simp [hr])
        simp only [revLoop, hlr, if_true, g1, g2]
        rw [setB_ok _ _ _ hl]
        simp only []
        rw [setB_ok _ _ _ (by simpa using hr)]
        exact h1
      · intro i
        rw [h3 i]
        simp only [List.getElem?_set, List.length_set]
        by_cases c1 : l + 1 ≤ i ∧ i ≤ r - 1
        · have e1 : ¬ r = l + 1 + (r - 1) - i := by omega
          have e2 : ¬ l = l + 1 + (r - 1) - i := by omega
          have e3 : l ≤ i ∧ i ≤ r := by omega
          have e4 : l + 1 + (r - 1) - i = l + r - i := by omega
          rw [if_pos c1, if_neg e1, if_neg e2, if_pos e3, e4]
        · rw [if_neg c1]
          by_cases c2 : r = i
          · subst c2
            have e3 : l ≤ r ∧ r ≤ r := by omega
            have e4 : l + r - r = l := by omega
            rw [if_pos rfl, if_pos hr, if_pos e3, e4]
            simp [hl]
          · rw [if_neg c2]
            by_cases c3 : l = i
            · subst c3
              have e3 : l ≤ l ∧ l ≤ r := by omega
              have e4 : l + r - l = r := by omega
              rw [if_pos rfl, if_pos hl, if_pos e3, e4]
              simp [hr]
            · rw [if_neg c3]
              have e3 : ¬ (l ≤ i ∧ i ≤ r) := by omega
              rw [if_neg e3]
    · refine ⟨buf, by simp [revLoop, hlr], rfl, ?_⟩
      intro i
      split
      · have : l + r - i = i := by omega
        rw [this]
      · rfl

theorem revLoop_take (buf : List Byte) (n : Nat) (hn : n ≤ buf.length) :
    ∃ buf', revLoop (n + 1) buf 0 (n - 1) = .ok buf' ∧ buf'.length = buf.length ∧
      buf'.take n = (buf.take n).reverse := by
  by_cases h0 : n = 0
  · subst h0
    refine ⟨buf, by simp [revLoop], rfl, by simp⟩
  obtain ⟨buf', h1, h2, h3⟩ := revLoop_spec (n + 1) buf 0 (n-1) (by omega) (by omega)
  refine ⟨buf', h1, h2, ?_⟩
  apply List.ext_getElem?
  intro i
  by_cases hi : i < n
  · rw [List.getElem?_take, if_pos hi, h3 i, List.getElem?_reverse (by simp; omega)]
    simp only [List.length_take, Nat.min_eq_left hn, List.getElem?_take]
    have : n - 1 - i < n := by omega
    simp only [this, if_true]
    have : 0 ≤ i ∧ i ≤ n - 1 := by omega
    simp only [this, and_self, if_true]
    congr 1
    omega
  · rw [List.getElem?_take, if_neg hi]
    symm
    rw [List.getElem?_eq_none_iff]
    simp; omega

/-! ### fmtInt -/

theorem digitCh_ne_blank : ∀ r, r < 16 → digitCh r ≠ 32 := by decide

theorem digitsLE_ne_blank (d : Nat) (hd0 : 0 < d) (hd : d ≤ 16) : ∀ (f u : Nat), ∀ c ∈ digitsLE d f u, c ≠ 32
  | 0, u, c, hc => by
    simp [digitsLE] at hc
    subst hc
    exact digitCh_ne_blank _ (by have := Nat.mod_lt u hd0; omega)
  | f+1, u, c, hc => by
    simp only [digitsLE, List.mem_cons] at hc
    rcases hc with hc | hc
    · subst hc
      exact digitCh_ne_blank _ (by have := Nat.mod_lt u hd0; omega)
    · split at hc
      · simp at hc
      · exact digitsLE_ne_blank d hd0 hd f _ c hc

theorem base_pow (b : Base) : 2^64 ≤ b.divider^22 := by
  cases b <;> decide

theorem base_bounds (b : Base) : 1 < b.divider ∧ b.divider ≤ 16 := by
  cases b <;> decide

theorem split_last (L : List Byte) (h : L ≠ []) : L = L.dropLast ++ [L.getLast h] :=
  (List.dropLast_concat_getLast h).symm

theorem scan_nonblank (buf L : List Byte) (hne : L ≠ []) (hx : L.getLast hne ≠ 32)
    (ht : buf.take L.length = L) : scanBlank buf (L.length - 1) = .ok (L.length - 1) := by
  have hpos : 0 < L.length := List.length_pos_iff.2 hne
  have hs := split_last L hne
  have hl : L.dropLast.length = L.length - 1 := by simp
  have := scanBlank_spec buf L.dropLast (L.getLast hne) hx 0 (by
    rw [hl]
    have : L.length - 1 + 1 + 0 = L.length := by omega
    rw [this, ht]
    simpa using hs)
  rw [hl] at this
  simpa using this

theorem scan_blank (buf ds : List Byte) (n : Nat) (hne : ds ≠ []) (hx : ds.getLast hne ≠ 32)
    (ht : buf.take (ds.length + n) = ds ++ List.replicate n 32) :
    scanBlank buf (ds.length + n - 1) = .ok (ds.length - 1) := by
  have hpos : 0 < ds.length := List.length_pos_iff.2 hne
  have hs := split_last ds hne
  have hl : ds.dropLast.length = ds.length - 1 := by simp
  have := scanBlank_spec buf ds.dropLast (ds.getLast hne) hx n (by
    rw [hl]
    have : ds.length - 1 + 1 + n = ds.length + n := by omega
    rw [this, ht, ← hs])
  rw [hl] at this
  have e : ds.length - 1 + n = ds.length + n - 1 := by omega
  rw [e] at this
  exact this

theorem neg_nonblank (buf ds : List Byte) (n : Nat) (c : Byte) (hc : c ≠ 32) (hne : ds ≠ [])
    (hnb : ∀ x ∈ ds, x ≠ 32) (ht : buf.take (ds.length + n) = ds ++ List.replicate n c)
    (hl : ds.length + n < buf.length) :
    scanBlank buf (ds.length + n - 1) = .ok (ds.length + n - 1) ∧
    setB buf (ds.length + n - 1 + 1) 45 = .ok (buf.set (ds.length + n) 45) ∧
    (buf.set (ds.length + n) 45).take (ds.length + n + 1) = ds ++ List.replicate n c ++ [45] := by
  have hpos : 0 < ds.length := List.length_pos_iff.2 hne
  have hLne : ds ++ List.replicate n c ≠ [] := by simp [hne]
  have hLlen : (ds ++ List.replicate n c).length = ds.length + n := by simp
  have hx : (ds ++ List.replicate n c).getLast hLne ≠ 32 := by
    have hm := List.getLast_mem hLne
    rw [List.mem_append] at hm
    rcases hm with hm | hm
    · exact hnb _ hm
    · rw [List.mem_replicate] at hm
      rw [hm.2]; exact hc
  have h1 := scan_nonblank buf _ hLne hx (by rw [hLlen]; exact ht)
  rw [hLlen] at h1
  have e : ds.length + n - 1 + 1 = ds.length + n := by omega
  refine ⟨h1, ?_, ?_⟩
  · rw [e]; exact setB_ok _ _ _ hl
  · rw [take_set_succ _ _ _ hl, ht]

theorem neg_blank (buf ds : List Byte) (n : Nat) (hne : ds ≠ [])
    (hnb : ∀ x ∈ ds, x ≠ 32) (ht : buf.take (ds.length + n) = ds ++ List.replicate n 32)
    (hl : ds.length + n < buf.length) :
    scanBlank buf (ds.length + n - 1) = .ok (ds.length - 1) ∧
    setB buf (ds.length - 1 + 1) 45 = .ok (buf.set ds.length 45) ∧
    (n = 0 → (buf.set ds.length 45).take (ds.length + 1) = ds ++ [45]) ∧
    (0 < n → (buf.set ds.length 45).take (ds.length + n) = ds ++ 45 :: List.replicate (n - 1) 32) := by
  have hpos : 0 < ds.length := List.length_pos_iff.2 hne
  have hx : ds.getLast hne ≠ 32 := hnb _ (List.getLast_mem hne)
  have h1 := scan_blank buf ds n hne hx ht
  have e : ds.length - 1 + 1 = ds.length := by omega
  refine ⟨h1, ?_, ?_, ?_⟩
  · rw [e]; exact setB_ok _ _ _ (by omega)
  · intro h0
    subst h0
    rw [take_set_succ _ _ _ (by omega)]
    simpa using ht
  · intro h0
    rw [List.take_set, ht, List.set_append]
    simp only [Nat.lt_irrefl, if_false, Nat.sub_self]
    obtain ⟨m, rfl⟩ : ∃ m, n = m + 1 := ⟨n - 1, by omega⟩
    simp [List.replicate_succ]

theorem fmtIntCore_spec (buf : List Byte) (neg : Bool) (u : Nat) (b : Base) (pad : Int)
    (hb : buf.length = numFmtBufLen) (hu : u < 2^64) :
    ∃ buf', fmtIntCore buf neg u b pad = .ok (buf', renderInt b pad.toNat neg u) ∧
      buf'.length = buf.length := by
  have hmax : maxBufSize = 32 := rfl
  have hlen : numFmtBufLen = 33 := rfl
  have hcap : numFmtBufCap = 33 := rfl
  obtain ⟨hd1, hd16⟩ := base_bounds b
  have hpow : u < b.divider^(21+1) := Nat.lt_of_lt_of_le hu (base_pow b)
  obtain ⟨buf1, e1, l1, t1⟩ := digitLoop_spec b.divider 21 (maxBufSize+1) buf 0 u hpow
    (by omega) (by omega) (by omega)
  have hdig : digitsOf b.divider u = (digitsLE b.divider 21 u).reverse := digitsOf_eq _ hd1 21 u hpow
  have hdl := digitsLE_length b.divider 21 u
  have hdne := digitsLE_ne_nil b.divider 21 u
  have hdnb := digitsLE_ne_blank b.divider (by omega) hd16 21 u
  generalize digitsLE b.divider 21 u = ds at e1 t1 hdig hdl hdne hdnb
  have hdpos : 0 < ds.length := List.length_pos_iff.2 hdne
  simp only [Nat.zero_add, List.take_zero, List.nil_append] at e1 t1
  have hn : ((if pad ≥ maxBufSize then (maxBufSize : Int) - 1 else pad) - ds.length).toNat
      = min pad.toNat 31 - ds.length := by
    rw [hmax]; split <;> omega
  obtain ⟨buf2, e2, l2, t2⟩ := padLoop_spec b.padCh
    ((if pad ≥ maxBufSize then (maxBufSize : Int) - 1 else pad) - ds.length).toNat buf1 ds.length
    (by rw [hn]; omega)
  rw [t1] at t2
  unfold fmtIntCore
  simp only [clampPad, e1, e2]
  generalize ((if pad ≥ maxBufSize then (maxBufSize : Int) - 1 else pad) - ds.length).toNat = n at hn e2 l2 t2 ⊢
  cases neg with
  | false =>
    simp only [Bool.false_eq_true, if_false]
    obtain ⟨buf', e3, l3, t3⟩ := revLoop_take buf2 (ds.length + n) (by omega)
    refine ⟨buf', ?_, by omega⟩
    have hle : ds.length + n ≤ numFmtBufCap := by omega
    simp only [e3, hle, if_true, t3, t2]
    congr 2
    cases b <;> simp [renderInt, leftPad, hdig, hmax, Base.padCh, Base.divider, hn] at *
  | true =>
    simp only [if_true]
    have hn0 : ds.length + n ≠ 0 := by omega
    simp only [hn0, if_false]
    by_cases hc : b.padCh = 32
    · -- decimal: blanks, the sign goes next to the digits
      have hb10 : b = .b10 := by cases b <;> simp [Base.padCh] at hc ⊢
      subst hb10
      rw [hc] at t2
      have hdig' : digitsOf 10 u = ds.reverse := hdig
      obtain ⟨s1, s2, s3, s4⟩ := neg_blank buf2 ds n hdne hdnb t2 (by omega)
      simp only [s1, s2]
      by_cases h0 : n = 0
      · have hr : (if ds.length - 1 = ds.length + n - 1 then ds.length + n + 1 else ds.length + n)
            = ds.length + 1 := by rw [if_pos (by omega)]; omega
        rw [hr]
        obtain ⟨buf', e3, l3, t3⟩ := revLoop_take (buf2.set ds.length 45) (ds.length + 1) (by simp; omega)
        refine ⟨buf', ?_, by simp at l3; omega⟩
        have hle : ds.length + 1 ≤ numFmtBufCap := by omega
        simp only [Nat.add_sub_cancel] at e3
        simp only [Nat.add_sub_cancel, e3, hle, if_true, t3, s3 h0]
        congr 2
        have hw : min pad.toNat 31 - (ds.length + 1) = 0 := by omega
        simp [renderInt, leftPad, hdig', hmax, hw]
      · have hr : (if ds.length - 1 = ds.length + n - 1 then ds.length + n + 1 else ds.length + n)
            = ds.length + n := by rw [if_neg (by omega)]
        rw [hr]
        obtain ⟨buf', e3, l3, t3⟩ := revLoop_take (buf2.set ds.length 45) (ds.length + n) (by simp; omega)
        refine ⟨buf', ?_, by simp at l3; omega⟩
        have hle : ds.length + n ≤ numFmtBufCap := by omega
        simp only [e3, hle, if_true, t3, s4 (by omega)]
        congr 2
        have hw : min pad.toNat 31 - (ds.length + 1) = n - 1 := by omega
        simp [renderInt, leftPad, hdig', hmax, hw]
    · -- octal / hex: zero padding, the sign is appended (ends up in front)
      obtain ⟨s1, s2, s3⟩ := neg_nonblank buf2 ds n b.padCh hc hdne hdnb t2 (by omega)
      simp only [s1, s2, if_true]
      obtain ⟨buf', e3, l3, t3⟩ := revLoop_take (buf2.set (ds.length + n) 45) (ds.length + n + 1) (by simp; omega)
      refine ⟨buf', ?_, by simp at l3; omega⟩
      have hle : ds.length + n + 1 ≤ numFmtBufCap := by omega
      simp only [Nat.add_sub_cancel] at e3
      simp only [Nat.add_sub_cancel, e3, hle, if_true, t3, s3]
      congr 2
      cases b with
      | b10 => exact absurd rfl hc
      | b8 =>
        have hdig' : digitsOf 8 u = ds.reverse := hdig
        simp [renderInt, leftPad, hdig', hmax, Base.padCh, Base.divider, hn]
      | b16 =>
        have hdig' : digitsOf 16 u = ds.reverse := hdig
        simp [renderInt, leftPad, hdig', hmax, Base.padCh, Base.divider, hn]

/-! ### the type switch -/

theorem classify_lt (a : Arg) (neg : Bool) (u : Nat) (h : classify a = some (neg, u)) : u < 2^64 := by
  cases a with
  | uns k v =>
    simp only [classify, Option.some.injEq, Prod.mk.injEq] at h
    have := Nat.mod_lt v (show 0 < 2^64 by decide)
    omega
  | sgn k v =>
    simp only [classify] at h
    split at h
    · simp only [Option.some.injEq, Prod.mk.injEq] at h
      rw [← h.2]
      unfold negMag wrap64
      omega
    · simp only [Option.some.injEq, Prod.mk.injEq] at h
      rw [← h.2]
      unfold wrap64
      omega
  | str s => simp [classify] at h
  | bytes s => simp [classify] at h
  | bool b => simp [classify] at h
  | other => simp [classify] at h

theorem sbits_le (k : SKind) : (2 : Int) ^ (k.bits - 1) ≤ 2^63 := by
  cases k <;> decide

theorem ubits_le (k : UKind) : 2 ^ k.bits ≤ 2^64 := by
  cases k <;> decide

theorem classify_uns (k : UKind) (v : Nat) (h : (Arg.uns k v).inRange = true) :
    classify (.uns k v) = some (false, v) := by
  simp only [Arg.inRange, decide_eq_true_eq] at h
  have := ubits_le k
  simp only [classify]
  rw [Nat.mod_eq_of_lt (by omega)]

theorem classify_sgn (k : SKind) (v : Int) (h : (Arg.sgn k v).inRange = true) :
    classify (.sgn k v) = some (decide (v < 0), v.natAbs) := by
  simp only [Arg.inRange, Bool.and_eq_true, decide_eq_true_eq] at h
  have := sbits_le k
  have hw : wrap64 v = v := by unfold wrap64; omega
  simp only [classify, hw]
  by_cases hv : v < 0
  · simp only [hv, if_true, decide_true]
    congr 2
    unfold negMag wrap64
    omega
  · simp only [hv, if_false, decide_false]
    congr 2
    omega

theorem fmtInt_total (buf : List Byte) (a : Arg) (b : Base) (pad : Int) (hb : buf.length = numFmtBufLen) :
    ∃ buf' out, fmtInt buf a b pad = .ok (buf', out) ∧ buf'.length = numFmtBufLen := by
  unfold fmtInt
  cases hc : classify a with
  | none => exact ⟨buf, _, rfl, hb⟩
  | some p =>
    obtain ⟨neg, u⟩ := p
    obtain ⟨buf', e, l⟩ := fmtIntCore_spec buf neg u b pad hb (classify_lt a neg u hc)
    exact ⟨buf', _, e, by omega⟩

theorem fmtInt_exact (buf : List Byte) (a : Arg) (b : Base) (pad : Int) (hb : buf.length = numFmtBufLen)
    (hr : a.inRange = true) :
    ∃ buf', fmtInt buf a b pad = .ok (buf', renderIntArg b pad.toNat a) ∧ buf'.length = numFmtBufLen := by
  unfold fmtInt
  cases a with
  | uns k v =>
    rw [classify_uns k v hr]
    have := ubits_le k
    simp only [Arg.inRange, decide_eq_true_eq] at hr
    obtain ⟨buf', e, l⟩ := fmtIntCore_spec buf false v b pad hb (by omega)
    exact ⟨buf', e, by omega⟩
  | sgn k v =>
    rw [classify_sgn k v hr]
    have := sbits_le k
    simp only [Arg.inRange, Bool.and_eq_true, decide_eq_true_eq] at hr
    obtain ⟨buf', e, l⟩ := fmtIntCore_spec buf (decide (v < 0)) v.natAbs b pad hb (by omega)
    exact ⟨buf', e, by omega⟩
  | str s => exact ⟨buf, rfl, hb⟩
  | bytes s => exact ⟨buf, rfl, hb⟩
  | bool b => exact ⟨buf, rfl, hb⟩
  | other => exact ⟨buf, rfl, hb⟩

/-! ### verbs and the scanner -/

theorem fmtVerb_total (buf : List Byte) (c : Byte) (a : Arg) (pad : Int) (hb : buf.length = numFmtBufLen) :
    ∃ buf' out, fmtVerb buf c a pad = .ok (buf', out) ∧ buf'.length = numFmtBufLen := by
  unfold fmtVerb
  split
  · obtain ⟨buf', out, e, l⟩ := fmtInt_total buf a .b8 pad hb
    exact ⟨buf', [out], by simp [e, Res.bind], l⟩
  split
  · obtain ⟨buf', out, e, l⟩ := fmtInt_total buf a .b10 pad hb
    exact ⟨buf', [out], by simp [e, Res.bind], l⟩
  split
  · obtain ⟨buf', out, e, l⟩ := fmtInt_total buf a .b16 pad hb
    exact ⟨buf', [out], by simp [e, Res.bind], l⟩
  split
  · exact ⟨buf, _, rfl, hb⟩
  · exact ⟨buf, _, rfl, hb⟩

theorem scan_total : ∀ (fmt : List Byte) (mode : Option Int) (args : List Arg) (buf : List Byte),
    buf.length = numFmtBufLen → ∃ ws, scan mode fmt args buf = .ok ws
  | [], mode, args, buf, _ => by cases mode <;> exact ⟨_, rfl⟩
  | c :: rest, none, args, buf, hb => by
    simp only [scan]
    split
    · exact scan_total rest _ args buf hb
    · obtain ⟨ws, e⟩ := scan_total rest none args buf hb
      rw [e]; exact ⟨_, rfl⟩
  | c :: rest, some pad, args, buf, hb => by
    simp only [scan]
    split
    · obtain ⟨ws, e⟩ := scan_total rest none args buf hb
      rw [e]; exact ⟨_, rfl⟩
    split
    · exact scan_total rest _ args buf hb
    split
    · cases args with
      | nil =>
        obtain ⟨ws, e⟩ := scan_total rest none [] buf hb
        rw [e]; exact ⟨_, rfl⟩
      | cons a args =>
        obtain ⟨buf', out, e, l⟩ := fmtVerb_total buf c a pad hb
        obtain ⟨ws, e2⟩ := scan_total rest none args buf' l
        simp only [e, e2]; exact ⟨_, rfl⟩
    · obtain ⟨ws, e⟩ := scan_total rest (some pad) args buf hb
      rw [e]; exact ⟨_, rfl⟩

/-! ### exactness -/

/-- scanner state of the model that corresponds to a parser state -/
def modeOf : PMode → Option Int
  | .text => none
  | .pct => some 0
  | .width w => some w

theorem modeOf_ne_text (m : PMode) (h : m ≠ .text) : modeOf m = some (m.w : Int) := by
  cases m <;> simp [modeOf, PMode.w] at h ⊢

theorem flatten_replicate_single (n : Nat) (c : Byte) :
    (List.replicate n [c]).flatten = List.replicate n c := by
  induction n with
  | zero => rfl
  | succ n ih => simp [List.replicate_succ, ih]

theorem flatten_map_single (s : List Byte) : (s.map fun c => [c]).flatten = s := by
  induction s with
  | nil => rfl
  | cons a s ih => simp [ih]

theorem fmtString_exact (a : Arg) (w : Nat) (hw : w < 2^63) (hr : a.inRange = true) :
    (fmtString a (w : Int)).flatten = render .s w a := by
  cases a with
  | str s =>
    simp only [Arg.inRange, decide_eq_true_eq] at hr
    have : (strPadCount (w : Int) s.length).toNat = w - s.length := by unfold strPadCount wrap64; omega
    simp [fmtString, fmtRepeat, render, leftPad, this, flatten_map_single]
  | bytes s =>
    simp only [Arg.inRange, decide_eq_true_eq] at hr
    have : (strPadCount (w : Int) s.length).toNat = w - s.length := by unfold strPadCount wrap64; omega
    simp [fmtString, fmtRepeat, render, leftPad, this]
  | uns k v => simp [fmtString, render]
  | sgn k v => simp [fmtString, render]
  | bool b => simp [fmtString, render]
  | other => simp [fmtString, render]

theorem fmtBool_exact (a : Arg) (w : Nat) : (fmtBool a).flatten = render .t w a := by
  cases a with
  | bool b => cases b <;> simp [fmtBool, render]
  | _ => simp [fmtBool, render]

theorem fmtVerb_exact (buf : List Byte) (c : Byte) (a : Arg) (w : Nat) (v : Verb)
    (hv : Verb.ofByte c = some v) (hw : w < 2^63) (hr : a.inRange = true)
    (hb : buf.length = numFmtBufLen) :
    ∃ buf' out, fmtVerb buf c a (w : Int) = .ok (buf', out) ∧ buf'.length = numFmtBufLen ∧
      out.flatten = render v w a := by
  unfold Verb.ofByte at hv
  unfold fmtVerb
  by_cases h1 : c = 100
  · have : ¬ c = 111 := by rw [h1]; decide
    rw [if_pos h1] at hv; simp only [Option.some.injEq] at hv
    subst hv
    obtain ⟨buf', e, l⟩ := fmtInt_exact buf a .b10 w hb hr
    rw [if_neg this, if_pos h1, e]
    exact ⟨buf', _, rfl, l, by simp [render]⟩
  by_cases h2 : c = 120
  · have : ¬ c = 111 := by rw [h2]; decide
    rw [if_neg h1, if_pos h2] at hv; simp only [Option.some.injEq] at hv
    subst hv
    obtain ⟨buf', e, l⟩ := fmtInt_exact buf a .b16 w hb hr
    rw [if_neg this, if_neg h1, if_pos h2, e]
    exact ⟨buf', _, rfl, l, by simp [render]⟩
  by_cases h3 : c = 111
  · rw [if_neg h1, if_neg h2, if_pos h3] at hv; simp only [Option.some.injEq] at hv
    subst hv
    obtain ⟨buf', e, l⟩ := fmtInt_exact buf a .b8 w hb hr
    rw [if_pos h3, e]
    exact ⟨buf', _, rfl, l, by simp [render]⟩
  by_cases h4 : c = 115
  · rw [if_neg h1, if_neg h2, if_neg h3, if_pos h4] at hv; simp only [Option.some.injEq] at hv
    subst hv
    rw [if_neg h3, if_neg h1, if_neg h2, if_pos h4]
    exact ⟨buf, _, rfl, hb, fmtString_exact a w hw hr⟩
  by_cases h5 : c = 116
  · rw [if_neg h1, if_neg h2, if_neg h3, if_neg h4, if_pos h5] at hv; simp only [Option.some.injEq] at hv
    subst hv
    rw [if_neg h3, if_neg h1, if_neg h2, if_neg h4]
    exact ⟨buf, _, rfl, hb, fmtBool_exact a w⟩
  · rw [if_neg h1, if_neg h2, if_neg h3, if_neg h4, if_neg h5] at hv; cases hv

theorem ofByte_isVerb (c : Byte) (v : Verb) (h : Verb.ofByte c = some v) : isVerb c = true := by
  unfold Verb.ofByte at h
  unfold isVerb
  by_cases h1 : c = 100 <;> by_cases h2 : c = 120 <;> by_cases h3 : c = 111 <;>
    by_cases h4 : c = 115 <;> by_cases h5 : c = 116 <;> simp [h1, h2, h3, h4, h5] at h ⊢

theorem scan_exact : ∀ (fmt : List Byte) (m : PMode) (args : List Arg) (buf : List Byte) (pieces : List Piece),
    buf.length = numFmtBufLen → (∀ a ∈ args, a.inRange = true) → m.w < 2^63 →
    parse m fmt = some pieces →
    ∃ ws, scan (modeOf m) fmt args buf = .ok ws ∧ ws.flatten = specOutput pieces args
  | [], m, args, buf, pieces, hb, hr, hw, hp => by
    simp only [parse] at hp
    split at hp
    · simp only [Option.some.injEq] at hp
      subst hp
      refine ⟨_, ?_, rfl⟩
      cases h : modeOf m <;> rfl
    · cases hp
  | c :: rest, m, args, buf, pieces, hb, hr, hw, hp => by
    simp only [parse] at hp
    by_cases hm : m = .text
    · subst hm
      simp only [if_true, modeOf, scan] at hp ⊢
      by_cases hc : c = 37
      · simp only [hc, if_true] at hp ⊢
        exact scan_exact rest .pct args buf pieces hb hr (by simp [PMode.w]) hp
      · simp only [hc, if_false, Option.map_eq_some_iff] at hp ⊢
        obtain ⟨ps, hps, rfl⟩ := hp
        obtain ⟨ws, e, f⟩ := scan_exact rest .text args buf ps hb hr (by simp [PMode.w]) hps
        simp only [modeOf] at e
        rw [e]
        exact ⟨_, rfl, by simp [specOutput, f]⟩
    · simp only [hm, if_false] at hp
      rw [modeOf_ne_text m hm]
      simp only [scan]
      by_cases hc : c = 37
      · simp only [hc, if_true] at hp ⊢
        split at hp
        · simp only [Option.map_eq_some_iff] at hp
          obtain ⟨ps, hps, rfl⟩ := hp
          obtain ⟨ws, e, f⟩ := scan_exact rest .text args buf ps hb hr (by simp [PMode.w]) hps
          simp only [modeOf] at e
          rw [e]
          exact ⟨_, rfl, by simp [specOutput, f]⟩
        · cases hp
      · simp only [hc, if_false] at hp ⊢
        by_cases hd : 48 ≤ c ∧ c ≤ 57
        · simp only [hd, and_self, if_true] at hp ⊢
          split at hp
          · rename_i hlt
            have := scan_exact rest (.width (m.w * 10 + (c.toNat - 48))) args buf pieces hb hr
              (by simpa [PMode.w] using hlt) hp
            simp only [modeOf] at this
            have e : accumWidth (m.w : Int) c
                = ((m.w * 10 + (c.toNat - 48) : Nat) : Int) := by
              unfold accumWidth wrap64; omega
            rw [e]
            exact this
          · cases hp
        · simp only [hd, if_false] at hp ⊢
          cases hv : Verb.ofByte c with
          | none => simp [hv] at hp
          | some v =>
            simp only [hv, Option.map_eq_some_iff] at hp
            obtain ⟨ps, hps, rfl⟩ := hp
            simp only [ofByte_isVerb c v hv, if_true]
            cases args with
            | nil =>
              obtain ⟨ws, e, f⟩ := scan_exact rest .text [] buf ps hb hr (by simp [PMode.w]) hps
              simp only [modeOf] at e
              rw [e]
              exact ⟨_, rfl, by simp [specOutput, f]⟩
            | cons a args =>
              obtain ⟨buf', out, e1, l, f1⟩ := fmtVerb_exact buf c a m.w v hv hw
                (hr a (by simp)) hb
              obtain ⟨ws, e, f⟩ := scan_exact rest .text args buf' ps l
                (fun a ha => hr a (by simp [ha])) (by simp [PMode.w]) hps
              simp only [modeOf] at e
              simp only [e1, e]
              exact ⟨_, rfl, by simp [specOutput, f, f1]⟩

/-! ### magnitude -/

def digitVal (c : Byte) : Nat := if c.toNat < 58 then c.toNat - 48 else c.toNat - 87

theorem digitVal_digitCh : ∀ r, r < 16 → digitVal (digitCh r) = r := by decide

/-- a digit character: `'0'..'9'` or `'a'..'f'` -/
def isDigitCh (c : Byte) : Bool := (48 ≤ c && c ≤ 57) || (97 ≤ c && c ≤ 102)

theorem isDigitCh_digitCh : ∀ r, r < 16 → isDigitCh (digitCh r) = true := by decide

theorem ofDigits_eq_foldr (d : Nat) (L : List Byte) :
    ofDigits d L.reverse = L.foldr (fun c acc => acc * d + digitVal c) 0 := by
  unfold ofDigits
  rw [List.foldl_reverse]
  rfl

theorem foldr_digitsLE (d : Nat) (hd0 : 0 < d) (hd : d ≤ 16) : ∀ (f u : Nat), u < d^(f+1) →
    (digitsLE d f u).foldr (fun c acc => acc * d + digitVal c) 0 = u
  | 0, u, h => by
    have hu : u < d := by simpa using h
    simp only [digitsLE, List.foldr_cons, List.foldr_nil, Nat.zero_mul, Nat.zero_add]
    rw [digitVal_digitCh _ (by have := Nat.mod_lt u hd0; omega), Nat.mod_eq_of_lt hu]
  | f+1, u, h => by
    have hm := Nat.mod_lt u hd0
    simp only [digitsLE, List.foldr_cons]
    rw [digitVal_digitCh _ (by omega)]
    split
    · rename_i h0
      simp only [List.foldr_nil, Nat.zero_mul, Nat.zero_add]
      have := Nat.div_add_mod u d
      rw [h0] at this
      omega
    · rw [foldr_digitsLE d hd0 hd f (u / d) (by
        apply Nat.div_lt_of_lt_mul; rw [Nat.pow_succ, Nat.mul_comm] at h; exact h)]
      have := Nat.div_add_mod u d
      rw [Nat.mul_comm]
      exact this

theorem digitsLE_valid (d : Nat) (hd0 : 0 < d) (hd : d ≤ 16) : ∀ (f u : Nat), ∀ c ∈ digitsLE d f u,
    isDigitCh c = true ∧ digitVal c < d
  | 0, u, c, hc => by
    simp [digitsLE] at hc
    subst hc
    have hm := Nat.mod_lt u hd0
    exact ⟨isDigitCh_digitCh _ (by omega), by rw [digitVal_digitCh _ (by omega)]; exact hm⟩
  | f+1, u, c, hc => by
    simp only [digitsLE, List.mem_cons] at hc
    have hm := Nat.mod_lt u hd0
    rcases hc with hc | hc
    · subst hc
      exact ⟨isDigitCh_digitCh _ (by omega), by rw [digitVal_digitCh _ (by omega)]; exact hm⟩
    · split at hc
      · simp at hc
      · exact digitsLE_valid d hd0 hd f _ c hc

theorem ofDigits_digitsOf (d : Nat) (hd1 : 1 < d) (hd : d ≤ 16) (n : Nat) : ofDigits d (digitsOf d n) = n := by
  unfold digitsOf
  rw [ofDigits_eq_foldr]
  apply foldr_digitsLE d (by omega) hd
  calc n < d^n := Nat.lt_pow_self hd1
    _ ≤ d^(n+1) := Nat.pow_le_pow_right (by omega) (by omega)

/-- no leading zero, except for the number 0 itself -/
theorem digitsLE_last (d : Nat) (hd1 : 1 < d) (hd : d ≤ 16) : ∀ (f u : Nat), u < d^(f+1) → 0 < u →
    ∀ h, digitVal ((digitsLE d f u).getLast h) ≠ 0
  | 0, u, hu, hpos, _ => by
    have hu : u < d := by simpa using hu
    simp only [digitsLE, List.getLast_singleton]
    rw [digitVal_digitCh _ (by have := Nat.mod_lt u (show 0 < d by omega); omega), Nat.mod_eq_of_lt hu]
    omega
  | f+1, u, hu, hpos, hne => by
    by_cases h0 : u / d = 0
    · have hlt : u < d := by
        rcases Nat.div_eq_zero_iff.1 h0 with h | h <;> omega
      have : digitsLE d (f+1) u = [digitCh (u % d)] := by simp [digitsLE, h0]
      simp only [this, List.getLast_singleton]
      rw [digitVal_digitCh _ (by have := Nat.mod_lt u (show 0 < d by omega); omega), Nat.mod_eq_of_lt hlt]
      omega
    · have e : digitsLE d (f+1) u = digitCh (u % d) :: digitsLE d f (u / d) := by simp [digitsLE, h0]
      have hne' := digitsLE_ne_nil d f (u / d)
      simp only [e, List.getLast_cons hne']
      exact digitsLE_last d hd1 hd f (u / d) (by
        apply Nat.div_lt_of_lt_mul; rw [Nat.pow_succ, Nat.mul_comm] at hu; exact hu) (Nat.pos_of_ne_zero h0) hne'

/-- length of the rendered integer: never more than `maxBufSize` bytes -/
theorem renderInt_length_le (b : Base) (w : Nat) (neg : Bool) (u : Nat) (hu : u < 2^64) :
    (renderInt b w neg u).length ≤ maxBufSize := by
  obtain ⟨hd1, hd16⟩ := base_bounds b
  have hpow : u < b.divider^(21+1) := Nat.lt_of_lt_of_le hu (base_pow b)
  have hdig := digitsOf_eq b.divider hd1 21 u hpow
  have hl := digitsLE_length b.divider 21 u
  have hmax : maxBufSize = 32 := rfl
  have hlen : (digitsOf b.divider u).length ≤ 22 := by rw [hdig]; simpa using hl
  cases b <;> cases neg <;> simp [renderInt, leftPad, hmax, Base.divider] at hlen ⊢ <;> omega

end Firefly.Kfmt
