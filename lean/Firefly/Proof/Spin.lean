import Firefly.Model.Spin
/-!
Lemmas for C08: the inductive invariant of the spin-lock machine, indexed by program counter of
the *generated* programs (`Firefly.Gen.C08`). A changed instruction changes what `simp` computes
for that pc and the corresponding case stops checking.
-/
set_option linter.unusedSimpArgs false
set_option linter.unusedVariables false
namespace Firefly.Spin
open Firefly.Gen.C08

/-- inside `archAcquireSpinlock`: the exchange has read 0 and the function has not returned yet -/
def asmWon (pc : Nat) (t : Thread) : Prop :=
  match pc with
  | 4 => t.bx = 0
  | 5 => t.zf = true
  | 6 => True
  | _ => False

/-- The thread owns the lock: it is a holder (client view), or it has won the exchange inside
Acquire / TryToAcquire and has not returned yet, or it has called Release and has not stored yet. -/
def Owner (t : Thread) : Prop :=
  t.held = true ∨
  match t.ph with
  | .go .acquire 1 => True
  | .go .try_ 1 => t.tmp = 0
  | .go .release 0 => True
  | .asm _ _ pc => asmWon pc t
  | _ => False

/-- what is known about the registers at each instruction of the generated `acquireAsm` -/
def AsmLocal (cfg : Config) (pc : Nat) (t : Thread) : Prop :=
  match pc with
  | 0 => True
  | 1 => t.ax = cfg.lockAddr
  | 2 => t.ax = cfg.lockAddr
  | 3 => t.ax = cfg.lockAddr ∧ t.bx = 1
  | 4 => t.ax = cfg.lockAddr ∧ (t.bx = 0 ∨ t.bx = 1)
  | 5 => t.ax = cfg.lockAddr
  | 6 => True
  | 7 => t.ax = cfg.lockAddr
  | 8 => t.ax = cfg.lockAddr
  | 9 => t.ax = cfg.lockAddr
  | 10 => t.ax = cfg.lockAddr
  | 11 => t.ax = cfg.lockAddr
  | 12 => t.ax = cfg.lockAddr
  | 13 => True
  | 14 => t.ax = cfg.yieldFn
  | 15 => t.ax = cfg.yieldFn ∧ (t.zf = true ↔ cfg.yieldFn = 0)
  | 16 => t.ax = cfg.yieldFn ∧ cfg.yieldFn ≠ 0
  | 17 => True
  | 18 => t.ax = cfg.lockAddr
  | 19 => t.ax = cfg.lockAddr
  | _ => False

/-- per-thread part of the invariant -/
def Local (cfg : Config) (t : Thread) : Prop :=
  match t.ph with
  | .idle => True
  | .go .acquire pc => pc ≤ 1 ∧ t.held = false
  | .go .try_ pc => pc ≤ 1
  | .go .release pc => pc ≤ 1 ∧ t.held = false
  | .asm m rpc pc => m = .acquire ∧ rpc = 0 ∧ t.held = false ∧ AsmLocal cfg pc t
  | .fault => False

/-- effect of one thread-local step on the lock word and on ownership -/
def LockEffect (sh sh' : Shared) (t t' : Thread) : Prop :=
  (sh'.lock = sh.lock ∧ (Owner t' ↔ Owner t))
  ∨ (sh.lock = 0 ∧ sh'.lock = 1 ∧ ¬ Owner t ∧ Owner t')
  ∨ (sh'.lock = 0 ∧ Owner t ∧ ¬ Owner t')

/-- effect on the protected counter -/
def CtrEffect (sh sh' : Shared) (t t' : Thread) : Prop :=
  (sh'.ctr = sh.ctr ∧ sh'.incs = sh.incs ∧ ∀ v, t'.loc = some v → v = sh.ctr ∧ t'.held = true)
  ∨ (t.held = true ∧ sh'.ctr = sh.ctr + 1 ∧ sh'.incs = sh.incs + 1 ∧ t'.loc = none ∧ sh'.lock = sh.lock)

set_option maxHeartbeats 1000000 in
/-- One instruction of the generated `acquireAsm` preserves the per-thread invariant; the lock word
changes only together with ownership (case analysis over the 20 instructions; the thread that
steps is arbitrary, all other threads do not appear). -/
theorem asm_local (cfg : Config) (sh : Shared) (t : Thread) (rpc pc : Nat) (m : Method) hv
    (hph : t.ph = .asm m rpc pc) (hL : Local cfg t)
    (hw : sh.lock = 0 ∨ sh.lock = 1) (ho : Owner t → sh.lock = 1)
    (hloc : ∀ v, t.loc = some v → v = sh.ctr ∧ t.held = true) :
    let r := asmStep cfg sh t m rpc pc hv
    Local cfg r.2 ∧ LockEffect sh r.1 t r.2 ∧ CtrEffect sh r.1 t r.2 := by
  -- fail fast when the program no longer has the shape the pc-indexed invariant was written for
  first
    | (have _hshape : acquireAsm.length = 20 := by decide)
    | fail "acquireAsm no longer has the 20 instructions the pc-indexed invariant (AsmLocal, asmWon) was written for"
  simp only [Local, hph] at hL
  obtain ⟨rfl, rfl, hheld, hA⟩ := hL
  have hnl : ∀ v, ¬ t.loc = some v := fun v h => by have := (hloc v h).2; simp [hheld] at this
  have hO : Owner t ↔ asmWon pc t := by simp [Owner, hheld, hph]
  rw [hO] at ho
  rcases pc with _|_|_|_|_|_|_|_|_|_|_|_|_|_|_|_|_|_|_|_|pc
  all_goals simp only [AsmLocal] at hA
  all_goals simp only [asmWon] at ho
  all_goals (try rcases hw with hw | hw)
  all_goals (try (rcases hA with ⟨hax, hb | hb⟩))
  all_goals first
    | (simp [asmStep, acquireAsm, load64, load32, store32, store64, getReg, setReg, fpStateOff, fpAttemptsOff,
        Local, AsmLocal, hheld, LockEffect, CtrEffect, Owner, asmWon, hph, hnl, hw, two32, *]; done)
    | (cases hz : t.zf
       all_goals (try simp only [hz, Bool.false_eq_true, false_iff, true_iff] at hA)
       all_goals (rcases hv with _ | ⟨a, b, c, d, z⟩)
       all_goals simp [asmStep, acquireAsm, load64, load32, store32, store64, getReg, setReg, fpStateOff, fpAttemptsOff,
        Local, AsmLocal, hheld, LockEffect, CtrEffect, Owner, asmWon, hph, hnl, hw, two32, hz, *])

set_option maxHeartbeats 1000000 in
/-- Inside `archAcquireSpinlock` ownership is never lost, is gained only by the exchange at
instruction 3 reading 0 from the lock word, and `RET` is executed only by an owner. -/
theorem asm_own (cfg : Config) (sh : Shared) (t : Thread) (rpc pc : Nat) (m : Method) hv
    (hph : t.ph = .asm m rpc pc) (hL : Local cfg t)
    (hw : sh.lock = 0 ∨ sh.lock = 1) (ho : Owner t → sh.lock = 1) :
    let r := asmStep cfg sh t m rpc pc hv
    (Owner t → Owner r.2 ∧ r.1.lock = 1) ∧
    (¬ Owner t → Owner r.2 → pc = 3 ∧ sh.lock = 0 ∧ r.1.lock = 1) ∧
    (acquireAsm[pc]? = some .ret → Owner t) ∧
    (∀ m' pc', r.2.ph = .go m' pc' → acquireAsm[pc]? = some .ret) := by
  -- fail fast when the program no longer has the shape the pc-indexed invariant was written for
  first
    | (have _hshape : acquireAsm.length = 20 := by decide)
    | fail "acquireAsm no longer has the 20 instructions the pc-indexed invariant (AsmLocal, asmWon) was written for"
  simp only [Local, hph] at hL
  obtain ⟨rfl, rfl, hheld, hA⟩ := hL
  have hO : Owner t ↔ asmWon pc t := by simp [Owner, hheld, hph]
  rw [hO] at ho
  rcases pc with _|_|_|_|_|_|_|_|_|_|_|_|_|_|_|_|_|_|_|_|pc
  all_goals simp only [AsmLocal] at hA
  all_goals simp only [asmWon] at ho
  all_goals (try rcases hw with hw | hw)
  all_goals (try (rcases hA with ⟨hax, hb | hb⟩))
  all_goals first
    | (simp [asmStep, acquireAsm, load64, load32, store32, store64, getReg, setReg, fpStateOff, fpAttemptsOff,
        hheld, Owner, asmWon, hph, hw, two32, *]; done)
    | (cases hz : t.zf
       all_goals (try simp only [hz, Bool.false_eq_true, false_iff, true_iff] at hA)
       all_goals (rcases hv with _ | ⟨a, b, c, d, z⟩)
       all_goals simp [asmStep, acquireAsm, load64, load32, store32, store64, getReg, setReg, fpStateOff, fpAttemptsOff,
        hheld, Owner, asmWon, hph, hw, two32, hz, *]
       all_goals (exfalso; simp_all))

/-- the same for one atomic operation of the generated Go bodies -/
theorem go_local (cfg : Config) (sh : Shared) (t : Thread) (m : Method) (pc : Nat)
    (hph : t.ph = .go m pc) (hL : Local cfg t)
    (hw : sh.lock = 0 ∨ sh.lock = 1) (ho : Owner t → sh.lock = 1)
    (hloc : ∀ v, t.loc = some v → v = sh.ctr ∧ t.held = true) :
    let r := goStep sh t m pc
    Local cfg r.2 ∧ LockEffect sh r.1 t r.2 ∧ CtrEffect sh r.1 t r.2 := by
  cases m <;> simp only [Local, hph] at hL
  · -- Acquire
    obtain ⟨hpc, hheld⟩ := hL
    have hnl : ∀ v, ¬ t.loc = some v := fun v h => by have := (hloc v h).2; simp [hheld] at this
    have : pc = 0 ∨ pc = 1 := by omega
    rcases this with rfl | rfl <;>
      simp [goStep, body, acquireGo, finish, Local, AsmLocal, LockEffect, CtrEffect, Owner, asmWon, hph, hheld, hnl]
  · -- TryToAcquire
    have : pc = 0 ∨ pc = 1 := by omega
    rcases this with rfl | rfl
    · rcases hw with hw | hw
      · have hno : ¬ Owner t := fun h => by have := ho h; omega
        have hh : t.held = false := by
          cases h : t.held
          · rfl
          · exact absurd (Or.inl h) hno
        have hnl : ∀ v, ¬ t.loc = some v := fun v h => by have := (hloc v h).2; simp [hh] at this
        simp [Owner, hph, hh] at hno
        simp [goStep, body, tryGo, Local, LockEffect, CtrEffect, Owner, hph, hw, two32, hh, hnl]
      · simp [goStep, body, tryGo, Local, LockEffect, CtrEffect, Owner, hph, hw, two32]
        exact hloc
    · cases hh : t.held <;> cases htz : (t.tmp == 0) <;>
        simp [goStep, body, tryGo, finish, Local, LockEffect, CtrEffect, Owner, hph, hh, htz] <;>
        simp_all
  · -- Release
    obtain ⟨hpc, hheld⟩ := hL
    have hnl : ∀ v, ¬ t.loc = some v := fun v h => by have := (hloc v h).2; simp [hheld] at this
    have : pc = 0 ∨ pc = 1 := by omega
    rcases this with rfl | rfl <;>
      simp [goStep, body, releaseGo, finish, Local, LockEffect, CtrEffect, Owner, hph, hheld, hnl, two32]

/-- The thread-local step preserves the per-thread invariant and changes the lock word only
together with ownership. -/
theorem tstep_local (cfg : Config) (sh sh' : Shared) (t t' : Thread) (ch : Choice)
    (hL : Local cfg t) (hw : sh.lock = 0 ∨ sh.lock = 1) (ho : Owner t → sh.lock = 1)
    (hloc : ∀ v, t.loc = some v → v = sh.ctr ∧ t.held = true)
    (h : tstep cfg sh t ch = some (sh', t')) :
    Local cfg t' ∧ LockEffect sh sh' t t' ∧ CtrEffect sh sh' t t' := by
  unfold tstep at h
  split at h
  · -- callAcquire
    rename_i hph
    split at h
    · cases h
    · rename_i hh
      have hh : t.held = false := by simpa using hh
      have hnl : ∀ v, ¬ t.loc = some v := fun v h => by have := (hloc v h).2; simp [hh] at this
      cases h
      simp [Local, LockEffect, CtrEffect, Owner, hph, hh, hnl]
  · -- callTry
    rename_i hph
    cases h
    simp [Local, LockEffect, CtrEffect, Owner, hph]
    exact hloc
  · -- callRelease
    rename_i hph
    split at h
    · rename_i hh
      cases h
      simp [Local, LockEffect, CtrEffect, Owner, hph, hh]
    · cases h
  · -- csRead
    rename_i hph
    split at h
    · rename_i hh
      cases h
      simp [Local, LockEffect, CtrEffect, Owner, hph, hh]
    · cases h
  · -- csWrite
    rename_i hph
    split at h
    · rename_i v hh hl
      cases h
      simp [Local, LockEffect, CtrEffect, Owner, hph, hh, (hloc v hl).1]
    · cases h
  · rename_i m pc hph
    have h := Option.some.inj h
    have := go_local cfg sh t m pc hph hL hw ho hloc
    simp only [h] at this
    exact this
  · rename_i m pc _ _ _ _ _ hph
    have h := Option.some.inj h
    have := go_local cfg sh t m pc hph hL hw ho hloc
    simp only [h] at this
    exact this
  · rename_i m rpc pc hph
    have h := Option.some.inj h
    have := asm_local cfg sh t rpc pc m none hph hL hw ho hloc
    simp only [h] at this
    exact this
  · rename_i m rpc pc a b c d z hph
    have h := Option.some.inj h
    have := asm_local cfg sh t rpc pc m (some (a, b, c, d, z)) hph hL hw ho hloc
    simp only [h] at this
    exact this
  · cases h

end Firefly.Spin
