import Firefly.Proof.AmlFlatNs
/-!
C11, the data object of a `Name` declaration, generalised: an integer (`AmlConstDecl`) or a STRING written at definition
level.  `DVal` is the data of the fragment, `DataDecl` what the first pass makes of it (one new childless object, last child
of the innermost scope block), `dval_row` its row of the opcode table, `treeData_dval` what the namespace reader
(`treeDataDesc`) reads back from it.
-/
namespace Firefly.AmlParser.F
open Firefly.AmlLex Firefly.AmlTree Firefly.C13 Firefly.AmlParser Firefly.AmlParser.G Firefly.AmlParser.S
open Firefly.Gen.C12 Firefly.AmlProg

/-- a string: `parseObjectArgs` reads the value into the object itself -/
theorem args_str {d : Bytes} (f : Nat) {s5 : PState} (h5 : FP d s5) {x : Nat} (hl : live s5.tree x = true)
    (hop : (slot s5.tree x).opcode = opStringPrefix) (str : List UInt8) (base pe : Nat)
    (hr : s5.r = { offset := base, pkgEnd := pe }) (hpe : pe ≤ d.size) (hascii : ∀ b ∈ str, 1 ≤ b ∧ b ≤ 0x7f)
    (henc : ∀ i, i < (encString str).length → d[base + i]? = (encString str)[i]?) (hfit : base + (encString str).length ≤ pe) :
    ∃ a s6, parseObjectArgs d (f + 1) x s5 = .ok (a, s6) ∧ a = PRes.ok ∧ FP d s6 ∧ PayOnly x s5 s6 ∧
      slot s6.tree x = { slot s5.tree x with value := .bytes base str.length } ∧
      s6.r = { offset := base + (encString str).length, pkgEnd := pe } := by
  have key : ∃ a s6, setStringValue d x s5 = .ok (a, s6) ∧ a = PRes.ok ∧ FP d s6 ∧ PayOnly x s5 s6 ∧
      slot s6.tree x = { slot s5.tree x with value := .bytes base str.length } ∧
      s6.r = { offset := base + (encString str).length, pkgEnd := pe } := by
    unfold setStringValue
    have elex : lex (parseString d) s5 = .ok (({ data := some base, len := str.length }, PRes.ok),
        { s5 with r := { offset := base + (encString str).length, pkgEnd := pe } }) := by
      apply lex_eq
      rw [hr]
      exact string_roundtrip d str base pe hpe hascii henc hfit
    refine bind_ex elex ?_
    have h2 : FP d { s5 with r := { offset := base + (encString str).length, pkgEnd := pe } } := by
      obtain ⟨a, s2, e2, h2, _, hs2⟩ := lex_step (rel_parseString d) h5
      rw [elex] at e2
      cases e2
      exact h2
    have ho2 : live ({ s5 with r := { offset := base + (encString str).length, pkgEnd := pe } } : PState).tree x = true := hl
    obtain ⟨s3, e3, h3, hp3, hsl3, hr3⟩ := upd_step h2 ho2 (fun o => { o with value := sliceVal { data := some base, len := str.length } })
      (by keeps_links) Iff.rfl (h2.tree.info x ho2)
    refine bind_ex e3 (pure_ex ⟨rfl, h3, ?_, hsl3, by rw [hr3]⟩)
    have p12 : PayOnly x s5 { s5 with r := { offset := base + (encString str).length, pkgEnd := pe } } :=
      PayOnly.ofR x s5 _ (by rw [hr]) (by rw [hr]; show base ≤ base + (encString str).length; omega)
    exact p12.trans hp3
  obtain ⟨a, s6, e, ha, rest⟩ := key
  refine ⟨PRes.ok, s6, ?_, rfl, rest⟩
  subst ha
  unfold parseObjectArgs
  refine bind_ex' (getObj_live hl) ?_
  rw [hop, if_neg (by decide), if_neg (by decide), if_neg (by decide), if_neg (by decide), if_pos rfl]
  exact bind_ex' e rfl

/-- the data of a `Name` declaration of the fragment -/
inductive DVal where
  | int (w v : Nat)
  | str (s : List UInt8)

/-- the opcode of the data object -/
def DVal.op : DVal → Nat
  | .int w v => constOp w v
  | .str _ => 0x0d

def DVal.enc : DVal → List UInt8
  | .int w v => encInt w v
  | .str s => 0x0d :: encString s

/-- integer widths the encoder writes; ASCII strings -/
def DVal.OK : DVal → Prop
  | .int w _ => IntW w
  | .str s => ∀ b ∈ s, 1 ≤ b ∧ b ≤ 0x7f

/-- the namespace entry of the data (`AmlProg.dataDesc`) -/
def DVal.desc : DVal → String
  | .int w v => s!"i{intVal w v}"
  | .str s => s!"s{hexOf s}"

/-- the data object `k` holds the value: the integer, or a `[]byte` that covers exactly the string in the table -/
def DataAt (d : Bytes) (t : ObjectTree) (k : Nat) : DVal → Prop
  | .int w v => IntObj t k (intVal w v)
  | .str s => ∃ off, (slot t k).value = .bytes off s.length ∧ BytesAt d off s

theorem DataAt.of_pay {d : Bytes} {t t' : ObjectTree} {k : Nat} {dv : DVal} (h : DataAt d t k dv)
    (hp : Pay (slot t' k) = Pay (slot t k)) : DataAt d t' k dv := by
  cases dv with
  | int w v => exact IntObj.of_pay h hp
  | str s =>
    obtain ⟨off, hv, hb⟩ := h
    exact ⟨off, by rw [pay_value hp]; exact hv, hb⟩

/-- the object a data value written at definition level becomes in the first pass -/
structure DataDecl (d : Bytes) (s s' : PState) (k : Nat) (dv : DVal) : Prop where
  fp : FP d s'
  nk : live s.tree k = false
  lk : live s'.tree k = true
  opk : (slot s'.tree k).opcode = dv.op
  infk : (slot s'.tree k).infoIndex = pOpcodeTableIndex dv.op true
  thk : (slot s'.tree k).tableHandle = s.tableHandle
  dat : DataAt d s'.tree k dv
  kk : K s'.tree k = []
  pk : C13.P s'.tree k = topOf s
  rest : SameRest s s'
  old : OldKept s s' (topOf s) k
  size : s'.tree.pool.size ≤ s.tree.pool.size + 1

theorem ConstDecl.data {d : Bytes} {s s' : PState} {k w v : Nat} (c : ConstDecl d s s' k w v) : DataDecl d s s' k (.int w v) :=
  ⟨c.fp, c.nk, c.lk, c.opk, c.infk, c.thk, c.int, c.kk, c.pk, c.rest, c.old, c.size⟩

set_option maxRecDepth 20000 in
theorem str_rows : (0x0d : UInt8).toNat ≠ extOpPrefix ∧ pOpcodeTableIndex (0x0d : UInt8).toNat false ≠ badOpcode ∧
    (opFlags (pOpcodeTableIndex (0x0d : UInt8).toNat true)).isSome = true ∧
    (0x0d : UInt8).toNat ≠ pOpIntFreedObject ∧ (0x0d : UInt8).toNat ≠ opNoop := by
  decide +kernel

set_option maxRecDepth 20000 in
/-- **the first pass on a string written at definition level** (the data object of `Name(X, "abc")`): on the bytes
`0d <ASCII> 00`, `parseNextObject` creates ONE new object as the last child of the innermost scope block whose value is the
`[]byte` that covers exactly the string, and stops right behind the terminator -/
theorem str_decl_first_pass {d : Bytes} (f : Nat) {s : PState} (h : FP d s) (hne : s.scopeStack.size ≠ 0)
    (hsz : s.tree.pool.size + 1 < INV) (str : List UInt8) (hascii : ∀ b ∈ str, 1 ≤ b ∧ b ≤ 0x7f) (base pe : Nat)
    (hr : s.r = { offset := base, pkgEnd := pe }) (hpe : pe ≤ d.size) (hb : BytesAt d base (0x0d :: encString str))
    (hfit : base + (0x0d :: encString str).length ≤ pe) :
    ∃ s' k, parseNextObject d (f + 3) s = .ok (PRes.ok, s') ∧ DataDecl d s s' k (.str str) ∧
      s'.r = { offset := base + (0x0d :: encString str).length, pkgEnd := pe } := by
  obtain ⟨r1, r2, r3, r4, r5⟩ := str_rows
  obtain ⟨hop, hb2⟩ := BytesAt.tail hb
  rw [List.length_cons] at hfit ⊢
  obtain ⟨x, s5, o, hk⟩ := nextObject_open (f + 2) h hne hsz 0x0d base pe hr hpe hop (by omega) r1 r2 r3 r4 r5
  obtain ⟨a, s6, e6, ha, h6, hp6, hsl6, hr6⟩ := args_str (f + 1) o.fp o.lx o.opx str (base + 1) pe o.r hpe hascii hb2 (by omega)
  subst ha
  refine ⟨s6, x, hk _ _ e6, ?_, by rw [hr6]; congr 1; omega⟩
  have hl6 : ∀ y, live s6.tree y = live s5.tree y := hp6.links.live
  have r56 : SameRest s5 s6 := ⟨hp6.same.1, hp6.same.2.1, hp6.scope, hp6.pkg, hp6.same.2.2⟩
  have hxs : ∀ y, live s.tree y = true → y ≠ x := fun y hy e => by rw [e, o.nx] at hy; cases hy
  have hbs : BytesAt d (base + 1) str := by
    have : BytesAt d (base + 1) (str ++ [0]) := hb2
    exact BytesAt.left this
  refine ⟨h6, o.nx, by rw [hl6]; exact o.lx, by rw [hsl6]; exact o.opx, by rw [hsl6]; exact o.infx, by rw [hsl6]; exact o.thx,
    ⟨base + 1, by rw [hsl6], hbs⟩, ?_, ?_, o.rest.trans r56, ?_, by rw [hp6.links.size]; exact o.size⟩
  · rw [kids_sameLinks o.fp.tree.wf hp6.links o.lx]; exact o.kx
  · rw [hp6.links.p]; exact o.px
  · refine ⟨fun y hy => by rw [hl6]; exact o.old.lv y hy, fun y hy => by rw [hp6.links.p]; exact o.old.par y hy, ?_, ?_⟩
    · intro y hy
      rw [hp6.others y (hxs y hy)]; exact o.old.pay y hy
    · intro y hy
      rw [kids_sameLinks o.fp.tree.wf hp6.links (o.old.lv y hy)]; exact o.old.kids y hy

theorem DVal.enc_pos (dv : DVal) : 1 ≤ dv.enc.length := by
  cases dv with
  | int w v => exact encInt_pos w v
  | str s => simp [DVal.enc]

/-- **the first pass on the data object of a `Name` declaration**, integer or string -/
theorem data_decl_first_pass {d : Bytes} (f : Nat) {s : PState} (h : FP d s) (hne : s.scopeStack.size ≠ 0)
    (hsz : s.tree.pool.size + 1 < INV) (dv : DVal) (hok : dv.OK) (base pe : Nat) (hr : s.r = { offset := base, pkgEnd := pe })
    (hpe : pe ≤ d.size) (hb : BytesAt d base dv.enc) (hfit : base + dv.enc.length ≤ pe) :
    ∃ s' k, parseNextObject d (f + 3) s = .ok (PRes.ok, s') ∧ DataDecl d s s' k dv ∧
      s'.r = { offset := base + dv.enc.length, pkgEnd := pe } := by
  cases dv with
  | int w v =>
    obtain ⟨s', k, e, cd, hr'⟩ := const_decl_first_pass f h hne hsz w v hok base pe hr hpe hb hfit
    exact ⟨s', k, e, cd.data, hr'⟩
  | str str => exact str_decl_first_pass f h hne hsz str hok base pe hr hpe hb hfit

/-! ## the table row of the data object -/

set_option maxRecDepth 20000 in
theorem row_13 : rowSummary 13 = some (false, false, false, 1, [4]) := by decide +kernel

/-- the row of a data object: not named, not executable, not deferred, no term argument -/
theorem dval_row (dv : DVal) : ∃ fl ac, opFlags (pOpcodeTableIndex dv.op true) = some fl ∧ hasFlag fl flagNamed = false ∧
    hasFlag fl flagExecutable = false ∧ hasFlag fl flagDeferParsing = false ∧
    opArgCount (pOpcodeTableIndex dv.op true) = some ac ∧ InfoOK (pOpcodeTableIndex dv.op true) ∧
    argCnt (pOpcodeTableIndex dv.op true) = ac ∧
    ∀ k, k < ac → argAt (pOpcodeTableIndex dv.op true) k ≠ argTypeTermArg ∧
      argAt (pOpcodeTableIndex dv.op true) k ≠ argTypeDataRefObj := by
  cases dv with
  | int w v => exact const_row w v
  | str s =>
    obtain ⟨fl, a1, a2, a3, a4, a5, a6, a7, a8⟩ := rowSummary_spec row_13
    exact ⟨fl, 1, a1, a2, a3, a4, a5, a6, a7, fun k hk => by
      show argAt (pOpcodeTableIndex 13 true) k ≠ argTypeTermArg ∧ argAt (pOpcodeTableIndex 13 true) k ≠ argTypeDataRefObj
      rw [a8 k hk]; exact one_arg 4 (by decide) (by decide) k hk⟩

theorem dval_info (dv : DVal) : InfoOK (pOpcodeTableIndex dv.op true) := by
  obtain ⟨_, _, _, _, _, _, _, hi, _⟩ := dval_row dv
  exact hi

/-- the guards of the five quiet walks hold at a data object -/
theorem guards_dk {t : ObjectTree} {h k : Nat} {dv : DVal} (hop : (slot t k).opcode = dv.op)
    (hinf : (slot t k).infoIndex = pOpcodeTableIndex dv.op true) : Guards t h k := by
  cases dv with
  | int w v => exact guards_k hop hinf
  | str s =>
    obtain ⟨fl, ac, a1, a2, a3, a4, a5, a6, _, a8⟩ := dval_row (.str s)
    have a1' : opFlags (slot t k).infoIndex = some fl := by rw [hinf]; exact a1
    have hne : (slot t k).opcode ≠ opScope ∧ (slot t k).opcode ≠ opIntNamePathOrMethodCall := by
      rw [hop]; exact ⟨show (13 : Nat) ≠ opScope by decide, show (13 : Nat) ≠ opIntNamePathOrMethodCall by decide⟩
    refine ⟨⟨fl, a1', a3, fun hq => hne.1 hq.1⟩, ⟨fl, a1', a3, Or.inl ?_⟩, ⟨fl, a1', a4⟩, hne.2,
      ⟨fl, a1', Or.inr ⟨ac, by rw [hinf]; exact a5, by rw [hinf]; exact a6, by rw [hinf]; exact a8⟩⟩⟩
    intro hq; rw [a2] at hq; cases hq.1

/-! ## what the namespace reader reads back -/

theorem treeDesc_dval (t : ObjectTree) (tables : Array Bytes) (c : Nat) (o : AmlTree.Obj) (dv : DVal) (h : o.opcode = dv.op) :
    treeDesc t tables c o = none ∧ o.opcode ≠ 0x1f6 ∧ o.opcode ≠ 0x1fd := by
  cases dv with
  | int w v =>
    obtain ⟨k1, k2, k3, _⟩ := treeDesc_const t tables c o w v h
    exact ⟨k1, k2, k3⟩
  | str s =>
    unfold treeDesc
    rw [h]
    simp [DVal.op]

/-- the bytes of a slice that covers `s` -/
theorem sliceBytes_at {d : Bytes} {off : Nat} {s : List UInt8} (hb : BytesAt d off s) : sliceBytes d off s.length = s := by
  unfold sliceBytes
  apply List.ext_getElem?
  intro i
  rw [Array.getElem?_toList, Array.getElem?_extract]
  by_cases hi : i < s.length
  · have h1 := hb i hi
    have hs : s[i]? = some s[i] := List.getElem?_eq_getElem hi
    have hlt : off + i < d.size := by
      rcases Nat.lt_or_ge (off + i) d.size with q | q
      · exact q
      · rw [Array.getElem?_eq_none q, hs] at h1; cases h1
    rw [if_pos (by omega), h1]
  · rw [if_neg (by omega), List.getElem?_eq_none (by omega)]

/-- **`treeDataDesc` reads the declared data back**: the integer, or the hexadecimal bytes of the string taken from the table
of the object's handle -/
theorem treeData_dval {d : Bytes} {t : ObjectTree} {k : Nat} {dv : DVal} (tables : Array Bytes) (hl : live t k = true)
    (hop : (slot t k).opcode = dv.op) (hd : DataAt d t k dv) (htab : tables.getD ((slot t k).tableHandle - 1) #[] = d) :
    treeDataDesc t tables 64 k = dv.desc := by
  rw [show (64 : Nat) = 63 + 1 from rfl, treeDataDesc, pool_live hl]
  cases dv with
  | int w v =>
    obtain ⟨_, _, _, k4, k5, k6⟩ := treeDesc_const t tables k (slot t k) w v hop
    simp only [if_neg k4, if_neg k5, if_neg k6]
    exact intOf_eq hl hd
  | str s =>
    obtain ⟨off, hv, hb⟩ := hd
    have h13 : (slot t k).opcode = 0x0d := hop
    simp only [h13, if_true]
    unfold valHex DVal.desc
    rw [hv]
    simp only [htab, sliceBytes_at hb]

end Firefly.AmlParser.F
