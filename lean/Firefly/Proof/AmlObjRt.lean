import Firefly.Proof.AmlFirstShapes
import Firefly.Proof.AmlNameRt
/-!
Object-level round trips (`C11`): the simple arguments of a declaration — integer constants, strings, name strings —
are stored in the object `parseSimpleArg` creates with exactly the value the encoder wrote.
-/
namespace Firefly.AmlParser.F
open Firefly.AmlLex Firefly.AmlTree Firefly.C13 Firefly.AmlParser Firefly.AmlParser.G Firefly.AmlParser.S
open Firefly.Gen.C12

theorem lex_eq {α : Type} {x : LexM α} {s : PState} {a : α} {r' : Reader} (e : x s.r = .ok (a, r')) :
    lex x s = .ok (a, { s with r := r' }) := by
  unfold lex
  simp only [e, bind, Except.bind, pure, Except.pure]

theorem const_rt (d : Bytes) (v n base pe : Nat)
    (henc : ∀ i, i < n → d[base + i]? = (encConst v n)[i]?) (hfit : base + n ≤ pe) :
    parseNumConstant d n { offset := base, pkgEnd := pe } =
      .ok ((v % 256 ^ n, PRes.ok), { offset := base + n, pkgEnd := pe }) := by
  have henc' : ∀ i, i < n → d[base + i]? = some (UInt8.ofNat ((v / 256 ^ i) % 256)) := by
    intro i hi
    rw [henc i hi]
    simp [encConst, hi]
  have := parseNumLoop_roundtrip d v n base pe henc' hfit n 0 (by omega)
  simpa [parseNumConstant, Nat.mod_one] using this

/-- a new object carries the table handle of the parser -/
theorem newObject_handle {s s1 : PState} {op n : Nat} (e : newObject op s = .ok (n, s1)) :
    (slot s1.tree n).tableHandle = s.tableHandle := by
  unfold newObject at e
  cases hn : s.tree.newObject op (pOpcodeTableIndex op true) s.tableHandle with
  | error err => simp [hn, bind, Except.bind] at e
  | ok r =>
    obtain ⟨t', i⟩ := r
    simp only [hn, bind, Except.bind, pure, Except.pure, Except.ok.injEq, Prod.mk.injEq] at e
    obtain ⟨e1, e2⟩ := e
    subst e1; subst e2
    exact (newObject_slot hn).2.2.2.2.2

/-- the common start of `parseSimpleArg`: a fresh object with its `amlOffset` -/
theorem simpleArg_start {d : Bytes} {s : PState} (h : FP d s) (hsz : s.tree.pool.size < INV) :
    ∃ n s3, (do
        let obj ← newObject 0
        let off ← lex offset
        updObj obj fun o => { o with amlOffset := off }
        pure obj : P Nat) s = .ok (n, s3) ∧ FP d s3 ∧ Fresh1 n s s3 ∧ s3.r = s.r ∧ isK (slot s3.tree n).opcode = false := by
  obtain ⟨n, s1, e1, h1, f1, hr1, hop1, _⟩ := newObject_step h 0 hsz (by decide) info_const.1
  refine bind_ex e1 ?_
  obtain ⟨off, s2, e2, h2, hR2, hs2⟩ := lex_step (rel_offset d) h1
  refine bind_ex e2 ?_
  have hss : s2 = s1 := by rw [hs2, hR2.2]
  subst hss
  have hobj : live s2.tree n = true := f1.liven
  obtain ⟨s3, e3, h3, hp3, hsl3, hr3⟩ := upd_step h2 hobj (fun o => { o with amlOffset := off }) (by keeps_links) Iff.rfl
    (h2.tree.info _ hobj)
  refine bind_ex e3 (pure_ex ⟨h3, f1.thenPay hp3, by rw [hr3, hr1], hp3.notK (by rw [hop1]; decide)⟩)

/-- **a numeric constant argument is stored with the encoded value**: `parseSimpleArg` on the `n` little-endian bytes of
`v` creates a fresh object with the prefix opcode `op`, the value `v mod 256^n`, and advances the reader by `n` -/
theorem simpleNum_roundtrip {d : Bytes} {s : PState} (h : FP d s) {obj : Nat} (ho : live s.tree obj = true)
    (op n : Nat) (hop : op ≠ pOpIntFreedObject) (hinfo : InfoOK (pOpcodeTableIndex op true)) (hnm : isK op = false)
    (hcur : isK (slot s.tree obj).opcode = false) (v base pe : Nat) (hr : s.r = { offset := base, pkgEnd := pe })
    (henc : ∀ i, i < n → d[base + i]? = (encConst v n)[i]?) (hfit : base + n ≤ pe) :
    ∃ a s', simpleNum d obj op n s = .ok (a, s') ∧ a = (some obj, .ok) ∧ FP d s' ∧ PayOnly obj s s' ∧
      (slot s'.tree obj).value = .u64 (v % 256 ^ n) ∧ (slot s'.tree obj).opcode = op ∧
      s'.r = { offset := base + n, pkgEnd := pe } ∧ (slot s'.tree obj).infoIndex = pOpcodeTableIndex op true ∧
      (slot s'.tree obj).tableHandle = (slot s.tree obj).tableHandle := by
  unfold simpleNum
  obtain ⟨_, s1, e1, h1, hp1, hr1, hsl1⟩ := setOpcode_tot h ho op hop hnm hcur
  refine bind_ex e1 ?_
  have ho1 : live s1.tree obj = true := by rw [hp1.links.live]; exact ho
  unfold setNumValue
  have elex : lex (parseNumConstant d n) s1 = .ok ((v % 256 ^ n, PRes.ok), { s1 with r := { offset := base + n, pkgEnd := pe } }) := by
    apply lex_eq
    rw [hr1, hr]
    exact const_rt d v n base pe henc hfit
  have h2 : FP d { s1 with r := { offset := base + n, pkgEnd := pe } } := by
    obtain ⟨a, s2, e2, h2, _, hs2⟩ := lex_step (rel_parseNumConstant d n) h1
    rw [elex] at e2
    cases e2
    exact h2
  have ho2 : live ({ s1 with r := { offset := base + n, pkgEnd := pe } } : PState).tree obj = true := ho1
  obtain ⟨s3, e3, h3, hp3, hsl3, hr3⟩ := upd_step h2 ho2 (fun o => { o with value := .u64 (v % 256 ^ n) }) (by keeps_links) Iff.rfl
    (h2.tree.info obj ho2)
  have e23 : (do
      let vr ← lex (parseNumConstant d n)
      updObj obj fun o => { o with value := .u64 vr.1 }
      pure vr.2 : P PRes) s1 = .ok (PRes.ok, s3) := bind_ex' elex (bind_ex' e3 rfl)
  refine bind_ex e23 ?_
  have ho3 : live s3.tree obj = true := by rw [hp3.links.live]; exact ho2
  have hop3 : (slot s3.tree obj).opcode = op := by rw [hsl3]; show (slot s1.tree obj).opcode = op; rw [hsl1]
  obtain ⟨a, s4, e4, ha, h4, hp4, hr4, hv4⟩ := finishSimpleArg_tot h3 ho3 PRes.ok (by rw [hop3]; exact hinfo) (by rw [hop3]; exact hnm)
  have hp14 : PayOnly obj s s4 := by
    have p12 : PayOnly obj s1 { s1 with r := { offset := base + n, pkgEnd := pe } } :=
      PayOnly.ofR obj s1 _ (by rw [hr1, hr]) (by rw [hr1, hr]; show base ≤ base + n; omega)
    exact ((hp1.trans p12).trans hp3).trans hp4
  have hfin : slot s4.tree obj = { slot s3.tree obj with infoIndex := pOpcodeTableIndex (slot s3.tree obj).opcode true } := by
    unfold finishSimpleArg at e4
    have eg := getObj_live (s := s3) ho3
    simp only [bind, StateT.bind, eg, Except.bind] at e4
    have eu := updObj_ex (s := s3) (fun o' => { o' with infoIndex := pOpcodeTableIndex (slot s3.tree obj).opcode true }) (live_lt ho3)
    simp only [eu, pure, StateT.pure, Except.pure] at e4
    cases e4
    show slot (setAt s3.tree obj _) obj = _
    rw [slot_setAt', if_pos ⟨rfl, live_lt ho3⟩]
  have hth3 : (slot s3.tree obj).tableHandle = (slot s.tree obj).tableHandle := by
    rw [hsl3]; show (slot s1.tree obj).tableHandle = _; rw [hsl1]
  refine ⟨a, s4, e4, ha, h4, hp14, by rw [hv4, hsl3], by rw [hfin]; exact hop3, by rw [hr4, hr3],
    by rw [hfin]; show pOpcodeTableIndex (slot s3.tree obj).opcode true = _; rw [hop3], by rw [hfin]; exact hth3⟩

/-- the start of `parseSimpleArg`, step by step -/
theorem simpleArg_begin {d : Bytes} {s : PState} (h : FP d s) (hsz : s.tree.pool.size < INV) :
    ∃ n s1 off s3, newObject 0 s = .ok (n, s1) ∧ lex offset s1 = .ok (off, s1) ∧
      updObj n (fun o => { o with amlOffset := off }) s1 = .ok ((), s3) ∧ FP d s3 ∧ Fresh1 n s s3 ∧ s3.r = s.r ∧
      isK (slot s3.tree n).opcode = false ∧ (slot s3.tree n).tableHandle = s.tableHandle := by
  obtain ⟨n, s1, e1, h1, f1, hr1, hop1, _⟩ := newObject_step h 0 hsz (by decide) info_const.1
  have hth1 : (slot s1.tree n).tableHandle = s.tableHandle := newObject_handle e1
  obtain ⟨off, s2, e2, h2, hR2, hs2⟩ := lex_step (rel_offset d) h1
  have hss : s2 = s1 := by rw [hs2, hR2.2]
  subst hss
  have hobj : live s2.tree n = true := f1.liven
  obtain ⟨s3, e3, h3, hp3, hsl3, hr3⟩ := upd_step h2 hobj (fun o => { o with amlOffset := off }) (by keeps_links) Iff.rfl
    (h2.tree.info _ hobj)
  exact ⟨n, s2, off, s3, e1, e2, e3, h3, f1.thenPay hp3, by rw [hr3, hr1], hp3.notK (by rw [hop1]; decide),
    by rw [hsl3]; exact hth1⟩

/-- **an integer constant argument is stored with the encoded value** (`ByteData`, `WordData`, `DWordData`, `QWordData`):
`parseSimpleArg` on the `n` little-endian bytes of `v` creates a fresh, detached object with the prefix opcode, the value
`v mod 256^n`, and advances the reader by exactly `n` -/
theorem const_object_roundtrip {d : Bytes} {s : PState} (h : FP d s) (hsz : s.tree.pool.size < INV) (argType n op : Nat)
    (hat : (argType = argTypeByteData ∧ n = 1 ∧ op = opBytePrefix) ∨ (argType = argTypeWordData ∧ n = 2 ∧ op = opWordPrefix) ∨
      (argType = argTypeDwordData ∧ n = 4 ∧ op = opDwordPrefix) ∨ (argType = argTypeQwordData ∧ n = 8 ∧ op = opQwordPrefix))
    (v base pe : Nat) (hr : s.r = { offset := base, pkgEnd := pe })
    (henc : ∀ i, i < n → d[base + i]? = (encConst v n)[i]?) (hfit : base + n ≤ pe) :
    ∃ x s', parseSimpleArg d argType s = .ok ((some x, .ok), s') ∧ FP d s' ∧ live s.tree x = false ∧ live s'.tree x = true ∧
      C13.P s'.tree x = INV ∧ (slot s'.tree x).value = .u64 (v % 256 ^ n) ∧ (slot s'.tree x).opcode = op ∧
      s'.r = { offset := base + n, pkgEnd := pe } ∧ Fresh1 x s s' ∧
      (slot s'.tree x).infoIndex = pOpcodeTableIndex op true ∧ (slot s'.tree x).tableHandle = s.tableHandle := by
  obtain ⟨x, s1, off, s3, e1, e2, e3, h3, f3, hr3, hk3, hth3⟩ := simpleArg_begin h hsz
  have hop : op ≠ pOpIntFreedObject ∧ InfoOK (pOpcodeTableIndex op true) ∧ isK op = false := by
    rcases hat with ⟨_, _, e⟩ | ⟨_, _, e⟩ | ⟨_, _, e⟩ | ⟨_, _, e⟩ <;> rw [e]
    · exact ⟨by decide, info_const.2.1, by decide⟩
    · exact ⟨by decide, info_const.2.2.1, by decide⟩
    · exact ⟨by decide, info_const.2.2.2.1, by decide⟩
    · exact ⟨by decide, info_const.2.2.2.2.1, by decide⟩
  obtain ⟨a, s4, e4, ha, h4, hp4, hv4, hop4, hr4, hi4, hth4⟩ := simpleNum_roundtrip h3 f3.liven op n hop.1 hop.2.1 hop.2.2 hk3 v base pe
    (by rw [hr3]; exact hr) henc hfit
  have f4 := f3.thenPay hp4
  refine ⟨x, s4, ?_, h4, f4.nlive, f4.liven, f4.pn, hv4, hop4, hr4, f4, hi4, by rw [hth4]; exact hth3⟩
  unfold parseSimpleArg
  simp only [bind, StateT.bind, e1, Except.bind, e2, e3]
  rw [ha] at e4
  rcases hat with ⟨e, en, eo⟩ | ⟨e, en, eo⟩ | ⟨e, en, eo⟩ | ⟨e, en, eo⟩ <;> subst e <;> subst en <;> subst eo
  · rw [if_pos rfl]; exact e4
  · rw [if_neg (by decide), if_pos rfl]; exact e4
  · rw [if_neg (by decide), if_neg (by decide), if_pos rfl]; exact e4
  · rw [if_neg (by decide), if_neg (by decide), if_neg (by decide), if_pos rfl]; exact e4

/-- the slice arguments (`String`, `NameString`): `setOpcode op`, the lexer, `obj.value = slice`, the table row -/
theorem simpleSlice_roundtrip {d : Bytes} {s : PState} (h : FP d s) {obj : Nat} (ho : live s.tree obj = true)
    (op : Nat) (x : LexM (Slice × PRes)) {R : Reader → Slice × PRes → Reader → Prop} (hx : LexRel d x R)
    (hop : op ≠ pOpIntFreedObject) (hinfo : InfoOK (pOpcodeTableIndex op true)) (hnm : isK op = false)
    (hcur : isK (slot s.tree obj).opcode = false) (base pe off len adv : Nat) (hr : s.r = { offset := base, pkgEnd := pe })
    (hrun : x { offset := base, pkgEnd := pe } = .ok (({ data := some off, len := len }, PRes.ok), { offset := base + adv, pkgEnd := pe })) :
    ∃ a s', (do
        setOpcode obj op
        let res ← (do
          let sr ← lex x
          updObj obj fun o => { o with value := sliceVal sr.1 }
          pure sr.2 : P PRes)
        finishSimpleArg obj res : P (Option Nat × PRes)) s = .ok (a, s') ∧ a = (some obj, .ok) ∧ FP d s' ∧ PayOnly obj s s' ∧
      (slot s'.tree obj).value = .bytes off len ∧ (slot s'.tree obj).opcode = op ∧
      s'.r = { offset := base + adv, pkgEnd := pe } ∧ (slot s'.tree obj).infoIndex = pOpcodeTableIndex op true ∧
      (slot s'.tree obj).tableHandle = (slot s.tree obj).tableHandle := by
  obtain ⟨_, s1, e1, h1, hp1, hr1, hsl1⟩ := setOpcode_tot h ho op hop hnm hcur
  refine bind_ex e1 ?_
  have ho1 : live s1.tree obj = true := by rw [hp1.links.live]; exact ho
  have elex : lex x s1 = .ok (({ data := some off, len := len }, PRes.ok), { s1 with r := { offset := base + adv, pkgEnd := pe } }) := by
    apply lex_eq
    rw [hr1, hr]
    exact hrun
  have h2 : FP d { s1 with r := { offset := base + adv, pkgEnd := pe } } := by
    obtain ⟨a, s2, e2, h2, _, hs2⟩ := lex_step hx h1
    rw [elex] at e2
    cases e2
    exact h2
  have ho2 : live ({ s1 with r := { offset := base + adv, pkgEnd := pe } } : PState).tree obj = true := ho1
  obtain ⟨s3, e3, h3, hp3, hsl3, hr3⟩ := upd_step h2 ho2 (fun o => { o with value := sliceVal { data := some off, len := len } })
    (by keeps_links) Iff.rfl (h2.tree.info obj ho2)
  have e23 : (do
      let sr ← lex x
      updObj obj fun o => { o with value := sliceVal sr.1 }
      pure sr.2 : P PRes) s1 = .ok (PRes.ok, s3) := bind_ex' elex (bind_ex' e3 rfl)
  refine bind_ex e23 ?_
  have ho3 : live s3.tree obj = true := by rw [hp3.links.live]; exact ho2
  have hop3 : (slot s3.tree obj).opcode = op := by rw [hsl3]; show (slot s1.tree obj).opcode = op; rw [hsl1]
  obtain ⟨a, s4, e4, ha, h4, hp4, hr4, hv4⟩ := finishSimpleArg_tot h3 ho3 PRes.ok (by rw [hop3]; exact hinfo) (by rw [hop3]; exact hnm)
  have hp14 : PayOnly obj s s4 := by
    have p12 : PayOnly obj s1 { s1 with r := { offset := base + adv, pkgEnd := pe } } :=
      PayOnly.ofR obj s1 _ (by rw [hr1, hr]) (by rw [hr1, hr]; show base ≤ base + adv; omega)
    exact ((hp1.trans p12).trans hp3).trans hp4
  have hfin : slot s4.tree obj = { slot s3.tree obj with infoIndex := pOpcodeTableIndex (slot s3.tree obj).opcode true } := by
    unfold finishSimpleArg at e4
    have eg := getObj_live (s := s3) ho3
    simp only [bind, StateT.bind, eg, Except.bind] at e4
    have eu := updObj_ex (s := s3) (fun o' => { o' with infoIndex := pOpcodeTableIndex (slot s3.tree obj).opcode true }) (live_lt ho3)
    simp only [eu, pure, StateT.pure, Except.pure] at e4
    cases e4
    show slot (setAt s3.tree obj _) obj = _
    rw [slot_setAt', if_pos ⟨rfl, live_lt ho3⟩]
  have hth3 : (slot s3.tree obj).tableHandle = (slot s.tree obj).tableHandle := by
    rw [hsl3]; show (slot s1.tree obj).tableHandle = _; rw [hsl1]
  refine ⟨a, s4, e4, ha, h4, hp14, by rw [hv4, hsl3]; rfl, by rw [hfin]; exact hop3, by rw [hr4, hr3],
    by rw [hfin]; show pOpcodeTableIndex (slot s3.tree obj).opcode true = _; rw [hop3], by rw [hfin]; exact hth3⟩

/-- **a name-string argument is stored with the encoded path**: `parseSimpleArg(NameString)` on the bytes of
`encName root carets segs` creates a fresh, detached name-path object whose value is the `[]byte` that starts at the first
byte of the name and covers exactly the encoded bytes (without the NullName terminator) -/
theorem name_object_roundtrip {d : Bytes} (hd : d.size + 1024 ≤ 4294967296) {s : PState} (h : FP d s)
    (hsz : s.tree.pool.size < INV) (root : Bool) (carets : Nat) (segs : List (List UInt8)) (base pe : Nat)
    (hr : s.r = { offset := base, pkgEnd := pe }) (hpe : pe ≤ d.size) (hok : NameOK segs)
    (henc : ∀ i, i < (encName root carets segs).length → d[base + i]? = (encName root carets segs)[i]?)
    (hfit : base + (encName root carets segs).length ≤ pe) :
    ∃ x s', parseSimpleArg d argTypeNameString s = .ok ((some x, .ok), s') ∧ FP d s' ∧ live s.tree x = false ∧
      live s'.tree x = true ∧ C13.P s'.tree x = INV ∧
      (slot s'.tree x).value = .bytes base ((encName root carets segs).length - (if segs = [] then 1 else 0)) ∧
      (slot s'.tree x).opcode = opIntNamePath ∧ s'.r = { offset := base + (encName root carets segs).length, pkgEnd := pe } ∧
      Fresh1 x s s' ∧ (slot s'.tree x).infoIndex = pOpcodeTableIndex opIntNamePath true ∧
      (slot s'.tree x).tableHandle = s.tableHandle := by
  obtain ⟨x, s1, off, s3, e1, e2, e3, h3, f3, hr3, hk3, hth3⟩ := simpleArg_begin h hsz
  have hrun := name_roundtrip d root carets segs base pe (by omega) hpe hok henc hfit
  obtain ⟨a, s4, e4, ha, h4, hp4, hv4, hop4, hr4, hi4, hth4⟩ := simpleSlice_roundtrip h3 f3.liven opIntNamePath (parseNameString d)
    (rel_parseNameString d hd) (by decide) info_const.2.2.2.2.2.2.1 (by decide) hk3 base pe base _ _ (by rw [hr3]; exact hr) hrun
  have f4 := f3.thenPay hp4
  refine ⟨x, s4, ?_, h4, f4.nlive, f4.liven, f4.pn, hv4, hop4, hr4, f4, hi4, by rw [hth4]; exact hth3⟩
  unfold parseSimpleArg
  simp only [bind, StateT.bind, e1, Except.bind, e2, e3]
  rw [ha] at e4
  rw [if_neg (by decide), if_neg (by decide), if_neg (by decide), if_neg (by decide), if_neg (by decide), if_pos trivial]
  unfold simpleName setNameValue
  exact e4

/-- **a string argument is stored with the encoded value**: `parseSimpleArg(String)` on the ASCII bytes of `str` and their
terminator creates a fresh, detached object whose value is the `[]byte` that covers exactly `str` -/
theorem string_object_roundtrip {d : Bytes} {s : PState} (h : FP d s) (hsz : s.tree.pool.size < INV)
    (str : List UInt8) (base pe : Nat) (hr : s.r = { offset := base, pkgEnd := pe }) (hpe : pe ≤ d.size)
    (hascii : ∀ b ∈ str, 1 ≤ b ∧ b ≤ 0x7f)
    (henc : ∀ i, i < (encString str).length → d[base + i]? = (encString str)[i]?) (hfit : base + (encString str).length ≤ pe) :
    ∃ x s', parseSimpleArg d argTypeString s = .ok ((some x, .ok), s') ∧ FP d s' ∧ live s.tree x = false ∧
      live s'.tree x = true ∧ C13.P s'.tree x = INV ∧ (slot s'.tree x).value = .bytes base str.length ∧
      (slot s'.tree x).opcode = opStringPrefix ∧ s'.r = { offset := base + (encString str).length, pkgEnd := pe } ∧
      Fresh1 x s s' ∧ (slot s'.tree x).infoIndex = pOpcodeTableIndex opStringPrefix true ∧
      (slot s'.tree x).tableHandle = s.tableHandle := by
  obtain ⟨x, s1, off, s3, e1, e2, e3, h3, f3, hr3, hk3, hth3⟩ := simpleArg_begin h hsz
  have hrun := string_roundtrip d str base pe hpe hascii henc hfit
  obtain ⟨a, s4, e4, ha, h4, hp4, hv4, hop4, hr4, hi4, hth4⟩ := simpleSlice_roundtrip h3 f3.liven opStringPrefix (parseString d)
    (rel_parseString d) (by decide) info_const.2.2.2.2.2.1 (by decide) hk3 base pe base _ _ (by rw [hr3]; exact hr) hrun
  have f4 := f3.thenPay hp4
  refine ⟨x, s4, ?_, h4, f4.nlive, f4.liven, f4.pn, hv4, hop4, hr4, f4, hi4, by rw [hth4]; exact hth3⟩
  unfold parseSimpleArg
  simp only [bind, StateT.bind, e1, Except.bind, e2, e3]
  rw [ha] at e4
  rw [if_neg (by decide), if_neg (by decide), if_neg (by decide), if_neg (by decide), if_pos trivial]
  unfold simpleString setStringValue
  exact e4

end Firefly.AmlParser.F
