import Firefly.Model.Pmm
/-! Soundness of the boot-time allocator (`BootMemAllocator.AllocFrame`). -/
namespace Firefly.Pmm
open Firefly.Gen.Pmm

/-- regions the allocator considers at all -/
def Cand (r : Region) : Prop := r.typ = memAvailable ∧ pageSize ≤ r.len

instance (r : Region) : Decidable (Cand r) := by unfold Cand; infer_instance

/-- first frame number not touched by the region at all: round the end address up -/
def regionEndUp (r : Region) : Nat := (r.addr + r.len + (pageSize - 1)) / pageSize

/-- position of a candidate region relative to the kernel frames `[ks, ke]`: entirely before,
entirely after, or the region the image was loaded into -/
def GeoOk (ks ke : Nat) (r : Region) : Prop :=
  regionEndUp r ≤ ks ∨ ke < regionStart r ∨ (regionStart r ≤ ks ∧ ke < regionEndUp r)

/-- abstract sortedness: a later candidate region starts at or after the rounded-up end of an
earlier one -/
def Chain (m : List Region) : Prop :=
  m.Pairwise fun a c => Cand a → Cand c → regionEndUp a ≤ regionStart c

private theorem ps : pageSize = 4096 := by decide

theorem cand_start_lt_endUp {r : Region} (h : Cand r) : regionStart r + 1 ≤ regionEndUp r := by
  unfold regionStart regionEndUp; unfold Cand at h; rw [ps] at *; omega

theorem cand_endExcl_le_endUp (r : Region) : regionEndExcl r ≤ regionEndUp r := by
  unfold regionEndExcl regionEndUp; rw [ps]; omega

theorem cand_endExcl_pos {r : Region} (h : Cand r) : 1 ≤ regionEndExcl r := by
  unfold regionEndExcl; unfold Cand at h; rw [ps] at *; omega

@[simp] theorem bootScan_kStart (b : Boot) (m : List Region) : (bootScan b m).1.kStart = b.kStart := by
  induction m generalizing b with
  | nil => rfl
  | cons r rs ih =>
    unfold bootScan
    split
    · exact ih b
    · dsimp only
      split
      · exact ih b
      · split
        · rw [ih]
        · rfl

@[simp] theorem bootScan_kEnd (b : Boot) (m : List Region) : (bootScan b m).1.kEnd = b.kEnd := by
  induction m generalizing b with
  | nil => rfl
  | cons r rs ih =>
    unfold bootScan
    split
    · exact ih b
    · dsimp only
      split
      · exact ih b
      · split
        · rw [ih]
        · rfl

@[simp] theorem bootScan_allocCount (b : Boot) (m : List Region) :
    (bootScan b m).1.allocCount = b.allocCount := by
  induction m generalizing b with
  | nil => rfl
  | cons r rs ih =>
    unfold bootScan
    split
    · exact ih b
    · dsimp only
      split
      · exact ih b
      · split
        · rw [ih]
        · rfl

/-- what a successful scan guarantees about the frame it found -/
structure ScanOk (b : Boot) (m : List Region) (b' : Boot) (f : Nat) : Prop where
  inRegion : ∃ r ∈ m, Cand r ∧ regionStart r ≤ f ∧ f < regionEndExcl r
  notKernel : ¬ (b.kStart ≤ f ∧ f ≤ b.kEnd)
  above : b.allocCount ≠ 0 → b.last < f
  last : b'.last = f

/-- facts about the cursor after it was moved inside a candidate region with whole frames `[s, e]`
and rounded-up end `eu` -/
theorem bootNext_facts (b : Boot) (s e eu : Nat) (h1 : s + 1 ≤ eu) (h2 : e + 1 ≤ eu)
    (hk : b.kStart ≤ b.kEnd)
    (hg : eu ≤ b.kStart ∨ b.kEnd < s ∨ (s ≤ b.kStart ∧ b.kEnd < eu))
    (hI : b.allocCount = 0 → b.last ≤ s)
    (hN : b.allocCount ≠ 0 → ¬ (b.kStart ≤ b.last ∧ b.last ≤ b.kEnd))
    (hns : b.last < e) :
    s ≤ bootNext b s e ∧ ¬ (b.kStart ≤ bootNext b s e ∧ bootNext b s e ≤ b.kEnd) ∧
    (b.allocCount ≠ 0 → b.last < bootNext b s e) ∧ bootNext b s e ≤ eu := by
  unfold bootNext
  by_cases c1 : (b.last ≤ s ∧ b.kStart = s) ∨ (b.last ≤ e ∧ b.last + 1 = b.kStart)
  · rw [if_pos c1]
    by_cases c2 : b.kEnd + 1 < s
    · rw [if_pos c2]
      refine ⟨Nat.le_refl _, by omega, ?_, by omega⟩
      intro hac
      rcases c1 with c1 | c1 <;> omega
    · rw [if_neg c2]
      refine ⟨by omega, by omega, ?_, ?_⟩
      · intro hac
        rcases c1 with c1 | c1 <;> omega
      · rcases c1 with c1 | c1
        · rcases hg with hg | hg | hg <;> omega
        · rcases hg with hg | hg | hg <;> omega
  · rw [if_neg c1]
    by_cases c3 : b.last < s ∨ b.allocCount = 0
    · rw [if_pos c3]
      refine ⟨Nat.le_refl _, ?_, ?_, by omega⟩
      · intro hin
        have hne : b.last ≤ s → b.kStart ≠ s := fun hl e => c1 (Or.inl ⟨hl, e⟩)
        rcases c3 with c3 | c3
        · have := hne (by omega)
          rcases hg with hg | hg | hg <;> omega
        · have := hne (hI c3)
          rcases hg with hg | hg | hg <;> omega
      · intro hac
        rcases c3 with c3 | c3
        · exact c3
        · exact absurd c3 hac
    · rw [if_neg c3]
      have hac : b.allocCount ≠ 0 := fun e => c3 (Or.inr e)
      have hn := hN hac
      refine ⟨by omega, ?_, fun _ => by omega, by omega⟩
      intro hin
      have : b.last + 1 ≠ b.kStart := fun e => c1 (Or.inr ⟨by omega, e⟩)
      omega

/-- **the scan is sound** — under the abstract geometry hypotheses, for a cursor state that is
either the reset state's (`allocCount = 0`, cursor not past any remaining region start) or a
non-kernel frame, a successful scan returns a frame wholly inside a candidate region, outside the
kernel image, and above the previous cursor. -/
theorem bootScan_sound (m : List Region) (b : Boot)
    (hgeo : ∀ r ∈ m, Cand r → GeoOk b.kStart b.kEnd r) (hchain : Chain m)
    (hk : b.kStart ≤ b.kEnd)
    (hI : b.allocCount = 0 → ∀ r ∈ m, Cand r → b.last ≤ regionStart r)
    (hN : b.allocCount ≠ 0 → ¬ (b.kStart ≤ b.last ∧ b.last ≤ b.kEnd)) :
    ∀ f, (bootScan b m).2 = some f → ScanOk b m (bootScan b m).1 f := by
  induction m generalizing b with
  | nil => intro f h; simp [bootScan] at h
  | cons r rs ih =>
    have hchain' : Chain rs := (List.pairwise_cons.1 hchain).2
    have hhead := (List.pairwise_cons.1 hchain).1
    have lift : ∀ {b2 : Boot} {f : Nat}, b2.kStart = b.kStart → b2.kEnd = b.kEnd →
        b2.allocCount = b.allocCount → (b.allocCount ≠ 0 → b.last ≤ b2.last) →
        ScanOk b2 rs (bootScan b2 rs).1 f → ScanOk b (r :: rs) (bootScan b2 rs).1 f := by
      intro b2 f e1 e2 e3 hle h
      obtain ⟨r', hr', hc'⟩ := h.inRegion
      refine ⟨⟨r', List.mem_cons_of_mem _ hr', hc'⟩, ?_, ?_, h.last⟩
      · rw [← e1, ← e2]; exact h.notKernel
      · intro hac
        have := h.above (by rw [e3]; exact hac)
        have := hle hac
        omega
    intro f
    unfold bootScan
    by_cases hcand : r.typ ≠ memAvailable ∨ r.len < pageSize
    · rw [if_pos hcand]
      intro h
      exact lift rfl rfl rfl (fun _ => Nat.le_refl _)
        (ih b (fun r' hr' => hgeo r' (List.mem_cons_of_mem _ hr')) hchain' hk
          (fun h0 r' hr' => hI h0 r' (List.mem_cons_of_mem _ hr')) hN f h)
    · rw [if_neg hcand]
      have hc : Cand r := by
        unfold Cand
        constructor
        · exact Classical.not_not.1 fun h => hcand (Or.inl h)
        · exact Nat.le_of_not_lt fun h => hcand (Or.inr h)
      dsimp only
      by_cases hskip : b.last ≥ regionEndExcl r - 1
      · rw [if_pos hskip]
        intro h
        exact lift rfl rfl rfl (fun _ => Nat.le_refl _)
          (ih b (fun r' hr' => hgeo r' (List.mem_cons_of_mem _ hr')) hchain' hk
            (fun h0 r' hr' => hI h0 r' (List.mem_cons_of_mem _ hr')) hN f h)
      · rw [if_neg hskip]
        have g1 := cand_start_lt_endUp hc
        have g2 := cand_endExcl_le_endUp r
        have g3 := cand_endExcl_pos hc
        obtain ⟨n1, n2, n3, n4⟩ := bootNext_facts b (regionStart r) (regionEndExcl r - 1) (regionEndUp r)
          g1 (by omega) hk (hgeo r (by simp) hc) (fun h0 => hI h0 r (by simp) hc) hN (by omega)
        by_cases hover : bootNext b (regionStart r) (regionEndExcl r - 1) > regionEndExcl r - 1
        · rw [if_pos hover]
          intro h
          refine lift (b2 := { b with last := bootNext b (regionStart r) (regionEndExcl r - 1) })
            rfl rfl rfl (fun hac => Nat.le_of_lt (n3 hac))
            (ih { b with last := bootNext b (regionStart r) (regionEndExcl r - 1) } ?_ hchain' hk ?_ ?_ f h)
          · exact fun r' hr' => hgeo r' (List.mem_cons_of_mem _ hr')
          · intro _ r' hr' hc'
            have := hhead r' hr' hc hc'
            show bootNext b _ _ ≤ _
            omega
          · intro _; exact n2
        · rw [if_neg hover]
          intro h
          injection h with h
          subst h
          have h3 := cand_endExcl_pos hc
          exact ⟨⟨r, by simp, hc, n1, by omega⟩, n2, n3, rfl⟩

end Firefly.Pmm

namespace Firefly.Pmm
open Firefly.Gen.Pmm

/-! ## From the bootloader's memory map and the kernel placement to the abstract geometry -/

/-- the memory map is sorted and non-overlapping -/
def SortedMap (m : List Region) : Prop := m.Pairwise fun a c => a.addr + a.len ≤ c.addr

/-- the memory map's regions do not overlap, listed in any order (what the bitmap allocator needs;
the early allocator's ascending-order claims need `SortedMap`) -/
def DisjointMap (m : List Region) : Prop :=
  m.Pairwise fun a c => a.addr + a.len ≤ c.addr ∨ c.addr + c.len ≤ a.addr

theorem SortedMap.disjoint {m : List Region} (h : SortedMap m) : DisjointMap m :=
  List.Pairwise.imp (fun h => Or.inl h) h

/-- the kernel image `[ksA, keA)` has a page-aligned start and lies inside one available region -/
structure KernelPlaced (m : List Region) (ksA keA : Nat) : Prop where
  aligned : ksA % pageSize = 0
  nonempty : ksA < keA
  home : ∃ r ∈ m, r.typ = memAvailable ∧ r.addr ≤ ksA ∧ keA ≤ r.addr + r.len

private theorem ps' : pageSize = 4096 := by decide

theorem chain_of_sorted {m : List Region} (h : SortedMap m) : Chain m := by
  unfold Chain SortedMap at *
  apply List.Pairwise.imp _ h
  intro a c hac _ _
  unfold regionEndUp regionStart; rw [ps']; omega

theorem pairwise_trichotomy {α} {R : α → α → Prop} {l : List α} (h : l.Pairwise R) {a b : α}
    (ha : a ∈ l) (hb : b ∈ l) : a = b ∨ R a b ∨ R b a := by
  induction l with
  | nil => cases ha
  | cons x xs ih =>
    rw [List.pairwise_cons] at h
    rw [List.mem_cons] at ha hb
    rcases ha with rfl | ha <;> rcases hb with rfl | hb
    · exact Or.inl rfl
    · exact Or.inr (Or.inl (h.1 b hb))
    · exact Or.inr (Or.inr (h.1 a ha))
    · exact ih h.2 ha hb

theorem geo_of_placed {m : List Region} {ksA keA : Nat} (hs : SortedMap m)
    (hp : KernelPlaced m ksA keA) :
    ∀ r ∈ m, Cand r → GeoOk (bootInit ksA keA).kStart (bootInit ksA keA).kEnd r := by
  intro r hr _
  obtain ⟨R, hR, _, hlo, hhi⟩ := hp.home
  have hal := hp.aligned
  have hne := hp.nonempty
  unfold GeoOk bootInit regionEndUp regionStart
  simp only
  rw [ps'] at *
  rcases pairwise_trichotomy hs hr hR with rfl | h | h
  · right; right; constructor <;> omega
  · left; omega
  · right; left; omega

theorem bootInit_k_le {ksA keA : Nat} (h : ksA < keA) :
    (bootInit ksA keA).kStart ≤ (bootInit ksA keA).kEnd := by
  unfold bootInit; simp only; rw [ps']; omega

/-! ## Sequences of allocations -/

/-- cursor states reachable from the reset state by successful allocations -/
def BootOk (b : Boot) : Prop :=
  (b.allocCount = 0 → b.last = 0) ∧ (b.allocCount ≠ 0 → ¬ (b.kStart ≤ b.last ∧ b.last ≤ b.kEnd))

theorem bootOk_init (ksA keA : Nat) : BootOk (bootInit ksA keA) := by
  unfold BootOk bootInit; simp

structure AllocOk (m : List Region) (b b' : Boot) (f : Nat) : Prop where
  inRegion : ∃ r ∈ m, Cand r ∧ regionStart r ≤ f ∧ f < regionEndExcl r
  notKernel : ¬ (b.kStart ≤ f ∧ f ≤ b.kEnd)
  above : b.allocCount ≠ 0 → b.last < f
  last : b'.last = f
  count : b'.allocCount = b.allocCount + 1
  ks : b'.kStart = b.kStart
  ke : b'.kEnd = b.kEnd
  ok : BootOk b'

theorem bootAlloc_sound {m : List Region} {b b' : Boot} {f : Nat}
    (hgeo : ∀ r ∈ m, Cand r → GeoOk b.kStart b.kEnd r) (hchain : Chain m)
    (hk : b.kStart ≤ b.kEnd) (hb : BootOk b) (h : bootAlloc m b = (b', some f)) :
    AllocOk m b b' f := by
  unfold bootAlloc at h
  cases hs : bootScan b m with
  | mk b1 r =>
    cases r with
    | none => simp [hs] at h
    | some g =>
      simp only [hs] at h
      injection h with h1 h2
      injection h2 with h2
      subst h1 h2
      have hsound := bootScan_sound m b hgeo hchain hk
        (fun h0 r _ _ => by rw [hb.1 h0]; exact Nat.zero_le _) hb.2 g (by rw [hs])
      rw [hs] at hsound
      have e1 : b1.kStart = b.kStart := by have := bootScan_kStart b m; rw [hs] at this; exact this
      have e2 : b1.kEnd = b.kEnd := by have := bootScan_kEnd b m; rw [hs] at this; exact this
      have e3 : b1.allocCount = b.allocCount := by
        have := bootScan_allocCount b m; rw [hs] at this; exact this
      refine ⟨hsound.inRegion, hsound.notKernel, hsound.above, hsound.last, by simp [e3], e1, e2, ?_⟩
      constructor
      · intro h0; simp at h0
      · intro _
        show ¬ (b1.kStart ≤ b1.last ∧ b1.last ≤ b1.kEnd)
        rw [e1, e2, hsound.last]; exact hsound.notKernel

/-- out-of-memory returns no frame and does not count as an allocation -/
theorem bootAlloc_none {m : List Region} {b b' : Boot} (h : bootAlloc m b = (b', none)) :
    b'.allocCount = b.allocCount ∧ b'.kStart = b.kStart ∧ b'.kEnd = b.kEnd := by
  unfold bootAlloc at h
  cases hs : bootScan b m with
  | mk b1 r =>
    cases r with
    | some g => simp [hs] at h
    | none =>
      simp only [hs] at h
      injection h with h1 _
      subst h1
      have e1 := bootScan_kStart b m
      have e2 := bootScan_kEnd b m
      have e3 := bootScan_allocCount b m
      rw [hs] at e1 e2 e3
      exact ⟨e3, e1, e2⟩

/-- `n` allocations that all succeed: the final state and the frames in order -/
def bootRun (m : List Region) : Nat → Boot → Option (Boot × List Nat)
  | 0, b => some (b, [])
  | n+1, b =>
    match bootAlloc m b with
    | (b1, some f) => (bootRun m n b1).map fun (b2, fs) => (b2, f :: fs)
    | (_, none) => none

/-- all frames of a list are above `lo` (when `strict`) and the list is strictly increasing -/
def Ascending : List Nat → Prop := List.Pairwise (· < ·)

theorem bootRun_sound {m : List Region} {ks ke : Nat} (hchain : Chain m) (hk : ks ≤ ke) (n : Nat)
    (b : Boot) (hks : b.kStart = ks) (hke : b.kEnd = ke)
    (hgeo : ∀ r ∈ m, Cand r → GeoOk ks ke r) (hb : BootOk b) {b' : Boot} {fs : List Nat}
    (h : bootRun m n b = some (b', fs)) :
    fs.length = n ∧ b'.allocCount = b.allocCount + n ∧ b'.kStart = ks ∧ b'.kEnd = ke ∧ BootOk b' ∧
    Ascending fs ∧ (∀ f ∈ fs, (b.allocCount ≠ 0 → b.last < f) ∧ ¬ (ks ≤ f ∧ f ≤ ke) ∧
      ∃ r ∈ m, Cand r ∧ regionStart r ≤ f ∧ f < regionEndExcl r) ∧
    (fs ≠ [] → b'.last = fs.getLast?.getD 0) := by
  induction n generalizing b fs with
  | zero =>
    simp only [bootRun] at h
    injection h with h; injection h with h1 h2; subst h1 h2
    simp [Ascending, hks, hke, hb]
  | succ n ih =>
    unfold bootRun at h
    cases ha : bootAlloc m b with
    | mk b1 r =>
      cases r with
      | none => simp [ha] at h
      | some f =>
        simp only [ha] at h
        cases hr : bootRun m n b1 with
        | none => simp [hr] at h
        | some p =>
          obtain ⟨b2, fs2⟩ := p
          simp only [hr, Option.map_some] at h
          injection h with h; injection h with h1 h2; subst h1 h2
          have ok := bootAlloc_sound (by rw [hks, hke]; exact hgeo) hchain (by rw [hks, hke]; exact hk) hb ha
          obtain ⟨i1, i2, i3, i4, i5, i6, i7, i8⟩ :=
            ih b1 (by rw [ok.ks, hks]) (by rw [ok.ke, hke]) ok.ok hr
          have hne : b1.allocCount ≠ 0 := by rw [ok.count]; omega
          refine ⟨by simp [i1], by rw [i2, ok.count]; omega, i3, i4, i5, ?_, ?_, ?_⟩
          · unfold Ascending
            rw [List.pairwise_cons]
            refine ⟨?_, i6⟩
            intro g hg
            have := (i7 g hg).1 hne
            rw [ok.last] at this; exact this
          · intro g hg
            rw [List.mem_cons] at hg
            rcases hg with rfl | hg
            · refine ⟨ok.above, ?_, ok.inRegion⟩
              rw [← hks, ← hke]; exact ok.notKernel
            · obtain ⟨j1, j2, j3⟩ := i7 g hg
              refine ⟨fun hac => ?_, j2, j3⟩
              have := j1 hne
              rw [ok.last] at this
              have := ok.above hac
              omega
          · intro _
            cases fs2 with
            | nil =>
              have : n = 0 := by simpa using i1.symm
              subst this
              simp only [bootRun] at hr
              injection hr with hr; injection hr with hr1 _
              subst hr1
              simp [ok.last]
            | cons g gs =>
              rw [i8 (by simp)]
              simp [List.getLast?_cons_cons]

/-- **replay_exact** — the state a run starts from is the reset state, so replaying the same
number of allocations from the reset state (`allocCount = 0`, cursor 0, same kernel bounds) yields
exactly the same frames in the same order. -/
theorem replay_exact (m : List Region) (ksA keA : Nat) (n : Nat) (b' : Boot) (fs : List Nat)
    (hchain : Chain m) (hk : ksA < keA)
    (hgeo : ∀ r ∈ m, Cand r → GeoOk (bootInit ksA keA).kStart (bootInit ksA keA).kEnd r)
    (h : bootRun m n (bootInit ksA keA) = some (b', fs)) :
    bootRun m n { b' with allocCount := 0, last := 0 } = some (b', fs) := by
  obtain ⟨_, _, e1, e2, _⟩ := bootRun_sound hchain (bootInit_k_le hk) n (bootInit ksA keA) rfl rfl
    hgeo (bootOk_init _ _) h
  have : ({ b' with allocCount := 0, last := 0 } : Boot) = bootInit ksA keA := by
    cases b'
    simp only [bootInit] at *
    simp [e1, e2]
  rw [this]; exact h

end Firefly.Pmm

namespace Firefly.Pmm
open Firefly.Gen.Pmm

/-- if the cursor is at or past the last frame of every candidate region, the scan finds nothing
and leaves the allocator unchanged -/
theorem bootScan_all_skipped (m : List Region) (b : Boot)
    (h : ∀ r ∈ m, Cand r → b.last ≥ regionEndExcl r - 1) : bootScan b m = (b, none) := by
  induction m with
  | nil => rfl
  | cons r rs ih =>
    unfold bootScan
    by_cases hcand : r.typ ≠ memAvailable ∨ r.len < pageSize
    · rw [if_pos hcand]; exact ih (fun r' hr' => h r' (List.mem_cons_of_mem _ hr'))
    · rw [if_neg hcand]
      have hc : Cand r := ⟨Classical.not_not.1 fun hh => hcand (Or.inl hh),
        Nat.le_of_not_lt fun hh => hcand (Or.inr hh)⟩
      dsimp only
      rw [if_pos (h r (by simp) hc)]
      exact ih (fun r' hr' => h r' (List.mem_cons_of_mem _ hr'))

/-- a failed scan leaves the cursor at or past the last frame of every candidate region (and never
moves it backwards) -/
theorem bootScan_none_past_all (m : List Region) (b : Boot)
    (hgeo : ∀ r ∈ m, Cand r → GeoOk b.kStart b.kEnd r) (hchain : Chain m)
    (hk : b.kStart ≤ b.kEnd)
    (hI : b.allocCount = 0 → ∀ r ∈ m, Cand r → b.last ≤ regionStart r)
    (hN : b.allocCount ≠ 0 → ¬ (b.kStart ≤ b.last ∧ b.last ≤ b.kEnd))
    (hnone : (bootScan b m).2 = none) :
    b.last ≤ (bootScan b m).1.last ∧
    ∀ r ∈ m, Cand r → (bootScan b m).1.last ≥ regionEndExcl r - 1 := by
  induction m generalizing b with
  | nil => exact ⟨Nat.le_refl _, fun r hr => by cases hr⟩
  | cons r rs ih =>
    have hchain' : Chain rs := (List.pairwise_cons.1 hchain).2
    have hhead := (List.pairwise_cons.1 hchain).1
    unfold bootScan at hnone ⊢
    by_cases hcand : r.typ ≠ memAvailable ∨ r.len < pageSize
    · rw [if_pos hcand] at hnone ⊢
      obtain ⟨i1, i2⟩ := ih b (fun r' hr' => hgeo r' (List.mem_cons_of_mem _ hr')) hchain' hk
        (fun h0 r' hr' => hI h0 r' (List.mem_cons_of_mem _ hr')) hN hnone
      refine ⟨i1, fun r' hr' hc' => ?_⟩
      rw [List.mem_cons] at hr'
      rcases hr' with rfl | hr'
      · exact absurd hc' (fun hc' => by
          unfold Cand at hc'
          rcases hcand with h | h
          · exact h hc'.1
          · omega)
      · exact i2 r' hr' hc'
    · rw [if_neg hcand] at hnone ⊢
      have hc : Cand r := ⟨Classical.not_not.1 fun hh => hcand (Or.inl hh),
        Nat.le_of_not_lt fun hh => hcand (Or.inr hh)⟩
      dsimp only at hnone ⊢
      by_cases hskip : b.last ≥ regionEndExcl r - 1
      · rw [if_pos hskip] at hnone ⊢
        obtain ⟨i1, i2⟩ := ih b (fun r' hr' => hgeo r' (List.mem_cons_of_mem _ hr')) hchain' hk
          (fun h0 r' hr' => hI h0 r' (List.mem_cons_of_mem _ hr')) hN hnone
        refine ⟨i1, fun r' hr' hc' => ?_⟩
        rw [List.mem_cons] at hr'
        rcases hr' with rfl | hr'
        · omega
        · exact i2 r' hr' hc'
      · rw [if_neg hskip] at hnone ⊢
        have g1 := cand_start_lt_endUp hc
        have g2 := cand_endExcl_le_endUp r
        have g3 := cand_endExcl_pos hc
        obtain ⟨n1, n2, n3, n4⟩ := bootNext_facts b (regionStart r) (regionEndExcl r - 1) (regionEndUp r)
          g1 (by omega) hk (hgeo r (by simp) hc) (fun h0 => hI h0 r (by simp) hc) hN (by omega)
        by_cases hover : bootNext b (regionStart r) (regionEndExcl r - 1) > regionEndExcl r - 1
        · rw [if_pos hover] at hnone ⊢
          obtain ⟨i1, i2⟩ := ih { b with last := bootNext b (regionStart r) (regionEndExcl r - 1) }
            (fun r' hr' => hgeo r' (List.mem_cons_of_mem _ hr')) hchain' hk
            (fun _ r' hr' hc' => by
              have := hhead r' hr' hc hc'
              show bootNext b _ _ ≤ _
              omega)
            (fun _ => n2) hnone
          have i1' : bootNext b (regionStart r) (regionEndExcl r - 1) ≤
              (bootScan { b with last := bootNext b (regionStart r) (regionEndExcl r - 1) } rs).1.last := i1
          have hmono : b.last ≤ bootNext b (regionStart r) (regionEndExcl r - 1) := by
            by_cases hac : b.allocCount = 0
            · have := hI hac r (by simp) hc; omega
            · exact Nat.le_of_lt (n3 hac)
          refine ⟨by omega, fun r' hr' hc' => ?_⟩
          rw [List.mem_cons] at hr'
          rcases hr' with rfl | hr'
          · omega
          · exact i2 r' hr' hc'
        · rw [if_neg hover] at hnone
          simp at hnone

/-- **out-of-memory is final** — once an allocation fails (from a state reached by successful
allocations), every later allocation fails too and the allocator state no longer changes. -/
theorem bootAlloc_oom_final {m : List Region} {b b' : Boot}
    (hgeo : ∀ r ∈ m, Cand r → GeoOk b.kStart b.kEnd r) (hchain : Chain m)
    (hk : b.kStart ≤ b.kEnd) (hb : BootOk b) (h : bootAlloc m b = (b', none)) :
    bootAlloc m b' = (b', none) := by
  unfold bootAlloc at h
  cases hs : bootScan b m with
  | mk b1 r =>
    cases r with
    | some g => simp [hs] at h
    | none =>
      simp only [hs] at h
      injection h with h1 _
      subst h1
      have hp := bootScan_none_past_all m b hgeo hchain hk
        (fun h0 r _ _ => by rw [hb.1 h0]; exact Nat.zero_le _) hb.2 (by rw [hs])
      rw [hs] at hp
      unfold bootAlloc
      rw [bootScan_all_skipped m b1 hp.2]

end Firefly.Pmm
