import Firefly.Proof.AmlNestFirst
/-!
C11, the nested fragment: `connectNamedObjArgs` on the pool the first pass built.
-/
namespace Firefly.AmlParser.F
open Firefly.AmlLex Firefly.AmlTree Firefly.C13 Firefly.AmlParser Firefly.AmlParser.G Firefly.AmlParser.S
open Firefly.Gen.C12 Firefly.AmlProg

/-- a childless object is not an ancestor of anything else -/
theorem not_anc_leaf {t : ObjectTree} (w : WF t) {k : Nat} (hk : live t k = true) (hkk : K t k = []) :
    ∀ (f y : Nat), y ≠ k → live t y = true → C13.isAncestorOrSelf t k f y = false := by
  intro f
  induction f with
  | zero => intro y _ _; rfl
  | succ f ih =>
    intro y hy hyl
    unfold C13.isAncestorOrSelf
    have h1 : decide (y = k) = false := by simp [hy]
    rw [Bool.or_eq_false_iff]
    refine ⟨h1, ?_⟩
    by_cases hp : C13.P t y = INV
    · simp [hp]
    · have hpl : live t (C13.P t y) = true := (w.lP hyl).lp.resolve_left hp
      have hpk : C13.P t y ≠ k := fun e => by
        have : y ∈ K t k := (K_mem w hk y).2 ⟨hyl, e⟩
        rw [hkk] at this; cases this
      rw [ih _ hpk hpl]; simp

/-- `detach(p, k); append(x, k)`: the childless sibling `k` of `x` becomes the last argument of `x` -/
theorem move_under_p {t : ObjectTree} (w : WF t) {p x k : Nat} (h0 : live t p = true) (hx : live t x = true) (hk : live t k = true)
    (hpk : C13.P t k = p) (hpx : C13.P t x = p) (hkk : K t k = []) (hxk : x ≠ k) :
    ∃ t2 t3, t.detach p k = .ok t2 ∧ t2.append x k = .ok t3 ∧ WF t3 ∧ SamePay t t3 ∧ (∀ y, live t3 y = live t y) ∧
      (∀ y, C13.P t3 y = if y = k then x else C13.P t y) ∧
      (∀ q, live t q = true → K t3 q = if q = x then K t x ++ [k] else if q = p then (K t p).erase k else K t q) := by
  have hxp : x ≠ p := fun e => by rw [e] at hpx; exact wf_P_ne_self w h0 hpx
  have hkp : k ≠ p := fun e => by rw [e] at hpk; exact wf_P_ne_self w h0 hpk
  obtain ⟨t2, e2, w2, sp2, hl2, hP2, hK2⟩ := detach_k w h0 hk hpk
  have hx2 : live t2 x = true := by rw [hl2]; exact hx
  have hk2 : live t2 k = true := by rw [hl2]; exact hk
  have hpk2 : C13.P t2 k = INV := by rw [hP2, if_pos rfl]
  have hkk2 : K t2 k = [] := by rw [hK2 k hk, if_neg hkp]; exact hkk
  have hna : C13.isAncestorOrSelf t2 k t2.fuel x = false := not_anc_leaf w2 hk2 hkk2 _ x hxk hx2
  obtain ⟨t3, e3, w3, sp3, hl3, hP3, hK3⟩ := append_k w2 hx2 hk2 hpk2 hna
  refine ⟨t2, t3, e2, e3, w3, sp2.trans sp3, fun y => by rw [hl3, hl2], ?_, ?_⟩
  · intro y
    rw [hP3]
    by_cases hy : y = k
    · rw [if_pos hy, if_pos hy]
    · rw [if_neg hy, if_neg hy, hP2, if_neg hy]
  · intro q hq
    have hq2 : live t2 q = true := by rw [hl2]; exact hq
    rw [hK3 q hq2]
    by_cases hqx : q = x
    · rw [if_pos hqx, if_pos hqx, hK2 x hx, if_neg hxp]
    · rw [if_neg hqx, if_neg hqx, hK2 q hq]

/-- the loop body on a `Name` object whose integer is its next sibling, under any scope block `p` -/
theorem cn_step_name_p (d : Bytes) {s : PState} {p x c k off : Nat} {sg : List UInt8} (w : WF s.tree)
    (h0 : live s.tree p = true) (hx : live s.tree x = true) (hc : live s.tree c = true) (hk : live s.tree k = true)
    (hop : (slot s.tree x).opcode = 8) (hinf : (slot s.tree x).infoIndex = pOpcodeTableIndex 8 true)
    (hth : (slot s.tree x).tableHandle = s.tableHandle) (hkx : K s.tree x = [c])
    (hval : (slot s.tree c).value = .bytes off 4) (hb : BytesAt d off sg) (hsg : sg.length = 4)
    (hpx : C13.P s.tree x = p) (hpk : C13.P s.tree k = p) (hkk : K s.tree k = []) (hnx : Nx s.tree x = k) (hxk : x ≠ k) :
    ∃ s', connectNamedStep d p x s = .ok (.inr (), s') ∧ s' = { s with tree := s'.tree } ∧ WF s'.tree ∧
      (∀ y, live s'.tree y = live s.tree y) ∧ (∀ y, C13.P s'.tree y = if y = k then x else C13.P s.tree y) ∧
      (∀ q, live s.tree q = true → K s'.tree q = if q = x then [c, k] else if q = p then (K s.tree p).erase k else K s.tree q) ∧
      (∀ y, y ≠ x → Pay (slot s'.tree y) = Pay (slot s.tree y)) ∧
      Pay (slot s'.tree x) = Pay { slot s.tree x with name := Name.ofList sg } ∧
      s'.tree.pool.size = s.tree.pool.size := by
  obtain ⟨fl, a1, a2, a3, a4, a5, a6, a7, a8⟩ := rowSummary_spec row_8
  unfold connectNamedStep
  rw [bind_run (getObj_live hx), hinf, a1, bind_run (optP_ex fl s), bind_run (tableHandle_ex s)]
  have hfi : Fi s.tree x = c := first_of_kids w hx hkx
  have hcond : ¬ ((!hasFlag fl flagNamed) = true ∨ (slot s.tree x).tableHandle ≠ s.tableHandle ∨
      (slot s.tree x).firstArgIndex = invalidIndex ∨ (slot s.tree x).opcode = opIntScopeBlock) := by
    rw [a2, hth, hop]
    intro hq
    rcases hq with hq | hq | hq | hq
    · cases hq
    · exact hq rfl
    · have : Fi s.tree x = INV := hq
      rw [hfi] at this
      exact live_ne_INV w.size_le hc this
    · revert hq; decide
  rw [if_neg hcond]
  have hfi' : (slot s.tree x).firstArgIndex = c := hfi
  rw [hfi', bind_run (objectAt_live' hc), bind_run (derefP_some_ex _), bind_run (getObj_live hc), hval]
  simp only [valBytes]
  rw [if_neg (by decide)]
  have hsl : sliceBytes d off 4 = sg := by rw [← hsg]; exact sliceBytes_of_bytesAt hb
  have hdrop : List.drop (4 - Gen.C12.amlNameLen) (sliceBytes d off 4) = sg := by rw [hsl]; rfl
  rw [hdrop]
  -- the name
  let f : AmlTree.Obj → AmlTree.Obj := fun o => { o with name := Name.ofList sg }
  have sl : SameLinks s.tree (setAt s.tree x f) := sameLinks_setAt s.tree x f (by keeps_links) Iff.rfl
  have w1 : WF (setAt s.tree x f) := wf_of_sameLinks w sl
  have e1 : updObj x f s = .ok ((), { s with tree := setAt s.tree x f }) := updObj_ex f (live_lt hx)
  rw [bind_run e1]
  generalize hs1 : ({ s with tree := setAt s.tree x f } : PState) = s1
  have ht1 : s1.tree = setAt s.tree x f := by rw [← hs1]
  have w1' : WF s1.tree := by rw [ht1]; exact w1
  have hl1 : ∀ y, live s1.tree y = live s.tree y := by intro y; rw [ht1]; exact sl.live y
  have hx1 : live s1.tree x = true := by rw [hl1]; exact hx
  have hk1 : live s1.tree k = true := by rw [hl1]; exact hk
  have hK1 : ∀ q, live s.tree q = true → K s1.tree q = K s.tree q := by
    intro q hq; rw [ht1]; exact kids_sameLinks w sl hq
  rw [a5, bind_run (optP_ex 2 s1)]
  have eft : firstTermArg (pOpcodeTableIndex 8 true) 2 0 2 s1 = .ok (1, s1) := by
    rw [firstTermArg, if_pos (by decide), opArg_of_info a6 0, a8 0 (by decide), bind_run (optP_ex _ s1)]
    rw [if_neg (by decide)]
    rw [firstTermArg, if_pos (by decide), opArg_of_info a6 1, a8 1 (by decide), bind_run (optP_ex _ s1)]
    rw [if_pos (by decide)]
    rfl
  rw [bind_run eft, bind_run (numArgs_kids w1' hx1), hK1 x hx, hkx]
  rw [if_neg (show ¬ (([c] : List Nat).length = 2 ∨ 1 ≥ 2) by simp)]
  have hnx1 : Nx s1.tree x = k := by rw [ht1, sl.nx]; exact hnx
  rw [bind_run (nextOf_ex hx1), hnx1]
  -- the integer moves under the `Name` object
  obtain ⟨t2, t3, e2, e3, w3, sp3, hl3, hP3, hK3⟩ := move_under_p w1' (by rw [hl1]; exact h0) hx1 hk1
    (by rw [ht1, sl.p]; exact hpk) (by rw [ht1, sl.p]; exact hpx) (by rw [hK1 k hk]; exact hkk) hxk
  have hkne : k ≠ invalidIndex := live_ne_INV w.size_le hk
  have eat : attachSiblingsAsArgs p x false (2 - 1) k s1 = .ok (PRes.ok, { s1 with tree := t3 }) := by
    show attachSiblingsAsArgs p x false (0 + 1) k s1 = _
    rw [attachSiblingsAsArgs]
    rw [if_neg (by intro hq; exact absurd hq.2 (by decide))]
    rw [bind_run (show (pure k : P Nat) s1 = .ok (k, s1) from rfl)]
    dsimp only
    rw [if_neg hkne, bind_run (objectAt_live' hk1), bind_run (derefP_some_ex _), bind_run (getObj_live hk1)]
    have hpk1 : (slot s1.tree k).parentIndex = p := by
      show C13.P s1.tree k = p
      rw [ht1, sl.p]; exact hpk
    rw [hpk1, bind_run (objectAt_live' (show live s1.tree p = true by rw [hl1]; exact h0)), bind_run (derefP_some_ex _)]
    rw [bind_run (tree_ex e2), bind_run (tree_ex (s := { s1 with tree := t2 }) e3)]
    rfl
  rw [bind_run eat]
  rw [if_neg (by decide)]
  refine ⟨{ s1 with tree := t3 }, rfl, by rw [← hs1], w3, fun y => by rw [← hl1]; exact hl3 y, ?_, ?_, ?_, ?_, ?_⟩
  · intro y
    show C13.P t3 y = _
    rw [hP3, ht1, sl.p]
  · intro q hq
    show K t3 q = _
    rw [hK3 q (by rw [hl1]; exact hq), hK1 x hx, hkx, hK1 p h0, hK1 q hq]
    rfl
  · intro y hy
    show Pay (slot t3 y) = _
    rw [sp3.pay y, ht1, slot_setAt', if_neg (fun hq => hy hq.1.symm)]
  · show Pay (slot t3 x) = _
    rw [sp3.pay x, ht1, slot_setAt', if_pos ⟨rfl, live_lt hx⟩]
  · show t3.pool.size = _
    rw [sp3.size, ht1, sl.size]


/-- a scope block is skipped by the loop body -/
theorem cn_step_sb (d : Bytes) {s : PState} {obj sb : Nat} (hl : live s.tree sb = true)
    (hop : (slot s.tree sb).opcode = opIntScopeBlock) (hinf : (slot s.tree sb).infoIndex = pOpcodeTableIndex opIntScopeBlock true) :
    connectNamedStep d obj sb s = .ok (.inr (), s) := by
  obtain ⟨fl, hfl⟩ := opFlags_of_info info_502
  unfold connectNamedStep
  rw [bind_run (getObj_live hl), hinf, hfl, bind_run (optP_ex fl s), bind_run (tableHandle_ex s)]
  rw [if_pos (Or.inr (Or.inr (Or.inr hop)))]
  rfl

/-- the loop body on a named object whose first argument is its name path and whose row has no term argument: it gets its
name; its arguments stay as they are -/
theorem cn_step_named (d : Bytes) (op : Nat) {ex df : Bool} {ac : Nat} {args : List Nat}
    (hrow : rowSummary op = some (true, ex, df, ac, args))
    (hnoterm : ∀ k, k < ac → args.getD k 0 ≠ argTypeTermArg ∧ args.getD k 0 ≠ argTypeDataRefObj) (hsb : op ≠ opIntScopeBlock)
    {s : PState} {p x c off : Nat} {rest : List Nat} {seg : List UInt8} (w : WF s.tree)
    (hx : live s.tree x = true) (hc : live s.tree c = true)
    (hop : (slot s.tree x).opcode = op) (hinf : (slot s.tree x).infoIndex = pOpcodeTableIndex op true)
    (hth : (slot s.tree x).tableHandle = s.tableHandle) (hkx : K s.tree x = c :: rest)
    (hval : (slot s.tree c).value = .bytes off 4) (hb : BytesAt d off seg) (hsg : seg.length = 4) :
    ∃ s', connectNamedStep d p x s = .ok (.inr (), s') ∧ s' = { s with tree := s'.tree } ∧ SameLinks s.tree s'.tree ∧
      (∀ y, y ≠ x → slot s'.tree y = slot s.tree y) ∧
      Pay (slot s'.tree x) = Pay { slot s.tree x with name := Name.ofList seg } := by
  obtain ⟨fl, a1, a2, a3, a4, a5, a6, a7, a8⟩ := rowSummary_spec hrow
  let f : AmlTree.Obj → AmlTree.Obj := fun o => { o with name := Name.ofList seg }
  have sl : SameLinks s.tree (setAt s.tree x f) := sameLinks_setAt s.tree x f (by keeps_links) Iff.rfl
  refine ⟨{ s with tree := setAt s.tree x f }, ?_, rfl, sl, ?_, ?_⟩
  · unfold connectNamedStep
    rw [bind_run (getObj_live hx), hinf, a1, bind_run (optP_ex fl s), bind_run (tableHandle_ex s)]
    have hfi : Fi s.tree x = c := first_of_kids w hx hkx
    have hcond : ¬ ((!hasFlag fl flagNamed) = true ∨ (slot s.tree x).tableHandle ≠ s.tableHandle ∨
        (slot s.tree x).firstArgIndex = invalidIndex ∨ (slot s.tree x).opcode = opIntScopeBlock) := by
      rw [a2, hth, hop]
      intro hq
      rcases hq with hq | hq | hq | hq
      · cases hq
      · exact hq rfl
      · have : Fi s.tree x = INV := hq
        rw [hfi] at this
        exact live_ne_INV w.size_le hc this
      · exact hsb hq
    rw [if_neg hcond]
    have hfi' : (slot s.tree x).firstArgIndex = c := hfi
    rw [hfi', bind_run (objectAt_live' hc), bind_run (derefP_some_ex _), bind_run (getObj_live hc), hval]
    simp only [valBytes]
    rw [if_neg (by decide)]
    have hsl : sliceBytes d off 4 = seg := by rw [← hsg]; exact sliceBytes_of_bytesAt hb
    have hdrop : List.drop (4 - Gen.C12.amlNameLen) (sliceBytes d off 4) = seg := by rw [hsl]; rfl
    rw [hdrop]
    have e1 : updObj x f s = .ok ((), { s with tree := setAt s.tree x f }) := updObj_ex f (live_lt hx)
    rw [bind_run e1]
    generalize hs1 : ({ s with tree := setAt s.tree x f } : PState) = s1
    have ht1 : s1.tree = setAt s.tree x f := by rw [← hs1]
    have w1' : WF s1.tree := by rw [ht1]; exact wf_of_sameLinks w sl
    have hx1 : live s1.tree x = true := by rw [ht1, sl.live]; exact hx
    rw [a5, bind_run (optP_ex ac s1)]
    have hno : ∀ j, j < ac → argAt (pOpcodeTableIndex op true) j ≠ argTypeTermArg ∧ argAt (pOpcodeTableIndex op true) j ≠ argTypeDataRefObj := by
      intro j hj
      rw [a8 j hj]
      exact hnoterm j hj
    rw [bind_run (firstTermArg_noTerm a6 ac hno ac 0 s1 (by omega)), bind_run (numArgs_kids w1' hx1)]
    rw [if_pos (Or.inr (Nat.le_refl _))]
    rfl
  · intro y hy
    show slot (setAt s.tree x f) y = _
    rw [slot_setAt', if_neg (fun hq => hy hq.1.symm)]
  · show Pay (slot (setAt s.tree x f) x) = _
    rw [slot_setAt', if_pos ⟨rfl, live_lt hx⟩]

theorem blk_noterm (kd : BKind) : ∀ k, k < kd.ws.length + 3 →
    ([15, 9] ++ kd.ws.map argTy ++ [1]).getD k 0 ≠ argTypeTermArg ∧ ([15, 9] ++ kd.ws.map argTy ++ [1]).getD k 0 ≠ argTypeDataRefObj := by
  intro k hk
  cases kd
  · have : k = 0 ∨ k = 1 ∨ k = 2 := by simp [BKind.ws] at hk; omega
    rcases this with e | e | e <;> subst e <;> decide
  · have : k = 0 ∨ k = 1 ∨ k = 2 := by simp [BKind.ws] at hk; omega
    rcases this with e | e | e <;> subst e <;> decide
  · have : k = 0 ∨ k = 1 ∨ k = 2 ∨ k = 3 ∨ k = 4 ∨ k = 5 := by simp [BKind.ws] at hk; omega
    rcases this with e | e | e | e | e | e <;> subst e <;> decide
  · have : k = 0 ∨ k = 1 ∨ k = 2 ∨ k = 3 ∨ k = 4 := by simp [BKind.ws] at hk; omega
    rcases this with e | e | e | e | e <;> subst e <;> decide

/-- the loop body on a `Device` / `ThermalZone` / `Processor` / `PowerResource` object -/
theorem cn_step_dev (d : Bytes) (kd : BKind) {s : PState} {p x c off : Nat} {seg : List UInt8} (w : WF s.tree)
    (hx : live s.tree x = true) (hc : live s.tree c = true)
    (hop : (slot s.tree x).opcode = kd.op) (hinf : (slot s.tree x).infoIndex = pOpcodeTableIndex kd.op true)
    (hth : (slot s.tree x).tableHandle = s.tableHandle) {rest : List Nat} (hkx : K s.tree x = c :: rest)
    (hval : (slot s.tree c).value = .bytes off 4) (hb : BytesAt d off seg) (hsg : seg.length = 4) :
    ∃ s', connectNamedStep d p x s = .ok (.inr (), s') ∧ s' = { s with tree := s'.tree } ∧ SameLinks s.tree s'.tree ∧
      (∀ y, y ≠ x → slot s'.tree y = slot s.tree y) ∧
      Pay (slot s'.tree x) = Pay { slot s.tree x with name := Name.ofList seg } :=
  cn_step_named d kd.op (row_blk kd) (blk_noterm kd) kd.op_ne.2.2.2.2.2.1 w hx hc hop hinf hth hkx hval hb hsg

/-! ## bookkeeping for node lists -/

mutual
def sizeN : Node → Nat
  | .name _ _ _ _ _ _ => 1
  | .dev kd _ _ _ _ _ _ _ kids => 1 + kd.ws.length + sizeL kids
  | .leaf _ _ _ _ _ _ => 1
def sizeL : List Node → Nat
  | [] => 0
  | n :: ns => sizeN n + sizeL ns
end

theorem sizeL_append (a b : List Node) : sizeL (a ++ b) = sizeL a + sizeL b := by
  induction a with
  | nil => simp [sizeL]
  | cons n a ih => simp only [List.cons_append, sizeL, ih]; omega

theorem tops_append (dn : Bool) (a b : List Node) : tops dn (a ++ b) = tops dn a ++ tops dn b := by
  induction a with
  | nil => simp [tops]
  | cons n a ih =>
    cases n with
    | name x c k off q => simp only [List.cons_append, tops, ih, List.append_assoc]
    | dev kd x c sb off pw seg es kids => simp only [List.cons_append, tops, ih]
    | leaf kd x c off seg es => simp only [List.cons_append, tops, ih]

theorem tops_len_le (dn : Bool) (a : List Node) : (tops dn a).length ≤ 2 * sizeL a := by
  induction a with
  | nil => simp [tops]
  | cons n a ih =>
    cases n with
    | name x c k off q =>
      simp only [tops, sizeL, sizeN, List.length_append]
      cases dn <;> simp <;> omega
    | dev kd x c sb off pw seg es kids => simp only [tops, sizeL, sizeN, List.length_cons]; omega
    | leaf kd x c off seg es => simp only [tops, sizeL, sizeN, List.length_cons]; omega

theorem objsL_append (a b : List Node) : objsL (a ++ b) = objsL a ++ objsL b := by
  induction a with
  | nil => simp [objsL]
  | cons n a ih => simp only [List.cons_append, objsL, ih, List.append_assoc]

theorem NodesOK_append {d : Bytes} {t : ObjectTree} {h : Nat} {dk : Bool} (p : Nat) (a b : List Node) :
    NodesOK d t h dk p (a ++ b) ↔ NodesOK d t h dk p a ∧ NodesOK d t h dk p b := by
  induction a with
  | nil => simp [NodesOK]
  | cons n a ih => simp only [List.cons_append, NodesOK, ih, and_assoc]

theorem SameAt.rfl' (t : ObjectTree) (y : Nat) : SameAt t t y := ⟨rfl, rfl, rfl, rfl⟩

theorem SameAt.trans {a b c : ObjectTree} {y : Nat} (h1 : SameAt a b y) (h2 : SameAt b c y) : SameAt a c y :=
  ⟨by rw [h2.1, h1.1], by rw [h2.2.1, h1.2.1], by rw [h2.2.2.1, h1.2.2.1], by rw [h2.2.2.2, h1.2.2.2]⟩

/-- one iteration of the reverse loop when the recursion changes the state -/
theorem cn_iter' (d : Bytes) (f : Nat) {s s1 s2 : PState} {obj y : Nat} (w : WF s.tree) (hl : live s.tree y = true)
    (hl2 : live s2.tree y = true) (hrec : connectNamedObjArgs d f y s = .ok (PRes.ok, s1))
    (hstep : connectNamedStep d obj y s1 = .ok (.inr (), s2)) :
    connectNamedLoop d (f + 1) obj y s = connectNamedLoop d f obj (Pv s2.tree y) s2 := by
  conv => lhs; rw [connectNamedLoop]
  have hy : y ≠ invalidIndex := live_ne_INV w.size_le hl
  rw [if_neg hy]
  rw [bind_run (objectAt_live' hl), bind_run (derefP_some_ex _), bind_run (getObj_live hl)]
  rw [w.index_eq y (live_lt hl), bind_run hrec]
  rw [if_neg (by decide), bind_run hstep]
  show (prevOf y >>= fun a => connectNamedLoop d f obj a) s2 = _
  rw [bind_run (prevOf_ex hl2)]

/-! ## one node -/

/-- **one `Name` declaration under the scope block `p`**: the loop passes the integer, reaches the `Name` object, connects -/
theorem cnl_name (d : Bytes) {s : PState} {h p x c k off : Nat} {seg : List UInt8} {dv : DVal} {A R : List Nat} (w : WF s.tree)
    (lp : live s.tree p = true) (hk : K s.tree p = (A ++ [x]) ++ k :: R) (io : NameT d s.tree h p x c k off seg dv false)
    (hth : s.tableHandle = h) (hxc : x ≠ c) (hxk : x ≠ k) (hck : c ≠ k) (g : Nat) :
    ∃ s1, connectNamedLoop d (g + 6) p k s = connectNamedLoop d (g + 4) p (lastOf A) s1 ∧ s1 = { s with tree := s1.tree } ∧
      WF s1.tree ∧ (∀ y, live s1.tree y = live s.tree y) ∧ K s1.tree p = A ++ x :: R ∧ NameT d s1.tree h p x c k off seg dv true ∧
      (∀ y, live s.tree y = true → y ≠ x → y ≠ c → y ≠ k → y ≠ p → SameAt s.tree s1.tree y) ∧
      Pay (slot s1.tree p) = Pay (slot s.tree p) ∧ C13.P s1.tree p = C13.P s.tree p ∧
      (∀ y, (slot s1.tree y).infoIndex = (slot s.tree y).infoIndex) ∧ s1.tree.pool.size = s.tree.pool.size := by
  have hkx : K s.tree x = [c] := io.kx
  have hpk : C13.P s.tree k = p := io.pk
  have hxp : x ≠ p := fun e => by have := io.px; rw [e] at this; exact wf_P_ne_self w lp this
  have hkp : k ≠ p := fun e => by rw [e] at hpk; exact wf_P_ne_self w lp hpk
  have hcp : c ≠ p := fun e => by
    have h1 := io.pc; rw [e] at h1
    -- `P p = x` and `P x = p`: a cycle
    obtain ⟨rk, hrk⟩ := w.rank
    have a1 := hrk p lp (by rw [h1]; exact live_ne_INV w.size_le io.lx)
    have a2 := hrk x io.lx (by rw [io.px]; exact live_ne_INV w.size_le lp)
    rw [h1] at a1; rw [io.px] at a2; omega
  have hK0' : K s.tree p = A ++ x :: (k :: R) := by rw [hk]; simp
  have hpvk : Pv s.tree k = x := by
    have := pv_of_kids w lp hk
    rw [this]; simp
  have hnxx : Nx s.tree x = k := by
    have := nx_of_kids w lp hK0'
    rw [this]; rfl
  have hik : InfoOK (slot s.tree k).infoIndex := by
    rw [io.infk]
    exact dval_info dv
  have hic : InfoOK (slot s.tree c).infoIndex := by
    rw [io.infc]; exact (rowSummary_spec row_507).choose_spec.2.2.2.2.2.1
  have e1 := cn_iter d (g + 5) (obj := p) w io.lk io.lk (cn_leaf d (g + 3) w io.lk io.kk)
    (cn_step_leaf d io.lk hik (fi_of_nil w io.lk io.kk))
  rw [hpvk] at e1
  obtain ⟨s', e2, hs', w', hl', hP', hK', hpay', hpayx, hsz'⟩ := cn_step_name_p d w lp io.lx io.lc io.lk io.opx io.infx
    (by rw [io.thx, hth]) hkx io.valc io.bytes io.seg4 io.px hpk io.kk hnxx hxk
  have hx' : live s'.tree x = true := by rw [hl']; exact io.lx
  have e3 := cn_iter d (g + 4) (obj := p) w io.lx hx' (cn_x d g w io.lx io.lc hkx io.kc hic) e2
  have hnodup : (K s.tree p).Nodup := w.chain_nodup _ _ (w.kids_chain lp)
  have hknot : k ∉ A ++ [x] := by
    have hn := hnodup
    rw [hk, List.nodup_append] at hn
    intro hm
    exact hn.2.2 _ hm _ (List.mem_cons_self ..) rfl
  have hK0n : K s'.tree p = A ++ x :: R := by
    rw [hK' p lp, if_neg (fun e => hxp e.symm), if_pos rfl, hk, List.erase_append_right _ hknot]
    simp
  have hpvx : Pv s'.tree x = lastOf A := by
    have h0' : live s'.tree p = true := by rw [hl']; exact lp
    exact pv_of_kids w' h0' hK0n
  rw [hpvx] at e3
  have pc := hpay' c (fun e => hxc e.symm)
  have pk := hpay' k (fun e => hxk e.symm)
  refine ⟨s', by rw [e1, e3], hs', w', hl', hK0n, ?_, ?_, hpay' p (fun e => hxp e.symm), by rw [hP', if_neg (fun e => hkp e.symm)], ?_, hsz'⟩
  · exact ⟨hx', by rw [hl']; exact io.lc, by rw [hl']; exact io.lk,
      by rw [pay_opcode hpayx]; exact io.opx, by rw [pay_info hpayx]; exact io.infx, by rw [pay_handle hpayx]; exact io.thx,
      by rw [pay_opcode pc]; exact io.opc, by rw [pay_info pc]; exact io.infc, by rw [pay_handle pc]; exact io.thc,
      by rw [pay_value pc]; exact io.valc,
      by rw [pay_opcode pk]; exact io.opk, by rw [pay_info pk]; exact io.infk, by rw [pay_handle pk]; exact io.thk,
      io.dat.of_pay pk, by rw [hK' _ io.lx, if_pos rfl]; rfl,
      by rw [hK' _ io.lc, if_neg (fun e => hxc e.symm), if_neg hcp]; exact io.kc,
      by rw [hK' _ io.lk, if_neg (fun e => hxk e.symm), if_neg hkp]; exact io.kk,
      by rw [hP', if_neg hxk]; exact io.px, by rw [hP', if_neg hck]; exact io.pc,
      by rw [hP', if_pos rfl]; rfl, fun _ => by rw [pay_name hpayx], io.bytes, io.seg4⟩
  · intro y hyl hyx hyc hyk hyp
    exact ⟨hl' y, hpay' y hyx, by rw [hP', if_neg hyk], by rw [hK' y hyl, if_neg hyx, if_neg hyp]⟩
  · intro y
    by_cases hyx : y = x
    · rw [hyx, pay_info hpayx]
    · rw [pay_info (hpay' y hyx)]

/-- before `connectNamedObjArgs` reaches the nodes `ns` under `p` -/
structure CPre (d : Bytes) (t : ObjectTree) (h p : Nat) (L R : List Nat) (ns : List Node) : Prop where
  w : WF t
  lp : live t p = true
  hk : K t p = L ++ tops false ns ++ R
  ok : NodesOK d t h false p ns
  nd : (objsL ns).Nodup
  hp : p ∉ objsL ns

/-- after it has passed them -/
structure CPost (d : Bytes) (t t' : ObjectTree) (h p : Nat) (L R : List Nat) (ns : List Node) : Prop where
  w : WF t'
  hk : K t' p = L ++ tops true ns ++ R
  ok : NodesOK d t' h true p ns
  lv : ∀ y, live t' y = live t y
  frame : ∀ y, live t y = true → y ∉ objsL ns → y ≠ p → SameAt t t' y
  fp : Pay (slot t' p) = Pay (slot t p) ∧ C13.P t' p = C13.P t p
  inf : ∀ y, (slot t' y).infoIndex = (slot t y).infoIndex
  sz : t'.pool.size = t.pool.size

theorem sameAt_of_links {t t' : ObjectTree} (w : WF t) (sl : SameLinks t t') {y : Nat} (hy : live t y = true)
    (hs : slot t' y = slot t y) : SameAt t t' y :=
  ⟨sl.live y, by rw [hs], sl.p y, kids_sameLinks w sl hy⟩

theorem loop_inv (d : Bytes) (f : Nat) (obj : Nat) (s : PState) : connectNamedLoop d (f + 1) obj INV s = .ok (PRes.ok, s) := by
  rw [connectNamedLoop, if_pos inv_eq]; rfl

/-- the reverse loop over childless children of any object: nothing happens -/
theorem cn_leaves_p (d : Bytes) {s : PState} {p : Nat} (w : WF s.tree) (h0 : live s.tree p = true) :
    ∀ (n : Nat) (l rest : List Nat) (f : Nat), l.length = n → K s.tree p = l ++ rest →
      (∀ y ∈ l, K s.tree y = [] ∧ InfoOK (slot s.tree y).infoIndex) → n + 3 ≤ f →
      connectNamedLoop d f p (lastOf l) s = .ok (PRes.ok, s) := by
  intro n
  induction n with
  | zero =>
    intro l rest f hn _ _ hf
    have : l = [] := List.eq_nil_of_length_eq_zero hn
    subst this
    obtain ⟨f', rfl⟩ : ∃ f', f = f' + 1 := ⟨f - 1, by omega⟩
    exact loop_inv d f' p s
  | succ n ih =>
    intro l rest f hn hk hl hf
    rcases list_snoc_cases l with e | ⟨l', y, e⟩
    · rw [e] at hn; cases hn
    · subst e
      obtain ⟨f', rfl⟩ : ∃ f', f = f' + 3 := ⟨f - 3, by omega⟩
      have hy := hl y (by simp)
      have hyl : live s.tree y = true := ((K_mem w h0 y).1 (by rw [hk]; simp)).1
      rw [lastOf_snoc]
      rw [cn_iter d (f' + 2) w hyl hyl (cn_leaf d f' w hyl hy.1) (cn_step_leaf d hyl hy.2 (fi_of_nil w hyl hy.1))]
      have hpv : Pv s.tree y = lastOf l' := pv_of_kids w h0 (pre := l') (post := rest) (by rw [hk]; simp)
      rw [hpv]
      exact ih l' (y :: rest) (f' + 2) (by simpa using hn) (by rw [hk]; simp) (fun z hz => hl z (by simp [hz])) (by omega)

/-- **one `Device` under the scope block `p`**, given what the loop does to its contents -/
theorem cnl_dev (d : Bytes) {s s1 : PState} {kd : BKind} {h p x c sb off pw : Nat} {seg : List UInt8} {es : List CArg} {kids : List Node}
    {A R : List Nat}
    (w : WF s.tree) (lp : live s.tree p = true) (hk : K s.tree p = A ++ x :: R)
    (dt : DevT d s.tree h p kd x c sb off seg es false) (hksb : K s.tree sb = tops false kids) (hth : s.tableHandle = h)
    (hxc : x ≠ c) (hxsb : x ≠ sb) (hcsb : c ≠ sb) (hxk : x ∉ objsL kids) (hck : c ∉ objsL kids) (hpk : p ∉ objsL kids)
    (hes : ∀ a ∈ es, a.e ≠ x ∧ a.e ≠ sb ∧ a.e ∉ objsL kids)
    (hpsb : p ≠ sb) (g : Nat) (hg : (tops false kids).length + 2 ≤ g) (hge : es.length + 3 ≤ g)
    (ek : connectNamedLoop d g sb (lastOf ([] ++ tops false kids)) s =
      connectNamedLoop d (g - (tops false kids).length) sb (lastOf []) s1)
    (hs1 : s1 = { s with tree := s1.tree }) (cp : CPost d s.tree s1.tree h sb [] [] kids) :
    ∃ s2, connectNamedLoop d (g + 4) p x s = connectNamedLoop d (g + 3) p (lastOf A) s2 ∧ s2 = { s with tree := s2.tree } ∧
      WF s2.tree ∧ (∀ y, live s2.tree y = live s.tree y) ∧ K s2.tree p = K s.tree p ∧
      NodeOK d s2.tree h true true p (.dev kd x c sb off pw seg es kids) ∧
      (∀ y, live s.tree y = true → y ∉ (Node.dev kd x c sb off pw seg es kids).objs → y ≠ p → SameAt s.tree s2.tree y) ∧
      Pay (slot s2.tree p) = Pay (slot s.tree p) ∧ C13.P s2.tree p = C13.P s.tree p ∧
      (∀ y, (slot s2.tree y).infoIndex = (slot s.tree y).infoIndex) ∧ s2.tree.pool.size = s.tree.pool.size := by
  have hxp : x ≠ p := fun e => by have := dt.px; rw [e] at this; exact wf_P_ne_self w lp this
  have hcp : c ≠ p := fun e => by
    have h1 := dt.pc; rw [e] at h1
    obtain ⟨rk, hrk⟩ := w.rank
    have a1 := hrk p lp (by rw [h1]; exact live_ne_INV w.size_le dt.lx)
    have a2 := hrk x dt.lx (by rw [dt.px]; exact live_ne_INV w.size_le lp)
    rw [h1] at a1; rw [dt.px] at a2; omega
  -- what the contents' pass left of the device
  have sx := cp.frame x dt.lx hxk hxsb
  have sc := cp.frame c dt.lc hck hcsb
  have sp := cp.frame p lp hpk hpsb
  have w1 := cp.w
  have lx1 : live s1.tree x = true := by rw [cp.lv]; exact dt.lx
  have lc1 : live s1.tree c = true := by rw [cp.lv]; exact dt.lc
  have lsb1 : live s1.tree sb = true := by rw [cp.lv]; exact dt.lsb
  have hkx1 : K s1.tree x = c :: (es.map (·.e) ++ [sb]) := by rw [sx.2.2.2]; exact dt.kx
  have hkc1 : K s1.tree c = [] := by rw [sc.2.2.2]; exact dt.kc
  have se : ∀ a ∈ es, SameAt s.tree s1.tree a.e := fun a ha =>
    cp.frame a.e (dt.args a ha).le (hes a ha).2.2 (hes a ha).2.1
  have args1 : ∀ a ∈ es, ConstT s1.tree h x a := fun a ha => (dt.args a ha).frame (se a ha)
  have hth1 : s1.tableHandle = h := by rw [hs1]; exact hth
  -- the recursion into the device
  have hn : (tops false kids).length < g := by omega
  obtain ⟨g1, hg1⟩ : ∃ g1, g - (tops false kids).length = g1 + 1 := ⟨g - (tops false kids).length - 1, by omega⟩
  have erec_sb : connectNamedObjArgs d (g + 1) sb s = .ok (PRes.ok, s1) := by
    rw [connectNamedObjArgs, bind_run (objectAt_live' dt.lsb), bind_run (derefP_some_ex _), bind_run (getObj_live dt.lsb)]
    show connectNamedLoop d g sb (La s.tree sb) s = _
    rw [la_eq_lastOf w dt.lsb, hksb]
    have : lastOf (tops false kids) = lastOf ([] ++ tops false kids) := by simp
    rw [this, ek, hg1]
    exact loop_inv d g1 sb s1
  have hic : InfoOK (slot s1.tree c).infoIndex := by
    rw [pay_info sc.2.1, dt.infc]; exact (rowSummary_spec row_507).choose_spec.2.2.2.2.2.1
  obtain ⟨g2, hg2⟩ : ∃ g2, g = g2 + 2 := ⟨g - 2, by omega⟩
  have erec_x : connectNamedObjArgs d (g + 3) x s = .ok (PRes.ok, s1) := by
    rw [connectNamedObjArgs, bind_run (objectAt_live' dt.lx), bind_run (derefP_some_ex _), bind_run (getObj_live dt.lx)]
    show connectNamedLoop d (g + 2) x (La s.tree x) s = _
    rw [la_of_kids w dt.lx (pre := c :: es.map (·.e)) (show K s.tree x = (c :: es.map (·.e)) ++ [sb] by rw [dt.kx]; simp)]
    rw [cn_iter' d (g + 1) w dt.lsb lsb1 erec_sb
      (cn_step_sb d lsb1 (by rw [pay_opcode cp.fp.1]; exact dt.opsb) (by rw [pay_info cp.fp.1]; exact dt.infsb))]
    have hpv : Pv s1.tree sb = lastOf (c :: es.map (·.e)) :=
      pv_of_kids w1 lx1 (pre := c :: es.map (·.e)) (post := []) (by rw [hkx1]; simp)
    rw [hpv]
    have hleaf : ∀ y ∈ c :: es.map (·.e), K s1.tree y = [] ∧ InfoOK (slot s1.tree y).infoIndex := by
      intro y hy
      rcases List.mem_cons.1 hy with e | hy
      · rw [e]; exact ⟨hkc1, hic⟩
      · obtain ⟨a, ha, e⟩ := List.mem_map.1 hy
        have ca := args1 a ha
        rw [← e]
        refine ⟨ca.ke, ?_⟩
        rw [ca.inf]
        obtain ⟨_, _, _, _, _, _, _, hi, _⟩ := const_row a.n a.v
        exact hi
    exact cn_leaves_p d w1 lx1 (c :: es.map (·.e)).length (c :: es.map (·.e)) [sb] (g + 1) rfl (by rw [hkx1]; simp) hleaf (by
      simp only [List.length_cons, List.length_map]; omega)
  -- the loop body on the device
  obtain ⟨s2, e2, hs2, sl, hsl2, hpx2⟩ := cn_step_dev d kd (p := p) w1 lx1 lc1 (by rw [pay_opcode sx.2.1]; exact dt.opx)
    (by rw [pay_info sx.2.1]; exact dt.infx) (by rw [pay_handle sx.2.1, dt.thx, hth1]) hkx1 (by rw [pay_value sc.2.1]; exact dt.valc)
    dt.bytes dt.seg4
  have w2 : WF s2.tree := wf_of_sameLinks w1 sl
  have lx2 : live s2.tree x = true := by rw [sl.live]; exact lx1
  have hkp1 : K s1.tree p = A ++ x :: R := by rw [sp.2.2.2]; exact hk
  have lp1 : live s1.tree p = true := by rw [cp.lv]; exact lp
  have hpvx : Pv s2.tree x = lastOf A := by
    rw [sl.pv]; exact pv_of_kids w1 lp1 hkp1
  have e3 := cn_iter' d (g + 3) (obj := p) w dt.lx lx2 erec_x e2
  rw [hpvx] at e3
  have s12 : ∀ y, live s1.tree y = true → y ≠ x → SameAt s1.tree s2.tree y :=
    fun y hy hyx => sameAt_of_links w1 sl hy (hsl2 y hyx)
  have pc12 := s12 c lc1 (fun e => hxc e.symm)
  have psb12 := s12 sb lsb1 (fun e => hxsb e.symm)
  refine ⟨s2, e3, by rw [hs2, hs1], w2, fun y => by rw [sl.live, cp.lv], by rw [kids_sameLinks w1 sl lp1, sp.2.2.2], ?_, ?_,
    by rw [hsl2 p (fun e => hxp e.symm)]; exact sp.2.1, by rw [sl.p]; exact sp.2.2.1, ?_, by rw [sl.size, cp.sz]⟩
  · unfold NodeOK
    refine ⟨?_, ?_, ?_⟩
    · exact ⟨lx2, by rw [sl.live]; exact lc1, by rw [sl.live]; exact lsb1,
        by rw [pay_opcode hpx2, pay_opcode sx.2.1]; exact dt.opx, by rw [pay_info hpx2, pay_info sx.2.1]; exact dt.infx,
        by rw [pay_handle hpx2, pay_handle sx.2.1]; exact dt.thx,
        by rw [pay_opcode pc12.2.1, pay_opcode sc.2.1]; exact dt.opc, by rw [pay_info pc12.2.1, pay_info sc.2.1]; exact dt.infc,
        by rw [pay_handle pc12.2.1, pay_handle sc.2.1]; exact dt.thc, by rw [pay_value pc12.2.1, pay_value sc.2.1]; exact dt.valc,
        by rw [pay_opcode psb12.2.1, pay_opcode cp.fp.1]; exact dt.opsb, by rw [pay_info psb12.2.1, pay_info cp.fp.1]; exact dt.infsb,
        by rw [pay_handle psb12.2.1, pay_handle cp.fp.1]; exact dt.thsb,
        by rw [kids_sameLinks w1 sl lx1]; exact hkx1, by rw [pc12.2.2.2]; exact hkc1,
        by rw [sl.p, sx.2.2.1]; exact dt.px, by rw [sl.p, sc.2.2.1]; exact dt.pc, by rw [sl.p, cp.fp.2]; exact dt.psb,
        fun a ha => (args1 a ha).frame (s12 a.e (args1 a ha).le (hes a ha).1), dt.wsok,
        fun _ => by rw [pay_name hpx2], dt.bytes, dt.seg4⟩
    · rw [psb12.2.2.2, cp.hk]; simp
    · refine NodesOK.frame sb kids cp.ok (fun y hy => ?_)
      have hyl : live s1.tree y = true := NodesOK.live sb kids cp.ok y hy
      exact s12 y hyl (fun e => hxk (e ▸ hy))
  · intro y hyl hyo hyp
    simp only [Node.objs, List.mem_append, List.mem_cons, List.mem_nil_iff, or_false, not_or] at hyo
    obtain ⟨⟨hyx, hyc, hysb⟩, hye, hyk⟩ := hyo
    exact (cp.frame y hyl hyk hysb).trans (s12 y (by rw [cp.lv]; exact hyl) hyx)
  · intro y
    by_cases hyx : y = x
    · rw [hyx, pay_info hpx2]; exact cp.inf x
    · rw [hsl2 y hyx]; exact cp.inf y

theorem leaf_noterm (kd : LKind) : ∀ k, k < kd.ws.length + 1 →
    (9 :: kd.ws.map argTy).getD k 0 ≠ argTypeTermArg ∧ (9 :: kd.ws.map argTy).getD k 0 ≠ argTypeDataRefObj := by
  intro k hk
  cases kd
  · have : k = 0 := by simp [LKind.ws] at hk; omega
    subst this; decide
  · have : k = 0 ∨ k = 1 := by simp [LKind.ws] at hk; omega
    rcases this with e | e <;> subst e <;> decide

/-- **one `Event` / `Mutex` declaration under the scope block `p`**: it gets its name -/
theorem cnl_leaf (d : Bytes) {s : PState} {kd : LKind} {h p x c off : Nat} {seg : List UInt8} {es : List CArg} {A R : List Nat}
    (w : WF s.tree) (lp : live s.tree p = true) (hk : K s.tree p = A ++ x :: R)
    (lt : LeafT d s.tree h p kd x c off seg es false) (hth : s.tableHandle = h) (hnd : (x :: c :: es.map (·.e)).Nodup)
    (g : Nat) (hg : es.length + 5 ≤ g) :
    ∃ s2, connectNamedLoop d (g + 1) p x s = connectNamedLoop d g p (lastOf A) s2 ∧ s2 = { s with tree := s2.tree } ∧
      WF s2.tree ∧ (∀ y, live s2.tree y = live s.tree y) ∧ K s2.tree p = K s.tree p ∧
      NodeOK d s2.tree h true true p (.leaf kd x c off seg es) ∧
      (∀ y, live s.tree y = true → y ≠ x → SameAt s.tree s2.tree y) ∧
      (∀ y, (slot s2.tree y).infoIndex = (slot s.tree y).infoIndex) ∧ s2.tree.pool.size = s.tree.pool.size := by
  have hxp : x ≠ p := fun e => by have := lt.px; rw [e] at this; exact wf_P_ne_self w lp this
  -- the recursion: only childless arguments
  have hleaf : ∀ y ∈ c :: es.map (·.e), K s.tree y = [] ∧ InfoOK (slot s.tree y).infoIndex := by
    intro y hy
    rcases List.mem_cons.1 hy with e | hy
    · rw [e]; exact ⟨lt.kc, by rw [lt.infc]; exact (rowSummary_spec row_507).choose_spec.2.2.2.2.2.1⟩
    · obtain ⟨a, ha, e⟩ := List.mem_map.1 hy
      have ca := lt.args a ha
      rw [← e]
      refine ⟨ca.ke, ?_⟩
      rw [ca.inf]
      obtain ⟨_, _, _, _, _, _, _, hi, _⟩ := const_row a.n a.v
      exact hi
  obtain ⟨g1, hg1⟩ : ∃ g1, g = g1 + 1 := ⟨g - 1, by omega⟩
  have erec : connectNamedObjArgs d g x s = .ok (PRes.ok, s) := by
    rw [hg1, connectNamedObjArgs, bind_run (objectAt_live' lt.lx), bind_run (derefP_some_ex _), bind_run (getObj_live lt.lx)]
    show connectNamedLoop d g1 x (La s.tree x) s = _
    rw [la_eq_lastOf w lt.lx, lt.kx]
    exact cn_leaves_p d w lt.lx (c :: es.map (·.e)).length (c :: es.map (·.e)) [] g1 rfl (by rw [lt.kx]; simp) hleaf (by
      simp only [List.length_cons, List.length_map]; omega)
  obtain ⟨s2, e2, hs2, sl, hsl2, hpx2⟩ := cn_step_named d kd.op (row_leaf kd) (leaf_noterm kd) kd.op_ne.2.2.2.2.2.1 (p := p) w lt.lx lt.lc
    lt.opx lt.infx (by rw [lt.thx, hth]) lt.kx lt.valc lt.bytes lt.seg4
  have w2 : WF s2.tree := wf_of_sameLinks w sl
  have lx2 : live s2.tree x = true := by rw [sl.live]; exact lt.lx
  have e3 := cn_iter' d g (obj := p) w lt.lx lx2 erec e2
  have hpvx : Pv s2.tree x = lastOf A := by rw [sl.pv]; exact pv_of_kids w lp hk
  rw [hpvx] at e3
  have s12 : ∀ y, live s.tree y = true → y ≠ x → SameAt s.tree s2.tree y :=
    fun y hy hyx => sameAt_of_links w sl hy (hsl2 y hyx)
  have hcx : c ≠ x := fun e => by rw [e] at hnd; simp at hnd
  have hex : ∀ a ∈ es, a.e ≠ x := fun a ha e => by
    have : x ∈ es.map (·.e) := List.mem_map.2 ⟨a, ha, e⟩
    simp only [List.nodup_cons, List.mem_cons, not_or] at hnd
    exact hnd.1.2 this
  refine ⟨s2, e3, hs2, w2, sl.live, kids_sameLinks w sl lp, ?_, s12, ?_, sl.size⟩
  · unfold NodeOK
    have pc := s12 c lt.lc hcx
    exact ⟨lx2, by rw [sl.live]; exact lt.lc, by rw [pay_opcode hpx2]; exact lt.opx, by rw [pay_info hpx2]; exact lt.infx,
      by rw [pay_handle hpx2]; exact lt.thx, by rw [pay_opcode pc.2.1]; exact lt.opc, by rw [pay_info pc.2.1]; exact lt.infc,
      by rw [pay_handle pc.2.1]; exact lt.thc, by rw [pay_value pc.2.1]; exact lt.valc,
      by rw [kids_sameLinks w sl lt.lx]; exact lt.kx, by rw [pc.2.2.2]; exact lt.kc, by rw [sl.p]; exact lt.px,
      by rw [sl.p]; exact lt.pc, fun a ha => (lt.args a ha).frame (s12 a.e (lt.args a ha).le (hex a ha)),
      fun _ => by rw [pay_name hpx2], lt.bytes, lt.seg4, lt.wsok⟩
  · intro y
    by_cases hyx : y = x
    · rw [hyx, pay_info hpx2]
    · rw [hsl2 y hyx]

theorem sizeN_pos (n : Node) : 1 ≤ sizeN n := by
  cases n <;> simp [sizeN] <;> omega

theorem CPost.refl {d : Bytes} {t : ObjectTree} {h p : Nat} {L R : List Nat} (w : WF t) (hk : K t p = L ++ R) :
    CPost d t t h p L R [] :=
  ⟨w, by simpa [tops] using hk, by unfold NodesOK; trivial, fun _ => rfl, fun y _ _ _ => SameAt.rfl' t y, ⟨rfl, rfl⟩, fun _ => rfl, rfl⟩

/-- **the reverse loop over the nodes under a scope block** (induction on the number of declarations) -/
theorem cnl (d : Bytes) (h : Nat) : ∀ (k : Nat) (ns : List Node), sizeL ns ≤ k → ∀ (s : PState) (g p : Nat) (L R : List Nat),
    CPre d s.tree h p L R ns → s.tableHandle = h → 6 * sizeL ns + 6 ≤ g →
    ∃ s', connectNamedLoop d g p (lastOf (L ++ tops false ns)) s =
        connectNamedLoop d (g - (tops false ns).length) p (lastOf L) s' ∧
      s' = { s with tree := s'.tree } ∧ CPost d s.tree s'.tree h p L R ns := by
  intro k
  induction k with
  | zero =>
    intro ns hsz s g p L R pre _ _
    have : ns = [] := by
      cases ns with
      | nil => rfl
      | cons n ns => have := sizeN_pos n; simp only [sizeL] at hsz; omega
    subst this
    exact ⟨s, by simp [tops], rfl, CPost.refl pre.w (by simpa [tops] using pre.hk)⟩
  | succ k ih =>
    intro ns hsz s g p L R pre hth hg
    rcases list_snoc_cases ns with e | ⟨ns', n, e⟩
    · subst e
      exact ⟨s, by simp [tops], rfl, CPost.refl pre.w (by simpa [tops] using pre.hk)⟩
    · subst e
      have w := pre.w
      rw [sizeL_append] at hsz hg
      simp only [sizeL, Nat.add_zero] at hsz hg
      have okA := ((NodesOK_append p ns' [n]).1 pre.ok).1
      have okn : NodeOK d s.tree h false false p n := by
        have := ((NodesOK_append p ns' [n]).1 pre.ok).2
        unfold NodesOK at this; exact this.1
      have hnd := pre.nd
      rw [objsL_append, List.nodup_append] at hnd
      obtain ⟨ndA, ndn, hdisj⟩ := hnd
      simp only [objsL, List.append_nil] at ndn hdisj
      have hpA : p ∉ objsL ns' := fun hm => pre.hp (by rw [objsL_append]; exact List.mem_append_left _ hm)
      have hpn : p ∉ n.objs := fun hm => pre.hp (by rw [objsL_append]; simp [objsL, hm])
      have liveA : ∀ y ∈ objsL ns', live s.tree y = true := NodesOK.live p ns' okA
      cases n with
      | name x c kk off seg dv =>
        unfold NodeOK at okn
        simp only [Node.objs] at ndn hdisj hpn
        have hxc : x ≠ c := by intro e; rw [e] at ndn; simp at ndn
        have hxk : x ≠ kk := by intro e; rw [e] at ndn; simp at ndn
        have hck : c ≠ kk := by intro e; rw [e] at ndn; simp at ndn
        obtain ⟨g', rfl⟩ : ∃ g', g = g' + 6 := ⟨g - 6, by simp only [sizeN] at hg; omega⟩
        have hk0 : K s.tree p = ((L ++ tops false ns') ++ [x]) ++ kk :: R := by
          rw [pre.hk, tops_append]; simp [tops]
        have hlast : lastOf (L ++ tops false (ns' ++ [Node.name x c kk off seg dv])) = kk := by
          have : L ++ tops false (ns' ++ [Node.name x c kk off seg dv]) = (L ++ tops false ns' ++ [x]) ++ [kk] := by
            rw [tops_append]; simp [tops]
          rw [this, lastOf_snoc]
        obtain ⟨s1, e1, hs1, w1, hl1, hk1, nt1, fr1, pp1, ppar1, inf1, sz1⟩ := cnl_name d w pre.lp hk0 okn hth hxc hxk hck g'
        have sameA : ∀ y ∈ objsL ns', SameAt s.tree s1.tree y := by
          intro y hy
          exact fr1 y (liveA y hy) (hdisj y hy x (by simp)) (hdisj y hy c (by simp)) (hdisj y hy kk (by simp))
            (fun e => hpA (e ▸ hy))
        have pre1 : CPre d s1.tree h p L (x :: R) ns' :=
          ⟨w1, by rw [hl1]; exact pre.lp, by rw [hk1], NodesOK.frame p ns' okA sameA, ndA, hpA⟩
        obtain ⟨s', e', hs', cp⟩ := ih ns' (by simp only [sizeN] at hsz; omega) s1 (g' + 4) p L (x :: R) pre1 (by rw [hs1]; exact hth)
          (by simp only [sizeN] at hg; omega)
        refine ⟨s', ?_, by rw [hs', hs1], ?_⟩
        · rw [hlast, e1, e']
          congr 1
          rw [tops_append]
          simp [tops]
          try omega
        · have lx1 : live s1.tree x = true := nt1.lx
          have hn1 : ∀ y, y = x ∨ y = c ∨ y = kk → live s1.tree y = true ∧ y ∉ objsL ns' ∧ y ≠ p := by
            intro y hy
            have hyin : y ∈ [x, c, kk] := by rcases hy with e | e | e <;> simp [e]
            refine ⟨?_, fun hm => hdisj y hm y hyin rfl, fun e => hpn (e ▸ hyin)⟩
            rcases hy with e | e | e <;> rw [e]
            · exact nt1.lx
            · exact nt1.lc
            · exact nt1.lk
          have sa : ∀ y, y = x ∨ y = c ∨ y = kk → SameAt s1.tree s'.tree y := fun y hy =>
            cp.frame y (hn1 y hy).1 (hn1 y hy).2.1 (hn1 y hy).2.2
          refine ⟨cp.w, ?_, ?_, fun y => by rw [cp.lv, hl1], ?_, ⟨by rw [cp.fp.1, pp1], by rw [cp.fp.2, ppar1]⟩,
            fun y => by rw [cp.inf, inf1], by rw [cp.sz, sz1]⟩
          · rw [cp.hk, tops_append]; simp [tops]
          · rw [NodesOK_append]
            refine ⟨cp.ok, ?_⟩
            unfold NodesOK NodeOK
            exact ⟨nt1.frame (sa x (Or.inl rfl)) (sa c (Or.inr (Or.inl rfl))) (sa kk (Or.inr (Or.inr rfl))), trivial⟩
          · intro y hyl hyo hyp
            rw [objsL_append] at hyo
            simp only [objsL, Node.objs, List.append_nil, List.mem_append, List.mem_cons, List.mem_nil_iff, or_false, not_or] at hyo
            exact (fr1 y hyl hyo.2.1 hyo.2.2.1 hyo.2.2.2 hyp).trans (cp.frame y (by rw [hl1]; exact hyl) hyo.1 hyp)
      | dev kd x c sb off pw seg es kids =>
        unfold NodeOK at okn
        obtain ⟨dt, hksb, okk⟩ := okn
        have hobj : (Node.dev kd x c sb off pw seg es kids).objs = [x, c, sb] ++ (es.map (·.e) ++ objsL kids) := by simp [Node.objs]
        rw [hobj] at ndn hdisj hpn
        rw [List.nodup_append] at ndn
        obtain ⟨nd3, ndek, hd3k'⟩ := ndn
        rw [List.nodup_append] at ndek
        obtain ⟨nde, ndk, hdek⟩ := ndek
        have hd3k : ∀ a ∈ [x, c, sb], ∀ b ∈ objsL kids, a ≠ b := fun a ha b hb => hd3k' a ha b (List.mem_append_right _ hb)
        have hes : ∀ a ∈ es, a.e ≠ x ∧ a.e ≠ sb ∧ a.e ∉ objsL kids := fun a ha =>
          ⟨fun e => hd3k' x (by simp) a.e (List.mem_append_left _ (List.mem_map.2 ⟨a, ha, rfl⟩)) e.symm,
           fun e => hd3k' sb (by simp) a.e (List.mem_append_left _ (List.mem_map.2 ⟨a, ha, rfl⟩)) e.symm,
           fun hm => hdek a.e (List.mem_map.2 ⟨a, ha, rfl⟩) a.e hm rfl⟩
        have hesl : es.length = kd.ws.length := by rw [← dt.wsok, List.length_map]
        have hxc : x ≠ c := by intro e; rw [e] at nd3; simp at nd3
        have hxsb : x ≠ sb := by intro e; rw [e] at nd3; simp at nd3
        have hcsb : c ≠ sb := by intro e; rw [e] at nd3; simp at nd3
        have hxk : x ∉ objsL kids := fun hm => hd3k x (by simp) x hm rfl
        have hck : c ∉ objsL kids := fun hm => hd3k c (by simp) c hm rfl
        have hsbk : sb ∉ objsL kids := fun hm => hd3k sb (by simp) sb hm rfl
        have hpk : p ∉ objsL kids := fun hm => hpn (by simp [hm])
        have hpsb : p ≠ sb := fun e => hpn (by simp [e])
        simp only [sizeN] at hsz hg
        have htl := tops_len_le false kids
        obtain ⟨g', rfl⟩ : ∃ g', g = g' + 4 := ⟨g - 4, by omega⟩
        have hk0 : K s.tree p = (L ++ tops false ns') ++ x :: R := by
          rw [pre.hk, tops_append]; simp [tops]
        have hlast : lastOf (L ++ tops false (ns' ++ [Node.dev kd x c sb off pw seg es kids])) = x := by
          have : L ++ tops false (ns' ++ [Node.dev kd x c sb off pw seg es kids]) = (L ++ tops false ns') ++ [x] := by
            rw [tops_append]; simp [tops]
          rw [this, lastOf_snoc]
        -- the contents
        have prek : CPre d s.tree h sb [] [] kids := ⟨w, dt.lsb, by simpa using hksb, okk, ndk, hsbk⟩
        obtain ⟨s1, ek, hs1, cpk⟩ := ih kids (by omega) s g' sb [] [] prek hth (by omega)
        obtain ⟨s2, e2, hs2, w2, hl2, hk2, nok2, fr2, pp2, ppar2, inf2, sz2⟩ := cnl_dev d (pw := pw) w pre.lp hk0 dt hksb hth hxc hxsb hcsb hxk hck hpk
          hes hpsb g' (by omega) (by omega) ek hs1 cpk
        have sameA : ∀ y ∈ objsL ns', SameAt s.tree s2.tree y := by
          intro y hy
          refine fr2 y (liveA y hy) (fun hm => ?_) (fun e => hpA (e ▸ hy))
          exact hdisj y hy y (by rw [← hobj]; exact hm) rfl
        have pre2 : CPre d s2.tree h p L (x :: R) ns' :=
          ⟨w2, by rw [hl2]; exact pre.lp, by rw [hk2, hk0], NodesOK.frame p ns' okA sameA, ndA, hpA⟩
        obtain ⟨s', e', hs', cp⟩ := ih ns' (by omega) s2 (g' + 3) p L (x :: R) pre2 (by rw [hs2]; exact hth) (by omega)
        refine ⟨s', ?_, by rw [hs', hs2], ?_⟩
        · rw [hlast, e2, e']
          congr 1
          rw [tops_append]
          simp [tops]
          try omega
        · have livn : ∀ y ∈ (Node.dev kd x c sb off pw seg es kids).objs, live s2.tree y = true := by
            intro y hy
            have := NodesOK.live p [Node.dev kd x c sb off pw seg es kids] (by unfold NodesOK; exact ⟨nok2, trivial⟩) y
              (by simpa [objsL] using hy)
            exact this
          have sa : ∀ y ∈ (Node.dev kd x c sb off pw seg es kids).objs, SameAt s2.tree s'.tree y := fun y hy =>
            cp.frame y (livn y hy) (fun hm => hdisj y hm y (by rw [← hobj]; exact hy) rfl)
              (fun e => hpn (by rw [← hobj]; exact e ▸ hy))
          refine ⟨cp.w, ?_, ?_, fun y => by rw [cp.lv, hl2], ?_, ⟨by rw [cp.fp.1, pp2], by rw [cp.fp.2, ppar2]⟩,
            fun y => by rw [cp.inf, inf2], by rw [cp.sz, sz2]⟩
          · rw [cp.hk, tops_append]; simp [tops]
          · rw [NodesOK_append]
            refine ⟨cp.ok, ?_⟩
            unfold NodesOK
            exact ⟨NodeOK.frame p _ nok2 sa, trivial⟩
          · intro y hyl hyo hyp
            rw [objsL_append] at hyo
            simp only [objsL, List.append_nil, List.mem_append, not_or] at hyo
            exact (fr2 y hyl hyo.2 hyp).trans (cp.frame y (by rw [hl2]; exact hyl) hyo.1 hyp)
      | leaf kd x c off seg es =>
        unfold NodeOK at okn
        have hobj : (Node.leaf kd x c off seg es).objs = x :: c :: es.map (·.e) := by simp [Node.objs]
        rw [hobj] at ndn hdisj hpn
        have hesl : es.length ≤ 1 := by
          have hwl : kd.ws.length ≤ 1 := by cases kd <;> simp [LKind.ws]
          have := congrArg List.length okn.wsok
          rw [List.length_map] at this
          omega
        simp only [sizeN] at hsz hg
        obtain ⟨g', rfl⟩ : ∃ g', g = g' + 1 := ⟨g - 1, by omega⟩
        have hk0 : K s.tree p = (L ++ tops false ns') ++ x :: R := by
          rw [pre.hk, tops_append]; simp [tops]
        have hlast : lastOf (L ++ tops false (ns' ++ [Node.leaf kd x c off seg es])) = x := by
          have : L ++ tops false (ns' ++ [Node.leaf kd x c off seg es]) = (L ++ tops false ns') ++ [x] := by
            rw [tops_append]; simp [tops]
          rw [this, lastOf_snoc]
        obtain ⟨s2, e2, hs2, w2, hl2, hk2, nok2, fr2, inf2, sz2⟩ := cnl_leaf d w pre.lp hk0 okn hth ndn g' (by omega)
        have hxp : x ≠ p := fun e => hpn (by simp [e])
        have sameA : ∀ y ∈ objsL ns', SameAt s.tree s2.tree y := by
          intro y hy
          exact fr2 y (liveA y hy) (fun e => hdisj y hy x (by simp) e)
        have sp := fr2 p pre.lp (fun e => hxp e.symm)
        have pre2 : CPre d s2.tree h p L (x :: R) ns' :=
          ⟨w2, by rw [hl2]; exact pre.lp, by rw [hk2, hk0], NodesOK.frame p ns' okA sameA, ndA, hpA⟩
        obtain ⟨s', e', hs', cp⟩ := ih ns' (by omega) s2 g' p L (x :: R) pre2 (by rw [hs2]; exact hth) (by omega)
        refine ⟨s', ?_, by rw [hs', hs2], ?_⟩
        · rw [hlast, e2, e']
          congr 1
          rw [tops_append]
          simp [tops]
          try omega
        · have livn : ∀ y ∈ (Node.leaf kd x c off seg es).objs, live s2.tree y = true := by
            intro y hy
            have := NodesOK.live p [Node.leaf kd x c off seg es] (by unfold NodesOK; exact ⟨nok2, trivial⟩) y
              (by simpa [objsL] using hy)
            exact this
          have sa : ∀ y ∈ (Node.leaf kd x c off seg es).objs, SameAt s2.tree s'.tree y := fun y hy =>
            cp.frame y (livn y hy) (fun hm => hdisj y hm y (by rw [← hobj]; exact hy) rfl)
              (fun e => hpn (by rw [← hobj]; exact e ▸ hy))
          refine ⟨cp.w, ?_, ?_, fun y => by rw [cp.lv, hl2], ?_, ⟨by rw [cp.fp.1]; exact sp.2.1, by rw [cp.fp.2]; exact sp.2.2.1⟩,
            fun y => by rw [cp.inf, inf2], by rw [cp.sz, sz2]⟩
          · rw [cp.hk, tops_append]; simp [tops]
          · rw [NodesOK_append]
            refine ⟨cp.ok, ?_⟩
            unfold NodesOK
            exact ⟨NodeOK.frame p _ nok2 sa, trivial⟩
          · intro y hyl hyo hyp
            rw [objsL_append] at hyo
            simp only [objsL, List.append_nil, List.mem_append, not_or] at hyo
            rw [hobj] at hyo
            exact (fr2 y hyl (fun e => hyo.2 (by simp [e]))).trans (cp.frame y (by rw [hl2]; exact hyl) hyo.1 hyp)

mutual
theorem sizeN_prog : ∀ n : Node, sizeP n.prog = sizeN n
  | .name _ _ _ _ _ _ => by simp [Node.prog, sizeP, sizeN]
  | .dev _ _ _ _ _ _ _ _ kids => by simp [Node.prog, sizeP, sizeN, sizeL_progs kids]
  | .leaf _ _ _ _ _ _ => by simp [Node.prog, sizeP, sizeN]
theorem sizeL_progs : ∀ ns : List Node, sizePs (progs ns) = sizeL ns
  | [] => by simp [progs, sizePs, sizeL]
  | n :: ns => by simp [progs, sizePs, sizeL, sizeN_prog n, sizeL_progs ns]
end

/-- the pool after `connectNamedObjArgs`: the old pool untouched, the nodes `ns` connected under the root -/
structure NestT (d : Bytes) (t0 t : ObjectTree) (h : Nat) (ns : List Node) : Prop where
  wf : WF t
  k0 : K t 0 = K t0 0 ++ tops true ns
  ok : NodesOK d t h true 0 ns
  old : ∀ y, live t0 y = true → live t y = true ∧ Pay (slot t y) = Pay (slot t0 y) ∧ C13.P t y = C13.P t0 y ∧
    (y ≠ 0 → K t y = K t0 y)
  nd : (objsL ns).Nodup
  new : ∀ y ∈ objsL ns, live t0 y = false

/-- **`connectNamedObjArgs` on the pool the first pass built from a nested program** -/
theorem connectNamed_nest (d : Bytes) {s0 s : PState} {ns : List Node} (bs : Base s0.tree) (b : Built d s0 s 0 d.size ns)
    (f : Nat) (hf : 6 * sizeL ns + (K s0.tree 0).length + 12 ≤ f) :
    ∃ s1, connectNamedObjArgs d f 0 s = .ok (PRes.ok, s1) ∧ NestT d s0.tree s1.tree s0.tableHandle ns ∧
      s1.tableHandle = s0.tableHandle := by
  have w := b.fp.tree.wf
  have h0 : live s.tree 0 = true := b.oldl 0 bs.root
  have hp : (0 : Nat) ∉ objsL ns := fun hm => by have := b.new 0 hm; rw [bs.root] at this; cases this
  have pre : CPre d s.tree s0.tableHandle 0 (K s0.tree 0) [] ns :=
    ⟨w, h0, by rw [b.ktop]; simp, b.ok, b.nodup, hp⟩
  obtain ⟨f', rfl⟩ : ∃ f', f = f' + 1 := ⟨f - 1, by omega⟩
  obtain ⟨s1, e1, hs1, cp⟩ := cnl d s0.tableHandle (sizeL ns) ns (Nat.le_refl _) s f' 0 (K s0.tree 0) [] pre b.th (by omega)
  have htl := tops_len_le false ns
  -- the old children of the root: still childless scope blocks
  have hold : ∀ y, live s0.tree y = true → y ≠ 0 → SameAt s.tree s1.tree y := by
    intro y hy hy0
    exact cp.frame y (b.oldl y hy) (fun hm => by have := b.new y hm; rw [hy] at this; cases this) hy0
  have hleaves : ∀ y ∈ K s0.tree 0, K s1.tree y = [] ∧ InfoOK (slot s1.tree y).infoIndex := by
    intro y hy
    obtain ⟨hyl, hyp⟩ := (K_mem bs.wf bs.root y).1 hy
    have hy0 : y ≠ 0 := fun e => by
      rw [e, bs.rootp] at hyp; exact live_ne_INV bs.wf.size_le bs.root hyp.symm
    obtain ⟨k1, k2, k3⟩ := bs.kid y hy
    have sa := hold y hyl hy0
    exact ⟨by rw [sa.2.2.2, b.oldk y hyl hy0]; exact k1, by rw [pay_info sa.2.1, pay_info (b.oldpay y hyl), k3]; exact info_502⟩
  have h01 : live s1.tree 0 = true := by rw [cp.lv]; exact h0
  have e2 := cn_leaves d cp.w h01 (K s0.tree 0).length (K s0.tree 0) (tops true ns) (f' - (tops false ns).length) rfl
    (by rw [cp.hk]; simp) hleaves (by omega)
  refine ⟨s1, ?_, ⟨cp.w, by rw [cp.hk]; simp, cp.ok, ?_, b.nodup, b.new⟩, by rw [hs1]; exact b.th⟩
  · rw [connectNamedObjArgs, bind_run (objectAt_live' h0), bind_run (derefP_some_ex _), bind_run (getObj_live h0)]
    show connectNamedLoop d f' 0 (La s.tree 0) s = _
    rw [la_eq_lastOf w h0, b.ktop, e1, e2]
  · intro y hy
    by_cases hy0 : y = 0
    · subst hy0
      exact ⟨h01, by rw [cp.fp.1]; exact b.oldpay 0 hy, by rw [cp.fp.2]; exact b.oldpar 0 hy, fun hne => absurd rfl hne⟩
    · have sa := hold y hy hy0
      exact ⟨by rw [sa.1]; exact b.oldl y hy, by rw [sa.2.1]; exact b.oldpay y hy, by rw [sa.2.2.1]; exact b.oldpar y hy,
        fun _ => by rw [sa.2.2.2]; exact b.oldk y hy hy0⟩

end Firefly.AmlParser.F
