import Firefly.Proof.VmmMap
/-! Frame rule for the hardware walk: a store to a word the walk of `va'` never reads does not
change the translation of `va'`. -/
namespace Firefly.Vmm
open Firefly.Gen.C04

theorem mmuWalk_cons_congr {m m' : Mem} (hbk : ∀ f, m'.backed f = m.backed f) (va : W) (s s' : Nat)
    (rest : List Nat) (T : W)
    (hr : m'.rd (frameN T) (hwIdx va s) = m.rd (frameN T) (hwIdx va s))
    (hrec : m.backed (frameN T) = true → m.rd (frameN T) (hwIdx va s) &&& 1#64 ≠ 0#64 →
      ((s = 30 ∨ s = 21) → m.rd (frameN T) (hwIdx va s) &&& 128#64 = 0#64) →
      mmuWalk m' va (s' :: rest) (m.rd (frameN T) (hwIdx va s) &&& hwMask) =
        mmuWalk m va (s' :: rest) (m.rd (frameN T) (hwIdx va s) &&& hwMask)) :
    mmuWalk m' va (s :: s' :: rest) T = mmuWalk m va (s :: s' :: rest) T := by
  simp only [frameN, BitVec.toNat_ushiftRight] at hr hrec
  rw [mmuWalk, mmuWalk]
  simp only [hbk, BitVec.toNat_ushiftRight, hr]
  by_cases hb : m.backed (T.toNat >>> 12) = true
  · by_cases hp : m.rd (T.toNat >>> 12) (hwIdx va s) &&& 1#64 = 0#64
    · simp [hp]
    · by_cases hh : (s = 30 ∨ s = 21) ∧ m.rd (T.toNat >>> 12) (hwIdx va s) &&& 128#64 ≠ 0#64
      · simp [hb, hp, hh]
      · have hrec' := hrec hb hp (fun hs => by
          by_cases h128 : m.rd (T.toNat >>> 12) (hwIdx va s) &&& 128#64 = 0#64
          · exact h128
          · exact absurd ⟨hs, h128⟩ hh)
        have hh' : ¬((s = 30 ∨ s = 21) ∧ ¬m.rd (T.toNat >>> 12) (hwIdx va s) &&& 128#64 = 0#64) := hh
        simp [hb, hp, hh', hrec']
  · simp [hb]

theorem mmuWalk_last_congr {m m' : Mem} (hbk : ∀ f, m'.backed f = m.backed f) (va : W) (s : Nat) (T : W)
    (hr : m'.rd (frameN T) (hwIdx va s) = m.rd (frameN T) (hwIdx va s)) :
    mmuWalk m' va [s] T = mmuWalk m va [s] T := by
  simp only [frameN, BitVec.toNat_ushiftRight] at hr
  rw [mmuWalk, mmuWalk]
  simp only [hbk, BitVec.toNat_ushiftRight, hr]

/-- **Other pages unchanged.** If no table on the path of `va'` (in the address space rooted at `R`)
is read at the written word `(F, j)`, storing to that word does not change what the hardware
translates `va'` to. -/
theorem mmuWalk_wr_avoid (m : Mem) (R : W) (F j : Nat) (v : W) (va' : W)
    (htop : m.rd (frameN R) (kidx va' 0) &&& 128#64 = 0#64)
    (hav : ∀ L T, L ≤ 3 → Chain m R va' L T → ¬(F = frameN T ∧ j = kidx va' L)) :
    mmuWalk (m.wr F j v) va' [39, 30, 21, 12] R = mmuWalk m va' [39, 30, 21, 12] R := by
  obtain ⟨h39, h30, h21, h12⟩ := hwIdx_va va'
  have rdeq : ∀ L T, L ≤ 3 → Chain m R va' L T →
      (m.wr F j v).rd (frameN T) (kidx va' L) = m.rd (frameN T) (kidx va' L) := by
    intro L T hL hc; rw [rd_wr, if_neg (hav L T hL hc)]
  have c0 : Chain m R va' 0 R := rfl
  have hbk : ∀ f, (m.wr F j v).backed f = m.backed f := fun _ => rfl
  apply mmuWalk_cons_congr hbk va' 39 30 [21, 12] R (by rw [h39]; exact rdeq 0 R (by omega) c0)
  intro hb0 hp0 _
  rw [h39] at hp0 ⊢
  have l0 : Link m R (kidx va' 0) (m.rd (frameN R) (kidx va' 0) &&& hwMask) := ⟨hb0, hp0, htop, rfl⟩
  have c1 : Chain m R va' 1 _ := ⟨R, c0, l0⟩
  apply mmuWalk_cons_congr hbk va' 30 21 [12] _ (by rw [h30]; exact rdeq 1 _ (by omega) c1)
  intro hb1 hp1 hh1
  rw [h30] at hp1 hh1 ⊢
  have l1 : Link m _ (kidx va' 1) (m.rd (frameN (m.rd (frameN R) (kidx va' 0) &&& hwMask)) (kidx va' 1) &&& hwMask) :=
    ⟨hb1, hp1, hh1 (Or.inl rfl), rfl⟩
  have c2 : Chain m R va' 2 _ := ⟨_, c1, l1⟩
  apply mmuWalk_cons_congr hbk va' 21 12 [] _ (by rw [h21]; exact rdeq 2 _ (by omega) c2)
  intro hb2 hp2 hh2
  rw [h21] at hp2 hh2 ⊢
  have l2 : Link m _ (kidx va' 2) _ := ⟨hb2, hp2, hh2 (Or.inr rfl), rfl⟩
  have c3 : Chain m R va' 3 _ := ⟨_, c2, l2⟩
  exact mmuWalk_last_congr hbk va' 12 _ (by rw [h12]; exact rdeq 3 _ (by omega) c3)

/-- the hardware's view of the page itself after its leaf entry has been stored -/
theorem mmuWalk_leaf_written {m : Mem} {R va T1 T2 T3 : W} (p : Path m R va T1 T2 T3) (v : W)
    (hd : frameN T3 ≠ frameN R ∧ frameN T3 ≠ frameN T1 ∧ frameN T3 ≠ frameN T2) :
    mmuWalk (m.wr (frameN T3) (kidx va 3) v) va [39, 30, 21, 12] R =
      if v &&& 1#64 = 0#64 then none else some ((v &&& hwMask) + (va &&& 0xfff#64)) := by
  obtain ⟨h39, h30, h21, h12⟩ := hwIdx_va va
  have l0 := p.l0.wr (frameN T3) (kidx va 3) v (fun h => hd.1 h.1)
  have l1 := p.l1.wr (frameN T3) (kidx va 3) v (fun h => hd.2.1 h.1)
  have l2 := p.l2.wr (frameN T3) (kidx va 3) v (fun h => hd.2.2 h.1)
  rw [mmuWalk_link (by rw [h39]; exact l0), mmuWalk_link (by rw [h30]; exact l1),
    mmuWalk_link (by rw [h21]; exact l2)]
  by_cases hv : v &&& 1#64 = 0#64
  · rw [if_pos hv, mmuWalk_absent (by rw [h12, rd_wr]; simpa using hv)]
  · rw [if_neg hv, mmuWalk_final (by simpa using p.b3) (by rw [h12, rd_wr]; simpa using hv), h12, rd_wr]
    simp

end Firefly.Vmm
