import Firefly.Proof.VmmMapFull
/-! The boot state (an empty root whose last entry maps itself) is well formed: the hypotheses of the
refinement theorems are satisfiable, and every history starting at boot is covered by them. -/
namespace Firefly.Vmm
open Firefly.Gen.C04

/-- the boot state: an empty root (frame 1) whose last entry maps itself, four frames to allocate -/
def bootSt : St :=
  { mem := { base := 0, n := 16, log := [.word 1 511 0x1003#64] }, cr3 := 0x1000#64,
    free := [2#64, 3#64, 4#64, 5#64] }

def bootOwn : Own := fun F => if F = 1 then some (0, []) else none

theorem boot_good : Good bootSt 0x1000#64 bootOwn := by
  have hrd : ∀ i, bootSt.mem.rd 1 i = if i = 511 then 0x1003#64 else 0#64 := by
    intro i; simp [bootSt, Mem.rd, rdLog]
    by_cases h : i = 511
    · simp [h]
    · have : ¬ 511 = i := fun h' => h h'.symm
      simp [h, this]
  refine ⟨⟨⟨by decide, by decide, by decide, by decide⟩, ⟨by decide, by decide, by decide, by decide⟩⟩, ?_, Or.inl (by decide), ?_, by decide⟩
  · refine ⟨by decide, ?_, ?_, ?_, ?_, ?_, ?_⟩
    · intro F G x hF hG
      simp only [bootOwn] at hF hG
      by_cases h1 : F = 1 <;> by_cases h2 : G = 1 <;> simp_all
    · intro F x hF; simp only [bootOwn] at hF
      by_cases h1 : F = 1
      · subst h1; decide
      · simp [h1] at hF
    · intro F L pre hF; simp only [bootOwn] at hF
      by_cases h1 : F = 1 <;> simp [h1] at hF; omega
    · intro F L pre i hF _; simp only [bootOwn] at hF
      by_cases h1 : F = 1
      · subst h1; rw [hrd]; by_cases h : i = 511 <;> simp [h]
      · simp [h1] at hF
    · intro F L pre i hF _ hi hp; simp only [bootOwn] at hF
      by_cases h1 : F = 1
      · subst h1; simp at hF
        rw [hrd] at hp
        by_cases h : i = 511
        · exact absurd ⟨hF.1.symm, h⟩ hi
        · simp [h] at hp
      · simp [h1] at hF
    · intro G L pre' hG; simp only [bootOwn] at hG
      by_cases h1 : G = 1 <;> simp [h1] at hG
  · intro f hf
    simp only [bootSt, List.mem_cons, List.not_mem_nil, or_false] at hf
    rcases hf with rfl | rfl | rfl | rfl <;> refine ⟨by unfold FrameOK; decide, by decide, by decide, by decide⟩


/-- every page of the boot address space is absent -/
theorem boot_empty (va : W) (hu : UserVA va) : hwEntry bootSt.mem 0x1000#64 va = none := by
  unfold hwEntry
  rw [lv_cons 0 (by omega)]
  apply entWalk_absent
  have hf : frameN 0x1000#64 = 1 := by decide
  rw [hf]
  have : bootSt.mem.rd 1 (kidx va 0) = 0#64 := by
    have hk : ¬ 511 = kidx va 0 := fun h => hu h.symm
    simp [bootSt, Mem.rd, rdLog, hk]
  rw [this]; decide

end Firefly.Vmm
