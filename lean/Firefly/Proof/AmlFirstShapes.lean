import Firefly.Proof.AmlStrict
import Firefly.Model.AmlShapes
/-!
What the first pass leaves behind: every `Scope` directive of the table has the shape the merge pass relies on
(`MergeInv`, `Proof/AmlMerge.lean`).  A second reading of the first-pass functions (`parseModeSkipAmbiguousBlocks`),
in the style of `Proof/AmlStrict.lean`: contracts with slot frames (`SGrow`), the `Scope` object whose arguments
are being read is tracked until its name and its scope block are attached.
-/
namespace Firefly.AmlParser.F
open Firefly.AmlLex Firefly.AmlTree Firefly.C13 Firefly.AmlParser Firefly.AmlParser.G Firefly.AmlParser.S
open Firefly.Gen.C12

/-- the table row of `Scope` -/
def scopeInfo : Nat := pOpcodeTableIndex opScope true

set_option maxRecDepth 20000 in
theorem scope_row : argCnt scopeInfo = 3 ∧ argAt scopeInfo 0 = argTypePkgLen ∧ argAt scopeInfo 1 = argTypeNameString ∧
    argAt scopeInfo 2 = argTypeTermList := by decide +kernel

/-- a complete `Scope` directive: attached, with the shape of `MergeInv`, its first argument a name-path object -/
structure DShape (d : Bytes) (t : ObjectTree) (x : Nat) : Prop where
  att : C13.P t x ≠ INV
  fi : Fi t x ≠ INV
  shape : ShapeAt d t x
  nameOp : (slot t (Fi t x)).opcode = opIntNamePath

/-- every `Scope` object of the table being parsed, other than `ex`, has no arguments yet or is complete -/
def DirOK (d : Bytes) (ex : Option Nat) (s : PState) : Prop :=
  ∀ x, live s.tree x = true → (slot s.tree x).opcode = opScope → (slot s.tree x).tableHandle = s.tableHandle → some x ≠ ex →
    Fi s.tree x = INV ∨ DShape d s.tree x

theorem DirOK.weaken {d : Bytes} {s : PState} (h : DirOK d none s) (ex : Option Nat) : DirOK d ex s :=
  fun x hl ho hh _ => h x hl ho hh (by intro hc; cases hc)

theorem DirOK.ofSome {d : Bytes} {s : PState} {c : Nat} (h : DirOK d (some c) s) (hc : (slot s.tree c).opcode ≠ opScope) :
    DirOK d none s := by
  intro x hl ho hh _
  exact h x hl ho hh (by intro e; cases e; exact hc ho)

theorem DirOK.close {d : Bytes} {s : PState} {c : Nat} (h : DirOK d (some c) s) (hc : DShape d s.tree c) : DirOK d none s := by
  intro x hl ho hh _
  by_cases hx : x = c
  · rw [hx]; exact Or.inr hc
  · exact h x hl ho hh (by intro e; cases e; exact hx rfl)

theorem DirOK.ofTree {d : Bytes} {ex : Option Nat} {s s' : PState} (h : DirOK d ex s) (ht : s'.tree = s.tree)
    (hh : s'.tableHandle = s.tableHandle) : DirOK d ex s' := by
  intro x hl ho hd hex
  rw [ht] at hl ho hd ⊢
  exact h x hl ho (by rw [hd, hh]) hex

/-- `curObj` hangs under a scope block (or nowhere) -/
def ParSB (s : PState) (curObj : Nat) : Prop :=
  C13.P s.tree curObj = INV ∨ (slot s.tree (C13.P s.tree curObj)).opcode = opIntScopeBlock

variable {T : Nat → Prop}

theorem la_of_last {t : ObjectTree} (w : WF t) {c x : Nat} (hl : live t c = true) (hp : C13.P t c = x) (hx : x ≠ INV)
    (hn : Nx t c = INV) : La t x = c := by
  have := (w.lP hl).last (by rw [hp]; exact hx) hn
  rw [hp] at this; exact this

/-- a complete directive stays complete along a step that touches neither it nor its name object -/
theorem DShape.grow {d : Bytes} {c : Nat} {s s' : PState} {x : Nat} (h : DShape d s.tree x) (hx : live s.tree x = true)
    (g : SGrow T c s s') (w : WF s.tree) (w' : WF s'.tree) (hTx : ¬ T x) (hTc : ¬ T (Fi s.tree x)) : DShape d s'.tree x := by
  have hxINV : x ≠ INV := live_ne_INV w.size_le hx
  obtain ⟨p1, _⟩ := (w.lP hx).fi h.fi
  have l1 : live s.tree (Fi s.tree x) = true := by
    rcases (w.lP hx).lfi with h0 | h0
    · exact absurd h0 h.fi
    · exact h0
  have hla : La s.tree x ≠ INV := fun hq => h.fi ((w.lP hx).ends.2 hq)
  obtain ⟨p2, n2⟩ := (w.lP hx).la hla
  have l2 : live s.tree (La s.tree x) = true := by
    rcases (w.lP hx).lla with h0 | h0
    · exact absurd h0 hla
    · exact h0
  have hfi : Fi s'.tree x = Fi s.tree x := g.fiK x hx hTx
  have k1 := g.kidK _ l1 (by rw [p1]; exact hxINV) (by rw [p1]; exact hTx)
  have k2 := g.kidK _ l2 (by rw [p2]; exact hxINV) (by rw [p2]; exact hTx)
  have hla' : La s'.tree x = La s.tree x :=
    la_of_last w' (g.oldLive _ l2) (by rw [g.oldP _ l2]; exact p2) hxINV (by rw [k2.1]; exact n2)
  have hpx : Pay (slot s'.tree x) = Pay (slot s.tree x) := g.payK x hx hTx (Or.inl h.att)
  refine ⟨by rw [g.oldP x hx]; exact h.att, by rw [hfi]; exact h.fi, ?_, by rw [hfi, pay_opcode k1.2]; exact h.nameOp⟩
  exact h.shape.transfer hpx hfi hla' k1.2 (g.fiK _ l1 hTc) k1.1 k2.2

/-- what a step may touch: the object under construction (the exception), or an object that is neither a `Scope` nor
a `Method` and hangs under a scope block (or nowhere) or is a scope block itself — so not the name object of a
directive and not the name or the flags of a method -/
def TOK (s : PState) (ex : Option Nat) (y : Nat) : Prop :=
  some y = ex ∨ (((slot s.tree y).opcode ≠ opScope ∧ (slot s.tree y).opcode ≠ opMethod) ∧
    (ParSB s y ∨ (slot s.tree y).opcode = opIntScopeBlock) ∧ (slot s.tree y).opcode ≠ opIntNamePathOrMethodCall)

/-- the exception is a `Scope` or a `Method` -/
def ExK (s : PState) (ex : Option Nat) : Prop :=
  ∀ e, ex = some e → (slot s.tree e).opcode = opScope ∨ (slot s.tree e).opcode = opMethod

theorem ExK.none (s : PState) : ExK s none := fun _ hq => by cases hq

/-- the directives along a step: the touched objects are the exception or far from every directive,
and what the step created has no arguments if it is a `Scope` -/
theorem DirOK.grow {d : Bytes} {ex : Option Nat} {c : Nat} {s s' : PState} (h : DirOK d ex s) (g : SGrow T c s s')
    (w : WF s.tree) (w' : WF s'.tree)
    (hT : ∀ y, T y → live s.tree y = true → TOK s ex y)
    (hex : ExK s ex)
    (hfresh : ∀ x, live s.tree x = false → live s'.tree x = true → (slot s'.tree x).opcode = opScope → Fi s'.tree x = INV) :
    DirOK d ex s' := by
  intro x hl ho hh hne
  cases hl0 : live s.tree x with
  | false => exact Or.inl (hfresh x hl0 hl ho)
  | true =>
    have ho0 : (slot s.tree x).opcode = opScope := (g.kfr.sK x hl0).1 ho
    have hh0 : (slot s.tree x).tableHandle = s.tableHandle := by
      rw [← (g.kfr.nameKK x hl0 (by rw [ho0]; exact isK_scope)).2, hh, g.same.2.1]
    have hTx : ¬ T x := by
      intro hq
      rcases hT x hq hl0 with h1 | h1
      · exact hne h1
      · exact h1.1.1 ho0
    rcases h x hl0 ho0 hh0 hne with h1 | h1
    · exact Or.inl (by rw [g.fiK x hl0 hTx]; exact h1)
    · refine Or.inr (h1.grow hl0 g w w' hTx ?_)
      intro hq
      have l1 : live s.tree (Fi s.tree x) = true := by
        rcases (w.lP hl0).lfi with h0 | h0
        · exact absurd h0 h1.fi
        · exact h0
      rcases hT _ hq l1 with h2 | h2
      · have := hex _ h2.symm
        rw [h1.nameOp] at this
        revert this; decide
      · rcases h2.2.1 with (h3 | h3) | h3
        · rw [((w.lP hl0).fi h1.fi).1] at h3
          exact live_ne_INV w.size_le hl0 h3
        · rw [((w.lP hl0).fi h1.fi).1, ho0] at h3
          revert h3; decide
        · rw [h1.nameOp] at h3
          revert h3; decide

/-- freed slots carry no name: a new object that reuses one starts without a name -/
def FN (s : PState) : Prop := ∀ x, live s.tree x = false → (slot s.tree x).name.b0 = 0

theorem FN.grow {c : Nat} {s s' : PState} (h : FN s) (g : SGrow T c s s') : FN s' := by
  intro x hx
  rw [g.kfr.deadK x hx]
  apply h
  cases hq : live s.tree x with
  | false => rfl
  | true => rw [g.oldLive x hq] at hx; cases hx


/-! ## the methods -/

/-- a complete `Method`: a childless name object, a childless byte constant (the flags), a scope block -/
def MthC (t : ObjectTree) (m : Nat) : Prop := ∃ k1 k2 k3, MK3 t m k1 k2 k3

/-- every `Method` other than `ex` is complete -/
def MthOK (ex : Option Nat) (s : PState) : Prop :=
  ∀ m, live s.tree m = true → (slot s.tree m).opcode = opMethod → some m ≠ ex → MthC s.tree m

theorem MthOK.weaken {s : PState} (h : MthOK none s) (ex : Option Nat) : MthOK ex s :=
  fun m hl ho _ => h m hl ho (by intro hc; cases hc)

theorem MthOK.ofSome {s : PState} {c : Nat} (h : MthOK (some c) s) (hc : (slot s.tree c).opcode ≠ opMethod) : MthOK none s := by
  intro m hl ho _
  exact h m hl ho (by intro e; cases e; exact hc ho)

theorem MthOK.close {s : PState} {c : Nat} (h : MthOK (some c) s) (hc : MthC s.tree c) : MthOK none s := by
  intro m hl ho _
  by_cases hm : m = c
  · rw [hm]; exact hc
  · exact h m hl ho (by intro e; cases e; exact hm rfl)

theorem MthOK.ofTree {ex : Option Nat} {s s' : PState} (h : MthOK ex s) (ht : s'.tree = s.tree) : MthOK ex s' := by
  unfold MthOK; rw [ht]; exact h

theorem mth_ops : opIntNamePath ≠ opMethod ∧ opBytePrefix ≠ opMethod ∧ opIntScopeBlock ≠ opMethod ∧
    opIntNamePath ≠ opIntScopeBlock ∧ opBytePrefix ≠ opIntScopeBlock ∧ opIntNamePath ≠ opScope ∧ opBytePrefix ≠ opScope ∧
    opMethod ≠ opIntScopeBlock ∧ opMethod ≠ opScope := by decide

/-- a complete method stays complete along a step that touches neither it nor its name and flags -/
theorem MthC.grow {c : Nat} {s s' : PState} {m : Nat} (h : MthC s.tree m) (hm : live s.tree m = true)
    (g : SGrow T c s s') (w : WF s.tree) (hTm : ¬ T m)
    (hTk : ∀ y, T y → live s.tree y = true → C13.P s.tree y = m → (slot s.tree y).opcode = opIntScopeBlock) : MthC s'.tree m := by
  obtain ⟨k1, k2, k3, mk⟩ := h
  obtain ⟨p1, p2, p3, _, _, _⟩ := mk.parents w hm
  have hmINV : m ≠ INV := live_ne_INV w.size_le hm
  have hT1 : ¬ T k1 := fun hq => by
    have := hTk k1 hq mk.l1 p1
    rw [mk.o1] at this; exact mth_ops.2.2.2.1 this
  have hT2 : ¬ T k2 := fun hq => by
    have := hTk k2 hq mk.l2 p2
    rw [mk.o2] at this; exact mth_ops.2.2.2.2.1 this
  have q1 := g.kidK k1 mk.l1 (by rw [p1]; exact hmINV) (by rw [p1]; exact hTm)
  have q2 := g.kidK k2 mk.l2 (by rw [p2]; exact hmINV) (by rw [p2]; exact hTm)
  have q3 := g.kidK k3 mk.l3 (by rw [p3]; exact hmINV) (by rw [p3]; exact hTm)
  have q0 := g.payK m hm hTm (Or.inl mk.att)
  refine ⟨k1, k2, k3, mk.transfer (fun x hx _ => g.oldLive x hx) (g.fiK m hm hTm) q1.1 q2.1 q3.1
    (g.fiK k1 mk.l1 hT1) (g.fiK k2 mk.l2 hT2) ?_ (by rw [g.oldP m hm]; exact mk.att)⟩
  intro x hx
  rcases hx with e | e | e | e
  · rw [e]; exact q0
  · rw [e]; exact q1.2
  · rw [e]; exact q2.2
  · rw [e]; exact q3.2

/-- the methods along a step -/
theorem MthOK.grow {ex : Option Nat} {c : Nat} {s s' : PState} (h : MthOK ex s) (g : SGrow T c s s')
    (w : WF s.tree) (hT : ∀ y, T y → live s.tree y = true → TOK s ex y) (hex : ExK s ex)
    (hfresh : ∀ x, live s.tree x = false → live s'.tree x = true → (slot s'.tree x).opcode = opMethod → some x = ex) :
    MthOK ex s' := by
  intro m hl ho hne
  cases hl0 : live s.tree m with
  | false => exact absurd (hfresh m hl0 hl ho) hne
  | true =>
    have ho0 : (slot s.tree m).opcode = opMethod := (g.kfr.mK m hl0).1 ho
    have hc := h m hl0 ho0 hne
    refine hc.grow hl0 g w ?_ ?_
    · intro hq
      rcases hT m hq hl0 with h1 | h1
      · exact hne h1
      · exact h1.1.2 ho0
    · intro y hq hy hpy
      obtain ⟨k1, k2, k3, mk⟩ := hc
      rcases mk.kids w hl0 y hy hpy with e | e | e
      · exfalso
        rcases hT y hq hy with h1 | h1
        · rcases hex y h1.symm with h2 | h2
          · rw [e, mk.o1] at h2; exact mth_ops.2.2.2.2.2.1 h2
          · rw [e, mk.o1] at h2; exact mth_ops.1 h2
        · rcases h1.2.1 with (h3 | h3) | h3
          · rw [hpy] at h3; exact live_ne_INV w.size_le hl0 h3
          · rw [hpy, ho0] at h3; exact mth_ops.2.2.2.2.2.2.2.1 h3
          · rw [e, mk.o1] at h3; exact mth_ops.2.2.2.1 h3
      · exfalso
        rcases hT y hq hy with h1 | h1
        · rcases hex y h1.symm with h2 | h2
          · rw [e, mk.o2] at h2; exact mth_ops.2.2.2.2.2.2.1 h2
          · rw [e, mk.o2] at h2; exact mth_ops.2.1 h2
        · rcases h1.2.1 with (h3 | h3) | h3
          · rw [hpy] at h3; exact live_ne_INV w.size_le hl0 h3
          · rw [hpy, ho0] at h3; exact mth_ops.2.2.2.2.2.2.2.1 h3
          · rw [e, mk.o2] at h3; exact mth_ops.2.2.2.2.1 h3
      · rw [e]; exact mk.o3

/-- one fresh object, which becomes the exception -/
theorem MthOK.freshEx {n : Nat} {s s' : PState} (h : MthOK none s) (f : Fresh1 n s s') (w : WF s.tree) : MthOK (some n) s' := by
  intro m hl ho hne
  have hmn : m ≠ n := fun e => hne (by rw [e])
  have hl0 : live s.tree m = true := by rw [← f.livex m hmn]; exact hl
  have ho0 : (slot s.tree m).opcode = opMethod := by rw [← f.old m hmn]; exact ho
  exact (h m hl0 ho0 (by intro hc; cases hc)).grow (T := fun _ => False) hl0 (SGrow.ofFresh1 f) w (fun hq => hq)
    (fun _ hq _ _ => False.elim hq)

/-- `append(obj, arg)` under the exception or under an object far from every method -/
theorem MthOK.append {ex : Option Nat} {s1 s2 : PState} (h : MthOK ex s1) (w1 : WF s1.tree)
    {obj arg : Nat} (ha : C13.P s1.tree arg = INV) (ho : live s1.tree obj = true)
    (hobj : (some obj = ex ∧ ((slot s1.tree obj).opcode = opScope ∨ (slot s1.tree obj).opcode = opMethod)) ∨
      (((slot s1.tree obj).opcode ≠ opScope ∧ (slot s1.tree obj).opcode ≠ opMethod) ∧
        (ParSB s1 obj ∨ (slot s1.tree obj).opcode = opIntScopeBlock)))
    (hl : ∀ x, live s2.tree x = live s1.tree x) (sp : SamePay s1.tree s2.tree)
    (hP : ∀ x, C13.P s2.tree x = if x = arg then obj else C13.P s1.tree x)
    (hNx : ∀ x, Nx s2.tree x = if x = arg then INV else if x = La s1.tree obj ∧ La s1.tree obj ≠ INV then arg else Nx s1.tree x)
    (hFi : ∀ x, Fi s2.tree x = if x = obj ∧ La s1.tree obj = INV then arg else Fi s1.tree x) : MthOK ex s2 := by
  intro m hm hop hne
  have hm1 : live s1.tree m = true := by rw [← hl]; exact hm
  have hop1 : (slot s1.tree m).opcode = opMethod := by rw [← pay_opcode (sp.pay m)]; exact hop
  obtain ⟨k1, k2, k3, mk⟩ := h m hm1 hop1 hne
  obtain ⟨p1, p2, p3, _, _, _⟩ := mk.parents w1 hm1
  have hmINV : m ≠ INV := live_ne_INV w1.size_le hm1
  have hmo : m ≠ obj := by
    intro e
    rcases hobj with h0 | h0
    · exact hne (by rw [e]; exact h0.1)
    · exact h0.1.2 (by rw [← e]; exact hop1)
  have hka : ∀ k, C13.P s1.tree k = m → k ≠ arg := fun k hk e => hmINV (by rw [← hk, e]; exact ha)
  have hnx : ∀ k, C13.P s1.tree k = m → Nx s2.tree k = Nx s1.tree k := by
    intro k hk
    rw [hNx, if_neg (hka k hk), if_neg]
    intro hc
    have := ((w1.lP ho).la hc.2).1
    rw [← hc.1, hk] at this
    exact hmo this
  have hko : ∀ k, C13.P s1.tree k = m → (slot s1.tree k).opcode ≠ opScope → (slot s1.tree k).opcode ≠ opMethod →
      (slot s1.tree k).opcode ≠ opIntScopeBlock → k ≠ obj := by
    intro k hk n1 n2 n3 e
    rcases hobj with h0 | h0
    · rcases h0.2 with h2 | h2
      · exact n1 (by rw [e]; exact h2)
      · exact n2 (by rw [e]; exact h2)
    · rcases h0.2 with (h3 | h3) | h3
      · rw [← e, hk] at h3; exact hmINV h3
      · rw [← e, hk, hop1] at h3; exact mth_ops.2.2.2.2.2.2.2.1 h3
      · exact n3 (by rw [e]; exact h3)
  have hk1o : k1 ≠ obj := hko k1 p1 (by rw [mk.o1]; exact mth_ops.2.2.2.2.2.1) (by rw [mk.o1]; exact mth_ops.1)
    (by rw [mk.o1]; exact mth_ops.2.2.2.1)
  have hk2o : k2 ≠ obj := hko k2 p2 (by rw [mk.o2]; exact mth_ops.2.2.2.2.2.2.1) (by rw [mk.o2]; exact mth_ops.2.1)
    (by rw [mk.o2]; exact mth_ops.2.2.2.2.1)
  refine ⟨k1, k2, k3, mk.transfer (fun x hx _ => by rw [hl]; exact hx) (by rw [hFi, if_neg (fun hc => hmo hc.1)])
    (hnx k1 p1) (hnx k2 p2) (hnx k3 p3) (by rw [hFi, if_neg (fun hc => hk1o hc.1)]) (by rw [hFi, if_neg (fun hc => hk2o hc.1)])
    (fun x _ => sp.pay x) ?_⟩
  rw [hP, if_neg (fun e => mk.att (by rw [e]; exact ha))]
  exact mk.att

/-! ## the name-or-call objects -/

/-- every unresolved name-or-call object is attached and holds the `[]byte` of its path -/
def CSA (s : PState) : Prop :=
  ∀ x, live s.tree x = true → (slot s.tree x).opcode = opIntNamePathOrMethodCall →
    C13.P s.tree x ≠ INV ∧ ∃ off len, (slot s.tree x).value = .bytes off len

theorem kfr_cK {s s' : PState} (h : KFr s s') (x : Nat) (hx : live s.tree x = true) :
    (slot s'.tree x).opcode = opIntNamePathOrMethodCall ↔ (slot s.tree x).opcode = opIntNamePathOrMethodCall := by
  rcases h.opK x hx with e | ⟨e1, e2⟩
  · rw [e]
  · constructor
    · intro hq; rw [hq, isK_call] at e2; cases e2
    · intro hq; rw [hq, isK_call] at e1; cases e1

theorem CSA.ofTree {s s' : PState} (h : CSA s) (ht : s'.tree = s.tree) : CSA s' := by
  unfold CSA; rw [ht]; exact h

theorem CSA.grow {ex : Option Nat} {c : Nat} {s s' : PState} (h : CSA s) (g : SGrow T c s s')
    (hT : ∀ y, T y → live s.tree y = true → TOK s ex y) (hex : ExK s ex)
    (hfresh : ∀ x, live s.tree x = false → live s'.tree x = true → (slot s'.tree x).opcode = opIntNamePathOrMethodCall →
      C13.P s'.tree x ≠ INV ∧ ∃ off len, (slot s'.tree x).value = .bytes off len) : CSA s' := by
  intro x hl ho
  cases hl0 : live s.tree x with
  | false => exact hfresh x hl0 hl ho
  | true =>
    have ho0 := (kfr_cK g.kfr x hl0).1 ho
    obtain ⟨hp, off, len, hv⟩ := h x hl0 ho0
    have hTx : ¬ T x := by
      intro hq
      rcases hT x hq hl0 with h1 | h1
      · rcases hex x h1.symm with h2 | h2
        · rw [ho0] at h2; exact absurd h2 (by decide)
        · rw [ho0] at h2; exact absurd h2 (by decide)
      · exact h1.2.2 ho0
    have hpay := g.payK x hl0 hTx (Or.inl hp)
    exact ⟨by rw [g.oldP x hl0]; exact hp, off, len, by rw [pay_value hpay]; exact hv⟩

theorem CSA.append {s1 s2 : PState} (h : CSA s1) (w1 : WF s1.tree) {obj arg : Nat} (ho : live s1.tree obj = true)
    (hl : ∀ x, live s2.tree x = live s1.tree x) (sp : SamePay s1.tree s2.tree)
    (hP : ∀ x, C13.P s2.tree x = if x = arg then obj else C13.P s1.tree x) : CSA s2 := by
  intro x hx hop
  obtain ⟨hp, off, len, hv⟩ := h x (by rw [← hl]; exact hx) (by rw [← pay_opcode (sp.pay x)]; exact hop)
  refine ⟨?_, off, len, by rw [pay_value (sp.pay x)]; exact hv⟩
  rw [hP]
  split
  · exact live_ne_INV w1.size_le ho
  · exact hp

/-- both invariants of the first pass: the `Scope` directives and — when `jf` holds, i.e. when the pool the table is
parsed into had only complete methods — the `Method`s -/
structure Both (jf : Prop) (d : Bytes) (ex : Option Nat) (s : PState) : Prop where
  dir : DirOK d ex s
  mth : jf → MthOK ex s
  cs : jf → CSA s

variable {jf : Prop}

theorem Both.weaken {d : Bytes} {s : PState} (h : Both jf d none s) (ex : Option Nat) : Both jf d ex s :=
  ⟨h.dir.weaken ex, fun hb => (h.mth hb).weaken ex, h.cs⟩

theorem Both.ofSome {d : Bytes} {s : PState} {c : Nat} (h : Both jf d (some c) s) (h1 : (slot s.tree c).opcode ≠ opScope)
    (h2 : (slot s.tree c).opcode ≠ opMethod) : Both jf d none s := ⟨h.dir.ofSome h1, fun hb => (h.mth hb).ofSome h2, h.cs⟩

theorem Both.ofTree {d : Bytes} {ex : Option Nat} {s s' : PState} (h : Both jf d ex s) (ht : s'.tree = s.tree)
    (hh : s'.tableHandle = s.tableHandle) : Both jf d ex s' := ⟨h.dir.ofTree ht hh, fun hb => (h.mth hb).ofTree ht, fun hb => (h.cs hb).ofTree ht⟩

theorem Both.grow {d : Bytes} {ex : Option Nat} {c : Nat} {s s' : PState} (h : Both jf d ex s) (g : SGrow T c s s')
    (w : WF s.tree) (w' : WF s'.tree) (hT : ∀ y, T y → live s.tree y = true → TOK s ex y) (hex : ExK s ex)
    (hfresh : ∀ x, live s.tree x = false → live s'.tree x = true →
      ((slot s'.tree x).opcode = opScope → Fi s'.tree x = INV) ∧ ((slot s'.tree x).opcode = opMethod → some x = ex) ∧
      (slot s'.tree x).opcode ≠ opIntNamePathOrMethodCall) :
    Both jf d ex s' :=
  ⟨h.dir.grow g w w' hT hex (fun x h1 h2 h3 => (hfresh x h1 h2).1 h3),
   fun hb => (h.mth hb).grow g w hT hex (fun x h1 h2 h3 => (hfresh x h1 h2).2.1 h3),
   fun hb => (h.cs hb).grow g hT hex (fun x h1 h2 h3 => absurd h3 (hfresh x h1 h2).2.2)⟩

/-! ## the name argument of a directive -/

/-- what `parseSimpleArg(NameString)` hands back: a childless name-path object holding the bytes of the path -/
def NameObj (d : Bytes) (t : ObjectTree) (c : Nat) : Prop :=
  (slot t c).opcode = opIntNamePath ∧ Fi t c = INV ∧ ∃ off len, (slot t c).value = .bytes off len ∧ ExprOK (sliceBytes d off len)

theorem sliceVal_exprOK (d : Bytes) (sl : Slice) (h : ∀ b, (sliceExpr d sl)[0]? = some b → b ≠ 0) :
    ∃ off len, sliceVal sl = .bytes off len ∧ ExprOK (sliceBytes d off len) := by
  unfold sliceVal
  cases hd : sl.data with
  | none =>
    refine ⟨0, 0, rfl, ?_⟩
    intro hl
    unfold sliceBytes at hl
    simp at hl
  | some off =>
    refine ⟨off, sl.len, rfl, ?_⟩
    intro _ b hb
    apply h b
    unfold sliceExpr
    rw [hd]
    exact hb

/-- `parseSimpleArg(pArgTypeNameString)`: when it succeeds, the object it returns is a `NameObj` -/
theorem parseSimpleArg_name {d : Bytes} (hd : d.size + 1024 ≤ 4294967296) {s : PState} (h : FP d s)
    (hsz : s.tree.pool.size < INV) :
    ∃ a s', parseSimpleArg d argTypeNameString s = .ok (a, s') ∧ (a.2 = .ok → ∃ x, a.1 = some x ∧ NameObj d s'.tree x ∧
      (slot s'.tree x).infoIndex = pOpcodeTableIndex opIntNamePath true) := by
  unfold parseSimpleArg
  obtain ⟨n, s1, e1, h1, f1, hr1, hop1, _⟩ := newObject_step h 0 hsz (by decide) info_const.1
  refine bind_ex e1 ?_
  obtain ⟨off, s2, e2, h2, hR2, hs2⟩ := lex_step (rel_offset d) h1
  refine bind_ex e2 ?_
  have ht2 : s2.tree = s1.tree := by rw [hs2]
  have hobj : live s2.tree n = true := by rw [ht2]; exact f1.liven
  obtain ⟨s3, e3, h3, hp3, hsl3, hr3⟩ := upd_step h2 hobj (fun o => { o with amlOffset := off }) (by keeps_links) Iff.rfl
    (h2.tree.info _ hobj)
  refine bind_ex e3 ?_
  have hobj3 : live s3.tree n = true := by rw [hp3.links.live]; exact hobj
  have hk3 : isK (slot s3.tree n).opcode = false := hp3.notK (by rw [ht2, hop1]; decide)
  have hfi3 : Fi s3.tree n = INV := by rw [hp3.links.fi, ht2]; exact f1.fin
  rw [if_neg (by decide), if_neg (by decide), if_neg (by decide), if_neg (by decide), if_neg (by decide), if_pos rfl]
  unfold simpleName
  obtain ⟨_, s4, e4, h4, hp4, hr4, hsl4⟩ := setOpcode_tot h3 hobj3 opIntNamePath (by decide) (by decide) hk3
  refine bind_ex e4 ?_
  have hobj4 : live s4.tree n = true := by rw [hp4.links.live]; exact hobj3
  unfold setNameValue
  obtain ⟨sr, s5, e5, h5, ⟨_, hlead⟩, hs5⟩ := lex_step (rel_parseNameString' d hd) h4
  have ht5 : s5.tree = s4.tree := by rw [hs5]
  have hobj5 : live s5.tree n = true := by rw [ht5]; exact hobj4
  obtain ⟨s6, e6, h6, hp6, hsl6, hr6⟩ := upd_step h5 hobj5 (fun o => { o with value := sliceVal sr.1 }) (by keeps_links) Iff.rfl
    (h5.tree.info _ hobj5)
  have e56 : (do
      let sr ← lex (parseNameString d)
      updObj n fun o => { o with value := sliceVal sr.1 }
      pure sr.2 : P PRes) s4 = .ok (sr.2, s6) := bind_ex' e5 (bind_ex' e6 rfl)
  refine bind_ex e56 ?_
  have hobj6 : live s6.tree n = true := by rw [hp6.links.live]; exact hobj5
  unfold finishSimpleArg
  refine bind_ex (getObj_live hobj6) ?_
  have hop6 : (slot s6.tree n).opcode = opIntNamePath := by rw [hsl6, ht5, hsl4]
  obtain ⟨s7, e7, h7, hp7, hsl7, hr7⟩ := upd_step h6 hobj6
    (fun o' => { o' with infoIndex := pOpcodeTableIndex (slot s6.tree n).opcode true }) (by keeps_links) Iff.rfl
    (by dsimp only; rw [hop6]; exact info_const.2.2.2.2.2.2.1) (Or.inl rfl) (fun _ => ⟨rfl, rfl⟩)
    (fun hq => by
      rw [hop6] at hq
      exact absurd hq (by decide))
  refine bind_ex e7 (pure_ex ?_)
  intro hok
  refine ⟨n, rfl, ⟨?_, ?_, ?_⟩, by rw [hsl7, hop6]⟩
  · rw [hsl7]; exact hop6
  · rw [hp7.links.fi, hp6.links.fi, ht5, hp4.links.fi]; exact hfi3
  · have hv : (slot s7.tree n).value = sliceVal sr.1 := by rw [hsl7, hsl6]
    rw [hv]
    exact sliceVal_exprOK d sr.1 (hlead hok)

/-- `parseSimpleArg(pArgTypeByteData)`: the object it returns is a childless byte constant -/
theorem parseSimpleArg_byte {d : Bytes} {s : PState} (h : FP d s) (hsz : s.tree.pool.size < INV) :
    ∃ a s', parseSimpleArg d argTypeByteData s = .ok (a, s') ∧ (∀ x, a.1 = some x →
      (slot s'.tree x).opcode = opBytePrefix ∧ Fi s'.tree x = INV ∧
      (slot s'.tree x).infoIndex = pOpcodeTableIndex opBytePrefix true ∧ ∃ v, (slot s'.tree x).value = .u64 v) := by
  unfold parseSimpleArg
  obtain ⟨n, s1, e1, h1, f1, hr1, hop1, _⟩ := newObject_step h 0 hsz (by decide) info_const.1
  refine bind_ex e1 ?_
  obtain ⟨off, s2, e2, h2, hR2, hs2⟩ := lex_step (rel_offset d) h1
  refine bind_ex e2 ?_
  have ht2 : s2.tree = s1.tree := by rw [hs2]
  have hobj : live s2.tree n = true := by rw [ht2]; exact f1.liven
  obtain ⟨s3, e3, h3, hp3, hsl3, hr3⟩ := upd_step h2 hobj (fun o => { o with amlOffset := off }) (by keeps_links) Iff.rfl
    (h2.tree.info _ hobj)
  refine bind_ex e3 ?_
  have hobj3 : live s3.tree n = true := by rw [hp3.links.live]; exact hobj
  have hk3 : isK (slot s3.tree n).opcode = false := hp3.notK (by rw [ht2, hop1]; decide)
  have hfi3 : Fi s3.tree n = INV := by rw [hp3.links.fi, ht2]; exact f1.fin
  rw [if_pos rfl]
  unfold simpleNum
  obtain ⟨_, s4, e4, h4, hp4, hr4, hsl4⟩ := setOpcode_tot h3 hobj3 opBytePrefix (by decide) (by decide) hk3
  refine bind_ex e4 ?_
  have hobj4 : live s4.tree n = true := by rw [hp4.links.live]; exact hobj3
  obtain ⟨res, s5, e5, h5, hp5, ⟨v, hv5⟩, _⟩ := setNumValue_tot h4 hobj4 1
  refine bind_ex e5 ?_
  have hobj5 : live s5.tree n = true := by rw [hp5.links.live]; exact hobj4
  have hop5 : (slot s5.tree n).opcode = opBytePrefix := by rw [hv5, hsl4]
  unfold finishSimpleArg
  refine bind_ex (getObj_live hobj5) ?_
  obtain ⟨s6, e6, h6, hp6, hsl6, hr6⟩ := upd_step h5 hobj5
    (fun o' => { o' with infoIndex := pOpcodeTableIndex (slot s5.tree n).opcode true }) (by keeps_links) Iff.rfl
    (by dsimp only; rw [hop5]; exact info_const.2.1) (Or.inl rfl) (fun _ => ⟨rfl, rfl⟩)
    (fun hq => by
      rw [hop5] at hq
      exact absurd hq (by decide))
  refine bind_ex e6 (pure_ex ?_)
  intro x hx
  cases hx
  refine ⟨by rw [hsl6]; exact hop5, ?_, by rw [hsl6, hop5], v, by rw [hsl6, hv5]⟩
  rw [hp6.links.fi, hp5.links.fi, hp4.links.fi]; exact hfi3

/-- the scope block of a `TermList` carries the table row of a scope block -/
theorem newScopeBlock_info {d : Bytes} {s : PState} (h : FP d s) (hsz : s.tree.pool.size < INV) :
    ∃ a s', newScopeBlock s = .ok (a, s') ∧ (slot s'.tree a).infoIndex = pOpcodeTableIndex opIntScopeBlock true := by
  unfold newScopeBlock
  obtain ⟨n, s1, e1, h1, f1, hr1, hop1, hinfo1, hidx1⟩ := newObject_step h opIntScopeBlock hsz (by decide) info_const.2.2.2.2.2.2.2.2.1
  refine bind_ex e1 ?_
  obtain ⟨off, s2, e2, h2, hR2, hs2⟩ := lex_step (rel_offset d) h1
  refine bind_ex e2 ?_
  have hss : s2 = s1 := by rw [hs2, hR2.2]
  subst hss
  have hobj : live s2.tree n = true := f1.liven
  obtain ⟨s3, e3, h3, hp3, hsl3, hr3⟩ := upd_step h2 hobj (fun o => { o with amlOffset := off }) (by keeps_links) Iff.rfl
    (h2.tree.info _ hobj)
  refine bind_ex e3 ?_
  have hobj3 : live s3.tree n = true := by rw [hp3.links.live]; exact hobj
  refine bind_ex (getObj_live hobj3) ?_
  have hidx : (slot s3.tree n).index = n := by rw [hsl3]; exact hidx1
  rw [hidx]
  have e4 : scopeEnter n s3 = .ok ((), { s3 with scopeStack := s3.scopeStack.push n }) := rfl
  refine bind_ex e4 (pure_ex ?_)
  show (slot s3.tree n).infoIndex = _
  rw [hsl3]; exact hinfo1

/-! ## the state of the first pass and the contracts -/

/-- the invariant of the parser state in the first pass -/
structure KP (d : Bytes) (s : PState) : Prop where
  fp : FP d s
  sk : s.allBlocks = false
  ns : ∀ x ∈ s.scopeStack.toList, (slot s.tree x).opcode = opIntScopeBlock
  fn : FN s

/-- what a first-pass function leaves behind (`ok` = it did not fail) -/
def PostF (d : Bytes) (T : Nat → Prop) (c : Nat) (s s' : PState) (ok extra : Prop) : Prop :=
  KP d s' ∧ SGrow T c s s' ∧ s.scopeStack.size ≤ s'.scopeStack.size ∧ (ok → extra)

theorem KP.step {d : Bytes} {c : Nat} {s s' : PState} (h : KP d s) (hf : FP d s') (g : SGrow T c s s')
    (hst : ∀ x ∈ s'.scopeStack.toList, x ∈ s.scopeStack.toList ∨ (slot s'.tree x).opcode = opIntScopeBlock) : KP d s' := by
  refine ⟨hf, by rw [g.same.1]; exact h.sk, ?_, h.fn.grow g⟩
  intro x hx
  rcases hst x hx with h0 | h0
  · exact (g.kfr.bK x (h.fp.scopes x h0)).2 (h.ns x h0)
  · exact h0

/-- a childless name-path object with its table row -/
def NameObj2 (t : ObjectTree) (c : Nat) : Prop :=
  (slot t c).opcode = opIntNamePath ∧ Fi t c = INV ∧ (slot t c).infoIndex = pOpcodeTableIndex opIntNamePath true

/-- a childless byte constant with its table row -/
def ByteObj (t : ObjectTree) (c : Nat) : Prop :=
  (slot t c).opcode = opBytePrefix ∧ Fi t c = INV ∧ (slot t c).infoIndex = pOpcodeTableIndex opBytePrefix true ∧
    ∃ v, (slot t c).value = .u64 v

/-- the invariant while argument `j` of `curObj` is read: a `Scope` gets its name and its block, a `Method` its name,
its flags and its block -/
def DIRx (jf : Prop) (d : Bytes) (s : PState) (curObj j : Nat) : Prop :=
  if (slot s.tree curObj).opcode = opScope then
    (slot s.tree curObj).name.b0 = 0 ∧ C13.P s.tree curObj ≠ INV ∧ (slot s.tree curObj).infoIndex = scopeInfo ∧
    (j ≤ 1 → Both jf d (some curObj) s ∧ Fi s.tree curObj = INV ∧ La s.tree curObj = INV) ∧
    (j = 2 → Both jf d (some curObj) s ∧ La s.tree curObj = Fi s.tree curObj ∧ live s.tree (Fi s.tree curObj) = true ∧
      NameObj d s.tree (Fi s.tree curObj)) ∧
    (3 ≤ j → Both jf d none s)
  else if (slot s.tree curObj).opcode = opMethod then
    C13.P s.tree curObj ≠ INV ∧ (slot s.tree curObj).infoIndex = methodInfoIdx ∧
    (j ≤ 1 → Both jf d (some curObj) s ∧ Fi s.tree curObj = INV ∧ La s.tree curObj = INV) ∧
    (j = 2 → Both jf d (some curObj) s ∧ La s.tree curObj = Fi s.tree curObj ∧ live s.tree (Fi s.tree curObj) = true ∧
      NameObj2 s.tree (Fi s.tree curObj)) ∧
    (j = 3 → Both jf d (some curObj) s ∧ live s.tree (Fi s.tree curObj) = true ∧ NameObj2 s.tree (Fi s.tree curObj) ∧
      Nx s.tree (Fi s.tree curObj) = La s.tree curObj ∧ live s.tree (La s.tree curObj) = true ∧
      ByteObj s.tree (La s.tree curObj)) ∧
    (4 ≤ j → Both jf d none s)
  else Both jf d none s

theorem DIRx.toSome {d : Bytes} {s : PState} {curObj j : Nat} (h : DIRx jf d s curObj j) : Both jf d (some curObj) s := by
  unfold DIRx at h
  split at h
  · obtain ⟨_, _, _, h1, h2, h3⟩ := h
    by_cases q1 : j ≤ 1
    · exact (h1 q1).1
    · by_cases q2 : j = 2
      · exact (h2 q2).1
      · exact (h3 (by omega)).weaken _
  · split at h
    · obtain ⟨_, _, h1, h2, h3, h4⟩ := h
      by_cases q1 : j ≤ 1
      · exact (h1 q1).1
      · by_cases q2 : j = 2
        · exact (h2 q2).1
        · by_cases q3 : j = 3
          · exact (h3 q3).1
          · exact (h4 (by omega)).weaken _
    · exact h.weaken _

/-- panic-freedom (and the directive invariant) of the mutually recursive functions with fuel `f` in the first pass -/
structure FNP (jf : Prop) (d : Bytes) (f : Nat) : Prop where
  target : ∀ {s : PState}, KP d s → Both jf d none s → Bud d 1 s →
    NPs (parseTarget d f) s (fun a s' => PostF d (fun _ => False) 1 s s' (a.2 ≠ .failed) (Both jf d none s') ∧ RetOK s s' a.1)
  arg : ∀ {s : PState} (info curObj argType : Nat) (ex : Option Nat), KP d s → live s.tree curObj = true → InfoOK info →
    Bud d 2 s → argType ≠ argTypeByteList →
    (argType = argTypeFieldList → C13.P s.tree curObj ≠ INV ∧ live s.tree (La s.tree curObj) = true ∧
      ∃ v, (slot s.tree (La s.tree curObj)).value = .u64 v) →
    Both jf d ex s → (∀ e, ex = some e → e = curObj ∧ ((slot s.tree curObj).opcode = opScope ∨ (slot s.tree curObj).opcode = opMethod)) →
    ((slot s.tree curObj).opcode = opScope ∨ (slot s.tree curObj).opcode = opMethod → ex = some curObj) →
    ParSB s curObj → (ex ≠ none → Leaf argType ∨ argType = argTypeTermList) → (slot s.tree curObj).opcode ≠ opIntNamePathOrMethodCall →
    NPs (parseArg d f info curObj argType) s (fun a s' => PostF d (TCur s curObj) 2 s s' (a.2 ≠ .failed) (Both jf d ex s') ∧
      RetOK s s' a.1 ∧
      (Leaf argType → (∀ x, live s.tree x = true → x ≠ curObj → slot s'.tree x = slot s.tree x) ∧
        Fi s'.tree curObj = Fi s.tree curObj ∧ La s'.tree curObj = La s.tree curObj) ∧
      (argType = argTypeByteData → a.2 = .ok → ∃ x v, a.1 = some x ∧ (slot s'.tree x).value = .u64 v) ∧
      (argType = argTypePkgLen → a.1 = none) ∧ (isSimpleArg argType = true → a.2 = .ok → ∃ x, a.1 = some x) ∧
      (argType = argTypeNameString → a.2 = .ok → ∃ x, a.1 = some x ∧ NameObj d s'.tree x) ∧
      (argType = argTypeTermList → a.2 ≠ .failed → ∃ x, a.1 = some x ∧ (slot s'.tree x).opcode = opIntScopeBlock ∧
        (slot s'.tree x).infoIndex = pOpcodeTableIndex opIntScopeBlock true) ∧
      (argType = argTypeTermArg ∨ argType = argTypeTermList → a.2 ≠ .ok) ∧
      (Leaf argType ∨ argType = argTypeTermList → (slot s'.tree curObj).infoIndex = (slot s.tree curObj).infoIndex) ∧
      (argType = argTypeTermList → ∀ x, live s.tree x = true → slot s'.tree x = slot s.tree x) ∧
      (isSimpleArg argType = true → a.2 = .ok ∨ a.2 = .failed) ∧
      (argType = argTypeNameString → a.2 = .ok → ∀ x, a.1 = some x → NameObj2 s'.tree x) ∧
      (argType = argTypeByteData → a.2 = .ok → ∀ x, a.1 = some x → ByteObj s'.tree x) ∧
      (argType = argTypePkgLen → a.2 = .ok ∨ a.2 = .failed ∨ ∃ fl, opFlags info = some fl ∧ hasFlag fl flagDeferParsing = true))
  args : ∀ {s : PState} (info curObj j : Nat), KP d s → live s.tree curObj = true → InfoOK info → rowFacts info = true →
    j ≤ argCnt info → Bud d (2 * (7 - j)) s → Att s info curObj → PrevOK s info curObj j →
    (1 ≤ j → argAt info (j - 1) ≠ argTypeTermArg) → DIRx jf d s curObj j →
    ((slot s.tree curObj).opcode = opScope → info = scopeInfo) → ((slot s.tree curObj).opcode = opMethod → info = methodInfoIdx) →
    ParSB s curObj → (slot s.tree curObj).opcode ≠ opIntNamePathOrMethodCall →
    NPs (parseArgs d f info curObj j) s (fun res s' => PostF d (TCur s curObj) (2 * (7 - j)) s s' (res ≠ .failed) (Both jf d none s'))
  objArgs : ∀ {s : PState} (curObj : Nat), KP d s → live s.tree curObj = true →
    rowFacts (slot s.tree curObj).infoIndex = true → Att s (slot s.tree curObj).infoIndex curObj → Bud d 14 s →
    DIRx jf d s curObj 0 → ParSB s curObj → (slot s.tree curObj).opcode ≠ opIntNamePathOrMethodCall →
    NPs (parseObjectArgs d f curObj) s (fun res s' => PostF d (TCur s curObj) 14 s s' (res ≠ .failed) (Both jf d none s'))
  next : ∀ {s : PState}, KP d s → Both jf d none s → s.scopeStack.size ≠ 0 → Bud d 0 s →
    NPs (parseNextObject d f) s (fun res s' => PostF d (TTop s) 0 s s' (res ≠ .failed) (Both jf d none s'))

theorem target_ops : isTargetOp opScope = false ∧ isTargetOp opIntNamePath = false ∧ isTargetOp opMethod = false ∧
    isTargetOp opIntNamePathOrMethodCall = false ∧ pOpcodeTableIndex opIntNamePathOrMethodCall false = badOpcode := by
  decide +kernel

theorem notScope_of_notK {op : Nat} (h : isK op = false) : op ≠ opScope := by
  intro e; rw [e, isK_scope] at h; cases h

/-- one fresh object -/
theorem Both.fresh1 {d : Bytes} {ex : Option Nat} {n : Nat} {s s' : PState} (h : Both jf d ex s) (f : Fresh1 n s s')
    (w : WF s.tree) (w' : WF s'.tree) (hex : ExK s ex)
    (hnM : (slot s'.tree n).opcode ≠ opMethod ∨ some n = ex)
    (hnC : (slot s'.tree n).opcode ≠ opIntNamePathOrMethodCall) : Both jf d ex s' := by
  refine h.grow (T := fun _ => False) (SGrow.ofFresh1 f) w w' (fun _ hq _ => False.elim hq) hex ?_
  intro x h1 h2
  by_cases hx : x = n
  · rw [hx]
    refine ⟨fun _ => f.fin, fun ho => ?_, hnC⟩
    rcases hnM with h0 | h0
    · exact absurd ho h0
    · exact h0
  · rw [f.livex x hx, h1] at h2; cases h2

/-- `parseTarget()` in the first pass -/
theorem target_stepF {d : Bytes} (hd : d.size + 268435456 ≤ 4294967296) {f : Nat} (ih : FNP jf d f) {s : PState}
    (hS : KP d s) (hdir : Both jf d none s) (hb : Bud d 1 s) :
    NPs (parseTarget d (f + 1)) s (fun a s' => PostF d (fun _ => False) 1 s s' (a.2 ≠ .failed) (Both jf d none s') ∧ RetOK s s' a.1) := by
  have hd' : d.size + 1024 ≤ 4294967296 := by omega
  have h := hS.fp
  have w := h.tree.wf
  have hexn : ExK s none := ExK.none s
  unfold parseTarget
  obtain ⟨o0, s1, e1, h1, hR1, hs1⟩ := lex_step (rel_offset d) h
  refine NPs.step e1 ?_
  have hss : s1 = s := by rw [hs1, hR1.2]
  subst hss
  obtain ⟨opr, s2, e2, h2, hR2, hs2⟩ := lex_step (rel_nextOpcode d hd') h
  refine NPs.step e2 ?_
  have ht2 : s2.tree = s1.tree := by rw [hs2]
  have hsc2 : s2.scopeStack = s1.scopeStack := by rw [hs2]
  rcases hR2 with ⟨hfail, _, hr2⟩ | ⟨hok, hbad, hop, _, hlt, _⟩
  · -- a name
    rw [if_neg (by rw [hfail]; decide)]
    obtain ⟨_, s3, e3, h3, hR3, hs3⟩ := lex_step (rel_setOffset d o0) h2
    refine NPs.step e3 ?_
    have hr3 : s3.r = s1.r := by
      have hoff : s3.r.offset = s1.r.offset := by
        rw [hR3.2, hR1.1]; have := h.inv.1; split <;> omega
      have hpk : s3.r.pkgEnd = s1.r.pkgEnd := by rw [hR3.1, hr2]
      cases hq : s3.r; cases hq1 : s1.r
      rw [hq] at hoff hpk; rw [hq1] at hoff hpk
      simp only at hoff hpk; rw [hoff, hpk]
    have hss3 : s3 = s1 := by rw [hs3, hs2, hr3]
    subst hss3
    obtain ⟨n, s4, e4, h4, f4, hr4, hop4, _⟩ := newObject_step h3 opIntNamePath (hb.mono (Nat.le_refl _)).size_lt (by decide)
      info_const.2.2.2.2.2.2.1
    refine NPs.step e4 ?_
    have hobj : live s4.tree n = true := f4.liven
    obtain ⟨s5, e5, h5, hp5, _, hr5⟩ := upd_step h4 hobj (fun o => { o with amlOffset := o0 }) (by keeps_links) Iff.rfl
      (h4.tree.info _ hobj)
    refine NPs.step e5 ?_
    have hobj5 : live s5.tree n = true := by rw [hp5.links.live]; exact hobj
    obtain ⟨res, s6, e6, h6, hp6, _, _⟩ := setNameValue_tot hd' h5 hobj5
    have f6 := (f4.thenPay hp5).thenPay hp6
    have g6 : SGrow (fun _ => False) 1 s3 s6 := SGrow.ofFresh1 f6
    refine NPs.step e6 (NPs.pure ⟨⟨hS.step h6 g6 (fun x hx => Or.inl (by rw [← f6.scope]; exact hx)), g6,
      by rw [f6.scope]; exact Nat.le_refl _, fun _ => hdir.fresh1 f6 w h6.tree.wf hexn
        (Or.inl (fun ho => by
          have := (hp5.mth).1 ((hp6.mth).1 ho)
          rw [hop4] at this; exact mth_ops.1 this))
        (by
          have hk4 : isK (slot s4.tree n).opcode = false := by rw [hop4]; decide
          have hk6 := hp6.notK (hp5.notK hk4)
          intro e; rw [e, isK_call] at hk6; cases hk6)⟩, ?_⟩)
    intro a ha
    cases ha
    exact ⟨f6.nlive, f6.liven, f6.pn⟩
  · rw [if_pos hok]
    have g2 : SGrow (fun _ => False) 0 s1 s2 := SGrow.ofLex hs2 (by omega)
    have hS2 : KP d s2 := hS.step h2 g2 (fun x hx => Or.inl (by rw [← hsc2]; exact hx))
    have hdir2 : Both jf d none s2 := hdir.ofTree ht2 (by rw [hs2])
    by_cases hz : opr.1 = opZero
    · rw [if_pos hz]
      exact NPs.pure ⟨⟨hS2, g2.weaken (by omega), by rw [hsc2]; exact Nat.le_refl _, fun _ => hdir2⟩, fun a ha => by cases ha⟩
    · rw [if_neg hz]
      split
      · rename_i htarget
        have htop : isTargetOp opr.1 = true := by
          unfold isTargetOp
          simp only [Bool.or_eq_true, beq_iff_eq]
          rcases htarget with h | h | h | h | h
          · exact Or.inl (Or.inl (Or.inl (Or.inl h)))
          · exact Or.inl (Or.inl (Or.inl (Or.inr h)))
          · exact Or.inl (Or.inl (Or.inr h))
          · exact Or.inl (Or.inr h)
          · exact Or.inr h
        have hnS : opr.1 ≠ opScope := by
          intro hq; rw [hq, target_ops.1] at htop; cases htop
        have hnNP : opr.1 ≠ opIntNamePath := by
          intro hq; rw [hq, target_ops.2.1] at htop; cases htop
        have hnM : opr.1 ≠ opMethod := by
          intro hq; rw [hq, target_ops.2.2.1] at htop; cases htop
        have hnC : opr.1 ≠ opIntNamePathOrMethodCall := by
          intro hq; rw [hq, target_ops.2.2.2.1] at htop; cases htop
        obtain ⟨hrow, hinfo, hnf, hnofl⟩ := op_facts hop hbad
        have hb2 : Bud d 17 s2 := hb.consume ht2 hlt h2.inv.1
        obtain ⟨n, s3, e3, h3, f3, hr3, hop3, hinfo3, _⟩ := newObject_step h2 opr.1 (hb2.mono (k' := 1) (by omega)).size_lt hnf hinfo
        refine NPs.step e3 ?_
        have hobj : live s3.tree n = true := f3.liven
        obtain ⟨s4, e4, h4, hp4, hsl4, hr4⟩ := upd_step h3 hobj (fun o => { o with amlOffset := o0 }) (by keeps_links) Iff.rfl
          (h3.tree.info _ hobj)
        refine NPs.step e4 ?_
        have hobj4 : live s4.tree n = true := by rw [hp4.links.live]; exact hobj
        have hinfo4 : (slot s4.tree n).infoIndex = pOpcodeTableIndex opr.1 true := by rw [hsl4]; exact hinfo3
        have hop4 : (slot s4.tree n).opcode = opr.1 := by rw [hsl4]; exact hop3
        have f4 : Fresh1 n s2 s4 := f3.thenPay hp4
        have g4 : SGrow (TCur s4 n) 1 s2 s4 := SGrow.ofFresh1 f4
        have hb4 : Bud d 14 s4 := by
          have := budS hb2 g4 h4.inv.1 (by omega); exact this.mono (by omega)
        have hdir4 : Both jf d none s4 := hdir2.fresh1 f4 h2.tree.wf h4.tree.wf (ExK.none s2)
          (Or.inl (by rw [hop4]; exact hnM)) (by rw [hop4]; exact hnC)
        have hsc4 : s4.scopeStack = s1.scopeStack := by rw [f4.scope, hsc2]
        have g14 : SGrow (TCur s4 n) 1 s1 s4 := (SGrow.ofLex hs2 (by omega)).trans g4
        have hS4 : KP d s4 := hS.step h4 g14 (fun x hx => Or.inl (by rw [← hsc4]; exact hx))
        have hdx : DIRx jf d s4 n 0 := by
          unfold DIRx
          rw [if_neg (by rw [hop4]; exact hnS), if_neg (by rw [hop4]; exact hnM)]
          exact hdir4
        have := ih.objArgs (s := s4) n hS4 hobj4 (by rw [hinfo4]; exact hrow) (Or.inr (by rw [hinfo4]; exact hnofl htop)) hb4
          hdx (Or.inl f4.pn) (by rw [hop4]; exact hnC)
        refine NPs.bind this ?_
        intro res s5 ⟨hS5, g5, hsz5, hok5⟩
        have hn1 : live s1.tree n = false := by rw [← ht2]; exact f4.nlive
        refine NPs.pure ⟨⟨hS5, ?_, by rw [← hsc4]; exact hsz5, hok5⟩, ?_⟩
        · have g25 := SGrow.absorb hs2 hlt (g4.trans g5) (by omega)
          refine (g25.mono h.tree.wf ?_).weaken (by omega)
          intro x hx hT
          rcases hT with hT | hT
          · rw [hT, hn1] at hx; cases hx
          · rw [hT, f4.pn, live_not_INV h.tree.wf] at hx; cases hx
        · intro a ha
          cases ha
          exact ⟨hn1, g5.oldLive _ hobj4, by rw [g5.oldP _ hobj4]; exact f4.pn⟩
      · exact NPs.pure ⟨⟨hS2, g2.weaken (by omega), by rw [hsc2]; exact Nat.le_refl _, fun hq => absurd rfl hq⟩, fun a ha => by cases ha⟩

/-- `case pArgTypePkgLen:` in the first pass: the reader and the package-end stack change, and for a deferred opcode the
`pkgEnd` of `curObj` -/
theorem parsePkgLenArg_skip {d : Bytes} (hd : d.size + 268435456 ≤ 4294967296) {s : PState} (h : FP d s) (info curObj : Nat)
    (hc : live s.tree curObj = true) (hinfo : InfoOK info) :
    ∃ a s', parsePkgLenArg d info curObj s = .ok (a, s') ∧ FP d s' ∧ a.1 = none ∧ s'.scopeStack = s.scopeStack ∧
      (∃ sm, PayOnly curObj s sm ∧ s'.tree = sm.tree ∧ sm.r.offset ≤ s'.r.offset + 4 ∧ s.r.offset ≤ s'.r.offset ∧
        (s'.allBlocks = s.allBlocks ∧ s'.tableHandle = s.tableHandle ∧ s'.streamEnd = s.streamEnd) ∧
        (slot sm.tree curObj).infoIndex = (slot s.tree curObj).infoIndex) ∧
      (a.2 = .ok ∨ a.2 = .failed ∨ ∃ fl, opFlags info = some fl ∧ hasFlag fl flagDeferParsing = true) := by
  unfold parsePkgLenArg
  obtain ⟨o0, s1, e1, h1, hR1, hs1⟩ := lex_step (rel_offset d) h
  refine bind_ex e1 ?_
  have hss : s1 = s := by rw [hs1, hR1.2]
  subst hss
  obtain ⟨pr, s2, e2, h2, hR2, hs2⟩ := lex_step (rel_parsePkgLengthV d) h
  refine bind_ex e2 ?_
  have ht2 : s2.tree = s1.tree := by rw [hs2]
  have hsc2 : s2.scopeStack = s1.scopeStack := by rw [hs2]
  have hsame2 : s2.allBlocks = s1.allBlocks ∧ s2.tableHandle = s1.tableHandle ∧ s2.streamEnd = s1.streamEnd := by
    rw [hs2]; exact ⟨rfl, rfl, rfl⟩
  have hle2 : s1.r.offset ≤ s2.r.offset := by
    rcases hR2.1 with ⟨_, hr⟩ | ⟨_, _, hlt, _⟩
    · rw [hr]; exact Nat.le_refl _
    · omega
  have hpk2 : s2.r.pkgEnd = s1.r.pkgEnd := by
    rcases hR2.1 with ⟨_, hr⟩ | ⟨_, hp, _, _⟩
    · rw [hr]
    · exact hp
  have p12 : PayOnly curObj s1 s2 := PayOnly.ofLex curObj hs2 hpk2 hle2
  have hres2 : pr.2 = .ok ∨ pr.2 = .failed := by
    rcases hR2.1 with ⟨hf, _⟩ | ⟨hk, _⟩
    · exact Or.inr hf
    · exact Or.inl hk
  split
  · exact pure_ex ⟨h2, rfl, hsc2, ⟨s2, p12, rfl, by omega, hle2, hsame2, by rw [ht2]⟩,
      hres2.elim Or.inl (fun hf => Or.inr (Or.inl hf))⟩
  · rename_i hok
    have hok : pr.2 = .ok := by
      by_cases hq : pr.2 = .ok
      · exact hq
      · exact absurd hq hok
    obtain ⟨hlt2, hoff2⟩ : s1.r.offset < s2.r.offset ∧ s2.r.offset ≤ s1.r.offset + 4 := by
      rcases hR2.1 with ⟨hf, _⟩ | ⟨_, _, hlt, hle, _⟩
      · rw [hok] at hf; cases hf
      · exact ⟨hlt, hle⟩
    have hv := hR2.2
    obtain ⟨fl, hfl⟩ := opFlags_of_info hinfo
    rw [hfl]
    refine bind_ex (optP_ex fl s2) ?_
    refine bind_ex (allBlocks_ex s2) ?_
    have hi1 := h.inv.1
    have hu : u32 (o0 + pr.1) = s1.r.offset + pr.1 := by rw [hR1.1]; unfold u32; omega
    rw [hu]
    split
    · -- deferred: remember the end of the block and skip it
      rename_i hdf
      have hc2 : live s2.tree curObj = true := by rw [ht2]; exact hc
      obtain ⟨s3, e3, h3, hp3, hsl3, hr3⟩ := upd_step h2 hc2 (fun o => { o with pkgEnd := s1.r.offset + pr.1 }) (by keeps_links) Iff.rfl
        (h2.tree.info curObj hc2)
      refine bind_ex e3 ?_
      obtain ⟨_, s4, e4, h4, hR4, hs4⟩ := lex_step (rel_setOffset d (s1.r.offset + pr.1)) h3
      refine bind_ex e4 (pure_ex ⟨h4, rfl, by rw [hs4]; show s3.scopeStack = _; rw [hp3.scope, hsc2], ⟨s3, p12.trans hp3, by rw [hs4], ?_, ?_, ?_,
        by rw [hsl3, ht2]⟩, Or.inr (Or.inr ⟨fl, rfl, hdf.2⟩)⟩)
      · rw [hR4.2, hr3]; split <;> omega
      · rw [hR4.2]; split <;> omega
      · rw [hs4]; show s3.allBlocks = _ ∧ s3.tableHandle = _ ∧ s3.streamEnd = _
        rw [hp3.same.1, hp3.same.2.1, hp3.same.2.2]; exact hsame2
    · obtain ⟨b, s3, e3, h3, hs3, ho3⟩ := pushPkgEnd_step h2 (s1.r.offset + pr.1)
      refine bind_ex e3 ?_
      have fin : FP d s3 ∧ s3.scopeStack = s1.scopeStack ∧ ∃ sm, PayOnly curObj s1 sm ∧ s3.tree = sm.tree ∧
          sm.r.offset ≤ s3.r.offset + 4 ∧ s1.r.offset ≤ s3.r.offset ∧
          (s3.allBlocks = s1.allBlocks ∧ s3.tableHandle = s1.tableHandle ∧ s3.streamEnd = s1.streamEnd) ∧
          (slot sm.tree curObj).infoIndex = (slot s1.tree curObj).infoIndex :=
        ⟨h3, by rw [hs3]; exact hsc2, s2, p12, by rw [hs3], by rw [ho3]; omega, by rw [ho3]; exact hle2,
         by rw [hs3]; exact hsame2, by rw [ht2]⟩
      split
      · exact pure_ex ⟨fin.1, rfl, fin.2.1, fin.2.2, Or.inr (Or.inl rfl)⟩
      · exact pure_ex ⟨fin.1, rfl, fin.2.1, fin.2.2, Or.inl rfl⟩

/-- a payload-only step on `obj`: the exception, or neither a `Scope` nor a `Method`, under a scope block -/
theorem Both.pay1 {d : Bytes} {ex : Option Nat} {obj : Nat} {s s' : PState} (h : Both jf d ex s) (hp : PayOnly obj s s')
    (w : WF s.tree) (w' : WF s'.tree) (ho : live s.tree obj = true)
    (hobj : TOK s ex obj)
    (hpar : ParSB s obj) (hex : ExK s ex) : Both jf d ex s' := by
  have g : SGrow (TCur s obj) 0 s s' := SGrow.ofPay hp (by
    rcases hpar with hq | _
    · exact Or.inl hq
    · exact Or.inr (Or.inr rfl)) (Or.inl rfl) ho
  refine h.grow g w w' ?_ hex ?_
  · intro y hT hl
    rcases hT with hT | hT
    · rw [hT]; exact hobj
    · rcases hpar with hq | hq
      · rw [hT, hq, live_not_INV w] at hl; cases hl
      · rw [hT]; exact Or.inr ⟨⟨by rw [hq]; decide, by rw [hq]; decide⟩, Or.inr hq, by rw [hq]; decide⟩
  · intro x h1 h2
    rw [hp.links.live, h1] at h2; cases h2

/-- a payload-only step followed by a reader / stack change -/
theorem sgrow_ofPayLex {obj : Nat} {s sm s' : PState} (hp : PayOnly obj s sm) (ht : s'.tree = sm.tree)
    (ho : s.r.offset ≤ s'.r.offset)
    (hsame : s'.allBlocks = s.allBlocks ∧ s'.tableHandle = s.tableHandle ∧ s'.streamEnd = s.streamEnd)
    (hpar : C13.P s.tree obj = INV ∨ T (C13.P s.tree obj)) (hT : T obj) (hl : live s.tree obj = true) : SGrow T 0 s s' := by
  have g := SGrow.ofPay (T := T) hp hpar hT hl
  exact ⟨ho, by rw [ht]; exact g.pool, by rw [ht, hp.links.size]; omega, fun x hx => by rw [ht]; exact g.oldP x hx,
    fun x hx => by rw [ht]; exact g.oldLive x hx, fun x hx hq => by rw [ht]; exact g.fiK x hx hq,
    fun x hx h1 h2 => by rw [ht]; exact g.kidK x hx h1 h2, fun x hx h1 h2 => by rw [ht]; exact g.payK x hx h1 h2,
    ⟨fun x hx => by rw [ht]; exact g.kfr.opK x hx, fun x hx hk => by rw [ht]; exact g.kfr.nameKK x hx hk,
     fun x hx => by rw [ht] at hx ⊢; exact g.kfr.deadK x hx, fun x hx hk => by rw [ht]; exact g.kfr.infoKK x hx hk⟩, hsame⟩

/-- `parseArg(info, curObj, argType)` in the first pass -/
theorem arg_stepF {d : Bytes} (hd : d.size + 268435456 ≤ 4294967296) {f : Nat} (ih : FNP jf d f) {s : PState}
    (info curObj argType : Nat) (ex : Option Nat) (hS : KP d s) (hc : live s.tree curObj = true) (hinfo : InfoOK info)
    (hb : Bud d 2 s) (hnbl : argType ≠ argTypeByteList)
    (hfl : argType = argTypeFieldList → C13.P s.tree curObj ≠ INV ∧ live s.tree (La s.tree curObj) = true ∧
      ∃ v, (slot s.tree (La s.tree curObj)).value = .u64 v)
    (hdir : Both jf d ex s)
    (hexP : ∀ e, ex = some e → e = curObj ∧ ((slot s.tree curObj).opcode = opScope ∨ (slot s.tree curObj).opcode = opMethod))
    (hcS : (slot s.tree curObj).opcode = opScope ∨ (slot s.tree curObj).opcode = opMethod → ex = some curObj)
    (hpar : ParSB s curObj) (hexL : ex ≠ none → Leaf argType ∨ argType = argTypeTermList)
    (hcN : (slot s.tree curObj).opcode ≠ opIntNamePathOrMethodCall) :
    NPs (parseArg d (f + 1) info curObj argType) s (fun a s' =>
      PostF d (TCur s curObj) 2 s s' (a.2 ≠ .failed) (Both jf d ex s') ∧ RetOK s s' a.1 ∧
      (Leaf argType → (∀ x, live s.tree x = true → x ≠ curObj → slot s'.tree x = slot s.tree x) ∧
        Fi s'.tree curObj = Fi s.tree curObj ∧ La s'.tree curObj = La s.tree curObj) ∧
      (argType = argTypeByteData → a.2 = .ok → ∃ x v, a.1 = some x ∧ (slot s'.tree x).value = .u64 v) ∧
      (argType = argTypePkgLen → a.1 = none) ∧ (isSimpleArg argType = true → a.2 = .ok → ∃ x, a.1 = some x) ∧
      (argType = argTypeNameString → a.2 = .ok → ∃ x, a.1 = some x ∧ NameObj d s'.tree x) ∧
      (argType = argTypeTermList → a.2 ≠ .failed → ∃ x, a.1 = some x ∧ (slot s'.tree x).opcode = opIntScopeBlock ∧
        (slot s'.tree x).infoIndex = pOpcodeTableIndex opIntScopeBlock true) ∧
      (argType = argTypeTermArg ∨ argType = argTypeTermList → a.2 ≠ .ok) ∧
      (Leaf argType ∨ argType = argTypeTermList → (slot s'.tree curObj).infoIndex = (slot s.tree curObj).infoIndex) ∧
      (argType = argTypeTermList → ∀ x, live s.tree x = true → slot s'.tree x = slot s.tree x) ∧
      (isSimpleArg argType = true → a.2 = .ok ∨ a.2 = .failed) ∧
      (argType = argTypeNameString → a.2 = .ok → ∀ x, a.1 = some x → NameObj2 s'.tree x) ∧
      (argType = argTypeByteData → a.2 = .ok → ∀ x, a.1 = some x → ByteObj s'.tree x) ∧
      (argType = argTypePkgLen → a.2 = .ok ∨ a.2 = .failed ∨ ∃ fl, opFlags info = some fl ∧ hasFlag fl flagDeferParsing = true)) := by
  have hd' : d.size + 1024 ≤ 4294967296 := by omega
  have h := hS.fp
  have w := h.tree.wf
  have hszlt : s.tree.pool.size < INV := (hb.mono (k' := 1) (by omega)).size_lt
  have hex : ExK s ex := fun e he => by
    obtain ⟨q1, q2⟩ := hexP e he; rw [q1]; exact q2
  have hTcur : ∀ y, TCur s curObj y → live s.tree y = true → TOK s ex y := by
    intro y hT hl
    rcases hT with hT | hT
    · rw [hT]
      by_cases hq : (slot s.tree curObj).opcode = opScope ∨ (slot s.tree curObj).opcode = opMethod
      · exact Or.inl (hcS hq).symm
      · exact Or.inr ⟨⟨fun e => hq (Or.inl e), fun e => hq (Or.inr e)⟩, Or.inl hpar, hcN⟩
    · rcases hpar with hq | hq
      · rw [hT, hq, live_not_INV w] at hl; cases hl
      · rw [hT]; exact Or.inr ⟨⟨by rw [hq]; decide, by rw [hq]; decide⟩, Or.inr hq, by rw [hq]; decide⟩
  unfold parseArg
  by_cases hsimple : isSimpleArg argType = true
  · rw [if_pos hsimple]
    have hnpk : argType ≠ argTypePkgLen := by intro hq; rw [hq] at hsimple; revert hsimple; decide
    have hntl : argType ≠ argTypeTermList := by intro hq; rw [hq] at hsimple; revert hsimple; decide
    have hnta : argType ≠ argTypeTermArg := by intro hq; rw [hq] at hsimple; revert hsimple; decide
    obtain ⟨a, s', n, e, h', f', hk', hres⟩ := parseSimpleArg_tot hd' h hszlt argType
    have hnM' : (slot s'.tree n).opcode ≠ opMethod := fun ho => by rw [ho, isK_method] at hk'; cases hk'
    have hnC' : (slot s'.tree n).opcode ≠ opIntNamePathOrMethodCall := fun ho => by rw [ho, isK_call] at hk'; cases hk'
    have g' : SGrow (TCur s curObj) 1 s s' := SGrow.ofFresh1 f'
    have hcn : curObj ≠ n := f'.ne hc
    refine NPs.of_eq e ⟨⟨hS.step h' g' (fun x hx => Or.inl (by rw [← f'.scope]; exact hx)), g'.weaken (by omega),
      by rw [f'.scope]; exact Nat.le_refl _, fun _ => hdir.fresh1 f' w h'.tree.wf hex (Or.inl hnM') hnC'⟩, ?_,
      fun _ => ⟨fun x hx _ => f'.old x (f'.ne hx), by unfold Fi; rw [f'.old _ hcn], by unfold La; rw [f'.old _ hcn]⟩, ?_,
      fun hq => absurd hq hnpk, ?_, ?_, fun hq => absurd hq hntl, ?_, fun _ => by rw [f'.old _ hcn],
      fun hq => absurd hq hntl, ?_, ?_, ?_, fun hq => absurd hq hnpk⟩
    · intro x hx
      rcases hres with ⟨ha, _, _⟩ | ha
      · rw [ha] at hx; cases hx
        exact ⟨f'.nlive, f'.liven, f'.pn⟩
      · rw [ha] at hx; cases hx
    · intro hbd hok
      rcases hres with ⟨ha, _, hv⟩ | ha
      · obtain ⟨v, hv⟩ := hv (Or.inl hbd)
        exact ⟨_, v, ha, hv⟩
      · rw [ha] at hok; cases hok
    · intro _ hok
      rcases hres with ⟨ha, _, _⟩ | ha
      · exact ⟨_, ha⟩
      · rw [ha] at hok; cases hok
    · intro hns hok
      subst hns
      obtain ⟨a2, s2, e2, hname⟩ := parseSimpleArg_name hd' h hszlt
      rw [e] at e2
      cases e2
      obtain ⟨x, hx, hn, _⟩ := hname hok
      exact ⟨x, hx, hn⟩
    · intro hq
      rcases hq with hq | hq
      · exact absurd hq hnta
      · exact absurd hq hntl
    · intro _
      rcases hres with ⟨_, hp, _⟩ | ha
      · rcases hp with ⟨e0, _⟩ | e0
        · exact Or.inl e0
        · exact Or.inr e0
      · rw [ha]; exact Or.inr rfl
    · intro hns hok x hx
      subst hns
      obtain ⟨a2, s2, e2, hname⟩ := parseSimpleArg_name hd' h hszlt
      rw [e] at e2
      cases e2
      obtain ⟨y, hy, hn, hi⟩ := hname hok
      rw [hx] at hy; cases hy
      exact ⟨hn.1, hn.2.1, hi⟩
    · intro hbd _ x hx
      subst hbd
      obtain ⟨a2, s2, e2, hbyte⟩ := parseSimpleArg_byte h hszlt
      rw [e] at e2
      cases e2
      exact hbyte x hx
  · rw [if_neg hsimple, if_neg hnbl]
    have hnns : argType ≠ argTypeNameString := by intro hq; rw [hq] at hsimple; exact hsimple (by decide)
    have hnbd : argType ≠ argTypeByteData := by intro hq; rw [hq] at hsimple; exact hsimple (by decide)
    by_cases hpk : argType = argTypePkgLen
    · rw [if_pos hpk]
      obtain ⟨a, s', e, h', ha, hsc', ⟨sm, hpm, htm, _, hoff, hsame', hinfm⟩, hkind⟩ := parsePkgLenArg_skip hd h info curObj hc hinfo
      have g' : SGrow (TCur s curObj) 0 s s' := sgrow_ofPayLex hpm htm hoff hsame' (by
        rcases hpar with hq | _
        · exact Or.inl hq
        · exact Or.inr (Or.inr rfl)) (Or.inl rfl) hc
      have hdir' : Both jf d ex s' := hdir.grow g' w h'.tree.wf hTcur hex (fun x h1 h2 => by
        rw [htm, hpm.links.live, h1] at h2; cases h2)
      refine NPs.of_eq e ⟨⟨hS.step h' g' (fun x hx => Or.inl (by rw [← hsc']; exact hx)), g'.weaken (by omega),
        by rw [hsc']; exact Nat.le_refl _, fun _ => hdir'⟩, fun x hx => (by rw [ha] at hx; cases hx),
        fun _ => ⟨fun x _ hne => (by rw [htm]; exact hpm.others x hne), by rw [htm]; exact hpm.links.fi _, by rw [htm]; exact hpm.links.la _⟩,
        fun hq => absurd hq hnbd, fun _ => ha, fun hq => absurd hq hsimple, fun hq => absurd hq hnns,
        fun hq => (by rw [hpk] at hq; cases hq), ?_, fun _ => by rw [htm]; exact hinfm,
        fun hq => (by rw [hpk] at hq; cases hq), fun hq => absurd hq hsimple, fun hq => absurd hq hnns,
        fun hq => absurd hq hnbd, fun _ => hkind⟩
      intro hq; rcases hq with hq | hq <;> rw [hpk] at hq <;> cases hq
    · rw [if_neg hpk]
      have hnl : ¬ Leaf argType := by
        intro hl; rcases hl with hl | hl
        · exact hsimple hl
        · exact hpk hl
      by_cases hfld : argType = argTypeFieldList
      · rw [if_pos hfld]
        obtain ⟨hp, hla, hv⟩ := hfl hfld
        obtain ⟨res, s', e, h', g', hsc', _, fr⟩ := parseFieldElements_tot (T := TCur s curObj) hd h curObj hc hp hla hv hb
          (Or.inl rfl) (Or.inr rfl)
        have gg : SGrow (TCur s curObj) 2 s s' := SGrow.ofGrowFrm g' fr
        have hdir' : Both jf d ex s' := hdir.grow gg w h'.tree.wf hTcur hex (fun x h1 h2 => by
          have := fr.newK x h1 h2
          exact ⟨fun ho => (by rw [ho, isK_scope] at this; cases this), fun ho => (by rw [ho, isK_method] at this; cases this),
            fun ho => (by rw [ho, isK_call] at this; cases this)⟩)
        refine NPs.step e (NPs.pure ⟨⟨hS.step h' gg (fun x hx => Or.inl (by rw [← hsc']; exact hx)), gg,
          by rw [hsc']; exact Nat.le_refl _, fun _ => hdir'⟩, fun x hx => (by cases hx), fun hl => absurd hl hnl,
          fun hq => absurd hq hnbd, fun hq => absurd hq hpk, fun hq => absurd hq hsimple, fun hq => absurd hq hnns,
          fun hq => (by rw [hfld] at hq; cases hq), ?_, ?_, fun hq => (by rw [hfld] at hq; cases hq), fun hq => absurd hq hsimple,
          fun hq => absurd hq hnns, fun hq => absurd hq hnbd, fun hq => absurd hq hpk⟩)
        · intro hq; rcases hq with hq | hq <;> rw [hfld] at hq <;> cases hq
        · intro hq
          rcases hq with hq | hq
          · exact absurd hq hnl
          · rw [hfld] at hq; cases hq
      · rw [if_neg hfld]
        by_cases hta : argType = argTypeTermArg ∨ argType = argTypeDataRefObj
        · rw [if_pos hta]
          refine NPs.step (allBlocks_ex s) ?_
          rw [hS.sk]
          simp only [Bool.false_eq_true, ↓reduceIte]
          refine NPs.pure ⟨⟨hS, (SGrow.refl s).weaken (by omega), Nat.le_refl _, fun _ => hdir⟩, fun x hx => (by cases hx),
            fun hl => absurd hl hnl, fun hq => absurd hq hnbd, fun hq => absurd hq hpk, fun hq => absurd hq hsimple,
            fun hq => absurd hq hnns, ?_, fun _ hq => (by cases hq), ?_, ?_, fun hq => absurd hq hsimple,
            fun hq => absurd hq hnns, fun hq => absurd hq hnbd, fun hq => absurd hq hpk⟩
          · intro hq; rcases hta with hq2 | hq2 <;> rw [hq2] at hq <;> cases hq
          · intro hq
            rcases hq with hq | hq
            · exact absurd hq hnl
            · rcases hta with hq2 | hq2 <;> rw [hq2] at hq <;> cases hq
          · intro hq; rcases hta with hq2 | hq2 <;> rw [hq2] at hq <;> cases hq
        · rw [if_neg hta]
          by_cases htl : argType = argTypeTermList
          · rw [if_pos htl]
            obtain ⟨scope, s1, e1, h1, sm, hm, fm, hs1, hopm, hrm⟩ := newScopeBlock_strict h hszlt
            refine NPs.step e1 ?_
            refine NPs.step (allBlocks_ex s1) ?_
            have ht1 : s1.tree = sm.tree := by rw [hs1]
            have hsc1 : s1.scopeStack = s.scopeStack.push scope := by rw [hs1]; show sm.scopeStack.push scope = _; rw [fm.scope]
            have hr1 : s1.r = s.r := by rw [hs1]; exact hrm
            have hsame1 : s1.allBlocks = s.allBlocks ∧ s1.tableHandle = s.tableHandle ∧ s1.streamEnd = s.streamEnd := by
              rw [hs1]; exact fm.same
            rw [hsame1.1, hS.sk]
            simp only [Bool.not_false, ↓reduceIte]
            have gm : SGrow (TCur s curObj) 1 s sm := SGrow.ofFresh1 fm
            have g1 : SGrow (TCur s curObj) 1 s s1 :=
              gm.trans (SGrow.ofSame ht1 (by rw [hr1, hrm]; exact Nat.le_refl _) (by rw [hs1]; exact ⟨rfl, rfl, rfl⟩))
            have hdirm : Both jf d ex sm := hdir.fresh1 fm w hm.tree.wf hex (Or.inl (by rw [hopm]; exact mth_ops.2.2.1))
              (by rw [hopm]; decide)
            have hinf1 : (slot s1.tree scope).infoIndex = pOpcodeTableIndex opIntScopeBlock true := by
              obtain ⟨a2, s2, e2, hi2⟩ := newScopeBlock_info h hszlt
              rw [e1] at e2; cases e2; exact hi2
            have hop1 : (slot s1.tree scope).opcode = opIntScopeBlock := by rw [ht1]; exact hopm
            refine NPs.pure ⟨⟨hS.step h1 g1 (fun x hx => by
                rw [hsc1, Array.toList_push, List.mem_append, List.mem_singleton] at hx
                rcases hx with hx | hx
                · exact Or.inl hx
                · rw [hx]; exact Or.inr hop1), g1.weaken (by omega), by rw [hsc1]; simp,
              fun _ => hdirm.ofTree ht1 (by rw [hsame1.2.1, fm.same.2.1])⟩, ?_, fun hl => absurd hl hnl,
              fun hq => absurd hq hnbd, fun hq => absurd hq hpk, fun hq => absurd hq hsimple, fun hq => absurd hq hnns,
              fun _ _ => ⟨scope, rfl, hop1, hinf1⟩, fun _ hq => (by cases hq),
              fun _ => by rw [ht1, fm.old _ (fm.ne hc)], fun _ x hx => by rw [ht1, fm.old _ (fm.ne hx)],
              fun hq => absurd hq hsimple, fun hq => absurd hq hnns, fun hq => absurd hq hnbd, fun hq => absurd hq hpk⟩
            intro a ha
            cases ha
            exact ⟨fm.nlive, by rw [ht1]; exact fm.liven, by rw [ht1]; exact fm.pn⟩
          · rw [if_neg htl]
            have hexn : ex = none := by
              apply Classical.byContradiction
              intro hq
              rcases hexL hq with h0 | h0
              · exact hnl h0
              · exact htl h0
            subst hexn
            refine (ih.target hS hdir (hb.mono (by omega))).mono ?_
            intro a s' ⟨⟨hS', g', hsz', hok'⟩, hret⟩
            refine ⟨⟨hS', (g'.mono w (fun x _ hT => False.elim hT)).weaken (by omega), hsz', hok'⟩, hret,
              fun hl => absurd hl hnl, fun hq => absurd hq hnbd, fun hq => absurd hq hpk, fun hq => absurd hq hsimple,
              fun hq => absurd hq hnns, fun hq => absurd hq htl, ?_, ?_, fun hq => absurd hq htl, fun hq => absurd hq hsimple,
              fun hq => absurd hq hnns, fun hq => absurd hq hnbd, fun hq => absurd hq hpk⟩
            · intro hq
              rcases hq with hq | hq
              · exact absurd (Or.inl hq) hta
              · exact absurd hq htl
            · intro hq
              rcases hq with hq | hq
              · exact absurd hq hnl
              · exact absurd hq htl

/-! ## the argument loop -/

theorem KP.append {d : Bytes} {s1 s2 : PState} (h1 : KP d s1) (h2 : FP d s2) (hs2 : s2 = { s1 with tree := s2.tree })
    (sp : SamePay s1.tree s2.tree) (hl : ∀ x, live s2.tree x = live s1.tree x) : KP d s2 := by
  have hsc : s2.scopeStack = s1.scopeStack := by rw [hs2]
  have hab : s2.allBlocks = s1.allBlocks := by rw [hs2]
  refine ⟨h2, by rw [hab]; exact h1.sk, ?_, ?_⟩
  · intro x hx
    rw [pay_opcode (sp.pay x)]
    exact h1.ns x (by rw [← hsc]; exact hx)
  · intro x hx
    rw [pay_name (sp.pay x)]
    exact h1.fn x (by rw [← hl]; exact hx)

theorem ParSB.grow {c : Nat} {s s' : PState} {curObj : Nat} (hpar : ParSB s curObj) (g : SGrow T c s s') (w : WF s.tree)
    (hc : live s.tree curObj = true) : ParSB s' curObj := by
  unfold ParSB at hpar ⊢
  rw [g.oldP _ hc]
  rcases hpar with hq | hq
  · exact Or.inl hq
  · by_cases hpi : C13.P s.tree curObj = INV
    · exact Or.inl hpi
    · have hpl : live s.tree (C13.P s.tree curObj) = true := by
        rcases (w.lP hc).lp with h0 | h0
        · exact absurd h0 hpi
        · exact h0
      exact Or.inr ((g.kfr.bK _ hpl).2 hq)

theorem DirOK.closeBlank {d : Bytes} {s : PState} {c : Nat} (h : DirOK d (some c) s) (hf : Fi s.tree c = INV) : DirOK d none s := by
  intro x hl ho hh _
  by_cases hx : x = c
  · rw [hx]; exact Or.inl hf
  · exact h x hl ho hh (by intro e; cases e; exact hx rfl)

/-- `append(obj, arg)` under the exception or under an object that is neither a `Scope` nor a directive's name -/
theorem DirOK.append {d : Bytes} {ex : Option Nat} {s1 s2 : PState} (h : DirOK d ex s1) (w1 : WF s1.tree) (w2 : WF s2.tree)
    {obj arg : Nat} (hs2 : s2 = { s1 with tree := s2.tree })
    (ha : C13.P s1.tree arg = INV) (ho : live s1.tree obj = true)
    (hobj : (some obj = ex ∧ ((slot s1.tree obj).opcode = opScope ∨ (slot s1.tree obj).opcode = opMethod)) ∨
      (((slot s1.tree obj).opcode ≠ opScope ∧ (slot s1.tree obj).opcode ≠ opMethod) ∧
        (ParSB s1 obj ∨ (slot s1.tree obj).opcode = opIntScopeBlock)))
    (hl : ∀ x, live s2.tree x = live s1.tree x) (sp : SamePay s1.tree s2.tree)
    (hP : ∀ x, C13.P s2.tree x = if x = arg then obj else C13.P s1.tree x)
    (hNx : ∀ x, Nx s2.tree x = if x = arg then INV else if x = La s1.tree obj ∧ La s1.tree obj ≠ INV then arg else Nx s1.tree x)
    (hFi : ∀ x, Fi s2.tree x = if x = obj ∧ La s1.tree obj = INV then arg else Fi s1.tree x) : DirOK d ex s2 := by
  intro x hx hop hh hne
  have hth : s2.tableHandle = s1.tableHandle := by rw [hs2]
  have hx1 : live s1.tree x = true := by rw [← hl]; exact hx
  have hop1 : (slot s1.tree x).opcode = opScope := by rw [← pay_opcode (sp.pay x)]; exact hop
  have hh1 : (slot s1.tree x).tableHandle = s1.tableHandle := by rw [← pay_handle (sp.pay x), hh, hth]
  have hxo : x ≠ obj := by
    intro e
    rcases hobj with h0 | h0
    · exact hne (by rw [e]; exact h0.1)
    · exact h0.1.1 (by rw [← e]; exact hop1)
  have hfi : Fi s2.tree x = Fi s1.tree x := by rw [hFi, if_neg (fun hc => hxo hc.1)]
  rcases h x hx1 hop1 hh1 hne with h1 | h1
  · exact Or.inl (by rw [hfi]; exact h1)
  · right
    have hxINV := live_ne_INV w1.size_le hx1
    obtain ⟨p1, _⟩ := (w1.lP hx1).fi h1.fi
    have l1 : live s1.tree (Fi s1.tree x) = true := by
      rcases (w1.lP hx1).lfi with h0 | h0
      · exact absurd h0 h1.fi
      · exact h0
    have hla : La s1.tree x ≠ INV := fun hq => h1.fi ((w1.lP hx1).ends.2 hq)
    obtain ⟨p2, n2⟩ := (w1.lP hx1).la hla
    have l2 : live s1.tree (La s1.tree x) = true := by
      rcases (w1.lP hx1).lla with h0 | h0
      · exact absurd h0 hla
      · exact h0
    have hxa : x ≠ arg := fun e => h1.att (by rw [e]; exact ha)
    have hlaa : La s1.tree x ≠ arg := fun e => by rw [e, ha] at p2; exact hxINV p2.symm
    have hfo : Fi s1.tree x ≠ obj := by
      intro e
      rcases hobj with h0 | h0
      · have := h0.2
        rw [← e, h1.nameOp] at this
        revert this; decide
      · rcases h0.2 with (h3 | h3) | h3
        · rw [← e, p1] at h3; exact hxINV h3
        · rw [← e, p1, hop1] at h3
          revert h3; decide
        · rw [← e, h1.nameOp] at h3
          revert h3; decide
    have nxk : ∀ y, C13.P s1.tree y = x → Nx s2.tree y = Nx s1.tree y := by
      intro y hpy
      have hya : y ≠ arg := fun e => by rw [e, ha] at hpy; exact hxINV hpy.symm
      rw [hNx, if_neg hya, if_neg]
      intro hc
      have := ((w1.lP ho).la hc.2).1
      rw [← hc.1, hpy] at this
      exact hxo this
    have hla' : La s2.tree x = La s1.tree x :=
      la_of_last w2 (by rw [hl]; exact l2) (by rw [hP, if_neg hlaa]; exact p2) hxINV (by rw [nxk _ p2]; exact n2)
    refine ⟨by rw [hP, if_neg hxa]; exact h1.att, by rw [hfi]; exact h1.fi, ?_, by rw [hfi, pay_opcode (sp.pay _)]; exact h1.nameOp⟩
    exact h1.shape.transfer (sp.pay _) hfi hla' (sp.pay _) (by rw [hFi, if_neg (fun hc => hfo hc.1)]) (nxk _ p1) (sp.pay _)

theorem Both.append {d : Bytes} {ex : Option Nat} {s1 s2 : PState} (h : Both jf d ex s1) (w1 : WF s1.tree) (w2 : WF s2.tree)
    {obj arg : Nat} (hs2 : s2 = { s1 with tree := s2.tree })
    (ha : C13.P s1.tree arg = INV) (ho : live s1.tree obj = true)
    (hobj : (some obj = ex ∧ ((slot s1.tree obj).opcode = opScope ∨ (slot s1.tree obj).opcode = opMethod)) ∨
      (((slot s1.tree obj).opcode ≠ opScope ∧ (slot s1.tree obj).opcode ≠ opMethod) ∧
        (ParSB s1 obj ∨ (slot s1.tree obj).opcode = opIntScopeBlock)))
    (hl : ∀ x, live s2.tree x = live s1.tree x) (sp : SamePay s1.tree s2.tree)
    (hP : ∀ x, C13.P s2.tree x = if x = arg then obj else C13.P s1.tree x)
    (hNx : ∀ x, Nx s2.tree x = if x = arg then INV else if x = La s1.tree obj ∧ La s1.tree obj ≠ INV then arg else Nx s1.tree x)
    (hFi : ∀ x, Fi s2.tree x = if x = obj ∧ La s1.tree obj = INV then arg else Fi s1.tree x) : Both jf d ex s2 :=
  ⟨h.dir.append w1 w2 hs2 ha ho hobj hl sp hP hNx hFi, fun hb => (h.mth hb).append w1 ha ho hobj hl sp hP hNx hFi,
   fun hb => (h.cs hb).append w1 ho hl sp hP⟩

/-- the `Scope` under construction has no arguments -/
theorem Both.closeBlank {d : Bytes} {s : PState} {c : Nat} (h : Both jf d (some c) s) (ho : (slot s.tree c).opcode = opScope)
    (hf : Fi s.tree c = INV) : Both jf d none s :=
  ⟨h.dir.closeBlank hf, fun hb => (h.mth hb).ofSome (by rw [ho]; decide), h.cs⟩

/-- the `Scope` under construction is complete -/
theorem Both.closeDir {d : Bytes} {s : PState} {c : Nat} (h : Both jf d (some c) s) (ho : (slot s.tree c).opcode = opScope)
    (hc : DShape d s.tree c) : Both jf d none s :=
  ⟨h.dir.close hc, fun hb => (h.mth hb).ofSome (by rw [ho]; decide), h.cs⟩

/-- the `Method` under construction is complete -/
theorem Both.closeMth {d : Bytes} {s : PState} {c : Nat} (h : Both jf d (some c) s) (ho : (slot s.tree c).opcode = opMethod)
    (hc : MthC s.tree c) : Both jf d none s :=
  ⟨h.dir.ofSome (by rw [ho]; decide), fun hb => (h.mth hb).close hc, h.cs⟩

set_option maxRecDepth 20000 in
/-- the row of `Method` is not a deferred one -/
theorem method_not_deferred : ∀ fl, opFlags methodInfoIdx = some fl → hasFlag fl flagDeferParsing = false := by
  decide +kernel

/-- `parseArgs(info, curObj, argOffset)` from argument `j` in the first pass -/
theorem args_stepF {d : Bytes} {f : Nat} (ih : FNP jf d f) {s : PState}
    (info curObj j : Nat) (hS : KP d s) (hc : live s.tree curObj = true) (hinfo : InfoOK info) (hrow : rowFacts info = true)
    (hj : j ≤ argCnt info) (hb : Bud d (2 * (7 - j)) s) (hatt : Att s info curObj) (hprev : PrevOK s info curObj j)
    (hpast : 1 ≤ j → argAt info (j - 1) ≠ argTypeTermArg) (hdx : DIRx jf d s curObj j)
    (hcons : (slot s.tree curObj).opcode = opScope → info = scopeInfo)
    (hconsM : (slot s.tree curObj).opcode = opMethod → info = methodInfoIdx) (hpar : ParSB s curObj)
    (hcN : (slot s.tree curObj).opcode ≠ opIntNamePathOrMethodCall) :
    NPs (parseArgs d (f + 1) info curObj j) s (fun res s' =>
      PostF d (TCur s curObj) (2 * (7 - j)) s s' (res ≠ .failed) (Both jf d none s')) := by
  have h := hS.fp
  have w := h.tree.wf
  unfold parseArgs
  rw [opArgCount_of_info hinfo]
  refine NPs.step (optP_ex _ s) ?_
  have hcnt := rowFacts_cnt hrow
  obtain ⟨r3, r0, r1, r2⟩ := scope_row
  obtain ⟨m4, m0, m1, m2, m3⟩ : argCnt methodInfoIdx = 4 ∧ argAt methodInfoIdx 0 = argTypePkgLen ∧
      argAt methodInfoIdx 1 = argTypeNameString ∧ argAt methodInfoIdx 2 = argTypeByteData ∧
      argAt methodInfoIdx 3 = argTypeTermList := method_row
  have hSM : ¬ ((slot s.tree curObj).opcode = opScope ∧ (slot s.tree curObj).opcode = opMethod) := by
    intro hq; rw [hq.1] at hq; exact absurd hq.2 (by decide)
  by_cases hlt : j < argCnt info
  · rw [if_pos hlt, opArg_of_info hinfo j]
    refine NPs.step (optP_ex _ s) ?_
    have hj8 : j < 8 := by omega
    have hnbl : argAt info j ≠ argTypeByteList := by
      intro hq
      obtain ⟨q1, q2⟩ := rowFacts_bl hrow hj8 hq
      exact hpast q1 q2
    have hfl : argAt info j = argTypeFieldList → C13.P s.tree curObj ≠ INV ∧ live s.tree (La s.tree curObj) = true ∧
        ∃ v, (slot s.tree (La s.tree curObj)).value = .u64 v := by
      intro hq
      obtain ⟨q1, q2⟩ := rowFacts_fl hrow hj8 hq
      obtain ⟨q3, q4⟩ := hprev q1 q2
      refine ⟨?_, q3, q4⟩
      rcases hatt with hp | hno
      · exact hp
      · exact absurd hq (noFL_at hno hj8)
    -- the exception of the invariant while the arguments of a `Scope` or a `Method` are read
    obtain ⟨ex, hexd⟩ : ∃ ex : Option Nat, ex = if (slot s.tree curObj).opcode = opScope ∨ (slot s.tree curObj).opcode = opMethod
        then some curObj else none := ⟨_, rfl⟩
    have hexS : (slot s.tree curObj).opcode = opScope ∨ (slot s.tree curObj).opcode = opMethod → ex = some curObj :=
      fun hq => by rw [hexd, if_pos hq]
    have hexN : ¬ ((slot s.tree curObj).opcode = opScope ∨ (slot s.tree curObj).opcode = opMethod) → ex = none :=
      fun hq => by rw [hexd, if_neg hq]
    have hj3 : (slot s.tree curObj).opcode = opScope → j < 3 := fun hq => by rw [hcons hq, r3] at hlt; exact hlt
    have hj4 : (slot s.tree curObj).opcode = opMethod → j < 4 := fun hq => by rw [hconsM hq, m4] at hlt; exact hlt
    have hmsex : Both jf d ex s := by
      by_cases hq : (slot s.tree curObj).opcode = opScope ∨ (slot s.tree curObj).opcode = opMethod
      · rw [hexS hq]; exact hdx.toSome
      · rw [hexN hq]
        unfold DIRx at hdx
        rw [if_neg (fun e => hq (Or.inl e)), if_neg (fun e => hq (Or.inr e))] at hdx
        exact hdx
    have hexP : ∀ e, ex = some e → e = curObj ∧
        ((slot s.tree curObj).opcode = opScope ∨ (slot s.tree curObj).opcode = opMethod) := by
      intro e he
      by_cases hq : (slot s.tree curObj).opcode = opScope ∨ (slot s.tree curObj).opcode = opMethod
      · rw [hexS hq] at he; cases he; exact ⟨rfl, hq⟩
      · rw [hexN hq] at he; cases he
    have hexL : ex ≠ none → Leaf (argAt info j) ∨ argAt info j = argTypeTermList := by
      intro hne
      by_cases hq : (slot s.tree curObj).opcode = opScope
      · have hi := hcons hq
        have h3 := hj3 hq
        rw [hi]
        have : j = 0 ∨ j = 1 ∨ j = 2 := by omega
        rcases this with e | e | e <;> subst e
        · exact Or.inl (Or.inr r0)
        · exact Or.inl (Or.inl (by rw [r1]; decide))
        · exact Or.inr r2
      · by_cases hqm : (slot s.tree curObj).opcode = opMethod
        · have hi := hconsM hqm
          have h4 := hj4 hqm
          rw [hi]
          have : j = 0 ∨ j = 1 ∨ j = 2 ∨ j = 3 := by omega
          rcases this with e | e | e | e <;> subst e
          · exact Or.inl (Or.inr m0)
          · exact Or.inl (Or.inl (by rw [m1]; decide))
          · exact Or.inl (Or.inl (by rw [m2]; decide))
          · exact Or.inr m3
        · exact absurd (hexN (fun e => e.elim hq hqm)) hne
    have := ih.arg info curObj (argAt info j) ex hS hc hinfo (hb.mono (by omega)) hnbl hfl hmsex hexP hexS hpar hexL hcN
    refine NPs.bind this ?_
    intro ⟨a1, a2⟩ s1 ⟨⟨hS1, g1, hsz1, hok1⟩, hret, hleaf, hbd, hpkn, hsim, hns, htl, hstop, hinfK, hslT, hsof, hns2, hbo, hpkk⟩
    dsimp only at hok1 hret hbd hpkn hsim hns htl hstop hsof hns2 hbo hpkk ⊢
    have h1 := hS1.fp
    have hc1 : live s1.tree curObj = true := g1.oldLive _ hc
    -- the rest of the loop from a state `s2` in which the returned object is the last argument of `curObj`
    have cont : ∀ s2 : PState, KP d s2 → SGrow (TCur s curObj) 2 s s2 → s.scopeStack.size ≤ s2.scopeStack.size →
        (a2 ≠ .failed → a2 ≠ .ok → Both jf d none s2) →
        (a2 = .ok → DIRx jf d s2 curObj (j + 1) ∧ PrevOK s2 info curObj (j + 1)) →
        NPs (if a2 = .ok then parseArgs d f info curObj (j + 1) else pure a2) s2 (fun res s' =>
          PostF d (TCur s curObj) (2 * (7 - j)) s s' (res ≠ .failed) (Both jf d none s')) := by
      intro s2 hS2 g2 hsz2 hgu hnext
      have h2 := hS2.fp
      by_cases hok : a2 = .ok
      · rw [if_pos hok]
        obtain ⟨hdx2, hprev2⟩ := hnext hok
        have hc2 : live s2.tree curObj = true := g2.oldLive _ hc
        have hb2 : Bud d (2 * (7 - (j + 1))) s2 := by
          have := budS hb g2 h2.inv.1 (by omega)
          exact this.mono (by omega)
        have hP2 : C13.P s2.tree curObj = C13.P s.tree curObj := g2.oldP _ hc
        have hatt2 : Att s2 info curObj := by unfold Att at hatt ⊢; rw [hP2]; exact hatt
        have hcons2 : (slot s2.tree curObj).opcode = opScope → info = scopeInfo := fun hq => hcons ((g2.kfr.sK _ hc).1 hq)
        have hconsM2 : (slot s2.tree curObj).opcode = opMethod → info = methodInfoIdx := fun hq => hconsM ((g2.kfr.mK _ hc).1 hq)
        have hpar2 : ParSB s2 curObj := hpar.grow g2 w hc
        have hpast2 : 1 ≤ j + 1 → argAt info (j + 1 - 1) ≠ argTypeTermArg := by
          intro _ hq
          have hq' : argAt info j = argTypeTermArg := hq
          exact hstop (Or.inl hq') hok
        have hcN2 : (slot s2.tree curObj).opcode ≠ opIntNamePathOrMethodCall := fun e => hcN ((kfr_cK g2.kfr _ hc).1 e)
        have := ih.args info curObj (j + 1) hS2 hc2 hinfo hrow (by omega) hb2 hatt2 hprev2 hpast2 hdx2 hcons2 hconsM2 hpar2 hcN2
        refine this.mono ?_
        intro res s3 ⟨hS3, g3, hsz3, hok3⟩
        have g3' : SGrow (TCur s curObj) (2 * (7 - (j + 1))) s2 s3 := by
          have : TCur s2 curObj = TCur s curObj := by unfold TCur; rw [hP2]
          rw [← this]; exact g3
        refine ⟨hS3, ?_, by omega, hok3⟩
        have := g2.trans g3'
        have hcc : 2 + 2 * (7 - (j + 1)) = 2 * (7 - j) := by omega
        rw [hcc] at this
        exact this
      · rw [if_neg hok]
        exact NPs.pure ⟨hS2, g2.weaken (by omega), hsz2, fun hq => hgu hq hok⟩
    cases a1 with
    | none =>
      refine cont s1 hS1 g1 hsz1 ?_ ?_
      · intro hnf hnok
        have hdir1 := hok1 hnf
        by_cases hq : (slot s.tree curObj).opcode = opScope
        · rw [hexS (Or.inl hq)] at hdir1
          have h3 := hj3 hq
          have hi := hcons hq
          have hj01 : j ≤ 1 := by
            have : j = 0 ∨ j = 1 ∨ j = 2 := by omega
            rcases this with e | e | e
            · omega
            · omega
            · exfalso
              obtain ⟨x, hx, _⟩ := htl (by rw [e, hi]; exact r2) hnf
              cases hx
          have hlf : Leaf (argAt info j) := by
            rw [hi]
            have : j = 0 ∨ j = 1 := by omega
            rcases this with e | e <;> subst e
            · exact Or.inr r0
            · exact Or.inl (by rw [r1]; decide)
          unfold DIRx at hdx
          rw [if_pos hq] at hdx
          obtain ⟨_, f0, _⟩ := hdx.2.2.2.1 hj01
          exact hdir1.closeBlank ((g1.kfr.sK _ hc).2 hq) (by rw [(hleaf hlf).2.1]; exact f0)
        · by_cases hqm : (slot s.tree curObj).opcode = opMethod
          · -- no object was returned: the package length of a `Method`, which is not deferred
            exfalso
            have h4 := hj4 hqm
            have hi := hconsM hqm
            have hj0 : j = 0 := by
              have : j = 0 ∨ j = 1 ∨ j = 2 ∨ j = 3 := by omega
              rcases this with e | e | e | e
              · exact e
              · rcases hsof (by rw [e, hi, m1]; decide) with h0 | h0
                · exact absurd h0 hnok
                · exact absurd h0 hnf
              · rcases hsof (by rw [e, hi, m2]; decide) with h0 | h0
                · exact absurd h0 hnok
                · exact absurd h0 hnf
              · obtain ⟨x, hx, _⟩ := htl (by rw [e, hi]; exact m3) hnf
                cases hx
            rcases hpkk (by rw [hj0, hi]; exact m0) with h0 | h0 | ⟨fl, hfl0, hdf⟩
            · exact hnok h0
            · exact hnf h0
            · rw [hi] at hfl0
              rw [method_not_deferred fl hfl0] at hdf; cases hdf
          · rw [hexN (fun e => e.elim hq hqm)] at hdir1; exact hdir1
      · intro hok
        have hdir1 := hok1 (by rw [hok]; decide)
        constructor
        · unfold DIRx
          split
          · rename_i ho1
            have hq : (slot s.tree curObj).opcode = opScope := (g1.kfr.sK _ hc).1 ho1
            rw [hexS (Or.inl hq)] at hdir1
            have h3 := hj3 hq
            have hi := hcons hq
            have hj0 : j = 0 := by
              have : j = 0 ∨ j = 1 ∨ j = 2 := by omega
              rcases this with e | e | e
              · exact e
              · exfalso
                obtain ⟨x, hx⟩ := hsim (by rw [e, hi, r1]; decide) hok
                cases hx
              · exfalso
                exact hstop (Or.inr (by rw [e, hi]; exact r2)) hok
            subst hj0
            have hlf : Leaf (argAt info 0) := by rw [hi]; exact Or.inr r0
            unfold DIRx at hdx
            rw [if_pos hq] at hdx
            obtain ⟨n0, p0, i0, c01, _, _⟩ := hdx
            obtain ⟨_, f0, l0⟩ := c01 (by omega)
            refine ⟨?_, by rw [g1.oldP _ hc]; exact p0, by rw [hinfK (Or.inl hlf)]; exact i0, ?_, fun e => by omega, fun e => by omega⟩
            · rw [(g1.kfr.nameKK curObj hc (by rw [hq]; exact isK_scope)).1]; exact n0
            · intro _
              exact ⟨hdir1, by rw [(hleaf hlf).2.1]; exact f0, by rw [(hleaf hlf).2.2]; exact l0⟩
          · rename_i ho1
            have hq : (slot s.tree curObj).opcode ≠ opScope := fun hq => ho1 ((g1.kfr.sK _ hc).2 hq)
            split
            · rename_i hm1
              have hqm : (slot s.tree curObj).opcode = opMethod := (g1.kfr.mK _ hc).1 hm1
              rw [hexS (Or.inr hqm)] at hdir1
              have h4 := hj4 hqm
              have hi := hconsM hqm
              have hj0 : j = 0 := by
                have : j = 0 ∨ j = 1 ∨ j = 2 ∨ j = 3 := by omega
                rcases this with e | e | e | e
                · exact e
                · exfalso
                  obtain ⟨x, hx⟩ := hsim (by rw [e, hi, m1]; decide) hok
                  cases hx
                · exfalso
                  obtain ⟨x, hx⟩ := hsim (by rw [e, hi, m2]; decide) hok
                  cases hx
                · exfalso
                  exact hstop (Or.inr (by rw [e, hi]; exact m3)) hok
              subst hj0
              have hlf : Leaf (argAt info 0) := by rw [hi]; exact Or.inr m0
              unfold DIRx at hdx
              rw [if_neg hq, if_pos hqm] at hdx
              obtain ⟨p0, i0, c01, _, _, _⟩ := hdx
              obtain ⟨_, f0, l0⟩ := c01 (by omega)
              refine ⟨by rw [g1.oldP _ hc]; exact p0, by rw [hinfK (Or.inl hlf)]; exact i0, ?_, fun e => by omega, fun e => by omega,
                fun e => by omega⟩
              intro _
              exact ⟨hdir1, by rw [(hleaf hlf).2.1]; exact f0, by rw [(hleaf hlf).2.2]; exact l0⟩
            · rename_i hm1
              have hqm : (slot s.tree curObj).opcode ≠ opMethod := fun hq => hm1 ((g1.kfr.mK _ hc).2 hq)
              rw [hexN (fun e => e.elim hq hqm)] at hdir1; exact hdir1
        · intro _ hq
          have hq' : argAt info j = argTypeByteData := hq
          obtain ⟨x, _, hx, _⟩ := hbd hq' hok
          cases hx
    | some x =>
      obtain ⟨q1, q2, q3⟩ := hret x rfl
      obtain ⟨s2, e2, h2, hs2, hsz2, sp2, hl2, hP2, hLa2, hNx2, hFi2⟩ :=
        append_step h1 w (fun y hy => ⟨g1.oldLive y hy, g1.oldP y hy⟩) hc q1 q2 q3
      refine NPs.step e2 ?_
      have g2 : SGrow (TCur s curObj) 2 s s2 := g1.thenAppend hs2 hsz2 hl2 hP2 q1 (Or.inl (Or.inl rfl)) h1.tree.wf hc1 sp2 hNx2 hFi2
      have hS2 : KP d s2 := hS1.append h2 hs2 sp2 hl2
      have hsc2 : s2.scopeStack = s1.scopeStack := by rw [hs2]
      have hx2 : live s2.tree x = true := by rw [hl2]; exact q2
      have hxc : x ≠ curObj := fun e => by rw [e, hc] at q1; cases q1
      have hobjX : (some curObj = ex ∧ ((slot s1.tree curObj).opcode = opScope ∨ (slot s1.tree curObj).opcode = opMethod)) ∨
          (((slot s1.tree curObj).opcode ≠ opScope ∧ (slot s1.tree curObj).opcode ≠ opMethod) ∧
            (ParSB s1 curObj ∨ (slot s1.tree curObj).opcode = opIntScopeBlock)) := by
        by_cases hq : (slot s.tree curObj).opcode = opScope ∨ (slot s.tree curObj).opcode = opMethod
        · refine Or.inl ⟨(hexS hq).symm, ?_⟩
          rcases hq with hq | hq
          · exact Or.inl ((g1.kfr.sK _ hc).2 hq)
          · exact Or.inr ((g1.kfr.mK _ hc).2 hq)
        · exact Or.inr ⟨⟨fun ho1 => hq (Or.inl ((g1.kfr.sK _ hc).1 ho1)), fun ho1 => hq (Or.inr ((g1.kfr.mK _ hc).1 ho1))⟩,
            Or.inl (hpar.grow g1 w hc)⟩
      have dirA : Both jf d ex s1 → Both jf d ex s2 := fun hd1 =>
        hd1.append h1.tree.wf h2.tree.wf hs2 q3 hc1 hobjX hl2 sp2 hP2 hNx2 hFi2
      refine cont s2 hS2 g2 (by rw [hsc2]; exact hsz1) ?_ ?_
      · intro hnf hnok
        have hdir2 := dirA (hok1 hnf)
        by_cases hq : (slot s.tree curObj).opcode = opScope
        · rw [hexS (Or.inl hq)] at hdir2
          have h3 := hj3 hq
          have hi := hcons hq
          have hj2 : j = 2 := by
            have : j = 0 ∨ j = 1 ∨ j = 2 := by omega
            rcases this with e | e | e
            · exfalso
              have := hpkn (by rw [e, hi]; exact r0)
              cases this
            · exfalso
              rcases hsof (by rw [e, hi, r1]; decide) with h0 | h0
              · exact hnok h0
              · exact hnf h0
            · exact e
          subst hj2
          have htl2 : argAt info 2 = argTypeTermList := by rw [hi]; exact r2
          obtain ⟨y, hy, hopy, _⟩ := htl htl2 hnf
          cases hy
          have hsl := hslT htl2
          unfold DIRx at hdx
          rw [if_pos hq] at hdx
          obtain ⟨n0, p0, i0, _, c2, _⟩ := hdx
          obtain ⟨_, hLF, lv, nm⟩ := c2 rfl
          obtain ⟨nop, nfi, off, len, nval, nex⟩ := nm
          have hc1INV : Fi s.tree curObj ≠ INV := live_ne_INV w.size_le lv
          have hfi1 : Fi s1.tree curObj = Fi s.tree curObj := by unfold Fi; rw [hsl _ hc]
          have hla1 : La s1.tree curObj = Fi s.tree curObj := by rw [← hLF]; unfold La; rw [hsl _ hc]
          have hfi2 : Fi s2.tree curObj = Fi s.tree curObj := by
            rw [hFi2, if_neg (fun hcq => hc1INV (by rw [← hla1]; exact hcq.2)), hfi1]
          have hne : Fi s.tree curObj ≠ x := fun e => by rw [← e, lv] at q1; cases q1
          have hnx2 : Nx s2.tree (Fi s.tree curObj) = x := by
            rw [hNx2, if_neg hne, if_pos ⟨hla1.symm, by rw [hla1]; exact hc1INV⟩]
          have hff2 : Fi s2.tree (Fi s.tree curObj) = INV := by
            rw [hFi2, if_neg (fun hcq => hc1INV (by rw [← hla1]; exact hcq.2))]
            have : Fi s1.tree (Fi s.tree curObj) = Fi s.tree (Fi s.tree curObj) := by
              show (slot s1.tree _).firstArgIndex = (slot s.tree _).firstArgIndex
              rw [hsl _ lv]
            rw [this]; exact nfi
          have hpc : Pay (slot s2.tree (Fi s.tree curObj)) = Pay (slot s.tree (Fi s.tree curObj)) := by
            rw [sp2.pay, hsl _ lv]
          have hpo : Pay (slot s2.tree curObj) = Pay (slot s.tree curObj) := by rw [sp2.pay, hsl _ hc]
          apply hdir2.closeDir (by rw [pay_opcode hpo]; exact hq)
          refine ⟨by rw [g2.oldP _ hc]; exact p0, by rw [hfi2]; exact hc1INV, ⟨?_, ?_, ?_, ?_, ?_, ?_, ?_⟩, ?_⟩
          · rw [pay_name hpo]; exact n0
          · rw [pay_info hpo]; exact i0
          · rw [hfi2]; exact hff2
          · rw [hfi2, hnx2, hLa2]
          · rw [hLa2, pay_opcode (sp2.pay x)]; exact hopy
          · rw [hfi2, pay_opcode hpc, nop]; decide
          · exact ⟨off, len, by rw [hfi2, pay_value hpc]; exact nval, nex⟩
          · rw [hfi2, pay_opcode hpc]; exact nop
        · by_cases hqm : (slot s.tree curObj).opcode = opMethod
          · rw [hexS (Or.inr hqm)] at hdir2
            have h4 := hj4 hqm
            have hi := hconsM hqm
            have hj3' : j = 3 := by
              have : j = 0 ∨ j = 1 ∨ j = 2 ∨ j = 3 := by omega
              rcases this with e | e | e | e
              · exfalso
                have := hpkn (by rw [e, hi]; exact m0)
                cases this
              · exfalso
                rcases hsof (by rw [e, hi, m1]; decide) with h0 | h0
                · exact hnok h0
                · exact hnf h0
              · exfalso
                rcases hsof (by rw [e, hi, m2]; decide) with h0 | h0
                · exact hnok h0
                · exact hnf h0
              · exact e
            subst hj3'
            have htl3 : argAt info 3 = argTypeTermList := by rw [hi]; exact m3
            obtain ⟨y, hy, hopy, hinfy⟩ := htl htl3 hnf
            cases hy
            have hsl := hslT htl3
            unfold DIRx at hdx
            rw [if_neg hq, if_pos hqm] at hdx
            obtain ⟨p0, i0, _, _, c3, _⟩ := hdx
            obtain ⟨_, lv1, ⟨no1, nf1, ni1⟩, hn12, lv2, ⟨bo2, bf2, bi2, v, bv2⟩⟩ := c3 rfl
            -- the name `k1`, the flags `k2`, the block `x`
            have hk1INV : Fi s.tree curObj ≠ INV := live_ne_INV w.size_le lv1
            have hk2INV : La s.tree curObj ≠ INV := live_ne_INV w.size_le lv2
            have hfi1 : Fi s1.tree curObj = Fi s.tree curObj := by unfold Fi; rw [hsl _ hc]
            have hla1 : La s1.tree curObj = La s.tree curObj := by unfold La; rw [hsl _ hc]
            have hfi2 : Fi s2.tree curObj = Fi s.tree curObj := by
              rw [hFi2, if_neg (fun hcq => hk2INV (by rw [← hla1]; exact hcq.2)), hfi1]
            have hk12 : Fi s.tree curObj ≠ La s.tree curObj := by
              intro e
              have := wf_Nx_ne_self w lv1
              rw [hn12, ← e] at this; exact this rfl
            have hk1x : Fi s.tree curObj ≠ x := fun e => by rw [← e, lv1] at q1; cases q1
            have hk2x : La s.tree curObj ≠ x := fun e => by rw [← e, lv2] at q1; cases q1
            have hnx1 : Nx s2.tree (Fi s.tree curObj) = La s.tree curObj := by
              rw [hNx2, if_neg hk1x, if_neg (fun hcq => hk12 (by rw [← hla1]; exact hcq.1))]
              have : Nx s1.tree (Fi s.tree curObj) = Nx s.tree (Fi s.tree curObj) := by
                show (slot s1.tree _).nextSiblingIndex = (slot s.tree _).nextSiblingIndex
                rw [hsl _ lv1]
              rw [this]; exact hn12
            have hnx2 : Nx s2.tree (La s.tree curObj) = x := by
              rw [hNx2, if_neg hk2x, if_pos ⟨hla1.symm, by rw [hla1]; exact hk2INV⟩]
            have hnx3 : Nx s2.tree x = INV := by rw [hNx2, if_pos rfl]
            have hk1c : Fi s.tree curObj ≠ curObj := fun e =>
              wf_P_ne_self w lv1 (by rw [((w.lP hc).fi hk1INV).1]; exact e.symm)
            have hk2c : La s.tree curObj ≠ curObj := fun e =>
              wf_P_ne_self w lv2 (by rw [((w.lP hc).la hk2INV).1]; exact e.symm)
            have hf1 : Fi s2.tree (Fi s.tree curObj) = INV := by
              rw [hFi2, if_neg (fun hcq => hk1c hcq.1)]
              have : Fi s1.tree (Fi s.tree curObj) = Fi s.tree (Fi s.tree curObj) := by
                show (slot s1.tree _).firstArgIndex = (slot s.tree _).firstArgIndex
                rw [hsl _ lv1]
              rw [this]; exact nf1
            have hf2 : Fi s2.tree (La s.tree curObj) = INV := by
              rw [hFi2, if_neg (fun hcq => hk2c hcq.1)]
              have : Fi s1.tree (La s.tree curObj) = Fi s.tree (La s.tree curObj) := by
                show (slot s1.tree _).firstArgIndex = (slot s.tree _).firstArgIndex
                rw [hsl _ lv2]
              rw [this]; exact bf2
            have hp1 : Pay (slot s2.tree (Fi s.tree curObj)) = Pay (slot s.tree (Fi s.tree curObj)) := by
              rw [sp2.pay, hsl _ lv1]
            have hp2 : Pay (slot s2.tree (La s.tree curObj)) = Pay (slot s.tree (La s.tree curObj)) := by
              rw [sp2.pay, hsl _ lv2]
            have hpo : Pay (slot s2.tree curObj) = Pay (slot s.tree curObj) := by rw [sp2.pay, hsl _ hc]
            apply hdir2.closeMth (by rw [pay_opcode hpo]; exact hqm)
            exact ⟨Fi s.tree curObj, La s.tree curObj, x, hfi2, hnx1, hnx2, g2.oldLive _ lv1, g2.oldLive _ lv2, hx2,
              ⟨v, by rw [pay_value hp2]; exact bv2⟩, hf1, hf2, by rw [pay_opcode hp1]; exact no1,
              by rw [pay_opcode hp2]; exact bo2, by rw [pay_opcode (sp2.pay x)]; exact hopy,
              by rw [pay_info hp1]; exact ni1, by rw [pay_info hp2]; exact bi2, by rw [pay_info (sp2.pay x)]; exact hinfy,
              by rw [pay_info hpo]; exact i0, hnx3, by rw [g2.oldP _ hc]; exact p0⟩
          · rw [hexN (fun e => e.elim hq hqm)] at hdir2; exact hdir2
      · intro hok
        have hdir2 := dirA (hok1 (by rw [hok]; decide))
        constructor
        · unfold DIRx
          split
          · rename_i ho2
            have hq : (slot s.tree curObj).opcode = opScope := (g2.kfr.sK _ hc).1 ho2
            rw [hexS (Or.inl hq)] at hdir2
            have h3 := hj3 hq
            have hi := hcons hq
            have hj1 : j = 1 := by
              have : j = 0 ∨ j = 1 ∨ j = 2 := by omega
              rcases this with e | e | e
              · exfalso
                have := hpkn (by rw [e, hi]; exact r0)
                cases this
              · exact e
              · exfalso
                exact hstop (Or.inr (by rw [e, hi]; exact r2)) hok
            subst hj1
            have hlf : Leaf (argAt info 1) := by rw [hi]; exact Or.inl (by rw [r1]; decide)
            unfold DIRx at hdx
            rw [if_pos hq] at hdx
            obtain ⟨n0, p0, i0, c01, _, _⟩ := hdx
            obtain ⟨_, f0, l0⟩ := c01 (by omega)
            have hla1 : La s1.tree curObj = INV := by rw [(hleaf hlf).2.2]; exact l0
            obtain ⟨y, hy, nop, nfi, off, len, nval, nex⟩ := hns (by rw [hi]; exact r1) hok
            cases hy
            have hfx : Fi s2.tree curObj = x := by rw [hFi2, if_pos ⟨rfl, hla1⟩]
            refine ⟨?_, by rw [g2.oldP _ hc]; exact p0, ?_, fun e => by omega, ?_, fun e => by omega⟩
            · rw [(g2.kfr.nameKK curObj hc (by rw [hq]; exact isK_scope)).1]; exact n0
            · rw [pay_info (sp2.pay curObj), hinfK (Or.inl hlf)]; exact i0
            · intro _
              refine ⟨hdir2, by rw [hLa2, hfx], by rw [hfx]; exact hx2, ?_⟩
              rw [hfx]
              refine ⟨by rw [pay_opcode (sp2.pay x)]; exact nop, ?_, off, len, by rw [pay_value (sp2.pay x)]; exact nval, nex⟩
              rw [hFi2, if_neg (fun hcq => hxc hcq.1)]; exact nfi
          · rename_i ho2
            have hq : (slot s.tree curObj).opcode ≠ opScope := fun hq => ho2 ((g2.kfr.sK _ hc).2 hq)
            split
            · rename_i hm2
              have hqm : (slot s.tree curObj).opcode = opMethod := (g2.kfr.mK _ hc).1 hm2
              rw [hexS (Or.inr hqm)] at hdir2
              have h4 := hj4 hqm
              have hi := hconsM hqm
              have hj12 : j = 1 ∨ j = 2 := by
                have : j = 0 ∨ j = 1 ∨ j = 2 ∨ j = 3 := by omega
                rcases this with e | e | e | e
                · exfalso
                  have := hpkn (by rw [e, hi]; exact m0)
                  cases this
                · exact Or.inl e
                · exact Or.inr e
                · exfalso
                  exact hstop (Or.inr (by rw [e, hi]; exact m3)) hok
              unfold DIRx at hdx
              rw [if_neg hq, if_pos hqm] at hdx
              obtain ⟨p0, i0, c01, c2, _, _⟩ := hdx
              rcases hj12 with e | e <;> subst e
              · -- the name
                have hlf : Leaf (argAt info 1) := by rw [hi]; exact Or.inl (by rw [m1]; decide)
                obtain ⟨_, f0, l0⟩ := c01 (by omega)
                have hla1 : La s1.tree curObj = INV := by rw [(hleaf hlf).2.2]; exact l0
                obtain ⟨no1, nf1, ni1⟩ := hns2 (by rw [hi]; exact m1) hok x rfl
                have hfx : Fi s2.tree curObj = x := by rw [hFi2, if_pos ⟨rfl, hla1⟩]
                refine ⟨by rw [g2.oldP _ hc]; exact p0, by rw [pay_info (sp2.pay curObj), hinfK (Or.inl hlf)]; exact i0,
                  fun e => by omega, ?_, fun e => by omega, fun e => by omega⟩
                intro _
                refine ⟨hdir2, by rw [hLa2, hfx], by rw [hfx]; exact hx2, ?_⟩
                rw [hfx]
                exact ⟨by rw [pay_opcode (sp2.pay x)]; exact no1, by rw [hFi2, if_neg (fun hcq => hxc hcq.1)]; exact nf1,
                  by rw [pay_info (sp2.pay x)]; exact ni1⟩
              · -- the flags
                have hlf : Leaf (argAt info 2) := by rw [hi]; exact Or.inl (by rw [m2]; decide)
                obtain ⟨_, hLF, lv1, ⟨no1, nf1, ni1⟩⟩ := c2 rfl
                obtain ⟨hoth, hfiL, hlaL⟩ := hleaf hlf
                have hk1INV : Fi s.tree curObj ≠ INV := live_ne_INV w.size_le lv1
                have hk1c : Fi s.tree curObj ≠ curObj := fun e =>
                  wf_P_ne_self w lv1 (by rw [((w.lP hc).fi hk1INV).1]; exact e.symm)
                have hk1x : Fi s.tree curObj ≠ x := fun e => by rw [← e, lv1] at q1; cases q1
                have hla1 : La s1.tree curObj = Fi s.tree curObj := by rw [hlaL, hLF]
                have hfi2 : Fi s2.tree curObj = Fi s.tree curObj := by
                  rw [hFi2, if_neg (fun hcq => hk1INV (by rw [← hla1]; exact hcq.2)), hfiL]
                have hnx1 : Nx s2.tree (Fi s.tree curObj) = x := by
                  rw [hNx2, if_neg hk1x, if_pos ⟨hla1.symm, by rw [hla1]; exact hk1INV⟩]
                have hsl1 : slot s1.tree (Fi s.tree curObj) = slot s.tree (Fi s.tree curObj) := hoth _ lv1 hk1c
                have hp1 : Pay (slot s2.tree (Fi s.tree curObj)) = Pay (slot s.tree (Fi s.tree curObj)) := by
                  rw [sp2.pay, hsl1]
                have hf1 : Fi s2.tree (Fi s.tree curObj) = INV := by
                  rw [hFi2, if_neg (fun hcq => hk1c hcq.1)]
                  have : Fi s1.tree (Fi s.tree curObj) = Fi s.tree (Fi s.tree curObj) := by
                    show (slot s1.tree _).firstArgIndex = (slot s.tree _).firstArgIndex
                    rw [hsl1]
                  rw [this]; exact nf1
                obtain ⟨bo2, bf2, bi2, v, bv2⟩ := hbo (by rw [hi]; exact m2) hok x rfl
                refine ⟨by rw [g2.oldP _ hc]; exact p0, by rw [pay_info (sp2.pay curObj), hinfK (Or.inl hlf)]; exact i0,
                  fun e => by omega, fun e => by omega, ?_, fun e => by omega⟩
                intro _
                rw [hfi2, hLa2]
                exact ⟨hdir2, g2.oldLive _ lv1, ⟨by rw [pay_opcode hp1]; exact no1, hf1, by rw [pay_info hp1]; exact ni1⟩,
                  hnx1, hx2, by rw [pay_opcode (sp2.pay x)]; exact bo2,
                  by rw [hFi2, if_neg (fun hcq => hxc hcq.1)]; exact bf2, by rw [pay_info (sp2.pay x)]; exact bi2,
                  v, by rw [pay_value (sp2.pay x)]; exact bv2⟩
            · rename_i hm2
              have hqm : (slot s.tree curObj).opcode ≠ opMethod := fun hq => hm2 ((g2.kfr.mK _ hc).2 hq)
              rw [hexN (fun e => e.elim hq hqm)] at hdir2; exact hdir2
        · intro _ hq
          have hq' : argAt info j = argTypeByteData := hq
          obtain ⟨y, v, hy, hv⟩ := hbd hq' hok
          cases hy
          rw [hLa2]
          exact ⟨hx2, v, by rw [samePay_value sp2]; exact hv⟩
  · rw [if_neg hlt]
    refine NPs.pure ⟨hS, (SGrow.refl s).weaken (Nat.zero_le _), Nat.le_refl _, fun _ => ?_⟩
    have hje : j = argCnt info := by omega
    unfold DIRx at hdx
    split at hdx
    · rename_i hq
      apply hdx.2.2.2.2.2
      rw [hje, hcons hq, r3]
      omega
    · split at hdx
      · rename_i hqm
        apply hdx.2.2.2.2.2
        rw [hje, hconsM hqm, m4]
        omega
      · exact hdx

/-- `parseObjectArgs(curObj)` in the first pass -/
theorem objArgs_stepF {d : Bytes} {f : Nat} (ih : FNP jf d f) {s : PState} (curObj : Nat) (hS : KP d s)
    (hc : live s.tree curObj = true) (hrow : rowFacts (slot s.tree curObj).infoIndex = true)
    (hatt : Att s (slot s.tree curObj).infoIndex curObj) (hb : Bud d 14 s)
    (hdx : DIRx jf d s curObj 0) (hpar : ParSB s curObj) (hcN : (slot s.tree curObj).opcode ≠ opIntNamePathOrMethodCall) :
    NPs (parseObjectArgs d (f + 1) curObj) s (fun res s' =>
      PostF d (TCur s curObj) 14 s s' (res ≠ .failed) (Both jf d none s')) := by
  have h := hS.fp
  have w := h.tree.wf
  have hcons : (slot s.tree curObj).opcode = opScope → (slot s.tree curObj).infoIndex = scopeInfo := by
    intro hq
    unfold DIRx at hdx
    rw [if_pos hq] at hdx
    exact hdx.2.2.1
  have hconsM : (slot s.tree curObj).opcode = opMethod → (slot s.tree curObj).infoIndex = methodInfoIdx := by
    intro hq
    unfold DIRx at hdx
    rw [if_neg (by rw [hq]; decide), if_pos hq] at hdx
    exact hdx.2.1
  unfold parseObjectArgs
  refine NPs.step (getObj_live hc) ?_
  -- a constant: only the value of `curObj` changes
  have pay : ∀ {res : PRes} {s' : PState}, ((slot s.tree curObj).opcode ≠ opScope ∧ (slot s.tree curObj).opcode ≠ opMethod) →
      FP d s' → PayOnly curObj s s' →
      PostF d (TCur s curObj) 14 s s' ((if res = PRes.shortCircuit then PRes.ok else res) ≠ .failed) (Both jf d none s') := by
    intro res s' hnm h' hp
    have g : SGrow (TCur s curObj) 0 s s' := SGrow.ofPay hp (by
      rcases hpar with hq | _
      · exact Or.inl hq
      · exact Or.inr (Or.inr rfl)) (Or.inl rfl) hc
    have hdir : Both jf d none s := by
      unfold DIRx at hdx
      rw [if_neg hnm.1, if_neg hnm.2] at hdx
      exact hdx
    exact ⟨hS.step h' g (fun x hx => Or.inl (by rw [← hp.scope]; exact hx)), g.weaken (by omega),
      by rw [hp.scope]; exact Nat.le_refl _,
      fun _ => hdir.pay1 hp w h'.tree.wf hc (Or.inr ⟨hnm, Or.inl hpar, hcN⟩) hpar (ExK.none s)⟩
  have num : ∀ n, ((slot s.tree curObj).opcode ≠ opScope ∧ (slot s.tree curObj).opcode ≠ opMethod) →
      NPs (setNumValue d curObj n >>= fun res => (pure (if res = PRes.shortCircuit then PRes.ok else res) : P PRes)) s
        (fun res s' => PostF d (TCur s curObj) 14 s s' (res ≠ .failed) (Both jf d none s')) := by
    intro n hnm
    obtain ⟨res, s', e, h', hp, _, _⟩ := setNumValue_tot h hc n
    exact NPs.step e (NPs.pure (pay hnm h' hp))
  split
  · rename_i ho; exact num 1 (by rw [ho]; exact ⟨by decide, by decide⟩)
  · split
    · rename_i ho; exact num 2 (by rw [ho]; exact ⟨by decide, by decide⟩)
    · split
      · rename_i ho; exact num 4 (by rw [ho]; exact ⟨by decide, by decide⟩)
      · split
        · rename_i ho; exact num 8 (by rw [ho]; exact ⟨by decide, by decide⟩)
        · split
          · rename_i ho
            obtain ⟨res, s', e, h', hp, _, _⟩ := setStringValue_tot h hc
            exact NPs.step e (NPs.pure (pay (by rw [ho]; exact ⟨by decide, by decide⟩) h' hp))
          · have hinfo := h.tree.info curObj hc
            obtain ⟨fl, hfl⟩ := opFlags_of_info hinfo
            rw [hfl]
            refine NPs.step (optP_ex fl s) ?_
            have := ih.args (slot s.tree curObj).infoIndex curObj 0 hS hc hinfo hrow (Nat.zero_le _)
              (hb.mono (by omega)) hatt (fun h0 => by omega) (fun h0 => by omega) hdx hcons hconsM hpar hcN
            refine NPs.bind this ?_
            intro res s' ⟨h', g', hsz', hok'⟩
            refine NPs.pure ⟨h', g', hsz', fun hq => hok' ?_⟩
            intro hf
            rw [hf] at hq
            exact hq (by decide)

/-! ## the next object -/

/-- a fresh object hung under the innermost scope block -/
theorem hang_stepF {d : Bytes} {s2 s5 : PState} {n : Nat} (hS2 : KP d s2) (hdir : Both jf d none s2) (hne : s2.scopeStack.size ≠ 0)
    (h5 : FP d s5) (f5 : Fresh1 n s2 s5) :
    ∃ s6, tree (·.append (topOf s2) n) s5 = .ok ((), s6) ∧ KP d s6 ∧ (DirOK d none s6 ∧ (jf → MthOK (some n) s6) ∧
        (jf → ∀ x, live s6.tree x = true → x ≠ n → (slot s6.tree x).opcode = opIntNamePathOrMethodCall →
          C13.P s6.tree x ≠ INV ∧ ∃ off len, (slot s6.tree x).value = .bytes off len)) ∧
      SGrow (fun x => x = topOf s2 ∨ x = n) 1 s2 s6 ∧ s6.scopeStack = s2.scopeStack ∧ live s6.tree n = true ∧
      C13.P s6.tree n = topOf s2 ∧ Fi s6.tree n = INV ∧ La s6.tree n = INV ∧ Pay (slot s6.tree n) = Pay (slot s5.tree n) ∧
      (slot s6.tree (topOf s2)).opcode = opIntScopeBlock ∧ topOf s2 ≠ INV := by
  have h2 := hS2.fp
  have w2 := h2.tree.wf
  obtain ⟨_, htopl, htopm⟩ := scopeCurrent_top h2 hne
  have hobj5 : live s5.tree n = true := f5.liven
  have hn2 : live s2.tree n = false := f5.nlive
  have g25 : SGrow (fun x => x = topOf s2 ∨ x = n) 1 s2 s5 := SGrow.ofFresh1 f5
  obtain ⟨s6, e6, h6, hs6, hsz6, sp6, hl6, hP6, hLa6, hNx6, hFi6⟩ :=
    append_step h5 w2 (fun x hx => ⟨g25.oldLive x hx, g25.oldP x hx⟩) htopl hn2 hobj5 f5.pn
  have htop5l : live s5.tree (topOf s2) = true := g25.oldLive _ htopl
  have g26 : SGrow (fun x => x = topOf s2 ∨ x = n) 1 s2 s6 :=
    g25.thenAppend hs6 hsz6 hl6 hP6 hn2 (Or.inl (Or.inl rfl)) h5.tree.wf htop5l sp6 hNx6 hFi6
  have hsc6 : s6.scopeStack = s2.scopeStack := by rw [hs6]; show s5.scopeStack = _; rw [f5.scope]
  have hS6 : KP d s6 := hS2.step h6 g26 (fun x hx => Or.inl (by rw [← hsc6]; exact hx))
  have htopn : topOf s2 ≠ n := fun e => by rw [e, hn2] at htopl; cases htopl
  have htop5 : (slot s5.tree (topOf s2)).opcode = opIntScopeBlock := by rw [f5.old _ htopn]; exact hS2.ns _ htopm
  have hdir5 : DirOK d none s5 := hdir.dir.grow (T := fun _ => False) (SGrow.ofFresh1 f5) w2 h5.tree.wf
    (fun _ hq _ => False.elim hq) (ExK.none s2) (fun x h1 h2 _ => by
      by_cases hx : x = n
      · rw [hx]; exact f5.fin
      · rw [f5.livex x hx, h1] at h2; cases h2)
  have hobjT : (some (topOf s2) = (none : Option Nat) ∧ ((slot s5.tree (topOf s2)).opcode = opScope ∨
        (slot s5.tree (topOf s2)).opcode = opMethod)) ∨
      (((slot s5.tree (topOf s2)).opcode ≠ opScope ∧ (slot s5.tree (topOf s2)).opcode ≠ opMethod) ∧
        (ParSB s5 (topOf s2) ∨ (slot s5.tree (topOf s2)).opcode = opIntScopeBlock)) :=
    Or.inr ⟨⟨by rw [htop5]; decide, by rw [htop5]; decide⟩, Or.inr htop5⟩
  have hdir6 : DirOK d none s6 := hdir5.append h5.tree.wf h6.tree.wf hs6 f5.pn htop5l hobjT hl6 sp6 hP6 hNx6 hFi6
  have hmth6 : jf → MthOK (some n) s6 := fun hb => ((hdir.mth hb).freshEx f5 w2).append h5.tree.wf f5.pn htop5l
    (Or.inr ⟨⟨by rw [htop5]; decide, by rw [htop5]; decide⟩, Or.inr htop5⟩) hl6 sp6 hP6 hNx6 hFi6
  have hobj6 : live s6.tree n = true := by rw [hl6]; exact hobj5
  have hfi6 : Fi s6.tree n = INV := by
    rw [hFi6, if_neg (fun hq => htopn hq.1.symm)]; exact f5.fin
  have hcs6 : jf → ∀ x, live s6.tree x = true → x ≠ n → (slot s6.tree x).opcode = opIntNamePathOrMethodCall →
      C13.P s6.tree x ≠ INV ∧ ∃ off len, (slot s6.tree x).value = .bytes off len := by
    intro hb x hx hxn hop
    have hx5 : live s5.tree x = true := by rw [← hl6]; exact hx
    have hx2 : live s2.tree x = true := by rw [← f5.livex x hxn]; exact hx5
    obtain ⟨hp, off, len, hv⟩ := hdir.cs hb x hx2 (by rw [← f5.old x hxn, ← pay_opcode (sp6.pay x)]; exact hop)
    refine ⟨by rw [hP6, if_neg hxn, g25.oldP x hx2]; exact hp, off, len, ?_⟩
    rw [pay_value (sp6.pay x), f5.old x hxn]; exact hv
  refine ⟨s6, e6, hS6, ⟨hdir6, hmth6, hcs6⟩, g26, hsc6, hobj6, by rw [hP6, if_pos rfl], hfi6, (h6.tree.wf.lP hobj6).ends.1 hfi6, sp6.pay n,
    by rw [pay_opcode (sp6.pay _)]; exact htop5, live_ne_INV w2.size_le htopl⟩

/-- `parseNamePathOrMethodCall()` in the first pass: a `NamePathOrMethodCall` object under the innermost scope block -/
theorem namePath_stepF {d : Bytes} (hd : d.size + 268435456 ≤ 4294967296) (f : Nat) {s : PState}
    (hS : KP d s) (hdir : Both jf d none s) (hne : s.scopeStack.size ≠ 0) (hb : Bud d 0 s) :
    NPs (parseNamePathOrMethodCall d (f + 1)) s (fun res s' => PostF d (TTop s) 0 s s' (res ≠ .failed) (Both jf d none s')) := by
  have hd' : d.size + 1024 ≤ 4294967296 := by omega
  have h := hS.fp
  have w := h.tree.wf
  unfold parseNamePathOrMethodCall
  obtain ⟨o0, s1, e1, h1, hR1, hs1⟩ := lex_step (rel_offset d) h
  refine NPs.step e1 ?_
  have hss : s1 = s := by rw [hs1, hR1.2]
  subst hss
  obtain ⟨sr, s2, e2, h2, ⟨hR2, hlead2⟩, hs2⟩ := lex_step (rel_parseNameString' d hd') h
  refine NPs.step e2 ?_
  have ht2 : s2.tree = s1.tree := by rw [hs2]
  have hsc2 : s2.scopeStack = s1.scopeStack := by rw [hs2]
  have hsame2 : s2.allBlocks = s1.allBlocks ∧ s2.tableHandle = s1.tableHandle ∧ s2.streamEnd = s1.streamEnd := by
    rw [hs2]; exact ⟨rfl, rfl, rfl⟩
  have g12 : SGrow (TTop s1) 0 s1 s2 := SGrow.ofLex hs2 hR2.2.1
  have hS2 : KP d s2 := hS.step h2 g12 (fun x hx => Or.inl (by rw [← hsc2]; exact hx))
  split
  · exact NPs.pure ⟨hS2, g12, by rw [hsc2]; exact Nat.le_refl _, fun hq => absurd rfl hq⟩
  · rename_i hok
    have hlt : s1.r.offset < s2.r.offset := by
      rcases hR2.2.2.2 with ⟨_, hlt⟩ | hf
      · exact hlt
      · exact absurd (by rw [hf]; decide) hok
    refine NPs.step (allBlocks_ex s2) ?_
    have hab2 : s2.allBlocks = false := hS2.sk
    rw [hab2]
    simp only [Bool.not_false, ↓reduceIte]
    unfold namePathOrCallObject
    have hb2 : Bud d 16 s2 := hb.consume ht2 hlt h2.inv.1
    obtain ⟨n, s3, e3, h3, f3, hr3, hop3, hinfo3, hidx3⟩ := newObject_step h2 opIntNamePathOrMethodCall
      (hb2.mono (k' := 1) (by omega)).size_lt (by decide) info_const.2.2.2.2.2.2.2.2.2.2.2.1
    refine NPs.step e3 ?_
    have hobj3 : live s3.tree n = true := f3.liven
    obtain ⟨s4, e4, h4, hp4, hsl4, hr4⟩ := upd_step h3 hobj3 (fun o => { o with amlOffset := o0 }) (by keeps_links) Iff.rfl
      (h3.tree.info _ hobj3)
    refine NPs.step e4 ?_
    have hobj4 : live s4.tree n = true := by rw [hp4.links.live]; exact hobj3
    obtain ⟨s5, e5, h5, hp5, hsl5, hr5⟩ := upd_step h4 hobj4 (fun o => { o with value := sliceVal sr.1 }) (by keeps_links) Iff.rfl
      (h4.tree.info _ hobj4)
    refine NPs.step e5 ?_
    have f5 : Fresh1 n s2 s5 := (f3.thenPay hp4).thenPay hp5
    have hne2 : s2.scopeStack.size ≠ 0 := by rw [hsc2]; exact hne
    have hne5 : s5.scopeStack.size ≠ 0 := by rw [f5.scope]; exact hne2
    obtain ⟨esc5, _, _⟩ := scopeCurrent_top h5 hne5
    have htop5 : topOf s5 = topOf s2 := by unfold topOf; rw [f5.scope]
    have htop2 : topOf s2 = topOf s1 := by unfold topOf; rw [hsc2]
    rw [htop5] at esc5
    refine NPs.step esc5 ?_
    refine NPs.step (derefP_some_ex _) ?_
    obtain ⟨s6, e6, hS6, ⟨hdir6, hmth6, hcs6⟩, g26, hsc6, _, hP6n, _, _, hpay6, _, htopINV⟩ := hang_stepF hS2 (hdir.ofTree ht2 hsame2.2.1) hne2 h5 f5
    refine NPs.step e6 ?_
    have hn1 : live s1.tree n = false := by rw [← ht2]; exact f5.nlive
    have hop6 : (slot s6.tree n).opcode ≠ opMethod := by
      rw [pay_opcode hpay6, hsl5, hsl4, hop3]; decide
    have hcsA : jf → CSA s6 := by
      intro hb x hx hop
      by_cases hxn : x = n
      · rw [hxn]
        refine ⟨by rw [hP6n]; exact htopINV, ?_⟩
        rw [pay_value hpay6, hsl5]
        unfold sliceVal
        cases sr.1.data with
        | none => exact ⟨_, _, rfl⟩
        | some off => exact ⟨_, _, rfl⟩
      · exact hcs6 hb x hx hxn hop
    refine NPs.pure ⟨hS6, ?_, by rw [hsc6, hsc2]; exact Nat.le_refl _, fun _ => ⟨hdir6, fun hb => (hmth6 hb).ofSome hop6, hcsA⟩⟩
    refine (SGrow.absorb hs2 hlt g26 (by omega)).mono w ?_
    intro x hx hT
    rcases hT with hT | hT
    · rw [hT, htop2]
    · rw [hT, hn1] at hx; cases hx

/-- `parseNextObject()` in the first pass -/
theorem next_stepF {d : Bytes} (hd : d.size + 268435456 ≤ 4294967296) {f : Nat} (ih : FNP jf d f) {s : PState}
    (hS : KP d s) (hdir : Both jf d none s) (hne : s.scopeStack.size ≠ 0) (hb : Bud d 0 s) :
    NPs (parseNextObject d (f + 1)) s (fun res s' => PostF d (TTop s) 0 s s' (res ≠ .failed) (Both jf d none s')) := by
  have hd' : d.size + 1024 ≤ 4294967296 := by omega
  have h := hS.fp
  have w := h.tree.wf
  unfold parseNextObject
  obtain ⟨o0, s1, e1, h1, hR1, hs1⟩ := lex_step (rel_offset d) h
  refine NPs.step e1 ?_
  have hss : s1 = s := by rw [hs1, hR1.2]
  subst hss
  obtain ⟨opr, s2, e2, h2, hR2, hs2⟩ := lex_step (rel_nextOpcode d hd') h
  refine NPs.step e2 ?_
  have ht2 : s2.tree = s1.tree := by rw [hs2]
  have hsc2 : s2.scopeStack = s1.scopeStack := by rw [hs2]
  have hsame2 : s2.allBlocks = s1.allBlocks ∧ s2.tableHandle = s1.tableHandle ∧ s2.streamEnd = s1.streamEnd := by
    rw [hs2]; exact ⟨rfl, rfl, rfl⟩
  rcases hR2 with ⟨hfail, hop, hr2⟩ | ⟨hok, hbad, hop, _, hlt, _⟩
  · -- not an opcode: a name
    rw [if_neg (by rw [hop]; decide), if_pos hfail]
    have hss2 : s2 = s1 := by rw [hs2, hr2]
    subst hss2
    cases f with
    | zero => unfold parseNamePathOrMethodCall; exact NPs.fuel
    | succ f' => exact namePath_stepF hd f' hS hdir hne hb
  · have g12 : SGrow (TTop s1) 0 s1 s2 := SGrow.ofLex hs2 (by omega)
    have hS2 : KP d s2 := hS.step h2 g12 (fun x hx => Or.inl (by rw [← hsc2]; exact hx))
    have hdir2 : Both jf d none s2 := hdir.ofTree ht2 hsame2.2.1
    by_cases hnoop : opr.1 = opNoop
    · rw [if_pos hnoop]
      exact NPs.pure ⟨hS2, g12, by rw [hsc2]; exact Nat.le_refl _, fun _ => hdir2⟩
    · rw [if_neg hnoop, if_neg (by rw [hok]; decide)]
      obtain ⟨hrow, hinfo, hnf, _⟩ := op_facts hop hbad
      have hb2 : Bud d 16 s2 := hb.consume ht2 hlt h2.inv.1
      obtain ⟨n, s3, e3, h3, f3, hr3, hop3, hinfo3, _⟩ := newObject_step h2 opr.1 (hb2.mono (k' := 1) (by omega)).size_lt hnf hinfo
      have hname3 := (newObject_name e3).1
      refine NPs.step e3 ?_
      have hobj : live s3.tree n = true := f3.liven
      obtain ⟨s4, e4, h4, hp4, hsl4, hr4⟩ := upd_step h3 hobj (fun o => { o with amlOffset := o0 }) (by keeps_links) Iff.rfl
        (h3.tree.info _ hobj)
      refine NPs.step e4 ?_
      have f4 : Fresh1 n s2 s4 := f3.thenPay hp4
      have hop4 : (slot s4.tree n).opcode = opr.1 := by rw [hsl4]; exact hop3
      have hinfo4 : (slot s4.tree n).infoIndex = pOpcodeTableIndex opr.1 true := by rw [hsl4]; exact hinfo3
      have hname4 : (slot s4.tree n).name.b0 = 0 := by
        rw [hsl4]; show (slot s3.tree n).name.b0 = 0
        rw [hname3]; exact hS2.fn n f3.nlive
      have hne2 : s2.scopeStack.size ≠ 0 := by rw [hsc2]; exact hne
      have hne4 : s4.scopeStack.size ≠ 0 := by rw [f4.scope]; exact hne2
      obtain ⟨esc, _, _⟩ := scopeCurrent_top h4 hne4
      have htop4 : topOf s4 = topOf s2 := by unfold topOf; rw [f4.scope]
      have htop2 : topOf s2 = topOf s1 := by unfold topOf; rw [hsc2]
      rw [htop4] at esc
      refine NPs.step esc ?_
      refine NPs.step (derefP_some_ex _) ?_
      obtain ⟨s6, e6, hS6, ⟨hdir6, hmth6, hcs6⟩, g26, hsc6, hobj6, hP6n, hfi6, hla6, hpay6, htopop6, htopINV⟩ := hang_stepF hS2 hdir2 hne2 h4 f4
      refine NPs.step e6 ?_
      have h6 := hS6.fp
      have hop6 : (slot s6.tree n).opcode = opr.1 := by rw [pay_opcode hpay6]; exact hop4
      have hinfo6 : (slot s6.tree n).infoIndex = pOpcodeTableIndex opr.1 true := by rw [pay_info hpay6]; exact hinfo4
      have hn1 : live s1.tree n = false := by rw [← ht2]; exact f4.nlive
      have hnC6 : (slot s6.tree n).opcode ≠ opIntNamePathOrMethodCall := by
        rw [hop6]; intro e; rw [e] at hbad; exact hbad target_ops.2.2.2.2
      have hcsA : jf → CSA s6 := by
        intro hb x hx hop
        by_cases hxn : x = n
        · rw [hxn] at hop; exact absurd hop hnC6
        · exact hcs6 hb x hx hxn hop
      have hb6 : Bud d 14 s6 := by
        have := budS hb2 g26 h6.inv.1 (by omega); exact this.mono (by omega)
      have hdx : DIRx jf d s6 n 0 := by
        unfold DIRx
        split
        · rename_i hq
          refine ⟨by rw [pay_name hpay6]; exact hname4, by rw [hP6n]; exact htopINV, ?_,
            fun _ => ⟨⟨hdir6.weaken _, hmth6, hcsA⟩, hfi6, hla6⟩, fun e => by omega, fun e => by omega⟩
          rw [hinfo6, ← hop6, hq]; rfl
        · split
          · rename_i _ hqm
            refine ⟨by rw [hP6n]; exact htopINV, ?_, fun _ => ⟨⟨hdir6.weaken _, hmth6, hcsA⟩, hfi6, hla6⟩, fun e => by omega,
              fun e => by omega, fun e => by omega⟩
            rw [hinfo6, ← hop6, hqm]; rfl
          · rename_i _ hqm
            exact ⟨hdir6, fun hb => (hmth6 hb).ofSome hqm, hcsA⟩
      have := ih.objArgs (s := s6) n hS6 hobj6 (by rw [hinfo6]; exact hrow) (Or.inl (by rw [hP6n]; exact htopINV)) hb6
        hdx (Or.inr (by rw [hP6n]; exact htopop6)) hnC6
      refine this.mono ?_
      intro res s7 ⟨hS7, g7, hsz7, hok7⟩
      have g67 : SGrow (fun x => x = topOf s2 ∨ x = n) 14 s6 s7 := g7.mono h6.tree.wf (fun x _ hT => by
        rcases hT with hT | hT
        · exact Or.inr hT
        · rw [hP6n] at hT; exact Or.inl hT)
      refine ⟨hS7, ?_, by rw [← hsc2, ← hsc6]; exact hsz7, hok7⟩
      refine (SGrow.absorb hs2 hlt (g26.trans g67) (by omega)).mono w ?_
      intro x hx hT
      rcases hT with hT | hT
      · rw [hT, htop2]
      · rw [hT, hn1] at hx; cases hx

/-- the first-pass functions never end in `.panic` and keep the directive invariant, for every amount of fuel -/
theorem fnp {d : Bytes} (hd : d.size + 268435456 ≤ 4294967296) (f : Nat) : FNP jf d f := by
  induction f with
  | zero =>
    refine ⟨?_, ?_, ?_, ?_, ?_⟩
    · intro s _ _ _; unfold parseTarget; exact NPs.fuel
    · intro s i c a ex _ _ _ _ _ _ _ _ _ _ _ _; unfold parseArg; exact NPs.fuel
    · intro s i c j _ _ _ _ _ _ _ _ _ _ _ _ _ _; unfold parseArgs; exact NPs.fuel
    · intro s c _ _ _ _ _ _ _ _; unfold parseObjectArgs; exact NPs.fuel
    · intro s _ _ _ _; unfold parseNextObject; exact NPs.fuel
  | succ f ih =>
    exact ⟨fun hS hdir hb => target_stepF hd ih hS hdir hb,
      fun i c a ex hS hc hinfo hb hnbl hfl hdir hexP hcS hpar hexL hcN =>
        arg_stepF hd ih i c a ex hS hc hinfo hb hnbl hfl hdir hexP hcS hpar hexL hcN,
      fun i c j hS hc hinfo hrow hj hb hatt hprev hpast hdx hcons hconsM hpar hcN =>
        args_stepF ih i c j hS hc hinfo hrow hj hb hatt hprev hpast hdx hcons hconsM hpar hcN,
      fun c hS hc hrow hatt hb hdx hpar hcN => objArgs_stepF ih c hS hc hrow hatt hb hdx hpar hcN,
      fun hS hdir hne hb => next_stepF hd ih hS hdir hne hb⟩

/-! ## the object list and the whole first pass -/

/-- the root is a parentless scope block -/
def RootSB (s : PState) : Prop := C13.P s.tree 0 = INV ∧ (slot s.tree 0).opcode = opIntScopeBlock

theorem RootSB.grow {c : Nat} {s s' : PState} (h : RootSB s) (g : SGrow T c s s') (hr : live s.tree 0 = true) : RootSB s' :=
  ⟨by rw [g.oldP 0 hr]; exact h.1, (g.kfr.bK 0 hr).2 h.2⟩

theorem RootSB.ofTree {s s' : PState} (h : RootSB s) (ht : s'.tree = s.tree) : RootSB s' := by
  unfold RootSB; rw [ht]; exact h

/-- the root carries the table row of a scope block -/
def RootI (s : PState) : Prop := (slot s.tree 0).infoIndex = pOpcodeTableIndex opIntScopeBlock true

theorem RootI.grow {c : Nat} {s s' : PState} (h : RootI s) (hr : RootSB s) (g : SGrow T c s s') (hl : live s.tree 0 = true) :
    RootI s' := by
  unfold RootI
  rw [g.kfr.infoKK 0 hl (by rw [hr.2]; exact isK_block)]; exact h

theorem RootI.ofTree {s s' : PState} (h : RootI s) (ht : s'.tree = s.tree) : RootI s' := by
  unfold RootI; rw [ht]; exact h

theorem KP.ofTree {d : Bytes} {s s' : PState} (h : KP d s) (hf : FP d s') (ht : s'.tree = s.tree) (hab : s'.allBlocks = s.allBlocks)
    (hst : ∀ x ∈ s'.scopeStack.toList, x ∈ s.scopeStack.toList) : KP d s' := by
  refine ⟨hf, by rw [hab]; exact h.sk, ?_, ?_⟩
  · intro x hx; rw [ht]; exact h.ns x (hst x hx)
  · intro x hx; rw [ht] at hx ⊢; exact h.fn x hx

/-- the invariant of the loops of `parseObjectList` -/
structure LoopInv (jf : Prop) (d : Bytes) (K : Nat) (s : PState) : Prop where
  kp : KP d s
  dir : Both jf d none s
  root : RootSB s
  rooti : jf → RootI s
  bud : Bud d K s

theorem objectListInner_F {d : Bytes} {K : Nat} (hd : d.size + 268435456 ≤ 4294967296) (fuel : Nat) :
    ∀ (n : Nat) {s : PState}, LoopInv jf d K s → s.scopeStack.size ≠ 0 →
      NPs (objectListInner d fuel n) s (fun b s' => KP d s' ∧ (RootSB s' ∧ (jf → RootI s')) ∧ Bud d K s' ∧
        s.scopeStack.size ≤ s'.scopeStack.size ∧ (b = true → Both jf d none s')) := by
  intro n
  induction n with
  | zero => intro s _ _; unfold objectListInner; exact NPs.fuel
  | succ n ih =>
    intro s hI hne
    have h := hI.kp.fp
    unfold objectListInner
    obtain ⟨b, s1, e1, h1, hR1, hs1⟩ := lex_step (rel_eof d) h
    refine NPs.step e1 ?_
    have hss : s1 = s := by rw [hs1, hR1.2]
    subst hss
    by_cases he : b = true
    · rw [if_pos he]
      exact NPs.pure ⟨hI.kp, ⟨hI.root, hI.rooti⟩, hI.bud, Nat.le_refl _, fun _ => hI.dir⟩
    · rw [if_neg he]
      refine NPs.bind ((fnp hd fuel).next hI.kp hI.dir hne (hI.bud.mono (Nat.zero_le _))) ?_
      intro res s2 ⟨hS2, g2, hsz2, hok2⟩
      have hr2 : RootSB s2 := hI.root.grow g2 h.tree.root
      have hri2 : jf → RootI s2 := fun hb => (hI.rooti hb).grow hI.root g2 h.tree.root
      have hb2 : Bud d K s2 := budS hI.bud g2 hS2.fp.inv.1 (Nat.zero_le _)
      by_cases hok : res = .ok
      · rw [if_neg (by rw [hok]; decide)]
        refine (ih ⟨hS2, hok2 (by rw [hok]; decide), hr2, hri2, hb2⟩ (by omega)).mono ?_
        intro b3 s3 ⟨q1, q2, q3, q4, q5⟩
        exact ⟨q1, q2, q3, by omega, q5⟩
      · rw [if_pos hok]
        exact NPs.pure ⟨hS2, ⟨hr2, hri2⟩, hb2, hsz2, fun hq => by cases hq⟩

theorem parseObjectList_F {d : Bytes} {K : Nat} (hd : d.size + 268435456 ≤ 4294967296) (fuel : Nat) :
    ∀ (n : Nat) {s : PState}, LoopInv jf d K s →
      NPs (parseObjectList d fuel n) s (fun res s' => KP d s' ∧ (RootSB s' ∧ (jf → RootI s')) ∧ Bud d K s' ∧ (res ≠ .failed → Both jf d none s' ∧ s'.scopeStack.size = 0)) := by
  intro n
  induction n with
  | zero => intro s _; unfold parseObjectList; exact NPs.fuel
  | succ n ih =>
    intro s hI
    unfold parseObjectList
    have e0 : stackSizes s = .ok ((s.pkgEndStack.size, s.scopeStack.size), s) := rfl
    refine NPs.step e0 ?_
    by_cases hz : s.scopeStack.size = 0
    · rw [if_pos hz]
      exact NPs.pure ⟨hI.kp, ⟨hI.root, hI.rooti⟩, hI.bud, fun _ => ⟨hI.dir, hz⟩⟩
    · rw [if_neg hz]
      refine NPs.bind (objectListInner_F hd fuel fuel hI hz) ?_
      intro b s1 ⟨hS1, ⟨hr1, hri1⟩, hb1, hsz1, hd1⟩
      by_cases hbt : b = true
      · rw [hbt]
        simp only [Bool.not_true, Bool.false_eq_true, ↓reduceIte]
        have hdir1 := hd1 hbt
        have e2 : stackSizes s1 = .ok ((s1.pkgEndStack.size, s1.scopeStack.size), s1) := rfl
        refine NPs.step e2 ?_
        have hne1 : s1.scopeStack.size ≠ 0 := by omega
        have cont : ∀ s2 : PState, LoopInv jf d K s2 →
            NPs (popPkgEnd d >>= fun _ => parseObjectList d fuel n) s2
              (fun res s' => KP d s' ∧ (RootSB s' ∧ (jf → RootI s')) ∧ Bud d K s' ∧ (res ≠ .failed → Both jf d none s' ∧ s'.scopeStack.size = 0)) := by
          intro s2 hI2
          obtain ⟨_, s3, e3, h3, ht3, hsc3, ho3, hsame3⟩ := popPkgEnd_stepS hI2.kp.fp
          refine NPs.step e3 ?_
          refine ih ⟨hI2.kp.ofTree h3 ht3 hsame3.1 (fun x hx => by rw [← hsc3]; exact hx), hI2.dir.ofTree ht3 hsame3.2.1,
            hI2.root.ofTree ht3, fun hb => (hI2.rooti hb).ofTree ht3, ?_⟩
          have := hI2.bud
          unfold Bud at this ⊢; rw [ht3, ho3]; exact this
        dsimp only
        split
        · obtain ⟨s2, e2', h2, hs2⟩ := scopeExit_step hS1.fp hne1
          refine NPs.step e2' ?_
          have ht2 : s2.tree = s1.tree := by rw [hs2]
          refine cont s2 ⟨hS1.ofTree h2 ht2 (by rw [hs2]) ?_, hdir1.ofTree ht2 (by rw [hs2]), hr1.ofTree ht2,
            fun hb => (hri1 hb).ofTree ht2, ?_⟩
          · intro x hx
            rw [hs2] at hx
            simp only [Array.toList_pop] at hx
            exact (List.dropLast_sublist _).subset hx
          · have := hb1
            unfold Bud at this ⊢
            rw [ht2]
            have hr : s2.r = s1.r := by rw [hs2]
            rw [hr]; exact this
        · exact cont s1 ⟨hS1, hdir1, hr1, hri1, hb1⟩
      · have hbf : b = false := by cases b <;> simp_all
        rw [hbf]
        simp only [Bool.not_false, ↓reduceIte]
        exact NPs.pure ⟨hS1, ⟨hr1, hri1⟩, hb1, fun hq => absurd rfl hq⟩

/-- **the first pass establishes `MergeInv`**: from any well-formed pool whose root is a parentless scope block, whose freed
slots carry no name and in which no `Scope` object left behind by an earlier table carries this table's handle, the first
pass never panics, and unless it fails every `Scope` directive of the table has the shape `mergeScopeDirectives` relies on -/
theorem firstPass_mi {d : Bytes} (hd : d.size + 268435456 ≤ 4294967296) {s : PState} (ht : TreeG s.tree)
    (hsz : s.tree.pool.size + 16 * d.size ≤ INV) (fuel handle : Nat) (hroot : RootSB s) (hfn : FN s)
    (hh : ∀ x, live s.tree x = true → (slot s.tree x).opcode = opScope → (slot s.tree x).tableHandle ≠ handle)
    (hmth : jf → MInv s ∧ CSA s) :
    NPs (firstPass d fuel handle) s (fun res s' => FP d s' ∧ s'.tree.pool.size ≤ s.tree.pool.size + 16 * d.size ∧
      (res ≠ .failed → MIJ jf d s' ∧ s'.scopeStack.size = 0)) := by
  unfold firstPass
  let s0 : PState := { s with tableHandle := handle, resolvePasses := 0, mergedScopes := 0, relocatedObjects := 0, allBlocks := false, scopeStack := #[], pkgEndStack := #[] }
  let s1 : PState := { s0 with r := Reader.init d headerLen, streamEnd := d.size }
  have h1 : FP d s1 := ⟨⟨by show (if headerLen > d.size then d.size else headerLen) ≤ d.size; split <;> omega, Nat.le_refl _⟩,
    ht, fun x hx => (by cases hx)⟩
  obtain ⟨b, s2, e2, h2, hs2, ho2⟩ := pushPkgEnd_step h1 d.size
  have e3 : scopeEnter 0 s2 = .ok ((), { s2 with scopeStack := s2.scopeStack.push 0 }) := rfl
  have hinit : ∃ (u : Unit) (s' : PState), init d handle s = .ok (u, s') ∧ s' = s2 := by
    unfold init
    refine bind_ex (s1 := s0) rfl ?_
    refine bind_ex (s1 := s1) rfl ?_
    refine bind_ex e2 ?_
    exact pure_ex rfl
  obtain ⟨_, s', hinit, hs'⟩ := hinit
  rw [hs'] at hinit
  refine NPs.step hinit ?_
  refine NPs.step e3 ?_
  have ht2 : s2.tree = s.tree := by rw [hs2]
  have hsc2 : s2.scopeStack = #[] := by rw [hs2]
  have hth2 : s2.tableHandle = handle := by rw [hs2]
  have hab2 : s2.allBlocks = false := by rw [hs2]
  have h3 : FP d { s2 with scopeStack := s2.scopeStack.push 0 } := by
    refine ⟨h2.inv, h2.tree, ?_⟩
    intro x hx
    show live s2.tree x = true
    rw [hsc2] at hx
    simp at hx
    rw [hx]; exact h2.tree.root
  have hi := h2.inv.1
  have hI : LoopInv jf d (INV - (s.tree.pool.size + 16 * d.size)) { s2 with scopeStack := s2.scopeStack.push 0 } := by
    refine ⟨⟨h3, hab2, ?_, ?_⟩, ⟨?_, ?_, ?_⟩, ?_, ?_, ?_⟩
    · intro x hx
      show (slot s2.tree x).opcode = opIntScopeBlock
      have hx' : x ∈ (s2.scopeStack.push 0).toList := hx
      rw [hsc2] at hx'
      simp at hx'
      rw [hx', ht2]; exact hroot.2
    · intro x hx
      show (slot s2.tree x).name.b0 = 0
      have hx' : live s2.tree x = false := hx
      rw [ht2] at hx' ⊢
      exact hfn x hx'
    · intro x hl ho hth _
      exfalso
      have hl' : live s2.tree x = true := hl
      have ho' : (slot s2.tree x).opcode = opScope := ho
      have hth' : (slot s2.tree x).tableHandle = s2.tableHandle := hth
      rw [ht2] at hl' ho' hth'
      exact hh x hl' ho' (by rw [hth', hth2])
    · intro hb m hl ho _
      have hl' : live s2.tree m = true := hl
      have ho' : (slot s2.tree m).opcode = opMethod := ho
      show MthC s2.tree m
      rw [ht2] at hl' ho' ⊢
      exact (hmth hb).1.mths m hl' ho'
    · intro hb
      exact (hmth hb).2.ofTree (show ({ s2 with scopeStack := s2.scopeStack.push 0 } : PState).tree = s.tree from ht2)
    · show RootSB s2
      exact hroot.ofTree ht2
    · intro hb
      exact RootI.ofTree (s := s) (hmth hb).1.rootI (show ({ s2 with scopeStack := s2.scopeStack.push 0 } : PState).tree = s.tree from ht2)
    · unfold Bud; show s2.tree.pool.size + 16 * (d.size - s2.r.offset) + (INV - (s.tree.pool.size + 16 * d.size)) ≤ INV
      rw [ht2]; omega
  refine (parseObjectList_F hd fuel fuel hI).mono ?_
  intro res s4 ⟨hS4, ⟨hr4, hri4⟩, hb4, hd4⟩
  refine ⟨hS4.fp, ?_, fun hq => ⟨⟨⟨⟨hS4.fp.tree.wf, hS4.fp.tree.root, hS4.fp.tree.info⟩, hr4.1, hr4.2, ?_⟩, ?_⟩, (hd4 hq).2⟩⟩
  · unfold Bud at hb4; omega
  · intro x ⟨hl, ho, hth, hfi⟩
    rcases (hd4 hq).1.dir x hl ho hth (by intro e; cases e) with h0 | h0
    · exact absurd h0 hfi
    · exact h0.shape
  · intro hb
    refine ⟨fun m hl ho => (hd4 hq).1.mth hb m hl ho (by intro e; cases e), ?_, hri4 hb⟩
    intro x hl ho
    exact ((hd4 hq).1.cs hb x hl ho).2

/-! ## the prefix of `ParseAML` -/

/-- `ParseAML` up to and excluding `parseDeferredBlocks`: `init`, the first pass, `connectNamedObjArgs`, the resolve loop -/
def parsePrefix (d : Bytes) (fuel handle : Nat) : P Bool := do
  let r ← firstPass d fuel handle
  if r = .failed then pure false else treePasses d fuel

/-- what `ParseAML` does after the prefix (`false` = the prefix failed) -/
def afterPrefix (d : Bytes) (fuel : Nat) (b : Bool) : P Bool := do
  if !b then pure false
  else if (← parseDeferredBlocks d fuel fuel 0) ≠ .ok then pure false
  else if (← resolveMethodCalls d fuel 0) ≠ .ok then pure false
  else if (← connectNonNamedObjArgs fuel 0) ≠ .ok then pure false
  else pure true

theorem parseAML_prefix (d : Bytes) (fuel handle : Nat) :
    parseAML d fuel handle = parsePrefix d fuel handle >>= afterPrefix d fuel := by
  rw [parseAML_eq]
  unfold parsePrefix
  simp only [bind_assoc]
  congr 1
  funext r
  unfold afterFirstPass
  split
  · simp [afterPrefix]
  · unfold treePasses
    simp only [bind_assoc]
    congr 1
    funext r2
    split
    · simp [afterPrefix]
    · simp only [bind_assoc]
      congr 1

/-- **`ParseAML` up to `parseDeferredBlocks` never panics and hands over `MergeInv`**: the prefix is `init`, the first pass,
`connectNamedObjArgs` and the resolve loop; `b = false` = the prefix made `ParseAML` fail -/
theorem parsePrefix_np {d : Bytes} (hd : d.size + 268435456 ≤ 4294967296) {s : PState} (ht : TreeG s.tree)
    (hsz : s.tree.pool.size + 16 * d.size ≤ INV) (fuel handle : Nat) (hroot : RootSB s) (hfn : FN s)
    (hh : ∀ x, live s.tree x = true → (slot s.tree x).opcode = opScope → (slot s.tree x).tableHandle ≠ handle)
    (hmth : jf → MInv s ∧ CSA s) :
    NPs (parsePrefix d fuel handle) s (fun b s' => TP s' ∧ (b = true → MIJ jf d s' ∧ Inv d s'.r ∧ s'.scopeStack.size = 0 ∧
      s'.tree.pool.size ≤ s.tree.pool.size + 16 * d.size)) := by
  unfold parsePrefix
  refine NPs.bind (firstPass_mi hd ht hsz fuel handle hroot hfn hh hmth) ?_
  intro r s1 ⟨h1, hp1, hmi⟩
  split
  · exact NPs.pure ⟨⟨h1.tree.wf, h1.tree.root, h1.tree.info⟩, fun hq => by cases hq⟩
  · rename_i hr
    refine (treePasses_np d fuel (hmi hr).1).mono ?_
    intro b s2 ⟨m2, sh2⟩
    exact ⟨m2.tp, fun _ => ⟨m2, by rw [sh2.rs.1]; exact h1.inv, by rw [sh2.rs.2.1]; exact (hmi hr).2,
      by rw [sh2.size]; exact hp1⟩⟩

/-- the executable check of the pool hypotheses is sound -/
theorem poolHyp_of_b {s : PState} {handle : Nat} (h : poolHypB s.tree handle = true) :
    RootSB s ∧ FN s ∧
    (∀ x, live s.tree x = true → (slot s.tree x).opcode = opScope → (slot s.tree x).tableHandle ≠ handle) := by
  unfold poolHypB at h
  simp only [Bool.and_eq_true, beq_iff_eq, List.all_eq_true, List.mem_range, Bool.or_eq_true, Bool.not_eq_true', bne_iff_ne,
    ne_eq] at h
  obtain ⟨⟨h1, h2⟩, h3⟩ := h
  refine ⟨⟨h1, h2⟩, ?_, ?_⟩
  · intro x hx
    by_cases hlt : x < s.tree.pool.size
    · rcases (h3 x hlt).1 with q | q
      · rw [hx] at q; cases q
      · exact q
    · have : slot s.tree x = default := by
        unfold slot
        rw [Array.getElem?_eq_none (by omega)]
        rfl
      rw [this]; rfl
  · intro x hl ho hh
    rcases (h3 x (live_lt hl)).2 with (q | q) | q
    · rw [hl] at q; cases q
    · exact q ho
    · exact q hh

end Firefly.AmlParser.F
