import Firefly.Proof.VmmFault
/-! `setupPDTForKernel`: which mappings it requests, with which flags. -/
namespace Firefly.Vmm
open Firefly.Gen.C04

/-- `mp` applied to each (page, frame, flags) of a list in order, stopping at the first error;
an error already present (`err ≠ 0`) is passed through untouched -/
def seqCalls (mp : MapFn) : List (W × W × W) → Nat → St → R Nat
  | [], err, st => .ok (err, st)
  | (p, f, fl) :: rest, err, st =>
    if err ≠ 0 then .ok (err, st) else
    match mp p f fl st with
    | .error e => .error e
    | .ok (err, st) => seqCalls mp rest err st

theorem seqCalls_err (mp : MapFn) (l : List (W × W × W)) (err : Nat) (st : St) (h : err ≠ 0) :
    seqCalls mp l err st = .ok (err, st) := by
  cases l with
  | nil => rfl
  | cons x r => obtain ⟨p, f, fl⟩ := x; simp [seqCalls, h]

theorem seqCalls_append (mp : MapFn) (l1 l2 : List (W × W × W)) (err : Nat) (st : St) :
    seqCalls mp (l1 ++ l2) err st =
      match seqCalls mp l1 err st with
      | .error e => .error e
      | .ok (err, st) => seqCalls mp l2 err st := by
  induction l1 generalizing err st with
  | nil => rfl
  | cons x r ih =>
    obtain ⟨p, f, fl⟩ := x
    simp only [List.cons_append, seqCalls]
    by_cases h : err ≠ 0
    · rw [if_pos h, if_pos h]; exact (seqCalls_err mp l2 err st h).symm
    · rw [if_neg h, if_neg h]
      cases mp p f fl st with
      | error e => rfl
      | ok r' => obtain ⟨err', st'⟩ := r'; exact ih err' st'

/-- the mapping requests of one section: consecutive pages from its first page, consecutive frames
from `(addr - off) >> 12`, all with the section's flags -/
def sectionCalls (off : W) (s : Section) : List (W × W × W) :=
  (run (pageOf s.addr) ((s.addr - off) >>> pageShift) (sectionPageCount s)).map
    fun (p, f) => (p, f, sectionFlags s.flags)

/-- all mapping requests of the visitor: sections below the kernel offset contribute nothing -/
def allSectionCalls (off : W) (secs : List Section) : List (W × W × W) :=
  (secs.filter fun s => !(s.addr < off)).flatMap (sectionCalls off)

theorem pdtMapLoop_eq (mp : MapFn) (flags : W) (n : Nat) (page frame : W) (st : St) :
    pdtMapLoop mp flags n page frame st =
      seqCalls mp ((run page frame n).map fun (p, f) => (p, f, flags)) 0 st := by
  induction n generalizing page frame st with
  | zero => rfl
  | succ n ih =>
    simp only [pdtMapLoop, run, List.map_cons, seqCalls]
    rw [if_neg (by simp)]
    cases mp page frame flags st with
    | error e => rfl
    | ok r =>
      obtain ⟨err, st'⟩ := r
      by_cases h : err ≠ 0
      · simp only; rw [if_pos h, seqCalls_err _ _ _ _ h]
      · simp only; rw [if_neg h]
        have h0 : err = 0 := by omega
        subst h0
        exact ih _ _ _

/-- the visitor issues exactly the requests of `allSectionCalls`, in order -/
theorem visitSectionsG_eq (mp : MapFn) (off : W) (secs : List Section) (err : Nat) (st : St) :
    visitSectionsG mp off secs err st = seqCalls mp (allSectionCalls off secs) err st := by
  induction secs generalizing err st with
  | nil => rfl
  | cons s rest ih =>
    simp only [visitSectionsG]
    by_cases hlt : s.addr < off
    · have : allSectionCalls off (s :: rest) = allSectionCalls off rest := by
        simp [allSectionCalls, hlt]
      rw [if_pos (by simp [hlt]), this]; exact ih err st
    · have hcalls : allSectionCalls off (s :: rest) = sectionCalls off s ++ allSectionCalls off rest := by
        simp [allSectionCalls, hlt]
      rw [hcalls, seqCalls_append]
      by_cases he : err ≠ 0
      · rw [if_pos (by simp [he]), seqCalls_err _ _ _ _ he]; exact ih err st
      · have h0 : err = 0 := by omega
        subst h0
        rw [if_neg (by simp [hlt])]
        rw [pdtMapLoop_eq]
        show _ = match seqCalls mp (sectionCalls off s) 0 st with | .error e => _ | .ok (err, st) => _
        unfold sectionCalls
        cases seqCalls mp ((run (pageOf s.addr) ((s.addr - off) >>> pageShift) (sectionPageCount s)).map
            fun (p, f) => (p, f, sectionFlags s.flags)) 0 st with
        | error e => rfl
        | ok r => obtain ⟨err', st'⟩ := r; exact ih err' st'

/-! ### W^X -/
theorem sectionFlags_cases (sf : W) :
    sectionFlags sf = (if (sf &&& 4#64) = 0#64 then (if (sf &&& 1#64) = 0#64 then 0x8000000000000001#64 else 0x8000000000000003#64)
      else (if (sf &&& 1#64) = 0#64 then 1#64 else 3#64)) := by
  have hx : w elfSectionExecutable = 4#64 := by decide
  have hw : w elfSectionWritable = 1#64 := by decide
  unfold sectionFlags
  rw [hx, hw]
  by_cases h4 : (sf &&& 4#64) = 0#64 <;> by_cases h1 : (sf &&& 1#64) = 0#64 <;> simp [h4, h1] <;> decide

/-- number of pages a section touches when `addr + size` does not wrap -/
theorem sectionPageCount_eq (s : Section) (h1 : 1 ≤ s.size.toNat) (hw : s.addr.toNat + s.size.toNat ≤ 2 ^ 64) :
    sectionPageCount s = (s.addr.toNat + s.size.toNat - 1) / 4096 - s.addr.toNat / 4096 + 1 := by
  have hps : pageSizeW - 1 = 4096#64 - 1 := by decide
  have hend : (s.addr + (s.size - 1)).toNat = s.addr.toNat + s.size.toNat - 1 := by
    rw [BitVec.toNat_add, BitVec.toNat_sub_of_le (by rw [BitVec.le_def]; simpa using h1)]
    simp; omega
  have hp1 : (pageOf s.addr).toNat = s.addr.toNat / 4096 := by
    unfold pageOf; rw [hps, show pageShift = 12 from rfl, Firefly.Bits.toNat_ushr12, Firefly.Bits.toNat_and_mask12]; omega
  have hp2 : (pageOf (s.addr + (s.size - 1))).toNat = (s.addr.toNat + s.size.toNat - 1) / 4096 := by
    unfold pageOf; rw [hps, show pageShift = 12 from rfl, Firefly.Bits.toNat_ushr12, Firefly.Bits.toNat_and_mask12, hend]; omega
  have hle : pageOf s.addr ≤ pageOf (s.addr + (s.size - 1)) := by
    rw [BitVec.le_def, hp1, hp2]; apply Nat.div_le_div_right; omega
  unfold sectionPageCount
  simp only [hle, if_true]
  rw [BitVec.toNat_sub_of_le hle, hp1, hp2]

/-- on success `setupPDTForKernel` has switched to the table whose root is the first frame the
allocator handed out -/
theorem setup_activated (st : St) (off : W) (secs : List Section) (st' : St)
    (h : setupPDTForKernel st off secs = .ok (0, st')) :
    ∃ f rest, st.free = f :: rest ∧ st'.cr3 = frameAddr f := by
  unfold setupPDTForKernel at h
  split at h
  · simp [eAlloc] at h
  · rename_i f st1 halloc
    have hf : ∃ rest, st.free = f :: rest := by
      unfold allocFrame at halloc
      split at halloc
      · cases halloc
      · rename_i f' rest hfree; cases halloc; exact ⟨rest, hfree⟩
    obtain ⟨rest, hfree⟩ := hf
    refine ⟨f, rest, hfree, ?_⟩
    simp only at h
    split at h
    · cases h
    · rename_i err2 st2 _
      split at h
      · rename_i hne; cases h; exact absurd rfl hne
      · split at h
        · cases h
        · rename_i err3 st3 _
          split at h
          · rename_i hne; cases h; exact absurd rfl hne
          · split at h
            · cases h
            · rename_i err4 st4 _
              split at h
              · rename_i hne; cases h; exact absurd rfl hne
              · cases h; rfl

end Firefly.Vmm
