import Firefly.Proof.AmlNestNs
/-!
C11, several tables: each table of the nested fragment is loaded into the pool the earlier tables left.
-/
namespace Firefly.AmlParser.F
open Firefly.AmlLex Firefly.AmlTree Firefly.C13 Firefly.AmlParser Firefly.AmlParser.G Firefly.AmlParser.S
open Firefly.Gen.C12 Firefly.AmlProg Firefly.AmlNs

/-! ## `connectNamedObjArgs` over objects it leaves alone -/

/-- the loop body skips `y`, under any parent -/
def StepSkip (d : Bytes) (t : ObjectTree) (h y : Nat) : Prop :=
  ∀ p s, s.tree = t → s.tableHandle = h → connectNamedStep d p y s = .ok (.inr (), s)

theorem cnq_loop (d : Bytes) {t : ObjectTree} {h p : Nat} (w : WF t) (hp : live t p = true) (N : Nat) :
    ∀ (n : Nat) (l rest : List Nat) (f : Nat) (s : PState), l.length = n → K t p = l ++ rest → s.tree = t → s.tableHandle = h →
      (∀ y ∈ l, QuietAt t h (fun f => connectNamedObjArgs d f y) N ∧ StepSkip d t h y) → n + N + 1 ≤ f →
      ∃ s', connectNamedLoop d f p (lastOf l) s = .ok (PRes.ok, s') ∧ s'.tree = t ∧ s'.tableHandle = h := by
  intro n
  induction n with
  | zero =>
    intro l rest f s hn _ ht hh _ hf
    have : l = [] := List.eq_nil_of_length_eq_zero hn
    subst this
    obtain ⟨f', rfl⟩ : ∃ f', f = f' + 1 := ⟨f - 1, by omega⟩
    exact ⟨s, loop_inv d f' p s, ht, hh⟩
  | succ n ih =>
    intro l rest f s hn hk ht hh hq hf
    rcases list_snoc_cases l with e | ⟨l', y, e⟩
    · rw [e] at hn; cases hn
    · subst e
      obtain ⟨f', rfl⟩ : ∃ f', f = f' + 1 := ⟨f - 1, by omega⟩
      obtain ⟨hqy, hsk⟩ := hq y (by simp)
      have hyl : live t y = true := ((K_mem w hp y).1 (by rw [hk]; simp)).1
      have hyl' : live s.tree y = true := by rw [ht]; exact hyl
      obtain ⟨s1, e1, ht1, hh1⟩ := hqy f' s (by omega) ht hh
      have hyl1 : live s1.tree y = true := by rw [ht1]; exact hyl
      have hpv : Pv t y = lastOf l' := pv_of_kids w hp (pre := l') (post := rest) (by rw [hk]; simp)
      obtain ⟨s2, e2, ht2, hh2⟩ := ih l' (y :: rest) f' s1 (by simpa using hn) (by rw [hk]; simp) ht1 hh1
        (fun z hz => hq z (by simp [hz])) (by omega)
      refine ⟨s2, ?_, ht2, hh2⟩
      rw [lastOf_snoc, cn_iter' d f' (by rw [ht]; exact w) hyl' hyl1 e1 (hsk p s1 ht1 hh1), ht1, hpv]
      exact e2

theorem cnq_node (d : Bytes) {t : ObjectTree} {h : Nat} (w : WF t) {x : Nat} (hx : live t x = true) (N : Nat)
    (hq : ∀ y ∈ K t x, QuietAt t h (fun f => connectNamedObjArgs d f y) N ∧ StepSkip d t h y) :
    QuietAt t h (fun f => connectNamedObjArgs d f x) ((K t x).length + N + 2) := by
  intro f s hf ht hh
  obtain ⟨f', rfl⟩ : ∃ f', f = f' + 1 := ⟨f - 1, by omega⟩
  have hx' : live s.tree x = true := by rw [ht]; exact hx
  show ∃ s', connectNamedObjArgs d (f' + 1) x s = _ ∧ _
  rw [connectNamedObjArgs, bind_run (objectAt_live' hx'), bind_run (derefP_some_ex _), bind_run (getObj_live hx')]
  have : (slot s.tree x).lastArgIndex = lastOf (K t x) := by rw [ht]; exact la_eq_lastOf w hx
  rw [this]
  exact cnq_loop d w hx N (K t x).length (K t x) [] f' s rfl (by simp) ht hh hq (by omega)

/-- a childless object, a scope block, an object of another table: all skipped -/
theorem stepSkip_leaf (d : Bytes) {t : ObjectTree} {h y : Nat} (hl : live t y = true) (hi : InfoOK (slot t y).infoIndex)
    (hfi : Fi t y = INV) : StepSkip d t h y := by
  intro p s ht _
  exact cn_step_leaf d (by rw [ht]; exact hl) (by rw [ht]; exact hi) (by rw [ht]; exact hfi)

theorem stepSkip_sb (d : Bytes) {t : ObjectTree} {h y : Nat} (hl : live t y = true) (hop : (slot t y).opcode = opIntScopeBlock)
    (hinf : (slot t y).infoIndex = pOpcodeTableIndex opIntScopeBlock true) : StepSkip d t h y := by
  intro p s ht _
  exact cn_step_sb d (by rw [ht]; exact hl) (by rw [ht]; exact hop) (by rw [ht]; exact hinf)

theorem stepSkip_other (d : Bytes) {t : ObjectTree} {h y : Nat} (hl : live t y = true) (hi : InfoOK (slot t y).infoIndex)
    (hth : (slot t y).tableHandle ≠ h) : StepSkip d t h y := by
  intro p s ht hh
  obtain ⟨fl, hfl⟩ := opFlags_of_info hi
  have hl' : live s.tree y = true := by rw [ht]; exact hl
  unfold connectNamedStep
  rw [bind_run (getObj_live hl'), ht, hfl, bind_run (optP_ex fl s), bind_run (tableHandle_ex s), hh]
  rw [if_pos (Or.inr (Or.inl hth))]
  rfl

mutual
/-- every object of a connected node of ANOTHER table is skipped by the loop body -/
theorem skip_node {d d' : Bytes} {t : ObjectTree} {h h' : Nat} (w : WF t) (hne : h' ≠ h) :
    ∀ (p : Nat) (n : Node), NodeOK d' t h' true true p n → ∀ y ∈ n.objs, StepSkip d t h y
  | p, .name x c k off seg dv, ok, y, hy => by
    unfold NodeOK at ok
    simp only [Node.objs, List.mem_cons, List.mem_nil_iff, or_false] at hy
    rcases hy with e | e | e <;> rw [e]
    · exact stepSkip_other d ok.lx (by rw [ok.infx]; exact (rowSummary_spec row_8).choose_spec.2.2.2.2.2.1) (by rw [ok.thx]; exact hne)
    · exact stepSkip_leaf d ok.lc (by rw [ok.infc]; exact (rowSummary_spec row_507).choose_spec.2.2.2.2.2.1) (fi_of_nil w ok.lc ok.kc)
    · exact stepSkip_leaf d ok.lk (by rw [ok.infk]; exact dval_info dv) (fi_of_nil w ok.lk ok.kk)
  | p, .dev kd x c sb off pw seg es kids, ok, y, hy => by
    unfold NodeOK at ok
    obtain ⟨dt, _, okk⟩ := ok
    simp only [Node.objs, List.mem_append, List.mem_cons, List.mem_nil_iff, or_false, List.mem_map] at hy
    rcases hy with (e | e | e) | ⟨a, ha, e⟩ | hy
    · rw [e]; exact stepSkip_other d dt.lx (by rw [dt.infx]; exact (rowSummary_spec (row_blk kd)).choose_spec.2.2.2.2.2.1) (by rw [dt.thx]; exact hne)
    · rw [e]; exact stepSkip_leaf d dt.lc (by rw [dt.infc]; exact (rowSummary_spec row_507).choose_spec.2.2.2.2.2.1) (fi_of_nil w dt.lc dt.kc)
    · rw [e]; exact stepSkip_sb d dt.lsb dt.opsb dt.infsb
    · rw [← e]
      have ca := dt.args a ha
      exact stepSkip_leaf d ca.le (by
        rw [ca.inf]
        obtain ⟨_, _, _, _, _, _, _, hi, _⟩ := const_row a.n a.v
        exact hi) (fi_of_nil w ca.le ca.ke)
    · exact skip_nodes w hne sb kids okk y hy
  | p, .leaf kd x c off seg es, ok, y, hy => by
    unfold NodeOK at ok
    simp only [Node.objs, List.mem_cons, List.mem_map] at hy
    rcases hy with e | e | ⟨a, ha, e⟩
    · rw [e]; exact stepSkip_other d ok.lx (by rw [ok.infx]; exact (rowSummary_spec (row_leaf kd)).choose_spec.2.2.2.2.2.1) (by rw [ok.thx]; exact hne)
    · rw [e]; exact stepSkip_leaf d ok.lc (by rw [ok.infc]; exact (rowSummary_spec row_507).choose_spec.2.2.2.2.2.1) (fi_of_nil w ok.lc ok.kc)
    · rw [← e]
      have ca := ok.args a ha
      exact stepSkip_leaf d ca.le (by
        rw [ca.inf]
        obtain ⟨_, _, _, _, _, _, _, hi, _⟩ := const_row a.n a.v
        exact hi) (fi_of_nil w ca.le ca.ke)
theorem skip_nodes {d d' : Bytes} {t : ObjectTree} {h h' : Nat} (w : WF t) (hne : h' ≠ h) :
    ∀ (p : Nat) (ns : List Node), NodesOK d' t h' true p ns → ∀ y ∈ objsL ns, StepSkip d t h y
  | _, [], _, y, hy => by simp [objsL] at hy
  | p, n :: ns, ok, y, hy => by
    unfold NodesOK at ok
    simp only [objsL, List.mem_append] at hy
    rcases hy with hy | hy
    · exact skip_node w hne p n ok.1 y hy
    · exact skip_nodes w hne p ns ok.2 y hy
end

/-! ## the pool after several tables -/

/-- the nodes of one table: its bytes, its handle, its layout -/
structure Grp where
  d : Bytes
  h : Nat
  ns : List Node

def gTops (gs : List Grp) : List Nat := gs.flatMap (fun g => tops true g.ns)
def gObjs (gs : List Grp) : List Nat := gs.flatMap (fun g => objsL g.ns)
def gSize (gs : List Grp) : Nat := (gs.map (fun g => sizeL g.ns)).sum

theorem gSize_mem {gs : List Grp} {g : Grp} (h : g ∈ gs) : sizeL g.ns ≤ gSize gs := by
  unfold gSize
  induction gs with
  | nil => cases h
  | cons a gs ih =>
    simp only [List.map_cons, List.sum_cons]
    rcases List.mem_cons.1 h with e | h'
    · rw [e]; omega
    · have := ih h'; omega

theorem gTops_len (gs : List Grp) : (gTops gs).length ≤ gSize gs := by
  induction gs with
  | nil => simp [gTops, gSize]
  | cons g gs ih =>
    simp only [gTops, gSize, List.flatMap_cons, List.length_append, List.map_cons, List.sum_cons] at ih ⊢
    have : (tops true g.ns).length ≤ sizeL g.ns := by rw [tops_true, List.length_map]; exact length_le_sizeL g.ns
    omega

/-- the pool after the tables `gs`: the default scopes, and under the root the connected nodes of every table, in order -/
structure Pool (t0 t : ObjectTree) (gs : List Grp) : Prop where
  tg : TreeG t
  k0 : K t 0 = K t0 0 ++ gTops gs
  ok : ∀ g ∈ gs, NodesOK g.d t g.h true 0 g.ns
  old : ∀ y, live t0 y = true → live t y = true ∧ Pay (slot t y) = Pay (slot t0 y) ∧ C13.P t y = C13.P t0 y ∧
    (y ≠ 0 → K t y = K t0 y)
  nd : (gObjs gs).Nodup
  new : ∀ y ∈ gObjs gs, live t0 y = false
  sz : t.pool.size ≤ t0.pool.size + 3 * gSize gs

theorem Pool.init {t0 : ObjectTree} (tg : TreeG t0) : Pool t0 t0 [] :=
  ⟨tg, by simp [gTops], fun _ hg => (by cases hg), fun _ hy => ⟨hy, rfl, rfl, fun _ => rfl⟩, (by simp [gObjs]), fun _ hy => (by simp [gObjs] at hy), (by simp [gSize])⟩

section groups
variable {t : ObjectTree} {h : Nat} (W : Nat → Nat → P PRes) (G : Nat → Prop)
  (node : ∀ x N, live t x = true → G x → (∀ y ∈ K t x, QuietAt t h (fun f => W f y) N ∧ G y) →
    QuietAt t h (fun f => W f x) ((K t x).length + N + 2))
include node

/-- a walk that is quiet wherever its guard holds is quiet on the top-level objects of earlier tables -/
theorem groups_quiet {gs : List Grp} (hok : ∀ g ∈ gs, NodesOK g.d t g.h true 0 g.ns) (gn : ∀ g ∈ gs, ∀ y ∈ objsL g.ns, G y) :
    ∀ z ∈ gTops gs, QuietAt t h (fun f => W f z) (7 * gSize gs) ∧ G z := by
  intro z hz
  obtain ⟨g, hg, hzg⟩ := List.mem_flatMap.1 hz
  rw [tops_true] at hzg
  obtain ⟨n, hn, e⟩ := List.mem_map.1 hzg
  have := walk_list W G node 0 g.ns (hok g hg) (gn g hg) n hn
  rw [← e]
  have h1 := sizeN_le hn
  have h2 : 1 ≤ g.ns.length := List.length_pos_of_mem hn
  have h3 := gSize_mem hg
  exact ⟨this.1.mono (by omega), this.2⟩

/-- …and so on the whole pool, from the root -/
theorem pool_root {t0 : ObjectTree} {gs : List Grp} (pl : Pool t0 t gs) (b : Base t0) (g0 : G 0) (gold : ∀ y ∈ K t0 0, G y)
    (gn : ∀ g ∈ gs, ∀ y ∈ objsL g.ns, G y) :
    QuietAt t h (fun f => W f 0) ((K t0 0).length + 8 * gSize gs + 4) := by
  have h0 : live t 0 = true := (pl.old 0 b.root).1
  have hq := groups_quiet W G node pl.ok gn
  have := node 0 (7 * gSize gs + 2) h0 g0 (by
    rw [pl.k0]
    intro z hz
    rcases List.mem_append.1 hz with hz | hz
    · obtain ⟨hzl, hzp⟩ := (K_mem b.wf b.root z).1 hz
      have hz0 : z ≠ 0 := fun e => by
        rw [e, b.rootp] at hzp; exact live_ne_INV b.wf.size_le b.root hzp.symm
      obtain ⟨a1, _, _, a4⟩ := pl.old z hzl
      exact ⟨(walk_leaf W G node a1 (by rw [a4 hz0]; exact (b.kid z hz).1) (gold z hz)).mono (by omega), gold z hz⟩
    · exact ⟨(hq z hz).1.mono (by omega), (hq z hz).2⟩)
  rw [pl.k0, List.length_append] at this
  have hl := gTops_len gs
  exact this.mono (by omega)

end groups

theorem gTops_snoc (gs : List Grp) (g : Grp) : gTops (gs ++ [g]) = gTops gs ++ tops true g.ns := by simp [gTops]
theorem gObjs_snoc (gs : List Grp) (g : Grp) : gObjs (gs ++ [g]) = gObjs gs ++ objsL g.ns := by simp [gObjs]
theorem gSize_snoc (gs : List Grp) (g : Grp) : gSize (gs ++ [g]) = gSize gs + sizeL g.ns := by simp [gSize]

theorem gObjs_live {t0 t : ObjectTree} {gs : List Grp} (pl : Pool t0 t gs) : ∀ y ∈ gObjs gs, live t y = true := by
  intro y hy
  obtain ⟨g, hg, hyg⟩ := List.mem_flatMap.1 hy
  exact NodesOK.live 0 g.ns (pl.ok g hg) y hyg

/-- **`connectNamedObjArgs` on the pool of earlier tables plus what the first pass built from this one** -/
theorem connectNamed_pool (d : Bytes) {t0 : ObjectTree} {s0 s : PState} {gs : List Grp} {ns : List Node} (b : Base t0)
    (pl : Pool t0 s0.tree gs) (hh : ∀ g ∈ gs, g.h ≠ s0.tableHandle) (bl : Built d s0 s 0 d.size ns) (f : Nat)
    (hf : 6 * sizeL ns + 8 * gSize gs + (K t0 0).length + 14 ≤ f) :
    ∃ s1, connectNamedObjArgs d f 0 s = .ok (PRes.ok, s1) ∧ Pool t0 s1.tree (gs ++ [⟨d, s0.tableHandle, ns⟩]) ∧
      s1.tableHandle = s0.tableHandle := by
  have w := bl.fp.tree.wf
  have h00 : live s0.tree 0 = true := (pl.old 0 b.root).1
  have h0 : live s.tree 0 = true := bl.oldl 0 h00
  have hp : (0 : Nat) ∉ objsL ns := fun hm => by have := bl.new 0 hm; rw [h00] at this; cases this
  have pre : CPre d s.tree s0.tableHandle 0 (K t0 0 ++ gTops gs) [] ns :=
    ⟨w, h0, by rw [bl.ktop, pl.k0]; simp, bl.ok, bl.nodup, hp⟩
  obtain ⟨f', rfl⟩ : ∃ f', f = f' + 1 := ⟨f - 1, by omega⟩
  obtain ⟨s1, e1, hs1, cp⟩ := cnl d s0.tableHandle (sizeL ns) ns (Nat.le_refl _) s f' 0 (K t0 0 ++ gTops gs) [] pre bl.th (by omega)
  have htl := tops_len_le false ns
  have hth1 : s1.tableHandle = s0.tableHandle := by rw [hs1]; exact bl.th
  have h01 : live s1.tree 0 = true := by rw [cp.lv]; exact h0
  -- objects of the earlier pool: as they were
  have hold : ∀ y, live s0.tree y = true → y ≠ 0 → SameAt s0.tree s1.tree y := by
    intro y hy hy0
    have a : SameAt s0.tree s.tree y := ⟨by rw [hy, bl.oldl y hy], bl.oldpay y hy, bl.oldpar y hy, bl.oldk y hy hy0⟩
    exact a.trans (cp.frame y (bl.oldl y hy) (fun hm => by have := bl.new y hm; rw [hy] at this; cases this) hy0)
  have gl := gObjs_live pl
  have g0ne : ∀ y ∈ gObjs gs, y ≠ 0 := fun y hy e => by have := pl.new y hy; rw [e, b.root] at this; cases this
  -- the new pool
  have pl1 : Pool t0 s1.tree (gs ++ [⟨d, s0.tableHandle, ns⟩]) := by
    refine ⟨⟨cp.w, ?_, h01⟩, ?_, ?_, ?_, ?_, ?_, ?_⟩
    · intro y hy
      rw [cp.inf]
      exact bl.fp.tree.info y (by rw [← cp.lv]; exact hy)
    · rw [cp.hk, gTops_snoc]; simp
    · intro g hg
      rcases List.mem_append.1 hg with hg | hg
      · exact NodesOK.frame 0 g.ns (pl.ok g hg) (fun y hy => by
          have hyg : y ∈ gObjs gs := List.mem_flatMap.2 ⟨g, hg, hy⟩
          exact hold y (gl y hyg) (g0ne y hyg))
      · have : g = ⟨d, s0.tableHandle, ns⟩ := by simpa using hg
        rw [this]; exact cp.ok
    · intro y hy
      obtain ⟨a1, a2, a3, a4⟩ := pl.old y hy
      by_cases hy0 : y = 0
      · subst hy0
        exact ⟨h01, by rw [cp.fp.1, bl.oldpay 0 a1]; exact a2, by rw [cp.fp.2, bl.oldpar 0 a1]; exact a3, fun hne => absurd rfl hne⟩
      · have sa := hold y a1 hy0
        exact ⟨by rw [sa.1]; exact a1, by rw [sa.2.1]; exact a2, by rw [sa.2.2.1]; exact a3, fun _ => by rw [sa.2.2.2]; exact a4 hy0⟩
    · rw [gObjs_snoc, List.nodup_append]
      refine ⟨pl.nd, bl.nodup, ?_⟩
      intro a ha b' hb' e
      have := bl.new b' hb'
      rw [← e, gl a ha] at this; cases this
    · intro y hy
      rw [gObjs_snoc] at hy
      rcases List.mem_append.1 hy with hy | hy
      · exact pl.new y hy
      · cases hq : live t0 y with
        | false => rfl
        | true => have := bl.new y hy; rw [(pl.old y hq).1] at this; cases this
    · rw [cp.sz, gSize_snoc]
      have h1 := bl.size
      have h2 := pl.sz
      rw [sizeL_progs] at h1
      show s.tree.pool.size ≤ t0.pool.size + 3 * (gSize gs + sizeL ns)
      have : (initState d s0.tableHandle s0).tree = s0.tree := rfl
      omega
  -- the rest of the loop: earlier tables and default scopes are left alone
  have w1 := cp.w
  have hq := groups_quiet (t := s1.tree) (h := s0.tableHandle) (fun f y => connectNamedObjArgs d f y) (StepSkip d s1.tree s0.tableHandle)
    (fun x N hx _ hq => cnq_node d w1 hx N hq) (gs := gs) (fun g hg => pl1.ok g (List.mem_append_left _ hg))
    (fun g hg y hy => skip_nodes w1 (hh g hg) 0 g.ns (pl1.ok g (List.mem_append_left _ hg)) y hy)
  have hleaf : ∀ y ∈ K t0 0, QuietAt s1.tree s0.tableHandle (fun f => connectNamedObjArgs d f y) 2 ∧ StepSkip d s1.tree s0.tableHandle y := by
    intro y hy
    obtain ⟨hyl, hyp⟩ := (K_mem b.wf b.root y).1 hy
    have hy0 : y ≠ 0 := fun e => by rw [e, b.rootp] at hyp; exact live_ne_INV b.wf.size_le b.root hyp.symm
    obtain ⟨a1, a2, _, a4⟩ := pl1.old y hyl
    obtain ⟨k1, _, k3⟩ := b.kid y hy
    have hky : K s1.tree y = [] := by rw [a4 hy0]; exact k1
    have hsk : StepSkip d s1.tree s0.tableHandle y := stepSkip_leaf d a1 (by rw [pay_info a2, k3]; exact info_502) (fi_of_nil w1 a1 hky)
    have := cnq_node d (h := s0.tableHandle) w1 a1 0 (by rw [hky]; intro z hz; cases hz)
    rw [hky] at this
    exact ⟨this, hsk⟩
  have hl := gTops_len gs
  obtain ⟨s2, e2, ht2, hh2⟩ := cnq_loop d w1 h01 (7 * gSize gs + 2) (K t0 0 ++ gTops gs).length (K t0 0 ++ gTops gs) (tops true ns)
    (f' - (tops false ns).length) s1 rfl (by rw [cp.hk]; simp) rfl hth1
    (by
      intro z hz
      rcases List.mem_append.1 hz with hz | hz
      · exact ⟨(hleaf z hz).1.mono (by omega), (hleaf z hz).2⟩
      · exact ⟨(hq z hz).1.mono (by omega), (hq z hz).2⟩)
    (by rw [List.length_append]; omega)
  refine ⟨s2, ?_, by rw [ht2]; exact pl1, hh2⟩
  rw [connectNamedObjArgs, bind_run (objectAt_live' h0), bind_run (derefP_some_ex _), bind_run (getObj_live h0)]
  show connectNamedLoop d f' 0 (La s.tree 0) s = _
  rw [la_eq_lastOf w h0, bl.ktop, pl.k0, e1, e2]

/-- the five walks are quiet on the pool of several tables -/
theorem walks_pool (d : Bytes) (fuel : Nat) {t0 t : ObjectTree} (h : Nat) {gs : List Grp} (pl : Pool t0 t gs) (b : Base t0) :
    let N := (K t0 0).length + 8 * gSize gs + 4
    QuietAt t h (fun f => mergeScopeDirectives d f 0) N ∧ QuietAt t h (fun f => relocateNamedObjects d f 0) N ∧
    QuietAt t h (fun f => parseDeferredBlocks d fuel f 0) N ∧ QuietAt t h (fun f => resolveMethodCalls d f 0) N ∧
    QuietAt t h (fun f => connectNonNamedObjArgs f 0) N := by
  intro N
  have w := pl.tg.wf
  have g0 : Guards t h 0 := by
    obtain ⟨_, a2, _, _⟩ := pl.old 0 b.root
    exact guards_sb (by rw [pay_opcode a2]; exact b.rootop) (by rw [pay_info a2]; exact b.rootinf)
  have gold : ∀ y ∈ K t0 0, Guards t h y := by
    intro y hy
    obtain ⟨hyl, _⟩ := (K_mem b.wf b.root y).1 hy
    obtain ⟨_, a2, _, _⟩ := pl.old y hyl
    obtain ⟨_, k2, k3⟩ := b.kid y hy
    exact guards_sb (by rw [pay_opcode a2]; exact k2) (by rw [pay_info a2]; exact k3)
  have gn : ∀ g ∈ gs, ∀ y ∈ objsL g.ns, Guards t h y := fun g hg => guards_nodes (h' := h) w 0 g.ns (pl.ok g hg)
  refine ⟨?_, ?_, ?_, ?_, ?_⟩
  · exact pool_root (fun f y => mergeScopeDirectives d f y) (fun y => MergeSkip t h y)
      (fun x N hx hg hq => merge_node d w hx hg N (fun y hy => (hq y hy).1)) pl b g0.merge (fun y hy => (gold y hy).merge)
      (fun g hg y hy => (gn g hg y hy).merge)
  · exact pool_root (fun f y => relocateNamedObjects d f y) (fun y => RelocSkip t h y)
      (fun x N hx hg hq => reloc_node d w hx hg N (fun y hy => (hq y hy).1)) pl b g0.reloc (fun y hy => (gold y hy).reloc)
      (fun g hg y hy => (gn g hg y hy).reloc)
  · exact pool_root (fun f y => parseDeferredBlocks d fuel f y) (fun y => DeferSkip t y)
      (fun x N hx hg hq => defer_node d fuel w hx hg N (fun y hy => (hq y hy).1)) pl b g0.defer (fun y hy => (gold y hy).defer)
      (fun g hg y hy => (gn g hg y hy).defer)
  · exact pool_root (fun f y => resolveMethodCalls d f y) (fun y => (slot t y).opcode ≠ opIntNamePathOrMethodCall)
      (fun x N hx _ hq => resolve_node d w hx N hq) pl b g0.op (fun y hy => (gold y hy).op) (fun g hg y hy => (gn g hg y hy).op)
  · exact pool_root (fun f y => connectNonNamedObjArgs f y) (fun y => CnnSkip t y)
      (fun x N hx _ hq => cnn_node w hx N hq) pl b g0.cnn (fun y hy => (gold y hy).cnn) (fun g hg y hy => (gn g hg y hy).cnn)

/-- **`ParseAML` on one more table of the nested fragment**, loaded into the pool earlier tables of the fragment left -/
theorem parseAML_pool {d : Bytes} (hd : d.size + 1024 ≤ 4294967296) (hh : headerLen ≤ d.size) (os : List PObj)
    (hok : okPs os) (hb : BytesAt d headerLen (encPs os)) (hlen : headerLen + (encPs os).length = d.size)
    (s : PState) {t0 : ObjectTree} (b : Base t0) {gs : List Grp} (pl : Pool t0 s.tree gs) (handle : Nat)
    (hhd : ∀ g ∈ gs, g.h ≠ handle) (hsz : s.tree.pool.size + 3 * sizePs os < INV) (fuel : Nat)
    (hfuel : 8 * sizePs os + 8 * gSize gs + (K t0 0).length + closesPs os + 15 ≤ fuel) :
    ∃ s' ns, progs ns = os ∧ parseAML d fuel handle s = .ok (true, s') ∧ Pool t0 s'.tree (gs ++ [⟨d, handle, ns⟩]) := by
  obtain ⟨sF, ns, hp, e1, bl⟩ := firstPass_nest hd hh os hok hb hlen s pl.tg hsz fuel (by omega) handle
  have hsl : sizeL ns = sizePs os := by rw [← hp]; exact (sizeL_progs ns).symm
  obtain ⟨s1, e2, pl1, hh1⟩ := connectNamed_pool d (s0 := initState d handle s) b pl hhd bl fuel (by
    show 6 * sizeL ns + 8 * gSize gs + (K t0 0).length + 14 ≤ fuel; omega)
  have pl1' : Pool t0 s1.tree (gs ++ [⟨d, handle, ns⟩]) := pl1
  have hh1' : s1.tableHandle = handle := hh1
  obtain ⟨q1, q2, q3, q4, q5⟩ := walks_pool d fuel handle pl1' b
  have hN : (K t0 0).length + 8 * gSize (gs ++ [⟨d, handle, ns⟩]) + 4 ≤ fuel := by rw [gSize_snoc]; simp only; omega
  let s1' : PState := { s1 with resolvePasses := 1 }
  obtain ⟨s2, e3, ht2, hh2⟩ := q1 fuel s1' hN rfl hh1'
  obtain ⟨s3, e4, ht3, hh3⟩ := q2 fuel s2 hN ht2 hh2
  have eloop : resolveLoopPasses d fuel fuel s1' = .ok (true, s3) := by
    obtain ⟨n, hn⟩ : ∃ n, fuel = n + 1 := ⟨fuel - 1, by omega⟩
    conv => lhs; arg 3; rw [hn]
    rw [resolveLoopPasses, bind_run e3, if_neg (by decide), bind_run e4, if_neg (by decide), if_pos ⟨rfl, rfl⟩]
    rfl
  obtain ⟨s4, e5, ht4, hh4⟩ := q3 fuel s3 hN ht3 hh3
  obtain ⟨s5, e6, ht5, hh5⟩ := q4 fuel s4 hN ht4 hh4
  obtain ⟨s6, e7, ht6, hh6⟩ := q5 fuel s5 hN ht5 hh5
  refine ⟨s6, ns, hp, ?_, by rw [ht6]; exact pl1'⟩
  rw [parseAML_eq, bind_run e1]
  unfold afterFirstPass
  rw [if_neg (by decide), bind_run e2, if_neg (by decide)]
  have em : (modify fun s => { s with resolvePasses := 1 } : P Unit) s1 = .ok ((), s1') := rfl
  rw [bind_run em, bind_run eloop]
  simp only [Bool.not_true, Bool.false_eq_true, ↓reduceIte]
  rw [bind_run e5, if_neg (by decide), bind_run e6, if_neg (by decide), bind_run e7, if_neg (by decide)]
  rfl

/-! ## the namespace in the pool -/

/-- number of declarations of the groups -/
def gCnt (gs : List Grp) : Nat := (gs.map (fun g => cntL g.ns)).sum

theorem gCnt_mem {gs : List Grp} {g : Grp} (h : g ∈ gs) : cntL g.ns ≤ gCnt gs := by
  unfold gCnt
  induction gs with
  | nil => cases h
  | cons a gs ih =>
    simp only [List.map_cons, List.sum_cons]
    rcases List.mem_cons.1 h with e | h'
    · rw [e]; omega
    · have := ih h'; omega

theorem gObjs_len (gs : List Grp) : 2 * gCnt gs ≤ (gObjs gs).length := by
  induction gs with
  | nil => simp [gObjs, gCnt]
  | cons g gs ih =>
    have := objsL_len g.ns
    simp only [gObjs, gCnt, List.flatMap_cons, List.length_append, List.map_cons, List.sum_cons] at ih ⊢
    omega

/-- the pool holds at least as many objects as the sizes count -/
theorem gObjs_ge {t0 t : ObjectTree} {gs : List Grp} (pl : Pool t0 t gs) : gSize gs ≤ (gObjs gs).length := by
  have hok := pl.ok
  clear pl
  induction gs with
  | nil => simp [gObjs, gSize]
  | cons g gs ih =>
    have := objsL_ge 0 g.ns (hok g (List.mem_cons_self ..))
    have := ih (fun g' hg' => hok g' (List.mem_cons_of_mem _ hg'))
    simp only [gObjs, gSize, List.flatMap_cons, List.length_append, List.map_cons, List.sum_cons] at this ⊢
    omega

theorem flatMap_flatMap_tops (gs : List Grp) {β : Type} (k : Nat → List β) :
    (gTops gs).flatMap k = gs.flatMap (fun g => (g.ns.map Node.x).flatMap k) := by
  induction gs with
  | nil => simp [gTops]
  | cons g gs ih =>
    simp only [gTops, List.flatMap_cons, List.flatMap_append] at ih ⊢
    rw [ih, tops_true]

theorem flatMap_congr' {α β : Type} (l : List α) (f g : α → List β) (h : ∀ a ∈ l, f a = g a) : l.flatMap f = l.flatMap g := by
  induction l with
  | nil => rfl
  | cons a l ih =>
    rw [List.flatMap_cons, List.flatMap_cons, h a (List.mem_cons_self ..), ih (fun b hb => h b (List.mem_cons_of_mem _ hb))]

/-- **the namespace in the pool of several tables**: the default scopes, then the entries of every table's nodes -/
theorem nsOf_pool {t0 t : ObjectTree} {gs : List Grp} (pl : Pool t0 t gs) (b : Base t0) (tables : Array Bytes)
    (htab : ∀ g ∈ gs, tables.getD (g.h - 1) #[] = g.d) (hk0 : 1 ≤ (K t0 0).length) :
    nsOf t tables = flatNs ((K t0 0).map (fun y => ([nameStr (slot t0 y).name], "scope")))
      ((gs.flatMap (fun g => entsL [] g.ns)).map (fun e => (e.1, e.2.1))) := by
  have gl := gObjs_live pl
  have hsz : 2 * gCnt gs + 2 ≤ t.pool.size := by
    cases hk : K t0 0 with
    | nil => rw [hk] at hk0; simp at hk0
    | cons y ys =>
      obtain ⟨hyl, hyp⟩ := (K_mem b.wf b.root y).1 (by rw [hk]; simp)
      have hy0 : y ≠ 0 := fun e => by rw [e, b.rootp] at hyp; exact live_ne_INV b.wf.size_le b.root hyp.symm
      have hnd : (0 :: y :: gObjs gs).Nodup := by
        refine List.nodup_cons.2 ⟨?_, List.nodup_cons.2 ⟨?_, pl.nd⟩⟩
        · intro hm
          rcases List.mem_cons.1 hm with e | hm
          · exact hy0 e.symm
          · have := pl.new 0 hm; rw [b.root] at this; cases this
        · intro hm; have := pl.new y hm; rw [hyl] at this; cases this
      have := nodup_bounded_length t.pool.size _ hnd (by
        intro z hz
        rcases List.mem_cons.1 hz with e | hz
        · rw [e]; exact live_lt (pl.old 0 b.root).1
        · rcases List.mem_cons.1 hz with e | hz
          · rw [e]; exact live_lt (pl.old y hyl).1
          · exact live_lt (gl z hz))
      have hgl := gObjs_len gs
      simp only [List.length_cons] at this
      omega
  obtain ⟨f, hf⟩ : ∃ f, t.pool.size + 1 = f + 1 := ⟨t.pool.size, rfl⟩
  have h00 : ∀ y ∈ gObjs gs, y ≠ 0 := fun y hy e => by have := pl.new y hy; rw [e, b.root] at this; cases this
  have hwalk : nsWalk t tables (f + 1) 0 [] =
      (K t0 0).map (fun y => ([nameStr (slot t0 y).name], "scope", y)) ++ gs.flatMap (fun g => entsL [] g.ns) := by
    rw [nsWalk_eq, pl.k0, List.flatMap_append]
    congr 1
    · apply flatMap_single
      intro y hy
      obtain ⟨hyl, hyp⟩ := (K_mem b.wf b.root y).1 hy
      have hy0 : y ≠ 0 := fun e => by rw [e, b.rootp] at hyp; exact live_ne_INV b.wf.size_le b.root hyp.symm
      obtain ⟨a1, pay, _, a4⟩ := pl.old y hyl
      obtain ⟨k1, k2, _⟩ := b.kid y hy
      obtain ⟨f', hf'⟩ : ∃ f', f = f' + 1 := ⟨f - 1, by omega⟩
      unfold nsStep
      rw [pool_live a1]
      have hop : (slot t y).opcode = 0x1f6 := by rw [pay_opcode pay]; exact k2
      simp only [hop, if_true, List.nil_append]
      rw [hf', nsWalk_leaf t tables f' y _ (by rw [a4 hy0]; exact k1), pay_name pay]
    · rw [flatMap_flatMap_tops]
      apply flatMap_congr'
      intro g hg
      have h1 := gCnt_mem hg
      exact nsStep_list tables (htab g hg) 0 g.ns [] f 0 (pl.ok g hg) (fun y hy => h00 y (List.mem_flatMap.2 ⟨g, hg, hy⟩)) (by omega)
  have hcalls : callWalk t (f + 1) 0 = [] := by
    rw [callWalk_eq, pl.k0, List.flatMap_append, List.append_eq_nil_iff]
    constructor
    · apply flatMap_nil'
      intro y hy
      obtain ⟨hyl, hyp⟩ := (K_mem b.wf b.root y).1 hy
      have hy0 : y ≠ 0 := fun e => by rw [e, b.rootp] at hyp; exact live_ne_INV b.wf.size_le b.root hyp.symm
      obtain ⟨a1, pay, _, a4⟩ := pl.old y hyl
      obtain ⟨k1, k2, _⟩ := b.kid y hy
      obtain ⟨f', hf'⟩ : ∃ f', f = f' + 1 := ⟨f - 1, by omega⟩
      exact callStep_nil f a1 (by rw [pay_opcode pay, k2]; decide) (by rw [hf']; exact callWalk_leaf t f' y (by rw [a4 hy0]; exact k1))
    · rw [flatMap_flatMap_tops]
      apply flatMap_nil'
      intro g hg
      have h1 := gCnt_mem hg
      exact call_list 0 g.ns f (pl.ok g hg) (by omega)
  unfold nsOf flatNs
  rw [hf, hwalk, hcalls]
  simp [List.map_append, List.map_map, Function.comp_def]

/-! ## several tables: the specification side -/

theorem resolveCalls_nop (ns : Namespace) : resolveCalls { ns := ns, pending := [] } = { ns := ns, pending := [] } := by
  unfold resolveCalls
  simp

theorem fold_tables : ∀ (ls : List (List NObj)) (defs ents : List (AmlProg.Path × String)),
    ((defs ++ ents).map (·.1) ++ (ls.flatMap (entsOL [])).map (·.1)).Nodup → (∀ l ∈ ls, oksOf l) →
    (ls.map objsOf).foldl (fun st tbl => resolveCalls (declObjs [] tbl st)) { ns := flatNs defs ents, pending := [] } =
      { ns := flatNs defs (ents ++ ls.flatMap (entsOL [])), pending := [] }
  | [], defs, ents, _, _ => by simp
  | l :: ls, defs, ents, hnd, hok => by
    simp only [List.map_cons, List.foldl_cons, List.flatMap_cons]
    have e2 : (entsOL [] l ++ ls.flatMap (entsOL [])).map (·.1) = (entsOL [] l).map (·.1) ++ (ls.flatMap (entsOL [])).map (·.1) :=
      List.map_append
    rw [List.flatMap_cons, e2] at hnd
    rw [declObjs_nest l [] defs ents (Or.inl rfl) (by
      rw [← List.append_assoc] at hnd
      exact (List.nodup_append.1 hnd).1) (hok l (List.mem_cons_self ..)), resolveCalls_nop]
    rw [fold_tables ls defs (ents ++ entsOL [] l) (by
      have : (defs ++ (ents ++ entsOL [] l)).map (·.1) ++ (ls.flatMap (entsOL [])).map (·.1) =
          (defs ++ ents).map (·.1) ++ ((entsOL [] l).map (·.1) ++ (ls.flatMap (entsOL [])).map (·.1)) := by simp
      rw [this]; exact hnd) (fun l' hl' => hok l' (List.mem_cons_of_mem _ hl'))]
    simp

/-- **the namespace of several tables of the fragment**: the default scopes, then the entries of every table in order -/
theorem namespaceOf_multi (ls : List (List NObj)) (hok : ∀ l ∈ ls, oksOf l)
    (hnd : (defaultNs.objs.map (·.1) ++ (ls.flatMap (entsOL [])).map (·.1)).Nodup) :
    namespaceOf (ls.map objsOf) = flatNs defaultNs.objs (ls.flatMap (entsOL [])) := by
  unfold namespaceOf
  have h0 : ({ ns := defaultNs } : NsSt) = { ns := flatNs defaultNs.objs [], pending := [] } := by
    unfold flatNs defaultNs; simp
  rw [h0, fold_tables ls defaultNs.objs [] (by simpa using hnd) hok]
  simp

/-! ## several tables: the parser side -/

/-- total length of the encodings -/
def totalLen (ls : List (List NObj)) : Nat := (ls.map (fun l => (encPs (psOf l)).length)).sum

/-- the entries of the groups are the entries of the programs -/
def GrpMatch : List Grp → List (List NObj) → Prop
  | [], [] => True
  | g :: gs, l :: ls => progs g.ns = psOf l ∧ GrpMatch gs ls
  | _, _ => False

theorem grp_ents : ∀ (gs : List Grp) (ls : List (List NObj)), GrpMatch gs ls → (∀ l ∈ ls, oksOf l) →
    (gs.flatMap (fun g => entsL [] g.ns)).map (fun e => (e.1, e.2.1)) = ls.flatMap (entsOL [])
  | [], [], _, _ => by simp
  | g :: gs, l :: ls, hm, hok => by
    unfold GrpMatch at hm
    simp only [List.flatMap_cons, List.map_append]
    rw [ents_list l g.ns [] (hok l (List.mem_cons_self ..)) hm.1, grp_ents gs ls hm.2 (fun l' hl' => hok l' (List.mem_cons_of_mem _ hl'))]
  | [], _ :: _, hm, _ => by unfold GrpMatch at hm; cases hm
  | _ :: _, [], hm, _ => by unfold GrpMatch at hm; cases hm

theorem grpMatch_append : ∀ (gs : List Grp) (ls : List (List NObj)) (g : Grp) (l : List NObj), GrpMatch gs ls →
    progs g.ns = psOf l → GrpMatch (gs ++ [g]) (ls ++ [l])
  | [], [], g, l, _, h => by simp [GrpMatch, h]
  | g' :: gs, l' :: ls, g, l, hm, h => by
    unfold GrpMatch at hm
    simp only [List.cons_append, GrpMatch]
    exact ⟨hm.1, grpMatch_append gs ls g l hm.2 h⟩
  | [], _ :: _, _, _, hm, _ => by unfold GrpMatch at hm; cases hm
  | _ :: _, [], _, _, hm, _ => by unfold GrpMatch at hm; cases hm

/-- **loading tables of the fragment one after the other** -/
theorem loadAll_pool {t0 : ObjectTree} (b : Base t0) (hk0 : 1 ≤ (K t0 0).length) (h06 : t0.pool.size ≤ 6) :
    ∀ (ls done : List (List NObj)) (t : ObjectTree) (tables : Array Bytes) (h : Nat) (gs : List Grp),
      Pool t0 t gs → GrpMatch gs done → (∀ g ∈ gs, g.h < h) → (∀ l ∈ ls, oksOf l) →
      gSize gs + totalLen ls ≤ 1000000000 → tables.size + 1 = h → (∀ g ∈ gs, 1 ≤ g.h ∧ tables.getD (g.h - 1) #[] = g.d) →
      ∃ t' gs' tables', loadAll t tables h (ls.map objsOf) = some (nsOf t' tables') ∧ Pool t0 t' gs' ∧ GrpMatch gs' (done ++ ls) ∧
        ∀ g ∈ gs', tables'.getD (g.h - 1) #[] = g.d
  | [], done, t, tables, h, gs, pl, hm, _, _, _, _, htb => ⟨t, gs, tables, by simp [loadAll], pl, by simpa using hm, fun g hg => (htb g hg).2⟩
  | l :: ls, done, t, tables, h, gs, pl, hm, hlt, hok, hlen, hts, htb => by
    have henc : AmlProg.encode (objsOf l) = encPs (psOf l) := by unfold AmlProg.encode; exact enc_nobjs l (hok l (List.mem_cons_self ..))
    generalize hpl : (AmlProg.encode (objsOf l)).toArray = pl'
    have hpll : pl'.toList = encPs (psOf l) := by rw [← hpl, ← henc]
    have hplen : pl'.size = (encPs (psOf l)).length := by rw [← hpll]; simp
    simp only [totalLen, List.map_cons, List.sum_cons] at hlen
    obtain ⟨hn1, hn2⟩ := encPs_len (psOf l) (ok_nobjs l (hok l (List.mem_cons_self ..)))
    let d := mkTable pl'
    have hdsz : d.size = headerLen + pl'.size := mkTable_size pl'
    have hpsz := pl.sz
    have hk5 : (K t0 0).length ≤ 6 := by
      have hnd : (K t0 0).Nodup := b.wf.chain_nodup _ _ (b.wf.kids_chain b.root)
      have := nodup_bounded_length t0.pool.size _ hnd (fun z hz => live_lt ((K_mem b.wf b.root z).1 hz).1)
      omega
    obtain ⟨s', ns, hp, e, pl1⟩ := parseAML_pool (d := d) (by rw [hdsz, hplen]; simp [headerLen]; omega)
      (by rw [hdsz]; omega) (psOf l) (ok_nobjs l (hok l (List.mem_cons_self ..)))
      (by have := mkTable_bytes pl'; rw [hpll] at this; exact this) (by rw [hdsz, hplen])
      { tree := t } b pl h (fun g hg => Nat.ne_of_lt (hlt g hg))
      (by show t.pool.size + 3 * sizePs (psOf l) < INV; rw [show INV = 4294967295 from rfl]; omega)
      (fuelFor d t) (by
        show 8 * sizePs (psOf l) + 8 * gSize gs + (K t0 0).length + closesPs (psOf l) + 15 ≤ fuelFor d t
        unfold fuelFor; rw [hdsz, hplen]
        -- the pool holds the objects of the earlier tables
        have hsz : gSize gs ≤ t.pool.size := by
          have gl := gObjs_live pl
          have := nodup_bounded_length t.pool.size _ pl.nd (fun z hz => live_lt (gl z hz))
          have hgl := gObjs_ge pl
          omega
        omega)
    have hm1 : GrpMatch (gs ++ [⟨d, h, ns⟩]) (done ++ [l]) := grpMatch_append gs done ⟨d, h, ns⟩ l hm hp
    obtain ⟨t', gs', tables', e', pl', hm', htb'⟩ := loadAll_pool b hk0 h06 ls (done ++ [l]) s'.tree (tables.push d) (h + 1) (gs ++ [⟨d, h, ns⟩]) pl1 hm1
      (by
        intro g hg
        rcases List.mem_append.1 hg with hg | hg
        · have := hlt g hg; omega
        · have : g = ⟨d, h, ns⟩ := by simpa using hg
          rw [this]; show h < h + 1; omega)
      (fun l' hl' => hok l' (List.mem_cons_of_mem _ hl'))
      (by rw [gSize_snoc]
          have : sizeL ns = sizePs (psOf l) := by rw [← hp]; exact (sizeL_progs ns).symm
          simp only [totalLen] at hlen ⊢
          show (gSize gs + sizeL ns) + _ ≤ _
          omega)
      (by rw [Array.size_push, hts])
      (by
        intro g hg
        rcases List.mem_append.1 hg with hg | hg
        · obtain ⟨h1, h2⟩ := htb g hg
          have := hlt g hg
          refine ⟨h1, ?_⟩
          rw [← h2]
          simp only [Array.getD_eq_getD_getElem?]
          rw [Array.getElem?_push_lt (by omega), Array.getElem?_eq_getElem (by omega)]
        · have : g = ⟨d, h, ns⟩ := by simpa using hg
          rw [this]
          refine ⟨by show 1 ≤ h; omega, ?_⟩
          show (tables.push d).getD (h - 1) #[] = d
          have : h - 1 = tables.size := by omega
          rw [this]
          simp)
    refine ⟨t', gs', tables', ?_, pl', by simpa using hm', htb'⟩
    simp only [List.map_cons]
    unfold loadAll
    simp only
    rw [hpl]
    show (match parseAML d (fuelFor d t) h { tree := t } with
      | .ok (true, s) => loadAll s.tree (tables.push d) (h + 1) (ls.map objsOf)
      | _ => none) = _
    rw [e]
    exact e'

/-- **C11 for any number of tables of the nested fragment.**  For every sequence of tables, each a program of
the nested fragment (`agrees_nest`: devices, thermal zones, processors, power resources nested to any depth around integer and
string names, events and mutexes), whose declared absolute paths are all distinct and differ
from the default scopes, loaded in order into the default namespace: every table is accepted by the parser (model), and
the namespace read off the final object tree is the namespace ACPI's scoping rules assign to the sequence of tables. -/
theorem agrees_multi (ls : List (List NObj)) (hok : ∀ l ∈ ls, oksOf l)
    (hnd : (defaultNs.objs.map (·.1) ++ (ls.flatMap (entsOL [])).map (·.1)).Nodup) (hlen : totalLen ls ≤ 1000000000) :
    agrees (ls.map objsOf) = true := by
  obtain ⟨t, ht, tg, b, hnames, hsz6⟩ := default_tree
  have hK0 : (K t 0).length = 5 := by
    have := congrArg List.length hnames
    simpa [defaultNs] using this
  obtain ⟨t', gs', tables', e, pl', hm, htb⟩ := loadAll_pool b (by rw [hK0]; decide) (by rw [hsz6]; decide) ls [] t #[] 1 [] (Pool.init tg)
    (by unfold GrpMatch; trivial) (fun g hg => by cases hg) hok (by simpa [gSize] using hlen) rfl (fun g hg => by cases hg)
  have hns := nsOf_pool pl' b tables' htb (by rw [hK0]; decide)
  rw [hnames, grp_ents gs' ls (by simpa using hm) hok] at hns
  have hspec := namespaceOf_multi ls hok hnd
  have hmodel : modelNs (ls.map objsOf) = some (flatNs defaultNs.objs (ls.flatMap (entsOL []))) := by
    unfold modelNs
    rw [ht]
    simp only
    rw [e, hns]
  unfold agrees
  rw [hmodel, hspec]
  simp only [sameNs_refl, Bool.and_true]
  rfl

end Firefly.AmlParser.F
