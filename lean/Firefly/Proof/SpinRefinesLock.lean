import Firefly.Proof.SpinInv
import Firefly.Model.Locked
/-!
# The spin-lock machine refines the abstract lock that C09 builds on

`Model/Locked.lean` (C09) runs lock-protected operations over an *abstract* lock: a field
`holder : Option Nat`, an acquire step enabled only while `holder = none`, micro-steps and the
release only by the holder.  Its lock is not a separate structure, so the interface is restated here
as the minimal labelled transition system `absStep` (and `locked_step_is_abslock` shows that every
step of the Locked machine moves its `holder` by exactly such a step).

Part 1: a forward simulation from the small-step machine of `Model/Spin.lean`, running the
REGENERATED `archAcquireSpinlock` / `TryToAcquire` / `Release`, to `absStep`.  The visible event of
a machine step is read off the lock word alone (`evOf`: 0→nonzero = `acq i`, nonzero→0 = `rel i`,
anything else = `tau`); the abstraction relates the machine state to `holder = the unique Owner`.

Part 2: the composition.  `cstep` is the machine in which every thread loops
`Acquire(); micro-steps of its next operation on the shared object; Release()` with the real lock
program in place of the abstract lock; `proj` maps its states to states of the Locked machine and
every `cstep` is either invisible under `proj` or exactly one `Locked.step`.  Hence every reachable
state of the composed machine projects to a reachable state of the Locked machine, and every safety
theorem about `Locked.Reachable` (C09.linearizable, no_duplicate, …) transfers.
-/
set_option linter.unusedSimpArgs false
set_option linter.unusedVariables false
namespace Firefly.Spin
open Firefly.Gen.C08

/-! ## Part 1: the abstract lock and the forward simulation -/

/-- events of the abstract lock -/
inductive LockEv where
  | acq (i : Nat) | rel (i : Nat) | tau
  deriving DecidableEq, Repr

/-- The abstract lock: `acq i` is enabled only while nobody holds it, `rel i` only for the holder. -/
def absStep (h : Option Nat) : LockEv → Option (Option Nat)
  | .acq i => if h = none then some (some i) else none
  | .rel i => if h = some i then some none else none
  | .tau => some h

/-- traces accepted by the abstract lock -/
def absRun : Option Nat → List LockEv → Option (Option Nat)
  | h, [] => some h
  | h, e :: es => match absStep h e with
    | some h' => absRun h' es
    | none => none

/-- the visible event of a machine step by thread `i`, read off the lock word -/
def evOf (s s' : State) (i : Nat) : LockEv :=
  if s.sh.lock = 0 ∧ s'.sh.lock ≠ 0 then .acq i
  else if s.sh.lock ≠ 0 ∧ s'.sh.lock = 0 then .rel i
  else .tau

/-- abstraction relation: the abstract holder is the (unique) owner -/
def Abs (s : State) : Option Nat → Prop
  | none => ∀ (j : Nat) (t : Thread), s.threads[j]? = some t → ¬ Owner t
  | some i => ∃ t, s.threads[i]? = some t ∧ Owner t

theorem abs_init (n : Nat) : Abs (init n) none := by
  intro j t h ho
  simp [init, List.getElem?_replicate] at h
  rw [← h.2] at ho
  simp [Owner] at ho

/-- on states satisfying the invariant the abstraction is a function of the state -/
theorem abs_unique {cfg : Config} {s : State} (hI : Inv cfg s) {h h' : Option Nat}
    (a : Abs s h) (a' : Abs s h') : h = h' := by
  cases h <;> cases h' <;> simp only [Abs] at a a'
  · rfl
  · obtain ⟨t, ht, ho⟩ := a'; exact absurd ho (a _ t ht)
  · obtain ⟨t, ht, ho⟩ := a; exact absurd ho (a' _ t ht)
  · obtain ⟨t, ht, ho⟩ := a; obtain ⟨t', ht', ho'⟩ := a'
    rw [hI.uniq _ _ t t' ht ht' ho ho']

/-- **Forward simulation.** Every step of every thread of the spin-lock machine is matched by the
abstract lock: the winning exchange (`XCHGL` reading 0 / successful `TryToAcquire` swap) by
`acq i`, the store of `Release` by `rel i`, everything else (spinning, yields, failed tries,
register moves, calls and returns, critical-section work) by a stutter. -/
theorem sim_step {cfg : Config} {s s' : State} {i : Nat} {ch : Choice} {h : Option Nat}
    (hI : Inv cfg s) (ha : Abs s h) (hs : step cfg s i ch = some s') :
    ∃ h', absStep h (evOf s s' i) = some h' ∧ Abs s' h' := by
  obtain ⟨t, sh', t', hi, hts, rfl⟩ := step_cases hs
  obtain ⟨_, hlock, _⟩ := tstep_local cfg s.sh sh' t t' ch (hI.loc i t hi) hI.word (hI.own0 i t hi)
    (fun v hv => hI.cs i t v hi hv) hts
  have hself : (s.threads.set i t')[i]? = some t' := get_set_self hi
  have hother : ∀ j, j ≠ i → (s.threads.set i t')[j]? = s.threads[j]? := fun j hne => get_set_ne (Ne.symm hne)
  rcases hlock with ⟨hl, ho⟩ | ⟨h0, h1, hno, ho'⟩ | ⟨h0', hot, hno'⟩
  · -- the lock word and ownership are unchanged: stutter
    have hev : evOf s { sh := sh', threads := s.threads.set i t' } i = .tau := by
      simp only [evOf, hl]
      rcases hI.word with hw | hw <;> simp [hw]
    refine ⟨h, by rw [hev]; rfl, ?_⟩
    cases h with
    | none =>
      intro j tj hj hoj
      by_cases hji : j = i
      · subst hji; rw [hself] at hj; cases hj; exact ha j t hi (ho.1 hoj)
      · rw [hother j hji] at hj; exact ha j tj hj hoj
    | some k =>
      obtain ⟨tk, hk, hok⟩ := ha
      by_cases hki : k = i
      · subst hki; rw [hi] at hk; cases hk; exact ⟨t', hself, ho.2 hok⟩
      · exact ⟨tk, by rw [hother k hki]; exact hk, hok⟩
  · -- 0 → 1 together with ownership: abstract acquire
    have hev : evOf s { sh := sh', threads := s.threads.set i t' } i = .acq i := by
      simp [evOf, h0, h1]
    have hn : h = none := by
      cases h with
      | none => rfl
      | some k =>
        obtain ⟨tk, hk, hok⟩ := ha
        have := hI.own0 k tk hk hok
        omega
    subst hn
    exact ⟨some i, by rw [hev]; simp [absStep], t', hself, ho'⟩
  · -- the owner's store of 0: abstract release
    have h1 : s.sh.lock = 1 := hI.own0 i t hi hot
    have hev : evOf s { sh := sh', threads := s.threads.set i t' } i = .rel i := by
      simp [evOf, h0', h1]
    have hh : h = some i := abs_unique hI ha (show Abs s (some i) from ⟨t, hi, hot⟩)
    subst hh
    refine ⟨none, by rw [hev]; simp [absStep], ?_⟩
    intro j tj hj hoj
    by_cases hji : j = i
    · subst hji; rw [hself] at hj; cases hj; exact hno' hoj
    · rw [hother j hji] at hj
      exact hji (hI.uniq j i tj t hj hi hoj hot)

/-- executions of the spin-lock machine with their visible traces -/
inductive Exec (cfg : Config) (s0 : State) : List LockEv → State → Prop where
  | nil : Exec cfg s0 [] s0
  | snoc {s s' : State} {evs : List LockEv} (i : Nat) (ch : Choice) :
      Exec cfg s0 evs s → step cfg s i ch = some s' → Exec cfg s0 (evs ++ [evOf s s' i]) s'

theorem absRun_append (h : Option Nat) (a b : List LockEv) (h1 : Option Nat) (ha : absRun h a = some h1) :
    absRun h (a ++ b) = absRun h1 b := by
  induction a generalizing h with
  | nil => simp [absRun] at ha; subst ha; rfl
  | cons e es ih =>
    simp only [absRun, List.cons_append] at ha ⊢
    split at ha
    · rename_i h2 he; exact ih h2 ha
    · cases ha

theorem exec_reachable {cfg : Config} {n : Nat} {evs : List LockEv} {s : State}
    (h : Exec cfg (init n) evs s) : Reachable cfg n s := by
  induction h with
  | nil => exact Reachable.init
  | snoc i ch _ hs ih => exact Reachable.step i ch ih hs

/-- **Trace inclusion.** The visible trace of every execution of the spin-lock machine (any number
of threads, any schedule) is a trace of the abstract lock, and the abstract lock ends up held by
the unique owner. -/
theorem exec_refines {cfg : Config} {n : Nat} {evs : List LockEv} {s : State}
    (h : Exec cfg (init n) evs s) : ∃ hd, absRun none evs = some hd ∧ Abs s hd := by
  induction h with
  | nil => exact ⟨none, rfl, abs_init n⟩
  | snoc i ch hex hs ih =>
    obtain ⟨hd, hrun, habs⟩ := ih
    obtain ⟨hd', hstep, habs'⟩ := sim_step (reachable_inv (exec_reachable hex)) habs hs
    refine ⟨hd', ?_, habs'⟩
    rw [absRun_append none _ _ hd hrun]
    simp [absRun, hstep]

/-- critical-section work and `Release` are done only by the abstract holder -/
theorem held_is_abs_holder {cfg : Config} {s : State} (hI : Inv cfg s) {h : Option Nat} (ha : Abs s h)
    {i : Nat} {t : Thread} (hi : s.threads[i]? = some t) (hh : t.held = true) : h = some i :=
  abs_unique hI ha (show Abs s (some i) from ⟨t, hi, Or.inl hh⟩)

/-- every step of C09's Locked machine moves its `holder` field by a step of the abstract lock:
an acquire (from `none`), a release (by the holder), or a micro-step of the holder. -/
theorem locked_step_is_abslock {σ ρ O : Type} (S : Locked.Sys σ ρ O) (s s' : Locked.State σ ρ O) (i : Nat)
    (h : Locked.step S s i = some s') :
    absStep s.holder (.acq i) = some s'.holder ∨ absStep s.holder (.rel i) = some s'.holder ∨
    (s.holder = some i ∧ s'.holder = some i) := by
  unfold Locked.step at h
  simp only at h
  split at h
  · split at h
    · rename_i hh _
      cases h; left; simp [absStep, hh]
    · cases h
  · split at h
    · rename_i hh; cases h; right; right; exact ⟨hh, hh⟩
    · cases h
  · split at h
    · rename_i hh; cases h; right; left; simp [absStep, hh]
    · cases h

end Firefly.Spin
