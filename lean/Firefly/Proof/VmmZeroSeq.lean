import Firefly.Proof.VmmZero
/-! Several pages sharing the zero frame, faulted in any order. -/
namespace Firefly.Vmm
open Firefly.Gen.C04

/-- page (as an address) of a fault address -/
def pg (a : W) : W := pageAddr (pageOf a)

def runFaults : St → List W → Except Abort St
  | st, [] => .ok st
  | st, a :: rest =>
    match pageFault st a with
    | .error e => .error e
    | .ok (_, st') => runFaults st' rest

theorem SamePage.symm {a b : W} (h : SamePage a b) : SamePage b a := Eq.symm h

/-- a well-formed active address space together with a shared all-zero frame `zf` that is RAM and
belongs neither to the page tables nor to the allocator -/
structure ZSeq (st : St) (R : W) (own : Own) (zf : Nat) : Prop where
  good : Good st R own
  active : st.cr3 &&& hwMask = R
  zback : st.mem.backed zf = true
  zown : own zf = none
  zfree : ∀ f ∈ st.free, f.toNat ≠ zf
  zzero : ∀ i, st.mem.rd zf i = 0#64

/-- **shared_zero_sequence.**  Any number of pages whose entries point to the shared zero frame,
faulted in any order (every fault returning): each page ends up with its own frame, taken from the
allocator, all of whose words are zero; distinct pages get distinct frames; each page's entry is its
old entry with CoW cleared, Present|RW set and the new frame; the shared frame is still all-zero
(and still outside tables and allocator); pages not faulted (other than the temporary page) keep
their entries. -/
theorem shared_zero_sequence {R : W} {zf : Nat} (addrs : List W) : ∀ (st : St) (own : Own), ZSeq st R own zf →
    (∀ a ∈ addrs, UserVA (pg a) ∧ ¬SamePage (pg a) tempVA ∧
      ∃ e, hwEntry st.mem R (pg a) = some e ∧ frameN (e &&& hwMask) = zf) →
    addrs.Pairwise (fun a b => ¬SamePage (pg a) (pg b)) →
    ∀ st', runFaults st addrs = .ok st' →
    ∃ (own' : Own) (cp : W → W), ZSeq st' R own' zf ∧
      (∀ f ∈ st'.free, f ∈ st.free) ∧
      (∀ F x, own F = some x → own' F = some x) ∧
      (∀ F, own F = none → own' F ≠ none → ∃ f ∈ st.free, f.toNat = F) ∧
      (∀ a ∈ addrs, cp a ∈ st.free ∧ cp a ∉ st'.free ∧ own' (cp a).toNat = none ∧
        (∀ i, st'.mem.rd (cp a).toNat i = 0#64) ∧
        ∃ e, hwEntry st.mem R (pg a) = some e ∧ hwEntry st'.mem R (pg a) = some (cowEntry e (cp a))) ∧
      (∀ a ∈ addrs, ∀ b ∈ addrs, ¬SamePage (pg a) (pg b) → (cp a).toNat ≠ (cp b).toNat) ∧
      (∀ F j, own' F = none → (∀ a ∈ addrs, (cp a).toNat ≠ F) → st'.mem.rd F j = st.mem.rd F j) ∧
      (∀ va', UserVA va' → (∀ a ∈ addrs, ¬SamePage va' (pg a)) → ¬SamePage va' tempVA →
        hwEntry st'.mem R va' = hwEntry st.mem R va') := by
  induction addrs with
  | nil =>
    intro st own z _ _ st' h
    simp only [runFaults] at h; cases h
    exact ⟨own, fun _ => 0, z, fun f hf => hf, fun _ _ h => h, fun F h1 h2 => absurd h1 h2, (fun a ha => by cases ha),
      (fun a ha => by cases ha), fun _ _ _ _ => rfl, fun _ _ _ _ => rfl⟩
  | cons a addrs ih =>
    intro st own z hd hpw st' h
    simp only [runFaults] at h
    cases hp : pageFault st a with
    | error x => rw [hp] at h; cases h
    | ok r =>
      obtain ⟨⟨⟩, st1⟩ := r
      rw [hp] at h
      obtain ⟨hua, hta, ea, hea, hfa⟩ := hd a List.mem_cons_self
      obtain ⟨e, copy, rest, own1, he, _, _, hfr, _, post⟩ := pageFault_ok_post z.good z.active a hua hta st1 hp
      have hee : e = ea := by
        have : some e = some ea := by rw [← he, ← hea]; rfl
        exact Option.some.inj this
      subst hee
      -- the copy and the shared frame after this fault
      obtain ⟨hcop, hsh⟩ := post.copied (by rw [hfa]; exact z.zback) (by rw [hfa]; exact z.zown)
        (fun f hf => by rw [hfa]; exact z.zfree f hf)
      rw [hfa] at hcop hsh
      have hnd := z.good.nodup
      rw [hfr, List.map_cons, List.nodup_cons] at hnd
      have hsub1 : ∀ f ∈ st1.free, f ∈ rest := by
        obtain ⟨used, hused⟩ := post.sub
        intro f hf; rw [hused]; exact List.mem_append_right _ hf
      have hcopy_rest : ∀ f ∈ rest, f.toNat ≠ copy.toNat := fun f hf h' => hnd.1 (by rw [← h']; exact List.mem_map_of_mem hf)
      have hcn : own copy.toNat = none := (z.good.free copy (by rw [hfr]; exact List.mem_cons_self)).2.2.1
      have hcn1 : own1 copy.toNat = none := by
        cases hx : own1 copy.toNat with
        | none => rfl
        | some x =>
          obtain ⟨f, hf, hfe⟩ := post.newfree _ hcn (by rw [hx]; simp)
          exact absurd hfe (hcopy_rest f hf)
      have z1 : ZSeq st1 R own1 zf := by
        refine ⟨post.good, by rw [post.regs.cr3]; exact z.active, by rw [post.regs.backed]; exact z.zback, ?_, ?_, ?_⟩
        · cases hx : own1 zf with
          | none => rfl
          | some x =>
            obtain ⟨f, hf, hfe⟩ := post.newfree _ z.zown (by rw [hx]; simp)
            exact absurd hfe (z.zfree f (by rw [hfr]; exact List.mem_cons_of_mem _ hf))
        · intro f hf; exact z.zfree f (by rw [hfr]; exact List.mem_cons_of_mem _ (hsub1 f hf))
        · intro i; rw [hsh i]; exact z.zzero i
      have hpw' := List.pairwise_cons.1 hpw
      have hd1 : ∀ b ∈ addrs, UserVA (pg b) ∧ ¬SamePage (pg b) tempVA ∧
          ∃ e, hwEntry st1.mem R (pg b) = some e ∧ frameN (e &&& hwMask) = zf := by
        intro b hb
        obtain ⟨h1, h2, eb, h3, h4⟩ := hd b (List.mem_cons_of_mem _ hb)
        refine ⟨h1, h2, eb, ?_, h4⟩
        have := post.as (pg b) h1
        rw [if_neg (fun hs => hpw'.1 b hb hs.symm), if_neg h2] at this
        rw [this]; exact h3
      obtain ⟨own', cp', z', hfree', hext', hnew', hcp', hdist', hfoot', has'⟩ := ih st1 own1 z1 hd1 hpw'.2 st' h
      have hane : ∀ b ∈ addrs, b ≠ a := by
        intro b hb hba; subst hba; exact hpw'.1 b hb rfl
      have hcp_free : ∀ b ∈ addrs, (cp' b).toNat ≠ copy.toNat := fun b hb =>
        hcopy_rest _ (hsub1 _ (hcp' b hb).1)
      have hcn' : own' copy.toNat = none := by
        cases hx : own' copy.toNat with
        | none => rfl
        | some x =>
          obtain ⟨f, hf, hfe⟩ := hnew' _ hcn1 (by rw [hx]; simp)
          exact absurd hfe (hcopy_rest f (hsub1 f hf))
      refine ⟨own', fun x => if x = a then copy else cp' x, z', ?_, ?_, ?_, ?_, ?_, ?_, ?_⟩
      · intro f hf; rw [hfr]; exact List.mem_cons_of_mem _ (hsub1 f (hfree' f hf))
      · intro F x hF; exact hext' F x (post.ext F x hF)
      · intro F h1 h2
        by_cases h1' : own1 F = none
        · obtain ⟨f, hf, hfe⟩ := hnew' F h1' h2
          exact ⟨f, by rw [hfr]; exact List.mem_cons_of_mem _ (hsub1 f hf), hfe⟩
        · obtain ⟨f, hf, hfe⟩ := post.newfree F h1 h1'
          exact ⟨f, by rw [hfr]; exact List.mem_cons_of_mem _ hf, hfe⟩
      · intro b hb
        rcases List.mem_cons.1 hb with rfl | hb'
        · simp only [if_true]
          refine ⟨by rw [hfr]; exact List.mem_cons_self, ?_, hcn', ?_, e, he, ?_⟩
          · intro hin; exact hcopy_rest _ (hsub1 _ (hfree' _ hin)) rfl
          · intro i
            rw [hfoot' copy.toNat i hcn' (fun c hc => hcp_free c hc), hcop i]; exact z.zzero i
          · rw [has' (pg b) hua (fun c hc hs => hpw'.1 c hc hs) hta, post.as (pg b) hua, if_pos (show SamePage (pg b) (pageAddr (pageOf b)) from rfl)]
        · simp only [if_neg (hane b hb')]
          obtain ⟨c1, c2, c3, c4, e', c5, c6⟩ := hcp' b hb'
          obtain ⟨h1, h2, _⟩ := hd b hb
          refine ⟨by rw [hfr]; exact List.mem_cons_of_mem _ (hsub1 _ c1), c2, c3, c4, e', ?_, c6⟩
          have := post.as (pg b) h1
          rw [if_neg (fun hs => hpw'.1 b hb' hs.symm), if_neg h2] at this
          rw [← this]; exact c5
      · intro b hb c hc hs
        rcases List.mem_cons.1 hb with rfl | hb' <;> rcases List.mem_cons.1 hc with rfl | hc'
        · exact absurd rfl hs
        · simp only [if_true, if_neg (hane c hc')]; exact Ne.symm (hcp_free c hc')
        · simp only [if_true, if_neg (hane b hb')]; exact hcp_free b hb'
        · simp only [if_neg (hane b hb'), if_neg (hane c hc')]; exact hdist' b hb' c hc' hs
      · intro F j hF hne
        have hFc : F ≠ copy.toNat := fun h' => (hne a List.mem_cons_self) (by simp [h'])
        have hF1 : own1 F = none := by
          cases hx : own1 F with
          | none => rfl
          | some x => rw [hext' F x hx] at hF; cases hF
        rw [hfoot' F j hF (fun c hc => by have := hne c (List.mem_cons_of_mem _ hc); simpa [hane c hc] using this)]
        exact post.foot F j hF1 hFc
      · intro va' hu' hns hnt
        have hna : ¬SamePage va' (pageAddr (pageOf a)) := hns a List.mem_cons_self
        rw [has' va' hu' (fun c hc => hns c (List.mem_cons_of_mem _ hc)) hnt, post.as va' hu',
          if_neg hna, if_neg hnt]

/-- a successful `PageDirectoryTable.Map` under the armed guard never installs a writable mapping of
the zero frame (the guard sits in `Map`, which the wrapper calls with the same frame and flags) -/
theorem pdtMap_ok_not_zero_rw (st : St) (P page frame flags : W) (st' : St) (hp : st.protect = true)
    (h : pdtMap st P page frame flags = .ok (0, st')) : ¬(frame = st.zeroFrame ∧ (flags &&& fRW) ≠ 0) := by
  unfold pdtMap withPdt at h
  simp only at h
  split at h
  · exact mapOp_ok_not_zero_rw st page frame flags st' hp h
  · split at h
    · cases h
    · rename_i loc _
      split at h
      · cases h
      · rename_i err st2 hm
        have hc : err = 0 := by
          have := Except.ok.inj h; exact (Prod.mk.inj this).1
        subst hc
        exact mapOp_ok_not_zero_rw ((st.wrLoc loc (setFrame (st.rdLoc loc) P)).flush (frameAddr (st.cr3 >>> pageShift) + lastEntryOff))
          page frame flags st2 hp hm

/-- **The zero frame stays read-only in an inactive address space too**: `PageDirectoryTable.Map` on
the inactive table `P` (frames < 2^40, flags outside the frame field, guard armed) keeps "no page of
`P`'s address space maps the zero frame writable", and leaves the active address space's entries as
they were. -/
theorem pdtMap_keeps_zero_ro {st : St} {A P : W} {ownA ownP : Own} (d : Dual st A P ownA ownP) (page frame flags : W)
    (hu : UserVA (pageAddr page)) (hfo : FrameOK frame) (hfl : FlagsOK flags)
    (harm : st.protect = true) (hzf : FrameOK st.zeroFrame)
    (hinv : ∀ va', UserVA va' → ∀ e, hwEntry st.mem (P <<< 12) va' = some e →
      ¬(e &&& hwMask = st.zeroFrame <<< 12 ∧ e &&& fRW ≠ 0#64)) :
    ∃ code st' ownP', pdtMap st P page frame flags = .ok (code, st') ∧ Dual st' A P ownA ownP' ∧
      st'.protect = true ∧ st'.zeroFrame = st.zeroFrame ∧
      (∀ va', UserVA va' → ∀ e, hwEntry st'.mem (P <<< 12) va' = some e →
        ¬(e &&& hwMask = st'.zeroFrame <<< 12 ∧ e &&& fRW ≠ 0#64)) ∧
      (∀ va', UserVA va' → hwEntry st'.mem (A <<< 12) va' = hwEntry st.mem (A <<< 12) va') := by
  obtain ⟨code, st', ownP', h1, d', _, hfoot, regs, _, out⟩ := pdtMap_full d page frame flags hu
  refine ⟨code, st', ownP', h1, d', by rw [regs.protect]; exact harm, regs.zeroFrame, ?_, ?_⟩
  · intro va' hu' e he
    rw [regs.zeroFrame]
    unfold PdtOutcome at out
    rcases out with ⟨rfl, _, h3⟩ | ⟨_, _, h3, _⟩
    · rw [h3 va' hu'] at he
      by_cases hs : SamePage va' (pageAddr page)
      · rw [if_pos hs] at he
        by_cases hp : mkEntry frame flags &&& 1#64 = 0#64
        · rw [if_pos hp] at he; cases he
        · rw [if_neg hp] at he; cases he
          exact mkEntry_not_zero_rw hfo hfl hzf (pdtMap_ok_not_zero_rw st P page frame flags st' harm h1)
      · rw [if_neg hs] at he; exact hinv va' hu' e he
    · rw [h3 va' hu'] at he; exact hinv va' hu' e he
  · intro va' hu'
    refine hwEntry_congr_owned (m' := st'.mem) d.ga.owned regs.backed (fun F x hF j => ?_) va' hu'
    exact hfoot F j (d'.disj F (by rw [hF]; simp))

end Firefly.Vmm
