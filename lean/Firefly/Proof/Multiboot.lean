import Firefly.Model.Multiboot
import Firefly.Spec.Multiboot
/-! Lemmas for C10: a small "points-to" calculus over the model memory (`At m a l`: the block
holds the bytes `l` from address `a` on), little-endian load/store, frame lemmas for the type
write-back, and the tag scan over an encoded tag list. -/
namespace Firefly.MBProof
open Firefly.Multiboot Firefly.MBSpec Firefly.Gen.C10

/-- the block holds the bytes `l` from address `a` on -/
def At (m : Mem) (a : Nat) (l : List UInt8) : Prop :=
  m.base ≤ a ∧ ∀ i, (h : i < l.length) → m.blk[a - m.base + i]? = some l[i]

theorem At.nil {m : Mem} {a : Nat} (h : m.base ≤ a) : At m a [] := ⟨h, by simp⟩

theorem At.left {m : Mem} {a : Nat} {l1 l2 : List UInt8} (h : At m a (l1 ++ l2)) : At m a l1 := by
  refine ⟨h.1, fun i hi => ?_⟩
  have := h.2 i (by simp; omega)
  rw [this, List.getElem_append_left hi]

theorem At.right {m : Mem} {a : Nat} {l1 l2 : List UInt8} (h : At m a (l1 ++ l2)) :
    At m (a + l1.length) l2 := by
  refine ⟨by have := h.1; omega, fun i hi => ?_⟩
  have := h.2 (l1.length + i) (by simp; omega)
  have e : a + l1.length - m.base + i = a - m.base + (l1.length + i) := by have := h.1; omega
  rw [e, this, List.getElem_append_right (by omega)]
  simp

theorem At.tail {m : Mem} {a : Nat} {b : UInt8} {l : List UInt8} (h : At m a (b :: l)) : At m (a + 1) l :=
  At.right (l1 := [b]) h

theorem At.rd8 {m : Mem} {a : Nat} {b : UInt8} {l : List UInt8} (h : At m a (b :: l)) : m.rd8 a = some b := by
  have h0 := h.2 0 (by simp)
  simp only [Nat.add_zero, List.getElem_cons_zero] at h0
  have hlt : a - m.base < m.blk.length := by
    rcases Nat.lt_or_ge (a - m.base) m.blk.length with h1 | h1
    · exact h1
    · rw [List.getElem?_eq_none h1] at h0; cases h0
  unfold Mem.rd8
  rw [if_pos ⟨h.1, hlt⟩, h0]

theorem length_le (n v : Nat) : (le n v).length = n := by
  induction n generalizing v with
  | zero => rfl
  | succ n ih => simp [le, ih]

theorem At.rdLE {m : Mem} {n : Nat} : ∀ {a v : Nat}, At m a (le n v) → v < 256 ^ n → m.rdLE a n = some v := by
  induction n with
  | zero => intro a v _ hv; simp at hv; simp [Mem.rdLE, hv]
  | succ n ih =>
    intro a v h hv
    have h8 := At.rd8 h
    have ht := ih (At.tail h) (by rw [Nat.pow_succ] at hv; omega)
    unfold Mem.rdLE
    rw [h8, ht]
    simp only [Option.some.injEq]
    have : (UInt8.ofNat (v % 256)).toNat = v % 256 := by
      simp [UInt8.toNat_ofNat']
    rw [this]; omega

theorem At.rdBytes {m : Mem} : ∀ {l : List UInt8} {a : Nat}, At m a l → m.rdBytes a l.length = some l := by
  intro l
  induction l with
  | nil => intro a _; rfl
  | cons b l ih =>
    intro a h
    simp only [List.length_cons, Mem.rdBytes]
    rw [At.rd8 h, ih (At.tail h)]

/-! ### stores -/

/-- `m'` is `m` with at most the block bytes `[w, w+n)` changed -/
structure Frame (m m' : Mem) (w n : Nat) : Prop where
  base : m'.base = m.base
  sbase : m'.sbase = m.sbase
  stab : m'.stab = m.stab
  len : m'.blk.length = m.blk.length
  same : ∀ k, (m.base + k < w ∨ w + n ≤ m.base + k) → m'.blk[k]? = m.blk[k]?

theorem Frame.at {m m' : Mem} {w n a : Nat} {l : List UInt8} (f : Frame m m' w n) (h : At m a l)
    (hd : a + l.length ≤ w ∨ w + n ≤ a) : At m' a l := by
  refine ⟨by rw [f.base]; exact h.1, fun i hi => ?_⟩
  rw [f.base, f.same _ (by have := h.1; omega)]
  exact h.2 i hi

theorem wr8_at {m : Mem} {a : Nat} {old : UInt8} (b : UInt8) (h : At m a [old]) :
    ∃ m', m.wr8 a b = some m' ∧ At m' a [b] ∧ Frame m m' a 1 := by
  have h0 := h.2 0 (by simp)
  simp only [Nat.add_zero] at h0
  have hlt : a - m.base < m.blk.length := by
    rcases Nat.lt_or_ge (a - m.base) m.blk.length with h1 | h1
    · exact h1
    · rw [List.getElem?_eq_none h1] at h0; cases h0
  refine ⟨{ m with blk := m.blk.set (a - m.base) b }, ?_, ?_, ?_⟩
  · unfold Mem.wr8; rw [if_pos ⟨h.1, hlt⟩]
  · refine ⟨h.1, fun i hi => ?_⟩
    have : i = 0 := by simpa using hi
    subst this
    simp [hlt]
  · refine ⟨rfl, rfl, rfl, by simp, fun k hk => ?_⟩
    have := h.1
    simp only
    rw [List.getElem?_set_ne (by omega)]

theorem Frame.trans {m m1 m2 : Mem} {w n : Nat} (f1 : Frame m m1 w 1) (f2 : Frame m1 m2 (w + 1) n) :
    Frame m m2 w (n + 1) := by
  refine ⟨by rw [f2.base, f1.base], by rw [f2.sbase, f1.sbase], by rw [f2.stab, f1.stab],
    by rw [f2.len, f1.len], fun k hk => ?_⟩
  rw [f2.same k (by rw [f1.base]; omega), f1.same k (by omega)]

theorem wrLE_at {n : Nat} : ∀ {m : Mem} {a : Nat} {old : List UInt8} (v : Nat), At m a old → old.length = n →
    ∃ m', m.wrLE a v n = some m' ∧ At m' a (le n v) ∧ Frame m m' a n := by
  induction n with
  | zero =>
    intro m a old v h _
    exact ⟨m, rfl, At.nil h.1, ⟨rfl, rfl, rfl, rfl, fun _ _ => rfl⟩⟩
  | succ n ih =>
    intro m a old v h hl
    match old, hl with
    | o :: rest, hl =>
      obtain ⟨m1, e1, a1, f1⟩ := wr8_at (UInt8.ofNat (v % 256)) (At.left (l1 := [o]) (l2 := rest) h)
      have hr : At m1 (a + 1) rest := f1.at (At.tail h) (Or.inr (by omega))
      obtain ⟨m2, e2, a2, f2⟩ := ih (v / 256) hr (by simpa using hl)
      refine ⟨m2, ?_, ?_, f1.trans f2⟩
      · unfold Mem.wrLE; rw [e1]; exact e2
      · refine ⟨by rw [f2.base, f1.base]; exact h.1, fun i hi => ?_⟩
        cases i with
        | zero =>
          have := (f2.at a1 (Or.inl (by simp))).2 0 (by simp)
          simpa [le] using this
        | succ i =>
          have := a2.2 i (by simpa [le, length_le] using hi)
          have e : a - m2.base + (i + 1) = a + 1 - m2.base + i := by
            have := h.1; rw [f2.base, f1.base]; omega
          rw [e, this]; simp [le]

/-! ### the tag scan -/

theorem length_encTag (x : Tag) : (encTag x).length = 8 + x.body.length + padLen x.body.length := by
  simp [encTag, length_le]; omega

/-- address of the contents of the first tag of type `t` when `ts` is laid out from `cur` on -/
def locate (t : Nat) : List Tag → Nat → Option (Nat × Tag)
  | [], _ => none
  | x :: xs, cur => if x.typeNo = t then some (cur + 8, x) else locate t xs (cur + (encTag x).length)

theorem locate_firstOf (t : Nat) : ∀ (ts : List Tag) (cur : Nat),
    (locate t ts cur).map (·.2) = firstOf t ts := by
  intro ts
  induction ts with
  | nil => intro _; rfl
  | cons x xs ih =>
    intro cur
    unfold locate firstOf
    split
    · rfl
    · exact ih _

/-- hypotheses on a tag list that the scan needs: non-zero 32-bit type, size + 7 below 2^31 (the code sign-extends `int32(size+7)`) -/
def ScanOk (ts : List Tag) : Prop :=
  ∀ x ∈ ts, x.typeNo ≠ 0 ∧ x.typeNo < 2^32 ∧ 8 + x.body.length + 7 < 2^31

theorem alignStep_enc (x : Tag) (h : 8 + x.body.length + 7 < 2^31) :
    alignStep (8 + x.body.length) = (encTag x).length := by
  rw [length_encTag]; unfold alignStep padLen
  simp only []
  split <;> omega

theorem locate_at {m : Mem} {t : Nat} : ∀ {ts : List Tag} {cur : Nat} {rest : List UInt8} {p : Nat} {x : Tag},
    At m cur (encTags ts ++ rest) → locate t ts cur = some (p, x) → At m p x.body ∧ x.typeNo = t ∧ x ∈ ts ∧
      cur + 8 ≤ p ∧ p + x.body.length ≤ cur + (encTags ts).length := by
  intro ts
  induction ts with
  | nil => intro cur rest p x _ h; cases h
  | cons y ys ih =>
    intro cur rest p x hAt h
    unfold locate at h
    have hsplit : encTags (y :: ys) ++ rest = encTag y ++ (encTags ys ++ rest) := by
      simp [encTags]
    rw [hsplit] at hAt
    have hlen : (encTags (y :: ys)).length = (encTag y).length + (encTags ys).length := by
      simp [encTags]
    split at h
    · rename_i hy
      injection h with h; injection h with h1 h2
      subst h2; subst h1
      have hy' : At m cur (le 4 y.typeNo ++ (le 4 (8 + y.body.length) ++ (y.body ++ List.replicate (padLen y.body.length) 0xA5))) := by
        have := hAt.left; simpa [encTag] using this
      have hb := hy'.right.right.left
      simp only [length_le] at hb
      refine ⟨hb, hy, by simp, by omega, ?_⟩
      rw [hlen, length_encTag]; omega
    · obtain ⟨h1, h2, h3, h4, h5⟩ := ih hAt.right h
      refine ⟨h1, h2, List.mem_cons_of_mem _ h3, by omega, ?_⟩
      rw [hlen]; omega

theorem findTagLoop_enc {m : Mem} {t : Nat} : ∀ {ts : List Tag} {cur fuel : Nat},
    At m cur (encTags ts ++ endTag) → ScanOk ts → ts.length < fuel → cur + (encTags ts).length + 8 < 2^64 →
    findTagLoop m t fuel cur =
      .ok (match locate t ts cur with | some (p, x) => (p, x.body.length) | none => (0, 0)) := by
  intro ts
  induction ts with
  | nil =>
    intro cur fuel hAt _ hf _
    match fuel, hf with
    | f + 1, _ =>
      have h0 : At m cur (le 4 0) := by
        have : encTags [] ++ endTag = le 4 0 ++ le 4 8 := by simp [encTags, endTag]
        rw [this] at hAt; exact hAt.left
      unfold findTagLoop
      rw [h0.rdLE (by decide)]
      simp [tagEnd, locate]
  | cons y ys ih =>
    intro cur fuel hAt hok hf hcur
    match fuel, hf with
    | f + 1, hf =>
      have hsplit : encTags (y :: ys) ++ endTag = encTag y ++ (encTags ys ++ endTag) := by
        simp [encTags]
      rw [hsplit] at hAt
      have hlen : (encTags (y :: ys)).length = (encTag y).length + (encTags ys).length := by
        simp [encTags]
      obtain ⟨hy0, hy32, hy31⟩ := hok y (by simp)
      have hy' : At m cur (le 4 y.typeNo ++ (le 4 (8 + y.body.length) ++ (y.body ++ List.replicate (padLen y.body.length) 0xA5))) := by
        have := hAt.left; simpa [encTag] using this
      have hty := hy'.left.rdLE (by omega)
      have hsz := hy'.right.left.rdLE (by omega)
      simp only [length_le] at hsz
      unfold findTagLoop
      rw [hty]
      simp only [tagEnd, hy0, if_false, offTagSize, hsz]
      unfold locate
      by_cases hyt : y.typeNo = t
      · simp only [hyt, if_true]
        have e1 : (cur + 8) % 2^64 = cur + 8 := by
          rw [hlen, length_encTag] at hcur; omega
        have e2 : (8 + y.body.length + 2^32 - 8) % 2^32 = y.body.length := by omega
        rw [e1, e2]
      · simp only [hyt, if_false]
        rw [alignStep_enc y hy31]
        have e1 : (cur + (encTag y).length) % 2^64 = cur + (encTag y).length := by
          rw [hlen] at hcur; omega
        rw [e1]
        exact ih hAt.right (fun x hx => hok x (List.mem_cons_of_mem _ hx)) (by simpa using hf)
          (by rw [hlen] at hcur; omega)

end Firefly.MBProof

namespace Firefly.MBProof
open Firefly.Multiboot Firefly.MBSpec Firefly.Gen.C10

/-! ### the whole block -/

theorem At.self (m : Mem) : At m m.base m.blk :=
  ⟨Nat.le_refl _, fun i hi => by simp [hi]⟩

theorem length_encTags_ge : ∀ ts : List Tag, 8 * ts.length ≤ (encTags ts).length := by
  intro ts
  induction ts with
  | nil => simp
  | cons x xs ih =>
    have : (encTags (x :: xs)).length = (encTag x).length + (encTags xs).length := by simp [encTags]
    rw [this, length_encTag]; simp only [List.length_cons]; omega

theorem length_encode (ts : List Tag) : (encode ts).length = 16 + (encTags ts).length := by
  simp [encode, endTag, length_le]; omega

theorem at_tags (base sbase : Nat) (stab : List UInt8) (ts : List Tag) :
    At (mkMem base sbase stab ts) (base + 8) (encTags ts ++ endTag) := by
  have h := At.self (mkMem base sbase stab ts)
  have e : (mkMem base sbase stab ts).blk = le 4 (16 + (encTags ts).length) ++ (le 4 0 ++ (encTags ts ++ endTag)) := by
    simp [mkMem, encode]
  rw [e] at h
  have := h.right.right
  simpa [length_le, mkMem, Nat.add_assoc] using this

theorem scanOk_of_wf {base sbase : Nat} {stab : List UInt8} {ts : List Tag} (h : wf base sbase stab ts = true) :
    ScanOk ts := by
  intro x hx
  simp only [wf, Bool.and_eq_true, List.all_eq_true, decide_eq_true_eq] at h
  obtain ⟨hw, hl⟩ := h.1.1.1.1 x hx
  refine ⟨?_, ?_, hl⟩ <;>
  · cases x <;> simp [Tag.wf, Tag.typeNo] at hw ⊢ <;> omega

theorem findTag_encode {base sbase : Nat} {stab : List UInt8} {ts : List Tag} (h : wf base sbase stab ts = true)
    (t : Nat) :
    findTag (mkMem base sbase stab ts) t =
      .ok (match locate t ts (base + 8) with | some (p, x) => (p, x.body.length) | none => (0, 0)) := by
  have hs := scanOk_of_wf h
  simp only [wf, Bool.and_eq_true, List.all_eq_true, decide_eq_true_eq] at h
  have hlen := length_encode ts
  have h64 := h.1.1.2
  unfold findTag
  have e : ((mkMem base sbase stab ts).base + 8) % 2^64 = base + 8 := by
    simp only [mkMem]; omega
  rw [e]
  apply findTagLoop_enc (at_tags base sbase stab ts) hs
  · have := length_encTags_ge ts
    simp only [mkMem]; omega
  · omega

/-! ### the memory map -/

def regionOf (e : MemEntry) : Region := ⟨e.addr, e.len, normType e.ty⟩

/-- what a visitor that stops on its `stop`-th call (0 = never) must have seen -/
def specVisit : List MemEntry → Nat → List Region × Status
  | [], _ => ([], .done)
  | e :: rest, stop =>
    if stop = 1 then ([regionOf e], .stop)
    else (regionOf e :: (specVisit rest (stop - 1)).1, (specVisit rest (stop - 1)).2)

theorem specVisit_zero : ∀ ents : List MemEntry, specVisit ents 0 = (ents.map regionOf, .done) := by
  intro ents
  induction ents with
  | nil => rfl
  | cons e rest ih => simp [specVisit, ih]

theorem norm_eq (ty : Nat) : (if needsNorm ty = true then memReserved else ty) = normType ty := by
  unfold needsNorm normType memReserved memUnknown
  by_cases h : 1 ≤ ty ∧ ty ≤ 4
  · have : ¬ (ty = 0) := by omega
    have h2 : ¬ (ty ≥ 5) := by omega
    simp [h, this, h2]
  · by_cases h0 : ty = 0
    · simp [h0]
    · have : ty ≥ 5 := by omega
      simp [h, this]

theorem length_encEntries {esz : Nat} (hesz : 20 ≤ esz) :
    ∀ ents : List MemEntry, (ents.flatMap (encEntry esz)).length = ents.length * esz := by
  intro ents
  induction ents with
  | nil => simp
  | cons e rest ih =>
    simp only [List.flatMap_cons, List.length_append, ih, List.length_cons, Nat.succ_mul]
    simp [encEntry, length_le]; omega

theorem memAfter_enc {m1 : Mem} {hdr cur stop ty' esz a l : Nat}
    {k : Mem → Nat → Nat → List Region × Status × Mem}
    (hh : At m1 hdr (le 4 esz)) (hA : At m1 cur (le 8 a)) (hL : At m1 (cur + 8) (le 8 l))
    (hesz : esz < 2^32) (ha : a < 2^64) (hl : l < 2^64) (hcur : cur + esz < 2^64) :
    memAfter m1 hdr cur stop ty' k =
      if stop = 1 then ([⟨a, l, ty'⟩], .stop, m1)
      else (⟨a, l, ty'⟩ :: (k m1 (cur + esz) (stop - 1)).1, (k m1 (cur + esz) (stop - 1)).2.1,
            (k m1 (cur + esz) (stop - 1)).2.2) := by
  unfold memAfter
  simp only [offEntAddr, offEntLen, offEntrySize, Nat.add_zero]
  rw [hA.rdLE (by omega), hL.rdLE (by omega), hh.rdLE (by omega)]
  have : (cur + esz) % 2^64 = cur + esz := Nat.mod_eq_of_lt hcur
  simp only [this]

theorem memLoop_enc {hdr esz endp : Nat} (hesz : 20 ≤ esz) (hesz32 : esz < 2^32) :
    ∀ (ents : List MemEntry) (m : Mem) (cur stop fuel : Nat),
      At m hdr (le 4 esz) → hdr + 4 ≤ cur → At m cur (ents.flatMap (encEntry esz)) →
      (∀ e ∈ ents, e.addr < 2^64 ∧ e.len < 2^64 ∧ e.ty < 2^32) → ents.length < fuel →
      endp = cur + ents.length * esz → endp < 2^64 →
      ((memLoop hdr endp fuel m cur stop).1, (memLoop hdr endp fuel m cur stop).2.1) = specVisit ents stop := by
  intro ents
  induction ents with
  | nil =>
    intro m cur stop fuel _ _ _ _ hf he _
    match fuel, hf with
    | f + 1, _ => simp [memLoop, he, specVisit]
  | cons e rest ih =>
    intro m cur stop fuel hh hc hAt hok hf he hlt
    match fuel, hf with
    | f + 1, hf =>
      simp only [List.length_cons, Nat.succ_mul] at he
      have hne : cur ≠ endp := by omega
      obtain ⟨hea, hel, het⟩ := hok e (by simp)
      have hE : At m cur (le 8 e.addr ++ (le 8 e.len ++ (le 4 e.ty ++
          (List.replicate (esz - 20) 0xEE ++ rest.flatMap (encEntry esz))))) := by
        simpa [encEntry] using hAt
      have hA : At m cur (le 8 e.addr) := hE.left
      have hL : At m (cur + 8) (le 8 e.len) := by
        have := hE.right.left; simpa [length_le] using this
      have hT : At m (cur + 16) (le 4 e.ty) := by
        have := hE.right.right.left; simpa [length_le, Nat.add_assoc] using this
      have hR : At m (cur + esz) (rest.flatMap (encEntry esz)) := by
        have := hE.right.right.right.right
        simp only [length_le, List.length_replicate] at this
        have e' : cur + 8 + 8 + 4 + (esz - 20) = cur + esz := by omega
        rwa [e'] at this
      have hrl := length_encEntries hesz rest
      unfold memLoop
      rw [if_neg hne]
      simp only [offEntType]
      rw [hT.rdLE het]
      simp only []
      have hspec : specVisit (e :: rest) stop =
          if stop = 1 then ([regionOf e], .stop)
          else (regionOf e :: (specVisit rest (stop - 1)).1, (specVisit rest (stop - 1)).2) := rfl
      rw [hspec]
      have hreg : (⟨e.addr, e.len, normType e.ty⟩ : Region) = regionOf e := rfl
      by_cases hn : needsNorm e.ty = true
      · obtain ⟨m1, hw, _, fr⟩ := wrLE_at memReserved hT (length_le 4 e.ty)
        rw [if_pos hn, hw]
        simp only []
        have hh1 := fr.at hh (Or.inl (by simp [length_le]; omega))
        have hA1 := fr.at hA (Or.inl (by simp [length_le]))
        have hL1 := fr.at hL (Or.inl (by simp [length_le]))
        have hR1 := fr.at hR (Or.inr (by omega))
        rw [memAfter_enc hh1 hA1 hL1 hesz32 hea hel (by omega)]
        have hty : memReserved = normType e.ty := by rw [← norm_eq, if_pos hn]
        rw [hty, hreg]
        by_cases hs : stop = 1
        · simp [hs]
        · simp only [hs, if_false]
          have := ih m1 (cur + esz) (stop - 1) f hh1 (by omega) hR1
            (fun x hx => hok x (List.mem_cons_of_mem _ hx)) (by simpa using hf) (by omega) hlt
          rw [← this]
      · rw [if_neg hn]
        rw [memAfter_enc hh hA hL hesz32 hea hel (by omega)]
        have hty : e.ty = normType e.ty := by rw [← norm_eq, if_neg hn]
        rw [← hty] at hreg
        rw [hreg]
        by_cases hs : stop = 1
        · simp [hs]
        · simp only [hs, if_false]
          have := ih m (cur + esz) (stop - 1) f hh (by omega) hR
            (fun x hx => hok x (List.mem_cons_of_mem _ hx)) (by simpa using hf) (by omega) hlt
          rw [← this]

end Firefly.MBProof

namespace Firefly.MBProof
open Firefly.Multiboot Firefly.MBSpec Firefly.Gen.C10

theorem locate_none {t : Nat} {ts : List Tag} (cur : Nat) (h : firstOf t ts = none) : locate t ts cur = none := by
  have := locate_firstOf t ts cur
  rw [h] at this
  simpa using this

theorem locate_some {t : Nat} {ts : List Tag} {x : Tag} (cur : Nat) (h : firstOf t ts = some x) :
    ∃ p, locate t ts cur = some (p, x) := by
  have := locate_firstOf t ts cur
  rw [h] at this
  match hl : locate t ts cur, this with
  | some (p, y), this =>
    simp only [Option.map_some, Option.some.injEq] at this
    exact ⟨p, by rw [this]⟩

theorem tag_wf_of_wf {base sbase : Nat} {stab : List UInt8} {ts : List Tag} (h : wf base sbase stab ts = true)
    {x : Tag} (hx : x ∈ ts) : x.wf sbase stab = true := by
  simp only [wf, Bool.and_eq_true, List.all_eq_true, decide_eq_true_eq] at h
  exact (h.1.1.1.1 x hx).1

theorem bounds_of_wf {base sbase : Nat} {stab : List UInt8} {ts : List Tag} (h : wf base sbase stab ts = true) :
    base + 16 + (encTags ts).length < 2^64 := by
  simp only [wf, Bool.and_eq_true, List.all_eq_true, decide_eq_true_eq] at h
  have := length_encode ts
  omega

/-- everything `findTag` delivers for the first tag `x` of type `t` -/
theorem find_first {base sbase : Nat} {stab : List UInt8} {ts : List Tag} (h : wf base sbase stab ts = true)
    {t : Nat} {x : Tag} (hx : firstOf t ts = some x) :
    ∃ p, findTag (mkMem base sbase stab ts) t = .ok (p, x.body.length) ∧
      At (mkMem base sbase stab ts) p x.body ∧ x ∈ ts ∧ base + 16 ≤ p ∧
      p + x.body.length ≤ base + 8 + (encTags ts).length := by
  obtain ⟨p, hp⟩ := locate_some (base + 8) hx
  obtain ⟨h1, _, h3, h4, h5⟩ := locate_at (at_tags base sbase stab ts) hp
  refine ⟨p, ?_, h1, h3, by omega, h5⟩
  rw [findTag_encode h, hp]

theorem find_absent {base sbase : Nat} {stab : List UInt8} {ts : List Tag} (h : wf base sbase stab ts = true)
    {t : Nat} (hx : firstOf t ts = none) : findTag (mkMem base sbase stab ts) t = .ok (0, 0) := by
  rw [findTag_encode h, locate_none _ hx]

/-- what `VisitMemRegions` must deliver for a tag list -/
def specMem (ts : List Tag) (stop : Nat) : List Region × Status :=
  match firstOf 6 ts with
  | some (.mmap _ _ ents) => specVisit ents stop
  | _ => ([], .done)

theorem visitMem_encode {base sbase : Nat} {stab : List UInt8} {ts : List Tag} (h : wf base sbase stab ts = true)
    (stop : Nat) :
    ((visitMemRegions (mkMem base sbase stab ts) stop).1, (visitMemRegions (mkMem base sbase stab ts) stop).2.1) =
      specMem ts stop := by
  have h6 : tagMemoryMap = 6 := rfl
  unfold visitMemRegions specMem
  rw [h6]
  cases hf : firstOf 6 ts with
  | none => rw [find_absent h hf]; simp
  | some x =>
    obtain ⟨p, hfind, hat, hmem, hp, hpe⟩ := find_first h hf
    have hw := tag_wf_of_wf h hmem
    have hb := bounds_of_wf h
    have hty : x.typeNo = 6 := by
      obtain ⟨q, hq⟩ := locate_some (base + 8) hf
      exact (locate_at (at_tags base sbase stab ts) hq).2.1
    rw [hfind]
    cases x with
    | mmap esz ver ents =>
      simp only [Tag.wf, Bool.and_eq_true, List.all_eq_true, decide_eq_true_eq] at hw
      obtain ⟨⟨⟨he24, he32⟩, _⟩, hents⟩ := hw
      have hbody : (Tag.mmap esz ver ents).body = le 4 esz ++ (le 4 ver ++ ents.flatMap (encEntry esz)) := by
        simp [Tag.body]
      have hlen : (Tag.mmap esz ver ents).body.length = 8 + ents.length * esz := by
        rw [hbody]; simp [length_le, length_encEntries (show 20 ≤ esz by omega)]; omega
      rw [hbody] at hat
      have hH := hat.left
      have hE : At (mkMem base sbase stab ts) (p + 8) (ents.flatMap (encEntry esz)) := by
        have := hat.right.right; simpa [length_le, Nat.add_assoc] using this
      rw [hlen] at hpe ⊢
      have hn0 : ¬ (8 + ents.length * esz = 0) := by omega
      simp only [hn0, if_false]
      have e1 : (p + (8 + ents.length * esz)) % 2^64 = p + 8 + ents.length * esz := by omega
      have e2 : (p + 8) % 2^64 = p + 8 := by omega
      rw [e1, e2]
      have hfuel : ents.length < (mkMem base sbase stab ts).blk.length + 1 + stop := by
        have : ents.length ≤ ents.length * esz := Nat.le_mul_of_pos_right _ (by omega)
        have := length_encode ts
        simp only [mkMem]; omega
      exact memLoop_enc (by omega) he32 ents _ _ stop _ hH (by omega) hE
        (fun e he => by have := hents e he; omega) hfuel rfl (by omega)
    | fb => simp [Tag.typeNo] at hty
    | cmd => simp [Tag.typeNo] at hty
    | elf => simp [Tag.typeNo] at hty
    | other ty pl =>
      simp only [Tag.typeNo] at hty
      simp [Tag.wf, hty] at hw

end Firefly.MBProof

namespace Firefly.MBProof
open Firefly.Multiboot Firefly.MBSpec Firefly.Gen.C10

/-! ### the framebuffer -/

/-- the observable part of a decoded framebuffer description (the pointer is not part of it) -/
def fbView (i : FbInfo) : List Nat × Option (List UInt8) :=
  ([i.phys, i.pitch, i.width, i.height, i.bpp, i.ty], i.rgb)

theorem typeNo_cases {sbase : Nat} {stab : List UInt8} {x : Tag} (hw : x.wf sbase stab = true) :
    (x.typeNo = 6 → ∃ a b c, x = .mmap a b c) ∧ (x.typeNo = 8 → ∃ a b c d e f g k, x = .fb a b c d e f g k) ∧
    (x.typeNo = 1 → ∃ a b, x = .cmd a b) ∧ (x.typeNo = 9 → ∃ a b c d, x = .elf a b c d) := by
  cases x with
  | mmap a b c => simp [Tag.typeNo]
  | fb => simp [Tag.typeNo]
  | cmd => simp [Tag.typeNo]
  | elf => simp [Tag.typeNo]
  | other ty pl =>
    simp only [Tag.wf, Bool.and_eq_true, decide_eq_true_eq] at hw
    simp only [Tag.typeNo]
    refine ⟨?_, ?_, ?_, ?_⟩ <;> intro h <;> omega

theorem typeNo_of_first {t : Nat} {ts : List Tag} {x : Tag} (h : firstOf t ts = some x) : x.typeNo = t := by
  induction ts with
  | nil => cases h
  | cons y ys ih =>
    unfold firstOf at h
    split at h
    · injection h with h; subst h; assumption
    · exact ih h

theorem framebuffer_encode {base sbase : Nat} {stab : List UInt8} {ts : List Tag}
    (h : wf base sbase stab ts = true) :
    ∃ r, framebuffer (mkMem base sbase stab ts) = .ok r ∧ r.map fbView = expFb ts := by
  have h8 : tagFramebufferInfo = 8 := rfl
  unfold framebuffer getFramebufferInfo expFb
  rw [h8]
  cases hf : firstOf 8 ts with
  | none => rw [find_absent h hf]; exact ⟨none, by simp⟩
  | some x =>
    obtain ⟨p, hfind, hat, hmem, hp, hpe⟩ := find_first h hf
    have hw := tag_wf_of_wf h hmem
    obtain ⟨phys, pitch, w, ht, bpp, ty, rsv, color, hx⟩ := (typeNo_cases hw).2.1 (typeNo_of_first hf)
    subst hx
    simp only [Tag.wf, Bool.and_eq_true, decide_eq_true_eq, Bool.or_eq_true, ne_eq] at hw
    obtain ⟨⟨⟨⟨⟨⟨⟨h1, h2⟩, h3⟩, h4⟩, h5⟩, h6⟩, h7⟩, hc⟩ := hw
    have hbody : (Tag.fb phys pitch w ht bpp ty rsv color).body =
        le 8 phys ++ (le 4 pitch ++ (le 4 w ++ (le 4 ht ++ (le 1 bpp ++ (le 1 ty ++ (le 2 rsv ++ color)))))) := by
      simp [Tag.body]
    have hlen : (Tag.fb phys pitch w ht bpp ty rsv color).body.length = 24 + color.length := by
      rw [hbody]; simp [length_le]; omega
    rw [hbody] at hat
    rw [hfind, hlen]
    have hn0 : 24 + color.length ≠ 0 := by omega
    simp only [hn0, ne_eq, not_false_eq_true, if_true]
    have a0 := hat.left
    have a8 : At (mkMem base sbase stab ts) (p + 8) (le 4 pitch) := by
      have := hat.right.left; simpa [length_le] using this
    have a12 : At (mkMem base sbase stab ts) (p + 12) (le 4 w) := by
      have := hat.right.right.left; simpa [length_le, Nat.add_assoc] using this
    have a16 : At (mkMem base sbase stab ts) (p + 16) (le 4 ht) := by
      have := hat.right.right.right.left; simpa [length_le, Nat.add_assoc] using this
    have a20 : At (mkMem base sbase stab ts) (p + 20) (le 1 bpp) := by
      have := hat.right.right.right.right.left; simpa [length_le, Nat.add_assoc] using this
    have a21 : At (mkMem base sbase stab ts) (p + 21) (le 1 ty) := by
      have := hat.right.right.right.right.right.left; simpa [length_le, Nat.add_assoc] using this
    have a24 : At (mkMem base sbase stab ts) (p + 24) color := by
      have := hat.right.right.right.right.right.right.right; simpa [length_le, Nat.add_assoc] using this
    unfold fbFields
    simp only [offFbPhys, offFbPitch, offFbWidth, offFbHeight, offFbBpp, offFbType, offFbColor, Nat.add_zero]
    rw [a0.rdLE (by omega), a8.rdLE (by omega), a12.rdLE (by omega), a16.rdLE (by omega),
      a20.rdLE (by omega), a21.rdLE (by omega)]
    simp only [fbTypeRGB]
    by_cases hty : ty = 1
    · have hc6 : 6 ≤ color.length := by
        rcases hc with hc | hc
        · exact absurd hty hc
        · exact hc
      have hsplit : color = color.take 6 ++ color.drop 6 := (List.take_append_drop 6 color).symm
      have a24' : At (mkMem base sbase stab ts) (p + 24) (color.take 6) := by
        rw [hsplit] at a24; exact a24.left
      have hr := a24'.rdBytes
      have hl6 : (color.take 6).length = 6 := by simp; omega
      rw [hl6] at hr
      simp only [hty, if_true, hr]
      exact ⟨_, rfl, by simp [fbView]⟩
    · simp only [hty, if_false]
      exact ⟨_, rfl, by simp [fbView]⟩

end Firefly.MBProof

namespace Firefly.MBProof
open Firefly.Multiboot Firefly.MBSpec Firefly.Gen.C10

theorem locate_split (t : Nat) : ∀ (pre : List Tag) (x : Tag) (post : List Tag) (cur : Nat),
    (∀ y ∈ pre, y.typeNo ≠ t) → x.typeNo = t →
    locate t (pre ++ x :: post) cur = some (cur + (encTags pre).length + 8, x) := by
  intro pre
  induction pre with
  | nil => intro x post cur _ hx; simp [locate, hx, encTags]
  | cons y ys ih =>
    intro x post cur hpre hx
    have hy : y.typeNo ≠ t := hpre y (by simp)
    have hl : (encTags (y :: ys)).length = (encTag y).length + (encTags ys).length := by simp [encTags]
    simp only [List.cons_append, locate, hy, if_false]
    rw [ih x post _ (fun z hz => hpre z (List.mem_cons_of_mem _ hz)) hx, hl]
    simp only [Option.some.injEq, Prod.mk.injEq, and_true]; omega

theorem specVisit_stop : ∀ (ents : List MemEntry) (k : Nat), 1 ≤ k → k ≤ ents.length →
    specVisit ents k = ((ents.take k).map regionOf, .stop) := by
  intro ents
  induction ents with
  | nil => intro k h1 h2; simp at h2; omega
  | cons e rest ih =>
    intro k h1 h2
    unfold specVisit
    by_cases hk : k = 1
    · simp [hk]
    · simp only [hk, if_false]
      rw [ih (k - 1) (by omega) (by simp at h2; omega)]
      have : k = (k - 1) + 1 := by omega
      conv => rhs; rw [this]
      simp

theorem specVisit_mem : ∀ (ents : List MemEntry) (k : Nat) (r : Region), r ∈ (specVisit ents k).1 →
    ∃ e ∈ ents, r = regionOf e := by
  intro ents
  induction ents with
  | nil => intro k r h; simp [specVisit] at h
  | cons e rest ih =>
    intro k r h
    unfold specVisit at h
    split at h
    · simp at h; exact ⟨e, by simp, h⟩
    · simp only [List.mem_cons] at h
      rcases h with h | h
      · exact ⟨e, by simp, h⟩
      · obtain ⟨e', he', hr⟩ := ih _ r h
        exact ⟨e', List.mem_cons_of_mem _ he', hr⟩

theorem specVisit_status : ∀ (ents : List MemEntry) (k : Nat),
    (specVisit ents k).2 = .done ∨ (specVisit ents k).2 = .stop := by
  intro ents
  induction ents with
  | nil => intro k; simp [specVisit]
  | cons e rest ih =>
    intro k
    unfold specVisit
    split
    · simp
    · exact ih _

end Firefly.MBProof

namespace Firefly.MBProof
open Firefly.Multiboot Firefly.MBSpec Firefly.Gen.C10

/-! ### ELF sections -/

theorem length_encSec (s : Sec) : (encSec s).length = 64 := by simp [encSec, length_le]

theorem at_nth {m : Mem} : ∀ {secs : List Sec} {a i : Nat} {s : Sec} {rest : List UInt8},
    At m a (secs.flatMap encSec ++ rest) → secs[i]? = some s → At m (a + i * 64) (encSec s) := by
  intro secs
  induction secs with
  | nil => intro a i s rest _ h; simp at h
  | cons y ys ih =>
    intro a i s rest hAt h
    have hs : (y :: ys).flatMap encSec ++ rest = encSec y ++ (ys.flatMap encSec ++ rest) := by simp
    rw [hs] at hAt
    cases i with
    | zero => simp at h; subst h; simpa using hAt.left
    | succ i =>
      have := ih hAt.right (by simpa using h)
      rw [length_encSec] at this
      have e : a + 64 + i * 64 = a + (i + 1) * 64 := by omega
      rwa [e] at this

theorem length_encSecs : ∀ secs : List Sec, (secs.flatMap encSec).length = secs.length * 64 := by
  intro secs
  induction secs with
  | nil => simp
  | cons s ss ih =>
    simp only [List.flatMap_cons, List.length_append, ih, List.length_cons, Nat.succ_mul, length_encSec]; omega

/-- block and string table do not overlap -/
def Disjoint (m : Mem) : Prop :=
  m.base + m.blk.length ≤ m.sbase ∨ m.sbase + m.stab.length ≤ m.base

theorem rd8_stab {m : Mem} (hd : Disjoint m) {k : Nat} (hk : k < m.stab.length) :
    m.rd8 (m.sbase + k) = m.stab[k]? := by
  unfold Mem.rd8
  have : ¬ (m.base ≤ m.sbase + k ∧ m.sbase + k - m.base < m.blk.length) := by
    unfold Disjoint at hd; omega
  rw [if_neg this, if_pos (by omega)]
  congr 1; omega

theorem nameLoop_stab {m : Mem} (hd : Disjoint m) (h64 : m.sbase + m.stab.length < 2^64) :
    ∀ (l : List UInt8) (k fuel : Nat), m.stab.drop k = l → 0 ∈ l → l.length < fuel →
      nameLoop m fuel (m.sbase + k) = .ok (l.takeWhile (· ≠ 0)) := by
  intro l
  induction l with
  | nil => intro k fuel _ h0 _; simp at h0
  | cons b l ih =>
    intro k fuel hdrop h0 hf
    match fuel, hf with
    | f + 1, hf =>
      have hk : k < m.stab.length := by
        rcases Nat.lt_or_ge k m.stab.length with h | h
        · exact h
        · rw [List.drop_of_length_le h] at hdrop; cases hdrop
      have hb : m.stab[k]? = some b := by
        have := congrArg List.head? hdrop
        simpa [List.head?_drop] using this
      have hrest : m.stab.drop (k + 1) = l := by
        have := congrArg List.tail hdrop
        simpa [List.tail_drop] using this
      unfold nameLoop
      rw [rd8_stab hd hk, hb]
      by_cases hb0 : b = 0
      · simp [hb0]
      · have h0' : 0 ∈ l := by
          rcases List.mem_cons.1 h0 with h | h
          · exact absurd h.symm hb0
          · exact h
        have e : (m.sbase + k + 1) % 2^64 = m.sbase + (k + 1) := by omega
        simp only [hb0, if_false]
        rw [e, ih (k + 1) f hrest h0' (by simpa using hf)]
        simp [hb0]

def sectionOf (stab : List UInt8) (s : Sec) : Section :=
  ⟨cstr stab s.name, s.flags % 2^32, s.addr, s.size⟩

theorem elfLoop_enc {m : Mem} {strSec : Nat} (hd : Disjoint m) (h64 : m.sbase + m.stab.length < 2^64) :
    ∀ (secs : List Sec) (sp : Nat) (rest : List UInt8), At m sp (secs.flatMap encSec ++ rest) →
      (∀ s ∈ secs, secOk m.stab s = true) → sp + secs.length * 64 < 2^64 →
      (∀ s ∈ secs, s.size ≠ 0 → m.rdLE (strSec + 16) 8 = some m.sbase) →
      elfLoop m strSec secs.length sp = ((secs.filter (·.size ≠ 0)).map (sectionOf m.stab), .done) := by
  intro secs
  induction secs with
  | nil => intro sp rest _ _ _ _; simp [elfLoop]
  | cons s ss ih =>
    intro sp rest hAt hok hlt hstr
    have hs : (s :: ss).flatMap encSec ++ rest = encSec s ++ (ss.flatMap encSec ++ rest) := by simp
    rw [hs] at hAt
    have hS : At m sp (le 4 s.name ++ (le 4 s.typ ++ (le 8 s.flags ++ (le 8 s.addr ++ (le 8 s.off ++
        (le 8 s.size ++ (le 4 s.link ++ (le 4 s.info ++ (le 8 s.align ++ le 8 s.entsize))))))))) := by
      have := hAt.left; simpa [encSec] using this
    have aName := hS.left
    have aFlags : At m (sp + 8) (le 8 s.flags) := by
      have := hS.right.right.left; simpa [length_le, Nat.add_assoc] using this
    have aAddr : At m (sp + 16) (le 8 s.addr) := by
      have := hS.right.right.right.left; simpa [length_le, Nat.add_assoc] using this
    have aSize : At m (sp + 32) (le 8 s.size) := by
      have := hS.right.right.right.right.right.left; simpa [length_le, Nat.add_assoc] using this
    have hso := hok s (by simp)
    simp only [secOk, Bool.and_eq_true, decide_eq_true_eq, Bool.or_eq_true] at hso
    obtain ⟨⟨⟨⟨⟨⟨⟨⟨⟨⟨b1, b2⟩, b3⟩, b4⟩, b5⟩, b6⟩, b7⟩, b8⟩, b9⟩, b10⟩, hname⟩ := hso
    simp only [List.length_cons, Nat.succ_mul] at hlt
    have hnext : (sp + sizeofSection) % 2^64 = sp + 64 := by simp only [sizeofSection]; omega
    have hrestAt := hAt.right
    rw [length_encSec] at hrestAt
    have ihr := ih (sp + 64) rest hrestAt (fun x hx => hok x (List.mem_cons_of_mem _ hx)) (by omega)
      (fun x hx => hstr x (List.mem_cons_of_mem _ hx))
    simp only [List.length_cons]
    unfold elfLoop
    simp only [offSecSize, offSecName, offSecAddr, offSecFlags, Nat.add_zero]
    rw [aSize.rdLE b6]
    by_cases hz : s.size = 0
    · simp only [hz, if_true]
      rw [hnext, ihr]
      simp [hz]
    · simp only [hz, if_false]
      rw [aName.rdLE b1, hstr s (by simp) hz]
      rcases hname with hname | hname
      · exact absurd hname hz
      · obtain ⟨hn1, hn2⟩ := hname
        have e : (m.sbase + s.name) % 2^64 = m.sbase + s.name := by omega
        simp only []
        rw [e, nameLoop_stab hd h64 _ s.name _ rfl (by simpa using hn2)
          (by simp only [List.length_drop]; omega)]
        simp only []
        rw [aFlags.rdLE b3, aAddr.rdLE b4]
        simp only [hnext, ihr]
        simp [hz, sectionOf, cstr]

end Firefly.MBProof

namespace Firefly.MBProof
open Firefly.Multiboot Firefly.MBSpec Firefly.Gen.C10

theorem le4_small (n : Nat) (h : n < 65536) : le 4 n = le 2 n ++ [0, 0] := by
  have h1 : n / 256 / 256 = 0 := by omega
  simp [le, h1]

theorem disjoint_of_wf {base sbase : Nat} {stab : List UInt8} {ts : List Tag} (h : wf base sbase stab ts = true) :
    Disjoint (mkMem base sbase stab ts) ∧ sbase + stab.length < 2^64 := by
  simp only [wf, Bool.and_eq_true, List.all_eq_true, decide_eq_true_eq, Bool.or_eq_true] at h
  exact ⟨by simpa [Disjoint, mkMem] using h.2, h.1.2⟩

theorem visitElf_encode {base sbase : Nat} {stab : List UInt8} {ts : List Tag}
    (h : wf base sbase stab ts = true) :
    visitElfSections (mkMem base sbase stab ts) = (expSections stab ts, .done) := by
  have h9 : tagElfSymbols = 9 := rfl
  unfold visitElfSections expSections
  rw [h9]
  cases hf : firstOf 9 ts with
  | none => rw [find_absent h hf]; simp
  | some x =>
    obtain ⟨p, hfind, hat, hmem, hp, hpe⟩ := find_first h hf
    have hw := tag_wf_of_wf h hmem
    have hb := bounds_of_wf h
    obtain ⟨hdj, hs64⟩ := disjoint_of_wf h
    obtain ⟨entsize, shndx, secs, trail, hx⟩ := (typeNo_cases hw).2.2.2 (typeNo_of_first hf)
    subst hx
    simp only [Tag.wf, Bool.and_eq_true, decide_eq_true_eq, Bool.or_eq_true, List.all_eq_true] at hw
    obtain ⟨⟨⟨⟨he64, hshndx⟩, hnum⟩, hsecs⟩, hstr⟩ := hw
    have hbody : (Tag.elf entsize shndx secs trail).body =
        le 4 secs.length ++ (le 4 entsize ++ (le 4 shndx ++ (secs.flatMap encSec ++ trail))) := by
      simp [Tag.body]
    have hfl : (secs.flatMap encSec).length = secs.length * 64 := length_encSecs secs
    have hlen : (Tag.elf entsize shndx secs trail).body.length = 12 + secs.length * 64 + trail.length := by
      rw [hbody]; simp [length_le, hfl]; omega
    rw [hbody] at hat
    rw [hfind, hlen]
    have hn0 : ¬ (12 + secs.length * 64 + trail.length = 0) := by omega
    simp only [hn0, if_false, offElfStrIdx, offElfNum, offElfData, Nat.add_zero]
    have aNum : At (mkMem base sbase stab ts) p (le 2 secs.length) := by
      have := hat.left; rw [le4_small _ hnum] at this; exact this.left
    have aIdx : At (mkMem base sbase stab ts) (p + 8) (le 4 shndx) := by
      have := hat.right.right.left; simpa [length_le, Nat.add_assoc] using this
    have aSecs : At (mkMem base sbase stab ts) (p + 12) (secs.flatMap encSec ++ trail) := by
      have := hat.right.right.right; simpa [length_le, Nat.add_assoc] using this
    rw [aIdx.rdLE hshndx, aNum.rdLE (by omega)]
    simp only []
    rw [hlen] at hpe
    have e1 : (p + 12) % 2^64 = p + 12 := by omega
    rw [e1]
    have hstab : (mkMem base sbase stab ts).stab = stab := rfl
    have hsb : (mkMem base sbase stab ts).sbase = sbase := rfl
    have key := elfLoop_enc (m := mkMem base sbase stab ts)
      (strSec := (p + 12 + shndx * sizeofSection) % 2^64) hdj (by rw [hstab, hsb]; exact hs64) secs (p + 12) trail aSecs
      (by rw [hstab]; exact hsecs) (by omega)
    rw [hstab, hsb] at key
    apply key
    intro s hs hsz
    rcases hstr with hall | hidx
    · exact absurd (by simpa using hall s hs) hsz
    · cases hget : secs[shndx]? with
      | none => rw [hget] at hidx; simp at hidx
      | some strS =>
        rw [hget] at hidx
        simp only [Option.map_some, Option.some.injEq] at hidx
        have hi : shndx < secs.length := by
          rcases Nat.lt_or_ge shndx secs.length with h1 | h1
          · exact h1
          · rw [List.getElem?_eq_none h1] at hget; cases hget
        have aStr := at_nth aSecs hget
        have e2 : (p + 12 + shndx * sizeofSection) % 2^64 = p + 12 + shndx * 64 := by
          simp only [sizeofSection]; omega
        rw [e2]
        have hS : At (mkMem base sbase stab ts) (p + 12 + shndx * 64) (le 4 strS.name ++ (le 4 strS.typ ++
            (le 8 strS.flags ++ (le 8 strS.addr ++ (le 8 strS.off ++ (le 8 strS.size ++ (le 4 strS.link ++
            (le 4 strS.info ++ (le 8 strS.align ++ le 8 strS.entsize))))))))) := by
          simpa [encSec] using aStr
        have aAddr : At (mkMem base sbase stab ts) (p + 12 + shndx * 64 + 16) (le 8 strS.addr) := by
          have := hS.right.right.right.left; simpa [length_le, Nat.add_assoc] using this
        rw [aAddr.rdLE (by rw [hidx]; omega), hidx]

end Firefly.MBProof

namespace Firefly.MBProof
open Firefly.Multiboot Firefly.MBSpec Firefly.Gen.C10

/-! ### the command line: `strings.Fields` over words and white-space runs (ASCII and multi-byte) -/

theorem mbSpace2_cont {b c : UInt8} (h : mbSpace2 b c = true) : b = 0xC2 ∧ isCont c = true := by
  simp only [mbSpace2, Bool.and_eq_true, Bool.or_eq_true, decide_eq_true_eq] at h
  refine ⟨h.1, ?_⟩
  rcases h.2 with h | h <;> subst h <;> decide

theorem mbSpace3_cont {b c d : UInt8} (h : mbSpace3 b c d = true) :
    (b = 0xE1 ∨ b = 0xE2 ∨ b = 0xE3) ∧ isCont c = true ∧ isCont d = true := by
  simp only [mbSpace3, Bool.and_eq_true, Bool.or_eq_true, decide_eq_true_eq] at h
  rcases h with ((⟨⟨hb, hc⟩, hd⟩ | ⟨⟨hb, hc⟩, hd⟩) | ⟨⟨hb, hc⟩, hd⟩) | ⟨⟨hb, hc⟩, hd⟩
  · subst hb hc hd; decide
  · subst hb hc
    refine ⟨by decide, by decide, ?_⟩
    rcases hd with ((hd | hd) | hd) | hd
    · simp only [isCont, Bool.and_eq_true, decide_eq_true_eq]; omega
    · subst hd; decide
    · subst hd; decide
    · subst hd; decide
  · subst hb hc hd; decide
  · subst hb hc hd; decide

/-- nothing, or a byte that is not a UTF-8 continuation byte, comes next -/
def startOk : List UInt8 → Bool
  | [] => true
  | f :: _ => !isCont f

/-- a byte position that is no white space on its own stays none whatever follows the word,
as long as what follows does not start with a continuation byte -/
theorem spaceWidth_ctx (b : UInt8) (s F : List UInt8) (h : spaceWidth (b :: s) = 0) (hF : startOk F = true) :
    spaceWidth (b :: (s ++ F)) = 0 := by
  unfold spaceWidth at h ⊢
  by_cases ha : isAsciiSpace b = true
  · simp [ha] at h
  · simp only [ha, Bool.false_eq_true, if_false] at h ⊢
    have no2 : ∀ f, isCont f = false → mbSpace2 b f = false := fun f hf => by
      cases hm : mbSpace2 b f with
      | false => rfl
      | true => rw [(mbSpace2_cont hm).2] at hf; cases hf
    have no3c : ∀ f g, isCont f = false → mbSpace3 b f g = false := fun f g hf => by
      cases hm : mbSpace3 b f g with
      | false => rfl
      | true => rw [(mbSpace3_cont hm).2.1] at hf; cases hf
    have no3d : ∀ c g, isCont g = false → mbSpace3 b c g = false := fun c g hg => by
      cases hm : mbSpace3 b c g with
      | false => rfl
      | true => rw [(mbSpace3_cont hm).2.2] at hg; cases hg
    match s, F, h, hF with
    | c :: d :: s', F, h, _ => simpa using h
    | [c], [], h, _ => simpa using h
    | [c], f :: F', h, hF =>
      have hf : isCont f = false := by simpa [startOk] using hF
      have h2 : mbSpace2 b c = false := by
        cases hm : mbSpace2 b c with
        | false => rfl
        | true => simp [hm] at h
      simp [h2, no3d c f hf]
    | [], [], _, _ => rfl
    | [], [f], _, hF =>
      have hf : isCont f = false := by simpa [startOk] using hF
      simp [no2 f hf]
    | [], f :: g :: F', _, hF =>
      have hf : isCont f = false := by simpa [startOk] using hF
      simp [no2 f hf, no3c f g hf]

/-- a white-space rune is recognised from its own bytes alone -/
theorem spaceWidth_mono (l r : List UInt8) (h : spaceWidth l ≠ 0) : spaceWidth (l ++ r) = spaceWidth l := by
  match l, h with
  | b :: s, h =>
    show spaceWidth (b :: (s ++ r)) = spaceWidth (b :: s)
    unfold spaceWidth at h ⊢
    by_cases ha : isAsciiSpace b = true
    · simp [ha]
    · simp only [ha, Bool.false_eq_true, if_false] at h ⊢
      match s, r, h with
      | c :: d :: s', r, _ => rfl
      | [c], [], _ => rfl
      | [c], f :: r', h =>
        have h2 : mbSpace2 b c = true := by
          cases hm : mbSpace2 b c with
          | true => rfl
          | false => simp [hm] at h
        simp [h2]
      | [], _, h => simp at h

theorem spaceWidth_lead (b : UInt8) (r : List UInt8) (h : spaceWidth (b :: r) ≠ 0) : isCont b = false := by
  unfold spaceWidth at h
  by_cases ha : isAsciiSpace b = true
  · simp only [isAsciiSpace, Bool.or_eq_true, decide_eq_true_eq] at ha
    rcases ha with ((((ha | ha) | ha) | ha) | ha) | ha <;> subst ha <;> decide
  · simp only [ha, Bool.false_eq_true, if_false] at h
    have two : ∀ c, mbSpace2 b c = true → isCont b = false := fun c hm => by
      rw [(mbSpace2_cont hm).1]; decide
    have three : ∀ c d, mbSpace3 b c d = true → isCont b = false := fun c d hm => by
      rcases (mbSpace3_cont hm).1 with hb | hb | hb <;> rw [hb] <;> decide
    match r, h with
    | c :: d :: _, h =>
      cases h2 : mbSpace2 b c with
      | true => exact two c h2
      | false =>
        cases h3 : mbSpace3 b c d with
        | true => exact three c d h3
        | false => simp [h2, h3] at h
    | [c], h =>
      cases h2 : mbSpace2 b c with
      | true => exact two c h2
      | false => simp [h2] at h
    | [], h => simp at h

/-- a byte that can never start a white-space rune, whatever follows it -/
def wordByte (b : UInt8) : Bool :=
  !isAsciiSpace b && b != 0xC2 && b != 0xE1 && b != 0xE2 && b != 0xE3

theorem spaceWidth_word {b : UInt8} (rest : List UInt8) (h : wordByte b = true) : spaceWidth (b :: rest) = 0 := by
  cases hw : spaceWidth (b :: rest) with
  | zero => rfl
  | succ n =>
    exfalso
    simp only [wordByte, Bool.and_eq_true, Bool.not_eq_true', bne_iff_ne, ne_eq] at h
    obtain ⟨⟨⟨⟨h0, h1⟩, h2⟩, h3⟩, h4⟩ := h
    unfold spaceWidth at hw
    simp only [h0, Bool.false_eq_true, if_false] at hw
    have two : ∀ c, mbSpace2 b c = false := fun c => by
      cases hm : mbSpace2 b c with
      | false => rfl
      | true => exact absurd (mbSpace2_cont hm).1 h1
    have three : ∀ c d, mbSpace3 b c d = false := fun c d => by
      cases hm : mbSpace3 b c d with
      | false => rfl
      | true => rcases (mbSpace3_cont hm).1 with hb | hb | hb <;> contradiction
    match rest, hw with
    | c :: d :: _, hw => simp [two, three] at hw
    | [c], hw => simp [two] at hw
    | [], hw => simp at hw

/-- no position of the word `w`, read together with what follows it (`F`), starts a white-space rune -/
def noSpaceCtx : List UInt8 → List UInt8 → Prop
  | [], _ => True
  | b :: w, F => spaceWidth (b :: (w ++ F)) = 0 ∧ noSpaceCtx w F

theorem noSpaceCtx_of_in : ∀ (p G : List UInt8), noSpaceIn p = true → startOk G = true → noSpaceCtx p G := by
  intro p
  induction p with
  | nil => intro _ _ _; trivial
  | cons b p ih =>
    intro G h hG
    simp only [noSpaceIn, Bool.and_eq_true, decide_eq_true_eq] at h
    exact ⟨spaceWidth_ctx b p G h.1 hG, ih G h.2 hG⟩

theorem noSpaceCtx_append : ∀ (p q F : List UInt8), noSpaceCtx p (q ++ F) → noSpaceCtx q F →
    noSpaceCtx (p ++ q) F := by
  intro p
  induction p with
  | nil => intro q F _ h; exact h
  | cons b p ih =>
    intro q F h1 h2
    refine ⟨?_, ih q F h1.2 h2⟩
    show spaceWidth (b :: ((p ++ q) ++ F)) = 0
    rw [List.append_assoc]; exact h1.1

theorem noSpaceCtx_join (F : List UInt8) (hF : startOk F = true) : ∀ parts : List (List UInt8),
    (∀ p ∈ parts, noSpaceIn p = true) → noSpaceCtx (joinEq parts) F := by
  intro parts
  induction parts with
  | nil => intro _; trivial
  | cons p ps ih =>
    intro h
    cases ps with
    | nil => exact noSpaceCtx_of_in p F (h p (by simp)) hF
    | cons q rest =>
      simp only [joinEq]
      apply noSpaceCtx_append
      · exact noSpaceCtx_of_in p _ (h p (by simp)) (by simp [startOk, isCont])
      · exact ⟨spaceWidth_word _ (by decide), ih (fun x hx => h x (List.mem_cons_of_mem _ hx))⟩

theorem fieldsGo_word : ∀ (w F cur : List UInt8), noSpaceCtx w F →
    fieldsGo (w ++ F) 0 cur = fieldsGo F 0 (w.reverse ++ cur) := by
  intro w
  induction w with
  | nil => intro F cur _; rfl
  | cons b w ih =>
    intro F cur h
    simp only [List.cons_append, fieldsGo, h.1, if_true]
    rw [ih F (b :: cur) h.2]
    simp

/-- a complete run of white-space runes is skipped (`k` = bytes of a rune still to skip) -/
theorem fieldsGo_run : ∀ (s : List UInt8) (k : Nat) (rest : List UInt8), spaceRun s k = true →
    fieldsGo (s ++ rest) k [] = fieldsGo rest 0 [] := by
  intro s
  induction s with
  | nil =>
    intro k rest h
    have : k = 0 := by simpa [spaceRun] using h
    subst this; rfl
  | cons b s ih =>
    intro k rest h
    cases k with
    | succ k =>
      simp only [spaceRun] at h
      simp only [List.cons_append, fieldsGo]
      exact ih k rest h
    | zero =>
      simp only [spaceRun, Bool.and_eq_true, decide_eq_true_eq, ne_eq] at h
      have hm := spaceWidth_mono (b :: s) rest h.1
      simp only [List.cons_append] at hm
      simp only [List.cons_append, fieldsGo, hm, h.1, if_false, List.isEmpty_nil, if_true]
      exact ih _ rest h.2

theorem splitEq_ne_nil : ∀ l : List UInt8, splitEq l ≠ [] := by
  intro l
  induction l with
  | nil => simp [splitEq]
  | cons b l ih =>
    unfold splitEq
    split
    · split <;> simp
    · simp

theorem splitEq_cons (b : UInt8) (r : List UInt8) : splitEq (b :: r) =
    match splitEq r with
    | hd :: tl => if b = 0x3D then [] :: hd :: tl else (b :: hd) :: tl
    | [] => [[b]] := by rw [splitEq]; rfl

theorem splitEq_plain : ∀ p : List UInt8, (∀ b ∈ p, b ≠ 0x3D) → splitEq p = [p] := by
  intro p
  induction p with
  | nil => intro _; rfl
  | cons b p ih =>
    intro h
    have hb : b ≠ 0x3D := h b (by simp)
    unfold splitEq
    rw [ih (fun x hx => h x (List.mem_cons_of_mem _ hx))]
    simp [hb]

theorem splitEq_append : ∀ (p r : List UInt8), (∀ b ∈ p, b ≠ 0x3D) →
    splitEq (p ++ 0x3D :: r) = p :: splitEq r := by
  intro p
  induction p with
  | nil =>
    intro r _
    simp only [List.nil_append]
    rw [splitEq_cons]
    cases hs : splitEq r with
    | nil => exact absurd hs (splitEq_ne_nil r)
    | cons hd tl => simp
  | cons b p ih =>
    intro r h
    have hb : b ≠ 0x3D := h b (by simp)
    simp only [List.cons_append]
    rw [splitEq_cons, ih r (fun x hx => h x (List.mem_cons_of_mem _ hx))]
    simp [hb]

theorem splitEq_joinEq : ∀ parts : List (List UInt8), parts ≠ [] → (∀ p ∈ parts, ∀ b ∈ p, b ≠ 0x3D) →
    splitEq (joinEq parts) = parts := by
  intro parts
  induction parts with
  | nil => intro h; exact absurd rfl h
  | cons p ps ih =>
    intro _ h
    cases ps with
    | nil => simpa [joinEq] using splitEq_plain p (h p (by simp))
    | cons q rest =>
      simp only [joinEq]
      rw [splitEq_append p _ (h p (by simp)), ih (by simp) (fun x hx => h x (List.mem_cons_of_mem _ hx))]

/-- what `tokOk` says about a word, as propositions -/
theorem tokOk_iff {last : Bool} {t : CmdTok} (h : tokOk last t = true) :
    (∀ p ∈ t.parts, (∀ b ∈ p, b ≠ 0x3D) ∧ noSpaceIn p = true) ∧ tokText t ≠ [] ∧
    spaceRun t.sep 0 = true ∧ (last = true ∨ t.sep ≠ []) := by
  simp only [tokOk, partOk, Bool.and_eq_true, List.all_eq_true, decide_eq_true_eq, Bool.or_eq_true,
    ne_eq] at h
  obtain ⟨⟨⟨h1, h2⟩, h3⟩, h4⟩ := h
  exact ⟨fun p hp => ⟨fun b hb => ((h1 p hp).1 b hb).2, (h1 p hp).2⟩, h2, h3, h4⟩

theorem kvStep_tok (acc : KV) (t : CmdTok) (hp : ∀ p ∈ t.parts, ∀ b ∈ p, b ≠ 0x3D) (hne : tokText t ≠ []) :
    kvStep acc (tokText t) = tokKV acc t := by
  have hparts : t.parts ≠ [] := by
    intro h; apply hne; simp [tokText, h, joinEq]
  unfold kvStep tokKV tokText
  rw [splitEq_joinEq t.parts hparts hp]
  rfl

/-- one word followed by its separator and whatever comes after -/
theorem fields_step (t : CmdTok) (more : List UInt8) {last : Bool} (h : tokOk last t = true)
    (hl : last = true → more = []) :
    fieldsGo ((tokText t ++ t.sep) ++ more) 0 [] = tokText t :: fieldsGo more 0 [] := by
  obtain ⟨hparts, hne, hrun, hsep⟩ := tokOk_iff h
  have hre : (tokText t).reverse.isEmpty = false := by
    cases hw : tokText t with
    | nil => exact absurd hw hne
    | cons a l => simp
  have hstart : startOk (t.sep ++ more) = true := by
    cases hs : t.sep with
    | nil =>
      rcases hsep with hsep | hsep
      · rw [hl hsep]; rfl
      · exact absurd hs hsep
    | cons b s =>
      rw [hs] at hrun
      simp only [spaceRun, Bool.and_eq_true, decide_eq_true_eq, ne_eq] at hrun
      simp [startOk, spaceWidth_lead b s hrun.1]
  have hctx : noSpaceCtx (tokText t) (t.sep ++ more) :=
    noSpaceCtx_join _ hstart t.parts (fun p hp => (hparts p hp).2)
  rw [List.append_assoc, fieldsGo_word _ _ _ hctx, List.append_nil]
  cases hs : t.sep with
  | nil =>
    rcases hsep with hsep | hsep
    · rw [hl hsep]; simp [fieldsGo, hre]
    · exact absurd hs hsep
  | cons b s =>
    rw [hs] at hrun
    simp only [spaceRun, Bool.and_eq_true, decide_eq_true_eq, ne_eq] at hrun
    have hm := spaceWidth_mono (b :: s) more hrun.1
    simp only [List.cons_append] at hm
    simp only [List.cons_append, fieldsGo, hm, hrun.1, if_false, hre, Bool.false_eq_true,
      List.reverse_reverse]
    rw [fieldsGo_run s _ more hrun.2]

theorem fields_toks : ∀ toks : List CmdTok, toksOk toks = true →
    fieldsGo (toks.flatMap fun t => tokText t ++ t.sep) 0 [] = toks.map tokText := by
  intro toks
  induction toks with
  | nil => intro _; rfl
  | cons t rest ih =>
    intro h
    cases rest with
    | nil =>
      simp only [toksOk] at h
      have := fields_step t [] h (fun _ => rfl)
      simpa [fieldsGo] using this
    | cons u rest' =>
      simp only [toksOk, Bool.and_eq_true] at h
      simp only [List.flatMap_cons, List.map_cons] at ih ⊢
      rw [fields_step t _ h.1 (fun hl => by cases hl), ih h.2]

theorem toksOk_mem : ∀ toks : List CmdTok, toksOk toks = true →
    ∀ t ∈ toks, (∀ p ∈ t.parts, ∀ b ∈ p, b ≠ 0x3D) ∧ tokText t ≠ [] := by
  intro toks
  induction toks with
  | nil => intro _ t ht; simp at ht
  | cons u rest ih =>
    intro h t ht
    cases rest with
    | nil =>
      simp only [toksOk] at h
      have : t = u := by simpa using ht
      subst this
      obtain ⟨h1, h2, _⟩ := tokOk_iff h
      exact ⟨fun p hp => (h1 p hp).1, h2⟩
    | cons v rest' =>
      simp only [toksOk, Bool.and_eq_true] at h
      rcases List.mem_cons.1 ht with ht | ht
      · subst ht
        obtain ⟨h1, h2, _⟩ := tokOk_iff h.1
        exact ⟨fun p hp => (h1 p hp).1, h2⟩
      · exact ih h.2 t ht

theorem foldl_toks : ∀ (toks : List CmdTok) (acc : KV),
    (∀ t ∈ toks, (∀ p ∈ t.parts, ∀ b ∈ p, b ≠ 0x3D) ∧ tokText t ≠ []) →
    (toks.map tokText).foldl kvStep acc = toks.foldl tokKV acc := by
  intro toks
  induction toks with
  | nil => intro _ _; rfl
  | cons t rest ih =>
    intro acc h
    simp only [List.map_cons, List.foldl_cons]
    rw [kvStep_tok acc t (h t (by simp)).1 (h t (by simp)).2]
    exact ih _ (fun x hx => h x (List.mem_cons_of_mem _ hx))

/-- the text of a well-formed command line (white-space runs of any `unicode.IsSpace` runes,
words of arbitrary other bytes) parses into the key/value map its words denote -/
theorem parseCmdLine_text (lead : List UInt8) (toks : List CmdTok) (hl : spaceRun lead 0 = true)
    (ht : toksOk toks = true) : parseCmdLine (cmdText lead toks) = toks.foldl tokKV [] := by
  unfold parseCmdLine fields cmdText
  rw [fieldsGo_run lead 0 _ hl, fields_toks toks ht, foldl_toks toks [] (toksOk_mem toks ht)]

end Firefly.MBProof

namespace Firefly.MBProof
open Firefly.Multiboot Firefly.MBSpec Firefly.Gen.C10

/-- the text of the first command-line tag, parsed by the model's `Fields`/`Split` -/
def specCmdText (ts : List Tag) : KV :=
  match firstOf 1 ts with
  | some (.cmd lead toks) => parseCmdLine (cmdText lead toks)
  | _ => []

theorem bootCmdLine_encode {base sbase : Nat} {stab : List UInt8} {ts : List Tag}
    (h : wf base sbase stab ts = true) :
    bootCmdLine (mkMem base sbase stab ts) = .ok (specCmdText ts) := by
  have h1 : tagBootCmdLine = 1 := rfl
  unfold bootCmdLine specCmdText
  rw [h1]
  cases hf : firstOf 1 ts with
  | none => rw [find_absent h hf]; simp
  | some x =>
    obtain ⟨p, hfind, hat, hmem, hp, hpe⟩ := find_first h hf
    have hw := tag_wf_of_wf h hmem
    have hs := scanOk_of_wf h x hmem
    obtain ⟨lead, toks, hx⟩ := (typeNo_cases hw).2.2.1 (typeNo_of_first hf)
    subst hx
    have hbody : (Tag.cmd lead toks).body = cmdText lead toks ++ [0] := rfl
    have hlen : (Tag.cmd lead toks).body.length = (cmdText lead toks).length + 1 := by
      rw [hbody]; simp
    rw [hbody] at hat
    rw [hfind, hlen]
    rw [hlen] at hs
    have hn0 : ¬ ((cmdText lead toks).length + 1 = 0) := by omega
    have e : ((cmdText lead toks).length + 1 + 2^32 - 1) % 2^32 = (cmdText lead toks).length := by omega
    simp only [hn0, if_false, e]
    rw [hat.left.rdBytes]

theorem mem_of_first {t : Nat} {ts : List Tag} {x : Tag} (h : firstOf t ts = some x) : x ∈ ts := by
  induction ts with
  | nil => cases h
  | cons y ys ih =>
    unfold firstOf at h
    split at h
    · injection h with h; subst h; simp
    · exact List.mem_cons_of_mem _ (ih h)

theorem cmd_wf {base sbase : Nat} {stab : List UInt8} {ts : List Tag} (h : wf base sbase stab ts = true) :
    specCmdText ts = expCmd ts := by
  unfold specCmdText expCmd
  cases hf : firstOf 1 ts with
  | none => rfl
  | some x =>
    have hw := tag_wf_of_wf h (mem_of_first hf)
    cases x with
    | cmd lead toks =>
      simp only [Tag.wf, Bool.and_eq_true] at hw
      exact parseCmdLine_text lead toks hw.1 hw.2
    | mmap => rfl
    | fb => rfl
    | elf => rfl
    | other => rfl

end Firefly.MBProof

namespace Firefly.MBProof
open Firefly.Multiboot Firefly.MBSpec Firefly.Gen.C10

/-! ### what `VisitMemRegions` leaves in memory -/

theorem At.of_blk {m : Mem} {A l B : List UInt8} (h : m.blk = A ++ l ++ B) : At m (m.base + A.length) l := by
  have := At.self m
  rw [h] at this
  exact this.left.right

/-- a store confined to the window `l` of the block replaces exactly that window -/
theorem blk_eq_of_frame {m m' : Mem} {A l l' B : List UInt8} {w : Nat}
    (f : Frame m m' w l.length) (hb : m.blk = A ++ l ++ B) (hw : w = m.base + A.length)
    (hl : l'.length = l.length) (ha : At m' w l') : m'.blk = A ++ l' ++ B := by
  apply List.ext_getElem?
  intro k
  rcases Nat.lt_or_ge k A.length with h1 | h1
  · rw [f.same k (Or.inl (by omega)), hb]
    simp [List.getElem?_append_left, h1]
  · rcases Nat.lt_or_ge k (A.length + l.length) with h2 | h2
    · have := ha.2 (k - A.length) (by omega)
      have e : w - m'.base + (k - A.length) = k := by rw [f.base]; omega
      rw [e] at this; rw [this]
      rw [List.append_assoc, List.getElem?_append_right h1, List.getElem?_append_left (by omega)]
      simp
    · rw [f.same k (Or.inr (by omega)), hb]
      rw [List.getElem?_append_right (by simp; omega), List.getElem?_append_right (by simp; omega)]
      simp [hl]

theorem length_encEntry {esz : Nat} (hesz : 20 ≤ esz) (e : MemEntry) : (encEntry esz e).length = esz := by
  simp [encEntry, length_le]; omega

theorem length_normEnts : ∀ (k : Nat) (ents : List MemEntry), (normEnts k ents).length = ents.length := by
  intro k ents
  induction ents generalizing k with
  | nil => cases k <;> rfl
  | cons e rest ih => cases k with
    | zero => rfl
    | succ k => simp [normEnts, ih]

/-- the memory after the walk: same areas, and the entry bytes `A ++ · ++ B` encode the entries
with the first `visited` types normalised -/
def Post (m : Mem) (A B : List UInt8) (esz : Nat) (ents : List MemEntry) (r : List Region × Status × Mem) : Prop :=
  r.2.2.base = m.base ∧ r.2.2.sbase = m.sbase ∧ r.2.2.stab = m.stab ∧
  r.2.2.blk = A ++ (normEnts r.1.length ents).flatMap (encEntry esz) ++ B

theorem memLoop_mem {hdr esz endp : Nat} (hesz : 20 ≤ esz) (hesz32 : esz < 2^32) :
    ∀ (ents : List MemEntry) (m : Mem) (cur stop fuel : Nat) (A B : List UInt8),
      m.blk = A ++ ents.flatMap (encEntry esz) ++ B → cur = m.base + A.length →
      At m hdr (le 4 esz) → hdr + 4 ≤ cur →
      (∀ e ∈ ents, e.addr < 2^64 ∧ e.len < 2^64 ∧ e.ty < 2^32) → ents.length < fuel →
      endp = cur + ents.length * esz → endp < 2^64 →
      Post m A B esz ents (memLoop hdr endp fuel m cur stop) := by
  intro ents
  induction ents with
  | nil =>
    intro m cur stop fuel A B hblk _ _ _ _ hf he _
    match fuel, hf with
    | f + 1, _ => simp [memLoop, he, Post, normEnts, hblk]
  | cons e rest ih =>
    intro m cur stop fuel A B hblk hcur hh hc hok hf he hlt
    match fuel, hf with
    | f + 1, hf =>
      simp only [List.length_cons, Nat.succ_mul] at he
      have hne : cur ≠ endp := by omega
      obtain ⟨hea, hel, het⟩ := hok e (by simp)
      have hAt : At m cur ((e :: rest).flatMap (encEntry esz)) := by
        rw [hcur]; exact At.of_blk hblk
      have hE : At m cur (le 8 e.addr ++ (le 8 e.len ++ (le 4 e.ty ++
          (List.replicate (esz - 20) 0xEE ++ rest.flatMap (encEntry esz))))) := by
        simpa [encEntry] using hAt
      have hT : At m (cur + 16) (le 4 e.ty) := by
        have := hE.right.right.left; simpa [length_le, Nat.add_assoc] using this
      have hrl := length_encEntries hesz rest
      -- the continuation, for any memory that holds the (normalised) entry followed by the rest
      have main : ∀ m1 : Mem, m1.base = m.base → m1.sbase = m.sbase → m1.stab = m.stab →
          m1.blk = (A ++ encEntry esz { e with ty := normType e.ty }) ++ rest.flatMap (encEntry esz) ++ B →
          At m1 hdr (le 4 esz) →
          Post m A B esz (e :: rest) (memAfter m1 hdr cur stop (normType e.ty) (memLoop hdr endp f)) := by
        intro m1 hb1 hsb1 hst1 hblk1 hh1
        have hlen' : (encEntry esz { e with ty := normType e.ty }).length = esz := length_encEntry hesz _
        have hAt1 : At m1 cur (encEntry esz { e with ty := normType e.ty } ++ rest.flatMap (encEntry esz)) := by
          have : m1.blk = A ++ (encEntry esz { e with ty := normType e.ty } ++ rest.flatMap (encEntry esz)) ++ B := by
            rw [hblk1]; simp [List.append_assoc]
          have := At.of_blk this
          rwa [hb1, ← hcur] at this
        have hE1 : At m1 cur (le 8 e.addr ++ (le 8 e.len ++ (le 4 (normType e.ty) ++
            (List.replicate (esz - 20) 0xEE ++ rest.flatMap (encEntry esz))))) := by
          simpa [encEntry] using hAt1
        have hA1 : At m1 cur (le 8 e.addr) := hE1.left
        have hL1 : At m1 (cur + 8) (le 8 e.len) := by
          have := hE1.right.left; simpa [length_le] using this
        rw [memAfter_enc hh1 hA1 hL1 hesz32 hea hel (by omega)]
        by_cases hs : stop = 1
        · simp only [hs, if_true, Post, List.length_singleton, normEnts]
          refine ⟨hb1, hsb1, hst1, ?_⟩
          rw [hblk1]; simp [List.append_assoc]
        · simp only [hs, if_false]
          have ihr := ih m1 (cur + esz) (stop - 1) f (A ++ encEntry esz { e with ty := normType e.ty }) B hblk1
            (by rw [hb1, List.length_append, hlen']; omega) hh1 (by omega)
            (fun x hx => hok x (List.mem_cons_of_mem _ hx)) (by simpa using hf) (by omega) hlt
          obtain ⟨i1, i2, i3, i4⟩ := ihr
          refine ⟨by rw [i1, hb1], by rw [i2, hsb1], by rw [i3, hst1], ?_⟩
          simp only [List.length_cons, normEnts, List.flatMap_cons]
          rw [i4]; simp [List.append_assoc]
      unfold memLoop
      rw [if_neg hne]
      simp only [offEntType]
      rw [hT.rdLE het]
      simp only []
      by_cases hn : needsNorm e.ty = true
      · obtain ⟨m1, hw, a1, fr⟩ := wrLE_at memReserved hT (length_le 4 e.ty)
        rw [if_pos hn, hw]
        simp only []
        have hty : memReserved = normType e.ty := by rw [← norm_eq, if_pos hn]
        rw [hty] at a1 ⊢
        have hb : m.blk = (A ++ (le 8 e.addr ++ le 8 e.len)) ++ le 4 e.ty ++
            (List.replicate (esz - 20) 0xEE ++ (rest.flatMap (encEntry esz) ++ B)) := by
          rw [hblk]; simp [encEntry, List.append_assoc]
        have fr' : Frame m m1 (cur + 16) (le 4 e.ty).length := by rw [length_le]; exact fr
        have hblk1 := blk_eq_of_frame fr' hb (by simp [length_le]; omega) (by simp [length_le]) a1
        apply main m1 fr.base fr.sbase fr.stab _ (fr.at hh (Or.inl (by simp [length_le]; omega)))
        rw [hblk1]; simp [encEntry, List.append_assoc]
      · rw [if_neg hn]
        have hty : e.ty = normType e.ty := by rw [← norm_eq, if_neg hn]
        have he' : ({ e with ty := normType e.ty } : MemEntry) = e := by rw [← hty]
        have := main m rfl rfl rfl (by rw [he', hblk]; simp [List.append_assoc]) hh
        rw [← hty] at this
        exact this

end Firefly.MBProof

namespace Firefly.MBProof
open Firefly.Multiboot Firefly.MBSpec Firefly.Gen.C10

theorem split_first {t : Nat} : ∀ {ts : List Tag} {x : Tag}, firstOf t ts = some x →
    ∃ pre post, ts = pre ++ x :: post ∧ ∀ y ∈ pre, y.typeNo ≠ t := by
  intro ts
  induction ts with
  | nil => intro x h; cases h
  | cons y ys ih =>
    intro x h
    unfold firstOf at h
    split at h
    · injection h with h; subst h
      exact ⟨[], ys, rfl, by simp⟩
    · rename_i hy
      obtain ⟨pre, post, e, hp⟩ := ih h
      refine ⟨y :: pre, post, by rw [e]; rfl, ?_⟩
      intro z hz
      rcases List.mem_cons.1 hz with hz | hz
      · subst hz; exact hy
      · exact hp z hz

theorem normFirst_none (k : Nat) : ∀ ts : List Tag, (∀ y ∈ ts, y.typeNo ≠ 6) → normFirst k ts = ts := by
  intro ts
  induction ts with
  | nil => intro _; rfl
  | cons y ys ih =>
    intro h
    have hy := h y (by simp)
    cases y with
    | mmap => simp [Tag.typeNo] at hy
    | fb => simp only [normFirst]; rw [ih (fun z hz => h z (List.mem_cons_of_mem _ hz))]
    | cmd => simp only [normFirst]; rw [ih (fun z hz => h z (List.mem_cons_of_mem _ hz))]
    | elf => simp only [normFirst]; rw [ih (fun z hz => h z (List.mem_cons_of_mem _ hz))]
    | other => simp only [normFirst]; rw [ih (fun z hz => h z (List.mem_cons_of_mem _ hz))]

theorem normFirst_split (k : Nat) (esz ver : Nat) (ents : List MemEntry) (post : List Tag) :
    ∀ pre : List Tag, (∀ y ∈ pre, y.typeNo ≠ 6) →
    normFirst k (pre ++ .mmap esz ver ents :: post) = pre ++ .mmap esz ver (normEnts k ents) :: post := by
  intro pre
  induction pre with
  | nil => intro _; rfl
  | cons y ys ih =>
    intro h
    have hy := h y (by simp)
    have := ih (fun z hz => h z (List.mem_cons_of_mem _ hz))
    cases y with
    | mmap => simp [Tag.typeNo] at hy
    | fb => simp only [List.cons_append, normFirst]; rw [this]
    | cmd => simp only [List.cons_append, normFirst]; rw [this]
    | elf => simp only [List.cons_append, normFirst]; rw [this]
    | other => simp only [List.cons_append, normFirst]; rw [this]

/-- everything of the encoded block in front of the entries of the memory map `pre ++ mmap :: post` -/
def mmapA (pre post : List Tag) (esz ver n : Nat) : List UInt8 :=
  le 4 (16 + ((encTags pre).length + (8 + (8 + n * esz) + padLen (8 + n * esz) + (encTags post).length))) ++
  (le 4 0 ++ (encTags pre ++ (le 4 6 ++ (le 4 (8 + (8 + n * esz)) ++ (le 4 esz ++ le 4 ver)))))

/-- everything behind them -/
def mmapB (post : List Tag) (esz n : Nat) : List UInt8 :=
  List.replicate (padLen (8 + n * esz)) 0xA5 ++ (encTags post ++ endTag)

theorem encode_mmap_split {esz : Nat} (hesz : 20 ≤ esz) (pre post : List Tag) (ver : Nat) (ents : List MemEntry) :
    encode (pre ++ .mmap esz ver ents :: post) =
      mmapA pre post esz ver ents.length ++ ents.flatMap (encEntry esz) ++ mmapB post esz ents.length := by
  have hbl : (Tag.mmap esz ver ents).body.length = 8 + ents.length * esz := by
    simp [Tag.body, length_le, length_encEntries hesz]; omega
  have htag : encTag (.mmap esz ver ents) = le 4 6 ++ (le 4 (8 + (8 + ents.length * esz)) ++ (le 4 esz ++ (le 4 ver ++
      (ents.flatMap (encEntry esz) ++ List.replicate (padLen (8 + ents.length * esz)) 0xA5)))) := by
    unfold encTag; rw [hbl]; simp [Tag.body, Tag.typeNo, List.append_assoc]
  have hts : encTags (pre ++ .mmap esz ver ents :: post) = encTags pre ++ (encTag (.mmap esz ver ents) ++ encTags post) := by
    simp [encTags]
  have hlen : (encTags (pre ++ .mmap esz ver ents :: post)).length =
      (encTags pre).length + (8 + (8 + ents.length * esz) + padLen (8 + ents.length * esz) + (encTags post).length) := by
    rw [hts]; simp only [List.length_append, length_encTag, hbl] <;> omega
  unfold encode mmapA mmapB
  rw [hlen, hts, htag]
  simp [List.append_assoc]

theorem mem_eq {m' : Mem} {b sb : Nat} {l st : List UInt8} (h1 : m'.base = b) (h2 : m'.blk = l)
    (h3 : m'.sbase = sb) (h4 : m'.stab = st) : m' = ⟨b, l, sb, st⟩ := by
  cases m'; simp_all

/-- the memory `VisitMemRegions` leaves behind is the encoding of the tag list with the types of
the entries shown to the visitor normalised -/
theorem visitMem_mem {base sbase : Nat} {stab : List UInt8} {ts : List Tag} (h : wf base sbase stab ts = true)
    (stop : Nat) :
    (visitMemRegions (mkMem base sbase stab ts) stop).2.2 =
      mkMem base sbase stab (normFirst (visitMemRegions (mkMem base sbase stab ts) stop).1.length ts) := by
  have h6 : tagMemoryMap = 6 := rfl
  cases hf : firstOf 6 ts with
  | none =>
    have hnone : ∀ y ∈ ts, y.typeNo ≠ 6 := by
      intro y hy h6'
      have : ∀ (l : List Tag), y ∈ l → firstOf 6 l ≠ none := by
        intro l
        induction l with
        | nil => intro hm; simp at hm
        | cons z zs ih =>
          intro hm
          unfold firstOf
          split
          · simp
          · rename_i hz
            rcases List.mem_cons.1 hm with hm | hm
            · subst hm; exact absurd h6' hz
            · exact ih hm
      exact this ts hy hf
    rw [normFirst_none _ ts hnone]
    unfold visitMemRegions
    rw [h6, find_absent h hf]
    simp
  | some x =>
    obtain ⟨pre, post, hsplit, hpre⟩ := split_first hf
    have hw := tag_wf_of_wf h (mem_of_first hf)
    have hb := bounds_of_wf h
    obtain ⟨esz, ver, ents, hx⟩ := (typeNo_cases hw).1 (typeNo_of_first hf)
    subst hx
    simp only [Tag.wf, Bool.and_eq_true, List.all_eq_true, decide_eq_true_eq] at hw
    obtain ⟨⟨⟨he24, he32⟩, _⟩, hents⟩ := hw
    have hesz : 20 ≤ esz := by omega
    have hbl : (Tag.mmap esz ver ents).body.length = 8 + ents.length * esz := by
      simp [Tag.body, length_le, length_encEntries hesz]; omega
    have hfind : findTag (mkMem base sbase stab ts) 6 =
        .ok (base + 8 + (encTags pre).length + 8, 8 + ents.length * esz) := by
      rw [findTag_encode h]
      have := locate_split 6 pre (.mmap esz ver ents) post (base + 8) hpre rfl
      rw [← hsplit] at this
      rw [this]; simp only [hbl]
    have henc := encode_mmap_split hesz pre post ver ents
    rw [← hsplit] at henc
    have hblk : (mkMem base sbase stab ts).blk =
        mmapA pre post esz ver ents.length ++ ents.flatMap (encEntry esz) ++ mmapB post esz ents.length := henc
    have hAlen : (mmapA pre post esz ver ents.length).length = 8 + (encTags pre).length + 16 := by
      simp [mmapA, length_le]; omega
    have htot : (encTags ts).length =
        (encTags pre).length + (8 + (8 + ents.length * esz) + padLen (8 + ents.length * esz) + (encTags post).length) := by
      rw [hsplit]
      have : encTags (pre ++ .mmap esz ver ents :: post) = encTags pre ++ (encTag (.mmap esz ver ents) ++ encTags post) := by
        simp [encTags]
      rw [this]; simp only [List.length_append, length_encTag, hbl] <;> omega
    have hhdr : At (mkMem base sbase stab ts) (base + 8 + (encTags pre).length + 8) (le 4 esz) := by
      have h0 : (mkMem base sbase stab ts).blk = (le 4 (16 + ((encTags pre).length + (8 + (8 + ents.length * esz) +
          padLen (8 + ents.length * esz) + (encTags post).length))) ++ (le 4 0 ++ (encTags pre ++ (le 4 6 ++
          le 4 (8 + (8 + ents.length * esz)))))) ++ le 4 esz ++ (le 4 ver ++ (ents.flatMap (encEntry esz) ++ mmapB post esz ents.length)) := by
        rw [hblk]; simp [mmapA, List.append_assoc]
      have := At.of_blk h0
      simp only [length_le, List.length_append, mkMem] at this
      have e : base + (4 + (4 + ((encTags pre).length + (4 + 4)))) = base + 8 + (encTags pre).length + 8 := by omega
      rwa [e] at this
    unfold visitMemRegions
    rw [h6, hfind]
    have hn0 : ¬ (8 + ents.length * esz = 0) := by omega
    simp only [hn0, if_false]
    have e1 : (base + 8 + (encTags pre).length + 8 + (8 + ents.length * esz)) % 2^64 =
        base + 8 + (encTags pre).length + 8 + 8 + ents.length * esz := by omega
    have e2 : (base + 8 + (encTags pre).length + 8 + 8) % 2^64 = base + 8 + (encTags pre).length + 8 + 8 := by omega
    rw [e1, e2]
    have hfuel : ents.length < (mkMem base sbase stab ts).blk.length + 1 + stop := by
      have : ents.length ≤ ents.length * esz := Nat.le_mul_of_pos_right _ (by omega)
      have := length_encode ts
      simp only [mkMem]; omega
    obtain ⟨p1, p2, p3, p4⟩ := memLoop_mem (hdr := base + 8 + (encTags pre).length + 8) hesz he32 ents
      (mkMem base sbase stab ts) (base + 8 + (encTags pre).length + 8 + 8) stop _ _ _ hblk
      (by rw [hAlen]; simp only [mkMem]; omega) hhdr (by omega)
      (fun e he => by have := hents e he; omega) hfuel rfl (by omega)
    refine mem_eq p1 ?_ p2 p3
    rw [p4]
    rw [hsplit, normFirst_split _ esz ver ents post pre hpre, encode_mmap_split hesz, length_normEnts]

end Firefly.MBProof
