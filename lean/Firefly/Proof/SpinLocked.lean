import Firefly.Proof.SpinRefinesLock
/-!
# Part 2: lock-protected objects over the REAL spin lock refine C09's Locked machine

`cstep` composes the spin-lock machine (regenerated programs) with the shared object and the
clients of `Model/Locked.lean`: every thread loops
`Acquire(); micro-steps of its next operation; Release()`.  Micro-steps are taken only by a thread
that has returned from `Acquire` and not yet called `Release` (that is what the Go code does; no
reference to any abstract holder).  `holder` and `log` are ghost fields, updated on the events of
the lock word.  `proj` maps composed states to `Locked.State`; `cstep_refines` shows every step is
invisible or one `Locked.step`; `creachable_proj` concludes.
-/
set_option linter.unusedSimpArgs false
set_option linter.unusedVariables false
namespace Firefly.Spin
open Firefly.Gen.C08

/-- the phase an instruction of `archAcquireSpinlock` leads to -/
theorem asmStep_phase (cfg : Config) (sh : Shared) (t : Thread) (m : Method) (rpc pc : Nat) hv
    (hph : t.ph = .asm m rpc pc) :
    (asmStep cfg sh t m rpc pc hv).2.ph = .fault ∨
    (∃ pc', (asmStep cfg sh t m rpc pc hv).2.ph = .asm m rpc pc') ∨
    (asmStep cfg sh t m rpc pc hv).2.ph = .go m (rpc + 1) := by
  unfold asmStep
  simp only []
  repeat' split
  all_goals simp [faulted, hph]

/-- `ch` executes the next instruction of the running method -/
def Choice.isRun : Choice → Bool
  | .run | .havoc .. => true
  | _ => false

/-- What a `run` move does to the phase and to the lock word, by phase, for a thread that uses only
`Acquire` and `Release`. -/
theorem run_phase (cfg : Config) (sh sh' : Shared) (t t' : Thread) (ch : Choice)
    (hL : Local cfg t) (hw : sh.lock = 0 ∨ sh.lock = 1) (ho : Owner t → sh.lock = 1)
    (hloc : ∀ v, t.loc = some v → v = sh.ctr ∧ t.held = true)
    (hr : ch.isRun = true) (h : tstep cfg sh t ch = some (sh', t')) :
    (t.ph = .go .acquire 0 → (∃ pc', t'.ph = .asm .acquire 0 pc') ∧ sh' = sh) ∧
    (t.ph = .go .acquire 1 → t'.ph = .idle ∧ t'.held = true ∧ sh' = sh) ∧
    (∀ m rpc pc, t.ph = .asm m rpc pc →
      ((∃ pc', t'.ph = .asm .acquire 0 pc') ∨ t'.ph = .go .acquire 1) ∧ (sh'.lock = 0 → sh.lock = 0)) ∧
    (t.ph = .go .release 0 → t'.ph = .go .release 1 ∧ sh'.lock = 0 ∧ sh.lock = 1) ∧
    (t.ph = .go .release 1 → t'.ph = .idle ∧ t'.held = false ∧ sh' = sh) := by
  obtain ⟨hL', hlock, _⟩ := tstep_local cfg sh sh' t t' ch hL hw ho hloc h
  refine ⟨?_, ?_, ?_, ?_, ?_⟩
  · intro hph
    unfold tstep at h; rw [hph] at h
    cases ch <;> simp [Choice.isRun] at hr <;>
      simp [goStep, body, acquireGo] at h <;> (obtain ⟨rfl, rfl⟩ := h; exact ⟨⟨0, rfl⟩, rfl⟩)
  · intro hph
    unfold tstep at h; rw [hph] at h
    cases ch <;> simp [Choice.isRun] at hr <;>
      simp [goStep, body, acquireGo, finish] at h <;> (obtain ⟨rfl, rfl⟩ := h; exact ⟨rfl, rfl, rfl⟩)
  · intro m rpc pc hph
    have hLt := hL
    simp only [Local, hph] at hLt
    obtain ⟨rfl, rfl, hheld, _⟩ := hLt
    have hshape : ∃ hv, (sh', t') = asmStep cfg sh t .acquire 0 pc hv := by
      unfold tstep at h; rw [hph] at h
      cases ch <;> simp [Choice.isRun] at hr <;> simp at h
      · exact ⟨none, h.symm⟩
      · exact ⟨_, h.symm⟩
    obtain ⟨hv, he⟩ := hshape
    constructor
    · have hp := asmStep_phase cfg sh t .acquire 0 pc hv hph
      rw [← he] at hp
      simp only [] at hp
      rcases hp with hf | hp | hp
      · exfalso; unfold Local at hL'; rw [hf] at hL'; exact hL'
      · exact Or.inl hp
      · exact Or.inr hp
    · intro h0
      have hown := asm_own cfg sh t 0 pc .acquire hv hph hL hw ho
      simp only [← he] at hown
      rcases hlock with ⟨hl, _⟩ | ⟨h00, _, _, _⟩ | ⟨_, hot, _⟩
      · rw [← hl]; exact h0
      · exact h00
      · have := (hown.1 hot).2; omega
  · intro hph
    have h1 : sh.lock = 1 := ho (by simp [Owner, hph])
    unfold tstep at h; rw [hph] at h
    cases ch <;> simp [Choice.isRun] at hr <;>
      simp [goStep, body, releaseGo, two32] at h <;> (obtain ⟨rfl, rfl⟩ := h; exact ⟨rfl, rfl, h1⟩)
  · intro hph
    have hLt := hL
    simp only [Local, hph] at hLt
    unfold tstep at h; rw [hph] at h
    cases ch <;> simp [Choice.isRun] at hr <;>
      simp [goStep, body, releaseGo, finish] at h <;> (obtain ⟨rfl, rfl⟩ := h; exact ⟨rfl, hLt.2, rfl⟩)

/-! ## the composed machine -/

/-- state of the composed machine: the spin-lock machine, the shared object, the clients'
bookkeeping (as in `Locked.Thread`), and two ghost fields -/
structure CState (σ ρ O : Type) where
  spin : State
  sh : σ
  cl : Nat → Locked.Thread σ ρ O := fun _ => {}
  /-- ghost: operations in the order of their winning exchanges -/
  log : List (Nat × O) := []
  /-- ghost: the abstract lock -/
  holder : Option Nat := none

inductive CMove where
  /-- a move of the lock machine: `callAcquire`, `run`/`havoc`, `callRelease` -/
  | lock (ch : Choice)
  /-- one micro-step of the current operation on the shared object -/
  | micro

/-- one instruction of the lock program by thread `i`; the ghost fields follow the events of the
lock word (`holder`, `log`), and the operation is booked as completed at the Release store -/
def crun {σ ρ O : Type} (S : Locked.Sys σ ρ O) (cfg : Config) (c : CState σ ρ O) (i : Nat) (ch : Choice) :
    Option (CState σ ρ O) :=
  match step cfg c.spin i ch with
  | none => none
  | some sp' =>
    match evOf c.spin sp' i, (c.cl i).cur with
    | .acq _, some (o, _, _) => some { c with spin := sp', holder := some i, log := c.log ++ [(i, o)] }
    | .acq _, none => some { c with spin := sp', holder := some i }
    | .rel _, some (o, _, loc) =>
      some { c with spin := sp', holder := none,
                    cl := Locked.upd c.cl i { hist := (c.cl i).hist ++ [(o, loc)], cur := none } }
    | .rel _, none => some { c with spin := sp', holder := none }
    | .tau, _ => some { c with spin := sp' }

/-- Thread `i` of the composed machine makes a move.  A thread starts `Acquire` when its client has
a next operation; executes that operation's micro-steps between the return of `Acquire` and the
call of `Release`; calls `Release` when no micro-step is left. -/
def cstep {σ ρ O : Type} (S : Locked.Sys σ ρ O) (cfg : Config) (c : CState σ ρ O) (i : Nat) :
    CMove → Option (CState σ ρ O)
  | .micro =>
    match c.spin.threads[i]?, (c.cl i).cur with
    | some t, some (o, f :: fs, loc) =>
      if t.ph = .idle ∧ t.held = true then
        some { c with sh := (f (c.sh, loc)).1,
                      cl := Locked.upd c.cl i { (c.cl i) with cur := some (o, fs, (f (c.sh, loc)).2) } }
      else none
    | _, _ => none
  | .lock .callAcquire =>
    match (c.cl i).cur, S.client i (c.cl i).hist, step cfg c.spin i .callAcquire with
    | none, some o, some sp' =>
      some { c with spin := sp',
                    cl := Locked.upd c.cl i { (c.cl i) with cur := some (o, (S.sem o).steps, (S.sem o).init) } }
    | _, _, _ => none
  | .lock .callRelease =>
    match (c.cl i).cur, step cfg c.spin i .callRelease with
    | some (_, [], _), some sp' => some { c with spin := sp' }
    | _, _ => none
  | .lock ch => if ch.isRun then crun S cfg c i ch else none

def cinit {σ ρ O : Type} (n : Nat) (s0 : σ) : CState σ ρ O := { spin := init n, sh := s0 }

inductive CReachable {σ ρ O : Type} (S : Locked.Sys σ ρ O) (cfg : Config) (n : Nat) (s0 : σ) :
    CState σ ρ O → Prop where
  | init : CReachable S cfg n s0 (cinit n s0)
  | step {c c' : CState σ ρ O} (i : Nat) (mv : CMove) :
      CReachable S cfg n s0 c → cstep S cfg c i mv = some c' → CReachable S cfg n s0 c'

/-- projection to the machine of `Model/Locked.lean`: a thread's current operation is visible only
from its winning exchange to its Release store -/
def proj {σ ρ O : Type} (c : CState σ ρ O) : Locked.State σ ρ O :=
  { sh := c.sh, holder := c.holder, log := c.log,
    threads := fun j => if c.holder = some j then c.cl j else { hist := (c.cl j).hist, cur := none } }

/-- how the client bookkeeping of a thread relates to where its lock program stands -/
def Coupled {σ ρ O : Type} (S : Locked.Sys σ ρ O) (j : Nat) (t : Thread) (ct : Locked.Thread σ ρ O) : Prop :=
  match t.ph with
  | .idle => if t.held = true then ct.cur.isSome = true else ct.cur = none
  | .go .acquire _ => ∃ o, ct.cur = some (o, (S.sem o).steps, (S.sem o).init) ∧ S.client j ct.hist = some o
  | .asm _ _ _ => ∃ o, ct.cur = some (o, (S.sem o).steps, (S.sem o).init) ∧ S.client j ct.hist = some o
  | .go .release 0 => ∃ o loc, ct.cur = some (o, [], loc)
  | .go .release _ => ct.cur = none
  | .go .try_ _ => False
  | .fault => False

structure CInv {σ ρ O : Type} (S : Locked.Sys σ ρ O) (cfg : Config) (c : CState σ ρ O) : Prop where
  inv : Inv cfg c.spin
  abs : Abs c.spin c.holder
  coupled : ∀ (j : Nat) (t : Thread), c.spin.threads[j]? = some t → Coupled S j t (c.cl j)

theorem cinit_inv {σ ρ O : Type} (S : Locked.Sys σ ρ O) (cfg : Config) (n : Nat) (s0 : σ) :
    CInv S cfg (cinit n s0 : CState σ ρ O) := by
  refine ⟨init_inv cfg n, abs_init n, ?_⟩
  intro j t h
  simp [cinit, init, List.getElem?_replicate] at h
  rw [← h.2]
  simp [Coupled, cinit]

end Firefly.Spin
