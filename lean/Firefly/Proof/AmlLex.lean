import Firefly.Model.AmlLex
/-! Lemmas about the AML stream reader and lexical decoders (`Model/AmlLex.lean`): a small
Hoare-style calculus for `LexM` (`Safe`: from a reader inside the table the action returns normally —
no `.panic`, no `.outOfFuel` — and leaves the reader inside the table). -/
namespace Firefly.AmlLex

/-- the reader window lies inside the table -/
def Inv (d : Bytes) (r : Reader) : Prop := r.offset ≤ d.size ∧ r.pkgEnd ≤ d.size

/-- `x` run from any reader inside the table returns normally and stays inside the table -/
structure Safe (d : Bytes) (x : LexM α) : Prop where
  run : ∀ r, Inv d r → ∃ a r', x r = .ok (a, r') ∧ Inv d r'

theorem Safe.pure (d : Bytes) (a : α) : Safe d (pure a : LexM α) := by
  constructor; intro r h; exact ⟨a, r, rfl, h⟩

theorem Safe.bind {d : Bytes} {x : LexM α} {f : α → LexM β} (hx : Safe d x) (hf : ∀ a, Safe d (f a)) :
    Safe d (x >>= f) := by
  constructor
  intro r h
  obtain ⟨a, r1, e1, h1⟩ := hx.run r h
  obtain ⟨b, r2, e2, h2⟩ := (hf a).run r1 h1
  refine ⟨b, r2, ?_, h2⟩
  show (StateT.bind x f) r = _
  simp only [StateT.bind, e1]
  exact e2

theorem Safe.map {d : Bytes} {x : LexM α} (g : α → β) (hx : Safe d x) : Safe d (g <$> x) := by
  constructor
  intro r h
  obtain ⟨a, r1, e1, h1⟩ := hx.run r h
  refine ⟨g a, r1, ?_, h1⟩
  show (StateT.map g x) r = _
  simp only [StateT.map, e1]
  rfl

theorem eof_false {d : Bytes} {r : Reader} (h : Inv d r) (he : ¬ r.eof = true) : r.offset < d.size := by
  simp [Reader.eof] at he; have := h.2; omega

theorem safe_setPkgEnd (d : Bytes) (e : Nat) : Safe d (setPkgEnd d e) := by
  constructor
  intro r h
  unfold setPkgEnd
  split
  · exact ⟨_, _, rfl, h⟩
  · rename_i he
    exact ⟨_, _, rfl, h.1, by simp at he; exact he⟩

theorem safe_readByte (d : Bytes) : Safe d (readByte d) := by
  constructor
  intro r h
  unfold readByte
  split
  · exact ⟨_, _, rfl, h⟩
  · rename_i he
    have hlt := eof_false h he
    rw [Array.getElem?_eq_getElem hlt]
    exact ⟨_, _, rfl, by show r.offset + 1 ≤ d.size; omega, h.2⟩

theorem safe_peekByte (d : Bytes) : Safe d (peekByte d) := by
  constructor
  intro r h
  unfold peekByte
  split
  · exact ⟨_, _, rfl, h⟩
  · rename_i he
    have hlt := eof_false h he
    rw [Array.getElem?_eq_getElem hlt]
    exact ⟨_, _, rfl, h⟩

theorem safe_unreadByte (d : Bytes) : Safe d unreadByte := by
  constructor
  intro r h
  unfold unreadByte
  split
  · exact ⟨_, _, rfl, h⟩
  · exact ⟨_, _, rfl, by show r.offset - 1 ≤ d.size; have := h.1; omega, h.2⟩

theorem safe_offset (d : Bytes) : Safe d offset := ⟨fun _ h => ⟨_, _, rfl, h⟩⟩
theorem safe_pkgEnd (d : Bytes) : Safe d pkgEnd := ⟨fun _ h => ⟨_, _, rfl, h⟩⟩
theorem safe_eof (d : Bytes) : Safe d eof := ⟨fun _ h => ⟨_, _, rfl, h⟩⟩

theorem safe_dataPtr (d : Bytes) : Safe d (dataPtr d) := by
  constructor
  intro r h
  unfold dataPtr
  split
  · exact ⟨_, _, rfl, h⟩
  · rename_i he
    have hlt := eof_false h he
    rw [if_pos hlt]
    exact ⟨_, _, rfl, h⟩

theorem safe_setOffset (d : Bytes) (off : Nat) : Safe d (setOffset d off) := by
  constructor
  intro r h
  unfold setOffset
  refine ⟨_, _, rfl, ?_, h.2⟩
  show (if off > d.size then d.size else off) ≤ d.size
  split <;> omega


/-- one structural step of a `Safe` proof: a primitive, `pure`, a bind, a binder or a case split -/
macro "safe_step" : tactic => `(tactic| first
  | exact Safe.pure _ _
  | exact safe_readByte _ | exact safe_peekByte _ | exact safe_unreadByte _ | exact safe_offset _
  | exact safe_pkgEnd _ | exact safe_eof _ | exact safe_dataPtr _ | exact safe_setOffset _ _
  | exact safe_setPkgEnd _ _
  | assumption
  | apply Safe.bind
  | apply Safe.map
  | intro _
  | split
  | dsimp only)
macro "safe_tac" : tactic => `(tactic| repeat' safe_step)

theorem safe_parsePkgLength (d : Bytes) : Safe d (parsePkgLength d) := by
  unfold parsePkgLength
  safe_tac

theorem safe_parseNumLoop (d : Bytes) (n c res : Nat) : Safe d (parseNumLoop d n c res) := by
  induction n generalizing c res with
  | zero => unfold parseNumLoop; safe_tac
  | succ n ih => unfold parseNumLoop; safe_tac; exact ih _ _

theorem safe_parseNumConstant (d : Bytes) (n : Nat) : Safe d (parseNumConstant d n) :=
  safe_parseNumLoop d n 0 0

theorem safe_parseStringLoop (d : Bytes) (f len : Nat) : Safe d (parseStringLoop d f len) := by
  induction f generalizing len with
  | zero => unfold parseStringLoop; safe_tac
  | succ f ih => unfold parseStringLoop; safe_tac; exact ih _

theorem safe_parseString (d : Bytes) : Safe d (parseString d) := by
  unfold parseString
  have := safe_parseStringLoop d
  safe_tac
  exact this _ _

theorem safe_skipNamePrefix (d : Bytes) (f : Nat) : Safe d (skipNamePrefix d f) := by
  induction f with
  | zero => unfold skipNamePrefix; safe_tac
  | succ f ih => unfold skipNamePrefix; safe_tac

theorem safe_parseNamePath (d : Bytes) (next start : Nat) : Safe d (parseNamePath d next start) := by
  unfold parseNamePath
  safe_tac

theorem safe_parseNameString (d : Bytes) : Safe d (parseNameString d) := by
  unfold parseNameString
  have h1 := safe_skipNamePrefix d (d.size + 1)
  have h2 := safe_parseNamePath d
  safe_tac
  all_goals first | exact h2 _ _ | skip

theorem safe_checkOpcode (d : Bytes) (op n : Nat) : Safe d (checkOpcode d op n) := by
  unfold checkOpcode
  safe_tac

theorem safe_nextOpcode (d : Bytes) : Safe d (nextOpcode d) := by
  unfold nextOpcode
  have := safe_checkOpcode d
  safe_tac
  all_goals first | exact this _ _ | skip

theorem safe_peekNextOpcode (d : Bytes) : Safe d (peekNextOpcode d) := by
  unfold peekNextOpcode
  have := safe_nextOpcode d
  safe_tac

theorem safe_parseByteListRaw (d : Bytes) (n : Nat) : Safe d (parseByteListRaw d n) := by
  unfold parseByteListRaw
  safe_tac


/-! ## weakest-precondition style rules (for the relational facts: where slices lie, what is decoded) -/

/-- `x` run from `r` returns normally with a result/reader satisfying `post` -/
def wp (x : LexM α) (post : α → Reader → Prop) (r : Reader) : Prop :=
  ∃ a r', x r = .ok (a, r') ∧ post a r'

theorem wp_pure {post : α → Reader → Prop} {a : α} {r : Reader} (h : post a r) : wp (pure a : LexM α) post r :=
  ⟨a, r, rfl, h⟩

theorem wp_bind {x : LexM α} {f : α → LexM β} {post : β → Reader → Prop} {r : Reader}
    (h : wp x (fun a r' => wp (f a) post r') r) : wp (x >>= f) post r := by
  obtain ⟨a, r1, e1, b, r2, e2, hp⟩ := h
  refine ⟨b, r2, ?_, hp⟩
  show (StateT.bind x f) r = _
  simp only [StateT.bind, e1]
  exact e2

theorem wp_mono {x : LexM α} {p q : α → Reader → Prop} {r : Reader} (h : wp x p r)
    (hpq : ∀ a r', p a r' → q a r') : wp x q r := by
  obtain ⟨a, r', e, hp⟩ := h
  exact ⟨a, r', e, hpq _ _ hp⟩

theorem wp_readByte {d : Bytes} {post : Option UInt8 → Reader → Prop} {r : Reader} (h : Inv d r)
    (hn : r.pkgEnd ≤ r.offset → post none r)
    (hs : ∀ b, r.offset < r.pkgEnd → d[r.offset]? = some b → post (some b) { r with offset := r.offset + 1 }) :
    wp (readByte d) post r := by
  unfold wp readByte
  split
  · rename_i he
    exact ⟨_, _, rfl, hn (by simpa [Reader.eof] using he)⟩
  · rename_i he
    have hlt := eof_false h he
    rw [Array.getElem?_eq_getElem hlt]
    refine ⟨_, _, rfl, hs _ ?_ (Array.getElem?_eq_getElem hlt)⟩
    simp [Reader.eof] at he; omega

theorem wp_peekByte {d : Bytes} {post : Option UInt8 → Reader → Prop} {r : Reader} (h : Inv d r)
    (hn : r.pkgEnd ≤ r.offset → post none r)
    (hs : ∀ b, r.offset < r.pkgEnd → d[r.offset]? = some b → post (some b) r) :
    wp (peekByte d) post r := by
  unfold wp peekByte
  split
  · rename_i he
    exact ⟨_, _, rfl, hn (by simpa [Reader.eof] using he)⟩
  · rename_i he
    have hlt := eof_false h he
    rw [Array.getElem?_eq_getElem hlt]
    refine ⟨_, _, rfl, hs _ ?_ (Array.getElem?_eq_getElem hlt)⟩
    simp [Reader.eof] at he; omega

theorem wp_offset {post : Nat → Reader → Prop} {r : Reader} (h : post r.offset r) : wp offset post r :=
  ⟨_, _, rfl, h⟩
theorem wp_pkgEnd {post : Nat → Reader → Prop} {r : Reader} (h : post r.pkgEnd r) : wp pkgEnd post r :=
  ⟨_, _, rfl, h⟩
theorem wp_eof {post : Bool → Reader → Prop} {r : Reader} (h : post r.eof r) : wp eof post r :=
  ⟨_, _, rfl, h⟩

theorem wp_dataPtr {d : Bytes} {post : Option Nat → Reader → Prop} {r : Reader} (h : Inv d r)
    (hn : r.pkgEnd ≤ r.offset → post none r) (hs : r.offset < r.pkgEnd → post (some r.offset) r) :
    wp (dataPtr d) post r := by
  unfold wp dataPtr
  split
  · rename_i he
    exact ⟨_, _, rfl, hn (by simpa [Reader.eof] using he)⟩
  · rename_i he
    have hlt := eof_false h he
    rw [if_pos hlt]
    refine ⟨_, _, rfl, hs ?_⟩
    simp [Reader.eof] at he; omega

theorem wp_setOffset {d : Bytes} {post : Unit → Reader → Prop} {r : Reader} (off : Nat)
    (h : post () { r with offset := if off > d.size then d.size else off }) : wp (setOffset d off) post r :=
  ⟨_, _, rfl, h⟩

theorem wp_unreadByte {post : Bool → Reader → Prop} {r : Reader}
    (h0 : r.offset = 0 → post false r) (h1 : r.offset ≠ 0 → post true { r with offset := r.offset - 1 }) :
    wp unreadByte post r := by
  unfold wp unreadByte
  split
  · rename_i he; exact ⟨_, _, rfl, h0 he⟩
  · rename_i he; exact ⟨_, _, rfl, h1 he⟩

/-- a slice lies inside the table (a nil-data slice denotes no bytes) -/
def SliceIn (d : Bytes) (s : Slice) : Prop := ∀ off, s.data = some off → off + s.len ≤ d.size

theorem parseStringLoop_spec (d : Bytes) (f len : Nat) (r : Reader) (h : Inv d r) :
    wp (parseStringLoop d f len) (fun a r' => Inv d r' ∧ r.offset + a.1 ≤ r'.offset + len ∧ r.pkgEnd = r'.pkgEnd) r := by
  induction f generalizing len r with
  | zero => unfold parseStringLoop; exact wp_pure ⟨h, by simp, rfl⟩
  | succ f ih =>
    unfold parseStringLoop
    apply wp_bind
    apply wp_readByte h
    · intro _; exact wp_pure ⟨h, by simp, rfl⟩
    · intro b hlt _
      have h' : Inv d { r with offset := r.offset + 1 } := ⟨by show r.offset + 1 ≤ d.size; have := h.2; omega, h.2⟩
      dsimp only
      split
      · exact wp_pure ⟨h', by show r.offset + len ≤ r.offset + 1 + len; omega, rfl⟩
      · split
        · refine wp_mono (ih (len + 1) _ h') ?_
          intro a r' ⟨hi, hle, hpe⟩
          refine ⟨hi, ?_, hpe⟩
          simp only at hle; omega
        · exact wp_pure ⟨h', by show r.offset + len ≤ r.offset + 1 + len; omega, rfl⟩

theorem parseString_slice (d : Bytes) (r : Reader) (h : Inv d r) :
    wp (parseString d) (fun a r' => Inv d r' ∧ SliceIn d a.1) r := by
  unfold parseString
  apply wp_bind
  apply wp_dataPtr h
  · intro _
    apply wp_bind
    refine wp_mono (parseStringLoop_spec d _ 0 r h) ?_
    intro a r' ⟨hi, _, _⟩
    exact wp_pure ⟨hi, by intro off ho; simp at ho⟩
  · intro _
    apply wp_bind
    refine wp_mono (parseStringLoop_spec d _ 0 r h) ?_
    intro a r' ⟨hi, hle, _⟩
    refine wp_pure ⟨hi, ?_⟩
    intro off ho
    simp only [Option.some.injEq] at ho
    subst ho
    have := hi.1
    show r.offset + a.1 ≤ d.size
    omega

open Firefly.Gen.C12 in
macro "wp_step" : tactic => `(tactic| first
  | apply wp_bind | apply wp_offset | apply wp_pkgEnd | apply wp_setOffset | apply wp_eof | dsimp only)

theorem skipNamePrefix_spec (d : Bytes) (f : Nat) (r : Reader) (h : Inv d r) :
    wp (skipNamePrefix d f) (fun b r' => Inv d r' ∧ r.offset ≤ r'.offset ∧ r'.pkgEnd = r.pkgEnd ∧
      (b = true → r'.offset < r'.pkgEnd)) r := by
  induction f generalizing r with
  | zero => unfold skipNamePrefix; exact wp_pure ⟨h, Nat.le_refl _, rfl, by simp⟩
  | succ f ih =>
    unfold skipNamePrefix
    apply wp_bind
    apply wp_peekByte h
    · intro _; exact wp_pure ⟨h, Nat.le_refl _, rfl, by simp⟩
    · intro b hlt _
      dsimp only
      split
      · exact wp_pure ⟨h, Nat.le_refl _, rfl, fun _ => hlt⟩
      · apply wp_bind
        apply wp_readByte h
        · intro hc; omega
        · intro b' _ _
          have h' : Inv d { r with offset := r.offset + 1 } := ⟨by show r.offset + 1 ≤ d.size; have := h.2; omega, h.2⟩
          refine wp_mono (ih _ h') ?_
          intro a r' ⟨hi, hle, hpe, hb⟩
          exact ⟨hi, by simp only at hle; omega, hpe, hb⟩

theorem setOff_val (d : Bytes) (hd : d.size + 1024 ≤ 4294967296) (k : Nat) (hk : k ≤ 1020) (r : Reader) (h : Inv d r)
    (hle : ¬ u32 (r.offset + k) > r.pkgEnd) :
    (if u32 (r.offset + k) > d.size then d.size else u32 (r.offset + k)) = r.offset + k := by
  have h1 := h.1
  have h2 := h.2
  have hu : u32 (r.offset + k) = r.offset + k := by unfold u32; omega
  rw [hu] at hle ⊢
  split <;> omega

theorem finishPath (d : Bytes) (hd : d.size + 1024 ≤ 4294967296) (start k : Nat) (hk : k ≤ 1020) (r0 r : Reader)
    (h : Inv d r) (h0 : r0.offset ≤ r.offset) (hle : ¬ u32 (r.offset + k) > r.pkgEnd) :
    wp (do setOffset d (u32 (r.offset + k)); pure (some start) : LexM (Option Nat))
      (fun a r' => Inv d r' ∧ r0.offset ≤ r'.offset ∧ ∀ st, a = some st → st = start ∨ st = start + 1) r := by
  have hsz := h.1
  have hpe := h.2
  apply wp_bind
  apply wp_setOffset
  rw [setOff_val d hd k hk r h hle]
  have hu : u32 (r.offset + k) = r.offset + k := by unfold u32; omega
  rw [hu] at hle
  exact wp_pure ⟨⟨by show r.offset + k ≤ d.size; omega, hpe⟩, by show r0.offset ≤ r.offset + k; omega,
    by intro st hst; simp at hst; left; exact hst.symm⟩

theorem parseNamePath_spec (d : Bytes) (hd : d.size + 1024 ≤ 4294967296) (next start : Nat) (r : Reader) (h : Inv d r) :
    wp (parseNamePath d next start) (fun a r' => Inv d r' ∧ r.offset ≤ r'.offset ∧
      ∀ st, a = some st → st = start ∨ st = start + 1) r := by
  have hsz := h.1
  have hpe := h.2
  unfold parseNamePath
  split
  · exact wp_pure ⟨h, Nat.le_refl _, by intro st hst; simp at hst; right; exact hst.symm⟩
  · split
    · repeat wp_step
      split
      · exact wp_pure ⟨h, Nat.le_refl _, by intro st hst; simp at hst⟩
      · rename_i hle
        exact finishPath d hd start _ (by simp [Firefly.Gen.C12.amlNameLen]) r r h (Nat.le_refl _) hle
    · split
      · apply wp_bind
        apply wp_readByte h
        · intro _; exact wp_pure ⟨h, Nat.le_refl _, by intro st hst; simp at hst⟩
        · intro b hlt _
          have h' : Inv d { r with offset := r.offset + 1 } := ⟨by show r.offset + 1 ≤ d.size; omega, hpe⟩
          dsimp only
          split
          · exact wp_pure ⟨h', by show r.offset ≤ r.offset + 1; omega, by intro st hst; simp at hst⟩
          · repeat wp_step
            split
            · exact wp_pure ⟨h', by show r.offset ≤ r.offset + 1; omega, by intro st hst; simp at hst⟩
            · rename_i hle
              refine finishPath d hd start _ ?_ r _ h' (by show r.offset ≤ r.offset + 1; omega) hle
              have := b.toNat_lt
              simp [Firefly.Gen.C12.amlNameLen]; omega
      · split
        · exact wp_pure ⟨h, Nat.le_refl _, by intro st hst; simp at hst⟩
        · repeat wp_step
          split
          · exact wp_pure ⟨h, Nat.le_refl _, by intro st hst; simp at hst⟩
          · rename_i hle
            exact finishPath d hd start _ (by simp [Firefly.Gen.C12.amlNameLen]) r r h (Nat.le_refl _) hle

theorem parseNameString_slice (d : Bytes) (hd : d.size + 1024 ≤ 4294967296) (r : Reader) (h : Inv d r) :
    wp (parseNameString d) (fun a r' => Inv d r' ∧ SliceIn d a.1 ∧ (a.2 = .ok → a.1.data = some r.offset)) r := by
  unfold parseNameString
  have body : ∀ data : Option Nat, (∀ o, data = some o → o = r.offset) → (r.offset < r.pkgEnd → data = some r.offset) →
      wp (do
        let startOffset ← offset
        if (← skipNamePrefix d (d.size + 1)) then
          let next := ((← readByte d).getD 0).toNat
          match ← parseNamePath d next startOffset with
          | none => return ({}, PRes.failed)
          | some startOffset =>
            return ({ data := data, len := u32 ((← offset) + 4294967296 - startOffset) }, PRes.ok)
        else return ({}, PRes.failed) : LexM (Slice × PRes))
      (fun a r' => Inv d r' ∧ SliceIn d a.1 ∧ (a.2 = .ok → a.1.data = some r.offset)) r := by
    intro data hdata hdata2
    have nilOk : ∀ r', Inv d r' → Inv d r' ∧ SliceIn d ({} : Slice) ∧ (PRes.failed = PRes.ok → ({} : Slice).data = some r.offset) :=
      fun r' hi => ⟨hi, by intro o ho; simp at ho, by intro hc; cases hc⟩
    apply wp_bind; apply wp_offset
    apply wp_bind
    refine wp_mono (skipNamePrefix_spec d _ r h) ?_
    intro b r1 ⟨hi1, hle1, hpe1, hb1⟩
    split
    · rename_i hbt
      have hlt1 := hb1 hbt
      apply wp_bind
      apply wp_readByte hi1
      · intro hc; omega
      · intro b1 _ _
        have hi2 : Inv d { r1 with offset := r1.offset + 1 } := ⟨by show r1.offset + 1 ≤ d.size; have := hi1.2; omega, hi1.2⟩
        apply wp_bind
        refine wp_mono (parseNamePath_spec d hd _ r.offset _ hi2) ?_
        intro a r3 ⟨hi3, hle3, hst⟩
        split
        · exact wp_pure (nilOk _ hi3)
        · rename_i st
          apply wp_bind; apply wp_offset
          refine wp_pure ⟨hi3, ?_, ?_⟩
          · intro o ho
            have ho' := hdata o ho
            subst ho'
            have h3 := hi3.1
            have hle3' : r1.offset + 1 ≤ r3.offset := hle3
            show r.offset + u32 (r3.offset + 4294967296 - st) ≤ d.size
            rcases hst st rfl with e | e
            · subst e; unfold u32; omega
            · subst e; unfold u32; omega
          · intro _
            apply hdata2
            have := hi1.2
            omega
    · exact wp_pure (nilOk _ hi1)
  apply wp_bind
  apply wp_dataPtr h
  · intro hge
    exact body none (by intro o ho; simp at ho) (by intro hc; omega)
  · intro hlt
    exact body (some r.offset) (by intro o ho; simp at ho; exact ho.symm) (by intro _; rfl)


theorem parseByteListRaw_slice (d : Bytes) (n : Nat) (r : Reader) (h : Inv d r)
    (hfit : r.pkgEnd ≤ r.offset ∨ r.offset + n ≤ r.pkgEnd) :
    wp (parseByteListRaw d n) (fun sl r' => Inv d r' ∧ SliceIn d sl) r := by
  unfold parseByteListRaw
  have hi : ∀ off, Inv d { r with offset := if off > d.size then d.size else off } := by
    intro off
    refine ⟨?_, h.2⟩
    show (if off > d.size then d.size else off) ≤ d.size
    split <;> omega
  apply wp_bind
  apply wp_dataPtr h
  · intro _
    repeat wp_step
    exact wp_pure ⟨hi _, by intro o ho; simp at ho⟩
  · intro hlt
    repeat wp_step
    refine wp_pure ⟨hi _, ?_⟩
    intro o ho
    simp only [Option.some.injEq] at ho
    subst ho
    have := h.2
    show r.offset + n ≤ d.size
    omega

/-- the length `parseArg` passes for a ByteList argument, `pkgEnd - Offset()` in `uint32`, fits -/
theorem byteListArg_fits (d : Bytes) (hd : d.size < 4294967296) (r : Reader) (h : Inv d r) :
    r.pkgEnd ≤ r.offset ∨ r.offset + u32 (r.pkgEnd + 4294967296 - r.offset) ≤ r.pkgEnd := by
  have := h.1
  have := h.2
  unfold u32
  omega

/-! ## round trips -/

theorem readByte_at {d : Bytes} {r : Reader} {b : UInt8} (hlt : r.offset < r.pkgEnd) (hb : d[r.offset]? = some b) :
    readByte d r = .ok (some b, { r with offset := r.offset + 1 }) := by
  unfold readByte
  have : r.eof = false := by simp [Reader.eof]; omega
  simp [this, hb]
  rfl

theorem parseNumLoop_roundtrip (d : Bytes) (v n : Nat) (base pe : Nat)
    (henc : ∀ i, i < n → d[base + i]? = some (UInt8.ofNat ((v / 256 ^ i) % 256))) (hfit : base + n ≤ pe) :
    ∀ m c, m + c = n →
      parseNumLoop d m c (v % 256 ^ c) { offset := base + c, pkgEnd := pe } =
        .ok ((v % 256 ^ n, PRes.ok), { offset := base + n, pkgEnd := pe }) := by
  intro m
  induction m with
  | zero =>
    intro c hc
    simp at hc; subst hc
    unfold parseNumLoop; rfl
  | succ m ih =>
    intro c hc
    unfold parseNumLoop
    have hb := henc c (by omega)
    have hrd := readByte_at (d := d) (r := { offset := base + c, pkgEnd := pe }) (b := UInt8.ofNat ((v / 256 ^ c) % 256))
      (by show base + c < pe; omega) hb
    show (StateT.bind (readByte d) _) _ = _
    simp only [StateT.bind, hrd]
    show parseNumLoop d m (c + 1) _ _ = _
    have hval : (v % 256 ^ c ||| (UInt8.ofNat ((v / 256 ^ c) % 256)).toNat <<< (8 * c)) = v % 256 ^ (c + 1) := by
      have h1 : (UInt8.ofNat ((v / 256 ^ c) % 256)).toNat = (v / 256 ^ c) % 256 := by
        simp [UInt8.toNat_ofNat']
      rw [h1, Nat.or_comm]
      have hlt : v % 256 ^ c < 2 ^ (8 * c) := by
        have : (256 : Nat) ^ c = 2 ^ (8 * c) := by rw [Nat.pow_mul]
        rw [← this]; exact Nat.mod_lt _ (Nat.pow_pos (by decide))
      rw [← Nat.shiftLeft_add_eq_or_of_lt hlt, Nat.shiftLeft_eq, Nat.mod_pow_succ]
      have : (2 : Nat) ^ (8 * c) = 256 ^ c := by rw [Nat.pow_mul]
      rw [this, Nat.mul_comm, Nat.add_comm]
    rw [hval]
    have := ih (c + 1) (by omega)
    simpa [Nat.add_assoc] using this

theorem or_shift (a b k : Nat) (h : b < 2 ^ k) : a <<< k ||| b = a * 2 ^ k + b := by
  rw [← Nat.shiftLeft_add_eq_or_of_lt h, Nat.shiftLeft_eq]

/-- one-byte PkgLength -/
theorem pkglen1 (d : Bytes) (v base pe : Nat) (hv : v < 64) (hfit : base + 1 ≤ pe)
    (h0 : d[base]? = some (UInt8.ofNat v)) :
    parsePkgLength d { offset := base, pkgEnd := pe } = .ok ((v, PRes.ok), { offset := base + 1, pkgEnd := pe }) := by
  unfold parsePkgLength
  have hrd := readByte_at (d := d) (r := { offset := base, pkgEnd := pe }) (b := UInt8.ofNat v) (by show base < pe; omega) h0
  show (StateT.bind offset _) _ = _
  simp only [StateT.bind, offset, pure, Except.pure, bind, Except.bind, hrd]
  have ht : (UInt8.ofNat v).toNat = v := by simp [UInt8.toNat_ofNat']; omega
  have hs : v >>> 6 = 0 := by rw [Nat.shiftRight_eq_div_pow]; simp; omega
  simp [ht, hs]
  rfl

/-- two-byte PkgLength -/
theorem pkglen2 (d : Bytes) (v base pe : Nat) (hv : v < 4096) (hfit : base + 2 ≤ pe)
    (h0 : d[base]? = some (UInt8.ofNat (64 + v % 16))) (h1 : d[base + 1]? = some (UInt8.ofNat (v / 16 % 256))) :
    parsePkgLength d { offset := base, pkgEnd := pe } = .ok ((v, PRes.ok), { offset := base + 2, pkgEnd := pe }) := by
  unfold parsePkgLength
  have hrd0 := readByte_at (d := d) (r := { offset := base, pkgEnd := pe }) (b := UInt8.ofNat (64 + v % 16)) (by show base < pe; omega) h0
  have hrd1 := readByte_at (d := d) (r := { offset := base + 1, pkgEnd := pe }) (b := UInt8.ofNat (v / 16 % 256)) (by show base + 1 < pe; omega) h1
  show (StateT.bind offset _) _ = _
  simp only [StateT.bind, offset, pure, Except.pure, bind, Except.bind, hrd0]
  have ht : (UInt8.ofNat (64 + v % 16)).toNat = 64 + v % 16 := by simp [UInt8.toNat_ofNat']; omega
  have ht1 : (UInt8.ofNat (v / 16 % 256)).toNat = v / 16 := by simp [UInt8.toNat_ofNat']; omega
  have hs : (64 + v % 16) >>> 6 = 1 := by rw [Nat.shiftRight_eq_div_pow]; simp; omega
  have ha : (64 + v % 16) &&& 15 = v % 16 := by
    have := Nat.and_two_pow_sub_one_eq_mod (64 + v % 16) 4
    simp at this; rw [this]; omega
  have hv' : (v / 16) <<< 4 ||| v % 16 = v := by
    rw [or_shift _ _ 4 (by omega)]; omega
  simp only [ht, hs, StateT.bind, bind, Except.bind, hrd1, ht1, ha, hv']
  rfl

/-- three-byte PkgLength -/
theorem pkglen3 (d : Bytes) (v base pe : Nat) (hv : v < 1048576) (hfit : base + 3 ≤ pe)
    (h0 : d[base]? = some (UInt8.ofNat (128 + v % 16))) (h1 : d[base + 1]? = some (UInt8.ofNat (v / 16 % 256)))
    (h2 : d[base + 2]? = some (UInt8.ofNat (v / 16 / 256 % 256))) :
    parsePkgLength d { offset := base, pkgEnd := pe } = .ok ((v, PRes.ok), { offset := base + 3, pkgEnd := pe }) := by
  unfold parsePkgLength
  have hrd0 := readByte_at (d := d) (r := { offset := base, pkgEnd := pe }) (b := UInt8.ofNat (128 + v % 16)) (by show base < pe; omega) h0
  have hrd1 := readByte_at (d := d) (r := { offset := base + 1, pkgEnd := pe }) (b := UInt8.ofNat (v / 16 % 256)) (by show base + 1 < pe; omega) h1
  have hrd2 := readByte_at (d := d) (r := { offset := base + 1 + 1, pkgEnd := pe }) (b := UInt8.ofNat (v / 16 / 256 % 256)) (by show base + 1 + 1 < pe; omega) h2
  show (StateT.bind offset _) _ = _
  simp only [StateT.bind, offset, pure, Except.pure, bind, Except.bind, hrd0]
  have ht : (UInt8.ofNat (128 + v % 16)).toNat = 128 + v % 16 := by simp [UInt8.toNat_ofNat']; omega
  have ht1 : (UInt8.ofNat (v / 16 % 256)).toNat = v / 16 % 256 := by simp [UInt8.toNat_ofNat']
  have ht2 : (UInt8.ofNat (v / 16 / 256 % 256)).toNat = v / 4096 := by simp [UInt8.toNat_ofNat']; omega
  have hs : (128 + v % 16) >>> 6 = 2 := by rw [Nat.shiftRight_eq_div_pow]; simp; omega
  have ha : (128 + v % 16) &&& 15 = v % 16 := by
    have := Nat.and_two_pow_sub_one_eq_mod (128 + v % 16) 4
    simp at this; rw [this]; omega
  have hv' : (v / 4096) <<< 12 ||| (v / 16 % 256) <<< 4 ||| v % 16 = v := by
    have e1 : (v / 4096) <<< 12 ||| (v / 16 % 256) <<< 4 = (v / 4096 * 256 + v / 16 % 256) <<< 4 := by
      rw [or_shift _ _ 12 (by rw [Nat.shiftLeft_eq]; omega)]
      simp only [Nat.shiftLeft_eq]; omega
    rw [e1, or_shift _ _ 4 (by omega)]; omega
  simp only [ht, hs, StateT.bind, bind, Except.bind, hrd1, hrd2, ht1, ht2, ha, hv']
  rfl

/-- four-byte PkgLength -/
theorem pkglen4 (d : Bytes) (v base pe : Nat) (hv : v < 268435456) (hfit : base + 4 ≤ pe)
    (h0 : d[base]? = some (UInt8.ofNat (192 + v % 16))) (h1 : d[base + 1]? = some (UInt8.ofNat (v / 16 % 256)))
    (h2 : d[base + 2]? = some (UInt8.ofNat (v / 16 / 256 % 256)))
    (h3 : d[base + 3]? = some (UInt8.ofNat (v / 16 / 65536 % 256))) :
    parsePkgLength d { offset := base, pkgEnd := pe } = .ok ((v, PRes.ok), { offset := base + 4, pkgEnd := pe }) := by
  unfold parsePkgLength
  have hrd0 := readByte_at (d := d) (r := { offset := base, pkgEnd := pe }) (b := UInt8.ofNat (192 + v % 16)) (by show base < pe; omega) h0
  have hrd1 := readByte_at (d := d) (r := { offset := base + 1, pkgEnd := pe }) (b := UInt8.ofNat (v / 16 % 256)) (by show base + 1 < pe; omega) h1
  have hrd2 := readByte_at (d := d) (r := { offset := base + 1 + 1, pkgEnd := pe }) (b := UInt8.ofNat (v / 16 / 256 % 256)) (by show base + 1 + 1 < pe; omega) h2
  have hrd3 := readByte_at (d := d) (r := { offset := base + 1 + 1 + 1, pkgEnd := pe }) (b := UInt8.ofNat (v / 16 / 65536 % 256)) (by show base + 1 + 1 + 1 < pe; omega) h3
  show (StateT.bind offset _) _ = _
  simp only [StateT.bind, offset, pure, Except.pure, bind, Except.bind, hrd0]
  have ht : (UInt8.ofNat (192 + v % 16)).toNat = 192 + v % 16 := by simp [UInt8.toNat_ofNat']; omega
  have ht1 : (UInt8.ofNat (v / 16 % 256)).toNat = v / 16 % 256 := by simp [UInt8.toNat_ofNat']
  have ht2 : (UInt8.ofNat (v / 16 / 256 % 256)).toNat = v / 4096 % 256 := by simp [UInt8.toNat_ofNat']; omega
  have ht3 : (UInt8.ofNat (v / 16 / 65536 % 256)).toNat = v / 1048576 := by simp [UInt8.toNat_ofNat']; omega
  have hs : (192 + v % 16) >>> 6 = 3 := by rw [Nat.shiftRight_eq_div_pow]; simp; omega
  have ha : (192 + v % 16) &&& 15 = v % 16 := by
    have := Nat.and_two_pow_sub_one_eq_mod (192 + v % 16) 4
    simp at this; rw [this]; omega
  have hv' : (v / 1048576) <<< 20 ||| (v / 4096 % 256) <<< 12 ||| (v / 16 % 256) <<< 4 ||| v % 16 = v := by
    have e1 : (v / 1048576) <<< 20 ||| (v / 4096 % 256) <<< 12 = (v / 1048576 * 256 + v / 4096 % 256) <<< 12 := by
      rw [or_shift _ _ 20 (by rw [Nat.shiftLeft_eq]; omega)]
      simp only [Nat.shiftLeft_eq]; omega
    have e2 : (v / 1048576 * 256 + v / 4096 % 256) <<< 12 ||| (v / 16 % 256) <<< 4 =
        ((v / 1048576 * 256 + v / 4096 % 256) * 256 + v / 16 % 256) <<< 4 := by
      rw [or_shift _ _ 12 (by rw [Nat.shiftLeft_eq]; omega)]
      simp only [Nat.shiftLeft_eq]; omega
    rw [e1, e2, or_shift _ _ 4 (by omega)]; omega
  simp only [ht, hs, StateT.bind, bind, Except.bind, hrd1, hrd2, hrd3, ht1, ht2, ht3, ha, hv']
  rfl

end Firefly.AmlLex
