import Firefly.Proof.MemUtil
import Firefly.Proof.VmmMap
/-! The word-level steps of the vmm model that stand for `kernel.Memset` (clearing a new table) and
`kernel.Memcopy` (copying a frame) are exactly the byte-level functions of `Model/MemUtil.lean`
applied to the byte view of the model's memory. -/
namespace Firefly.Vmm
open Firefly.MemUtil

/-- the byte at physical address `pa` (x86-64 is little endian) -/
def byteView (m : Mem) : Bytes := fun pa =>
  BitVec.setWidth 8 ((m.rd (pa / 4096) (pa % 4096 / 8)) >>> (8 * (pa % 8)))

/-- **clearTable_eq_memset**: the model's "clear frame `f`" step (`Mem.setFrame f (fun _ => 0)`, used
by `Map` for a new table level, by `PageDirectoryTable.Init` and by `reserveZeroedFrame`) is
`Memset(f·4096, 0, 4096)` as written, on the byte view: `Memset` terminates (12 doublings) and the
resulting memories agree on every byte. -/
theorem clearTable_eq_memset (m : Mem) (f : Nat) :
    ∃ mem' it, memset (byteView m) (f * 4096) 0 4096#64 = .done mem' it ∧ it = 12 ∧
      ∀ pa, mem' pa = byteView (m.setFrame f (fun _ => 0)) pa := by
  obtain ⟨mem', it, h1, h2, h3, h4⟩ := memset_fills_core (byteView m) (f * 4096) 0 4096#64 (by decide)
  have hit : it = 12 := by
    obtain ⟨a, b⟩ := h3 (by decide)
    have hs : (4096#64 : BitVec 64).toNat = 2 ^ 12 := by decide
    rw [hs] at a b
    have h12 : it ≤ 12 := by
      by_cases h : it ≤ 12
      · exact h
      · have : 2 ^ 12 ≤ 2 ^ (it - 1) := Nat.pow_le_pow_right (by omega) (by omega)
        have := b (by omega); omega
    have h12' : 12 ≤ it := by
      by_cases h : 12 ≤ it
      · exact h
      · have : 2 ^ it ≤ 2 ^ 11 := Nat.pow_le_pow_right (by omega) (by omega)
        omega
    omega
  refine ⟨mem', it, h1, hit, fun pa => ?_⟩
  rw [h2 pa]
  have hs : (4096#64 : BitVec 64).toNat = 4096 := by decide
  rw [hs]
  simp only [byteView, rd_setFrame]
  by_cases hin : f * 4096 ≤ pa ∧ pa < f * 4096 + 4096
  · have : f = pa / 4096 := by omega
    rw [if_pos hin, if_pos this]; simp
  · have : ¬ f = pa / 4096 := by omega
    rw [if_neg hin, if_neg this]

/-- **copyFrame_eq_memcopy**: the model's "frame `fd` := contents of frame `fs`" step (the copy-on-write
handler) is `Memcopy(fs·4096, fd·4096, 4096)` as written, on the byte view. -/
theorem copyFrame_eq_memcopy (m : Mem) (fs fd : Nat) (pa : Nat) :
    memcopy (byteView m) (fs * 4096) (fd * 4096) 4096#64 pa =
      byteView (m.setFrame fd (fun i => m.rd fs i)) pa := by
  rw [memcopy_copies_core]
  have hs : (4096#64 : BitVec 64).toNat = 4096 := by decide
  rw [hs]
  simp only [byteView, rd_setFrame]
  by_cases hin : fd * 4096 ≤ pa ∧ pa < fd * 4096 + 4096
  · have h1 : fd = pa / 4096 := by omega
    have h2 : (fs * 4096 + (pa - fd * 4096)) / 4096 = fs := by omega
    have h3 : (fs * 4096 + (pa - fd * 4096)) % 4096 = pa % 4096 := by omega
    have h4 : (fs * 4096 + (pa - fd * 4096)) % 8 = pa % 8 := by omega
    rw [if_pos hin, if_pos h1, h2, h3, h4]
  · have : ¬ fd = pa / 4096 := by omega
    rw [if_neg hin, if_neg this]

end Firefly.Vmm
