import Firefly.Proof.VmmPdtFull
import Firefly.Proof.VmmCow
/-! The copy-on-write fault in full generality (the temporary mapping may have to create its tables). -/
namespace Firefly.Vmm
open Firefly.Gen.C04

/-- a present abstract entry comes with the path that leads to it -/
theorem hwEntry_some {m : Mem} {R : W} {own : Own} (ho : Owned m R own) {va : W} (hu : UserVA va) {e : W}
    (h : hwEntry m R va = some e) :
    ∃ T1 T2 T3, Path m R va T1 T2 T3 ∧ m.rd (frameN T3) (kidx va 3) = e ∧ e &&& 1#64 ≠ 0#64 := by
  have c0 : Chain m R va 0 R := rfl
  have hb0 : m.backed (frameN R) = true := ho.backed _ _ ho.root
  unfold hwEntry at h
  change entWalk m va [0, 1, 2, 3] R = some e at h
  by_cases p0 : m.rd (frameN R) (kidx va 0) &&& 1#64 = 0#64
  · rw [entWalk_absent p0] at h; cases h
  have l0 : Link m R (kidx va 0) (m.rd (frameN R) (kidx va 0) &&& hwMask) :=
    ⟨hb0, p0, ho.nohuge _ _ _ _ ho.root (by omega), rfl⟩
  have c1 : Chain m R va 1 _ := ⟨R, c0, l0⟩
  have o1 := chain_own ho hu 1 _ (by omega) c1
  rw [entWalk_link l0] at h
  generalize m.rd (frameN R) (kidx va 0) &&& hwMask = T1 at *
  by_cases p1 : m.rd (frameN T1) (kidx va 1) &&& 1#64 = 0#64
  · rw [entWalk_absent p1] at h; cases h
  have l1 : Link m T1 (kidx va 1) (m.rd (frameN T1) (kidx va 1) &&& hwMask) :=
    ⟨ho.backed _ _ o1, p1, ho.nohuge _ _ _ _ o1 (by omega), rfl⟩
  have c2 : Chain m R va 2 _ := ⟨T1, c1, l1⟩
  have o2 := chain_own ho hu 2 _ (by omega) c2
  rw [entWalk_link l1] at h
  generalize m.rd (frameN T1) (kidx va 1) &&& hwMask = T2 at *
  by_cases p2 : m.rd (frameN T2) (kidx va 2) &&& 1#64 = 0#64
  · rw [entWalk_absent p2] at h; cases h
  have l2 : Link m T2 (kidx va 2) (m.rd (frameN T2) (kidx va 2) &&& hwMask) :=
    ⟨ho.backed _ _ o2, p2, ho.nohuge _ _ _ _ o2 (by omega), rfl⟩
  have c3 : Chain m R va 3 _ := ⟨T2, c2, l2⟩
  have o3 := chain_own ho hu 3 _ (by omega) c3
  rw [entWalk_link l2] at h
  generalize m.rd (frameN T2) (kidx va 2) &&& hwMask = T3 at *
  have hb3 := ho.backed _ _ o3
  rw [entWalk_last hb3] at h
  by_cases p3 : m.rd (frameN T3) (kidx va 3) &&& 1#64 = 0#64
  · rw [if_pos p3] at h; cases h
  · rw [if_neg p3] at h
    have := Option.some.inj h
    exact ⟨T1, T2, T3, ⟨l0, l1, l2, hb3⟩, this, by rw [← this]; exact p3⟩

theorem Good.pop {st : St} {R : W} {own : Own} (g : Good st R own) {f : W} {rest : List W} (hf : st.free = f :: rest)
    (k : Nat) : Good { st with free := rest, allocs := k } R own := by
  refine ⟨⟨g.win.top, g.win.self⟩, g.owned, g.act, ?_, ?_⟩
  · intro x hx; exact g.free x (by rw [hf]; exact List.mem_cons_of_mem _ hx)
  · have := g.nodup; rw [hf, List.map_cons, List.nodup_cons] at this; exact this.2

theorem userVA_temp : UserVA tempVA := by unfold UserVA; decide

theorem cowEntry_present (e copy : W) : cowEntry e copy &&& 1#64 ≠ 0#64 := by
  unfold cowEntry
  rw [setFrame_and_low _ _ _ (by decide)]
  unfold setFlags
  rw [BitVec.and_or_distrib_right]
  have : (fPresent ||| fRW) &&& 1#64 = 1#64 := by decide
  rw [this]
  rcases and_one_cases (clearFlags e fCoW) with h | h <;> rw [h] <;> decide

/-- what a recovered copy-on-write fault guarantees -/
structure CowPost (st st' : St) (R : W) (own own' : Own) (va e copy : W) (rest : List W) : Prop where
  good : Good st' R own'
  ext : ∀ F x, own F = some x → own' F = some x
  /-- the page now has the private writable entry, the temporary page is unmapped, other pages unchanged -/
  as : ∀ va', UserVA va' → hwEntry st'.mem R va' =
    if SamePage va' va then some (cowEntry e copy)
    else if SamePage va' tempVA then none else hwEntry st.mem R va'
  /-- the new frame holds what the page showed, the shared frame is untouched (when the page's old frame
  is RAM outside the page tables and the allocator) -/
  copied : st.mem.backed (frameN (e &&& hwMask)) = true → own (frameN (e &&& hwMask)) = none →
    (∀ f ∈ st.free, f.toNat ≠ frameN (e &&& hwMask)) →
    (∀ i, st'.mem.rd copy.toNat i = st.mem.rd (frameN (e &&& hwMask)) i) ∧
    (∀ i, st'.mem.rd (frameN (e &&& hwMask)) i = st.mem.rd (frameN (e &&& hwMask)) i)
  /-- new tables come from the allocator -/
  newfree : ∀ F, own F = none → own' F ≠ none → ∃ f ∈ rest, f.toNat = F
  /-- memory outside the tables and the new frame is untouched -/
  foot : ∀ F j, own' F = none → F ≠ copy.toNat → st'.mem.rd F j = st.mem.rd F j
  flushes : st'.flushes = st.flushes ++ [tempVA, tempVA, va]
  sub : ∃ used, rest = used ++ st'.free
  regs : SameRegs st st'

set_option maxHeartbeats 1000000 in
/-- **The copy-on-write fault, every case.**  Well-formed active address space; the faulting page
(outside the recursive slot, not the temporary page) has a present, read-only, copy-on-write entry
`e` whose frame is RAM outside the page tables and the allocator; the allocator's next frame is
`copy`; the temporary mapping is not refused.  Then the handler either panics because the allocator
ran out while creating the temporary page's tables, or returns with `CowPost`. -/
theorem pageFault_full {st : St} {R : W} {own : Own} (g : Good st R own) (hA : st.cr3 &&& hwMask = R) (addr : W)
    (hu : UserVA (pageAddr (pageOf addr))) (hnt : ¬SamePage (pageAddr (pageOf addr)) tempVA)
    {e : W} (he : hwEntry st.mem R (pageAddr (pageOf addr)) = some e)
    (hrw : hasFlags e fRW = false) (hcow : hasFlags e fCoW = true)
    {copy : W} {rest : List W} (hf : st.free = copy :: rest) (htf : st.tmpFail = false)
    (hz : (st.protect && copy == st.zeroFrame) = false) :
    pageFault st addr = .error (.panic (200 + eAlloc)) ∨
    ∃ st' own', pageFault st addr = .ok ((), st') ∧
      CowPost st st' R own own' (pageAddr (pageOf addr)) e copy rest := by
  generalize hva : pageAddr (pageOf addr) = va at *
  obtain ⟨T1, T2, T3, pf, hle, hpres⟩ := hwEntry_some g.owned hu he
  have o3 : own (frameN T3) = some (3, idxs va 3) := chain_own g.owned hu 3 T3 (by omega) pf.chain3
  have hwalk : walk faultCb va none st = .ok (some (frameN T3, kidx va 3), st) :=
    walk_faultCb_leaf g.win pf (by rw [hle]; exact hpres)
  obtain ⟨hco, hcb, hcn, hcA⟩ := g.free copy (by rw [hf]; exact List.mem_cons_self)
  have hcrest : ∀ x ∈ rest, x.toNat ≠ copy.toNat := by
    intro x hx h
    have := g.nodup; rw [hf, List.map_cons, List.nodup_cons] at this
    exact this.1 (by rw [← h]; exact List.mem_map_of_mem hx)
  -- S1: allocate
  let st1 : St := { st with free := rest, allocs := st.allocs + 1 }
  have halloc : allocFrame st = some (copy, st1) := by simp [allocFrame, hf, st1]
  have g1 : Good st1 R own := g.pop hf _
  -- S2: temporary mapping
  have hut : UserVA (pageAddr (pageOf tempVA)) := by rw [tempVA_page]; exact userVA_temp
  obtain ⟨code, st2, own2, hm, post, out⟩ := mapOp_full g1 (pageOf tempVA) copy (fPresent ||| fRW) hut
  rw [tempVA_page] at post out
  have hz1 : (st1.protect && copy == st1.zeroFrame) = false := hz
  have htf1 : st1.tmpFail = false := htf
  have hmt : mapTemporaryFn st1 copy =
      (if code ≠ 0 then .ok ((code, 0), st2) else .ok ((0, pageOf tempVA), st2)) := by
    simp only [mapTemporaryFn, htf1, Bool.false_eq_true, if_false, mapTemporary, hz1, hm]
  unfold pageFault
  simp only [hva, hwalk, St.rdLoc, hle, hrw, hcow, Bool.not_false, Bool.and_self, if_true, halloc, hmt]
  rcases out with (⟨rfl, hfl2, has2⟩ | ⟨rfl, _, _, _⟩) | ⟨rfl, _, hp, hzz, _⟩
  rotate_left
  · left; simp [eAlloc]
  · exfalso
    have : (st1.protect && copy == st1.zeroFrame) = true := by simp [hp, hzz]
    rw [hz1] at this; cases this
  right
  simp only [ne_eq, not_true_eq_false, if_false]
  -- facts about st2
  have hcn2 : own2 copy.toNat = none := by
    cases hx : own2 copy.toNat with
    | none => rfl
    | some x =>
      obtain ⟨f, hfm, hfe⟩ := post.newfree copy.toNat hcn (by rw [hx]; simp)
      exact absurd hfe (hcrest f hfm)
  have hcr2 : st2.cr3 &&& hwMask = R := by rw [post.regs.cr3]; exact hA
  have hasF2 : hwEntry st2.mem R va = some e := by
    rw [has2 va hu, if_neg hnt]; exact he
  have hasT2 : hwEntry st2.mem R tempVA = some (mkEntry copy (fPresent ||| fRW)) := by
    have h1 : mkEntry copy (fPresent ||| fRW) &&& 1#64 ≠ 0#64 := by rw [mkEntry_low 1#64 (by decide)]; decide
    rw [has2 tempVA userVA_temp, if_pos (show SamePage tempVA tempVA from rfl), if_neg h1]
  -- S3: contents
  have hmmuF : mmu st2.mem st2.cr3 va = some (e &&& hwMask) := by
    unfold mmu
    rw [hcr2, mmuWalk_eq_hwEntry post.good.owned hu, hasF2, ← hva]
    simp [pageAddr_low]
  -- S4: the temporary page shows the copy
  have hfl3 : FlagsOK (fPresent ||| fRW) := by unfold FlagsOK; decide
  have hmmuT : mmu st2.mem st2.cr3 (pageAddr (pageOf tempVA)) = some (copy <<< 12) := by
    rw [tempVA_page]
    unfold mmu
    rw [hcr2, mmuWalk_eq_hwEntry post.good.owned userVA_temp, hasT2]
    have h2 : tempVA &&& 0xfff#64 = 0#64 := by decide
    simp [mkEntry_frame hco hfl3, h2]
  have hcN : ((copy <<< 12) >>> 12).toNat = copy.toNat := frameN_shl12 hco
  have hbk2 : st2.mem.backed copy.toNat = true := by
    rw [post.regs.backed]; exact hcb
  have hal : (copy <<< 12) &&& 0xfff#64 = 0#64 := shl12_and_low _ (by decide)
  simp only [hmmuT, hcN, hbk2, hal, beq_self_eq_true, Bool.and_self, Bool.not_true, Bool.false_eq_true, if_false]
  -- state after the copy
  let st3 : St := { st2 with mem := st2.mem.setFrame copy.toNat (pageContents st2 va) }
  have hrd3 : ∀ F j, F ≠ copy.toNat → st3.mem.rd F j = st2.mem.rd F j := by
    intro F j h; simp only [st3, rd_setFrame, if_neg (Ne.symm h)]
  have hown2c : ∀ F x, own2 F = some x → F ≠ copy.toNat := fun F x hF h => by rw [h, hcn2] at hF; cases hF
  have g3 : Good st3 R own2 := by
    have g2 := post.good
    have hAc : copy.toNat ≠ frameN (st2.cr3 &&& hwMask) := by rw [post.regs.cr3]; exact hcA
    refine ⟨⟨g2.win.top.setFrame _ _ hAc, g2.win.self.setFrame _ _ (Ne.symm (hown2c _ _ g2.owned.root))⟩,
      g2.owned.congr (fun _ => rfl) (fun F x hF j => hrd3 F j (hown2c F x hF)), g2.act, ?_, g2.nodup⟩
    intro f hfm
    obtain ⟨a1, a2, a3, a4⟩ := g2.free f hfm
    exact ⟨a1, by simpa [st3] using a2, a3, a4⟩
  have has3 : ∀ va', UserVA va' → hwEntry st3.mem R va' = hwEntry st2.mem R va' := fun va' hu' =>
    hwEntry_congr_owned (m' := st3.mem) post.good.owned (fun _ => rfl) (fun F x hF j => hrd3 F j (hown2c F x hF)) va' hu'
  -- S5: unmap the temporary page
  obtain ⟨ucode, st4, hum, uout⟩ := unmapOp_full g3 (pageOf tempVA) hut
  rw [tempVA_page] at uout
  rw [show ({ st2 with mem := st2.mem.setFrame copy.toNat (pageContents st2 va) } : St) = st3 from rfl, hum]
  simp only
  rcases uout with ⟨rfl, g4, r4, f4, fl4, foot4, path4, as4⟩ | ⟨_, _, hnone⟩
  rotate_left
  · exfalso; rw [has3 tempVA userVA_temp, hasT2] at hnone; cases hnone
  -- the leaf entry of the faulting page is still `e`
  have o3' : own2 (frameN T3) = some (3, idxs va 3) := post.ext _ _ o3
  have hnsame : ¬(idxs va 3 = idxs tempVA 3 ∧ kidx va 3 = kidx tempVA 3) := by
    rintro ⟨h1, h2⟩; apply hnt; unfold SamePage; rw [idxs_succ, idxs_succ tempVA 3, h1, h2]
  have hleaf4 : st4.mem.rd (frameN T3) (kidx va 3) = e := by
    have e43 : st4.mem.rd (frameN T3) (kidx va 3) = st3.mem.rd (frameN T3) (kidx va 3) := by
      by_cases h : st4.mem.rd (frameN T3) (kidx va 3) = st3.mem.rd (frameN T3) (kidx va 3)
      · exact h
      · obtain ⟨_, h2, h3⟩ := path4 _ _ _ _ o3' h
        exact absurd ⟨h2, h3⟩ hnsame
    have e32 := hrd3 (frameN T3) (kidx va 3) (hown2c _ _ o3')
    have e21 : st2.mem.rd (frameN T3) (kidx va 3) = st1.mem.rd (frameN T3) (kidx va 3) := by
      by_cases h : st2.mem.rd (frameN T3) (kidx va 3) = st1.mem.rd (frameN T3) (kidx va 3)
      · exact h
      · obtain ⟨h2, h3⟩ := post.path _ _ _ _ o3 h
        exact absurd ⟨h3, h2⟩ hnsame
    rw [e43, e32, e21]; exact hle
  rw [hleaf4]
  -- the final state
  have hasF4 : hwEntry st4.mem R va = some e := by
    rw [as4 va hu, if_neg hnt, has3 va hu]; exact hasF2
  obtain ⟨T1', T2', T3', pf4, hle4, _⟩ := hwEntry_some g4.owned hu hasF4
  have o34 := chain_own g4.owned hu 3 T3' (by omega) pf4.chain3
  have hT : frameN T3' = frameN T3 := g4.owned.inj _ _ _ o34 o3'
  refine ⟨_, own2, rfl, ?_⟩
  have hfin := hwEntry_leaf_wr g4.owned hu pf4.chain3 (cowEntry e copy)
  rw [hT] at hfin
  refine ⟨g4.wr_leaf o3' _ _ _, post.ext, ?_, ?_, ?_, ?_, ?_, ?_, ?_⟩
  · intro va' hu'
    show hwEntry (st4.mem.wr (frameN T3) (kidx va 3) (cowEntry e copy)) R va' = _
    rw [hfin va' hu']
    by_cases hs : SamePage va' va
    · rw [if_pos hs, if_pos hs, if_neg (cowEntry_present e copy)]
    · rw [if_neg hs, if_neg hs, as4 va' hu']
      by_cases ht : SamePage va' tempVA
      · rw [if_pos ht, if_pos ht]
      · rw [if_neg ht, if_neg ht, has3 va' hu', has2 va' hu', if_neg ht]
  · intro hold holdn holdf
    have holdn2 : own2 (frameN (e &&& hwMask)) = none := by
      cases hx : own2 (frameN (e &&& hwMask)) with
      | none => rfl
      | some x =>
        obtain ⟨f, hfm, hfe⟩ := post.newfree _ holdn (by rw [hx]; simp)
        exact absurd hfe (holdf f (by rw [hf]; exact List.mem_cons_of_mem _ hfm))
    have hsrc : pageContents st2 va = fun i => st.mem.rd (frameN (e &&& hwMask)) i := by
      unfold pageContents
      rw [hmmuF]
      have : st2.mem.backed ((e &&& hwMask) >>> 12).toNat = true := by
        show st2.mem.backed (frameN (e &&& hwMask)) = true
        rw [post.regs.backed]; exact hold
      simp only [this, if_true]
      funext i
      exact post.foot _ i holdn2
    constructor
    · intro i
      simp only [St.flush, St.wrLoc, rd_wr]
      rw [if_neg (fun h => (hown2c _ _ o3') h.1), foot4 _ _ hcn2]
      simp [st3, hsrc]
    · intro i
      simp only [St.flush, St.wrLoc, rd_wr]
      have hne : frameN T3 ≠ frameN (e &&& hwMask) := fun h => by rw [h, holdn2] at o3'; cases o3'
      rw [if_neg (fun h => hne h.1), foot4 _ _ holdn2, hrd3 _ _ (fun h => by
        have := holdf copy (by rw [hf]; exact List.mem_cons_self); exact this h.symm), post.foot _ _ holdn2]
  · exact post.newfree
  · intro F j hF hFc
    simp only [St.flush, St.wrLoc, rd_wr]
    rw [if_neg (fun h => by rw [← h.1, o3'] at hF; cases hF), foot4 _ _ hF, hrd3 _ _ hFc, post.foot _ _ hF]
  · simp only [St.flush, St.wrLoc, fl4]
    show st2.flushes ++ [tempVA] ++ [va] = _
    rw [hfl2]; simp [st1]
  · obtain ⟨used, hused⟩ := post.sub
    exact ⟨used, by show rest = used ++ st4.free; rw [f4]; exact hused⟩
  · exact SameRegs.trans (b := st1) ⟨rfl, rfl, rfl, rfl, rfl, rfl, fun _ => rfl⟩
      (SameRegs.trans post.regs (SameRegs.trans (b := st3) ⟨rfl, rfl, rfl, rfl, rfl, rfl, fun _ => rfl⟩
        (SameRegs.trans r4 ⟨rfl, rfl, rfl, rfl, rfl, rfl, fun _ => rfl⟩)))

end Firefly.Vmm
