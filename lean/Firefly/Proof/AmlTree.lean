import Firefly.Spec.C13
/-!
Lemmas for C13: pool updates, pigeonhole, link chains of a well-formed pool.
-/
namespace Firefly.C13
open Firefly.AmlTree Firefly.AmlTree.ObjectTree

/-! ## pigeonhole -/

theorem nodup_bounded_length : ∀ (n : Nat) (l : List Nat), l.Nodup → (∀ x ∈ l, x < n) → l.length ≤ n := by
  intro n
  induction n with
  | zero =>
    intro l _ hb
    cases l with
    | nil => simp
    | cons a l => exact absurd (hb a (by simp)) (by omega)
  | succ n ih =>
    intro l hd hb
    by_cases hm : n ∈ l
    · have h1 := ih (l.erase n) (hd.erase n) (by
        intro x hx
        have := (hd.mem_erase_iff).1 hx
        have := hb x this.2
        omega)
      have := List.length_erase_of_mem hm
      omega
    · have := ih l hd (by
        intro x hx
        have := hb x hx
        have : x ≠ n := fun e => hm (e ▸ hx)
        omega)
      omega

/-! ## slots and single-field updates -/

theorem slot_of_lt {t : ObjectTree} {i : Nat} (h : i < t.pool.size) : slot t i = t.pool[i] := by
  simp [slot, h]

theorem obj_eq {t : ObjectTree} {i : Nat} (h : i < t.pool.size) : t.obj i = .ok (slot t i) := by
  simp [ObjectTree.obj, slot, h]

theorem obj_panic {t : ObjectTree} {i : Nat} (h : ¬ i < t.pool.size) : t.obj i = .error .panic := by
  simp [ObjectTree.obj, h]

theorem live_lt {t : ObjectTree} {i : Nat} (h : live t i = true) : i < t.pool.size := by
  simp [live] at h; exact h.1

theorem live_opcode {t : ObjectTree} {i : Nat} (h : live t i = true) : (slot t i).opcode ≠ pOpIntFreedObject := by
  simp [live] at h; exact h.2

theorem objectAt_live {t : ObjectTree} {i : Nat} (h : live t i = true) : t.ObjectAt i = some i := by
  have h1 := live_lt h
  have h2 := live_opcode h
  simp [ObjectTree.ObjectAt, h1]
  simpa [slot, h1] using h2

theorem objectAt_some {t : ObjectTree} {i j : Nat} (h : t.ObjectAt i = some j) : j = i ∧ live t i = true := by
  unfold ObjectTree.ObjectAt at h
  by_cases hi : i < t.pool.size
  · simp [hi] at h
    refine ⟨h.2.symm, ?_⟩
    simp [live, hi, slot]
    exact h.1
  · simp [hi] at h

theorem objectAt_none {t : ObjectTree} {i : Nat} (h : live t i = false) : t.ObjectAt i = none := by
  cases h' : t.ObjectAt i with
  | none => rfl
  | some j => have := (objectAt_some h').2; simp [h] at this

/-- the pure effect of one pointer write -/
def setAt (t : ObjectTree) (i : Nat) (f : Obj → Obj) : ObjectTree :=
  { t with pool := t.pool.modify i f }

theorem upd_eq {t : ObjectTree} {i : Nat} (f : Obj → Obj) (h : i < t.pool.size) :
    t.upd i f = .ok (setAt t i f) := by
  simp only [ObjectTree.upd, h, dite_true, setAt]
  congr 2
  apply Array.ext
  · simp
  · intro j h1 h2
    simp [Array.getElem_set, Array.getElem_modify]
    by_cases hij : i = j
    · subst hij; simp
    · simp [hij]

@[simp] theorem size_setAt (t : ObjectTree) (i : Nat) (f : Obj → Obj) : (setAt t i f).pool.size = t.pool.size := by
  simp [setAt]

@[simp] theorem freeHead_setAt (t : ObjectTree) (i : Nat) (f : Obj → Obj) :
    (setAt t i f).freeListHeadIndex = t.freeListHeadIndex := rfl

theorem slot_setAt (t : ObjectTree) (i : Nat) (f : Obj → Obj) (j : Nat) (h : i < t.pool.size) :
    slot (setAt t i f) j = if i = j then f (slot t j) else slot t j := by
  simp only [slot, setAt, Array.getElem?_modify]
  by_cases hij : i = j
  · subst hij; simp [h]
  · simp [hij]

/-! ## chains -/

/-- `l` is the list of positions visited from `i` by following `step` until the sentinel, all live -/
def Chain (t : ObjectTree) (step : Nat → Nat) : Nat → List Nat → Prop
  | i, [] => i = INV
  | i, x :: xs => i = x ∧ live t x = true ∧ Chain t step (step x) xs

theorem live_ne_INV {t : ObjectTree} (hs : t.pool.size ≤ INV) {i : Nat} (h : live t i = true) : i ≠ INV := by
  have := live_lt h; omega

/-- a walk along links that strictly change a rank visits each pool position at most once, so it
ends within `pool.size` steps -/
theorem chain_exists (t : ObjectTree) (step : Nat → Nat) (r : Nat → Nat) (lt : Nat → Nat → Prop)
    (irr : ∀ a, ¬ lt a a) (tr : ∀ a b c, lt a b → lt b c → lt a c)
    (hstep : ∀ i, live t i = true → step i = INV ∨ live t (step i) = true)
    (hr : ∀ i, live t i = true → step i ≠ INV → lt (r i) (r (step i))) :
    ∀ (k : Nat) (V : List Nat) (i : Nat), V.Nodup → (∀ v ∈ V, v < t.pool.size ∧ lt (r v) (r i)) →
      live t i = true → V.length + k = t.pool.size → ∃ l, Chain t step i l ∧ l.length ≤ k := by
  intro k
  induction k with
  | zero =>
    intro V i hd hV hl hk
    exfalso
    have hnd : (i :: V).Nodup := by
      rw [List.nodup_cons]
      refine ⟨fun hm => irr _ (hV i hm).2, hd⟩
    have := nodup_bounded_length t.pool.size (i :: V) hnd (by
      intro x hx
      rcases List.mem_cons.1 hx with rfl | hx
      · exact live_lt hl
      · exact (hV x hx).1)
    simp at this; omega
  | succ k ih =>
    intro V i hd hV hl hk
    by_cases h0 : step i = INV
    · exact ⟨[i], ⟨rfl, hl, h0⟩, by simp⟩
    · have h1 : live t (step i) = true := by
        rcases hstep i hl with h | h
        · exact absurd h h0
        · exact h
      have hlt := hr i hl h0
      have hnd : (i :: V).Nodup := by
        rw [List.nodup_cons]
        exact ⟨fun hm => irr _ (hV i hm).2, hd⟩
      obtain ⟨l, hc, hlen⟩ := ih (i :: V) (step i) hnd (by
        intro v hv
        rcases List.mem_cons.1 hv with rfl | hv
        · exact ⟨live_lt hl, hlt⟩
        · exact ⟨(hV v hv).1, tr _ _ _ (hV v hv).2 hlt⟩) h1 (by simp; omega)
      exact ⟨i :: l, ⟨rfl, hl, hc⟩, by simp; omega⟩

/-! ## consequences of `WF` -/

theorem linkOK_iff {t : ObjectTree} {x : Nat} : linkOK t x = true ↔ x = INV ∨ live t x = true := by
  simp [linkOK]

/-- the five link fields of a live object are the sentinel or live positions -/
theorem WF.links {t : ObjectTree} (w : WF t) {i : Nat} (h : live t i = true) :
    (P t i = INV ∨ live t (P t i) = true) ∧ (Pv t i = INV ∨ live t (Pv t i) = true) ∧
    (Nx t i = INV ∨ live t (Nx t i) = true) ∧ (Fi t i = INV ∨ live t (Fi t i) = true) ∧
    (La t i = INV ∨ live t (La t i) = true) := by
  have := w.loc i h
  simp only [localOK, Bool.and_eq_true, linkOK_iff] at this
  obtain ⟨⟨⟨⟨⟨⟨⟨⟨⟨⟨⟨⟨h1, h2⟩, h3⟩, h4⟩, h5⟩, _⟩, _⟩, _⟩, _⟩, _⟩, _⟩, _⟩, _⟩ := this
  exact ⟨h1, h2, h3, h4, h5⟩

/-- sibling walks from a live position (or the sentinel) end within `pool.size` steps -/
theorem WF.sibChain {t : ObjectTree} (w : WF t) (i : Nat) (h : i = INV ∨ live t i = true) :
    ∃ l, Chain t (Nx t) i l ∧ l.length ≤ t.pool.size := by
  by_cases h0 : i = INV
  · exact ⟨[], h0, by simp⟩
  · have hl : live t i = true := by rcases h with h | h; exact absurd h h0; exact h
    obtain ⟨pos, hpos⟩ := w.order
    exact chain_exists t (Nx t) pos (· < ·) (fun a => Nat.lt_irrefl a) (fun a b c => Nat.lt_trans)
      (fun j hj => (w.links hj).2.2.1) hpos t.pool.size [] i (by simp) (by simp) hl (by simp)

/-- parent walks from a live position (or the sentinel) end within `pool.size` steps -/
theorem WF.parChain {t : ObjectTree} (w : WF t) (i : Nat) (h : i = INV ∨ live t i = true) :
    ∃ l, Chain t (P t) i l ∧ l.length ≤ t.pool.size := by
  by_cases h0 : i = INV
  · exact ⟨[], h0, by simp⟩
  · have hl : live t i = true := by rcases h with h | h; exact absurd h h0; exact h
    obtain ⟨rk, hrk⟩ := w.rank
    exact chain_exists t (P t) rk (fun a b => b < a) (fun a => Nat.lt_irrefl a)
      (fun a b c h1 h2 => Nat.lt_trans h2 h1)
      (fun j hj => (w.links hj).1) hrk t.pool.size [] i (by simp) (by simp) hl (by simp)

/-! ## the lookup loops on chains -/

theorem matchName_ok (expr : List UInt8) (seg : Nat) (nm : Name) (h : seg + 4 ≤ expr.length) :
    ∃ b, matchName expr seg nm [0, 1, 2, 3] = .ok b := by
  have h0 : seg + 0 < expr.length := by omega
  have h1 : seg + 1 < expr.length := by omega
  have h2 : seg + 2 < expr.length := by omega
  have h3 : seg + 3 < expr.length := by omega
  simp only [matchName, List.getElem?_eq_getElem h0, List.getElem?_eq_getElem h1,
    List.getElem?_eq_getElem h2, List.getElem?_eq_getElem h3]
  repeat' split
  all_goals exact ⟨_, rfl⟩

theorem deref_some (i : Nat) : deref (some i) = .ok i := rfl

/-- the sibling scan on a chain: never an error; a hit is a live position -/
theorem scanSiblings_ok {t : ObjectTree} (hs : t.pool.size ≤ INV) (expr : List UInt8) (seg : Nat)
    (hseg : seg + 4 ≤ expr.length) :
    ∀ (l : List Nat) (f i : Nat), Chain t (Nx t) i l → l.length ≤ f →
      ∃ r, scanSiblings t expr seg f i = .ok r ∧
        ∀ j o, r = some (j, o) → live t j = true ∧ o = slot t j := by
  intro l
  induction l with
  | nil =>
    intro f i hc _
    have : i = INV := hc
    cases f <;> simp [scanSiblings, this, INV]
  | cons x xs ih =>
    intro f i hc hf
    obtain ⟨rfl, hl, hc'⟩ := hc
    cases f with
    | zero => simp at hf
    | succ f =>
      have hne : i ≠ InvalidIndex := live_ne_INV hs hl
      obtain ⟨b, hb⟩ := matchName_ok expr seg (slot t i).name hseg
      obtain ⟨r, hr, hr'⟩ := ih f (Nx t i) hc' (by simpa using hf)
      simp only [scanSiblings, hne, if_false, objectAt_live hl, deref_some, obj_eq (live_lt hl),
        bind, Except.bind, hb]
      cases b with
      | true => exact ⟨_, rfl, by intro j o h; cases h; exact ⟨hl, rfl⟩⟩
      | false => exact ⟨r, by simpa [Nx] using hr, hr'⟩

/-- scanning the argument list of a live object -/
theorem scanArgs_ok {t : ObjectTree} (w : WF t) (expr : List UInt8) (seg : Nat)
    (hseg : seg + 4 ≤ expr.length) {s : Nat} (hl : live t s = true) :
    ∃ r, scanSiblings t expr seg t.fuel (slot t s).firstArgIndex = .ok r ∧
      ∀ j o, r = some (j, o) → live t j = true ∧ o = slot t j := by
  obtain ⟨l, hc, hlen⟩ := w.sibChain (Fi t s) (w.links hl).2.2.2.1
  exact scanSiblings_ok w.size_le expr seg hseg l t.fuel _ hc (by simp [ObjectTree.fuel]; omega)

/-- a lookup result: the sentinel or a live position -/
def GoodIdx (t : ObjectTree) (r : Res Nat) : Prop := ∃ i, r = .ok i ∧ (i = INV ∨ live t i = true)

theorem skipPrefix_ge (expr : List UInt8) : ∀ f s, s ≤ skipPrefix expr f s := by
  intro f
  induction f with
  | zero => intro s; simp [skipPrefix]
  | succ f ihf =>
    intro s
    unfold skipPrefix
    split
    · omega
    · rename_i b _
      split
      · omega
      · by_cases hb : b = 0x2f
        · have := ihf (s + 2); simp only [hb, if_true]; omega
        · have := ihf (s + 1); simp only [hb, if_false]; omega

theorem findRelativeLoop_ok {t : ObjectTree} (w : WF t) (expr : List UInt8) :
    ∀ (n scope seg : Nat), live t scope = true → expr.length < n + seg →
      GoodIdx t (findRelativeLoop t expr n scope seg) := by
  intro n
  induction n with
  | zero =>
    intro scope seg hl hn
    have : ¬ seg < expr.length := by omega
    exact ⟨scope, by simp [findRelativeLoop, this], Or.inr hl⟩
  | succ n ih =>
    intro scope seg hl hn
    unfold findRelativeLoop
    by_cases h1 : seg < expr.length
    · simp only [h1, if_true]
      by_cases h2 : expr.length - skipPrefix expr expr.length seg < amlNameLen
      · simp only [h2, if_true]; exact ⟨_, rfl, Or.inl rfl⟩
      · simp only [h2, if_false, objectAt_live hl, deref_some, obj_eq (live_lt hl), bind, Except.bind]
        have hseg : skipPrefix expr expr.length seg + 4 ≤ expr.length := by
          simp [amlNameLen] at h2; omega
        obtain ⟨r, hr, hr'⟩ := scanArgs_ok w expr _ hseg hl
        rw [hr]
        cases r with
        | none => exact ⟨_, rfl, Or.inl rfl⟩
        | some p =>
          obtain ⟨j, o⟩ := p
          have := (hr' j o rfl).1
          simp only []
          apply ih j _ this
          have := skipPrefix_ge expr expr.length seg
          simp [amlNameLen]; omega
    · simp only [h1, if_false]; exact ⟨scope, rfl, Or.inr hl⟩

theorem findRelative_ok {t : ObjectTree} (w : WF t) (expr : List UInt8) {scope : Nat}
    (hl : live t scope = true) : GoodIdx t (t.findRelative scope expr) :=
  findRelativeLoop_ok w expr _ scope 0 hl (by omega)

theorem findCarets_ok {t : ObjectTree} (w : WF t) :
    ∀ (rest : List UInt8) (scope : Nat), live t scope = true → GoodIdx t (t.findCarets scope rest) := by
  intro rest
  induction rest with
  | nil => intro scope hl; exact ⟨scope, rfl, Or.inr hl⟩
  | cons b rest ih =>
    intro scope hl
    unfold findCarets
    by_cases hb : b = 0x5e
    · simp only [hb, if_true, objectAt_live hl, deref_some, obj_eq (live_lt hl), bind, Except.bind]
      by_cases hp : (slot t scope).parentIndex = InvalidIndex
      · simp only [hp, if_true]; exact ⟨_, rfl, Or.inl rfl⟩
      · simp only [hp, if_false]
        apply ih
        rcases (w.links hl).1 with h | h
        · exact absurd h hp
        · exact h
    · simp only [hb, if_false]; exact findRelative_ok w _ hl

theorem findUpward_ok {t : ObjectTree} (w : WF t) (expr : List UInt8) (hlen : 4 ≤ expr.length) :
    ∀ (l : List Nat) (f scope : Nat), Chain t (P t) scope l → l.length ≤ f →
      GoodIdx t (findUpward t expr f scope) := by
  intro l
  induction l with
  | nil =>
    intro f scope hc _
    have : scope = INV := hc
    cases f <;> exact ⟨INV, by simp [findUpward, this, INV], Or.inl rfl⟩
  | cons x xs ih =>
    intro f scope hc hf
    obtain ⟨rfl, hl, hc'⟩ := hc
    cases f with
    | zero => simp at hf
    | succ f =>
      have hne : scope ≠ InvalidIndex := live_ne_INV w.size_le hl
      obtain ⟨r, hr, hr'⟩ := scanArgs_ok w expr 0 (by omega) hl
      simp only [findUpward, hne, if_false, objectAt_live hl, deref_some, obj_eq (live_lt hl),
        bind, Except.bind, hr]
      cases r with
      | none => exact ih f _ hc' (by simpa using hf)
      | some p =>
        obtain ⟨j, o⟩ := p
        obtain ⟨hj, rfl⟩ := hr' j o rfl
        refine ⟨_, rfl, Or.inr ?_⟩
        rw [w.index_eq j (live_lt hj)]; exact hj

theorem find_ok {t : ObjectTree} (w : WF t) (scope : Nat) (expr : List UInt8)
    (hroot : live t 0 = true) (hl : scope = INV ∨ live t scope = true) : GoodIdx t (t.Find scope expr) := by
  unfold ObjectTree.Find
  cases expr with
  | nil => exact ⟨_, rfl, Or.inl rfl⟩
  | cons b rest =>
    simp only []
    by_cases h0 : scope = InvalidIndex
    · simp only [h0, if_true]; exact ⟨_, rfl, Or.inl rfl⟩
    · have hl : live t scope = true := by rcases hl with h | h; exact absurd h h0; exact h
      simp only [h0, if_false]
      by_cases h1 : b = 0x5c
      · simp only [h1, if_true]
        by_cases h2 : rest.isEmpty = true
        · simp only [h2, if_true]; exact ⟨0, rfl, Or.inr hroot⟩
        · simp only [h2]; exact findRelative_ok w _ hroot
      · simp only [h1, if_false]
        by_cases h2 : b = 0x5e
        · simp only [h2, if_true]; exact findCarets_ok w _ _ hl
        · simp only [h2, if_false]
          by_cases h3 : (b :: rest).length > amlNameLen
          · simp only [h3, if_true]; exact findRelative_ok w _ hl
          · simp only [h3, if_false]
            by_cases h4 : (b :: rest).length = amlNameLen
            · simp only [h4, if_true]
              obtain ⟨l, hc, hlen⟩ := w.parChain scope (Or.inr hl)
              exact findUpward_ok w _ (by simp [amlNameLen] at h4; simp; omega) l _ _ hc
                (by simp [ObjectTree.fuel]; omega)
            · simp only [h4, if_false]; exact ⟨_, rfl, Or.inl rfl⟩

/-! ## argument-list walks -/

theorem kidsLoop_eq {t : ObjectTree} (hs : t.pool.size ≤ INV) :
    ∀ (l : List Nat) (f i : Nat), Chain t (Nx t) i l → l.length ≤ f → kidsLoop t f i = .ok l := by
  intro l
  induction l with
  | nil =>
    intro f i hc _
    have : i = INV := hc
    cases f <;> simp [kidsLoop, this, INV]
  | cons x xs ih =>
    intro f i hc hf
    obtain ⟨rfl, hl, hc'⟩ := hc
    cases f with
    | zero => simp at hf
    | succ f =>
      have hne : i ≠ InvalidIndex := live_ne_INV hs hl
      have := ih f (Nx t i) hc' (by simpa using hf)
      simp only [Nx] at this
      simp [kidsLoop, hne, objectAt_live hl, deref_some, obj_eq (live_lt hl), bind, Except.bind, this, pure,
        Except.pure]

theorem countLoop_eq {t : ObjectTree} (hs : t.pool.size ≤ INV) :
    ∀ (l : List Nat) (f i acc : Nat), Chain t (Nx t) i l → l.length ≤ f →
      countLoop t f i acc = .ok (acc + l.length) := by
  intro l
  induction l with
  | nil =>
    intro f i acc hc _
    have : i = INV := hc
    cases f <;> simp [countLoop, this, INV]
  | cons x xs ih =>
    intro f i acc hc hf
    obtain ⟨rfl, hl, hc'⟩ := hc
    cases f with
    | zero => simp at hf
    | succ f =>
      have hne : i ≠ InvalidIndex := live_ne_INV hs hl
      have := ih f (Nx t i) (acc + 1) hc' (by simpa using hf)
      simp only [Nx] at this
      simp [countLoop, hne, objectAt_live hl, deref_some, obj_eq (live_lt hl), bind, Except.bind, this]
      omega

theorem argLoop_eq {t : ObjectTree} (hs : t.pool.size ≤ INV) (index : Nat) :
    ∀ (l : List Nat) (f i a : Nat), Chain t (Nx t) i l → l.length ≤ f → a ≤ index →
      argLoop t index f i a = .ok (l[index - a]?) := by
  intro l
  induction l with
  | nil =>
    intro f i a hc _ _
    have : i = INV := hc
    cases f <;> simp [argLoop, this, INV]
  | cons x xs ih =>
    intro f i a hc hf ha
    obtain ⟨rfl, hl, hc'⟩ := hc
    cases f with
    | zero => simp at hf
    | succ f =>
      have hne : i ≠ InvalidIndex := live_ne_INV hs hl
      by_cases he : a = index
      · subst he
        simp [argLoop, hne, objectAt_live hl]
      · have := ih f (Nx t i) (a + 1) hc' (by simpa using hf) (by omega)
        simp only [Nx] at this
        have hidx : index - a = (index - (a + 1)) + 1 := by omega
        simp [argLoop, hne, he, objectAt_live hl, deref_some, obj_eq (live_lt hl), bind, Except.bind, this, hidx]

/-- the ordered argument list of a live object is a chain, and `args` computes it -/
theorem WF.args_eq {t : ObjectTree} (w : WF t) {i : Nat} (hl : live t i = true) :
    ∃ l, Chain t (Nx t) (Fi t i) l ∧ t.args i = .ok l ∧ l.length ≤ t.pool.size := by
  obtain ⟨l, hc, hlen⟩ := w.sibChain (Fi t i) (w.links hl).2.2.2.1
  refine ⟨l, hc, ?_, hlen⟩
  have := kidsLoop_eq w.size_le l t.fuel _ hc (by simp [ObjectTree.fuel]; omega)
  simp only [Fi] at this
  simp [ObjectTree.args, obj_eq (live_lt hl), bind, Except.bind, this]

theorem closestLoop_ok {t : ObjectTree} (hs : t.pool.size ≤ INV) (named : Nat → Option Bool)
    (hn : ∀ i, live t i = true → (named (slot t i).infoIndex).isSome = true) :
    ∀ (l : List Nat) (f a : Nat), Chain t (P t) a l → l.length ≤ f →
      GoodIdx t (closestLoop named t f a) := by
  intro l
  induction l with
  | nil =>
    intro f a hc _
    have : a = INV := hc
    cases f <;> exact ⟨INV, by simp [closestLoop, this, INV], Or.inl rfl⟩
  | cons x xs ih =>
    intro f a hc hf
    obtain ⟨rfl, hl, hc'⟩ := hc
    cases f with
    | zero => simp at hf
    | succ f =>
      have hne : a ≠ InvalidIndex := live_ne_INV hs hl
      simp only [closestLoop, hne, if_false, objectAt_live hl, deref_some, obj_eq (live_lt hl), bind, Except.bind]
      by_cases hsc : (slot t a).opcode = pOpScope
      · simp only [hsc, if_true]; exact ⟨_, rfl, Or.inl rfl⟩
      · simp only [hsc, if_false]
        have := hn a hl
        cases hnm : named (slot t a).infoIndex with
        | none => simp [hnm] at this
        | some b =>
          cases b with
          | true => exact ⟨a, rfl, Or.inr hl⟩
          | false => exact ih f _ hc' (by simpa using hf)

/-! ## the certificate checker is sound -/

theorem freeChainB_iff (t : ObjectTree) : ∀ (fl : List Nat) (h : Nat), freeChainB t h fl = true ↔ FreeChain t h fl := by
  intro fl
  induction fl with
  | nil => intro h; simp [freeChainB, FreeChain]
  | cons x xs ih =>
    intro h
    simp only [freeChainB, FreeChain, Bool.and_eq_true, decide_eq_true_eq, Bool.not_eq_true', ih]
    constructor
    · rintro ⟨⟨⟨a, b⟩, c⟩, d⟩; exact ⟨a, b, c, d⟩
    · rintro ⟨a, b, c, d⟩; exact ⟨⟨⟨a, b⟩, c⟩, d⟩

theorem wfCert_sound' {t : ObjectTree} {rk pos : Array Nat} {fl : List Nat}
    (h : wfCert t rk pos fl = true) : WF t := by
  simp only [wfCert, Bool.and_eq_true, decide_eq_true_eq, List.all_eq_true, List.mem_range] at h
  obtain ⟨⟨hs, hall⟩, hfree⟩ := h
  have hfree := (freeChainB_iff t fl _).1 hfree
  refine ⟨hs, ?_, ?_, ⟨fun i => rk.getD i 0, ?_⟩, ⟨fun i => pos.getD i 0, ?_⟩, ⟨fl, hfree, ?_⟩⟩
  · intro i hi
    have := (hall i hi).1
    simpa using this
  · intro i hl
    have := (hall i (live_lt hl)).2
    simp only [hl, if_true, Bool.and_eq_true] at this
    exact this.1.1
  · intro i hl hp
    have := (hall i (live_lt hl)).2
    simp only [hl, if_true, Bool.and_eq_true, Bool.or_eq_true, decide_eq_true_eq] at this
    rcases this.1.2 with h | h
    · exact absurd h hp
    · exact h
  · intro i hl hp
    have := (hall i (live_lt hl)).2
    simp only [hl, if_true, Bool.and_eq_true, Bool.or_eq_true, decide_eq_true_eq] at this
    rcases this.2 with h | h
    · exact absurd h hp
    · exact h
  · intro i hi hl
    have := (hall i hi).2
    simp only [hl, Bool.false_eq_true, if_false] at this
    simpa using this

/-! ## children have the right parent; the free list -/

theorem WF.localP {t : ObjectTree} (w : WF t) {i : Nat} (h : live t i = true) :
    (P t i = INV → Pv t i = INV ∧ Nx t i = INV) ∧
    (Pv t i ≠ INV → Nx t (Pv t i) = i ∧ P t (Pv t i) = P t i) ∧
    (Nx t i ≠ INV → Pv t (Nx t i) = i ∧ P t (Nx t i) = P t i) ∧
    (P t i ≠ INV → Pv t i = INV → Fi t (P t i) = i) ∧
    (P t i ≠ INV → Nx t i = INV → La t (P t i) = i) ∧
    (Fi t i ≠ INV → P t (Fi t i) = i ∧ Pv t (Fi t i) = INV) ∧
    (La t i ≠ INV → P t (La t i) = i ∧ Nx t (La t i) = INV) ∧
    (Fi t i = INV ↔ La t i = INV) := by
  have := w.loc i h
  simp only [localOK, Bool.and_eq_true, Bool.or_eq_true, decide_eq_true_eq, ne_eq,
    decide_not, Bool.not_eq_true', decide_eq_false_iff_not, beq_iff_eq, decide_eq_decide] at this
  obtain ⟨⟨⟨⟨⟨⟨⟨⟨_, c1⟩, c2⟩, c3⟩, c4⟩, c5⟩, c6⟩, c7⟩, c8⟩ := this
  refine ⟨?_, ?_, ?_, ?_, ?_, ?_, ?_, c8⟩
  · intro h; rcases c1 with h' | h'; exact absurd h h'; exact h'
  · intro h; rcases c2 with h' | h'; exact absurd h' h; exact h'
  · intro h; rcases c3 with h' | h'; exact absurd h' h; exact h'
  · intro h1 h2; rcases c4 with (h' | h') | h'; exact absurd h' h1; exact absurd h2 h'; exact h'
  · intro h1 h2; rcases c5 with (h' | h') | h'; exact absurd h' h1; exact absurd h2 h'; exact h'
  · intro h; rcases c6 with h' | h'; exact absurd h' h; exact h'
  · intro h; rcases c7 with h' | h'; exact absurd h' h; exact h'

/-- every element of a sibling chain has the parent of its head -/
theorem WF.chain_parent {t : ObjectTree} (w : WF t) :
    ∀ (l : List Nat) (i p : Nat), Chain t (Nx t) i l → (i ≠ INV → P t i = p) → ∀ k ∈ l, live t k = true ∧ P t k = p := by
  intro l
  induction l with
  | nil => intro i p _ _ k hk; simp at hk
  | cons x xs ih =>
    intro i p hc hp k hk
    obtain ⟨rfl, hl, hc'⟩ := hc
    have hi := hp (live_ne_INV w.size_le hl)
    rcases List.mem_cons.1 hk with rfl | hk
    · exact ⟨hl, hi⟩
    · exact ih (Nx t i) p hc' (fun hne => by rw [((w.localP hl).2.2.1 hne).2, hi]) k hk

theorem freeChain_head {t : ObjectTree} (hs : t.pool.size ≤ INV) {h : Nat} {fl : List Nat} (hc : FreeChain t h fl) :
    (h = INV ↔ fl = []) ∧ (h ≠ INV → h < t.pool.size ∧ live t h = false) := by
  cases fl with
  | nil => exact ⟨⟨fun _ => rfl, fun _ => hc⟩, fun hne => absurd hc hne⟩
  | cons x xs =>
    obtain ⟨rfl, hx, hl, _⟩ := hc
    refine ⟨⟨fun e => ?_, fun e => by cases e⟩, fun _ => ⟨hx, hl⟩⟩
    have : h ≠ INV := by omega
    exact absurd e this

end Firefly.C13
