import Firefly.Model.Pmm
/-! Bit-level lemmas for the bitmap allocator proofs (core Lean only). -/
namespace Firefly.Pmm

/-- bit `i` of a bitmap in the allocator's order: word `i/64`, bit `63 - i%64` -/
def bitAt (ws : List Word) (i : Nat) : Bool := (ws.getD (i / 64) 0).getLsbD (63 - i % 64)

theorem bitMask_getLsbD (rel j : Nat) (hj : j < 64) :
    (bitMask rel).getLsbD j = decide (j = 63 - rel % 64) := by
  unfold bitMask
  rw [BitVec.getLsbD_shiftLeft]
  simp only [hj, decide_true, Bool.true_and]
  by_cases h : j < 63 - rel % 64
  · simp [h]; omega
  · simp [h]
    by_cases h2 : j = 63 - rel % 64
    · simp [h2]
    · simp [h2]
      have : j - (63 - rel % 64) ≠ 0 := by omega
      simp [this]

theorem findClear_some {w : Word} {off : Nat} (h : findClear w = some off) :
    off < 64 ∧ w.getLsbD (63 - off) = false ∧ ∀ j, j < off → w.getLsbD (63 - j) = true := by
  unfold findClear at h
  have h1 := List.find?_some h
  have hm := List.mem_of_find?_eq_some h
  simp only [List.mem_range] at hm
  refine ⟨hm, by simpa using h1, ?_⟩
  intro j hj
  have := List.find?_eq_some_iff_getElem.1 h
  obtain ⟨_, i, hi, hget, hbefore⟩ := this
  simp only [List.getElem_range] at hget
  subst hget
  have := hbefore j hj
  simpa [List.getElem_range] using this

theorem findClear_none {w : Word} (h : findClear w = none) : w = BitVec.allOnes 64 := by
  unfold findClear at h
  rw [List.find?_eq_none] at h
  apply BitVec.eq_of_getLsbD_eq
  intro i hi
  have := h (63 - i) (by simp; omega)
  have e : 63 - (63 - i) = i := by omega
  simp only [e, Bool.not_eq_true, Bool.not_eq_false'] at this
  rw [BitVec.getLsbD_allOnes, this]; simp [hi]

theorem allOnes_getLsbD (j : Nat) (hj : j < 64) : (BitVec.allOnes 64).getLsbD j = true := by
  rw [BitVec.getLsbD_allOnes]; simp [hj]

theorem bitAt_cons_lt (w : Word) (ws : List Word) (i : Nat) (h : i < 64) :
    bitAt (w :: ws) i = w.getLsbD (63 - i) := by
  unfold bitAt
  have : i / 64 = 0 := by omega
  have : i % 64 = i := by omega
  simp [*]

theorem bitAt_cons_ge (w : Word) (ws : List Word) (i : Nat) (h : 64 ≤ i) :
    bitAt (w :: ws) i = bitAt ws (i - 64) := by
  unfold bitAt
  have h1 : i / 64 = (i - 64) / 64 + 1 := by omega
  have h2 : i % 64 = (i - 64) % 64 := by omega
  rw [h1, h2]; simp

/-- a successful scan returns the first clear bit of the bitmap -/
theorem scanWords_some {ws : List Word} {k blk off : Nat} (h : scanWords ws k = some (blk, off)) :
    k ≤ blk ∧ blk - k < ws.length ∧ off < 64 ∧ bitAt ws ((blk - k) * 64 + off) = false ∧
    ∀ j, j < (blk - k) * 64 + off → bitAt ws j = true := by
  induction ws generalizing k with
  | nil => simp [scanWords] at h
  | cons w ws ih =>
    unfold scanWords at h
    by_cases hw : w = BitVec.allOnes 64
    · simp only [hw, if_true] at h
      obtain ⟨h1, h2, h3, h4, h5⟩ := ih h
      have e : blk - k = (blk - (k + 1)) + 1 := by omega
      refine ⟨by omega, by simp; omega, h3, ?_, ?_⟩
      · rw [e, bitAt_cons_ge _ _ _ (by omega)]
        have : ((blk - (k + 1)) + 1) * 64 + off - 64 = (blk - (k + 1)) * 64 + off := by omega
        rw [this]; exact h4
      · intro j hj
        by_cases hj64 : j < 64
        · rw [bitAt_cons_lt _ _ _ hj64, hw]; exact allOnes_getLsbD _ (by omega)
        · rw [bitAt_cons_ge _ _ _ (by omega)]
          apply h5; omega
    · simp only [hw, if_false] at h
      cases hf : findClear w with
      | none => exact absurd (findClear_none hf) hw
      | some o =>
        simp only [hf] at h
        injection h with h
        injection h with hb ho
        subst hb ho
        obtain ⟨f1, f2, f3⟩ := findClear_some hf
        simp only [Nat.sub_self, Nat.zero_mul, Nat.zero_add]
        refine ⟨Nat.le_refl _, by simp, f1, ?_, ?_⟩
        · rw [bitAt_cons_lt _ _ _ f1]; exact f2
        · intro j hj
          rw [bitAt_cons_lt _ _ _ (by omega)]; exact f3 j hj

theorem scanWords_none {ws : List Word} {k : Nat} (h : scanWords ws k = none) :
    ∀ j, j < ws.length * 64 → bitAt ws j = true := by
  induction ws generalizing k with
  | nil => intro j hj; simp at hj
  | cons w ws ih =>
    unfold scanWords at h
    by_cases hw : w = BitVec.allOnes 64
    · simp only [hw, if_true] at h
      intro j hj
      by_cases hj64 : j < 64
      · rw [bitAt_cons_lt _ _ _ hj64, hw]; exact allOnes_getLsbD _ (by omega)
      · rw [bitAt_cons_ge _ _ _ (by omega)]
        apply ih h
        simp at hj; omega
    · simp only [hw, if_false] at h
      cases hf : findClear w with
      | none => exact absurd (findClear_none hf) hw
      | some o => simp [hf] at h

/-- setting / clearing one bit of a bitmap changes exactly that bit -/
theorem bitAt_set_or (ws : List Word) (k : Nat) (hk : k / 64 < ws.length) (i : Nat) :
    bitAt (ws.set (k / 64) (ws.getD (k / 64) 0 ||| bitMask k)) i = (bitAt ws i || decide (i = k)) := by
  unfold bitAt
  by_cases hi : i / 64 = k / 64
  · rw [hi]
    simp only [List.getD_eq_getElem?_getD, List.getElem?_set_self hk, Option.getD_some,
      BitVec.getLsbD_or]
    rw [bitMask_getLsbD _ _ (by omega)]
    congr 1
    by_cases h : i = k
    · subst h; simp
    · simp only [h, decide_false]
      have : i % 64 ≠ k % 64 := by omega
      simp; omega
  · have : i ≠ k := fun h => hi (by rw [h])
    simp only [List.getD_eq_getElem?_getD, this, decide_false, Bool.or_false]
    rw [List.getElem?_set_ne (by omega)]

theorem bitAt_set_andNot (ws : List Word) (k : Nat) (hk : k / 64 < ws.length) (i : Nat) :
    bitAt (ws.set (k / 64) (ws.getD (k / 64) 0 &&& ~~~(bitMask k))) i = (bitAt ws i && !decide (i = k)) := by
  unfold bitAt
  by_cases hi : i / 64 = k / 64
  · rw [hi]
    simp only [List.getD_eq_getElem?_getD, List.getElem?_set_self hk, Option.getD_some,
      BitVec.getLsbD_and, BitVec.getLsbD_not]
    rw [bitMask_getLsbD _ _ (by omega)]
    have h63 : 63 - i % 64 < 64 := by omega
    simp only [h63, decide_true, Bool.true_and]
    congr 1
    by_cases h : i = k
    · subst h; simp
    · simp only [h, decide_false]
      have : i % 64 ≠ k % 64 := by omega
      simp; omega
  · have : i ≠ k := fun h => hi (by rw [h])
    simp only [List.getD_eq_getElem?_getD, this, decide_false, Bool.not_false, Bool.and_true]
    rw [List.getElem?_set_ne (by omega)]

/-- `w &&& mask = 0` test of `FreeFrame` reads exactly the frame's bit -/
theorem and_bitMask_eq_zero (w : Word) (k : Nat) :
    (w &&& bitMask k = 0) ↔ w.getLsbD (63 - k % 64) = false := by
  constructor
  · intro h
    have := congrArg (fun x => BitVec.getLsbD x (63 - k % 64)) h
    simp only [BitVec.getLsbD_and] at this
    rw [bitMask_getLsbD _ _ (by omega)] at this
    simpa using this
  · intro h
    apply BitVec.eq_of_getLsbD_eq
    intro i hi
    simp only [BitVec.getLsbD_and, BitVec.getLsbD_zero]
    rw [bitMask_getLsbD _ _ hi]
    by_cases e : i = 63 - k % 64
    · subst e; simp [h]
    · simp [e]

/-! ## Counting clear bits -/

/-- number of indices below `n` whose bit is clear -/
def countClear (ws : List Word) (n : Nat) : Nat := (List.range n).countP fun i => !bitAt ws i

theorem countP_range_update (p q : Nat → Bool) (n k : Nat) (hk : k < n)
    (hne : ∀ i, i ≠ k → q i = p i) (hp : p k = true) (hq : q k = false) :
    (List.range n).countP q + 1 = (List.range n).countP p := by
  induction n with
  | zero => omega
  | succ n ih =>
    rw [List.range_succ, List.countP_append, List.countP_append]
    simp only [List.countP_singleton]
    by_cases hkn : k = n
    · subst hkn
      have : (List.range k).countP q = (List.range k).countP p := by
        apply List.countP_congr
        intro i hi
        simp only [List.mem_range] at hi
        rw [hne i (by omega)]
      simp [hp, hq, this]
    · have := ih (by omega)
      rw [hne n (fun h => hkn h.symm)]
      omega

theorem countP_range_pos (p : Nat → Bool) (n : Nat) (h : 0 < (List.range n).countP p) :
    ∃ i, i < n ∧ p i = true := by
  rw [List.countP_pos_iff] at h
  obtain ⟨i, hi, hp⟩ := h
  exact ⟨i, List.mem_range.1 hi, hp⟩

theorem countP_range_zero (p : Nat → Bool) (n : Nat) (h : ∀ i, i < n → p i = false) :
    (List.range n).countP p = 0 := by
  rw [List.countP_eq_zero]
  intro i hi
  simp [h i (List.mem_range.1 hi)]

theorem countP_range_le (p : Nat → Bool) (n : Nat) : (List.range n).countP p ≤ n := by
  have := List.countP_le_length (p := p) (l := List.range n)
  simpa using this

end Firefly.Pmm
