import Firefly.Proof.VmmSetupFull
/-! The page loops of `MapRegion` / `IdentityMapRegion` at the level of address spaces. -/
namespace Firefly.Vmm
open Firefly.Gen.C04

/-- the requests of a page loop, with their common flags -/
def withFlags (fl : W) (l : List (W × W)) : List (W × W × W) := l.map fun x => (x.1, x.2, fl)

/-- **A run of `Map` calls that stops at the first error** (the page loop of `MapRegion` and
`IdentityMapRegion`): never faults; the address space stays well formed; if every call succeeded the
address space is the old one with all requests applied in order; otherwise the calls before the
failing one have been applied (`k` of them) and nothing else changed — the error is the allocator's or
the guard's. -/
theorem seqMap_full {R : W} (fl : W) (l : List (W × W)) : ∀ (st : St) (own : Own), Good st R own →
    (∀ x ∈ l, UserVA (pageAddr x.1)) →
    ∃ code st' own' k, seqMap fl l st = .ok (code, st') ∧ Good st' R own' ∧ SameRegs st st' ∧ k ≤ l.length ∧
      (∀ F x, own F = some x → own' F = some x) ∧
      (∀ F j, own' F = none → st'.mem.rd F j = st.mem.rd F j) ∧
      (∀ va', UserVA va' → hwEntry st'.mem R va' = applyCalls (hwEntry st.mem R) (withFlags fl (l.take k)) va') ∧
      (code = 0 → k = l.length) ∧ (code ≠ 0 → code = eAlloc ∨ code = eRWZero) := by
  induction l with
  | nil =>
    intro st own g _
    exact ⟨0, st, own, 0, rfl, g, SameRegs.refl _, Nat.le_refl _, fun _ _ h => h, fun _ _ _ => rfl, fun _ _ => rfl,
      fun _ => rfl, fun h => absurd rfl h⟩
  | cons x l ih =>
    intro st own g hu
    obtain ⟨p, f⟩ := x
    obtain ⟨c1, st1, own1, h1, post, out⟩ := mapOp_full g p f fl (hu (p, f) List.mem_cons_self)
    simp only [seqMap]
    rw [h1]
    simp only
    by_cases hc : c1 = 0
    · subst hc
      simp only [ne_eq, not_true_eq_false, if_false]
      obtain ⟨c2, st2, own2, k, h2, g2, r2, hk, ext2, foot2, as2, ok2, err2⟩ :=
        ih st1 own1 post.good (fun y hy => hu y (List.mem_cons_of_mem _ hy))
      refine ⟨c2, st2, own2, k + 1, h2, g2, post.regs.trans r2, by simp; omega, fun F y h => ext2 F y (post.ext F y h),
        ?_, ?_, fun h => by rw [ok2 h]; rfl, err2⟩
      · intro F j hF
        have : own1 F = none := by
          cases hx : own1 F with
          | none => rfl
          | some y => rw [ext2 F y hx] at hF; cases hF
        rw [foot2 F j hF, post.foot F j this]
      · intro va' hu'
        rw [as2 va' hu']
        simp only [List.take_succ_cons, withFlags, List.map_cons, applyCalls]
        apply applyCalls_congr_at
        rcases out with (⟨_, _, h3⟩ | ⟨h0, _⟩) | ⟨h0, _⟩
        · rw [h3 va' hu']; simp [absStep]
        · simp [eAlloc] at h0
        · simp [eRWZero] at h0
    · have hne : c1 ≠ 0 := hc
      simp only [hne, ne_eq, not_false_eq_true, if_true]
      refine ⟨c1, st1, own1, 0, rfl, post.good, post.regs, Nat.zero_le _, post.ext, post.foot, ?_, fun h => absurd h hc, ?_⟩
      · intro va' hu'
        simp only [List.take_zero, withFlags, List.map_nil, applyCalls]
        rcases out with (⟨h0, _⟩ | ⟨_, _, _, h4⟩) | ⟨_, rfl, _⟩
        · exact absurd h0 hc
        · exact h4 va' hu'
        · rfl
      · intro _
        rcases out with (⟨h0, _⟩ | ⟨h0, _⟩) | ⟨h0, _⟩
        · exact absurd h0 hc
        · exact Or.inl h0
        · exact Or.inr h0

end Firefly.Vmm
