import Firefly.Proof.AmlNestQuiet
/-!
C11, the nested fragment: `ParseAML` on a table of `Device(NAME){…}` / `Name(NAME, integer)` declarations, any depth.
-/
namespace Firefly.AmlParser.F
open Firefly.AmlLex Firefly.AmlTree Firefly.C13 Firefly.AmlParser Firefly.AmlParser.G Firefly.AmlParser.S
open Firefly.Gen.C12 Firefly.AmlProg

/-- **`ParseAML` on a nested program.**  For every table whose payload is the encoding of a program made of
`Device(NAME){…}` (nested to any depth, every PkgLength width) and `Name(NAME, integer)` declarations, loaded into a pool
whose root is a parentless scope block with childless scope-block children: `ParseAML` succeeds — no error, no panic, no
exhausted fuel — and the pool it leaves is the old pool, untouched, plus the objects of the program laid out as `ns` says:
every `Name` object carries its name and has its name path and its integer as arguments; every device carries its name
and has its name path and its scope block as arguments; the scope block of a device holds the device's declarations in
order; the top-level declarations are appended to the root's children. -/
theorem parseAML_nest {d : Bytes} (hd : d.size + 1024 ≤ 4294967296) (hh : headerLen ≤ d.size) (os : List PObj)
    (hok : okPs os) (hb : BytesAt d headerLen (encPs os)) (hlen : headerLen + (encPs os).length = d.size)
    (s : PState) (ht : TreeG s.tree) (b : Base s.tree) (hsz : s.tree.pool.size + 3 * sizePs os < INV) (fuel : Nat)
    (hfuel : 8 * sizePs os + (K s.tree 0).length + closesPs os + 13 ≤ fuel) (handle : Nat) :
    ∃ s' ns, progs ns = os ∧ parseAML d fuel handle s = .ok (true, s') ∧ NestT d s.tree s'.tree handle ns := by
  obtain ⟨sF, ns, hp, e1, bl⟩ := firstPass_nest hd hh os hok hb hlen s ht hsz fuel (by omega) handle
  have hsl : sizeL ns = sizePs os := by rw [← hp]; exact (sizeL_progs ns).symm
  obtain ⟨s1, e2, fl1, hh1⟩ := connectNamed_nest d (s0 := initState d handle s) b bl fuel (by
    show 6 * sizeL ns + (K s.tree 0).length + 12 ≤ fuel; omega)
  have fl : NestT d s.tree s1.tree handle ns := fl1
  have hh1' : s1.tableHandle = handle := hh1
  obtain ⟨q1, q2, q3, q4, q5⟩ := walks_nest d fuel fl b
  have hnl := length_le_sizeL ns
  have hN : (K s.tree 0).length + ns.length + 7 * sizeL ns + 4 ≤ fuel := by omega
  let s1' : PState := { s1 with resolvePasses := 1 }
  obtain ⟨s2, e3, ht2, hh2⟩ := q1 fuel s1' hN rfl hh1'
  obtain ⟨s3, e4, ht3, hh3⟩ := q2 fuel s2 hN ht2 hh2
  have eloop : resolveLoopPasses d fuel fuel s1' = .ok (true, s3) := by
    obtain ⟨n, hn⟩ : ∃ n, fuel = n + 1 := ⟨fuel - 1, by omega⟩
    conv => lhs; arg 3; rw [hn]
    rw [resolveLoopPasses, bind_run e3, if_neg (by decide), bind_run e4, if_neg (by decide), if_pos ⟨rfl, rfl⟩]
    rfl
  obtain ⟨s4, e5, ht4, hh4⟩ := q3 fuel s3 hN ht3 hh3
  obtain ⟨s5, e6, ht5, hh5⟩ := q4 fuel s4 hN ht4 hh4
  obtain ⟨s6, e7, ht6, hh6⟩ := q5 fuel s5 hN ht5 hh5
  refine ⟨s6, ns, hp, ?_, by rw [ht6]; exact fl⟩
  rw [parseAML_eq, bind_run e1]
  unfold afterFirstPass
  rw [if_neg (by decide), bind_run e2, if_neg (by decide)]
  have em : (modify fun s => { s with resolvePasses := 1 } : P Unit) s1 = .ok ((), s1') := rfl
  rw [bind_run em, bind_run eloop]
  simp only [Bool.not_true, Bool.false_eq_true, ↓reduceIte]
  rw [bind_run e5, if_neg (by decide), bind_run e6, if_neg (by decide), bind_run e7, if_neg (by decide)]
  rfl

end Firefly.AmlParser.F
