import Firefly.Proof.VmmCowFull
/-! The zero frame is never mapped writable: an invariant over whole histories of the mapping
interface and of page faults. -/
namespace Firefly.Vmm
open Firefly.Gen.C04

theorem shl12_inj {a b : W} (ha : FrameOK a) (hb : FrameOK b) (h : a <<< 12 = b <<< 12) : a = b := by
  apply BitVec.eq_of_toNat_eq
  have := congrArg BitVec.toNat h
  unfold FrameOK at ha hb
  simp only [BitVec.toNat_shiftLeft, Nat.shiftLeft_eq] at this
  omega

/-- the fault handler's walk reports nothing when the page has no present entry -/
theorem fault_walk_none {R : W} (va : W) (hu : UserVA va) :
    ∀ (d L : Nat), L + d = 3 → ∀ (st : St) (own : Own) (T : W), Good st R own → Chain st.mem R va L T →
      entWalk st.mem va (lv L) T = none →
      walkFrom faultCb va (lv L) (tableVA va L) none st = .ok (none, st) := by
  intro d
  induction d with
  | zero =>
    intro L hL st own T g hc hn
    have : L = 3 := by omega
    subst this
    have oT := chain_own g.owned hu 3 T (by omega) hc
    have hb := g.owned.backed _ _ oT
    rw [show lv 3 = [3] from rfl] at hn ⊢
    rw [entWalk_last hb] at hn
    have hp : st.mem.rd (frameN T) (kidx va 3) &&& 1#64 = 0#64 := by
      by_cases h : st.mem.rd (frameN T) (kidx va 3) &&& 1#64 = 0#64
      · exact h
      · rw [if_neg h] at hn; cases hn
    rw [walkFrom_step _ _ _ _ _ _ _ (ptePtr_E g.win va 3 T (by omega) hc hb)]
    simp [faultCb, St.rdLoc, hasFlags_present_false hp]
  | succ d ih =>
    intro L hL st own T g hc hn
    have hL3 : L < 3 := by omega
    have oT := chain_own g.owned hu L T (by omega) hc
    have hb := g.owned.backed _ _ oT
    have hnh := g.owned.nohuge _ _ _ (kidx va L) oT hL3
    rw [lv_cons L (by omega)] at hn ⊢
    rw [walkFrom_step _ _ _ _ _ _ _ (ptePtr_E g.win va L T (by omega) hc hb)]
    by_cases hp : st.mem.rd (frameN T) (kidx va L) &&& 1#64 = 0#64
    · simp [faultCb, St.rdLoc, hasFlags_present_false hp]
    · have l : Link st.mem T (kidx va L) (st.mem.rd (frameN T) (kidx va L) &&& hwMask) := ⟨hb, hp, hnh, rfl⟩
      rw [lv_cons (L + 1) (by omega), entWalk_link l, ← lv_cons (L + 1) (by omega)] at hn
      rw [faultCb_upper hL3 (by exact hp)]
      exact ih (L + 1) (by omega) st own _ g ⟨T, hc, l⟩ hn

/-- if the handler returns, the allocator's frame was not the guarded zero frame -/
theorem pageFault_ok_hz (st : St) (addr : W) (st' : St) (h : pageFault st addr = .ok ((), st'))
    {copy : W} {rest : List W} (hf : st.free = copy :: rest) : (st.protect && copy == st.zeroFrame) = false := by
  obtain ⟨loc, hwalk, _, hrw, hcow, _, htf⟩ := pageFault_ok_inv st addr st' h
  cases hg : (st.protect && copy == st.zeroFrame) with
  | false => rfl
  | true =>
    exfalso
    unfold pageFault at h
    simp only [hwalk, hrw, hcow, Bool.not_false, Bool.and_self, if_true] at h
    have halloc : allocFrame st = some (copy, { st with free := rest, allocs := st.allocs + 1 }) := by
      simp [allocFrame, hf]
    simp only [halloc, mapTemporaryFn, htf, Bool.false_eq_true, if_false, mapTemporary, hg, if_true] at h
    simp [eRWZero] at h

/-- **Inversion of a fault that returned**: in a well-formed active address space, if the handler
returned on a page outside the recursive slot and the temporary page, then the page had a present,
read-only, copy-on-write entry, the allocator had a frame that is not the guarded zero frame, and the
post-state is the one `pageFault_full` describes. -/
theorem pageFault_ok_post {st : St} {R : W} {own : Own} (g : Good st R own) (hA : st.cr3 &&& hwMask = R) (addr : W)
    (hu : UserVA (pageAddr (pageOf addr))) (hnt : ¬SamePage (pageAddr (pageOf addr)) tempVA)
    (st' : St) (h : pageFault st addr = .ok ((), st')) :
    ∃ e copy rest own', hwEntry st.mem R (pageAddr (pageOf addr)) = some e ∧
      hasFlags e fRW = false ∧ hasFlags e fCoW = true ∧ st.free = copy :: rest ∧
      (st.protect && copy == st.zeroFrame) = false ∧
      CowPost st st' R own own' (pageAddr (pageOf addr)) e copy rest := by
  obtain ⟨loc, hwalk, _, hrw, hcow, hfree, htf⟩ := pageFault_ok_inv st addr st' h
  cases he : hwEntry st.mem R (pageAddr (pageOf addr)) with
  | none =>
    exfalso
    have := fault_walk_none _ hu 3 0 (by omega) st own R g rfl he
    rw [walk_eq] at hwalk
    rw [show lv 0 = [0, 1, 2, 3] from rfl] at this
    rw [this] at hwalk; cases hwalk
  | some e =>
    obtain ⟨T1, T2, T3, pf, hle, hpres⟩ := hwEntry_some g.owned hu he
    have hw2 := walk_faultCb_leaf g.win pf (by rw [hle]; exact hpres)
    rw [hw2] at hwalk
    have hloc : loc = (frameN T3, kidx (pageAddr (pageOf addr)) 3) := by
      have := Except.ok.inj hwalk; simpa using (Prod.mk.inj this).1.symm
    subst hloc
    simp only [St.rdLoc, hle] at hrw hcow
    cases hfr : st.free with
    | nil => exact absurd hfr hfree
    | cons copy rest =>
      have hz := pageFault_ok_hz st addr st' h hfr
      rcases pageFault_full g hA addr hu hnt he hrw hcow hfr htf hz with hp | ⟨st'', own', h2, post⟩
      · rw [hp] at h; cases h
      · rw [h2] at h
        have : st'' = st' := by
          have := Except.ok.inj h; exact (Prod.mk.inj this).2
        subst this
        exact ⟨e, copy, rest, own', rfl, hrw, hcow, rfl, hz, post⟩

/-- no page of the address space rooted at `R` translates to the zero frame with the RW bit -/
def NoZeroRW (st : St) (R : W) : Prop :=
  ∀ va', UserVA va' → ∀ e, hwEntry st.mem R va' = some e →
    ¬(e &&& hwMask = st.zeroFrame <<< 12 ∧ e &&& fRW ≠ 0#64)

/-- requests to the kernel: the mapping interface and page faults -/
inductive KOp where
  | map (page frame flags : W)
  | maps (flags : W) (l : List (W × W))
  | unmap (page : W)
  | maptmp (frame : W)
  | fault (addr : W)

def runK (st : St) : KOp → R Nat
  | .map p f fl => mapOp st p f fl
  | .maps fl l => seqMap fl l st
  | .unmap p => unmapOp st p
  | .maptmp f => (mapTemporary st f).map fun r => (r.1.1, r.2)
  | .fault a => (pageFault st a).map fun r => (0, r.2)

/-- the domain of the invariant: pages outside the recursive slot, frame numbers < 2^40, flags outside
the frame field; faults not on the temporary page -/
def KOp.dom : KOp → Prop
  | .map p f fl => UserVA (pageAddr p) ∧ FrameOK f ∧ FlagsOK fl
  | .maps fl l => FlagsOK fl ∧ ∀ x ∈ l, UserVA (pageAddr x.1) ∧ FrameOK x.2
  | .unmap p => UserVA (pageAddr p)
  | .maptmp f => FrameOK f
  | .fault a => UserVA (pageAddr (pageOf a)) ∧ ¬SamePage (pageAddr (pageOf a)) tempVA

/-- the invariant: well formed, active, guard armed, zero frame never writable -/
structure ZInv (st : St) (R : W) (own : Own) : Prop where
  good : Good st R own
  active : st.cr3 &&& hwMask = R
  armed : st.protect = true
  zf : FrameOK st.zeroFrame
  nzrw : NoZeroRW st R

theorem mkEntry_not_zero_rw {st : St} {frame flags : W} (hfo : FrameOK frame) (hfl : FlagsOK flags)
    (hzf : FrameOK st.zeroFrame) (hn : ¬(frame = st.zeroFrame ∧ (flags &&& fRW) ≠ 0)) :
    ¬(mkEntry frame flags &&& hwMask = st.zeroFrame <<< 12 ∧ mkEntry frame flags &&& fRW ≠ 0#64) := by
  rintro ⟨h1, h2⟩
  rw [mkEntry_frame hfo hfl] at h1
  rw [mkEntry_low fRW (by decide)] at h2
  exact hn ⟨shl12_inj hfo hzf h1, h2⟩

/-- `Map` preserves the invariant -/
theorem ZInv.map_step {st : St} {R : W} {own : Own} (z : ZInv st R own) (p f fl : W) (hu : UserVA (pageAddr p))
    (hfo : FrameOK f) (hfl : FlagsOK fl) (c : Nat) (st' : St) (hm : mapOp st p f fl = .ok (c, st')) :
    ∃ own', ZInv st' R own' := by
  obtain ⟨code, st'', own', h1, post, out⟩ := mapOp_full z.good p f fl hu
  rw [h1] at hm
  obtain ⟨rfl, rfl⟩ : code = c ∧ st'' = st' := by
    have := Except.ok.inj hm; exact ⟨(Prod.mk.inj this).1, (Prod.mk.inj this).2⟩
  refine ⟨own', post.good, by rw [post.regs.cr3]; exact z.active, by rw [post.regs.protect]; exact z.armed,
    by rw [post.regs.zeroFrame]; exact z.zf, ?_⟩
  intro va' hu' e he
  rw [post.regs.zeroFrame]
  rcases out with (⟨rfl, _, h3⟩ | ⟨_, _, _, h4⟩) | ⟨_, rfl, _⟩
  · rw [h3 va' hu'] at he
    by_cases hs : SamePage va' (pageAddr p)
    · rw [if_pos hs] at he
      by_cases hp : mkEntry f fl &&& 1#64 = 0#64
      · rw [if_pos hp] at he; cases he
      · rw [if_neg hp] at he; cases he
        exact mkEntry_not_zero_rw hfo hfl z.zf (mapOp_ok_not_zero_rw st p f fl _ z.armed h1)
    · rw [if_neg hs] at he; exact z.nzrw va' hu' e he
  · rw [h4 va' hu'] at he; exact z.nzrw va' hu' e he
  · exact z.nzrw va' hu' e he

/-- the page loop of `MapRegion` / `IdentityMapRegion` (and any other run of `Map` calls that stops
at the first error) preserves the invariant -/
theorem ZInv.seqMap_step {R : W} (fl : W) (hfl : FlagsOK fl) (l : List (W × W)) :
    ∀ (st : St) (own : Own), ZInv st R own → (∀ x ∈ l, UserVA (pageAddr x.1) ∧ FrameOK x.2) →
      ∀ c st', seqMap fl l st = .ok (c, st') → ∃ own', ZInv st' R own' := by
  induction l with
  | nil => intro st own z _ c st' h; simp only [seqMap] at h; cases h; exact ⟨own, z⟩
  | cons x l ih =>
    intro st own z hd c st' h
    obtain ⟨p, f⟩ := x
    simp only [seqMap] at h
    cases hm : mapOp st p f fl with
    | error e => rw [hm] at h; cases h
    | ok r =>
      obtain ⟨c1, st1⟩ := r
      rw [hm] at h
      have hx := hd (p, f) List.mem_cons_self
      obtain ⟨own1, z1⟩ := z.map_step p f fl hx.1 hx.2 hfl c1 st1 hm
      by_cases hc : c1 ≠ 0
      · simp only [if_pos hc] at h; cases h; exact ⟨own1, z1⟩
      · simp only [if_neg hc] at h
        exact ih st1 own1 z1 (fun y hy => hd y (List.mem_cons_of_mem _ hy)) c st' h

/-- one request preserves the invariant -/
theorem ZInv.step {st : St} {R : W} {own : Own} (z : ZInv st R own) (op : KOp) (hd : op.dom) (c : Nat) (st' : St)
    (h : runK st op = .ok (c, st')) : ∃ own', ZInv st' R own' := by
  cases op with
  | map p f fl => exact z.map_step p f fl hd.1 hd.2.1 hd.2.2 c st' h
  | maps fl l => exact ZInv.seqMap_step fl hd.1 l st own z hd.2 c st' h
  | unmap p =>
    obtain ⟨code, st'', h1, out⟩ := unmapOp_full z.good p hd
    simp only [runK] at h
    rw [h1] at h
    obtain ⟨rfl, rfl⟩ : code = c ∧ st'' = st' := by
      have := Except.ok.inj h; exact ⟨(Prod.mk.inj this).1, (Prod.mk.inj this).2⟩
    rcases out with ⟨_, g', regs, _, _, _, _, as'⟩ | ⟨_, rfl, _⟩
    · refine ⟨own, g', by rw [regs.cr3]; exact z.active, by rw [regs.protect]; exact z.armed,
        by rw [regs.zeroFrame]; exact z.zf, ?_⟩
      intro va' hu' e he
      rw [regs.zeroFrame]
      rw [as' va' hu'] at he
      by_cases hs : SamePage va' (pageAddr p)
      · rw [if_pos hs] at he; cases he
      · rw [if_neg hs] at he; exact z.nzrw va' hu' e he
    · exact ⟨own, z⟩
  | maptmp f =>
    simp only [runK, mapTemporary] at h
    by_cases hg : (st.protect && f == st.zeroFrame) = true
    · rw [if_pos hg] at h
      have := Except.ok.inj h
      have : st = st' := (Prod.mk.inj this).2
      subst this; exact ⟨own, z⟩
    · rw [if_neg hg] at h
      have hut : UserVA (pageAddr (pageOf tempVA)) := by rw [tempVA_page]; exact userVA_temp
      have hfl3 : FlagsOK (fPresent ||| fRW) := by unfold FlagsOK; decide
      cases hm : mapOp st (pageOf tempVA) f (fPresent ||| fRW) with
      | error a => rw [hm] at h; cases h
      | ok r =>
        obtain ⟨c2, st2⟩ := r
        rw [hm] at h
        have hst : st2 = st' := by
          by_cases hc : c2 ≠ 0
          · simp only [if_pos hc, Except.map] at h
            have := Except.ok.inj h; exact (Prod.mk.inj this).2
          · simp only [if_neg hc, Except.map] at h
            have := Except.ok.inj h; exact (Prod.mk.inj this).2
        subst hst
        exact z.map_step (pageOf tempVA) f (fPresent ||| fRW) hut hd hfl3 c2 st2 hm
  | fault a =>
    simp only [runK] at h
    cases hp : pageFault st a with
    | error x => rw [hp] at h; cases h
    | ok r =>
      obtain ⟨⟨⟩, st2⟩ := r
      rw [hp] at h
      have hst : st2 = st' := by
        have := Except.ok.inj h; exact (Prod.mk.inj this).2
      subst hst
      obtain ⟨e, copy, rest, own', he, _, _, hfr, hz, post⟩ := pageFault_ok_post z.good z.active a hd.1 hd.2 st2 hp
      refine ⟨own', post.good, by rw [post.regs.cr3]; exact z.active, by rw [post.regs.protect]; exact z.armed,
        by rw [post.regs.zeroFrame]; exact z.zf, ?_⟩
      intro va' hu' e' he'
      rw [post.regs.zeroFrame]
      rw [post.as va' hu'] at he'
      by_cases hs : SamePage va' (pageAddr (pageOf a))
      · rw [if_pos hs] at he'; cases he'
        have hco : FrameOK copy := (z.good.free copy (by rw [hfr]; exact List.mem_cons_self)).1
        rintro ⟨h1, _⟩
        unfold cowEntry at h1
        rw [setFrame_frame _ hco] at h1
        have := shl12_inj hco z.zf h1
        simp [z.armed, this] at hz
      · rw [if_neg hs] at he'
        by_cases ht : SamePage va' tempVA
        · rw [if_pos ht] at he'; cases he'
        · rw [if_neg ht] at he'; exact z.nzrw va' hu' e' he'

/-- run a history of kernel requests (stops at the first panic / fault) -/
def runKs : St → List KOp → Except Abort St
  | st, [] => .ok st
  | st, op :: rest =>
    match runK st op with
    | .error e => .error e
    | .ok (_, st') => runKs st' rest

/-- **The zero frame is never writable**, over every history that runs to completion -/
theorem ZInv.history {R : W} (ops : List KOp) : ∀ (st : St) (own : Own), ZInv st R own → (∀ op ∈ ops, op.dom) →
    ∀ st', runKs st ops = .ok st' → ∃ own', ZInv st' R own' := by
  induction ops with
  | nil => intro st own z _ st' h; simp only [runKs] at h; cases h; exact ⟨own, z⟩
  | cons op ops ih =>
    intro st own z hd st' h
    simp only [runKs] at h
    cases hr : runK st op with
    | error e => rw [hr] at h; cases h
    | ok r =>
      obtain ⟨c, st1⟩ := r
      rw [hr] at h
      obtain ⟨own1, z1⟩ := z.step op (hd op List.mem_cons_self) c st1 hr
      exact ih st1 own1 z1 (fun o ho => hd o (List.mem_cons_of_mem _ ho)) st' h

end Firefly.Vmm
