import Firefly.Proof.AmlNestParse
/-!
C11, the nested fragment, end to end: `Device(NAME){…}` / `ThermalZone(NAME){…}` / `Processor(NAME, …){…}` / `PowerResource(NAME, …){…}`
(to any depth) around `Name(NAME, integer | string)`, `Event(NAME)` and `Mutex(NAME, sync)` declarations — the
namespace read off the tree the parser builds is the namespace ACPI's scoping rules assign to the program.
-/
namespace Firefly.AmlParser.F
open Firefly.AmlLex Firefly.AmlTree Firefly.C13 Firefly.AmlParser Firefly.AmlParser.G Firefly.AmlParser.S
open Firefly.Gen.C12 Firefly.AmlProg Firefly.AmlNs

/-! ## what `nsWalk` reads off a connected node -/

/-- the namespace entry of a `Name` declaration -/
def nameDesc (dv : DVal) : String := s!"name:{dv.desc}"

theorem nameDesc_int (w v : Nat) : nameDesc (.int w v) = entryDesc w v := rfl

/-- the values the constant arguments hold: reduced to their widths -/
def rvals : List Nat → List Nat → List Nat
  | n :: ws, v :: vs => v % 256 ^ n :: rvals ws vs
  | _, _ => []

/-- the description of a leaf named object in the namespace -/
def ldesc : LKind → List Nat → String
  | .event, _ => "event"
  | .mutex, vs => s!"mutex:{vs.getD 0 0}"

mutual
/-- the namespace entries of a node below the path `π` (with the pool position of the named object) -/
def entsN (π : AmlProg.Path) : Node → List (AmlProg.Path × String × Nat)
  | .name x _ _ _ seg dv => [(π ++ [nameStr (Name.ofList seg)], nameDesc dv, x)]
  | .dev kd x _ _ _ _ seg es kids =>
    (π ++ [nameStr (Name.ofList seg)], kd.tag (rvals kd.ws (es.map (·.v))), x) :: entsL (π ++ [nameStr (Name.ofList seg)]) kids
  | .leaf kd x _ _ seg es => [(π ++ [nameStr (Name.ofList seg)], ldesc kd (rvals kd.ws (es.map (·.v))), x)]
def entsL (π : AmlProg.Path) : List Node → List (AmlProg.Path × String × Nat)
  | [] => []
  | n :: ns => entsN π n ++ entsL π ns
end

/-- the body of the `flatMap` in `nsWalk` -/
def nsStep (t : ObjectTree) (tables : Array Bytes) (f i : Nat) (path : AmlProg.Path) (c : Nat) :
    List (AmlProg.Path × String × Nat) :=
  match t.pool[c]? with
  | none => []
  | some o =>
    if o.opcode = 0x1f6 then
      if i = 0 then (path ++ [nameStr o.name], "scope", c) :: nsWalk t tables f c (path ++ [nameStr o.name])
      else nsWalk t tables f c path
    else match treeDesc t tables c o with
      | some d => (path ++ [nameStr o.name], d, c) :: nsWalk t tables f c (path ++ [nameStr o.name])
      | none => nsWalk t tables f c path

theorem nsWalk_eq (t : ObjectTree) (tables : Array Bytes) (f i : Nat) (path : AmlProg.Path) :
    nsWalk t tables (f + 1) i path = (K t i).flatMap (nsStep t tables f i path) := by
  rw [nsWalk]; rfl

theorem nsStep_leaf {t : ObjectTree} (tables : Array Bytes) (f i : Nat) (path : AmlProg.Path) {c : Nat} (hl : live t c = true)
    (hk : K t c = []) (hop : (slot t c).opcode ≠ 0x1f6) (hd : treeDesc t tables c (slot t c) = none) :
    nsStep t tables (f + 1) i path c = [] := by
  unfold nsStep
  rw [pool_live hl]
  simp only [if_neg hop, hd]
  exact nsWalk_leaf t tables f c path hk

/-- what `nsWalk` sees at a connected `Name` object -/
theorem walk_name {d : Bytes} {t : ObjectTree} {h p x c k off : Nat} {seg : List UInt8} {dv : DVal}
    (io : NameT d t h p x c k off seg dv true) (tables : Array Bytes) (f : Nat) (path : AmlProg.Path) :
    nsWalk t tables (f + 2) x path = [] ∧ callWalk t (f + 2) x = [] ∧
    (tables.getD (h - 1) #[] = d → treeDesc t tables x (slot t x) = some (nameDesc dv)) := by
  have hk : K t x = [c, k] := io.kx
  obtain ⟨c1, c2, c3⟩ := treeDesc_path t tables c (slot t c) io.opc
  obtain ⟨k1, k2, k3⟩ := treeDesc_dval t tables k (slot t k) dv io.opk
  refine ⟨?_, ?_, ?_⟩
  · rw [nsWalk]
    show (K t x).flatMap _ = []
    rw [hk]
    simp only [List.flatMap_cons, List.flatMap_nil, List.append_nil, pool_live io.lc, pool_live io.lk, if_neg c2, if_neg k2, c1, k1,
      nsWalk_leaf t tables f _ _ io.kc, nsWalk_leaf t tables f _ _ io.kk, List.append_nil]
  · rw [callWalk]
    show (K t x).flatMap _ = []
    rw [hk]
    simp only [List.flatMap_cons, List.flatMap_nil, List.append_nil, pool_live io.lc, pool_live io.lk, if_neg c3, if_neg k3,
      callWalk_leaf t f _ io.kc, callWalk_leaf t f _ io.kk, List.append_nil]
  · intro htab
    unfold treeDesc nameDesc
    have hko : kidsOf t x = [c, k] := hk
    simp only [io.opx, hko, if_true]
    have : ([c, k] : List Nat).getD 1 4294967295 = k := rfl
    rw [this, treeData_dval tables io.lk io.opk io.dat (by rw [io.thk]; exact htab)]

/-- the value `u64Of` reads from a constant argument object -/
theorem u64Of_const {t : ObjectTree} {h x : Nat} {a : CArg} (c : ConstT t h x a) (hn : a.n = 1 ∨ a.n = 2 ∨ a.n = 4) :
    u64Of t a.e = toString (a.v % 256 ^ a.n) := by
  unfold u64Of
  rw [pool_live c.le]
  have hop := c.op
  have hv : (slot t a.e).value = .u64 (a.v % 256 ^ a.n) := by
    have hi : intVal a.n a.v = a.v % 256 ^ a.n := by
      unfold intVal
      rcases hn with e | e | e <;> rw [e] <;> simp
    rcases c.int with ⟨h1, _⟩ | ⟨h1, _⟩ | ⟨h1, _⟩ | ⟨_, _, _, h4⟩
    · rw [h1] at hop; rcases hn with e | e | e <;> rw [e] at hop <;> simp [constOp] at hop
    · rw [h1] at hop; rcases hn with e | e | e <;> rw [e] at hop <;> simp [constOp] at hop
    · rw [h1] at hop; rcases hn with e | e | e <;> rw [e] at hop <;> simp [constOp] at hop
    · rw [h4, hi]
  simp only [hv]

/-- what `nsWalk` and `callWalk` see at a constant argument object -/
theorem const_leaf {t : ObjectTree} {h x : Nat} {a : CArg} (c : ConstT t h x a) (tables : Array Bytes) :
    treeDesc t tables a.e (slot t a.e) = none ∧ (slot t a.e).opcode ≠ 0x1f6 ∧ (slot t a.e).opcode ≠ 0x1fd := by
  obtain ⟨k1, k2, k3, _⟩ := treeDesc_const t tables a.e (slot t a.e) _ _ c.op
  exact ⟨k1, k2, k3⟩

theorem treeDesc_leaf {d : Bytes} {t : ObjectTree} {h p : Nat} {kd : LKind} {x c off : Nat} {seg : List UInt8} {es : List CArg}
    (lt : LeafT d t h p kd x c off seg es true) (tables : Array Bytes) :
    treeDesc t tables x (slot t x) = some (ldesc kd (rvals kd.ws (es.map (·.v)))) := by
  unfold treeDesc
  have hko : kidsOf t x = c :: es.map (·.e) := lt.kx
  rw [lt.opx]
  cases kd with
  | event => simp [LKind.op, ldesc]
  | mutex =>
    have hws := lt.wsok
    simp only [LKind.ws] at hws
    obtain ⟨a, rfl⟩ : ∃ a, es = [a] := by
      cases es with
      | nil => simp at hws
      | cons a as =>
        cases as with
        | nil => exact ⟨a, rfl⟩
        | cons b bs => simp at hws
    have ha : a.n = 1 := by simpa using hws
    have := u64Of_const (lt.args a (by simp)) (Or.inl ha)
    simp only [LKind.op, hko, List.map_cons, List.map_nil, ldesc, LKind.ws, rvals]
    simp only [this, ha, List.getD_cons_succ, List.getD_cons_zero]
    rfl

theorem len3 {α : Type} {l : List α} (h : l.length = 3) : ∃ a b c, l = [a, b, c] := by
  cases l with
  | nil => cases h
  | cons a l =>
    cases l with
    | nil => cases h
    | cons b l =>
      cases l with
      | nil => cases h
      | cons c l =>
        cases l with
        | nil => exact ⟨a, b, c, rfl⟩
        | cons _ _ => simp at h

theorem len2 {α : Type} {l : List α} (h : l.length = 2) : ∃ a b, l = [a, b] := by
  cases l with
  | nil => cases h
  | cons a l =>
    cases l with
    | nil => cases h
    | cons b l =>
      cases l with
      | nil => exact ⟨a, b, rfl⟩
      | cons _ _ => simp at h

theorem treeDesc_dev {d : Bytes} {t : ObjectTree} {h p : Nat} {kd : BKind} {x c sb off : Nat} {seg : List UInt8} {es : List CArg}
    (dt : DevT d t h p kd x c sb off seg es true) (tables : Array Bytes) :
    treeDesc t tables x (slot t x) = some (kd.tag (rvals kd.ws (es.map (·.v)))) := by
  unfold treeDesc
  have hko : kidsOf t x = c :: (es.map (·.e) ++ [sb]) := dt.kx
  rw [dt.opx]
  have hws := dt.wsok
  cases kd with
  | device => simp [BKind.op, BKind.tag]
  | thermal => simp [BKind.op, BKind.tag]
  | proc =>
    simp only [BKind.ws] at hws
    obtain ⟨a1, a2, a3, rfl⟩ : ∃ a1 a2 a3, es = [a1, a2, a3] :=
      len3 (by have := congrArg List.length hws; simpa using this)
    simp only [List.map_cons, List.map_nil, List.cons.injEq, and_true] at hws
    have u1 := u64Of_const (dt.args a1 (by simp)) (Or.inl hws.1)
    have u2 := u64Of_const (dt.args a2 (by simp)) (Or.inr (Or.inr hws.2.1))
    have u3 := u64Of_const (dt.args a3 (by simp)) (Or.inl hws.2.2)
    simp only [BKind.op, hko, List.map_cons, List.map_nil, BKind.tag, BKind.ws, rvals, List.cons_append, List.nil_append]
    simp [List.getD_cons_succ, List.getD_cons_zero, u1, u2, u3, hws.1, hws.2.1, hws.2.2]
    rfl
  | power =>
    simp only [BKind.ws] at hws
    obtain ⟨a1, a2, rfl⟩ : ∃ a1 a2, es = [a1, a2] :=
      len2 (by have := congrArg List.length hws; simpa using this)
    simp only [List.map_cons, List.map_nil, List.cons.injEq, and_true] at hws
    have u1 := u64Of_const (dt.args a1 (by simp)) (Or.inl hws.1)
    have u2 := u64Of_const (dt.args a2 (by simp)) (Or.inr (Or.inl hws.2))
    simp only [BKind.op, hko, List.map_cons, List.map_nil, BKind.tag, BKind.ws, rvals, List.cons_append, List.nil_append]
    simp [List.getD_cons_succ, List.getD_cons_zero, u1, u2, hws.1, hws.2]
    rfl

mutual
/-- number of declarations of a node (the fixed arguments of `Processor` / `PowerResource` do not count) -/
def cntN : Node → Nat
  | .name _ _ _ _ _ _ => 1
  | .dev _ _ _ _ _ _ _ _ kids => 1 + cntL kids
  | .leaf _ _ _ _ _ _ => 1
def cntL : List Node → Nat
  | [] => 0
  | n :: ns => cntN n + cntL ns
end

mutual
theorem nsStep_node {d : Bytes} {t : ObjectTree} {h : Nat} (tables : Array Bytes) (htab : tables.getD (h - 1) #[] = d) :
    ∀ (p : Nat) (n : Node) (π : AmlProg.Path) (f i : Nat), NodeOK d t h true true p n → (∀ y ∈ n.objs, y ≠ 0) →
      2 * cntN n ≤ f → nsStep t tables f i π n.x = entsN π n
  | p, .name x c k off seg dv, π, f, i, ok, _, hf => by
    unfold NodeOK at ok
    obtain ⟨f', rfl⟩ : ∃ f', f = f' + 2 := ⟨f - 2, by simp only [cntN] at hf; omega⟩
    obtain ⟨w1, _, w3'⟩ := walk_name ok tables f' (π ++ [nameStr (Name.ofList seg)])
    have w3 := w3' htab
    have hne : ¬ (slot t x).opcode = 0x1f6 := by rw [ok.opx]; decide
    show nsStep t tables (f' + 2) i π x = _
    unfold nsStep
    rw [pool_live ok.lx]
    simp only [if_neg hne, w3, ok.nm rfl, w1, entsN]
  | p, .dev kd x c sb off pw seg es kids, π, f, i, ok, h0, hf => by
    unfold NodeOK at ok
    obtain ⟨dt, hksb, okk⟩ := ok
    simp only [cntN] at hf
    obtain ⟨f', rfl⟩ : ∃ f', f = f' + 2 := ⟨f - 2, by omega⟩
    have hx0 : x ≠ 0 := h0 x (by simp [Node.objs])
    have hne : ¬ (slot t x).opcode = 0x1f6 := by rw [dt.opx]; exact kd.op_ne.2.2.2.2.2.1
    obtain ⟨c1, c2, _⟩ := treeDesc_path t tables c (slot t c) dt.opc
    show nsStep t tables (f' + 2) i π x = _
    unfold nsStep
    rw [pool_live dt.lx]
    simp only [if_neg hne, treeDesc_dev dt tables, dt.nm rfl, entsN]
    congr 1
    -- below the device: the name path and the fixed arguments (nothing), the scope block (its contents, same path)
    rw [nsWalk_eq, show K t x = c :: (es.map (·.e) ++ [sb]) from dt.kx]
    simp only [List.flatMap_cons, List.flatMap_append, List.flatMap_nil, List.append_nil]
    rw [nsStep_leaf tables f' x _ dt.lc dt.kc c2 c1, List.nil_append]
    rw [flatMap_nil' (es.map (·.e)) _ (by
      intro z hz
      obtain ⟨a, ha, e⟩ := List.mem_map.1 hz
      obtain ⟨k1, k2, _⟩ := const_leaf (dt.args a ha) tables
      rw [← e]
      exact nsStep_leaf tables f' x _ (dt.args a ha).le (dt.args a ha).ke k2 k1), List.nil_append]
    unfold nsStep
    rw [pool_live dt.lsb]
    have hsbop : (slot t sb).opcode = 0x1f6 := dt.opsb
    simp only [hsbop, if_true, if_neg hx0]
    rw [nsWalk_eq, hksb, tops_true]
    exact nsStep_list tables htab sb kids _ f' sb okk (fun y hy => h0 y (by simp [Node.objs, hy])) (by omega)
  | p, .leaf kd x c off seg es, π, f, i, ok, _, hf => by
    unfold NodeOK at ok
    obtain ⟨f', rfl⟩ : ∃ f', f = f' + 2 := ⟨f - 2, by simp only [cntN] at hf; omega⟩
    have hne : ¬ (slot t x).opcode = 0x1f6 := by rw [ok.opx]; exact kd.op_ne.2.2.2.2.2.1
    obtain ⟨c1, c2, _⟩ := treeDesc_path t tables c (slot t c) ok.opc
    show nsStep t tables (f' + 2) i π x = _
    unfold nsStep
    rw [pool_live ok.lx]
    simp only [if_neg hne, treeDesc_leaf ok tables, ok.nm rfl, entsN]
    congr 1
    rw [nsWalk_eq, ok.kx]
    simp only [List.flatMap_cons]
    rw [nsStep_leaf tables f' x _ ok.lc ok.kc c2 c1, List.nil_append]
    apply flatMap_nil'
    intro z hz
    obtain ⟨a, ha, e⟩ := List.mem_map.1 hz
    obtain ⟨k1, k2, _⟩ := const_leaf (ok.args a ha) tables
    rw [← e]
    exact nsStep_leaf tables f' x _ (ok.args a ha).le (ok.args a ha).ke k2 k1
theorem nsStep_list {d : Bytes} {t : ObjectTree} {h : Nat} (tables : Array Bytes) (htab : tables.getD (h - 1) #[] = d) :
    ∀ (p : Nat) (ns : List Node) (π : AmlProg.Path) (f i : Nat), NodesOK d t h true p ns → (∀ y ∈ objsL ns, y ≠ 0) →
      2 * cntL ns ≤ f → (ns.map Node.x).flatMap (nsStep t tables f i π) = entsL π ns
  | _, [], _, _, _, _, _, _ => by simp [entsL]
  | p, n :: ns, π, f, i, ok, h0, hf => by
    unfold NodesOK at ok
    simp only [cntL] at hf
    simp only [List.map_cons, List.flatMap_cons, entsL]
    rw [nsStep_node tables htab p n π f i ok.1 (fun y hy => h0 y (by simp [objsL, hy])) (by omega),
      nsStep_list tables htab p ns π f i ok.2 (fun y hy => h0 y (by simp [objsL, hy])) (by omega)]
end

/-- the body of the `flatMap` in `callWalk` -/
def callStep (t : ObjectTree) (f : Nat) (c : Nat) : List (Nat × Nat) :=
  match t.pool[c]? with
  | none => []
  | some o =>
    (if o.opcode = 0x1fd then
      match o.value with
      | .idx m => [(m, (kidsOf t c).length)]
      | _ => [(4294967295, 0)]
     else []) ++ callWalk t f c

theorem callWalk_eq (t : ObjectTree) (f i : Nat) : callWalk t (f + 1) i = (K t i).flatMap (callStep t f) := by
  rw [callWalk]; rfl

theorem callStep_nil {t : ObjectTree} (f : Nat) {c : Nat} (hl : live t c = true) (hop : (slot t c).opcode ≠ 0x1fd)
    (hw : callWalk t f c = []) : callStep t f c = [] := by
  unfold callStep
  rw [pool_live hl]
  simp only [if_neg hop, hw, List.append_nil]

mutual
theorem call_node {d : Bytes} {t : ObjectTree} {h : Nat} :
    ∀ (p : Nat) (n : Node) (f : Nat), NodeOK d t h true true p n → 2 * cntN n ≤ f →
      callStep t f n.x = []
  | p, .name x c k off seg dv, f, ok, hf => by
    unfold NodeOK at ok
    obtain ⟨f', rfl⟩ : ∃ f', f = f' + 2 := ⟨f - 2, by simp only [cntN] at hf; omega⟩
    obtain ⟨_, w2, _⟩ := walk_name ok #[] f' []
    show callStep t (f' + 2) x = []
    exact callStep_nil _ ok.lx (by rw [ok.opx]; decide) w2
  | p, .dev kd x c sb off pw seg es kids, f, ok, hf => by
    unfold NodeOK at ok
    obtain ⟨dt, hksb, okk⟩ := ok
    simp only [cntN] at hf
    obtain ⟨f', rfl⟩ : ∃ f', f = f' + 2 := ⟨f - 2, by omega⟩
    show callStep t (f' + 2) x = []
    refine callStep_nil _ dt.lx (by rw [dt.opx]; exact kd.op_ne.2.2.2.2.2.2.2.2.1) ?_
    rw [callWalk_eq, show K t x = c :: (es.map (·.e) ++ [sb]) from dt.kx]
    simp only [List.flatMap_cons, List.flatMap_append, List.flatMap_nil, List.append_nil]
    rw [callStep_nil (f' + 1) dt.lc (by rw [dt.opc]; decide) (callWalk_leaf t f' c dt.kc), List.nil_append]
    rw [flatMap_nil' (es.map (·.e)) _ (by
      intro z hz
      obtain ⟨a, ha, e⟩ := List.mem_map.1 hz
      obtain ⟨_, _, k3⟩ := const_leaf (dt.args a ha) #[]
      rw [← e]
      exact callStep_nil (f' + 1) (dt.args a ha).le k3 (callWalk_leaf t f' a.e (dt.args a ha).ke)), List.nil_append]
    refine callStep_nil _ dt.lsb (by rw [dt.opsb]; decide) ?_
    rw [callWalk_eq, hksb, tops_true]
    exact call_list sb kids f' okk (by omega)
  | p, .leaf kd x c off seg es, f, ok, hf => by
    unfold NodeOK at ok
    obtain ⟨f', rfl⟩ : ∃ f', f = f' + 2 := ⟨f - 2, by simp only [cntN] at hf; omega⟩
    show callStep t (f' + 2) x = []
    refine callStep_nil _ ok.lx (by rw [ok.opx]; exact kd.op_ne.2.2.2.2.2.2.2.2.1) ?_
    rw [callWalk_eq, ok.kx]
    simp only [List.flatMap_cons]
    rw [callStep_nil (f' + 1) ok.lc (by rw [ok.opc]; decide) (callWalk_leaf t f' c ok.kc), List.nil_append]
    apply flatMap_nil'
    intro z hz
    obtain ⟨a, ha, e⟩ := List.mem_map.1 hz
    obtain ⟨_, _, k3⟩ := const_leaf (ok.args a ha) #[]
    rw [← e]
    exact callStep_nil (f' + 1) (ok.args a ha).le k3 (callWalk_leaf t f' a.e (ok.args a ha).ke)
theorem call_list {d : Bytes} {t : ObjectTree} {h : Nat} :
    ∀ (p : Nat) (ns : List Node) (f : Nat), NodesOK d t h true p ns → 2 * cntL ns ≤ f →
      (ns.map Node.x).flatMap (callStep t f) = []
  | _, [], _, _, _ => by simp
  | p, n :: ns, f, ok, hf => by
    unfold NodesOK at ok
    simp only [cntL] at hf
    simp only [List.map_cons, List.flatMap_cons]
    rw [call_node p n f ok.1 (by omega), call_list p ns f ok.2 (by omega)]
    rfl
end

theorem objsL_len (ns : List Node) : 2 * cntL ns ≤ (objsL ns).length := by
  have hn : ∀ n : Node, 2 * cntN n ≤ n.objs.length := by
    intro n
    induction n using Node.rec (motive_2 := fun l => 2 * cntL l ≤ (objsL l).length) with
    | name x c k off seg dv => simp [Node.objs, cntN]
    | dev kd x c sb off pw seg es kids ih => simp only [Node.objs, cntN, List.length_append, List.length_cons, List.length_nil]; omega
    | leaf kd x c off seg es => simp only [Node.objs, cntN, List.length_cons]; omega
    | nil => simp [objsL, cntL]
    | cons n ns ih1 ih2 => simp only [objsL, cntL, List.length_append]; omega
  induction ns with
  | nil => simp [objsL, cntL]
  | cons n ns ih => have := hn n; simp only [objsL, cntL, List.length_append]; omega

mutual
/-- a placed node has at least as many objects as its size counts -/
theorem objs_ge {d : Bytes} {t : ObjectTree} {h : Nat} {dk dn : Bool} :
    ∀ (p : Nat) (n : Node), NodeOK d t h dk dn p n → sizeN n ≤ n.objs.length
  | _, .name _ _ _ _ _ _, _ => by simp [Node.objs, sizeN]
  | p, .dev kd x c sb off pw seg es kids, ok => by
    unfold NodeOK at ok
    have := objsL_ge sb kids ok.2.2
    have hel : es.length = kd.ws.length := by rw [← ok.1.wsok, List.length_map]
    simp only [Node.objs, sizeN, List.length_append, List.length_cons, List.length_nil, List.length_map]
    omega
  | _, .leaf _ _ _ _ _ _, _ => by simp [Node.objs, sizeN]
theorem objsL_ge {d : Bytes} {t : ObjectTree} {h : Nat} {dk : Bool} :
    ∀ (p : Nat) (ns : List Node), NodesOK d t h dk p ns → sizeL ns ≤ (objsL ns).length
  | _, [], _ => by simp [objsL, sizeL]
  | p, n :: ns, ok => by
    unfold NodesOK at ok
    have := objs_ge p n ok.1
    have := objsL_ge p ns ok.2
    simp only [objsL, sizeL, List.length_append]
    omega
end

/-- **the namespace in the pool of a nested program**: the default scopes, then the entries of the nodes in tree order -/
theorem nsOf_nest {d : Bytes} {t0 t : ObjectTree} {h : Nat} {ns : List Node} (fl : NestT d t0 t h ns) (b : Base t0)
    (tables : Array Bytes) (htab : tables.getD (h - 1) #[] = d) (hk0 : 1 ≤ (K t0 0).length) :
    nsOf t tables = flatNs ((K t0 0).map (fun y => ([nameStr (slot t0 y).name], "scope")))
      ((entsL [] ns).map (fun e => (e.1, e.2.1))) := by
  -- enough fuel: the objects of the nodes are distinct live positions
  have hlive : ∀ y ∈ objsL ns, live t y = true := NodesOK.live 0 ns fl.ok
  have hsz : 2 * cntL ns + 2 ≤ t.pool.size := by
    -- the root and an old child are two more live positions outside the nodes
    cases hk : K t0 0 with
    | nil => rw [hk] at hk0; simp at hk0
    | cons y ys =>
      obtain ⟨hyl, hyp⟩ := (K_mem b.wf b.root y).1 (by rw [hk]; simp)
      have hy0 : y ≠ 0 := fun e => by rw [e, b.rootp] at hyp; exact live_ne_INV b.wf.size_le b.root hyp.symm
      have hnd : (0 :: y :: objsL ns).Nodup := by
        refine List.nodup_cons.2 ⟨?_, List.nodup_cons.2 ⟨?_, fl.nd⟩⟩
        · intro hm
          rcases List.mem_cons.1 hm with e | hm
          · exact hy0 e.symm
          · have := fl.new 0 hm; rw [b.root] at this; cases this
        · intro hm; have := fl.new y hm; rw [hyl] at this; cases this
      have := nodup_bounded_length t.pool.size _ hnd (by
        intro z hz
        rcases List.mem_cons.1 hz with e | hz
        · rw [e]; exact live_lt (fl.old 0 b.root).1
        · rcases List.mem_cons.1 hz with e | hz
          · rw [e]; exact live_lt (fl.old y hyl).1
          · exact live_lt (hlive z hz))
      have hol := objsL_len ns
      simp only [List.length_cons] at this
      omega
  obtain ⟨f, hf⟩ : ∃ f, t.pool.size + 1 = f + 1 := ⟨t.pool.size, rfl⟩
  have hff : 2 * cntL ns ≤ f := by omega
  have h00 : ∀ y ∈ objsL ns, y ≠ 0 := fun y hy e => by have := fl.new y hy; rw [e, b.root] at this; cases this
  have hkt : K t 0 = K t0 0 ++ ns.map Node.x := by rw [fl.k0, tops_true]
  have hwalk : nsWalk t tables (f + 1) 0 [] =
      (K t0 0).map (fun y => ([nameStr (slot t0 y).name], "scope", y)) ++ entsL [] ns := by
    rw [nsWalk_eq, hkt, List.flatMap_append]
    congr 1
    · apply flatMap_single
      intro y hy
      obtain ⟨hyl, hyp⟩ := (K_mem b.wf b.root y).1 hy
      have hy0 : y ≠ 0 := fun e => by rw [e, b.rootp] at hyp; exact live_ne_INV b.wf.size_le b.root hyp.symm
      obtain ⟨a1, pay, _, a4⟩ := fl.old y hyl
      obtain ⟨k1, k2, _⟩ := b.kid y hy
      obtain ⟨f', hf'⟩ : ∃ f', f = f' + 1 := ⟨f - 1, by omega⟩
      unfold nsStep
      rw [pool_live a1]
      have hop : (slot t y).opcode = 0x1f6 := by rw [pay_opcode pay]; exact k2
      simp only [hop, if_true, List.nil_append]
      rw [hf', nsWalk_leaf t tables f' y _ (by rw [a4 hy0]; exact k1), pay_name pay]
    · exact nsStep_list tables htab 0 ns [] f 0 fl.ok h00 hff
  have hcalls : callWalk t (f + 1) 0 = [] := by
    rw [callWalk_eq, hkt, List.flatMap_append, List.append_eq_nil_iff]
    constructor
    · apply flatMap_nil'
      intro y hy
      obtain ⟨hyl, hyp⟩ := (K_mem b.wf b.root y).1 hy
      have hy0 : y ≠ 0 := fun e => by rw [e, b.rootp] at hyp; exact live_ne_INV b.wf.size_le b.root hyp.symm
      obtain ⟨a1, pay, _, a4⟩ := fl.old y hyl
      obtain ⟨k1, k2, _⟩ := b.kid y hy
      obtain ⟨f', hf'⟩ : ∃ f', f = f' + 1 := ⟨f - 1, by omega⟩
      exact callStep_nil f a1 (by rw [pay_opcode pay, k2]; decide) (by rw [hf']; exact callWalk_leaf t f' y (by rw [a4 hy0]; exact k1))
    · exact call_list 0 ns f fl.ok hff
  unfold nsOf flatNs
  rw [hf, hwalk, hcalls]
  simp [List.map_append, List.map_map, Function.comp_def]

/-! ## the programs of the nested fragment -/

/-- `Name(str, integer)`, `Name(str, string)`, `Device(str){…}` / `ThermalZone(str){…}` / `Processor(str, id, addr, len){…}` /
`PowerResource(str, level, order){…}` (PkgLength width `pw`, fixed arguments `vals`), `Event(str)`, `Mutex(str, sync)` -/
inductive NObj where
  | name (str : String) (w v : Nat)
  | dev (kd : BKind) (pw : Nat) (str : String) (vals : List Nat) (body : List NObj)
  | event (str : String)
  | mutex (str : String) (sync : Nat)
  | sname (str : String) (s : List UInt8)

mutual
/-- the declaration of the grammar subset (`AmlProg.Obj`) -/
def NObj.obj : NObj → AmlProg.Obj
  | .name str w v => .name { segs := [str] } (.int w v)
  | .dev .device pw str _ body => .device pw { segs := [str] } (objsOf body)
  | .dev .thermal pw str _ body => .thermal pw { segs := [str] } (objsOf body)
  | .dev .proc pw str vals body => .processor pw { segs := [str] } (vals.getD 0 0) (vals.getD 1 0) (vals.getD 2 0) (objsOf body)
  | .dev .power pw str vals body => .powerres pw { segs := [str] } (vals.getD 0 0) (vals.getD 1 0) (objsOf body)
  | .event str => .event { segs := [str] }
  | .mutex str sync => .mutex { segs := [str] } sync
  | .sname str s => .name { segs := [str] } (.str s)
def objsOf : List NObj → List AmlProg.Obj
  | [] => []
  | o :: os => o.obj :: objsOf os
end

mutual
def NObj.p : NObj → PObj
  | .name str w v => .name (segBytes str) (.int w v)
  | .dev kd pw str vals body => .dev kd pw (segBytes str) vals (psOf body)
  | .event str => .leaf .event (segBytes str) []
  | .mutex str sync => .leaf .mutex (segBytes str) [sync]
  | .sname str s => .name (segBytes str) (.str s)
def psOf : List NObj → List PObj
  | [] => []
  | o :: os => o.p :: psOf os
end

mutual
/-- well-formed segments, integer widths the encoder writes, PkgLength widths that hold the package length -/
def NObj.OK : NObj → Prop
  | .name str w _ => SegOK str ∧ IntW w
  | .dev kd pw str vals body => 1 ≤ pw ∧ pw ≤ 4 ∧ pw + (4 + (kd.ws.sum + (encPs (psOf body)).length)) < pkgBoundF pw ∧ SegOK str ∧
      kd.ws.length = vals.length ∧ oksOf body
  | .event str => SegOK str
  | .mutex str _ => SegOK str
  | .sname str s => SegOK str ∧ ∀ b ∈ s, 1 ≤ b ∧ b ≤ 0x7f
def oksOf : List NObj → Prop
  | [] => True
  | o :: os => o.OK ∧ oksOf os
end

mutual
/-- the namespace entries ACPI's scoping rules give the declarations below the path `π` -/
def entsO (π : AmlProg.Path) : NObj → List (AmlProg.Path × String)
  | .name str w v => [(π ++ [str], entryDesc w v)]
  | .dev kd _ str vals body => (π ++ [str], kd.tag (rvals kd.ws vals)) :: entsOL (π ++ [str]) body
  | .event str => [(π ++ [str], "event")]
  | .mutex str sync => [(π ++ [str], s!"mutex:{sync % 256}")]
  | .sname str s => [(π ++ [str], nameDesc (.str s))]
def entsOL (π : AmlProg.Path) : List NObj → List (AmlProg.Path × String)
  | [] => []
  | o :: os => entsO π o ++ entsOL π os
end

theorem seg_len {str : String} (h : SegOK str) : (segBytes str).length = 4 := by simp [segBytes, h.1]

theorem seg_nameOK {str : String} (h : SegOK str) : NameOK [segBytes str] := by
  obtain ⟨h4, hlt, c, hc, hcc⟩ := h
  have hlen : (segBytes str).length = 4 := by simp [segBytes, h4]
  refine ⟨?_, by simp, ?_⟩
  · intro s hs
    simp only [List.mem_cons, List.mem_nil_iff, or_false] at hs
    rw [hs]; exact hlen
  · intro s hs
    simp only [List.cons.injEq, and_true] at hs
    subst hs
    refine ⟨UInt8.ofNat c.toNat, by simp [segBytes, hc], ?_⟩
    have hclt : c.toNat < 256 := hlt c (List.mem_of_getElem? hc)
    have : (UInt8.ofNat c.toNat).toNat = c.toNat := by simp [UInt8.toNat_ofNat, Nat.mod_eq_of_lt hclt]
    rw [this]; exact hcc

theorem ofNat_mod256 (v : Nat) : UInt8.ofNat (v % 256) = UInt8.ofNat v := by
  apply UInt8.toNat_inj.1
  simp [UInt8.toNat_ofNat]

mutual
theorem enc_nobj : ∀ o : NObj, o.OK → encObj o.obj = encP o.p
  | .name str w v, _ => by simp [NObj.obj, NObj.p, encObj, encP, DVal.enc, encNameP, encName, encData]
  | .sname str s, _ => by simp [NObj.obj, NObj.p, encObj, encP, DVal.enc, encNameP, encName, encData]
  | .dev kd pw str vals body, hok => by
    have hb := enc_nobjs body (by unfold NObj.OK at hok; exact hok.2.2.2.2.2)
    have hvl : kd.ws.length = vals.length := by unfold NObj.OK at hok; exact hok.2.2.2.2.1
    cases kd with
    | device =>
      simp only [NObj.obj, NObj.p, encObj, encP, encPkg, encNameP, encName, hb, BKind.b2, BKind.ws, encVals]
      simp [List.length_append]
    | thermal =>
      simp only [NObj.obj, NObj.p, encObj, encP, encPkg, encNameP, encName, hb, BKind.b2, BKind.ws, encVals]
      simp [List.length_append]
    | proc =>
      obtain ⟨a1, a2, a3, rfl⟩ : ∃ a1 a2 a3, vals = [a1, a2, a3] := len3 (by simpa [BKind.ws] using hvl.symm)
      simp only [NObj.obj, NObj.p, encObj, encP, encPkg, encNameP, encName, hb, BKind.b2, BKind.ws, encVals, List.getD_cons_zero,
        List.getD_cons_succ]
      simp [List.length_append, encConst, List.range_succ, ofNat_mod256]
      congr 1
      omega
    | power =>
      obtain ⟨a1, a2, rfl⟩ : ∃ a1 a2, vals = [a1, a2] := len2 (by simpa [BKind.ws] using hvl.symm)
      simp only [NObj.obj, NObj.p, encObj, encP, encPkg, encNameP, encName, hb, BKind.b2, BKind.ws, encVals, List.getD_cons_zero,
        List.getD_cons_succ]
      simp [List.length_append, encConst, List.range_succ, ofNat_mod256]
      congr 1
      omega
  | .event str, _ => by simp [NObj.obj, NObj.p, encObj, encP, encNameP, encName, encVals, LKind.b2]
  | .mutex str sync, _ => by
    simp [NObj.obj, NObj.p, encObj, encP, encNameP, encName, encVals, LKind.b2, LKind.ws, encConst, List.range_succ]
    apply UInt8.toNat_inj.1
    simp [UInt8.toNat_ofNat]
theorem enc_nobjs : ∀ l : List NObj, oksOf l → encObjs (objsOf l) = encPs (psOf l)
  | [], _ => by simp [objsOf, psOf, encObjs, encPs]
  | o :: os, hok => by
    unfold oksOf at hok
    simp [objsOf, psOf, encObjs, encPs, enc_nobj o hok.1, enc_nobjs os hok.2]
end

mutual
theorem ok_nobj : ∀ o : NObj, o.OK → okP o.p
  | .name str w v, h => by
    unfold NObj.OK at h
    unfold NObj.p okP
    exact ⟨seg_nameOK h.1, seg_len h.1, h.2⟩
  | .sname str s, h => by
    unfold NObj.OK at h
    unfold NObj.p okP
    exact ⟨seg_nameOK h.1, seg_len h.1, h.2⟩
  | .dev kd pw str vals body, h => by
    unfold NObj.OK at h
    obtain ⟨h1, h2, h3, h4, h5, h6⟩ := h
    unfold NObj.p okP
    exact ⟨h1, h2, by rw [seg_len h4, encVals_len _ _ h5]; exact h3, seg_nameOK h4, seg_len h4, h5, ok_nobjs body h6⟩
  | .event str, h => by
    unfold NObj.OK at h
    unfold NObj.p okP
    exact ⟨seg_nameOK h, seg_len h, rfl⟩
  | .mutex str sync, h => by
    unfold NObj.OK at h
    unfold NObj.p okP
    exact ⟨seg_nameOK h, seg_len h, rfl⟩
theorem ok_nobjs : ∀ l : List NObj, oksOf l → okPs (psOf l)
  | [], _ => by unfold psOf okPs; trivial
  | o :: os, h => by
    unfold oksOf at h
    unfold psOf okPs
    exact ⟨ok_nobj o h.1, ok_nobjs os h.2⟩
end

mutual
/-- the entries `nsWalk` reads are the entries of the program -/
theorem ents_node : ∀ (o : NObj) (n : Node) (π : AmlProg.Path), o.OK → n.prog = o.p →
    (entsN π n).map (fun e => (e.1, e.2.1)) = entsO π o
  | .name str w v, n, π, hok, hp => by
    unfold NObj.OK at hok
    cases n with
    | name x c k off seg dv =>
      simp only [Node.prog, NObj.p, PObj.name.injEq] at hp
      obtain ⟨hseg, hdv⟩ := hp
      rw [hseg, hdv]
      simp only [entsN, entsO, List.map_cons, List.map_nil]
      rw [nameStr_seg hok.1, nameDesc_int]
    | dev kd x c sb off pw seg es kids => simp [Node.prog, NObj.p] at hp
    | leaf kd x c off seg es => simp [Node.prog, NObj.p] at hp
  | .sname str s, n, π, hok, hp => by
    unfold NObj.OK at hok
    cases n with
    | name x c k off seg dv =>
      simp only [Node.prog, NObj.p, PObj.name.injEq] at hp
      obtain ⟨hseg, hdv⟩ := hp
      rw [hseg, hdv]
      simp only [entsN, entsO, List.map_cons, List.map_nil]
      rw [nameStr_seg hok.1]
    | dev kd x c sb off pw seg es kids => simp [Node.prog, NObj.p] at hp
    | leaf kd x c off seg es => simp [Node.prog, NObj.p] at hp
  | .dev kd pw str vals body, n, π, hok, hp => by
    unfold NObj.OK at hok
    cases n with
    | name x c k off seg' dv => simp [Node.prog, NObj.p] at hp
    | dev kd' x c sb off pw' seg es kids =>
      simp only [Node.prog, NObj.p, PObj.dev.injEq] at hp
      obtain ⟨hkd, _, hseg, hvals, hkids⟩ := hp
      rw [hseg, hkd]
      simp only [entsN, entsO, List.map_cons]
      rw [nameStr_seg hok.2.2.2.1, ents_list body kids _ hok.2.2.2.2.2 hkids, hvals]
    | leaf kd x c off seg es => simp [Node.prog, NObj.p] at hp
  | .event str, n, π, hok, hp => by
    unfold NObj.OK at hok
    cases n with
    | name x c k off seg' dv => simp [Node.prog, NObj.p] at hp
    | dev kd' x c sb off pw' seg es kids => simp [Node.prog, NObj.p] at hp
    | leaf kd x c off seg es =>
      simp only [Node.prog, NObj.p, PObj.leaf.injEq] at hp
      obtain ⟨hkd, hseg, hes⟩ := hp
      rw [hseg, hkd]
      simp only [entsN, entsO, List.map_cons, List.map_nil]
      rw [nameStr_seg hok]
      rfl
  | .mutex str sync, n, π, hok, hp => by
    unfold NObj.OK at hok
    cases n with
    | name x c k off seg' dv => simp [Node.prog, NObj.p] at hp
    | dev kd' x c sb off pw' seg es kids => simp [Node.prog, NObj.p] at hp
    | leaf kd x c off seg es =>
      simp only [Node.prog, NObj.p, PObj.leaf.injEq] at hp
      obtain ⟨hkd, hseg, hes⟩ := hp
      rw [hseg, hkd]
      simp only [entsN, entsO, List.map_cons, List.map_nil]
      rw [nameStr_seg hok, hes]
      simp [ldesc, rvals, LKind.ws]
theorem ents_list : ∀ (l : List NObj) (ns : List Node) (π : AmlProg.Path), oksOf l → progs ns = psOf l →
    (entsL π ns).map (fun e => (e.1, e.2.1)) = entsOL π l
  | [], ns, π, _, hp => by
    cases ns with
    | nil => simp [entsL, entsOL]
    | cons n ns => simp [progs, psOf] at hp
  | o :: os, ns, π, hok, hp => by
    unfold oksOf at hok
    cases ns with
    | nil => simp [progs, psOf] at hp
    | cons n ns =>
      simp only [progs, psOf, List.cons.injEq] at hp
      simp only [entsL, entsOL, List.map_append]
      rw [ents_node o n π hok.1 hp.1, ents_list os ns π hok.2 hp.2]
end

/-! ## the namespace the scoping rules assign -/

theorem has_true {ns : Namespace} {p : AmlProg.Path} (h : p ∈ ns.objs.map (·.1)) : ns.has p = true := by
  unfold Namespace.has
  rw [List.any_eq_true]
  obtain ⟨x, hx, e⟩ := List.mem_map.1 h
  exact ⟨x, hx, by simp [e]⟩

/-- `st.add` of a fresh path whose parent scope is declared -/
theorem add_fresh (defs ents : List (AmlProg.Path × String)) (π : AmlProg.Path) (str desc : String)
    (hn : π ++ [str] ∉ (defs ++ ents).map (·.1)) (hπ : π = [] ∨ π ∈ (defs ++ ents).map (·.1)) :
    NsSt.add { ns := flatNs defs ents, pending := [] } (π ++ [str]) desc =
      { ns := flatNs defs (ents ++ [(π ++ [str], desc)]), pending := [] } := by
  unfold NsSt.add
  have hh : (flatNs defs ents).has (π ++ [str]) = false := has_false (by unfold flatNs; exact hn)
  simp only [hh, Bool.false_eq_true, if_false]
  have hpar : ¬ ((π ++ [str]).length > 1 ∧ (!(flatNs defs ents).has ((π ++ [str]).take ((π ++ [str]).length - 1))) = true) := by
    intro hq
    have htake : (π ++ [str]).take ((π ++ [str]).length - 1) = π := by simp
    rw [htake] at hq
    rcases hπ with e | hm
    · rw [e] at hq; simp at hq
    · have := has_true (ns := flatNs defs ents) (p := π) (by unfold flatNs; exact hm)
      rw [this] at hq; simp at hq
  rw [if_neg hpar]
  unfold flatNs
  simp

theorem declPath_rel (π : AmlProg.Path) (str : String) : declPath π { segs := [str] } = some (π ++ [str]) := by
  simp [declPath]

/-- the scoping rule for a scoped object: declare it, then its body below it -/
theorem declObj_blk (kd : BKind) (pw : Nat) (str : String) (vals : List Nat) (body : List NObj) (π : AmlProg.Path) (st : NsSt)
    (hvl : kd.ws.length = vals.length) :
    declObj π (NObj.dev kd pw str vals body).obj st =
      declObjs (π ++ [str]) (objsOf body) (st.add (π ++ [str]) (kd.tag (rvals kd.ws vals))) := by
  cases kd with
  | device =>
    unfold NObj.obj
    rw [declObj, declPath_rel]
    rfl
  | thermal =>
    unfold NObj.obj
    rw [declObj, declPath_rel]
    rfl
  | proc =>
    obtain ⟨a1, a2, a3, rfl⟩ : ∃ a1 a2 a3, vals = [a1, a2, a3] := len3 (by simpa [BKind.ws] using hvl.symm)
    unfold NObj.obj
    rw [declObj, declPath_rel]
    simp [BKind.tag, BKind.ws, rvals]
  | power =>
    obtain ⟨a1, a2, rfl⟩ : ∃ a1 a2, vals = [a1, a2] := len2 (by simpa [BKind.ws] using hvl.symm)
    unfold NObj.obj
    rw [declObj, declPath_rel]
    simp [BKind.tag, BKind.ws, rvals]

mutual
theorem declObj_nest : ∀ (o : NObj) (π : AmlProg.Path) (defs ents : List (AmlProg.Path × String)),
    (π = [] ∨ π ∈ (defs ++ ents).map (·.1)) → ((defs ++ ents).map (·.1) ++ (entsO π o).map (·.1)).Nodup → o.OK →
    declObj π o.obj { ns := flatNs defs ents, pending := [] } = { ns := flatNs defs (ents ++ entsO π o), pending := [] }
  | .name str w v, π, defs, ents, hπ, hnd, _ => by
    unfold NObj.obj
    rw [declObj, declPath_rel]
    simp only
    have hn : π ++ [str] ∉ (defs ++ ents).map (·.1) := by
      rw [List.nodup_append] at hnd
      intro hm
      exact hnd.2.2 _ hm _ (by simp [entsO]) rfl
    have := add_fresh defs ents π str s!"name:{dataDesc (.int w v)}" hn hπ
    rw [this]
    simp [entsO, entryDesc, dataDesc]
  | .dev kd pw str vals body, π, defs, ents, hπ, hnd, hok => by
    have hvl : kd.ws.length = vals.length := by unfold NObj.OK at hok; exact hok.2.2.2.2.1
    have hokb : oksOf body := by unfold NObj.OK at hok; exact hok.2.2.2.2.2
    rw [declObj_blk kd pw str vals body π _ hvl]
    have hn : π ++ [str] ∉ (defs ++ ents).map (·.1) := by
      rw [List.nodup_append] at hnd
      intro hm
      exact hnd.2.2 _ hm _ (by simp [entsO]) rfl
    rw [add_fresh defs ents π str (kd.tag (rvals kd.ws vals)) hn hπ]
    rw [declObjs_nest body (π ++ [str]) defs (ents ++ [(π ++ [str], kd.tag (rvals kd.ws vals))]) (Or.inr (by simp)) (by
      have : (defs ++ (ents ++ [(π ++ [str], kd.tag (rvals kd.ws vals))])).map (·.1) ++ (entsOL (π ++ [str]) body).map (·.1) =
          (defs ++ ents).map (·.1) ++ (entsO π (.dev kd pw str vals body)).map (·.1) := by simp [entsO]
      rw [this]; exact hnd) hokb]
    simp [entsO]
  | .sname str s, π, defs, ents, hπ, hnd, _ => by
    unfold NObj.obj
    rw [declObj, declPath_rel]
    simp only
    have hn : π ++ [str] ∉ (defs ++ ents).map (·.1) := by
      rw [List.nodup_append] at hnd
      intro hm
      exact hnd.2.2 _ hm _ (by simp [entsO]) rfl
    have := add_fresh defs ents π str s!"name:{dataDesc (.str s)}" hn hπ
    rw [this]
    simp [entsO, nameDesc, DVal.desc, dataDesc]
  | .event str, π, defs, ents, hπ, hnd, _ => by
    unfold NObj.obj
    rw [declObj, declPath_rel]
    simp only
    have hn : π ++ [str] ∉ (defs ++ ents).map (·.1) := by
      rw [List.nodup_append] at hnd
      intro hm
      exact hnd.2.2 _ hm _ (by simp [entsO]) rfl
    rw [add_fresh defs ents π str "event" hn hπ]
    simp [entsO]
  | .mutex str sync, π, defs, ents, hπ, hnd, _ => by
    unfold NObj.obj
    rw [declObj, declPath_rel]
    simp only
    have hn : π ++ [str] ∉ (defs ++ ents).map (·.1) := by
      rw [List.nodup_append] at hnd
      intro hm
      exact hnd.2.2 _ hm _ (by simp [entsO]) rfl
    rw [add_fresh defs ents π str s!"mutex:{sync % 256}" hn hπ]
    simp [entsO]
theorem declObjs_nest : ∀ (l : List NObj) (π : AmlProg.Path) (defs ents : List (AmlProg.Path × String)),
    (π = [] ∨ π ∈ (defs ++ ents).map (·.1)) → ((defs ++ ents).map (·.1) ++ (entsOL π l).map (·.1)).Nodup → oksOf l →
    declObjs π (objsOf l) { ns := flatNs defs ents, pending := [] } = { ns := flatNs defs (ents ++ entsOL π l), pending := [] }
  | [], π, defs, ents, _, _, _ => by simp [objsOf, declObjs, entsOL]
  | o :: os, π, defs, ents, hπ, hnd, hok => by
    unfold oksOf at hok
    unfold objsOf
    rw [declObjs]
    have hnd' : ((defs ++ ents).map (·.1) ++ ((entsO π o).map (·.1) ++ (entsOL π os).map (·.1))).Nodup := by
      have e : entsOL π (o :: os) = entsO π o ++ entsOL π os := by simp [entsOL]
      have e2 : (entsO π o ++ entsOL π os).map (·.1) = (entsO π o).map (·.1) ++ (entsOL π os).map (·.1) := List.map_append
      rw [e, e2] at hnd
      exact hnd
    rw [declObj_nest o π defs ents hπ (by
      rw [← List.append_assoc] at hnd'
      exact (List.nodup_append.1 hnd').1) hok.1]
    rw [declObjs_nest os π defs (ents ++ entsO π o) (by
      rcases hπ with e | hm
      · exact Or.inl e
      · exact Or.inr (by simp only [List.map_append, List.mem_append] at hm ⊢; rcases hm with h | h <;> simp [h])) (by
      have : (defs ++ (ents ++ entsO π o)).map (·.1) ++ (entsOL π os).map (·.1) =
          (defs ++ ents).map (·.1) ++ ((entsO π o).map (·.1) ++ (entsOL π os).map (·.1)) := by simp
      rw [this]; exact hnd') hok.2]
    simp [entsOL]
end

/-- **the namespace of a nested program**: the default scopes, then the entries of the declarations in order -/
theorem namespaceOf_nest (l : List NObj) (hok : oksOf l) (hnd : (defaultNs.objs.map (·.1) ++ (entsOL [] l).map (·.1)).Nodup) :
    namespaceOf [objsOf l] = flatNs defaultNs.objs (entsOL [] l) := by
  unfold namespaceOf
  simp only [List.foldl_cons, List.foldl_nil]
  have h0 : ({ ns := defaultNs } : NsSt) = { ns := flatNs defaultNs.objs [], pending := [] } := by
    unfold flatNs defaultNs; simp
  rw [h0, declObjs_nest l [] defaultNs.objs [] (Or.inl rfl) (by simpa using hnd) hok]
  unfold resolveCalls
  simp

mutual
theorem encP_len : ∀ o : PObj, okP o → sizeP o ≤ (encP o).length ∧ closesP o ≤ sizeP o
  | .name seg dv, _ => by simp [sizeP, closesP, encP]
  | .dev kd pw seg vals body, hok => by
    unfold okP at hok
    have := encPs_len body hok.2.2.2.2.2.2
    have hv := encVals_len kd.ws vals hok.2.2.2.2.2.1
    have hs : kd.ws.length ≤ kd.ws.sum := by cases kd <;> simp [BKind.ws]
    simp only [sizeP, closesP, encP, List.length_append, List.length_cons, List.length_nil]
    omega
  | .leaf kd seg vals, _ => by simp [sizeP, closesP, encP]
theorem encPs_len : ∀ os : List PObj, okPs os → sizePs os ≤ (encPs os).length ∧ closesPs os ≤ sizePs os
  | [], _ => by simp [sizePs, closesPs, encPs]
  | o :: os, hok => by
    unfold okPs at hok
    have := encP_len o hok.1
    have := encPs_len os hok.2
    simp only [sizePs, closesPs, encPs, List.length_append]
    omega
end

/-- **C11 for the nested fragment.**  For every program made of `Device(NAME){…}` / `ThermalZone(NAME){…}` /
`Processor(NAME, id, addr, len){…}` / `PowerResource(NAME, level, order){…}` — nested to any depth, every PkgLength width, every
value of the fixed arguments —, `Name(NAME, integer)`, `Name(NAME, "string")`, `Event(NAME)` and `Mutex(NAME, sync)` declarations
(every integer width and value, every ASCII string, every sync byte; well-formed single-segment names; all
absolute paths distinct and different from the default scopes), loaded as one table into the default namespace: the
program is well-scoped, the parser (model) accepts the encoded table, and the namespace read off the resulting object tree
— every named object at the ABSOLUTE PATH its enclosing devices give it, with its kind and value — is exactly the
namespace ACPI's scoping rules assign to the program. -/
theorem agrees_nest (l : List NObj) (hok : oksOf l)
    (hnd : (defaultNs.objs.map (·.1) ++ (entsOL [] l).map (·.1)).Nodup)
    (hlen : (AmlProg.encode (objsOf l)).length ≤ 1000000000) :
    agrees [objsOf l] = true := by
  obtain ⟨t, ht, tg, b, hnames, hsz6⟩ := default_tree
  have henc : AmlProg.encode (objsOf l) = encPs (psOf l) := by unfold AmlProg.encode; exact enc_nobjs l hok
  generalize hpl : (AmlProg.encode (objsOf l)).toArray = pl
  have hpll : pl.toList = encPs (psOf l) := by rw [← hpl, ← henc]
  have hplen : pl.size = (encPs (psOf l)).length := by rw [← hpll]; simp
  have hlen' : (encPs (psOf l)).length ≤ 1000000000 := by rw [← henc]; exact hlen
  obtain ⟨hn1, hn2⟩ := encPs_len (psOf l) (ok_nobjs l hok)
  let d := mkTable pl
  have hdsz : d.size = headerLen + pl.size := mkTable_size pl
  have hK0 : (K t 0).length = 5 := by
    have := congrArg List.length hnames
    simpa [defaultNs] using this
  obtain ⟨s', ns, hp, e, fl⟩ := parseAML_nest (d := d) (by rw [hdsz, hplen]; simp [headerLen]; omega)
    (by rw [hdsz]; omega) (psOf l) (ok_nobjs l hok)
    (by have := mkTable_bytes pl; rw [hpll] at this; exact this) (by rw [hdsz, hplen])
    { tree := t } tg b (by show t.pool.size + 3 * sizePs (psOf l) < INV; rw [hsz6, show INV = 4294967295 from rfl]; omega)
    (fuelFor d t) (by show 8 * sizePs (psOf l) + (K t 0).length + closesPs (psOf l) + 13 ≤ fuelFor d t
                      rw [hK0]; unfold fuelFor; rw [hdsz, hplen]; omega) 1
  have hns := nsOf_nest fl b #[d] (by simp) (by rw [hK0]; decide)
  rw [hnames, ents_list l ns [] hok hp] at hns
  have hspec := namespaceOf_nest l hok hnd
  have hmodel : modelNs [objsOf l] = some (flatNs defaultNs.objs (entsOL [] l)) := by
    unfold modelNs
    rw [ht]
    simp only
    unfold loadAll
    simp only
    rw [hpl]
    show (match parseAML d (fuelFor d t) 1 { tree := t } with
      | .ok (true, s) => loadAll s.tree (#[].push d) (1 + 1) []
      | _ => none) = _
    rw [e]
    simp only
    unfold loadAll
    rw [← hns]
    rfl
  unfold agrees
  rw [hmodel, hspec]
  simp only [sameNs_refl, Bool.and_true]
  rfl

/-! ## executable form of the hypotheses (for instances) -/

def segOKb (str : String) : Bool :=
  str.toList.length == 4 && str.toList.all (fun c => decide (c.toNat < 256)) &&
  (match str.toList[0]? with
   | some c => (decide (0x41 ≤ c.toNat) && decide (c.toNat ≤ 0x5a)) || decide (c.toNat = 0x5f)
   | none => false)

theorem segOK_of_b {str : String} (h : segOKb str = true) : SegOK str := by
  unfold segOKb at h
  simp only [Bool.and_eq_true, beq_iff_eq, List.all_eq_true, decide_eq_true_eq] at h
  obtain ⟨⟨h1, h2⟩, h3⟩ := h
  refine ⟨h1, h2, ?_⟩
  cases hc : str.toList[0]? with
  | none => rw [hc] at h3; cases h3
  | some c =>
    rw [hc] at h3
    simp only [Bool.or_eq_true, Bool.and_eq_true, decide_eq_true_eq] at h3
    exact ⟨c, rfl, h3⟩

def intWb (w : Nat) : Bool := w == 0 || w == 1 || w == 2 || w == 4 || w == 8

theorem intW_of_b {w : Nat} (h : intWb w = true) : IntW w := by
  unfold intWb at h
  simp only [Bool.or_eq_true, beq_iff_eq] at h
  unfold IntW
  omega

mutual
def okB : NObj → Bool
  | .name str w _ => segOKb str && intWb w
  | .dev kd pw str vals body => decide (1 ≤ pw) && decide (pw ≤ 4) &&
      decide (pw + (4 + (kd.ws.sum + (encPs (psOf body)).length)) < pkgBoundF pw) && segOKb str && decide (kd.ws.length = vals.length) && oksB body
  | .event str => segOKb str
  | .mutex str _ => segOKb str
  | .sname str s => segOKb str && s.all (fun b => decide (1 ≤ b) && decide (b ≤ 0x7f))
def oksB : List NObj → Bool
  | [] => true
  | o :: os => okB o && oksB os
end

mutual
theorem ok_of_b : ∀ o : NObj, okB o = true → o.OK
  | .name str w v, h => by
    unfold okB at h
    simp only [Bool.and_eq_true] at h
    unfold NObj.OK
    exact ⟨segOK_of_b h.1, intW_of_b h.2⟩
  | .dev kd pw str vals body, h => by
    unfold okB at h
    simp only [Bool.and_eq_true, decide_eq_true_eq] at h
    unfold NObj.OK
    exact ⟨h.1.1.1.1.1, h.1.1.1.1.2, h.1.1.1.2, segOK_of_b h.1.1.2, h.1.2, oks_of_b body h.2⟩
  | .event str, h => by
    unfold okB at h
    unfold NObj.OK
    exact segOK_of_b h
  | .mutex str sync, h => by
    unfold okB at h
    unfold NObj.OK
    exact segOK_of_b h
  | .sname str s, h => by
    unfold okB at h
    simp only [Bool.and_eq_true, List.all_eq_true, decide_eq_true_eq] at h
    unfold NObj.OK
    exact ⟨segOK_of_b h.1, h.2⟩
theorem oks_of_b : ∀ l : List NObj, oksB l = true → oksOf l
  | [], _ => by unfold oksOf; trivial
  | o :: os, h => by
    unfold oksB at h
    simp only [Bool.and_eq_true] at h
    unfold oksOf
    exact ⟨ok_of_b o h.1, oks_of_b os h.2⟩
end

end Firefly.AmlParser.F
