import Firefly.Proof.Vt
import Firefly.Props.C19
/-!
C18 ∘ C19 for the framebuffer console, for every height: along the terminal's call log a `Scroll`
is always followed at once by the `Fill` of the vacated line (`VtProof.Paired`), so the pair
re-establishes "the framebuffer displays the abstract console" even when the text area is not a
whole number of glyph rows (where C19 claims the scrolled screen only for the lines that receive
another line's contents: `pix_refines_grid_scroll_moved`).
-/
namespace Firefly.VtPix
open Firefly Firefly.Vt Firefly.Term Firefly.VtCons Firefly.VtProof Firefly.ConsoleGrid Firefly.Spec.Console
open Firefly.C19
set_option linter.unusedSimpArgs false

private theorem scrollUp_is_zero : Firefly.Gen.C17.scrollDirUp = 0 := by decide

/-- the geometry facts of `ConsoleGrid` from C19's domain predicate -/
theorem geoOf {c : VesaFb.Cons} {f : VesaFb.Font} {fb : Array UInt8} (ok : PixOk c f fb) :
    Geo c f ∧ 0 < c.pitch ∧ c.rows < 4294967296 ∧ c.cols < 4294967296 := by
  have h1 : c.cols * f.gw ≤ c.width := by rw [ok.cols]; exact Nat.div_mul_le_self _ _
  have h2 : c.rows * f.gh ≤ c.height - c.offsetY := by rw [ok.rows]; exact Nat.div_mul_le_self _ _
  have h3 : 1 ≤ c.bytesPerPixel := by
    rw [ok.bytes]
    rcases ok.bpp with h | h | h | h | h <;> rw [h] <;> decide
  have h4 : c.width ≤ c.width * c.bytesPerPixel := Nat.le_mul_of_pos_right _ h3
  have h6 : 1 ≤ c.cols * f.gw := Nat.mul_pos ok.cols1 ok.gw1
  have h7 : 1 ≤ c.pitch := by have := ok.pitch; omega
  have h8 : c.height ≤ c.height * c.pitch := Nat.le_mul_of_pos_right _ h7
  have h9 : (c.height + 1) * c.pitch = c.height * c.pitch + c.pitch := by rw [Nat.add_mul]; omega
  have h10 : c.cols ≤ c.cols * f.gw := Nat.le_mul_of_pos_right _ ok.gw1
  have h11 : c.rows ≤ c.rows * f.gh := Nat.le_mul_of_pos_right _ ok.gh1
  have := ok.small; have := ok.logo; have := ok.pitch
  exact ⟨⟨ok.gw1, ok.gh1, h3, h1, by omega⟩, h7, by omega, by omega⟩

/-- one cell after a `Fill`: a cell of the rectangle shows a blank in the fill's background
whatever it showed before; any other cell keeps showing what it showed (the proof of
`ConsoleGrid.pix_fill_shows`, cell by cell, without asking anything of the cells that are filled) -/
theorem fill_cell (c : VesaFb.Cons) (f : VesaFb.Font) (hsp : SpaceBlank f) (v : Nat → UInt8)
    (x y fw fh : Nat) (fg bg : UInt8) (hin : 1 ≤ x ∧ 1 ≤ y ∧ x + fw ≤ c.cols + 1 ∧ y + fh ≤ c.rows + 1)
    (r col : Nat) (hr : r < c.rows) (hc : col < c.cols) (cell : Cell)
    (hcell : if y ≤ r + 1 ∧ r + 1 < y + fh ∧ x ≤ col + 1 ∧ col + 1 < x + fw then cell = ⟨32, fg, bg⟩
             else CellShows c f v (col + 1) (r + 1) cell) :
    CellShows c f (pixFill c f v x y fw fh bg.toNat) (col + 1) (r + 1) cell := by
  have hcx : clamp x c.cols = x ∨ fw = 0 := by
    unfold clamp; split
    · omega
    · split <;> omega
  have hcy : clamp y c.rows = y ∨ fh = 0 := by
    unfold clamp; split
    · omega
    · split <;> omega
  have hcx' : 1 ≤ clamp x c.cols := by
    unfold clamp; split
    · omega
    · split <;> omega
  have hcy' : 1 ≤ clamp y c.rows := by
    unfold clamp; split
    · omega
    · split <;> omega
  intro i hi b hb
  obtain ⟨a1, a2, a3, a4⟩ := hi
  simp only [Nat.add_sub_cancel] at a1 a3
  simp only [pixFill, paint, fillRect]
  by_cases hrect : y ≤ r + 1 ∧ r + 1 < y + fh ∧ x ≤ col + 1 ∧ col + 1 < x + fw
  · rw [if_pos hrect] at hcell
    subst hcell
    have m1 : (clamp x c.cols - 1) * f.gw ≤ col * f.gw := Nat.mul_le_mul_right _ (by omega)
    have m2 : (col + 1) * f.gw ≤ min (clamp x c.cols - 1 + fw) c.cols * f.gw := Nat.mul_le_mul_right _ (by omega)
    have m3 : (clamp y c.rows - 1) * f.gh ≤ r * f.gh := Nat.mul_le_mul_right _ (by omega)
    have m4 : (r + 1) * f.gh ≤ min (clamp y c.rows - 1 + fh) c.rows * f.gh := Nat.mul_le_mul_right _ (by omega)
    rw [if_pos (by omega)]
    have hpx : i % c.pitch / c.bytesPerPixel - (col + 1 - 1) * f.gw < f.gw := by
      rw [Nat.add_mul, Nat.one_mul] at a4; simp only [Nat.add_sub_cancel]; omega
    have hpy : i / c.pitch - (c.offsetY + (r + 1 - 1) * f.gh) < f.gh := by
      rw [Nat.add_mul, Nat.one_mul] at a2; simp only [Nat.add_sub_cancel]; omega
    simp only [cellByte] at hb
    rw [show ((32 : UInt8).toNat) = 32 from rfl, hsp _ _ hpx hpy] at hb
    simp only [Bool.false_eq_true, if_false] at hb
    rw [hb]
  · rw [if_neg hrect] at hcell
    have hnot : ¬ (c.offsetY + (clamp y c.rows - 1) * f.gh ≤ i / c.pitch ∧
        i / c.pitch < c.offsetY + min (clamp y c.rows - 1 + fh) c.rows * f.gh ∧
        (clamp x c.cols - 1) * f.gw ≤ i % c.pitch / c.bytesPerPixel ∧
        i % c.pitch / c.bytesPerPixel < min (clamp x c.cols - 1 + fw) c.cols * f.gw) := by
      intro ⟨b1, b2, b3, b4⟩
      have p1 : clamp x c.cols - 1 < col + 1 := Nat.lt_of_mul_lt_mul_right (Nat.lt_of_le_of_lt b3 a4)
      have p2 : col < min (clamp x c.cols - 1 + fw) c.cols := Nat.lt_of_mul_lt_mul_right (Nat.lt_of_le_of_lt a3 b4)
      have q1 : clamp y c.rows - 1 < r + 1 := Nat.lt_of_mul_lt_mul_right (a := f.gh) (by omega)
      have q2 : r < min (clamp y c.rows - 1 + fh) c.rows := Nat.lt_of_mul_lt_mul_right (a := f.gh) (by omega)
      omega
    rw [if_neg hnot]
    exact hcell i ⟨by simpa using a1, a2, by simpa using a3, a4⟩ b hb

/-- `Scroll(up, 1)` followed by the `Fill` of the whole last line, on any geometry: the framebuffer
displays the abstract console again (the vacated line, which a scroll may leave unspecified when
there are left-over pixel rows, is repainted by the fill) -/
theorem scroll_fill (c : VesaFb.Cons) (f : VesaFb.Font) (fb : Array UInt8) (ok : PixOk c f fb) (hsp : SpaceBlank f)
    (k : Console) (wf : WF k) (sh : PixShows c f (view8 fb) k) (fg bg : UInt8) :
    ∃ fb1 fb2, pixApply c fb (.scroll Firefly.Gen.C17.scrollDirUp 1) = some fb1 ∧
      pixApply c fb1 (.fill 1 k.h k.w 1 fg bg) = some fb2 ∧ PixOk c f fb2 ∧
      PixShows c f (view8 fb2) ((k.scrollUp 1).fill 1 k.h k.w 1 fg bg) ∧
      WF ((k.scrollUp 1).fill 1 k.h k.w 1 fg bg) := by
  obtain ⟨g, hp, hrows, hcols⟩ := geoOf ok
  have hw := sh.1; have hh := sh.2.1
  have hk1 : 1 ≤ k.h := by rw [hh]; exact ok.rows1
  obtain ⟨fb1, r1, ok1, mv⟩ := pix_refines_grid_scroll_moved c f fb ok k sh 1 ⟨Nat.le_refl 1, hk1⟩
  obtain ⟨fb2, r2, sz2, v2⟩ := pix_fill_clip c f fb1 ok1 1 k.h k.w 1 fg.toNat bg.toNat (by omega) (by omega)
    (by omega) (by omega) (UInt8.toNat_lt _)
  obtain ⟨s1, s2, s3, s4, s5⟩ := scroll1 wf hk1
  have hin : 1 ≤ 1 ∧ 1 ≤ k.h ∧ 1 + k.w ≤ (k.scrollUp 1).w + 1 ∧ k.h + 1 ≤ (k.scrollUp 1).h + 1 := by
    rw [s1, s2]; omega
  obtain ⟨f1, f2, f3, f4, f5⟩ := fill_in s3 fg bg hin
  refine ⟨fb1, fb2, by simp only [pixApply, scrollUp_is_zero]; exact r1, r2,
    { ok1 with size := by rw [sz2, ok1.size] }, ?_, f3⟩
  have shf : PixShows c f (pixFill c f (view8 fb1) 1 k.h k.w 1 bg.toNat) ((k.scrollUp 1).fill 1 k.h k.w 1 fg bg) := by
    refine ⟨by rw [f1, s1, hw], by rw [f2, s2, hh], ?_⟩
    intro r col hr hc
    rw [f2, s2] at hr; rw [f1, s1] at hc
    rw [f5 r col (by rw [s2]; exact hr) (by rw [s1]; exact hc)]
    apply fill_cell c f hsp (view8 fb1) 1 k.h k.w 1 fg bg (by rw [← hw, ← hh]; omega) r col (by rw [← hh]; exact hr)
      (by rw [← hw]; exact hc)
    by_cases hrect : k.h ≤ r + 1 ∧ r + 1 < k.h + 1 ∧ 1 ≤ col + 1 ∧ col + 1 < 1 + k.w
    · rw [if_pos hrect, if_pos hrect]
    · rw [if_neg hrect, if_neg hrect]
      have hlt : r + 1 < k.h := by omega
      rw [s5 r col hr hc, if_pos hlt]
      exact mv r col hlt hc
  exact pixShows_congr c f g hp _ _ _ (fun i hi => v2 i (by rw [ok1.size]; exact hi)) shf

/-- **the terminal's whole call log on the framebuffer console, any geometry** -/
theorem paired_log (c : VesaFb.Cons) (f : VesaFb.Font) (fok : FontOk f) (hsp : SpaceBlank f) {log : List Call}
    (hp : Paired c.cols c.rows log) :
    ∀ (fb : Array UInt8) (k : Console), PixOk c f fb → WF k → PixShows c f (view8 fb) k →
      ∃ fb', pixRun c fb log = some fb' ∧ PixOk c f fb' ∧ PixShows c f (view8 fb') (k.applyLog log) ∧
        WF (k.applyLog log) := by
  induction hp with
  | nil => intro fb k ok wf sh; exact ⟨fb, rfl, ok, sh, wf⟩
  | @write ch fg bg x y rest hin _ ih =>
    intro fb k ok wf sh
    obtain ⟨fb1, r1, ok1, sh1, wf1⟩ := ih fb k ok wf sh
    obtain ⟨fb2, r2, ok2, sh2, wf2, _⟩ := pix_refines_grid c f fb1 ok1 fok hsp (k.applyLog rest) wf1 sh1
      (.write ch fg bg x y) (by simp only [CallOk]; rw [sh1.1, sh1.2.1]; exact hin)
      (fun dir n h => by cases h)
    refine ⟨fb2, ?_, ok2, sh2, wf2⟩
    simp only [pixRun, List.foldr_cons] at r1 ⊢
    rw [r1]; exact r2
  | @pair fg bg rest _ ih =>
    intro fb k ok wf sh
    obtain ⟨fb1, r1, ok1, sh1, wf1⟩ := ih fb k ok wf sh
    obtain ⟨fb2, fb3, r2, r3, ok3, sh3, wf3⟩ := scroll_fill c f fb1 ok1 hsp (k.applyLog rest) wf1 sh1 fg bg
    have e : k.applyLog (.fill 1 c.rows c.cols 1 fg bg :: .scroll Firefly.Gen.C17.scrollDirUp 1 :: rest) =
        ((k.applyLog rest).scrollUp 1).fill 1 (k.applyLog rest).h (k.applyLog rest).w 1 fg bg := by
      rw [sh1.1, sh1.2.1]
      simp [Console.applyLog, Console.apply]
    rw [sh1.1, sh1.2.1] at r3
    refine ⟨fb3, ?_, ok3, by rw [e]; exact sh3, by rw [e]; exact wf3⟩
    simp only [pixRun, List.foldr_cons] at r1 ⊢
    rw [r1]
    simp only [Option.bind_some, r2, r3]

end Firefly.VtPix
