import Firefly.Proof.AmlObjRt
/-!
Child lists (`K t p` = `(C13.abs t).kids p` = what `ObjectTree.args` computes) through the steps of the parser:
creation of an object, payload updates, `append`.  Used by the functional (C11) theorems about the flat fragment.
-/
namespace Firefly.AmlParser.F
open Firefly.AmlLex Firefly.AmlTree Firefly.C13 Firefly.AmlParser Firefly.AmlParser.G Firefly.AmlParser.S
open Firefly.Gen.C12

/-- the ordered child list of `p` -/
abbrev K (t : ObjectTree) (p : Nat) : List Nat := (C13.abs t).kids p

theorem tree_inv {s s1 : PState} {f : ObjectTree → Res ObjectTree} (e : tree f s = .ok ((), s1)) :
    f s.tree = .ok s1.tree ∧ s1 = { s with tree := s1.tree } := by
  unfold tree at e
  cases hf : f s.tree with
  | error err => simp [hf, bind, Except.bind] at e
  | ok t' =>
    simp only [hf, bind, Except.bind, pure, Except.pure, Except.ok.injEq, Prod.mk.injEq, true_and] at e
    subst e
    exact ⟨rfl, rfl⟩

/-- links unchanged: child lists unchanged -/
theorem kids_sameLinks {t t' : ObjectTree} (w : WF t) (sl : SameLinks t t') {p : Nat} (hl : live t p = true) :
    K t' p = K t p :=
  kids_same w (wf_of_sameLinks w sl) sl.live hl (sl.fi p) (fun x _ _ => sl.nx x)

/-- a fresh detached childless object: the old child lists are unchanged, the new one is empty -/
theorem kids_fresh {t t' : ObjectTree} (w : WF t) (w' : WF t') {n : Nat} (hn : live t n = false) (hn' : live t' n = true)
    (hold : ∀ x, x ≠ n → slot t' x = slot t x) (hlx : ∀ x, x ≠ n → live t' x = live t x) (hfi : Fi t' n = INV) :
    K t' n = [] ∧ ∀ p, live t p = true → K t' p = K t p := by
  refine ⟨(kids_nil_iff w' hn').2 hfi, ?_⟩
  intro p hl
  have hpi : p ≠ n := fun e => by rw [e, hn] at hl; cases hl
  have hc := w.kids_chain hl
  apply w'.kids_of_chain (by rw [hlx p hpi]; exact hl)
  have : Fi t' p = Fi t p := by simp [Fi, hold p hpi]
  rw [this]
  apply chain_congr _ _ hc
  intro x hx
  have hxl := ((w.kids_mem p hl x).1 hx).1
  have hxi : x ≠ n := fun e => by rw [e, hn] at hxl; cases hxl
  exact ⟨by rw [hlx x hxi]; exact hxl, by simp [Nx, hold x hxi]⟩

theorem fresh1_kids {n : Nat} {s s' : PState} (fr : Fresh1 n s s') (w : WF s.tree) (w' : WF s'.tree) :
    K s'.tree n = [] ∧ ∀ p, live s.tree p = true → K s'.tree p = K s.tree p :=
  kids_fresh w w' fr.nlive fr.liven fr.old fr.livex fr.fin

/-- `append_step` with the child lists -/
theorem append_step_k {d : Bytes} {s0 s : PState} (h : FP d s) (w0 : WF s0.tree)
    (hold : ∀ x, live s0.tree x = true → live s.tree x = true ∧ C13.P s.tree x = C13.P s0.tree x)
    {obj arg : Nat} (ho : live s0.tree obj = true) (ha0 : live s0.tree arg = false) (ha : live s.tree arg = true)
    (hp : C13.P s.tree arg = INV) :
    ∃ s1, tree (·.append obj arg) s = .ok ((), s1) ∧ FP d s1 ∧ s1 = { s with tree := s1.tree } ∧
      s1.tree.pool.size = s.tree.pool.size ∧ SamePay s.tree s1.tree ∧ (∀ x, live s1.tree x = live s.tree x) ∧
      (∀ x, C13.P s1.tree x = if x = arg then obj else C13.P s.tree x) ∧ La s1.tree obj = arg ∧
      (∀ x, Nx s1.tree x = if x = arg then INV else if x = La s.tree obj ∧ La s.tree obj ≠ INV then arg else Nx s.tree x) ∧
      (∀ x, Fi s1.tree x = if x = obj ∧ La s.tree obj = INV then arg else Fi s.tree x) ∧
      (∀ p, live s.tree p = true → K s1.tree p = if p = obj then K s.tree obj ++ [arg] else K s.tree p) := by
  obtain ⟨s1, e, h1, hs1, hsz, sp, hl, hP, hLa, hNx, hFi⟩ := append_step h w0 hold ho ha0 ha hp
  refine ⟨s1, e, h1, hs1, hsz, sp, hl, hP, hLa, hNx, hFi, ?_⟩
  have hna := not_anc_new w0 (fun x hx => (hold x hx).2) ha0 s.tree.fuel obj ho
  have hpre : appendPre s.tree obj arg = true := by
    simp only [appendPre, Bool.and_eq_true, decide_eq_true_eq, Bool.not_eq_true']
    exact ⟨⟨⟨(hold obj ho).1, ha⟩, hp⟩, hna⟩
  obtain ⟨t', e', _, _, _, hk⟩ := append_abs h.tree.wf hpre
  have := (tree_inv e).1
  rw [e'] at this
  cases this
  exact hk

/-- the parts of the parser state a declaration in the first pass does not touch -/
structure SameRest (s s' : PState) : Prop where
  ab : s'.allBlocks = s.allBlocks
  th : s'.tableHandle = s.tableHandle
  sc : s'.scopeStack = s.scopeStack
  pk : s'.pkgEndStack = s.pkgEndStack
  se : s'.streamEnd = s.streamEnd

theorem SameRest.refl (s : PState) : SameRest s s := ⟨rfl, rfl, rfl, rfl, rfl⟩
theorem SameRest.trans {a b c : PState} (h1 : SameRest a b) (h2 : SameRest b c) : SameRest a c :=
  ⟨by rw [h2.ab, h1.ab], by rw [h2.th, h1.th], by rw [h2.sc, h1.sc], by rw [h2.pk, h1.pk], by rw [h2.se, h1.se]⟩
theorem fresh1_rest {n : Nat} {s s' : PState} (f : Fresh1 n s s') : SameRest s s' :=
  ⟨f.same.1, f.same.2.1, f.scope, f.pkg, f.same.2.2⟩
theorem SameRest.ofTree {s s1 : PState} (h : s1 = { s with tree := s1.tree }) : SameRest s s1 := by
  rw [h]; exact ⟨rfl, rfl, rfl, rfl, rfl⟩
theorem SameRest.ofR {s : PState} (r : Reader) : SameRest s { s with r := r } := ⟨rfl, rfl, rfl, rfl, rfl⟩

end Firefly.AmlParser.F
