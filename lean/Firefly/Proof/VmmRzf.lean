import Firefly.Proof.VmmZeroSeq
import Firefly.Proof.VmmSetupFull
/-! `reserveZeroedFrame`: arming the zero-frame guard. -/
namespace Firefly.Vmm
open Firefly.Gen.C04

set_option maxHeartbeats 1000000 in
/-- **`reserveZeroedFrame`** on a well-formed active address space whose guard is not armed yet:
either the allocator fails (error returned, guard still not armed), or the first allocated frame `f`
becomes `ReservedZeroedFrame`, all its words are zero, the guard is armed, the address space is
unchanged except that the temporary page ends unmapped, `f` belongs neither to the page tables nor
to the allocator (`ZSeq`), and — if no page mapped `f` before — no page maps the zero frame writable
(`ZInv`): the invariants of `zero_never_rw` and `shared_zero_sequence` are established. -/
theorem rzf_full {st : St} {R : W} {own : Own} (g : Good st R own) (hA : st.cr3 &&& hwMask = R)
    (htf : st.tmpFail = false) (hprot : st.protect = false) {f : W} {rest : List W} (hf : st.free = f :: rest)
    (hunmapped : ∀ va', UserVA va' → ∀ e, hwEntry st.mem R va' = some e → e &&& hwMask ≠ f <<< 12) :
    ∃ code st', reserveZeroedFrame st = .ok (code, st') ∧
      ((code = eAlloc ∧ st'.protect = false) ∨
       (code = 0 ∧ st'.protect = true ∧ st'.zeroFrame = f ∧
        ∃ own', ZSeq st' R own' f.toNat ∧ ZInv st' R own' ∧
          ∀ va', UserVA va' → hwEntry st'.mem R va' =
            if SamePage va' tempVA then none else hwEntry st.mem R va')) := by
  obtain ⟨hfo, hfb, hfn, hfA⟩ := g.free f (by rw [hf]; exact List.mem_cons_self)
  have hnd := g.nodup
  rw [hf, List.map_cons, List.nodup_cons] at hnd
  have hfrest : ∀ x ∈ rest, x.toNat ≠ f.toNat := fun x hx h => hnd.1 (by rw [← h]; exact List.mem_map_of_mem hx)
  let st1 : St := { st with free := rest, allocs := st.allocs + 1, zeroFrame := f }
  have halloc : allocFrame st = some (f, { st with free := rest, allocs := st.allocs + 1 }) := by
    simp [allocFrame, hf]
  have g1 : Good st1 R own := by
    have gp := g.pop hf (st.allocs + 1)
    exact ⟨⟨gp.win.top, gp.win.self⟩, gp.owned, gp.act, gp.free, gp.nodup⟩
  have hut : UserVA (pageAddr (pageOf tempVA)) := by rw [tempVA_page]; exact userVA_temp
  obtain ⟨code, st2, own2, hm, post, out⟩ := mapOp_full g1 (pageOf tempVA) f (fPresent ||| fRW) hut
  rw [tempVA_page] at post out
  have hp1 : st1.protect = false := hprot
  have hmt : mapTemporaryFn st1 f =
      (if code ≠ 0 then .ok ((code, 0), st2) else .ok ((0, pageOf tempVA), st2)) := by
    simp only [mapTemporaryFn, show st1.tmpFail = false from htf, Bool.false_eq_true, if_false, mapTemporary, hp1,
      Bool.false_and, hm]
  unfold reserveZeroedFrame
  simp only [halloc]
  rw [show ({ st with free := rest, allocs := st.allocs + 1, zeroFrame := f } : St) = st1 from rfl, hmt]
  rcases out with (⟨rfl, _, has2⟩ | ⟨rfl, _, _, _⟩) | ⟨_, _, hp, _⟩
  rotate_left
  · exact ⟨eAlloc, st2, by simp [eAlloc], Or.inl ⟨rfl, by rw [post.regs.protect]; exact hprot⟩⟩
  · rw [hp1] at hp; cases hp
  simp only [ne_eq, not_true_eq_false, if_false, tempVA_page]
  have hfn2 : own2 f.toNat = none := by
    cases hx : own2 f.toNat with
    | none => rfl
    | some x =>
      obtain ⟨y, hy, hye⟩ := post.newfree _ hfn (by rw [hx]; simp)
      exact absurd hye (hfrest y hy)
  have hcr2 : st2.cr3 &&& hwMask = R := by rw [post.regs.cr3]; exact hA
  have hfl3 : FlagsOK (fPresent ||| fRW) := by unfold FlagsOK; decide
  have hpres3 : mkEntry f (fPresent ||| fRW) &&& 1#64 ≠ 0#64 := by rw [mkEntry_low 1#64 (by decide)]; decide
  have hasT2 : hwEntry st2.mem R tempVA = some (mkEntry f (fPresent ||| fRW)) := by
    rw [has2 tempVA userVA_temp, if_pos (show SamePage tempVA tempVA from rfl), if_neg hpres3]
  have hmmuT : mmu st2.mem st2.cr3 tempVA = some (f <<< 12) := by
    unfold mmu
    rw [hcr2, mmuWalk_eq_hwEntry post.good.owned userVA_temp, hasT2]
    have h2 : tempVA &&& 0xfff#64 = 0#64 := by decide
    simp [mkEntry_frame hfo hfl3, h2]
  have hcN : ((f <<< 12) >>> 12).toNat = f.toNat := frameN_shl12 hfo
  have hbk2 : st2.mem.backed f.toNat = true := by rw [post.regs.backed]; exact hfb
  have hal : (f <<< 12) &&& 0xfff#64 = 0#64 := shl12_and_low _ (by decide)
  have hms : memsetPage st2 tempVA = .ok { st2 with mem := st2.mem.setFrame f.toNat (fun _ => 0) } := by
    unfold memsetPage
    rw [hmmuT]
    simp only [hcN, hbk2, hal, beq_self_eq_true, Bool.and_self, if_true]
  rw [hms]
  simp only
  let st3 : St := { st2 with mem := st2.mem.setFrame f.toNat (fun _ => 0) }
  have hown2f : ∀ F x, own2 F = some x → F ≠ f.toNat := fun F x hF h => by rw [h, hfn2] at hF; cases hF
  have hAf2 : frameN (st2.cr3 &&& hwMask) ≠ f.toNat := by rw [post.regs.cr3]; exact Ne.symm hfA
  have g3 : Good st3 R own2 := by
    refine post.good.of_rd rfl rfl (fun _ => rfl) (fun F x hF j => ?_) ?_
    · simp only [st3, rd_setFrame, if_neg (Ne.symm (hown2f F x hF))]
    · simp only [st3, rd_setFrame, if_neg (Ne.symm hAf2)]
  have has3 : ∀ va', UserVA va' → hwEntry st3.mem R va' = hwEntry st2.mem R va' := fun va' hu' =>
    hwEntry_congr_owned (m' := st3.mem) post.good.owned (fun _ => rfl)
      (fun F x hF j => by simp only [st3, rd_setFrame, if_neg (Ne.symm (hown2f F x hF))]) va' hu'
  obtain ⟨ucode, st4, hum, uout⟩ := unmapOp_full g3 (pageOf tempVA) hut
  rw [tempVA_page] at uout
  rw [show ({ st2 with mem := st2.mem.setFrame f.toNat (fun _ => 0) } : St) = st3 from rfl, hum]
  rcases uout with ⟨rfl, g4, r4, f4, _, foot4, _, as4⟩ | ⟨_, _, hnone⟩
  rotate_left
  · exfalso; rw [has3 tempVA userVA_temp, hasT2] at hnone; cases hnone
  have hz4 : st4.zeroFrame = f := by rw [r4.zeroFrame]; show st2.zeroFrame = f; rw [post.regs.zeroFrame]
  have hcr4 : st4.cr3 &&& hwMask = R := by rw [r4.cr3]; exact hcr2
  have hfree4 : ∀ x ∈ st4.free, x ∈ rest := by
    obtain ⟨used, hused⟩ := post.sub
    intro x hx; rw [f4] at hx
    show x ∈ st1.free
    rw [hused]; exact List.mem_append_right _ hx
  have hasfin : ∀ va', UserVA va' → hwEntry st4.mem R va' =
      if SamePage va' tempVA then none else hwEntry st.mem R va' := by
    intro va' hu'
    rw [as4 va' hu']
    by_cases ht : SamePage va' tempVA
    · rw [if_pos ht, if_pos ht]
    · rw [if_neg ht, if_neg ht, has3 va' hu', has2 va' hu', if_neg ht]
  have g5 : Good { st4 with protect := true } R own2 :=
    ⟨⟨g4.win.top, g4.win.self⟩, g4.owned, g4.act, g4.free, g4.nodup⟩
  refine ⟨0, { st4 with protect := true }, rfl, Or.inr ⟨rfl, rfl, hz4, own2, ?_, ?_, hasfin⟩⟩
  · refine ⟨g5, hcr4, by rw [r4.backed]; simpa [st3] using hbk2, hfn2, fun x hx => hfrest x (hfree4 x hx), ?_⟩
    intro i
    show st4.mem.rd f.toNat i = 0#64
    rw [foot4 _ _ hfn2]; simp [st3]
  · refine ⟨g5, hcr4, rfl, by show FrameOK st4.zeroFrame; rw [hz4]; exact hfo, ?_⟩
    intro va' hu' e he
    have he' : hwEntry st4.mem R va' = some e := he
    rw [hasfin va' hu'] at he'
    by_cases ht : SamePage va' tempVA
    · rw [if_pos ht] at he'; cases he'
    · rw [if_neg ht] at he'
      rintro ⟨h1, _⟩
      have : ({ st4 with protect := true } : St).zeroFrame = f := hz4
      rw [this] at h1
      exact hunmapped va' hu' e he' h1

end Firefly.Vmm
