import Firefly.Model.Ring
/-! Lemmas about the ring-buffer model (C16). Core Lean only. -/
namespace Firefly.Ring

theorem N_eq_pow : N = 2 ^ Firefly.Gen.C16.ringBufferBits := by unfold N; decide
theorem N_pos : 0 < N := by rw [N_eq_pow]; exact Nat.two_pow_pos _

theorem and_mask (x : Nat) : x &&& mask = x % N := by
  unfold mask; rw [N_eq_pow]; exact Nat.and_two_pow_sub_one_eq_mod x _

/-- the masked increment is "add one, wrap at the end" -/
theorem inc_mask (x : Nat) (h : x < N) : (x + 1) &&& mask = if x + 1 = N then 0 else x + 1 := by
  rw [and_mask]
  split
  · next h1 => rw [h1]; exact Nat.mod_self N
  · next h1 => exact Nat.mod_eq_of_lt (by omega)

theorem getD_set (a : Array UInt8) (i j : Nat) (b : UInt8) (hi : i < a.size) :
    (a.setIfInBounds i b).getD j 0 = if j = i then b else a.getD j 0 := by
  simp only [Array.getD_eq_getD_getElem?, Array.getElem?_setIfInBounds]
  by_cases h : i = j
  · subst h; simp [hi]
  · have : ¬ j = i := fun e => h e.symm
    simp [h, this]

theorem writeByte_get (rb : Ring) (b : UInt8) (j : Nat) (h : rb.WF) :
    (rb.writeByte b).get j = if j = rb.w then b else rb.get j := by
  obtain ⟨buf, r, w⟩ := rb
  obtain ⟨hs, hr, hw⟩ := h
  simp only [Ring.writeByte, Ring.get]
  exact getD_set buf w j b (by simp only at hs hw; omega)

theorem writeByte_w (rb : Ring) (b : UInt8) (h : rb.WF) :
    (rb.writeByte b).w = if rb.w + 1 = N then 0 else rb.w + 1 := by
  obtain ⟨buf, r, w⟩ := rb
  simp only [Ring.writeByte]
  exact inc_mask w h.2.2

theorem writeByte_r (rb : Ring) (b : UInt8) (h : rb.WF) :
    (rb.writeByte b).r = if rb.r = (rb.writeByte b).w then (if rb.r + 1 = N then 0 else rb.r + 1) else rb.r := by
  obtain ⟨buf, r, w⟩ := rb
  simp only [Ring.writeByte]
  rw [inc_mask r h.2.1]

theorem writeByte_wf (rb : Ring) (b : UInt8) (h : rb.WF) : (rb.writeByte b).WF := by
  have hw := writeByte_w rb b h
  have hr := writeByte_r rb b h
  obtain ⟨hs, hr0, hw0⟩ := h
  refine ⟨?_, ?_, ?_⟩
  · obtain ⟨buf, r, w⟩ := rb
    simpa [Ring.writeByte] using hs
  · rw [hr]; split <;> (try split) <;> omega
  · rw [hw]; split <;> omega

theorem N_ge_two : 2 ≤ N := by unfold N; decide

theorem slice_length (rb : Ring) (s n : Nat) : (rb.slice s n).length = n := by simp [Ring.slice]

theorem slice_zero (rb : Ring) (s : Nat) : rb.slice s 0 = [] := by simp [Ring.slice]

theorem slice_one (rb : Ring) (s : Nat) : rb.slice s 1 = [rb.get s] := by simp [Ring.slice, List.range_succ]

theorem slice_add (rb : Ring) (s n m : Nat) : rb.slice s (n + m) = rb.slice s n ++ rb.slice (s + n) m := by
  simp [Ring.slice, List.range_add, Nat.add_assoc]

theorem slice_succ (rb : Ring) (s n : Nat) : rb.slice s (n + 1) = rb.slice s n ++ [rb.get (s + n)] := by
  rw [slice_add, slice_one]

theorem slice_cons (rb : Ring) (s n : Nat) : rb.slice s (n + 1) = rb.get s :: rb.slice (s + 1) n := by
  rw [Nat.add_comm n 1, slice_add, slice_one]; rfl

theorem slice_congr (rb rb' : Ring) (s n : Nat) (h : ∀ i, i < n → rb'.get (s + i) = rb.get (s + i)) :
    rb'.slice s n = rb.slice s n := by
  simp only [Ring.slice]
  apply List.map_congr_left
  intro i hi
  exact h i (by simpa using hi)

theorem slice_split (rb : Ring) (s n k : Nat) (h : k ≤ n) : rb.slice s n = rb.slice s k ++ rb.slice (s + k) (n - k) := by
  have : n = k + (n - k) := by omega
  conv => lhs; rw [this]
  exact slice_add rb s k (n - k)

theorem contents_length (rb : Ring) : rb.contents.length = rb.len := by
  unfold Ring.contents Ring.len
  split <;> simp only [slice_length, List.length_append] <;> omega

theorem len_le_cap (rb : Ring) (h : rb.WF) : rb.len ≤ cap := by
  obtain ⟨_, hr, hw⟩ := h
  unfold Ring.len cap; split <;> omega

theorem lastN_of_le (m : Nat) (l : List UInt8) (h : l.length ≤ m) : lastN m l = l := by
  unfold lastN; have : l.length - m = 0 := by omega
  rw [this]; rfl

theorem lastN_succ (m : Nat) (l : List UInt8) (h : l.length = m + 1) : lastN m l = l.drop 1 := by
  unfold lastN; rw [h]; congr 1; omega

theorem lastN_length (m : Nat) (l : List UInt8) : (lastN m l).length = min m l.length := by
  unfold lastN; simp; omega

theorem lastN_lastN_append (m : Nat) (l l2 : List UInt8) : lastN m (lastN m l ++ l2) = lastN m (l ++ l2) := by
  by_cases h : l.length ≤ m
  · rw [lastN_of_le m l h]
  · have hl : (lastN m l).length = m := by rw [lastN_length]; omega
    unfold lastN at *
    rw [List.length_append, hl, List.length_append]
    have h1 : List.drop (l.length - m) l ++ l2 = List.drop (l.length - m) (l ++ l2) := by
      rw [List.drop_append_of_le_length (by omega)]
    rw [h1, List.drop_drop]
    congr 1; omega

theorem lastN_nil (m : Nat) : lastN m [] = [] := by simp [lastN]

/-- one byte written: the unread bytes become (old ++ [b]) truncated to the last `cap` -/
theorem writeByte_contents (rb : Ring) (b : UInt8) (h : rb.WF) :
    (rb.writeByte b).contents = lastN cap (rb.contents ++ [b]) := by
  have hw := writeByte_w rb b h
  have hr := writeByte_r rb b h
  have hg := fun j => writeByte_get rb b j h
  have hN := N_ge_two
  obtain ⟨_, hr0, hw0⟩ := h
  -- slices that avoid the written cell are unchanged
  have keep : ∀ s n, (s + n ≤ rb.w ∨ rb.w < s) → (rb.writeByte b).slice s n = rb.slice s n := by
    intro s n hsn
    apply slice_congr
    intro i hi
    rw [hg]; split
    · omega
    · rfl
  have hgw : (rb.writeByte b).get rb.w = b := by rw [hg]; simp
  by_cases c1 : rb.r ≤ rb.w
  · by_cases c2 : rb.w + 1 = N
    · rw [if_pos c2] at hw
      by_cases c3 : rb.r = 0
      · -- full, r = 0, w = N-1
        have hr' : (rb.writeByte b).r = 1 := by
          rw [hr, hw, if_pos c3, if_neg (by omega)]; omega
        have e1 : N - 1 = (N - 2) + 1 := by omega
        have e2 : rb.w - rb.r = (N - 2) + 1 := by omega
        have e3 : rb.w = 1 + (N - 2) := by omega
        unfold Ring.contents
        rw [hr', hw, if_neg (by omega), if_pos c1, slice_zero, List.append_nil, e1, slice_succ,
          keep 1 (N - 2) (by omega), ← e3, hgw, lastN_succ]
        · rw [c3, Nat.sub_zero, e3, Nat.add_comm 1, slice_cons]; simp
        · simp only [List.length_append, slice_length, List.length_singleton, cap]; omega
      · have hr' : (rb.writeByte b).r = rb.r := by rw [hr, hw, if_neg c3]
        have e1 : N - rb.r = (rb.w - rb.r) + 1 := by omega
        unfold Ring.contents
        have e : rb.r + (rb.w - rb.r) = rb.w := by omega
        rw [hr', hw, if_neg (by omega), if_pos c1, slice_zero, List.append_nil, e1, slice_succ,
          keep _ _ (by omega), e, hgw, lastN_of_le]
        · simp only [List.length_append, slice_length, List.length_singleton, cap]; omega
    · rw [if_neg c2] at hw
      have hr' : (rb.writeByte b).r = rb.r := by rw [hr, hw, if_neg (by omega)]
      have e1 : rb.w + 1 - rb.r = (rb.w - rb.r) + 1 := by omega
      unfold Ring.contents
      have e : rb.r + (rb.w - rb.r) = rb.w := by omega
      rw [hr', hw, if_pos (by omega), if_pos c1, e1, slice_succ, keep _ _ (by omega), e, hgw, lastN_of_le]
      · simp only [List.length_append, slice_length, List.length_singleton, cap]; omega
  · have c2 : ¬ rb.w + 1 = N := by omega
    rw [if_neg c2] at hw
    by_cases c3 : rb.r = rb.w + 1
    · by_cases c4 : rb.r + 1 = N
      · have hr' : (rb.writeByte b).r = 0 := by rw [hr, hw, if_pos c3, if_pos c4]
        unfold Ring.contents
        rw [hr', hw, if_pos (by omega), if_neg c1, Nat.sub_zero, slice_succ, keep 0 rb.w (by omega),
          Nat.zero_add, hgw, lastN_succ]
        · have : N - rb.r = 1 := by omega
          rw [this, slice_one]; simp
        · simp only [List.length_append, slice_length, List.length_singleton, cap]; omega
      · have hr' : (rb.writeByte b).r = rb.r + 1 := by rw [hr, hw, if_pos c3, if_neg c4]
        have e1 : N - rb.r = (N - (rb.r + 1)) + 1 := by omega
        unfold Ring.contents
        rw [hr', hw, if_neg (by omega), if_neg c1, slice_succ, keep 0 rb.w (by omega), Nat.zero_add, hgw,
          keep _ _ (by omega), lastN_succ]
        · rw [e1, slice_cons]; simp
        · simp only [List.length_append, slice_length, List.length_singleton, cap]; omega
    · have hr' : (rb.writeByte b).r = rb.r := by rw [hr, hw, if_neg c3]
      unfold Ring.contents
      rw [hr', hw, if_neg (by omega), if_neg c1, slice_succ, keep 0 rb.w (by omega), Nat.zero_add, hgw,
        keep _ _ (by omega), lastN_of_le]
      · simp
      · simp only [List.length_append, slice_length, List.length_singleton, cap]; omega

theorem write_wf (rb : Ring) (p : List UInt8) (h : rb.WF) : (rb.write p).WF := by
  induction p generalizing rb with
  | nil => exact h
  | cons b t ih => exact ih (rb.writeByte b) (writeByte_wf rb b h)

/-- `Write(p)`: the unread bytes become (old ++ p) truncated to the last `cap` -/
theorem write_contents (rb : Ring) (p : List UInt8) (h : rb.WF) :
    (rb.write p).contents = lastN cap (rb.contents ++ p) := by
  induction p generalizing rb with
  | nil =>
    simp only [Ring.write, List.foldl_nil, List.append_nil]
    rw [lastN_of_le]; rw [contents_length]; exact len_le_cap rb h
  | cons b t ih =>
    have := ih (rb.writeByte b) (writeByte_wf rb b h)
    simp only [Ring.write, List.foldl_cons] at this ⊢
    rw [this, writeByte_contents rb b h, lastN_lastN_append]
    simp

theorem write_append (rb : Ring) (p q : List UInt8) : rb.write (p ++ q) = (rb.write p).write q := by
  simp [Ring.write]

theorem emptyAt_wf (p : Nat) (h : p < N) : (emptyAt p).WF := by
  simp [emptyAt, Ring.WF, h]

theorem contents_of_eq (rb : Ring) (h : rb.r = rb.w) : rb.contents = [] := by
  simp [Ring.contents, h, slice_zero]

theorem emptyAt_contents (p : Nat) : (emptyAt p).contents = [] := contents_of_eq _ rfl

theorem contents_eq_nil_iff (rb : Ring) (h : rb.WF) : rb.contents = [] ↔ rb.r = rb.w := by
  constructor
  · intro hc
    have hl := contents_length rb
    rw [hc] at hl
    obtain ⟨_, hr, hw⟩ := h
    simp only [List.length_nil, Ring.len] at hl
    split at hl <;> omega
  · exact contents_of_eq rb

theorem slice_buf (a b : Ring) (s m : Nat) (h : a.buf = b.buf) : a.slice s m = b.slice s m := by
  simp [Ring.slice, Ring.get, h]

/-- what one `Read` with a `k`-byte buffer does, in terms of the unread bytes -/
theorem read_spec (rb : Ring) (k : Nat) (h : rb.WF) :
    rb.contents = (rb.read k).out ++ (rb.read k).ring.contents ∧
    (rb.read k).out.length = (rb.read k).n ∧ (rb.read k).n ≤ k ∧ (rb.read k).ring.WF ∧
    ((rb.read k).eof = true ↔ rb.contents = []) ∧
    ((rb.read k).eof = true → (rb.read k).ring = rb ∧ (rb.read k).out = []) ∧
    (0 < k → rb.contents ≠ [] → 0 < (rb.read k).n) := by
  have hnil := contents_eq_nil_iff rb h
  obtain ⟨hs, hr, hw⟩ := h
  unfold Ring.read
  by_cases c1 : rb.r < rb.w
  · simp only [if_pos c1]
    obtain ⟨n, hn⟩ : ∃ n, n = (if k < rb.w - rb.r then k else rb.w - rb.r) := ⟨_, rfl⟩
    have hp : n ≤ rb.w - rb.r ∧ n ≤ k ∧ (0 < k → 0 < n) := by rw [hn]; split <;> omega
    rw [← hn]
    refine ⟨?_, slice_length _ _ _, hp.2.1, ⟨hs, by simp only; omega, hw⟩, ?_, by simp, fun hk _ => hp.2.2 hk⟩
    · simp only [Ring.contents]
      rw [if_pos (by omega), if_pos (by omega), slice_split rb rb.r (rb.w - rb.r) n hp.1]
      congr 1; rw [show rb.w - (rb.r + n) = rb.w - rb.r - n by omega]; exact slice_buf _ _ _ _ rfl
    · simp only [Bool.false_eq_true, false_iff]; rw [hnil]; omega
  · by_cases c2 : rb.r > rb.w
    · simp only [if_neg c1, if_pos c2]
      obtain ⟨n, hn⟩ : ∃ n, n = (if k < N - rb.r then k else N - rb.r) := ⟨_, rfl⟩
      have hp : n ≤ N - rb.r ∧ n ≤ k ∧ (0 < k → 0 < n) := by rw [hn]; split <;> omega
      rw [← hn]
      refine ⟨?_, slice_length _ _ _, hp.2.1, ⟨hs, by simp only; split <;> omega, hw⟩, ?_, by simp, fun hk _ => hp.2.2 hk⟩
      · simp only [Ring.contents]
        rw [if_neg (by omega)]
        by_cases c3 : rb.r + n = N
        · rw [if_pos c3, if_pos (by omega), Nat.sub_zero]
          have : n = N - rb.r := by omega
          rw [this]; congr 1
        · rw [if_neg c3, if_neg (by omega), slice_split rb rb.r (N - rb.r) n hp.1, List.append_assoc]
          congr 2
          · rw [show N - (rb.r + n) = N - rb.r - n by omega]; exact slice_buf _ _ _ _ rfl
      · simp only [Bool.false_eq_true, false_iff]; rw [hnil]; omega
    · have e : rb.r = rb.w := by omega
      simp only [if_neg c1, if_neg c2]
      refine ⟨by simp [contents_of_eq rb e], rfl, Nat.zero_le _, ⟨hs, hr, hw⟩, by simp [contents_of_eq rb e], by simp, ?_⟩
      intro _ hne; exact absurd (contents_of_eq rb e) hne

/-- the drain loop of `io.Copy` hands over exactly the unread bytes, whatever the (positive) buffer
size, and leaves the ring empty -/
theorem drain_spec (k : Nat) (hk : 0 < k) (fuel : Nat) (rb : Ring) (h : rb.WF) (hf : rb.len < fuel) :
    (rb.drain k fuel).1 = rb.contents ∧ (rb.drain k fuel).2.contents = [] ∧ (rb.drain k fuel).2.WF := by
  induction fuel generalizing rb with
  | zero => omega
  | succ f ih =>
    obtain ⟨h1, h2, h3, h4, h5, h6, h7⟩ := read_spec rb k h
    unfold Ring.drain
    by_cases ce : (rb.read k).eof = true
    · simp only [ce, if_true]
      obtain ⟨e1, _⟩ := h6 ce
      rw [e1]
      exact ⟨(h5.1 ce).symm, h5.1 ce, h⟩
    · simp only [ce]
      have hne : rb.contents ≠ [] := fun e => ce (h5.2 e)
      have hpos := h7 hk hne
      have hlen : (rb.read k).ring.len < f := by
        have := congrArg List.length h1
        rw [List.length_append, contents_length, contents_length, h2] at this
        omega
      obtain ⟨i1, i2, i3⟩ := ih (rb.read k).ring h4 hlen
      refine ⟨?_, i2, i3⟩
      simp only [Bool.false_eq_true, if_false]
      rw [i1, ← h1]

theorem drainAll_spec (rb : Ring) (h : rb.WF) :
    rb.drainAll.1 = rb.contents ∧ rb.drainAll.2.contents = [] ∧ rb.drainAll.2.WF := by
  unfold Ring.drainAll
  apply drain_spec _ (by decide) _ rb h
  have := len_le_cap rb h
  have := N_pos
  unfold cap at *; omega

end Firefly.Ring
