import Firefly.Proof.PmmAlloc
/-! Histories of `AllocFrame`/`FreeFrame` calls: the allocator refines "a set of free frames plus
the frames held by callers". -/
namespace Firefly.Pmm

inductive Op where
  | alloc
  | free (f : Nat)
deriving Repr, DecidableEq

inductive Out where
  | frame (f : Nat)
  | oom
  | freeRes (r : FreeRes)
deriving Repr, DecidableEq

def stepOp (bm : Bitmap) : Op → Bitmap × Out
  | .alloc => match alloc bm with
    | (bm', some f) => (bm', .frame f)
    | (bm', none) => (bm', .oom)
  | .free f => let (bm', r) := free bm f; (bm', .freeRes r)

/-- the frames callers hold after an operation with the given result -/
def heldStep (H : List Nat) : Op → Out → List Nat
  | .alloc, .frame f => f :: H
  | .free f, .freeRes .ok => H.erase f
  | _, _ => H

/-- run a history: final state, final held list, and per-operation results together with the held
list *before* the operation -/
def runOps : Bitmap → List Nat → List Op → Bitmap × List Nat × List (Op × Out × List Nat)
  | bm, H, [] => (bm, H, [])
  | bm, H, op :: rest =>
    let (bm', out) := stepOp bm op
    let (bm'', H'', tr) := runOps bm' (heldStep H op out) rest
    (bm'', H'', (op, out, H) :: tr)

/-- Caller contract of `FreeFrame`: callers free frames they hold; anything else they pass is a
frame that is free or unmanaged (and is rejected). Freeing a frame that is reserved but was
never handed out (kernel image, early allocations) is outside the contract. -/
def Contract : Bitmap → List Nat → List Op → Prop
  | _, _, [] => True
  | bm, H, op :: rest =>
    (match op with
      | .free f => f ∈ H ∨ isFree bm f ∨ poolForFrame bm.pools f = none
      | .alloc => True) ∧
    Contract (stepOp bm op).1 (heldStep H op (stepOp bm op).2) rest

/-- frame `f` lies in the range of some pool -/
def managed (rs : List (Nat × Nat)) (f : Nat) : Prop := ∃ r ∈ rs, r.1 ≤ f ∧ f ≤ r.2

theorem managed_of_isFree {bm : Bitmap} {f : Nat} (h : isFree bm f) : managed (ranges bm.pools) f := by
  obtain ⟨p, hp, hf⟩ := h
  exact ⟨(p.start, p.end_), List.mem_map.2 ⟨p, hp, rfl⟩, freeAt_range hf⟩

theorem not_managed_of_free_notManaged {bm bm' : Bitmap} {f : Nat}
    (h : free bm f = (bm', .notManaged)) : ¬ managed (ranges bm.pools) f := by
  unfold free at h
  cases hp : poolForFrame bm.pools f with
  | none =>
    rintro ⟨r, hr, hin⟩
    obtain ⟨p, hpm, rfl⟩ := List.mem_map.1 hr
    exact poolForFrame_none hp p hpm hin
  | some i =>
    simp only [hp] at h
    split at h
    · cases h
    · split at h
      · cases h
      · split at h <;> cases h

/-- relation between the concrete state, the held list and the initial free set `U` -/
structure Sim (U : Nat → Prop) (bm : Bitmap) (H : List Nat) : Prop where
  inv : Inv bm
  nodup : H.Nodup
  split : ∀ f, U f ↔ (isFree bm f ∨ f ∈ H)
  disj : ∀ f, f ∈ H → ¬ isFree bm f
  heldManaged : ∀ f, f ∈ H → managed (ranges bm.pools) f

theorem sim_step {U : Nat → Prop} {bm : Bitmap} {H : List Nat} (hs : Sim U bm H) (op : Op)
    (hc : match op with
      | .free f => f ∈ H ∨ isFree bm f ∨ poolForFrame bm.pools f = none
      | .alloc => True) :
    Sim U (stepOp bm op).1 (heldStep H op (stepOp bm op).2) ∧
    (∀ f, (stepOp bm op).2 = .frame f → U f ∧ f ∉ H ∧ isFree bm f) ∧
    ((stepOp bm op).2 = .oom → ∀ f, U f → f ∈ H) ∧
    (∀ f r, op = .free f → (stepOp bm op).2 = .freeRes r →
        (r = .ok ↔ f ∈ H) ∧ r ≠ .panic ∧ (r ≠ .ok → (stepOp bm op).1 = bm)) := by
  cases op with
  | alloc =>
    unfold stepOp
    cases ha : alloc bm with
    | mk bm' r =>
      cases r with
      | some f =>
        obtain ⟨h1, h2, hr, _, _, h6⟩ := alloc_some hs.inv ha
        simp only [heldStep]
        have hfH : f ∉ H := fun hm => hs.disj f hm h1
        refine ⟨⟨h2, List.nodup_cons.2 ⟨hfH, hs.nodup⟩, ?_, ?_, ?_⟩, ?_, by simp, by simp⟩
        · intro g
          rw [hs.split g, h6 g, List.mem_cons]
          constructor
          · rintro (hg | hg)
            · by_cases e : g = f
              · exact Or.inr (Or.inl e)
              · exact Or.inl ⟨hg, e⟩
            · exact Or.inr (Or.inr hg)
          · rintro (⟨hg, _⟩ | rfl | hg)
            · exact Or.inl hg
            · exact Or.inl h1
            · exact Or.inr hg
        · intro g hg
          rw [h6 g]
          rw [List.mem_cons] at hg
          rcases hg with rfl | hg
          · exact fun h => h.2 rfl
          · exact fun h => hs.disj g hg h.1
        · intro g hg
          rw [hr]
          rw [List.mem_cons] at hg
          rcases hg with rfl | hg
          · exact managed_of_isFree h1
          · exact hs.heldManaged g hg
        · intro g hg
          injection hg with hg; subst hg
          exact ⟨(hs.split f).2 (Or.inl h1), hfH, h1⟩
      | none =>
        obtain ⟨h1, h2, _⟩ := alloc_none hs.inv ha
        subst h1
        simp only [heldStep]
        refine ⟨hs, by simp, ?_, by simp⟩
        intro _ f hf
        rcases (hs.split f).1 hf with h | h
        · exact absurd h (h2 f)
        · exact h
  | free f =>
    cases hf : free bm f with
    | mk bm' r =>
      have e : stepOp bm (.free f) = (bm', .freeRes r) := by simp [stepOp, hf]
      rw [e]
      simp only
      cases r with
      | ok =>
        obtain ⟨h1, h2, hr, _, _, h6⟩ := free_ok hs.inv hf
        have hfH : f ∈ H := by
          rcases hc with h | h | h
          · exact h
          · exact absurd h h1
          · exfalso
            unfold free at hf; simp [h] at hf
        simp only [heldStep]
        refine ⟨⟨h2, hs.nodup.erase f, ?_, ?_, ?_⟩, by simp, by simp, ?_⟩
        · intro g
          rw [hs.split g, h6 g, hs.nodup.mem_erase_iff]
          constructor
          · rintro (hg | hg)
            · exact Or.inl (Or.inl hg)
            · by_cases e : g = f
              · exact Or.inl (Or.inr e)
              · exact Or.inr ⟨e, hg⟩
          · rintro ((hg | rfl) | ⟨_, hg⟩)
            · exact Or.inl hg
            · exact Or.inr hfH
            · exact Or.inr hg
        · intro g hg
          rw [hs.nodup.mem_erase_iff] at hg
          rw [h6 g]
          rintro (h | h)
          · exact hs.disj g hg.2 h
          · exact hg.1 h
        · intro g hg
          rw [hr]
          exact hs.heldManaged g (List.mem_of_mem_erase hg)
        · intro g r hg hr
          injection hg with hg; subst hg
          injection hr with hr; subst hr
          simp [hfH]
      | notManaged =>
        obtain ⟨h1, h2⟩ := free_notManaged hf
        subst h1
        simp only [heldStep]
        refine ⟨hs, by simp, by simp, ?_⟩
        intro g r hg hr
        injection hg with hg; subst hg
        injection hr with hr; subst hr
        refine ⟨?_, by simp, fun _ => trivial⟩
        constructor
        · intro h; cases h
        · intro hm
          exact absurd (hs.heldManaged f hm) (not_managed_of_free_notManaged hf)
      | doubleFree =>
        obtain ⟨h1, h2⟩ := free_doubleFree hf
        subst h1
        simp only [heldStep]
        refine ⟨hs, by simp, by simp, ?_⟩
        intro g r hg hr
        injection hg with hg; subst hg
        injection hr with hr; subst hr
        refine ⟨?_, by simp, fun _ => trivial⟩
        constructor
        · intro h; cases h
        · intro hm; exact absurd h2 (hs.disj f hm)
      | panic => exact absurd (by rw [hf]) (free_never_panics hs.inv f)

/-- what the property demands of a recorded history: every frame handed out lies in the initial
free set `U` and is not held by anyone at that moment; out-of-memory is reported only when every
frame of `U` is held; a free succeeds exactly for held frames and never crashes -/
def TraceOk (U : Nat → Prop) : List (Op × Out × List Nat) → Prop
  | [] => True
  | (op, out, H) :: tr =>
    (∀ f, out = .frame f → U f ∧ f ∉ H) ∧
    (out = .oom → ∀ f, U f → f ∈ H) ∧
    (∀ f r, op = .free f → out = .freeRes r → (r = .ok ↔ f ∈ H) ∧ r ≠ .panic) ∧
    TraceOk U tr

theorem run_ok {U : Nat → Prop} (ops : List Op) {bm : Bitmap} {H : List Nat} (hs : Sim U bm H)
    (hc : Contract bm H ops) :
    TraceOk U (runOps bm H ops).2.2 ∧ Sim U (runOps bm H ops).1 (runOps bm H ops).2.1 := by
  induction ops generalizing bm H with
  | nil => exact ⟨trivial, hs⟩
  | cons op rest ih =>
    obtain ⟨hc1, hc2⟩ := hc
    obtain ⟨hs', h1, h2, h3⟩ := sim_step hs op hc1
    obtain ⟨ih1, ih2⟩ := ih hs' hc2
    unfold runOps
    refine ⟨⟨fun f e => ⟨(h1 f e).1, (h1 f e).2.1⟩, h2,
      fun f r e1 e2 => ⟨(h3 f r e1 e2).1, (h3 f r e1 e2).2.1⟩, ih1⟩, ih2⟩

theorem sim_init {bm : Bitmap} (hI : Inv bm) : Sim (isFree bm) bm [] :=
  ⟨hI, List.nodup_nil, fun f => by simp, fun f hf => by simp at hf, fun f hf => by simp at hf⟩

/-! ## Accounting -/

/-- the free frames of the allocator, as a list -/
def freeList (bm : Bitmap) : List Nat :=
  bm.pools.flatMap fun p => ((List.range p.n).filter fun i => !bitAt p.words i).map (p.start + ·)

theorem mem_freeList {bm : Bitmap} (hI : Inv bm) (f : Nat) : f ∈ freeList bm ↔ isFree bm f := by
  unfold freeList isFree
  simp only [List.mem_flatMap, List.mem_map, List.mem_filter, List.mem_range]
  constructor
  · rintro ⟨p, hp, i, ⟨hi, hb⟩, rfl⟩
    refine ⟨p, hp, ?_⟩
    unfold Pool.freeAt
    have hn : p.n = p.end_ - p.start + 1 := rfl
    have hle := (hI.pools p hp).le
    have : p.start + i - p.start = i := by omega
    have hin : p.start ≤ p.start + i ∧ p.start + i ≤ p.end_ := by omega
    simp only [hin, and_self, decide_true, Bool.true_and, this]
    exact hb
  · rintro ⟨p, hp, hf⟩
    unfold Pool.freeAt at hf
    simp only [Bool.and_eq_true, decide_eq_true_eq] at hf
    have hn : p.n = p.end_ - p.start + 1 := rfl
    have := (hI.pools p hp).le
    exact ⟨p, hp, f - p.start, ⟨by omega, hf.2⟩, by omega⟩

theorem length_freeList {bm : Bitmap} (hI : Inv bm) : (freeList bm).length = freeSum bm.pools := by
  unfold freeList freeSum
  rw [List.length_flatMap]
  congr 1
  apply List.map_congr_left
  intro p hp
  rw [List.length_map, ← List.countP_eq_length_filter]
  exact (hI.pools p hp).cnt.symm

/-- **stats** — the reported totals agree with the number of free frames -/
theorem stats {bm : Bitmap} (hI : Inv bm) :
    bm.total - bm.reserved = (freeList bm).length ∧ bm.reserved ≤ bm.total := by
  rw [length_freeList hI]; exact ⟨hI.acct, hI.le⟩

/-- `n` consecutive allocations -/
def allocN : Bitmap → Nat → Bitmap × List (Option Nat)
  | bm, 0 => (bm, [])
  | bm, n+1 =>
    let (bm1, r) := alloc bm
    let (bm2, rs) := allocN bm1 n
    (bm2, r :: rs)

/-- **drain_count** — from any state satisfying the invariant exactly `total - reserved`
consecutive allocations succeed, and the next one reports out-of-memory. -/
theorem drain_count {bm : Bitmap} (hI : Inv bm) (n : Nat) (hn : bm.total - bm.reserved = n) :
    (∀ r ∈ (allocN bm n).2, r ≠ none) ∧ (alloc (allocN bm n).1).2 = none ∧ Inv (allocN bm n).1 := by
  induction n generalizing bm with
  | zero =>
    simp only [allocN, List.not_mem_nil, false_imp_iff, implies_true, true_and]
    refine ⟨?_, hI⟩
    cases ha : alloc bm with
    | mk bm' r =>
      cases r with
      | none => rfl
      | some f =>
        obtain ⟨_, hI', _, ht, hr, _⟩ := alloc_some hI ha
        have := hI'.le
        omega
  | succ n ih =>
    cases ha : alloc bm with
    | mk bm' r =>
      cases r with
      | none =>
        obtain ⟨_, _, hz⟩ := alloc_none hI ha
        have := hI.acct
        omega
      | some f =>
        obtain ⟨_, hI', _, ht, hr, _⟩ := alloc_some hI ha
        have hle := hI'.le
        obtain ⟨ih1, ih2, ih3⟩ := ih hI' (by omega)
        simp only [allocN, ha]
        refine ⟨?_, ih2, ih3⟩
        intro r hr
        rw [List.mem_cons] at hr
        rcases hr with rfl | hr
        · simp
        · exact ih1 r hr

end Firefly.Pmm
