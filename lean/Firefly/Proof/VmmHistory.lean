import Firefly.Proof.VmmMapFull
/-! Histories of `Map` / `Unmap` refine the fold of the abstract updates. -/
namespace Firefly.Vmm
open Firefly.Gen.C04

/-- a request to the mapping interface -/
inductive Op where
  | map (page frame flags : W)
  | unmap (page : W)

def Op.page : Op → W
  | .map p _ _ => p
  | .unmap p => p

def runOp (st : St) : Op → R Nat
  | .map p f fl => mapOp st p f fl
  | .unmap p => unmapOp st p

/-- run a history; the result codes of the calls are collected -/
def runOps : St → List Op → Except Abort (List Nat × St)
  | st, [] => .ok ([], st)
  | st, op :: rest =>
    match runOp st op with
    | .error e => .error e
    | .ok (c, st') =>
      match runOps st' rest with
      | .error e => .error e
      | .ok (cs, st'') => .ok (c :: cs, st'')

/-- the abstract address space: address ↦ present leaf entry (frame field and flag bits) -/
abbrev AS := W → Option W

/-- abstract effect of one request that returned `code`: a successful `Map` gives the page the entry
`frame<<12 | flags` (nothing if the flags lack Present), a successful `Unmap` removes the page, a
request that returned an error changes nothing; other pages are never affected -/
def absStep (as : AS) (op : Op) (code : Nat) : AS :=
  if code ≠ 0 then as else
  match op with
  | .map p f fl => fun va' =>
    if SamePage va' (pageAddr p) then (if mkEntry f fl &&& 1#64 = 0#64 then none else some (mkEntry f fl)) else as va'
  | .unmap p => fun va' => if SamePage va' (pageAddr p) then none else as va'

def absRun (as : AS) : List Op → List Nat → AS
  | op :: ops, c :: cs => absRun (absStep as op c) ops cs
  | _, _ => as

theorem absStep_congr_at {as as' : AS} (op : Op) (c : Nat) (va' : W) (h : as va' = as' va') :
    absStep as op c va' = absStep as' op c va' := by
  unfold absStep
  by_cases hc : c ≠ 0
  · rw [if_pos hc, if_pos hc]; exact h
  · rw [if_neg hc, if_neg hc]
    cases op <;> simp only [h]

theorem absRun_congr_at {as as' : AS} (ops : List Op) (cs : List Nat) (va' : W) (h : as va' = as' va') :
    absRun as ops cs va' = absRun as' ops cs va' := by
  induction ops generalizing as as' cs with
  | nil => simpa [absRun] using h
  | cons op ops ih =>
    cases cs with
    | nil => simpa [absRun] using h
    | cons c cs => exact ih cs (absStep_congr_at op c va' h)

/-- one request refines its abstract step and keeps the address space well formed -/
theorem runOp_refines {st : St} {R : W} {own : Own} (g : Good st R own) (op : Op) (hu : UserVA (pageAddr op.page)) :
    ∃ code st' own', runOp st op = .ok (code, st') ∧ Good st' R own' ∧ SameRegs st st' ∧
      (∀ F x, own F = some x → own' F = some x) ∧
      ∀ va', UserVA va' → hwEntry st'.mem R va' = absStep (hwEntry st.mem R) op code va' := by
  cases op with
  | map p f fl =>
    obtain ⟨code, st', own', h1, post, out⟩ := mapOp_full g p f fl hu
    refine ⟨code, st', own', h1, post.good, post.regs, post.ext, fun va' hu' => ?_⟩
    rcases out with (⟨rfl, _, h3⟩ | ⟨rfl, _, _, h4⟩) | ⟨rfl, rfl, _⟩
    · rw [h3 va' hu']; simp [absStep]
    · rw [h4 va' hu']; simp [absStep, eAlloc]
    · simp [absStep, eRWZero]
  | unmap p =>
    obtain ⟨code, st', h1, out⟩ := unmapOp_full g p hu
    rcases out with ⟨rfl, g', regs, _, _, _, _, h3⟩ | ⟨rfl, rfl, _⟩
    · exact ⟨0, st', own, h1, g', regs, fun _ _ h => h, fun va' hu' => by rw [h3 va' hu']; simp [absStep]⟩
    · exact ⟨_, _, own, h1, g, SameRegs.refl _, fun _ _ h => h, fun va' _ => by simp [absStep, eInvalidMapping]⟩

/-- **History.** For every history of `Map` / `Unmap` requests on pages outside the recursive slot,
from every well-formed state: no request faults, the state stays well formed, and afterwards the
address space the hardware sees is the fold of the abstract updates over the history — the most
recent successful `Map` of a page wins, a page unmapped (or never mapped) is absent, a request never
affects another page, a failed request (allocator error, guard, not mapped) affects nothing. -/
theorem history_refines {R : W} (ops : List Op) : ∀ (st : St) (own : Own), Good st R own →
    (∀ op ∈ ops, UserVA (pageAddr op.page)) →
    ∃ codes st' own', runOps st ops = .ok (codes, st') ∧ codes.length = ops.length ∧ Good st' R own' ∧
      SameRegs st st' ∧
      ∀ va', UserVA va' → hwEntry st'.mem R va' = absRun (hwEntry st.mem R) ops codes va' := by
  induction ops with
  | nil => intro st own g _; exact ⟨[], st, own, rfl, rfl, g, SameRegs.refl _, fun _ _ => rfl⟩
  | cons op ops ih =>
    intro st own g hu
    obtain ⟨c, st1, own1, h1, g1, r1, _, a1⟩ := runOp_refines g op (hu op List.mem_cons_self)
    obtain ⟨cs, st2, own2, h2, hl, g2, r2, a2⟩ := ih st1 own1 g1 (fun o ho => hu o (List.mem_cons_of_mem _ ho))
    refine ⟨c :: cs, st2, own2, ?_, by simp [hl], g2, r1.trans r2, fun va' hu' => ?_⟩
    · simp only [runOps, h1, h2]
    · rw [a2 va' hu']
      simp only [absRun]
      exact absRun_congr_at ops cs va' (a1 va' hu')

/-- the fold, unrolled from the end: the last request decides -/
theorem absRun_snoc (as : AS) (ops : List Op) (cs : List Nat) (op : Op) (c : Nat) (h : cs.length = ops.length) :
    absRun as (ops ++ [op]) (cs ++ [c]) = absStep (absRun as ops cs) op c := by
  induction ops generalizing as cs with
  | nil => cases cs with
    | nil => rfl
    | cons _ _ => simp at h
  | cons o ops ih =>
    cases cs with
    | nil => simp at h
    | cons c' cs => simp only [List.cons_append, absRun]; exact ih _ cs (by simpa using h)

end Firefly.Vmm
