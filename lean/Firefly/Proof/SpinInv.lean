import Firefly.Proof.Spin
/-!
C08: the global inductive invariant (any number of threads) and its preservation by every step of
every thread; consequences used by `Props/C08.lean`.
-/
set_option linter.unusedSimpArgs false
set_option linter.unusedVariables false
namespace Firefly.Spin
open Firefly.Gen.C08

/-- the inductive invariant of the machine -/
structure Inv (cfg : Config) (s : State) : Prop where
  word : s.sh.lock = 0 ∨ s.sh.lock = 1
  loc : ∀ (i : Nat) (t : Thread), s.threads[i]? = some t → Local cfg t
  own1 : s.sh.lock = 1 → ∃ (i : Nat) (t : Thread), s.threads[i]? = some t ∧ Owner t
  own0 : ∀ (i : Nat) (t : Thread), s.threads[i]? = some t → Owner t → s.sh.lock = 1
  uniq : ∀ (i j : Nat) (ti tj : Thread), s.threads[i]? = some ti → s.threads[j]? = some tj → Owner ti → Owner tj → i = j
  ctr : s.sh.ctr = s.sh.incs
  cs : ∀ (i : Nat) (t : Thread) (v : Nat), s.threads[i]? = some t → t.loc = some v → v = s.sh.ctr ∧ t.held = true

theorem get_set_self {l : List Thread} {i : Nat} {t t' : Thread} (h : l[i]? = some t) :
    (l.set i t')[i]? = some t' := by
  have : i < l.length := by
    rcases Nat.lt_or_ge i l.length with h' | h'
    · exact h'
    · rw [List.getElem?_eq_none h'] at h; cases h
  simp [List.getElem?_set, this]

theorem get_set_ne {l : List Thread} {i j : Nat} {t' : Thread} (h : i ≠ j) :
    (l.set i t')[j]? = l[j]? := by
  simp [List.getElem?_set, h]

/-- decomposition of a global step -/
theorem step_cases {cfg : Config} {s s' : State} {i : Nat} {ch : Choice} (h : step cfg s i ch = some s') :
    ∃ t sh' t', s.threads[i]? = some t ∧ tstep cfg s.sh t ch = some (sh', t') ∧
      s' = { sh := sh', threads := s.threads.set i t' } := by
  unfold step at h
  split at h
  · cases h
  · rename_i t ht
    split at h
    · cases h
    · rename_i sh' t' hts
      cases h
      exact ⟨t, sh', t', ht, hts, rfl⟩

theorem init_inv (cfg : Config) (n : Nat) : Inv cfg (init n) := by
  have hget : ∀ (i : Nat) (t : Thread), (init n).threads[i]? = some t → t = ({} : Thread) := by
    intro i t h
    simp [init, List.getElem?_replicate] at h
    exact h.2.symm
  refine ⟨Or.inl rfl, ?_, ?_, ?_, ?_, rfl, ?_⟩
  · intro i t h; rw [hget i t h]; simp [Local]
  · intro h; simp [init] at h
  · intro i t h ho; rw [hget i t h] at ho; simp [Owner] at ho
  · intro i j ti tj hi hj ho; rw [hget i ti hi] at ho; simp [Owner] at ho
  · intro i t v h hl; rw [hget i t h] at hl; simp at hl

theorem step_inv {cfg : Config} {s s' : State} {i : Nat} {ch : Choice}
    (hI : Inv cfg s) (h : step cfg s i ch = some s') : Inv cfg s' := by
  obtain ⟨t, sh', t', hi, hts, rfl⟩ := step_cases h
  have hown : Owner t → s.sh.lock = 1 := hI.own0 i t hi
  obtain ⟨hL', hlock, hctr⟩ := tstep_local cfg s.sh sh' t t' ch (hI.loc i t hi) hI.word hown
    (fun v hv => hI.cs i t v hi hv) hts
  have hself : (s.threads.set i t')[i]? = some t' := get_set_self hi
  -- every thread of the new state is either the stepped one or an old one
  have hget : ∀ j tj, (s.threads.set i t')[j]? = some tj → (j = i ∧ tj = t') ∨ (j ≠ i ∧ s.threads[j]? = some tj) := by
    intro j tj hj
    by_cases hji : j = i
    · subst hji; rw [hself] at hj; cases hj; exact Or.inl ⟨rfl, rfl⟩
    · rw [get_set_ne (Ne.symm hji)] at hj; exact Or.inr ⟨hji, hj⟩
  -- lock word ∈ {0,1}
  have hword : sh'.lock = 0 ∨ sh'.lock = 1 := by
    rcases hlock with ⟨h1, _⟩ | ⟨_, h1, _⟩ | ⟨h1, _⟩
    · rw [h1]; exact hI.word
    · exact Or.inr h1
    · exact Or.inl h1
  -- counter part
  have hctr' : sh'.ctr = sh'.incs ∧
      ∀ (j : Nat) (tj : Thread) (v : Nat), (s.threads.set i t')[j]? = some tj → tj.loc = some v → v = sh'.ctr ∧ tj.held = true := by
    rcases hctr with ⟨hc, hi', hl⟩ | ⟨hheld, hc, hi', hl, _⟩
    · refine ⟨by rw [hc, hi']; exact hI.ctr, ?_⟩
      intro j tj v hj hv
      rcases hget j tj hj with ⟨_, rfl⟩ | ⟨_, hj'⟩
      · rw [hc]; exact hl v hv
      · rw [hc]; exact hI.cs j tj v hj' hv
    · refine ⟨by rw [hc, hi', hI.ctr], ?_⟩
      intro j tj v hj hv
      rcases hget j tj hj with ⟨_, rfl⟩ | ⟨hne, hj'⟩
      · rw [hl] at hv; cases hv
      · -- another thread with a pending local copy would be a second holder
        have h2 := (hI.cs j tj v hj' hv).2
        exact absurd (hI.uniq j i tj t hj' hi (Or.inl h2) (Or.inl hheld)) hne
  refine ⟨hword, ?_, ?_, ?_, ?_, hctr'.1, hctr'.2⟩
  · -- Local
    intro j tj hj
    rcases hget j tj hj with ⟨_, rfl⟩ | ⟨_, hj'⟩
    · exact hL'
    · exact hI.loc j tj hj'
  · -- lock = 1 → an owner exists
    intro h1
    rcases hlock with ⟨hl, ho⟩ | ⟨_, _, _, ho'⟩ | ⟨hl, _, _⟩
    · obtain ⟨j, tj, hj, hoj⟩ := hI.own1 (by rw [← hl]; exact h1)
      by_cases hji : j = i
      · subst hji; rw [hi] at hj; cases hj
        exact ⟨j, t', hself, ho.2 hoj⟩
      · exact ⟨j, tj, by rw [get_set_ne (Ne.symm hji)]; exact hj, hoj⟩
    · exact ⟨i, t', hself, ho'⟩
    · rw [hl] at h1; cases h1
  · -- an owner → lock = 1
    intro j tj hj hoj
    rcases hget j tj hj with ⟨_, rfl⟩ | ⟨hne, hj'⟩
    · rcases hlock with ⟨hl, ho⟩ | ⟨_, h1, _, _⟩ | ⟨_, _, hno⟩
      · rw [hl]; exact hown (ho.1 hoj)
      · exact h1
      · exact absurd hoj hno
    · rcases hlock with ⟨hl, ho⟩ | ⟨h0, _, _, _⟩ | ⟨_, hot, _⟩
      · rw [hl]; exact hI.own0 j tj hj' hoj
      · have := hI.own0 j tj hj' hoj; omega
      · exact absurd (hI.uniq j i tj t hj' hi hoj hot) hne
  · -- uniqueness
    intro j k tj tk hj hk hoj hok
    rcases hget j tj hj with ⟨rfl, rfl⟩ | ⟨hnej, hj'⟩ <;> rcases hget k tk hk with ⟨rfl, rfl⟩ | ⟨hnek, hk'⟩
    · rfl
    · -- j = i is an owner after the step, k ≠ i an owner before and after
      rcases hlock with ⟨hl, ho⟩ | ⟨h0, _, _, _⟩ | ⟨_, _, hno⟩
      · exact (hI.uniq k j tk t hk' hi hok (ho.1 hoj)).symm
      · have := hI.own0 k tk hk' hok; omega
      · exact absurd hoj hno
    · rcases hlock with ⟨hl, ho⟩ | ⟨h0, _, _, _⟩ | ⟨_, _, hno⟩
      · exact hI.uniq j k tj t hj' hi hoj (ho.1 hok)
      · have := hI.own0 j tj hj' hoj; omega
      · exact absurd hok hno
    · exact hI.uniq j k tj tk hj' hk' hoj hok

/-- every reachable state satisfies the invariant -/
theorem reachable_inv {cfg : Config} {n : Nat} {s : State} (h : Reachable cfg n s) : Inv cfg s := by
  induction h with
  | init => exact init_inv cfg n
  | step i ch _ hs ih => exact step_inv ih hs

/-- a step of thread `i` leaves every other thread alone -/
theorem step_other {cfg : Config} {s s' : State} {i j : Nat} {ch : Choice}
    (h : step cfg s i ch = some s') (hne : j ≠ i) : s'.threads[j]? = s.threads[j]? := by
  obtain ⟨t, sh', t', hi, hts, rfl⟩ := step_cases h
  exact get_set_ne (Ne.symm hne)

theorem step_length {cfg : Config} {s s' : State} {i : Nat} {ch : Choice}
    (h : step cfg s i ch = some s') : s'.threads.length = s.threads.length := by
  obtain ⟨t, sh', t', hi, hts, rfl⟩ := step_cases h
  simp

theorem reachable_length {cfg : Config} {n : Nat} {s : State} (h : Reachable cfg n s) : s.threads.length = n := by
  induction h with
  | init => simp [init]
  | step i ch _ hs ih => rw [step_length hs, ih]

end Firefly.Spin
