import Firefly.Proof.AmlFirstShapes
import Firefly.Proof.AmlStrictTot
/-!
The composition of the prefix of `ParseAML` with the strict pass: in the state the prefix hands to
`parseDeferredBlocks`, every attached object with a deferred table row satisfies the hypotheses of the per-block theorems
(`parseDeferred_np`, `parseDeferred_tot`) — so whichever block the walk reaches first is parsed without a panic, and with
enough fuel it returns.
-/
namespace Firefly.AmlParser.F
open Firefly.AmlLex Firefly.AmlTree Firefly.C13 Firefly.AmlParser Firefly.AmlParser.G Firefly.AmlParser.S Firefly.AmlParser.ST
open Firefly.Gen.C12

set_option maxRecDepth 50000 in
/-- table facts: a deferred row is one the argument parser understands; the rows of `Method`, of a name-path object, of a byte
constant and of a scope block are not deferred -/
theorem deferred_rows : (∀ i, i < opcodeTable.size → deferB i = true → rowFacts i = true) ∧ deferB methodInfoIdx = false ∧
    deferB (pOpcodeTableIndex opIntNamePath true) = false ∧ deferB (pOpcodeTableIndex opBytePrefix true) = false ∧
    deferB (pOpcodeTableIndex opIntScopeBlock true) = false := by
  decide +kernel

theorem info_lt {i : Nat} (h : InfoOK i) : i < opcodeTable.size := by
  unfold InfoOK opFlags at h
  cases hc : opcodeTable[i]? with
  | none => rw [hc] at h; cases h
  | some e =>
    have := (Array.getElem?_eq_some_iff.1 hc).1
    exact this

/-- the methods are complete: each has its flags -/
theorem MInv.ms {s : PState} (h : MInv s) : MS (fun _ => False) none s.tree := by
  intro m hl ho _ _
  obtain ⟨k1, k2, k3, mk⟩ := h.mths m hl ho
  obtain ⟨v, hv⟩ := mk.val
  exact ⟨v, by rw [mk.fi]; exact mk.l1, by rw [mk.fi, mk.n1]; exact mk.l2, by rw [mk.fi, mk.n1]; exact hv⟩

/-- an attached object with a deferred row, in a state in which every method is complete, is a block the strict pass
can parse -/
theorem MInv.block {s : PState} (h : MInv s) (tp : TP s) {obj : Nat} (hl : live s.tree obj = true)
    (hp : C13.P s.tree obj ≠ INV) (hdf : deferB (slot s.tree obj).infoIndex = true) : BlockOK s obj := by
  obtain ⟨d1, d2, d3, d4, d5⟩ := deferred_rows
  have w := tp.wf
  have hnM : (slot s.tree obj).opcode ≠ opMethod := by
    intro ho
    obtain ⟨k1, k2, k3, mk⟩ := h.mths obj hl ho
    rw [mk.im, d2] at hdf; cases hdf
  refine ⟨hl, d1 _ (info_lt (tp.info obj hl)) hdf, ⟨hnM, ?_⟩, hp, ?_⟩
  · intro e
    have : (slot s.tree obj).infoIndex = methodInfoIdx := e
    rw [this, d2] at hdf; cases hdf
  · intro ho
    have hpl : live s.tree (C13.P s.tree obj) = true := by
      rcases (w.lP hl).lp with h0 | h0
      · exact absurd h0 hp
      · exact h0
    obtain ⟨k1, k2, k3, mk⟩ := h.mths _ hpl ho
    rcases mk.kids w hpl obj hl rfl with e | e | e
    · rw [e, mk.i1, d3] at hdf; cases hdf
    · rw [e, mk.i2, d4] at hdf; cases hdf
    · rw [e, mk.i3, d5] at hdf; cases hdf

/-- **the prefix of `ParseAML` hands `parseDeferredBlocks` a state in which every deferred block can be parsed**: if the
prefix did not fail, then for every attached live object with a deferred table row (whichever of them the walk reaches
first) `parseDeferred` never panics and keeps the pool well-formed, and with fuel ≥ 16·len + 15 it returns -/
theorem prefix_block {d : Bytes} (hd : d.size + 268435456 ≤ 4294967296) {s : PState} (ht : TreeG s.tree)
    (hsz : s.tree.pool.size + 32 * d.size + 16 ≤ INV) (fuel handle : Nat) (hroot : RootSB s) (hfn : FN s)
    (hh : ∀ x, live s.tree x = true → (slot s.tree x).opcode = opScope → (slot s.tree x).tableHandle ≠ handle)
    (hmth : MInv s ∧ CSA s) :
    NPs (parsePrefix d fuel handle) s (fun b s' => b = true → MI d s' ∧ ∀ obj, live s'.tree obj = true →
      C13.P s'.tree obj ≠ INV → deferB (slot s'.tree obj).infoIndex = true → ∀ fuel2,
        NPs (parseDeferred d fuel2 obj) s' (fun res s2 => FP d s2 ∧
          (∀ x, live s'.tree x = true → live s2.tree x = true ∧ C13.P s2.tree x = C13.P s'.tree x) ∧
          (res = .ok → MS (fun _ => False) none s2.tree ∧ s2.scopeStack = s'.scopeStack)) ∧
        (16 * d.size + 15 ≤ fuel2 → TPs (parseDeferred d fuel2 obj) s' (fun res s2 => FP d s2 ∧
          (∀ x, live s'.tree x = true → live s2.tree x = true ∧ C13.P s2.tree x = C13.P s'.tree x) ∧
          (res = .ok → MS (fun _ => False) none s2.tree ∧ s2.scopeStack = s'.scopeStack)))) := by
  refine (parsePrefix_np (jf := True) hd ht (by omega) fuel handle hroot hfn hh (fun _ => hmth)).mono ?_
  intro b s' ⟨tp, hq⟩ hb
  obtain ⟨mij, hinv, hst, hpool⟩ := hq hb
  have hJ : MInv s' := mij.mth trivial
  have hst0 : s'.scopeStack = #[] := Array.eq_empty_of_size_eq_zero hst
  have hfp : FP d s' := ⟨hinv, ⟨tp.wf, tp.info, tp.root⟩, fun x hx => by rw [hst0] at hx; cases hx⟩
  have hnm : StackNM s' := fun x hx => by rw [hst0] at hx; cases hx
  have hunf : ∀ obj, UnF (fun _ => False) s' obj := fun _ g hg => False.elim hg
  refine ⟨mij.toMI, ?_⟩
  intro obj hl hp hdf fuel2
  have hblk := MInv.block hJ tp hl hp hdf
  exact ⟨parseDeferred_np hd fuel2 obj hfp hnm (MInv.ms hJ) (hunf obj) hblk (by omega),
    fun hf => parseDeferred_tot hd fuel2 obj hfp hnm (MInv.ms hJ) (hunf obj) hblk (by omega) hf⟩

/-- the executable check of the method hypothesis is sound -/
theorem methodsOK_of_b {s : PState} (h : methodsOKB s.tree = true) : MInv s ∧ CSA s := by
  unfold methodsOKB at h
  simp only [Bool.and_eq_true, List.all_eq_true, List.mem_range, Bool.or_eq_true, Bool.not_eq_true', bne_iff_ne, ne_eq,
    beq_iff_eq] at h
  obtain ⟨⟨hm, hc⟩, hri⟩ := h
  have hcsa : CSA s := by
    intro x hl ho
    rcases hc x (live_lt hl) with (q | q) | q
    · rw [hl] at q; cases q
    · exact absurd ho q
    · obtain ⟨q1, q2⟩ := q
      refine ⟨q1, ?_⟩
      cases hv : (slot s.tree x).value with
      | bytes off len => exact ⟨off, len, rfl⟩
      | _ => rw [hv] at q2; cases q2
  refine ⟨⟨?_, fun x hl ho => (hcsa x hl ho).2, hri⟩, hcsa⟩
  intro m hl ho
  rcases hm m (live_lt hl) with (q | q) | q
  · rw [hl] at q; cases q
  · exact absurd ho q
  · unfold methodOKB at q
    simp only [Bool.and_eq_true, beq_iff_eq, bne_iff_ne, ne_eq] at q
    obtain ⟨⟨⟨⟨⟨⟨⟨⟨⟨⟨⟨⟨⟨⟨a1, a2⟩, a3⟩, a4⟩, a5⟩, a6⟩, a7⟩, a8⟩, a9⟩, a10⟩, a11⟩, a12⟩, a13⟩, a14⟩, a15⟩ := q
    refine ⟨Fi s.tree m, Nx s.tree (Fi s.tree m), Nx s.tree (Nx s.tree (Fi s.tree m)), rfl, rfl, rfl, a1, a2, a3, ?_, a5, a6, a7, a8, a9,
      a10, a11, a12, a13, a14, a15⟩
    cases hv : (slot s.tree (Nx s.tree (Fi s.tree m))).value with
    | u64 v => exact ⟨v, rfl⟩
    | _ => rw [hv] at a4; cases a4

/-! ## the walk over the deferred blocks when no block succeeds, and the rest of `ParseAML` -/

/-- the walk `parseDeferredBlocks` from a state `s` in which no deferred block can be parsed successfully (in particular:
in which there is none): it changes nothing until it reaches the first block, and that block makes it fail -/
theorem walk_np {d : Bytes} (fuel : Nat) {s : PState} (tp : TP s) (hrootND : deferB (slot s.tree 0).infoIndex = false)
    (hB : ∀ obj, live s.tree obj = true → C13.P s.tree obj ≠ INV → deferB (slot s.tree obj).infoIndex = true →
      NPs (parseDeferred d fuel obj) s (fun res s2 => TP s2 ∧ res ≠ .ok)) :
    ∀ f,
      (∀ x, live s.tree x = true → (x = 0 ∨ C13.P s.tree x ≠ INV) →
        NPs (parseDeferredBlocks d fuel f x) s (fun res s' => TP s' ∧ (res = .ok → s' = s))) ∧
      (∀ a, (a = INV ∨ (live s.tree a = true ∧ C13.P s.tree a ≠ INV)) →
        NPs (deferredLoop d fuel f a) s (fun res s' => TP s' ∧ (res = .ok → s' = s))) := by
  have w := tp.wf
  intro f
  induction f with
  | zero =>
    constructor
    · intro x _ _; unfold parseDeferredBlocks; exact NPs.fuel
    · intro a _; unfold deferredLoop; exact NPs.fuel
  | succ f ih =>
    constructor
    · intro x hx hpx
      unfold parseDeferredBlocks
      refine NPs.step (objectAt_live' hx) ?_
      refine NPs.step (derefP_some_ex _) ?_
      refine NPs.step (getObj_live hx) ?_
      obtain ⟨fl, hfl⟩ := opFlags_of_info (tp.info x hx)
      rw [hfl]
      refine NPs.step (optP_ex fl s) ?_
      refine NPs.step (tableHandle_ex s) ?_
      split
      · rename_i hc
        have hdf : deferB (slot s.tree x).infoIndex = true := by unfold deferB; rw [hfl]; exact hc.1
        rcases hpx with h0 | h0
        · rw [h0] at hdf; rw [hrootND] at hdf; cases hdf
        · refine (hB x hx h0 hdf).mono ?_
          intro res s2 ⟨t2, hne⟩
          exact ⟨t2, fun e => absurd e hne⟩
      · apply ih.2
        show Fi s.tree x = INV ∨ (live s.tree (Fi s.tree x) = true ∧ C13.P s.tree (Fi s.tree x) ≠ INV)
        by_cases hf : Fi s.tree x = INV
        · exact Or.inl hf
        · refine Or.inr ⟨?_, ?_⟩
          · rcases (w.lP hx).lfi with h1 | h1
            · exact absurd h1 hf
            · exact h1
          · rw [((w.lP hx).fi hf).1]; exact live_ne_INV w.size_le hx
    · intro a ha
      unfold deferredLoop
      by_cases h0 : a = invalidIndex
      · rw [if_pos h0]; exact NPs.pure ⟨tp, fun _ => rfl⟩
      · rw [if_neg h0]
        rcases ha with h1 | ⟨hal, hap⟩
        · exact absurd h1 h0
        · refine NPs.bind (ih.1 a hal (Or.inr hap)) ?_
          intro res s1 ⟨t1, hs1⟩
          by_cases hok : res = .ok
          · rw [if_neg (by rw [hok]; decide)]
            have := hs1 hok
            subst this
            refine NPs.step (objectAt_live' hal) ?_
            refine NPs.step (derefP_some_ex _) ?_
            refine NPs.step (nextOf_live hal) ?_
            apply ih.2
            by_cases hn : Nx s1.tree a = INV
            · exact Or.inl hn
            · refine Or.inr ⟨?_, ?_⟩
              · rcases (w.lP hal).lnx with h1 | h1
                · exact absurd h1 hn
                · exact h1
              · rw [((w.lP hal).nx hn).2]; exact hap
          · rw [if_pos hok]
            exact NPs.pure ⟨t1, fun e => by cases e⟩

/-- some deferred block of `s'` can be parsed successfully -/
def BlockSucceeds (d : Bytes) (fuel : Nat) (s' : PState) : Prop :=
  ∃ obj s2, live s'.tree obj = true ∧ C13.P s'.tree obj ≠ INV ∧ deferB (slot s'.tree obj).infoIndex = true ∧
    parseDeferred d fuel obj s' = .ok (.ok, s2)

/-- **the rest of `ParseAML` behind the prefix, when no deferred block succeeds**: the walk, `resolveMethodCalls` and
`connectNonNamedObjArgs` never panic and leave a well-formed pool -/
theorem afterPrefix_np {d : Bytes} (hd : d.size + 268435456 ≤ 4294967296) (fuel : Nat) {s' : PState}
    (hfp : FP d s') (hst : s'.scopeStack.size = 0) (hJ : MInv s') (hbud : s'.tree.pool.size + 16 * d.size + 16 ≤ INV)
    (hno : ¬ BlockSucceeds d fuel s') :
    NPs (afterPrefix d fuel true) s' (fun _ s2 => TP s2) := by
  have tp : TP s' := ⟨hfp.tree.wf, hfp.tree.root, hfp.tree.info⟩
  have hst0 : s'.scopeStack = #[] := Array.eq_empty_of_size_eq_zero hst
  have hnm : StackNM s' := fun x hx => by rw [hst0] at hx; cases hx
  have hrootND : deferB (slot s'.tree 0).infoIndex = false := by rw [hJ.rootI]; exact deferred_rows.2.2.2.2
  have hB : ∀ obj, live s'.tree obj = true → C13.P s'.tree obj ≠ INV → deferB (slot s'.tree obj).infoIndex = true →
      NPs (parseDeferred d fuel obj) s' (fun res s2 => TP s2 ∧ res ≠ .ok) := by
    intro obj hl hp hdf
    have hblk := MInv.block hJ tp hl hp hdf
    have := parseDeferred_np hd fuel obj hfp hnm (MInv.ms hJ) (fun g hg => False.elim hg) hblk hbud
    refine ⟨this.1, fun res s2 e => ?_⟩
    obtain ⟨h2, _, _⟩ := this.2 res s2 e
    refine ⟨⟨h2.tree.wf, h2.tree.root, h2.tree.info⟩, fun hok => hno ⟨obj, s2, hl, hp, hdf, by rw [← hok]; exact e⟩⟩
  unfold afterPrefix
  simp only [Bool.not_true, Bool.false_eq_true, ↓reduceIte]
  refine NPs.bind ((walk_np fuel tp hrootND hB fuel).1 0 tp.root (Or.inl rfl)) ?_
  intro res s1 ⟨t1, hs1⟩
  by_cases hok : res = .ok
  · rw [if_neg (by rw [hok]; decide)]
    have := hs1 hok
    subst this
    refine NPs.bind ((resolve_np d fuel).1 0 t1 hJ.cs t1.root) ?_
    intro r2 s2 ⟨t2, _, _, _⟩
    split
    · exact NPs.pure t2
    · refine NPs.bind ((connectNonNamed_np fuel).1 0 t2 t2.root) ?_
      intro r3 s3 ⟨t3, _, _⟩
      split
      · exact NPs.pure t3
      · exact NPs.pure t3
  · rw [if_pos hok]
    exact NPs.pure t1

/-- **`ParseAML` never panics unless a deferred block was parsed successfully**: for a table parsed into a pool that
satisfies the pool hypotheses, every run of `parseAML` ends in `.outOfFuel`, or returns with a well-formed pool, or the
prefix succeeded and some deferred block of the state it handed over can be parsed successfully (then the walk over the
remaining blocks is not covered) -/
theorem parseAML_np {d : Bytes} (hd : d.size + 268435456 ≤ 4294967296) {s : PState} (ht : TreeG s.tree)
    (hsz : s.tree.pool.size + 32 * d.size + 16 ≤ INV) (fuel handle : Nat) (hroot : RootSB s) (hfn : FN s)
    (hh : ∀ x, live s.tree x = true → (slot s.tree x).opcode = opScope → (slot s.tree x).tableHandle ≠ handle)
    (hmth : MInv s ∧ CSA s) :
    (∀ e, parseAML d fuel handle s = .error e → e = .outOfFuel ∨
      ∃ s', parsePrefix d fuel handle s = .ok (true, s') ∧ BlockSucceeds d fuel s') ∧
    (∀ b s2, parseAML d fuel handle s = .ok (b, s2) → TP s2 ∨
      ∃ s', parsePrefix d fuel handle s = .ok (true, s') ∧ BlockSucceeds d fuel s') := by
  have hpre := parsePrefix_np (jf := True) hd ht (by omega) fuel handle hroot hfn hh (fun _ => hmth)
  rw [parseAML_prefix]
  have hrun : ∀ r, (parsePrefix d fuel handle >>= afterPrefix d fuel) s = r →
      (match parsePrefix d fuel handle s with
       | .error e => r = .error e
       | .ok (b, s') => r = afterPrefix d fuel b s') := by
    intro r hr
    rw [← hr]
    have hb : (parsePrefix d fuel handle >>= afterPrefix d fuel) s =
        (match parsePrefix d fuel handle s with
         | .error e => .error e
         | .ok (b, s') => afterPrefix d fuel b s') := by
      show (StateT.bind (parsePrefix d fuel handle) (afterPrefix d fuel)) s = _
      unfold StateT.bind
      cases parsePrefix d fuel handle s with
      | error e => rfl
      | ok p => rfl
    rw [hb]
    cases parsePrefix d fuel handle s with
    | error e => rfl
    | ok p => rfl
  cases hp : parsePrefix d fuel handle s with
  | error e0 =>
    have he0 := hpre.1 e0 hp
    constructor
    · intro e he
      have := hrun _ he
      rw [hp] at this
      cases this
      exact Or.inl he0
    · intro b s2 he
      have := hrun _ he
      rw [hp] at this
      cases this
  | ok p =>
    obtain ⟨b, s'⟩ := p
    obtain ⟨tp, hq⟩ := hpre.2 b s' hp
    cases b with
    | false =>
      have hfalse : afterPrefix d fuel false s' = .ok (false, s') := rfl
      constructor
      · intro e he
        have := hrun _ he
        rw [hp] at this
        dsimp only at this
        rw [hfalse] at this; cases this
      · intro b2 s2 he
        have := hrun _ he
        rw [hp] at this
        dsimp only at this
        rw [hfalse] at this; cases this
        exact Or.inl tp
    | true =>
      obtain ⟨mij, hinv, hst, hpool⟩ := hq rfl
      have hfp : FP d s' := ⟨hinv, ⟨tp.wf, tp.info, tp.root⟩, fun x hx => by
        rw [Array.eq_empty_of_size_eq_zero hst] at hx; cases hx⟩
      by_cases hbs : BlockSucceeds d fuel s'
      · exact ⟨fun _ _ => Or.inr ⟨s', rfl, hbs⟩, fun _ _ _ => Or.inr ⟨s', rfl, hbs⟩⟩
      · have hafter := afterPrefix_np hd fuel hfp hst (mij.mth trivial) (by omega) hbs
        constructor
        · intro e he
          have := hrun _ he
          rw [hp] at this
          exact Or.inl (hafter.1 e this.symm)
        · intro b2 s2 he
          have := hrun _ he
          rw [hp] at this
          exact Or.inl (hafter.2 b2 s2 this.symm)

/-- the executable form of `BlockSucceeds` -/
theorem blockSucceeds_iff (d : Bytes) (fuel : Nat) (s : PState) : blockSucceedsB d fuel s = true ↔ BlockSucceeds d fuel s := by
  unfold blockSucceedsB BlockSucceeds
  simp only [List.any_eq_true, List.mem_range, Bool.and_eq_true, bne_iff_ne, ne_eq]
  constructor
  · rintro ⟨obj, _, ⟨⟨hl, hp⟩, hdf⟩, hm⟩
    cases hr : parseDeferred d fuel obj s with
    | error e => rw [hr] at hm; cases hm
    | ok p =>
      obtain ⟨res, s2⟩ := p
      rw [hr] at hm
      cases res with
      | ok => exact ⟨obj, s2, hl, hp, hdf, hr⟩
      | failed => cases hm
      | shortCircuit => cases hm
      | requireExtraPass => cases hm
  · rintro ⟨obj, s2, hl, hp, hdf, hr⟩
    exact ⟨obj, live_lt hl, ⟨⟨hl, hp⟩, hdf⟩, by rw [hr]⟩

end Firefly.AmlParser.F
