import Firefly.Proof.PmmHistory
import Firefly.Proof.PmmBoot
/-! Initialisation of the bitmap allocator establishes the invariant, with the free set equal to
available RAM minus the kernel image minus the early allocations. -/
namespace Firefly.Pmm
open Firefly.Gen.Pmm

private theorem ps4 : pageSize = 4096 := by decide

/-! ### freshly built pools -/

theorem bitAt_replicate (k i : Nat) : bitAt (List.replicate k (0 : Word)) i = false := by
  unfold bitAt
  rw [List.getD_eq_getElem?_getD]
  by_cases h : i / 64 < k
  · simp [List.getElem?_replicate, h]
  · simp [List.getElem?_replicate, h]

theorem countClear_replicate (k n : Nat) : countClear (List.replicate k (0 : Word)) n = n := by
  unfold countClear
  have : ∀ i ∈ List.range n, (fun i => !bitAt (List.replicate k (0 : Word)) i) i = true := by
    intro i _
    show (!bitAt (List.replicate k (0 : Word)) i) = true
    rw [bitAt_replicate]; rfl
  rw [List.countP_eq_length.2 this]; simp

theorem mkPool_inv (s e : Nat) (h : s ≤ e) (hs : e - s + 1 < 4294967296) : PoolInv (mkPool s e) := by
  have hu : u32 (e - s + 1) = e - s + 1 := by unfold u32; omega
  refine ⟨h, hs, ?_, ?_⟩
  · show (List.replicate _ _).length = _
    rw [List.length_replicate]; rfl
  · show u32 (e - s + 1) = countClear (List.replicate _ _) (e - s + 1)
    rw [countClear_replicate, hu]

theorem mkPool_freeAt (s e f : Nat) : (mkPool s e).freeAt f = decide (s ≤ f ∧ f ≤ e) := by
  unfold Pool.freeAt mkPool
  show (decide (s ≤ f ∧ f ≤ e) && !bitAt (List.replicate _ (0 : Word)) (f - s)) = _
  rw [bitAt_replicate]; simp

theorem mem_poolsOf {m : List Region} {p : Pool} (h : p ∈ poolsOf m) :
    ∃ r ∈ m, r.typ = memAvailable ∧ regionEndExcl r > regionStart r ∧
      p = mkPool (regionStart r) (regionEndExcl r - 1) := by
  induction m with
  | nil => simp [poolsOf] at h
  | cons r rs ih =>
    unfold poolsOf at h
    by_cases ht : r.typ ≠ memAvailable
    · rw [if_pos ht] at h
      obtain ⟨r', hr', h'⟩ := ih h
      exact ⟨r', List.mem_cons_of_mem _ hr', h'⟩
    · rw [if_neg ht] at h
      unfold regionFrames at h
      by_cases hf : regionEndExcl r ≤ regionStart r
      · rw [if_pos hf] at h
        obtain ⟨r', hr', h'⟩ := ih h
        exact ⟨r', List.mem_cons_of_mem _ hr', h'⟩
      · rw [if_neg hf] at h
        simp only [List.mem_cons] at h
        rcases h with rfl | h
        · exact ⟨r, by simp, Classical.not_not.1 ht, by omega, rfl⟩
        · obtain ⟨r', hr', h'⟩ := ih h
          exact ⟨r', List.mem_cons_of_mem _ hr', h'⟩

theorem poolsOf_mem {m : List Region} {r : Region} (hr : r ∈ m) (ht : r.typ = memAvailable)
    (hf : regionEndExcl r > regionStart r) : mkPool (regionStart r) (regionEndExcl r - 1) ∈ poolsOf m := by
  induction m with
  | nil => cases hr
  | cons x xs ih =>
    unfold poolsOf
    rw [List.mem_cons] at hr
    rcases hr with rfl | hr
    · rw [if_neg (by simp [ht])]
      unfold regionFrames
      rw [if_neg (by omega)]
      simp
    · have := ih hr
      split
      · exact this
      · split
        · exact this
        · exact List.mem_cons_of_mem _ this

theorem poolsOf_disjoint {m : List Region} (h : DisjointMap m) : RangesSorted (ranges (poolsOf m)) := by
  induction m with
  | nil => simp [poolsOf, ranges, RangesSorted]
  | cons r rs ih =>
    have hs := List.pairwise_cons.1 h
    have ih' := ih hs.2
    unfold poolsOf
    by_cases ht : r.typ ≠ memAvailable
    · rw [if_pos ht]; exact ih'
    · rw [if_neg ht]
      unfold regionFrames
      by_cases hf : regionEndExcl r ≤ regionStart r
      · rw [if_pos hf]; exact ih'
      · rw [if_neg hf]
        unfold ranges RangesSorted
        rw [List.map_cons, List.pairwise_cons]
        refine ⟨?_, ih'⟩
        intro q hq
        obtain ⟨p, hp, rfl⟩ := List.mem_map.1 hq
        obtain ⟨r', hr', _, hfr, rfl⟩ := mem_poolsOf hp
        have hle := hs.1 r' hr'
        show regionEndExcl r - 1 < regionStart r' ∨ regionEndExcl r' - 1 < regionStart r
        unfold regionEndExcl regionStart at *
        rw [ps4] at *
        omega

theorem poolsOf_sorted {m : List Region} (h : SortedMap m) : RangesSorted (ranges (poolsOf m)) :=
  poolsOf_disjoint h.disjoint

theorem totalOf_eq_nSum_aux (ps : List Pool) (t : Nat) (h : t + nSum ps < 4294967296) :
    ps.foldl (fun t p => u32 (t + u32 (p.end_ - p.start + 1))) t = t + nSum ps := by
  induction ps generalizing t with
  | nil => simp [nSum]
  | cons p ps ih =>
    unfold nSum at *
    simp only [List.foldl_cons, List.map_cons, List.sum_cons] at *
    have hn : p.n = p.end_ - p.start + 1 := rfl
    have e1 : u32 (p.end_ - p.start + 1) = p.n := by unfold u32; omega
    have e2 : u32 (t + p.n) = t + p.n := by unfold u32; omega
    rw [e1, e2, ih (t + p.n) (by omega)]
    omega

theorem totalOf_eq_nSum (ps : List Pool) (h : nSum ps < 4294967296) : totalOf ps = nSum ps := by
  unfold totalOf
  rw [totalOf_eq_nSum_aux ps 0 (by omega)]; omega

/-- the state built by `setupPoolBitmaps` before anything is reserved -/
def bm0 (m : List Region) : Bitmap := { pools := poolsOf m, total := totalOf (poolsOf m), reserved := 0 }

theorem le_nSum_of_mem {ps : List Pool} {p : Pool} (h : p ∈ ps) : p.n ≤ nSum ps := by
  obtain ⟨i, hi⟩ := List.mem_iff_getElem?.1 h
  exact le_sum_of_getElem? ps (·.n) i p hi

theorem bm0_inv_any {m : List Region} (hs : DisjointMap m) (hsm : nSum (poolsOf m) < 4294967296) : Inv (bm0 m) := by
  have hpools : ∀ p ∈ poolsOf m, PoolInv p := by
    intro p hp
    obtain ⟨r, _, _, hfr, rfl⟩ := mem_poolsOf hp
    have := le_nSum_of_mem hp
    have hn : (mkPool (regionStart r) (regionEndExcl r - 1)).n = regionEndExcl r - 1 - regionStart r + 1 := rfl
    exact mkPool_inv _ _ (by omega) (by omega)
  have hfs : freeSum (poolsOf m) = nSum (poolsOf m) := by
    unfold freeSum nSum
    congr 1
    apply List.map_congr_left
    intro p hp
    rw [(hpools p hp).cnt]
    obtain ⟨r, _, _, _, rfl⟩ := mem_poolsOf hp
    show countClear (List.replicate _ _) _ = _
    rw [countClear_replicate]
  refine ⟨hpools, poolsOf_disjoint hs, Nat.zero_le _, ?_, ?_, ?_⟩
  · show totalOf _ < _; rw [totalOf_eq_nSum _ hsm]; exact hsm
  · show totalOf (poolsOf m) - 0 = freeSum (poolsOf m); rw [totalOf_eq_nSum _ hsm, hfs]; rfl
  · show totalOf _ = _; exact totalOf_eq_nSum _ hsm

theorem bm0_inv {m : List Region} (hs : SortedMap m) (hsm : nSum (poolsOf m) < 4294967296) : Inv (bm0 m) :=
  bm0_inv_any hs.disjoint hsm

theorem bm0_isFree (m : List Region) (g : Nat) :
    isFree (bm0 m) g ↔ managed (ranges (poolsOf m)) g := by
  unfold isFree managed bm0 ranges
  constructor
  · rintro ⟨p, hp, hf⟩
    exact ⟨(p.start, p.end_), List.mem_map.2 ⟨p, hp, rfl⟩, freeAt_range hf⟩
  · rintro ⟨q, hq, hin⟩
    obtain ⟨p, hp, rfl⟩ := List.mem_map.1 hq
    refine ⟨p, hp, ?_⟩
    obtain ⟨r, _, _, _, rfl⟩ := mem_poolsOf hp
    rw [mkPool_freeAt]
    exact decide_eq_true hin

/-- a frame lies in a pool iff it is wholly inside a region reported as available -/
theorem managed_iff_available (m : List Region) (g : Nat) :
    managed (ranges (poolsOf m)) g ↔
      ∃ r ∈ m, r.typ = memAvailable ∧ r.addr ≤ g * 4096 ∧ (g + 1) * 4096 ≤ r.addr + r.len := by
  unfold managed ranges
  constructor
  · rintro ⟨q, hq, hin⟩
    obtain ⟨p, hp, rfl⟩ := List.mem_map.1 hq
    obtain ⟨r, hr, ht, hfr, rfl⟩ := mem_poolsOf hp
    refine ⟨r, hr, ht, ?_⟩
    have h1 : regionStart r ≤ g := hin.1
    have h2 : g ≤ regionEndExcl r - 1 := hin.2
    unfold regionStart regionEndExcl at *
    rw [ps4] at *
    omega
  · rintro ⟨r, hr, ht, h1, h2⟩
    have hs : regionStart r ≤ g := by unfold regionStart; rw [ps4]; omega
    have he : g < regionEndExcl r := by unfold regionEndExcl; rw [ps4]; omega
    refine ⟨_, List.mem_map.2 ⟨_, poolsOf_mem hr ht (by omega), rfl⟩, ?_⟩
    show regionStart r ≤ g ∧ g ≤ regionEndExcl r - 1
    omega

/-! ### reserving one frame -/

/-- marking a free frame of pool `i` as reserved -/
theorem reserve_frame {bm : Bitmap} (hI : Inv bm) {i : Nat} {p : Pool} (hp : bm.pools[i]? = some p)
    {f : Nat} (hf : p.freeAt f = true) :
    let bm' : Bitmap := { bm with pools := bm.pools.set i (p.take ((f - p.start) / 64) (f - p.start)),
                                  reserved := inc32 bm.reserved }
    Inv bm' ∧ ranges bm'.pools = ranges bm.pools ∧ ∀ g, isFree bm' g ↔ (isFree bm g ∧ g ≠ f) := by
  intro bm'
  have hpm : p ∈ bm.pools := List.mem_of_getElem? hp
  have hpi := hI.pools p hpm
  have hin := freeAt_range hf
  have hn : p.n = p.end_ - p.start + 1 := rfl
  have hk : f - p.start < p.n := by omega
  have hclear : bitAt p.words (f - p.start) = false := by
    unfold Pool.freeAt at hf
    simp only [Bool.and_eq_true, Bool.not_eq_true'] at hf
    exact hf.2
  have hlen : (f - p.start) / 64 < p.words.length := by
    have := hpi.len; unfold wordsFor at this; omega
  obtain ⟨hp'inv, hp'fc, hp'free⟩ := pool_take hpi (f - p.start) hk hclear hlen
  have hfeq : p.start + (f - p.start) = f := by omega
  rw [hfeq] at hp'free
  have hsum := sum_map_set bm.pools (·.freeCount) i (p.take ((f - p.start) / 64) (f - p.start)) p hp
  have hnsum := sum_map_set bm.pools (·.n) i (p.take ((f - p.start) / 64) (f - p.start)) p hp
  have hn' : (p.take ((f - p.start) / 64) (f - p.start)).n = p.n := rfl
  have hge := le_sum_of_getElem? bm.pools (·.freeCount) i p hp
  have hacct := hI.acct
  have htot := hI.tot
  have hle := hI.le
  have hsmall := hI.small
  unfold freeSum at hacct
  unfold nSum at htot
  have hfcpos : 0 < p.freeCount := by omega
  have hinc : inc32 bm.reserved = bm.reserved + 1 := inc32_eq _ (by omega)
  refine ⟨⟨?_, ?_, ?_, hsmall, ?_, ?_⟩, ?_, ?_⟩
  · intro q hq
    rcases (mem_set_iff hp q).1 hq with rfl | ⟨j, _, hj⟩
    · exact hp'inv
    · exact hI.pools q (List.mem_of_getElem? hj)
  · show RangesSorted (ranges (bm.pools.set i _))
    rw [ranges_set bm.pools i p _ hp (by simp) (by simp)]; exact hI.sorted
  · show inc32 bm.reserved ≤ bm.total
    rw [hinc]; omega
  · show bm.total - inc32 bm.reserved = freeSum (bm.pools.set i _)
    unfold freeSum; rw [hinc]; omega
  · show bm.total = nSum (bm.pools.set i _)
    unfold nSum; omega
  · exact ranges_set bm.pools i p _ hp (by simp) (by simp)
  · intro g
    constructor
    · rintro ⟨q, hq, hqf⟩
      rcases (mem_set_iff hp q).1 hq with rfl | ⟨j, hne, hj⟩
      · rw [hp'free] at hqf
        simp only [Bool.and_eq_true, Bool.not_eq_true', decide_eq_false_iff_not] at hqf
        exact ⟨⟨p, hpm, hqf.1⟩, hqf.2⟩
      · refine ⟨⟨q, List.mem_of_getElem? hj, hqf⟩, ?_⟩
        intro hgf
        subst hgf
        exact hne (sorted_unique hI.sorted hj hp _ (freeAt_range hqf) hin)
    · rintro ⟨⟨q, hq, hqf⟩, hne⟩
      obtain ⟨j, hj⟩ := List.mem_iff_getElem?.1 hq
      by_cases e : j = i
      · subst e
        rw [hp] at hj; injection hj with hj; subst hj
        refine ⟨_, (mem_set_iff hp _).2 (Or.inl rfl), ?_⟩
        rw [hp'free]; simp [hqf, hne]
      · exact ⟨q, (mem_set_iff hp q).2 (Or.inr ⟨j, e, hj⟩), hqf⟩

/-- `markFrame … markReserved` on a frame that is free in pool `i` -/
theorem markFrame_reserved {bm : Bitmap} (hI : Inv bm) {i : Nat} {p : Pool} (hp : bm.pools[i]? = some p)
    {f : Nat} (hf : p.freeAt f = true) :
    ∃ bm', markFrame bm (some i) f .reserved = some bm' ∧ Inv bm' ∧
      ranges bm'.pools = ranges bm.pools ∧ ∀ g, isFree bm' g ↔ (isFree bm g ∧ g ≠ f) := by
  have hin := freeAt_range hf
  have hpi := hI.pools p (List.mem_of_getElem? hp)
  have hn : p.n = p.end_ - p.start + 1 := rfl
  have hlen : (f - p.start) / 64 < p.words.length := by
    have := hpi.len; unfold wordsFor at this; omega
  obtain ⟨h1, h2, h3⟩ := reserve_frame hI hp hf
  refine ⟨_, ?_, h1, h2, h3⟩
  unfold markFrame
  simp only [hp]
  rw [if_neg (by omega), if_neg (by omega)]
  simp only [List.getElem?_eq_getElem hlen]

/-- `markFrame` with the frame beyond the pool end, or no pool, is a no-op -/
theorem markFrame_noop_none (bm : Bitmap) (f : Nat) (flag : Mark) : markFrame bm none f flag = some bm := rfl

theorem markFrame_noop_beyond {bm : Bitmap} {i : Nat} {p : Pool} (hp : bm.pools[i]? = some p)
    {f : Nat} (hf : f > p.end_) (flag : Mark) : markFrame bm (some i) f flag = some bm := by
  unfold markFrame; simp only [hp]; rw [if_pos hf]

/-! ### loops of `init` -/

theorem ranges_getElem {ps ps' : List Pool} (h : ranges ps' = ranges ps) {i : Nat} {p : Pool}
    (hp : ps[i]? = some p) : ∃ p', ps'[i]? = some p' ∧ p'.start = p.start ∧ p'.end_ = p.end_ := by
  unfold ranges at h
  have := congrArg (fun l => l[i]?) h
  simp only [List.getElem?_map, hp, Option.map_some] at this
  cases hp' : ps'[i]? with
  | none => simp [hp'] at this
  | some p' =>
    simp only [hp', Option.map_some, Option.some.injEq, Prod.mk.injEq] at this
    exact ⟨p', rfl, this.1, this.2⟩

/-- a frame that is free and lies in the range of pool `i` is free *in* pool `i` -/
theorem freeAt_of_isFree {bm : Bitmap} (hI : Inv bm) {i : Nat} {p : Pool} (hp : bm.pools[i]? = some p)
    {g : Nat} (hin : p.start ≤ g ∧ g ≤ p.end_) (hf : isFree bm g) : p.freeAt g = true := by
  obtain ⟨q, hq, hqf⟩ := hf
  obtain ⟨j, hj⟩ := List.mem_iff_getElem?.1 hq
  have := sorted_unique hI.sorted hj hp g (freeAt_range hqf) hin
  subst this
  rw [hp] at hj; injection hj with hj; subst hj
  exact hqf

/-- the loop of `reserveKernelFrames`: frames `ks … ks+n-1` against pool `i` -/
theorem kernel_loop {bm : Bitmap} (hI : Inv bm) {i : Nat} {p : Pool} (hp : bm.pools[i]? = some p)
    (ks n : Nat) (hks : p.start ≤ ks)
    (hfree : ∀ g, ks ≤ g → g < ks + n → g ≤ p.end_ → isFree bm g) :
    ∃ bm', (List.range n).foldlM (fun bm j => markFrame bm (some i) (ks + j) .reserved) bm = some bm' ∧
      Inv bm' ∧ ranges bm'.pools = ranges bm.pools ∧
      ∀ g, isFree bm' g ↔ (isFree bm g ∧ ¬ (ks ≤ g ∧ g < ks + n ∧ g ≤ p.end_)) := by
  induction n with
  | zero =>
    refine ⟨bm, by simp, hI, rfl, ?_⟩
    intro g; constructor
    · intro h; exact ⟨h, by omega⟩
    · intro h; exact h.1
  | succ n ih =>
    obtain ⟨bm1, h1, hI1, hr1, hf1⟩ := ih (fun g a b c => hfree g a (by omega) c)
    rw [List.range_succ, List.foldlM_append, h1]
    simp only [List.foldlM_cons, List.foldlM_nil, Option.bind_eq_bind, Option.bind_some]
    obtain ⟨p1, hp1, hs1, he1⟩ := ranges_getElem hr1 hp
    by_cases hbeyond : ks + n > p.end_
    · rw [markFrame_noop_beyond hp1 (by omega)]
      refine ⟨bm1, by simp, hI1, hr1, ?_⟩
      intro g
      rw [hf1 g]
      constructor
      · rintro ⟨a, b⟩; exact ⟨a, by omega⟩
      · rintro ⟨a, b⟩; exact ⟨a, by omega⟩
    · have hfr : isFree bm1 (ks + n) := by
        rw [hf1]; exact ⟨hfree _ (by omega) (by omega) (by omega), by omega⟩
      have hfa := freeAt_of_isFree hI1 hp1 (by omega) hfr
      obtain ⟨bm2, h2, hI2, hr2, hf2⟩ := markFrame_reserved hI1 hp1 hfa
      rw [h2]
      refine ⟨bm2, by simp, hI2, hr2.trans hr1, ?_⟩
      intro g
      rw [hf2 g, hf1 g]
      constructor
      · rintro ⟨⟨a, b⟩, c⟩; exact ⟨a, by omega⟩
      · rintro ⟨a, b⟩; exact ⟨⟨a, by omega⟩, by omega⟩

/-- marking a list of distinct free frames, each against the pool that contains it -/
def markList (bm : Bitmap) (fs : List Nat) : Option Bitmap :=
  fs.foldlM (fun bm f => markFrame bm (poolForFrame bm.pools f) f .reserved) bm

theorem poolForFrame_of_isFree {bm : Bitmap} (hI : Inv bm) {g : Nat} (hf : isFree bm g) :
    ∃ i p, poolForFrame bm.pools g = some i ∧ bm.pools[i]? = some p ∧ p.freeAt g = true := by
  cases h : poolForFrame bm.pools g with
  | none =>
    obtain ⟨q, hq, hqf⟩ := hf
    exact absurd (freeAt_range hqf) (poolForFrame_none h q hq)
  | some i =>
    obtain ⟨p, hp, hin⟩ := poolForFrame_some h
    exact ⟨i, p, rfl, hp, freeAt_of_isFree hI hp hin hf⟩

theorem markList_spec {bm : Bitmap} (hI : Inv bm) (fs : List Nat) (hnd : fs.Nodup)
    (hfree : ∀ f ∈ fs, isFree bm f) :
    ∃ bm', markList bm fs = some bm' ∧ Inv bm' ∧ ranges bm'.pools = ranges bm.pools ∧
      ∀ g, isFree bm' g ↔ (isFree bm g ∧ g ∉ fs) := by
  induction fs generalizing bm with
  | nil => exact ⟨bm, rfl, hI, rfl, fun g => by simp⟩
  | cons f fs ih =>
    rw [List.nodup_cons] at hnd
    obtain ⟨i, p, hpf, hp, hfa⟩ := poolForFrame_of_isFree hI (hfree f (by simp))
    obtain ⟨bm1, h1, hI1, hr1, hf1⟩ := markFrame_reserved hI hp hfa
    obtain ⟨bm2, h2, hI2, hr2, hf2⟩ := ih hI1 hnd.2 (fun g hg => by
      rw [hf1]; exact ⟨hfree g (by simp [hg]), fun e => hnd.1 (e ▸ hg)⟩)
    refine ⟨bm2, ?_, hI2, hr2.trans hr1, ?_⟩
    · unfold markList at *
      simp only [List.foldlM_cons, Option.bind_eq_bind, hpf, h1, Option.bind_some]
      exact h2
    · intro g
      rw [hf2 g, hf1 g, List.mem_cons]
      constructor
      · rintro ⟨⟨a, b⟩, c⟩; exact ⟨a, fun h => h.elim b c⟩
      · rintro ⟨a, b⟩; exact ⟨⟨a, fun h => b (Or.inl h)⟩, fun h => b (Or.inr h)⟩

/-- the replay loop of `reserveEarlyAllocatorFrames` marks exactly the frames of the run -/
theorem early_loop (m : List Region) {α} (l : List α) (bm : Bitmap) (b0 b' : Boot) (fs : List Nat)
    (h : bootRun m l.length b0 = some (b', fs)) :
    l.foldlM (fun (st : Bitmap × Boot) _ =>
      let (b1, r) := bootAlloc m st.2
      let f := r.getD invalidFrame
      (markFrame st.1 (poolForFrame st.1.pools f) f .reserved).map (·, b1)) (bm, b0)
    = (markList bm fs).map (·, b') := by
  induction l generalizing bm b0 fs with
  | nil =>
    simp only [List.length_nil, bootRun] at h
    injection h with h; injection h with h1 h2; subst h1 h2
    simp [markList]
  | cons x xs ih =>
    simp only [List.length_cons] at h
    unfold bootRun at h
    cases ha : bootAlloc m b0 with
    | mk b1 r =>
      cases r with
      | none => simp [ha] at h
      | some f =>
        simp only [ha] at h
        cases hr : bootRun m xs.length b1 with
        | none => simp [hr] at h
        | some q =>
          obtain ⟨b2, fs2⟩ := q
          simp only [hr, Option.map_some] at h
          injection h with h; injection h with h1 h2; subst h1 h2
          simp only [List.foldlM_cons, ha, Option.getD_some, Option.bind_eq_bind]
          unfold markList
          simp only [List.foldlM_cons, Option.bind_eq_bind]
          cases hm : markFrame bm (poolForFrame bm.pools f) f Mark.reserved with
          | none => simp
          | some bm1 =>
            simp only [Option.map_some, Option.bind_some]
            have := ih bm1 b1 fs2 hr
            unfold markList at this
            exact this

theorem bootRun_append (m : List Region) (k n : Nat) (b b1 b2 : Boot) (fs1 fs2 : List Nat)
    (h1 : bootRun m k b = some (b1, fs1)) (h2 : bootRun m n b1 = some (b2, fs2)) :
    bootRun m (k + n) b = some (b2, fs1 ++ fs2) := by
  induction k generalizing b fs1 with
  | zero =>
    simp only [bootRun] at h1
    injection h1 with h1; injection h1 with e1 e2; subst e1 e2
    simpa using h2
  | succ k ih =>
    unfold bootRun at h1
    cases ha : bootAlloc m b with
    | mk b' r =>
      cases r with
      | none => simp [ha] at h1
      | some f =>
        simp only [ha] at h1
        cases hr : bootRun m k b' with
        | none => simp [hr] at h1
        | some q =>
          obtain ⟨b'', gs⟩ := q
          simp only [hr, Option.map_some] at h1
          injection h1 with h1; injection h1 with e1 e2; subst e1 e2
          have := ih b' gs hr
          have e : k + 1 + n = (k + n) + 1 := by omega
          rw [e]
          unfold bootRun
          simp only [ha, this, Option.map_some, List.cons_append]

/-- the metadata-page loop of `setupPoolBitmaps` (no scripted map failure) is a run of the boot
allocator that either completes or ends in out-of-memory -/
theorem metaPages_spec (m : List Region) (n idx : Nat) (b : Boot) :
    (∃ b1 fs, bootRun m n b = some (b1, fs) ∧ metaPages m none n idx b = (b1, .ok)) ∨
    (bootRun m n b = none ∧ (metaPages m none n idx b).2 = .oom) := by
  induction n generalizing idx b with
  | zero => exact Or.inl ⟨b, [], rfl, rfl⟩
  | succ n ih =>
    unfold metaPages bootRun
    cases ha : bootAlloc m b with
    | mk b' r =>
      cases r with
      | none => exact Or.inr ⟨rfl, rfl⟩
      | some f =>
        simp only [reduceCtorEq, if_false]
        rcases ih (idx + 1) b' with ⟨b1, fs, h1, h2⟩ | ⟨h1, h2⟩
        · exact Or.inl ⟨b1, f :: fs, by simp [h1], h2⟩
        · exact Or.inr ⟨by simp [h1], h2⟩


theorem foldlM_noop {bm : Bitmap} (n ks : Nat) :
    (List.range n).foldlM (fun bm j => markFrame bm none (ks + j) .reserved) bm = some bm := by
  induction n with
  | zero => rfl
  | succ n ih => rw [List.range_succ, List.foldlM_append, ih]; rfl

theorem ascending_nodup {l : List Nat} (h : Ascending l) : l.Nodup := by
  unfold Ascending at h
  exact h.imp (fun hlt => Nat.ne_of_lt hlt)

/-- a managed frame that is a kernel frame lies in the pool that contains the first kernel frame -/
theorem kernel_frames_home {m : List Region} {ksA keA : Nat} (hs : SortedMap m)
    (hp : KernelPlaced m ksA keA) {g : Nat} (hm : managed (ranges (poolsOf m)) g)
    (hk : (bootInit ksA keA).kStart ≤ g ∧ g ≤ (bootInit ksA keA).kEnd) :
    ∃ q ∈ poolsOf m, q.start ≤ (bootInit ksA keA).kStart ∧ (bootInit ksA keA).kStart ≤ q.end_ ∧
      q.start ≤ g ∧ g ≤ q.end_ := by
  obtain ⟨rg, hrg, hin⟩ := hm
  obtain ⟨q, hq, rfl⟩ := List.mem_map.1 hrg
  obtain ⟨r, hr, ht, hfr, rfl⟩ := mem_poolsOf hq
  have hin1 : regionStart r ≤ g := hin.1
  have hin2 : g ≤ regionEndExcl r - 1 := hin.2
  have hc : Cand r := by
    refine ⟨ht, ?_⟩
    unfold regionStart regionEndExcl at hfr
    rw [ps4] at *
    omega
  have hgeo := geo_of_placed hs hp r hr hc
  have h2 := cand_endExcl_le_endUp r
  refine ⟨_, hq, ?_⟩
  show regionStart r ≤ _ ∧ _ ≤ regionEndExcl r - 1 ∧ regionStart r ≤ g ∧ g ≤ regionEndExcl r - 1
  unfold GeoOk at hgeo
  rcases hgeo with h | h | h <;> omega

/-- **init_spec** — `BitmapAllocator.init` after `k` successful early allocations: it ends in `ok`
or out-of-memory (never the model's `panic`); on `ok` the early allocator has performed exactly
`k + metadata pages` successful allocations `fs`, the allocator state satisfies the invariant, and
its free set is exactly: frames of available regions, minus the kernel image, minus `fs`. -/
theorem init_spec (m : List Region) (ksA keA : Nat) (hs : SortedMap m) (hp : KernelPlaced m ksA keA)
    (hsm : nSum (poolsOf m) < 4294967296) (k : Nat) (b : Boot) (fs0 : List Nat)
    (hrun : bootRun m k (bootInit ksA keA) = some (b, fs0)) :
    ((bitmapInit m b true none).outcome = .ok ∨ (bitmapInit m b true none).outcome = .oom) ∧
    ((bitmapInit m b true none).outcome = .ok →
      ∃ fs, bootRun m (k + requiredBytes (poolsOf m) / pageSize) (bootInit ksA keA)
              = some ((bitmapInit m b true none).boot, fs) ∧
        Inv (bitmapInit m b true none).bm ∧
        ∀ g, isFree (bitmapInit m b true none).bm g ↔
          (managed (ranges (poolsOf m)) g ∧
           ¬ ((bootInit ksA keA).kStart ≤ g ∧ g ≤ (bootInit ksA keA).kEnd) ∧ g ∉ fs)) := by
  have hchain := chain_of_sorted hs
  have hgeo := geo_of_placed hs hp
  have hkle := bootInit_k_le hp.nonempty
  unfold bitmapInit
  simp only [Bool.not_true, Bool.false_eq_true, if_false]
  rcases metaPages_spec m (requiredBytes (poolsOf m) / pageSize) 0 b with ⟨b1, fs1, hr1, hm1⟩ | ⟨_, hm1⟩
  · rw [hm1]
    simp only
    have htot := bootRun_append m k _ _ b b1 fs0 fs1 hrun hr1
    obtain ⟨_, hac, hks, hke, _, hasc, hall, _⟩ := bootRun_sound hchain hkle _ (bootInit ksA keA) rfl rfl
      hgeo (bootOk_init _ _) htot
    have hac' : b1.allocCount = k + requiredBytes (poolsOf m) / pageSize := by
      simpa [bootInit] using hac
    have hI0 := bm0_inv hs hsm
    -- kernel frames
    have hkern : ∃ bm1, reserveKernel (bm0 m) b1 = some bm1 ∧ Inv bm1 ∧
        ranges bm1.pools = ranges (poolsOf m) ∧
        ∀ g, isFree bm1 g ↔ (managed (ranges (poolsOf m)) g ∧
          ¬ ((bootInit ksA keA).kStart ≤ g ∧ g ≤ (bootInit ksA keA).kEnd)) := by
      unfold reserveKernel
      rw [hks, hke]
      cases hpf : poolForFrame (bm0 m).pools (bootInit ksA keA).kStart with
      | none =>
        refine ⟨bm0 m, foldlM_noop _ _, hI0, rfl, ?_⟩
        intro g
        rw [bm0_isFree]
        constructor
        · intro hm
          refine ⟨hm, fun hk => ?_⟩
          obtain ⟨q, hq, h1, h2, _⟩ := kernel_frames_home hs hp hm hk
          exact poolForFrame_none hpf q hq ⟨h1, h2⟩
        · exact fun h => h.1
      | some i =>
        obtain ⟨p, hpi, hin⟩ := poolForFrame_some hpf
        obtain ⟨bm1, h1, hI1, hr1', hf1⟩ := kernel_loop hI0 hpi (bootInit ksA keA).kStart
          ((bootInit ksA keA).kEnd + 1 - (bootInit ksA keA).kStart) hin.1
          (fun g a _ c => by
            rw [bm0_isFree]
            exact ⟨(p.start, p.end_), List.mem_map.2 ⟨p, List.mem_of_getElem? hpi, rfl⟩, by omega, c⟩)
        refine ⟨bm1, h1, hI1, hr1', ?_⟩
        intro g
        rw [hf1 g, bm0_isFree]
        constructor
        · rintro ⟨hm, hn⟩
          refine ⟨hm, fun hk => hn ⟨hk.1, by omega, ?_⟩⟩
          obtain ⟨q, hq, h1', h2', h3', h4'⟩ := kernel_frames_home hs hp hm hk
          obtain ⟨j, hj⟩ := List.mem_iff_getElem?.1 hq
          have hpi' : (poolsOf m)[i]? = some p := hpi
          have := sorted_unique hI0.sorted hj hpi _ ⟨h1', h2'⟩ hin
          subst this
          rw [hpi'] at hj; injection hj with hj; subst hj
          exact h4'
        · rintro ⟨hm, hn⟩
          exact ⟨hm, fun h => hn ⟨h.1, by omega⟩⟩
    obtain ⟨bm1, hk1, hI1, hrg1, hf1⟩ := hkern
    unfold bm0 at hk1
    rw [hk1]
    simp only
    -- early frames
    have hreset : ({ b1 with allocCount := 0, last := 0 } : Boot) = bootInit ksA keA := by
      cases b1
      simp only [bootInit] at *
      simp [hks, hke]
    have hearly := early_loop m (List.range b1.allocCount) bm1 (bootInit ksA keA) b1 (fs0 ++ fs1)
      (by rw [List.length_range, hac']; exact htot)
    have hfree : ∀ f ∈ fs0 ++ fs1, isFree bm1 f := by
      intro f hf
      obtain ⟨_, hnk, r, hr, hc, g1, g2⟩ := hall f hf
      rw [hf1]
      refine ⟨?_, hnk⟩
      rw [managed_iff_available]
      refine ⟨r, hr, hc.1, ?_⟩
      unfold regionStart regionEndExcl at *
      rw [ps4] at *
      omega
    obtain ⟨bm2, h2, hI2, _, hf2⟩ := markList_spec hI1 (fs0 ++ fs1) (ascending_nodup hasc) hfree
    unfold reserveEarly
    rw [hreset, hearly, h2]
    simp only [Option.map_some]
    refine ⟨Or.inl trivial, fun _ => ⟨fs0 ++ fs1, htot, hI2, ?_⟩⟩
    intro g
    rw [hf2 g, hf1 g]
    constructor
    · rintro ⟨⟨a, b'⟩, c⟩; exact ⟨a, b', c⟩
    · rintro ⟨a, b', c⟩; exact ⟨⟨a, b'⟩, c⟩
  · cases hmp : metaPages m none (requiredBytes (poolsOf m) / pageSize) 0 b with
    | mk b1 o =>
      rw [hmp] at hm1
      simp only at hm1
      subst hm1
      simp

end Firefly.Pmm

namespace Firefly.Pmm
open Firefly.Gen.Pmm

/-- the metadata loop with a scripted `mapFn` failure ends in out-of-memory or in that error, and
never reports success when the failing call is reached -/
theorem metaPages_outcomes (m : List Region) (mf : Option Nat) (n idx : Nat) (b : Boot) :
    (metaPages m mf n idx b).2 = .ok ∨ (metaPages m mf n idx b).2 = .oom ∨
    (metaPages m mf n idx b).2 = .mapErr := by
  induction n generalizing idx b with
  | zero => exact Or.inl rfl
  | succ n ih =>
    unfold metaPages
    cases ha : bootAlloc m b with
    | mk b' r =>
      cases r with
      | none => exact Or.inr (Or.inl rfl)
      | some f =>
        simp only
        by_cases hm : mf = some idx
        · rw [if_pos hm]; exact Or.inr (Or.inr rfl)
        · rw [if_neg hm]; exact ih (idx + 1) b'

/-- **init_error_paths** — a failing `reserveRegionFn` is reported as that error; with a failing
`mapFn` the outcome is that error or out-of-memory (whichever comes first); in neither case does
initialisation report success with a half-built state, and it never crashes before the bitmaps
exist. -/
theorem init_error_paths (m : List Region) (b : Boot) (mf : Option Nat) :
    (bitmapInit m b false mf).outcome = .reserveErr ∧
    ((metaPages m mf (requiredBytes (poolsOf m) / pageSize) 0 b).2 ≠ .ok →
      (bitmapInit m b true mf).outcome = .oom ∨ (bitmapInit m b true mf).outcome = .mapErr) := by
  constructor
  · unfold bitmapInit; simp
  · intro h
    unfold bitmapInit
    simp only [Bool.not_true, Bool.false_eq_true, if_false]
    cases hmp : metaPages m mf (requiredBytes (poolsOf m) / pageSize) 0 b with
    | mk b1 o =>
      rw [hmp] at h
      have := metaPages_outcomes m mf (requiredBytes (poolsOf m) / pageSize) 0 b
      rw [hmp] at this
      cases o with
      | ok => exact absurd rfl h
      | oom => exact Or.inl rfl
      | mapErr => exact Or.inr rfl
      | reserveErr => simp at this
      | panic => simp at this

end Firefly.Pmm
