import Firefly.Proof.VmmWindow
/-! Symbolic execution of `walk` and of the operations built on it, along a path of tables. -/
namespace Firefly.Vmm
open Firefly.Gen.C04

/-- table address `walk` holds when it enters level `L` -/
def tableVA (va : W) : Nat → W
  | 0 => pdtVA
  | L + 1 => E va L <<< levelBits L

theorem walk_eq {σ : Type} (fn : Walker σ) (va : W) (a : σ) (st : St) :
    walk fn va a st = walkFrom fn va [0, 1, 2, 3] (tableVA va 0) a st := rfl

theorem walkFrom_step {σ : Type} (fn : Walker σ) (va : W) (L : Nat) (rest : List Nat) (a : σ) (st : St) (loc : Loc)
    (h : ptePtr st (E va L) = some loc) :
    walkFrom fn va (L :: rest) (tableVA va L) a st =
      match fn L (E va L) loc a st with
      | .error e => .error e
      | .ok ((false, a), st) => .ok (a, st)
      | .ok ((true, a), st) => walkFrom fn va rest (tableVA va (L + 1)) a st := by
  have hE : tableVA va L + (idxW va L <<< pointerShift) = E va L := by cases L <;> rfl
  simp only [walkFrom]
  rw [show (tableVA va L + ((va >>> levelShift L) &&& (((1 : W) <<< levelBits L) - 1)) <<< pointerShift) = E va L from hE, h]
  rfl

theorem walkFrom_fault {σ : Type} (fn : Walker σ) (va : W) (L : Nat) (rest : List Nat) (a : σ) (st : St)
    (h : ptePtr st (E va L) = none) :
    walkFrom fn va (L :: rest) (tableVA va L) a st = .error .fault := by
  have hE : tableVA va L + (idxW va L <<< pointerShift) = E va L := by cases L <;> rfl
  simp only [walkFrom]
  rw [show (tableVA va L + ((va >>> levelShift L) &&& (((1 : W) <<< levelBits L) - 1)) <<< pointerShift) = E va L from hE, h]

theorem and_one_cases (e : W) : e &&& 1#64 = 0#64 ∨ e &&& 1#64 = 1#64 := by
  have h : (e &&& 1#64).toNat = e.toNat % 2 := and_low e 1 (by omega)
  rcases Nat.mod_two_eq_zero_or_one e.toNat with h' | h'
  · left; apply BitVec.eq_of_toNat_eq; rw [h, h']; rfl
  · right; apply BitVec.eq_of_toNat_eq; rw [h, h']; rfl

theorem hasFlags_present (e : W) : hasFlags e fPresent = true ↔ e &&& 1#64 ≠ 0#64 := by
  have : fPresent = 1#64 := by decide
  rw [this]; unfold hasFlags
  rcases and_one_cases e with h | h <;> simp [h]

theorem and_128_cases (e : W) : e &&& 128#64 = 0#64 ∨ e &&& 128#64 = 128#64 := by
  have : (128#64 : W) = BitVec.twoPow 64 7 := by decide
  rw [this, BitVec.and_twoPow]; split <;> simp

theorem hasFlags_huge (e : W) : hasFlags e fHuge = true ↔ e &&& 128#64 ≠ 0#64 := by
  have : fHuge = 128#64 := by decide
  rw [this]; unfold hasFlags
  rcases and_128_cases e with h | h <;> simp [h]

/-- every table reached on the path of `va` is RAM and no upper-level entry has the huge-page bit -/
def Sane (m : Mem) (R va : W) : Prop :=
  ∀ L T, L ≤ 3 → Chain m R va L T →
    m.backed (frameN T) = true ∧ (L < 3 → m.rd (frameN T) (kidx va L) &&& 128#64 = 0#64)

theorem frameAddr_frameOf (e : W) : frameAddr (frameOf e) = e &&& hwMask := by
  apply BitVec.eq_of_toNat_eq
  have h := and_hwMask_toNat e
  have := e.isLt
  simp only [frameAddr, frameOf, physMask_eq, pageShift, BitVec.toNat_shiftLeft, BitVec.toNat_ushiftRight,
    Nat.shiftRight_eq_div_pow, Nat.shiftLeft_eq, h]
  omega

theorem pageOffset_eq (va : W) : pageOffset va = va &&& 0xfff#64 := by
  have : (((1 : W) <<< levelShift (pageLevels - 1)) - 1) = 0xfff#64 := by decide
  unfold pageOffset; rw [this]

theorem pteCb_present {L : Nat} {ea : W} {loc : Loc} {acc : Option Loc × Nat} {st : St}
    (h : st.rdLoc loc &&& 1#64 ≠ 0#64) : pteCb L ea loc acc st = .ok ((true, (some loc, acc.2)), st) := by
  have := (hasFlags_present (st.rdLoc loc)).2 h
  simp [pteCb, this]

theorem pteCb_absent {L : Nat} {ea : W} {loc : Loc} {acc : Option Loc × Nat} {st : St}
    (h : st.rdLoc loc &&& 1#64 = 0#64) : pteCb L ea loc acc st = .ok ((false, (none, eInvalidMapping)), st) := by
  have : hasFlags (st.rdLoc loc) fPresent = false := by
    cases hf : hasFlags (st.rdLoc loc) fPresent
    · rfl
    · exact absurd h ((hasFlags_present _).1 hf)
  simp [pteCb, this]

/-- outcome of `pteForAddress`'s walk, related to what the hardware finds -/
def PteRes (st : St) (va : W) (r : Option Loc × Nat) (acc2 : Nat) : Option W → Prop
  | some pa => ∃ loc, r = (some loc, acc2) ∧ (st.rdLoc loc &&& hwMask) + (va &&& 0xfff#64) = pa
  | none => r = (none, eInvalidMapping)

theorem pte_walk3 {st : St} {R : W} (hw : Window st R) (va : W) (hs : Sane st.mem R va) (T : W)
    (hc : Chain st.mem R va 3 T) (acc : Option Loc × Nat) :
    ∃ r, walkFrom pteCb va [3] (tableVA va 3) acc st = .ok (r, st) ∧
      PteRes st va r acc.2 (mmuWalk st.mem va [12] T) := by
  have hb := (hs 3 T (by omega) hc).1
  have hp := ptePtr_E hw va 3 T (by omega) hc hb
  rw [walkFrom_step _ _ _ _ _ _ _ hp]
  rcases and_one_cases (st.mem.rd (frameN T) (kidx va 3)) with h | h
  · rw [pteCb_absent (by exact h), mmuWalk_absent (by rw [(hwIdx_va va).2.2.2]; exact h)]
    exact ⟨_, rfl, rfl⟩
  · have hne : st.mem.rd (frameN T) (kidx va 3) &&& 1#64 ≠ 0#64 := by rw [h]; decide
    rw [pteCb_present (by exact hne), mmuWalk_final hb (by rw [(hwIdx_va va).2.2.2]; exact hne), (hwIdx_va va).2.2.2]
    exact ⟨_, rfl, _, rfl, rfl⟩

theorem pte_walk2 {st : St} {R : W} (hw : Window st R) (va : W) (hs : Sane st.mem R va) (T : W)
    (hc : Chain st.mem R va 2 T) (acc : Option Loc × Nat) :
    ∃ r, walkFrom pteCb va [2, 3] (tableVA va 2) acc st = .ok (r, st) ∧
      PteRes st va r acc.2 (mmuWalk st.mem va [21, 12] T) := by
  have hb := (hs 2 T (by omega) hc).1
  have hp := ptePtr_E hw va 2 T (by omega) hc hb
  rw [walkFrom_step _ _ _ _ _ _ _ hp]
  rcases and_one_cases (st.mem.rd (frameN T) (kidx va 2)) with h | h
  · rw [pteCb_absent (by exact h), mmuWalk_absent (by rw [(hwIdx_va va).2.2.1]; exact h)]
    exact ⟨_, rfl, rfl⟩
  · have hne : st.mem.rd (frameN T) (kidx va 2) &&& 1#64 ≠ 0#64 := by rw [h]; decide
    have l : Link st.mem T (kidx va 2) (st.mem.rd (frameN T) (kidx va 2) &&& hwMask) :=
      ⟨hb, hne, (hs 2 T (by omega) hc).2 (by omega), rfl⟩
    rw [pteCb_present (by exact hne), mmuWalk_link (by rw [(hwIdx_va va).2.2.1]; exact l)]
    exact pte_walk3 hw va hs _ ⟨T, hc, l⟩ _

theorem pte_walk1 {st : St} {R : W} (hw : Window st R) (va : W) (hs : Sane st.mem R va) (T : W)
    (hc : Chain st.mem R va 1 T) (acc : Option Loc × Nat) :
    ∃ r, walkFrom pteCb va [1, 2, 3] (tableVA va 1) acc st = .ok (r, st) ∧
      PteRes st va r acc.2 (mmuWalk st.mem va [30, 21, 12] T) := by
  have hb := (hs 1 T (by omega) hc).1
  have hp := ptePtr_E hw va 1 T (by omega) hc hb
  rw [walkFrom_step _ _ _ _ _ _ _ hp]
  rcases and_one_cases (st.mem.rd (frameN T) (kidx va 1)) with h | h
  · rw [pteCb_absent (by exact h), mmuWalk_absent (by rw [(hwIdx_va va).2.1]; exact h)]
    exact ⟨_, rfl, rfl⟩
  · have hne : st.mem.rd (frameN T) (kidx va 1) &&& 1#64 ≠ 0#64 := by rw [h]; decide
    have l : Link st.mem T (kidx va 1) (st.mem.rd (frameN T) (kidx va 1) &&& hwMask) :=
      ⟨hb, hne, (hs 1 T (by omega) hc).2 (by omega), rfl⟩
    rw [pteCb_present (by exact hne), mmuWalk_link (by rw [(hwIdx_va va).2.1]; exact l)]
    exact pte_walk2 hw va hs _ ⟨T, hc, l⟩ _

theorem pte_walk0 {st : St} {R : W} (hw : Window st R) (va : W) (hs : Sane st.mem R va)
    (acc : Option Loc × Nat) :
    ∃ r, walkFrom pteCb va [0, 1, 2, 3] (tableVA va 0) acc st = .ok (r, st) ∧
      PteRes st va r acc.2 (mmuWalk st.mem va [39, 30, 21, 12] R) := by
  have hc : Chain st.mem R va 0 R := rfl
  have hb := (hs 0 R (by omega) hc).1
  have hp := ptePtr_E hw va 0 R (by omega) hc hb
  rw [walkFrom_step _ _ _ _ _ _ _ hp]
  rcases and_one_cases (st.mem.rd (frameN R) (kidx va 0)) with h | h
  · rw [pteCb_absent (by exact h), mmuWalk_absent (by rw [(hwIdx_va va).1]; exact h)]
    exact ⟨_, rfl, rfl⟩
  · have hne : st.mem.rd (frameN R) (kidx va 0) &&& 1#64 ≠ 0#64 := by rw [h]; decide
    have l : Link st.mem R (kidx va 0) (st.mem.rd (frameN R) (kidx va 0) &&& hwMask) :=
      ⟨hb, hne, (hs 0 R (by omega) hc).2 (by omega), rfl⟩
    rw [pteCb_present (by exact hne), mmuWalk_link (by rw [(hwIdx_va va).1]; exact l)]
    exact pte_walk1 hw va hs _ ⟨R, hc, l⟩ _

/-- `Translate` through the recursive window returns exactly what the hardware walk from `R` finds -/
theorem translate_eq_hw {st : St} {R : W} (hw : Window st R) (va : W) (hs : Sane st.mem R va) :
    translate st va =
      .ok ((match mmuWalk st.mem va [39, 30, 21, 12] R with
            | some pa => (0, pa)
            | none => (eInvalidMapping, 0)), st) := by
  obtain ⟨r, hr, hres⟩ := pte_walk0 hw va hs (none, 0)
  unfold translate
  rw [walk_eq, hr]
  cases hm : mmuWalk st.mem va [39, 30, 21, 12] R with
  | none =>
    rw [hm] at hres; simp only [PteRes] at hres; subst hres
    simp [eInvalidMapping]
  | some pa =>
    rw [hm] at hres; obtain ⟨loc, rfl, hpa⟩ := hres
    simp [frameAddr_frameOf, pageOffset_eq, hpa]

end Firefly.Vmm
