import Firefly.Proof.AmlPasses
/-!
`mergeScopeDirectives`: never a panic, the pool stays well-formed.  The pass frees objects while the walk holds
saved sibling indices, and its `append` has no dynamic guard: the contract "the target is not inside the moved
subtree" follows from a property of `Find` proved here (a lookup never descends through an object whose name
starts with a zero byte — a `Scope` directive is never named).
-/
namespace Firefly.AmlParser
open Firefly.AmlLex Firefly.AmlTree Firefly.C13 Firefly.AmlTree.ObjectTree
open Firefly.Gen.C12

/-! ## `Find` does not enter an unnamed object -/

theorem isNameStart_ne_zero {b : UInt8} (h : isNameStart b = true) : b ≠ 0 := by
  intro e; subst e; revert h; decide

/-- the prefix-skipping loop stops at a name-start byte or at the end of the expression -/
theorem skipPrefix_stop (expr : List UInt8) : ∀ (f seg : Nat), expr.length ≤ seg + f →
    ∀ b, expr[skipPrefix expr f seg]? = some b → isNameStart b = true := by
  intro f
  induction f with
  | zero =>
    intro seg hle b hb
    simp only [skipPrefix] at hb
    have : expr[seg]? = none := List.getElem?_eq_none (by omega)
    rw [this] at hb; cases hb
  | succ f ih =>
    intro seg hle b hb
    unfold skipPrefix at hb
    cases hs : expr[seg]? with
    | none => rw [hs] at hb; simp only at hb; rw [hs] at hb; cases hb
    | some c =>
      rw [hs] at hb
      simp only at hb
      by_cases hc : isNameStart c = true
      · rw [if_pos hc] at hb; rw [hs] at hb; cases hb; exact hc
      · rw [if_neg hc] at hb
        exact ih _ (by split <;> omega) b hb

/-- a four-byte window that starts with a non-zero byte does not match a name that starts with zero -/
theorem matchName_b0 {expr : List UInt8} {seg : Nat} {nm : Name} {b : UInt8} (he : expr[seg]? = some b) (hb : b ≠ 0)
    (hn : nm.b0 = 0) {r : Bool} (h : matchName expr seg nm [0, 1, 2, 3] = .ok r) : r = false := by
  unfold matchName at h
  have he' : expr[seg + 0]? = some b := by simpa using he
  rw [he'] at h
  simp only [Name.get, hn] at h
  rw [if_pos hb] at h
  cases h; rfl

/-- a hit of the sibling scan: a live sibling of the start whose name does not start with zero -/
theorem scanSiblings_hit {t : ObjectTree} (w : WF t) {expr : List UInt8} {seg : Nat} {b : UInt8} (he : expr[seg]? = some b)
    (hb : b ≠ 0) : ∀ (f i j : Nat) (o : Obj), i = INV ∨ live t i = true →
    scanSiblings t expr seg f i = .ok (some (j, o)) →
    live t j = true ∧ C13.P t j = C13.P t i ∧ (slot t j).name.b0 ≠ 0 ∧ o = slot t j := by
  intro f
  induction f with
  | zero =>
    intro i j o _ h
    unfold scanSiblings at h
    split at h <;> cases h
  | succ f ih =>
    intro i j o hi h
    unfold scanSiblings at h
    by_cases h0 : i = InvalidIndex
    · rw [if_pos h0] at h; cases h
    · rw [if_neg h0] at h
      have hl : live t i = true := by
        rcases hi with h1 | h1
        · exact absurd h1 h0
        · exact h1
      simp only [objectAt_live hl, deref_some, obj_eq (live_lt hl), bind, Except.bind] at h
      cases hm : matchName expr seg (slot t i).name [0, 1, 2, 3] with
      | error e => rw [hm] at h; cases h
      | ok r =>
        rw [hm] at h
        simp only at h
        cases r with
        | true =>
          simp only [if_true, pure, Except.pure, Except.ok.injEq, Option.some.injEq, Prod.mk.injEq] at h
          obtain ⟨rfl, rfl⟩ := h
          refine ⟨hl, rfl, ?_, rfl⟩
          intro hn
          have := matchName_b0 he hb hn hm
          cases this
        | false =>
          simp only [Bool.false_eq_true, if_false] at h
          have l := w.lP hl
          have hnx : Nx t i = INV ∨ live t (Nx t i) = true := l.lnx
          obtain ⟨q1, q2, q3, q4⟩ := ih (Nx t i) j o hnx h
          refine ⟨q1, ?_, q3, q4⟩
          rw [q2]
          have hne : Nx t i ≠ INV := by
            intro e
            have : (slot t i).nextSiblingIndex = InvalidIndex := e
            rw [this] at h
            cases f <;> simp [scanSiblings] at h
          exact (l.nx hne).2

/-- a live child of `cur` other than `S` is outside the subtree of `S` when `cur` is -/
theorem not_anc_child {t : ObjectTree} (w : WF t) {S cur j : Nat} (hj : live t j = true) (hp : C13.P t j = cur)
    (hne : j ≠ S) (hc : ¬ anc t S cur) : ¬ anc t S j := by
  rw [w.anc_step hj hne, hp]; exact hc

theorem findRelativeLoop_avoid {t : ObjectTree} (w : WF t) (expr : List UInt8) {S : Nat}
    (hS : (slot t S).name.b0 = 0) : ∀ (n cur seg r : Nat), live t cur = true → ¬ anc t S cur →
    findRelativeLoop t expr n cur seg = .ok r → r ≠ INV → live t r = true ∧ ¬ anc t S r := by
  intro n
  induction n with
  | zero =>
    intro cur seg r hl hc h hr
    unfold findRelativeLoop at h
    split at h
    · cases h
    · cases h; exact ⟨hl, hc⟩
  | succ n ih =>
    intro cur seg r hl hc h hr
    unfold findRelativeLoop at h
    by_cases hlt : seg < expr.length
    · rw [if_pos hlt] at h
      simp only at h
      by_cases h4 : expr.length - skipPrefix expr expr.length seg < AmlTree.amlNameLen
      · rw [if_pos h4] at h; cases h; exact absurd rfl hr
      · rw [if_neg h4] at h
        simp only [objectAt_live hl, deref_some, obj_eq (live_lt hl), bind, Except.bind] at h
        have hlen : skipPrefix expr expr.length seg < expr.length := by
          have : AmlTree.amlNameLen = 4 := rfl
          omega
        have hget : expr[skipPrefix expr expr.length seg]? = some (expr[skipPrefix expr expr.length seg]'hlen) :=
          List.getElem?_eq_getElem hlen
        have hb := isNameStart_ne_zero (skipPrefix_stop expr expr.length seg (by omega) _ hget)
        cases hsc : scanSiblings t expr (skipPrefix expr expr.length seg) t.fuel (slot t cur).firstArgIndex with
        | error e => rw [hsc] at h; cases h
        | ok res =>
          rw [hsc] at h
          simp only at h
          cases res with
          | none => simp only [pure, Except.pure] at h; cases h; exact absurd rfl hr
          | some p =>
            obtain ⟨j, o⟩ := p
            simp only at h
            have l := w.lP hl
            have hfi : Fi t cur = INV ∨ live t (Fi t cur) = true := l.lfi
            obtain ⟨q1, q2, q3, _⟩ := scanSiblings_hit w hget hb t.fuel (Fi t cur) j o hfi hsc
            have hfne : Fi t cur ≠ INV := by
              intro e
              have : (slot t cur).firstArgIndex = InvalidIndex := e
              rw [this] at hsc
              simp [scanSiblings, ObjectTree.fuel] at hsc
            have hpj : C13.P t j = cur := by rw [q2]; exact (l.fi hfne).1
            have hjS : j ≠ S := fun e => q3 (by rw [e]; exact hS)
            exact ih j _ r q1 (not_anc_child w q1 hpj hjS hc) h hr
    · rw [if_neg hlt] at h
      cases h; exact ⟨hl, hc⟩

/-- the parent of a node outside the subtree of `S` is outside it -/
theorem not_anc_parent {t : ObjectTree} (w : WF t) {S x : Nat} (hx : live t x = true) (hc : ¬ anc t S x) :
    ¬ anc t S (C13.P t x) := by
  intro ha
  apply hc
  by_cases hxs : x = S
  · rw [hxs]; exact w.anc_self (by rw [← hxs]; exact hx)
  · rw [w.anc_step hx hxs]; exact ha

theorem findCarets_avoid {t : ObjectTree} (w : WF t) {S : Nat} (hS : (slot t S).name.b0 = 0) :
    ∀ (rest : List UInt8) (scope r : Nat), live t scope = true → ¬ anc t S scope →
    findCarets t scope rest = .ok r → r ≠ INV → live t r = true ∧ ¬ anc t S r := by
  intro rest
  induction rest with
  | nil =>
    intro scope r hl hc h hr
    unfold findCarets at h
    cases h; exact ⟨hl, hc⟩
  | cons b rest ih =>
    intro scope r hl hc h hr
    unfold findCarets at h
    by_cases hb : b = 0x5e
    · rw [if_pos hb] at h
      simp only [objectAt_live hl, deref_some, obj_eq (live_lt hl), bind, Except.bind] at h
      by_cases hp : (slot t scope).parentIndex = InvalidIndex
      · rw [if_pos hp] at h; simp only [pure, Except.pure] at h; cases h; exact absurd rfl hr
      · rw [if_neg hp] at h
        have hpl : live t (C13.P t scope) = true := by
          rcases (w.lP hl).lp with h1 | h1
          · exact absurd h1 hp
          · exact h1
        exact ih _ r hpl (not_anc_parent w hl hc) h hr
    · rw [if_neg hb] at h
      exact findRelativeLoop_avoid w _ hS _ _ _ r hl hc h hr

theorem findUpward_avoid {t : ObjectTree} (w : WF t) {S : Nat} (hS : (slot t S).name.b0 = 0) (expr : List UInt8)
    {b : UInt8} (he : expr[0]? = some b) (hb : b ≠ 0) :
    ∀ (f scope r : Nat), scope = INV ∨ (live t scope = true ∧ ¬ anc t S scope) →
    findUpward t expr f scope = .ok r → r ≠ INV → live t r = true ∧ ¬ anc t S r := by
  intro f
  induction f with
  | zero =>
    intro scope r _ h hr
    unfold findUpward at h
    split at h
    · cases h; exact absurd rfl hr
    · cases h
  | succ f ih =>
    intro scope r hs h hr
    unfold findUpward at h
    by_cases h0 : scope = InvalidIndex
    · rw [if_pos h0] at h; cases h; exact absurd rfl hr
    · rw [if_neg h0] at h
      obtain ⟨hl, hc⟩ : live t scope = true ∧ ¬ anc t S scope := by
        rcases hs with h1 | h1
        · exact absurd h1 h0
        · exact h1
      simp only [objectAt_live hl, deref_some, obj_eq (live_lt hl), bind, Except.bind] at h
      cases hsc : scanSiblings t expr 0 t.fuel (slot t scope).firstArgIndex with
      | error e => rw [hsc] at h; cases h
      | ok res =>
        rw [hsc] at h
        simp only at h
        have l := w.lP hl
        cases res with
        | some p =>
          obtain ⟨j, o⟩ := p
          simp only [pure, Except.pure, Except.ok.injEq] at h
          obtain ⟨q1, q2, q3, q4⟩ := scanSiblings_hit w he hb t.fuel (Fi t scope) j o l.lfi hsc
          have hfne : Fi t scope ≠ INV := by
            intro e
            have : (slot t scope).firstArgIndex = InvalidIndex := e
            rw [this] at hsc
            simp [scanSiblings, ObjectTree.fuel] at hsc
          have hpj : C13.P t j = scope := by rw [q2]; exact (l.fi hfne).1
          have hjS : j ≠ S := fun e => q3 (by rw [e]; exact hS)
          have hidx : o.index = j := by rw [q4]; exact w.index_eq j (live_lt q1)
          rw [← h, hidx]
          exact ⟨q1, not_anc_child w q1 hpj hjS hc⟩
        | none =>
          simp only at h
          refine ih _ r ?_ h hr
          by_cases hp : C13.P t scope = INV
          · exact Or.inl hp
          · right
            refine ⟨?_, not_anc_parent w hl hc⟩
            rcases l.lp with h1 | h1
            · exact absurd h1 hp
            · exact h1

/-- only a root itself is an ancestor-or-self of it -/
theorem not_anc_root {t : ObjectTree} (w : WF t) {S x : Nat} (hx : C13.P t x = INV) (hne : x ≠ S) : ¬ anc t S x := by
  rintro ⟨l, hc, hm⟩
  cases l with
  | nil => cases hm
  | cons y ys =>
    obtain ⟨rfl, _, hc'⟩ := hc
    rw [hx] at hc'
    cases ys with
    | nil =>
      rcases List.mem_cons.1 hm with e | e
      · exact hne e.symm
      · cases e
    | cons z zs =>
      obtain ⟨hz, hzl, _⟩ := hc'
      exact live_ne_INV w.size_le hzl hz.symm

/-- **`Find` does not enter an unnamed object.**  If the name of `S` starts with a zero byte and the search starts
outside the subtree of `S` (and so does the root), the result is outside the subtree of `S` (an expression of
exactly one segment must not start with a zero byte). -/
theorem find_avoid {t : ObjectTree} (w : WF t) (hroot : live t 0 = true) {S : Nat} (hS : (slot t S).name.b0 = 0)
    (h0 : ¬ anc t S 0)
    (scope : Nat) (hs : scope = INV ∨ (live t scope = true ∧ ¬ anc t S scope)) (expr : List UInt8)
    (he : expr.length = 4 → ∀ b, expr[0]? = some b → b ≠ 0) (r : Nat) (h : t.Find scope expr = .ok r) (hr : r ≠ INV) :
    live t r = true ∧ ¬ anc t S r := by
  unfold ObjectTree.Find at h
  cases expr with
  | nil => cases h; exact absurd rfl hr
  | cons b rest =>
    simp only at h
    by_cases hsi : scope = InvalidIndex
    · rw [if_pos hsi] at h; cases h; exact absurd rfl hr
    · rw [if_neg hsi] at h
      obtain ⟨hl, hc⟩ : live t scope = true ∧ ¬ anc t S scope := by
        rcases hs with h1 | h1
        · exact absurd h1 hsi
        · exact h1
      by_cases hb1 : b = 0x5c
      · rw [if_pos hb1] at h
        by_cases hre : rest.isEmpty = true
        · rw [if_pos hre] at h; cases h; exact ⟨hroot, h0⟩
        · rw [if_neg hre] at h
          exact findRelativeLoop_avoid w _ hS _ _ _ r hroot h0 h hr
      · rw [if_neg hb1] at h
        by_cases hb2 : b = 0x5e
        · rw [if_pos hb2] at h
          exact findCarets_avoid w hS _ scope r hl hc h hr
        · rw [if_neg hb2] at h
          by_cases hlen : (b :: rest).length > AmlTree.amlNameLen
          · rw [if_pos hlen] at h
            exact findRelativeLoop_avoid w _ hS _ _ _ r hl hc h hr
          · rw [if_neg hlen] at h
            by_cases hlen4 : (b :: rest).length = AmlTree.amlNameLen
            · rw [if_pos hlen4] at h
              have hb0 := he hlen4 b (by simp)
              exact findUpward_avoid w hS (b :: rest) (by simp) hb0 _ scope r (Or.inr ⟨hl, hc⟩) h hr
            · rw [if_neg hlen4] at h; cases h; exact absurd rfl hr

end Firefly.AmlParser
