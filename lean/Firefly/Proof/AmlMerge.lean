import Firefly.Proof.AmlPasses
import Firefly.Proof.AmlMethodInv
import Firefly.Model.AmlShapes
/-!
`mergeScopeDirectives`: never a panic, the pool stays well-formed.  The pass frees objects while the walk holds
saved sibling indices, and its `append` has no dynamic guard: the contract "the target is not inside the moved
subtree" follows from a property of `Find` proved here (a lookup never descends through an object whose name
starts with a zero byte — a `Scope` directive is never named).
-/
namespace Firefly.AmlParser
open Firefly.AmlLex Firefly.AmlTree Firefly.C13 Firefly.AmlTree.ObjectTree
open Firefly.Gen.C12

/-! ## `Find` does not enter an unnamed object -/

theorem isNameStart_ne_zero {b : UInt8} (h : isNameStart b = true) : b ≠ 0 := by
  intro e; subst e; revert h; decide

/-- the prefix-skipping loop stops at a name-start byte or at the end of the expression -/
theorem skipPrefix_stop (expr : List UInt8) : ∀ (f seg : Nat), expr.length ≤ seg + f →
    ∀ b, expr[skipPrefix expr f seg]? = some b → isNameStart b = true := by
  intro f
  induction f with
  | zero =>
    intro seg hle b hb
    simp only [skipPrefix] at hb
    have : expr[seg]? = none := List.getElem?_eq_none (by omega)
    rw [this] at hb; cases hb
  | succ f ih =>
    intro seg hle b hb
    unfold skipPrefix at hb
    cases hs : expr[seg]? with
    | none => rw [hs] at hb; simp only at hb; rw [hs] at hb; cases hb
    | some c =>
      rw [hs] at hb
      simp only at hb
      by_cases hc : isNameStart c = true
      · rw [if_pos hc] at hb; rw [hs] at hb; cases hb; exact hc
      · rw [if_neg hc] at hb
        exact ih _ (by split <;> omega) b hb

/-- a four-byte window that starts with a non-zero byte does not match a name that starts with zero -/
theorem matchName_b0 {expr : List UInt8} {seg : Nat} {nm : Name} {b : UInt8} (he : expr[seg]? = some b) (hb : b ≠ 0)
    (hn : nm.b0 = 0) {r : Bool} (h : matchName expr seg nm [0, 1, 2, 3] = .ok r) : r = false := by
  unfold matchName at h
  have he' : expr[seg + 0]? = some b := by simpa using he
  rw [he'] at h
  simp only [Name.get, hn] at h
  rw [if_pos hb] at h
  cases h; rfl

/-- a hit of the sibling scan: a live sibling of the start whose name does not start with zero -/
theorem scanSiblings_hit {t : ObjectTree} (w : WF t) {expr : List UInt8} {seg : Nat} {b : UInt8} (he : expr[seg]? = some b)
    (hb : b ≠ 0) : ∀ (f i j : Nat) (o : Obj), i = INV ∨ live t i = true →
    scanSiblings t expr seg f i = .ok (some (j, o)) →
    live t j = true ∧ C13.P t j = C13.P t i ∧ (slot t j).name.b0 ≠ 0 ∧ o = slot t j := by
  intro f
  induction f with
  | zero =>
    intro i j o _ h
    unfold scanSiblings at h
    split at h <;> cases h
  | succ f ih =>
    intro i j o hi h
    unfold scanSiblings at h
    by_cases h0 : i = InvalidIndex
    · rw [if_pos h0] at h; cases h
    · rw [if_neg h0] at h
      have hl : live t i = true := by
        rcases hi with h1 | h1
        · exact absurd h1 h0
        · exact h1
      simp only [objectAt_live hl, deref_some, obj_eq (live_lt hl), bind, Except.bind] at h
      cases hm : matchName expr seg (slot t i).name [0, 1, 2, 3] with
      | error e => rw [hm] at h; cases h
      | ok r =>
        rw [hm] at h
        simp only at h
        cases r with
        | true =>
          simp only [if_true, pure, Except.pure, Except.ok.injEq, Option.some.injEq, Prod.mk.injEq] at h
          obtain ⟨rfl, rfl⟩ := h
          refine ⟨hl, rfl, ?_, rfl⟩
          intro hn
          have := matchName_b0 he hb hn hm
          cases this
        | false =>
          simp only [Bool.false_eq_true, if_false] at h
          have l := w.lP hl
          have hnx : Nx t i = INV ∨ live t (Nx t i) = true := l.lnx
          obtain ⟨q1, q2, q3, q4⟩ := ih (Nx t i) j o hnx h
          refine ⟨q1, ?_, q3, q4⟩
          rw [q2]
          have hne : Nx t i ≠ INV := by
            intro e
            have : (slot t i).nextSiblingIndex = InvalidIndex := e
            rw [this] at h
            cases f <;> simp [scanSiblings] at h
          exact (l.nx hne).2

/-- a live child of `cur` other than `S` is outside the subtree of `S` when `cur` is -/
theorem not_anc_child {t : ObjectTree} (w : WF t) {S cur j : Nat} (hj : live t j = true) (hp : C13.P t j = cur)
    (hne : j ≠ S) (hc : ¬ anc t S cur) : ¬ anc t S j := by
  rw [w.anc_step hj hne, hp]; exact hc

theorem findRelativeLoop_avoid {t : ObjectTree} (w : WF t) (expr : List UInt8) {S : Nat}
    (hS : (slot t S).name.b0 = 0) : ∀ (n cur seg r : Nat), live t cur = true → ¬ anc t S cur →
    findRelativeLoop t expr n cur seg = .ok r → r ≠ INV → live t r = true ∧ ¬ anc t S r := by
  intro n
  induction n with
  | zero =>
    intro cur seg r hl hc h hr
    unfold findRelativeLoop at h
    split at h
    · cases h
    · cases h; exact ⟨hl, hc⟩
  | succ n ih =>
    intro cur seg r hl hc h hr
    unfold findRelativeLoop at h
    by_cases hlt : seg < expr.length
    · rw [if_pos hlt] at h
      simp only at h
      by_cases h4 : expr.length - skipPrefix expr expr.length seg < AmlTree.amlNameLen
      · rw [if_pos h4] at h; cases h; exact absurd rfl hr
      · rw [if_neg h4] at h
        simp only [objectAt_live hl, deref_some, obj_eq (live_lt hl), bind, Except.bind] at h
        have hlen : skipPrefix expr expr.length seg < expr.length := by
          have : AmlTree.amlNameLen = 4 := rfl
          omega
        have hget : expr[skipPrefix expr expr.length seg]? = some (expr[skipPrefix expr expr.length seg]'hlen) :=
          List.getElem?_eq_getElem hlen
        have hb := isNameStart_ne_zero (skipPrefix_stop expr expr.length seg (by omega) _ hget)
        cases hsc : scanSiblings t expr (skipPrefix expr expr.length seg) t.fuel (slot t cur).firstArgIndex with
        | error e => rw [hsc] at h; cases h
        | ok res =>
          rw [hsc] at h
          simp only at h
          cases res with
          | none => simp only [pure, Except.pure] at h; cases h; exact absurd rfl hr
          | some p =>
            obtain ⟨j, o⟩ := p
            simp only at h
            have l := w.lP hl
            have hfi : Fi t cur = INV ∨ live t (Fi t cur) = true := l.lfi
            obtain ⟨q1, q2, q3, _⟩ := scanSiblings_hit w hget hb t.fuel (Fi t cur) j o hfi hsc
            have hfne : Fi t cur ≠ INV := by
              intro e
              have : (slot t cur).firstArgIndex = InvalidIndex := e
              rw [this] at hsc
              simp [scanSiblings, ObjectTree.fuel] at hsc
            have hpj : C13.P t j = cur := by rw [q2]; exact (l.fi hfne).1
            have hjS : j ≠ S := fun e => q3 (by rw [e]; exact hS)
            exact ih j _ r q1 (not_anc_child w q1 hpj hjS hc) h hr
    · rw [if_neg hlt] at h
      cases h; exact ⟨hl, hc⟩

/-- the parent of a node outside the subtree of `S` is outside it -/
theorem not_anc_parent {t : ObjectTree} (w : WF t) {S x : Nat} (hx : live t x = true) (hc : ¬ anc t S x) :
    ¬ anc t S (C13.P t x) := by
  intro ha
  apply hc
  by_cases hxs : x = S
  · rw [hxs]; exact w.anc_self (by rw [← hxs]; exact hx)
  · rw [w.anc_step hx hxs]; exact ha

theorem findCarets_avoid {t : ObjectTree} (w : WF t) {S : Nat} (hS : (slot t S).name.b0 = 0) :
    ∀ (rest : List UInt8) (scope r : Nat), live t scope = true → ¬ anc t S scope →
    findCarets t scope rest = .ok r → r ≠ INV → live t r = true ∧ ¬ anc t S r := by
  intro rest
  induction rest with
  | nil =>
    intro scope r hl hc h hr
    unfold findCarets at h
    cases h; exact ⟨hl, hc⟩
  | cons b rest ih =>
    intro scope r hl hc h hr
    unfold findCarets at h
    by_cases hb : b = 0x5e
    · rw [if_pos hb] at h
      simp only [objectAt_live hl, deref_some, obj_eq (live_lt hl), bind, Except.bind] at h
      by_cases hp : (slot t scope).parentIndex = InvalidIndex
      · rw [if_pos hp] at h; simp only [pure, Except.pure] at h; cases h; exact absurd rfl hr
      · rw [if_neg hp] at h
        have hpl : live t (C13.P t scope) = true := by
          rcases (w.lP hl).lp with h1 | h1
          · exact absurd h1 hp
          · exact h1
        exact ih _ r hpl (not_anc_parent w hl hc) h hr
    · rw [if_neg hb] at h
      exact findRelativeLoop_avoid w _ hS _ _ _ r hl hc h hr

theorem findUpward_avoid {t : ObjectTree} (w : WF t) {S : Nat} (hS : (slot t S).name.b0 = 0) (expr : List UInt8)
    {b : UInt8} (he : expr[0]? = some b) (hb : b ≠ 0) :
    ∀ (f scope r : Nat), scope = INV ∨ (live t scope = true ∧ ¬ anc t S scope) →
    findUpward t expr f scope = .ok r → r ≠ INV → live t r = true ∧ ¬ anc t S r := by
  intro f
  induction f with
  | zero =>
    intro scope r _ h hr
    unfold findUpward at h
    split at h
    · cases h; exact absurd rfl hr
    · cases h
  | succ f ih =>
    intro scope r hs h hr
    unfold findUpward at h
    by_cases h0 : scope = InvalidIndex
    · rw [if_pos h0] at h; cases h; exact absurd rfl hr
    · rw [if_neg h0] at h
      obtain ⟨hl, hc⟩ : live t scope = true ∧ ¬ anc t S scope := by
        rcases hs with h1 | h1
        · exact absurd h1 h0
        · exact h1
      simp only [objectAt_live hl, deref_some, obj_eq (live_lt hl), bind, Except.bind] at h
      cases hsc : scanSiblings t expr 0 t.fuel (slot t scope).firstArgIndex with
      | error e => rw [hsc] at h; cases h
      | ok res =>
        rw [hsc] at h
        simp only at h
        have l := w.lP hl
        cases res with
        | some p =>
          obtain ⟨j, o⟩ := p
          simp only [pure, Except.pure, Except.ok.injEq] at h
          obtain ⟨q1, q2, q3, q4⟩ := scanSiblings_hit w he hb t.fuel (Fi t scope) j o l.lfi hsc
          have hfne : Fi t scope ≠ INV := by
            intro e
            have : (slot t scope).firstArgIndex = InvalidIndex := e
            rw [this] at hsc
            simp [scanSiblings, ObjectTree.fuel] at hsc
          have hpj : C13.P t j = scope := by rw [q2]; exact (l.fi hfne).1
          have hjS : j ≠ S := fun e => q3 (by rw [e]; exact hS)
          have hidx : o.index = j := by rw [q4]; exact w.index_eq j (live_lt q1)
          rw [← h, hidx]
          exact ⟨q1, not_anc_child w q1 hpj hjS hc⟩
        | none =>
          simp only at h
          refine ih _ r ?_ h hr
          by_cases hp : C13.P t scope = INV
          · exact Or.inl hp
          · right
            refine ⟨?_, not_anc_parent w hl hc⟩
            rcases l.lp with h1 | h1
            · exact absurd h1 hp
            · exact h1

/-- only a root itself is an ancestor-or-self of it -/
theorem not_anc_root {t : ObjectTree} (w : WF t) {S x : Nat} (hx : C13.P t x = INV) (hne : x ≠ S) : ¬ anc t S x := by
  rintro ⟨l, hc, hm⟩
  cases l with
  | nil => cases hm
  | cons y ys =>
    obtain ⟨rfl, _, hc'⟩ := hc
    rw [hx] at hc'
    cases ys with
    | nil =>
      rcases List.mem_cons.1 hm with e | e
      · exact hne e.symm
      · cases e
    | cons z zs =>
      obtain ⟨hz, hzl, _⟩ := hc'
      exact live_ne_INV w.size_le hzl hz.symm

/-- **`Find` does not enter an unnamed object.**  If the name of `S` starts with a zero byte and the search starts
outside the subtree of `S` (and so does the root), the result is outside the subtree of `S` (an expression of
exactly one segment must not start with a zero byte). -/
theorem find_avoid {t : ObjectTree} (w : WF t) (hroot : live t 0 = true) {S : Nat} (hS : (slot t S).name.b0 = 0)
    (h0 : ¬ anc t S 0)
    (scope : Nat) (hs : scope = INV ∨ (live t scope = true ∧ ¬ anc t S scope)) (expr : List UInt8)
    (he : expr.length = 4 → ∀ b, expr[0]? = some b → b ≠ 0) (r : Nat) (h : t.Find scope expr = .ok r) (hr : r ≠ INV) :
    live t r = true ∧ ¬ anc t S r := by
  unfold ObjectTree.Find at h
  cases expr with
  | nil => cases h; exact absurd rfl hr
  | cons b rest =>
    simp only at h
    by_cases hsi : scope = InvalidIndex
    · rw [if_pos hsi] at h; cases h; exact absurd rfl hr
    · rw [if_neg hsi] at h
      obtain ⟨hl, hc⟩ : live t scope = true ∧ ¬ anc t S scope := by
        rcases hs with h1 | h1
        · exact absurd h1 hsi
        · exact h1
      by_cases hb1 : b = 0x5c
      · rw [if_pos hb1] at h
        by_cases hre : rest.isEmpty = true
        · rw [if_pos hre] at h; cases h; exact ⟨hroot, h0⟩
        · rw [if_neg hre] at h
          exact findRelativeLoop_avoid w _ hS _ _ _ r hroot h0 h hr
      · rw [if_neg hb1] at h
        by_cases hb2 : b = 0x5e
        · rw [if_pos hb2] at h
          exact findCarets_avoid w hS _ scope r hl hc h hr
        · rw [if_neg hb2] at h
          by_cases hlen : (b :: rest).length > AmlTree.amlNameLen
          · rw [if_pos hlen] at h
            exact findRelativeLoop_avoid w _ hS _ _ _ r hl hc h hr
          · rw [if_neg hlen] at h
            by_cases hlen4 : (b :: rest).length = AmlTree.amlNameLen
            · rw [if_pos hlen4] at h
              have hb0 := he hlen4 b (by simp)
              exact findUpward_avoid w hS (b :: rest) (by simp) hb0 _ scope r (Or.inr ⟨hl, hc⟩) h hr
            · rw [if_neg hlen4] at h; cases h; exact absurd rfl hr

/-! ## `free` as a step -/

/-- `free(y)` of a live childless object other than the root -/
theorem free_step {s : PState} (h : TP s) {y : Nat} (hl : live s.tree y = true) (hfi : Fi s.tree y = INV)
    (hla : La s.tree y = INV) (hy0 : y ≠ 0) :
    ∃ s1, tree (·.free y) s = .ok ((), s1) ∧ TP s1 ∧ s1 = { s with tree := s1.tree } ∧
      s1.tree.pool.size = s.tree.pool.size ∧
      (∀ x, live s1.tree x = (live s.tree x && decide (x ≠ y))) ∧
      (∀ x, x ≠ y → Pay (slot s1.tree x) = Pay (slot s.tree x)) ∧
      (∀ x, x ≠ y → C13.P s1.tree x = C13.P s.tree x) ∧
      (∀ x, x ≠ y → Nx s1.tree x = if x = Pv s.tree y ∧ Pv s.tree y ≠ INV then Nx s.tree y else Nx s.tree x) ∧
      (∀ x, x ≠ y → live s.tree x = true →
        Fi s1.tree x = (if x = C13.P s.tree y ∧ Fi s.tree x = y then Nx s.tree y else Fi s.tree x) ∧
        La s1.tree x = (if x = C13.P s.tree y ∧ La s.tree x = y then Pv s.tree y else La s.tree x)) := by
  have hpre : freePre s.tree y = true := by
    simp only [freePre, Bool.and_eq_true, decide_eq_true_eq]
    exact ⟨⟨hl, hfi⟩, hla⟩
  obtain ⟨t', e, w', hsz, hlive, _, _, t1, ht1, hsame⟩ := free_wf h.wf hpre
  have hroot : live t' 0 = true := by
    rw [hlive]; simp [h.root, Ne.symm hy0]
  rcases ht1 with ⟨hp, rfl⟩ | ⟨hp, hd⟩
  · -- a root of the forest: nothing to detach
    refine ⟨_, tree_ex e, ⟨w', hroot, ?_⟩, rfl, hsz, hlive, fun x hx => by rw [hsame x hx],
      fun x hx => by unfold C13.P; rw [hsame x hx], ?_, ?_⟩
    · intro x hx
      have hx' : live s.tree x = true ∧ x ≠ y := by
        have := hlive x; rw [hx] at this
        simp only [Bool.true_eq, Bool.and_eq_true, decide_eq_true_eq] at this; exact this
      show InfoOK (slot t' x).infoIndex
      rw [hsame x hx'.2]; exact h.info x hx'.1
    · intro x hx
      have hpv : Pv s.tree y = INV := ((h.wf.lP hl).det hp).1
      rw [if_neg (fun hc => hc.2 hpv)]
      unfold Nx; rw [hsame x hx]
    · intro x hx hxl
      have hne : x ≠ C13.P s.tree y := by rw [hp]; exact live_ne_INV h.wf.size_le hxl
      rw [if_neg (fun hc => hne hc.1), if_neg (fun hc => hne hc.1)]
      unfold Fi La; rw [hsame x hx]; exact ⟨rfl, rfl⟩
  · have hpl : live s.tree (C13.P s.tree y) = true := by
      rcases (h.wf.lP hl).lp with h1 | h1
      · exact absurd h1 hp
      · exact h1
    have hdp : detachPre s.tree (C13.P s.tree y) y = true := by simp [detachPre, hpl, hl]
    obtain ⟨t2, he2, _, _, _, _, hP2, _, hNx2, hFi2, hLa2⟩ := detach_wf h.wf hdp
    have : t2 = t1 := by rw [he2] at hd; exact Except.ok.inj hd
    subst this
    have sp := detach_samePay he2
    refine ⟨_, tree_ex e, ⟨w', hroot, ?_⟩, rfl, hsz, hlive, fun x hx => by rw [hsame x hx]; exact sp.pay x, ?_, ?_, ?_⟩
    · intro x hx
      have hx' : live s.tree x = true ∧ x ≠ y := by
        have := hlive x; rw [hx] at this
        simp only [Bool.true_eq, Bool.and_eq_true, decide_eq_true_eq] at this; exact this
      show InfoOK (slot t' x).infoIndex
      rw [hsame x hx'.2]
      have hi : (slot t2 x).infoIndex = (slot s.tree x).infoIndex := congrArg (fun p => p.2.1) (sp.pay x)
      rw [hi]; exact h.info x hx'.1
    · intro x hx
      show C13.P t' x = _
      unfold C13.P; rw [hsame x hx]
      have := hP2 x; unfold C13.P at this; rw [this, if_neg hx]
    · intro x hx
      show Nx t' x = _
      unfold Nx; rw [hsame x hx]
      have := hNx2 x; unfold Nx at this; rw [this, if_neg hx]
    · intro x hx _
      constructor
      · show Fi t' x = _
        unfold Fi; rw [hsame x hx]
        have := hFi2 x; unfold Fi at this; rw [this]
        by_cases hxp : x = C13.P s.tree y
        · subst hxp; rfl
        · rw [if_neg (fun hc => hxp hc.1), if_neg (fun hc => hxp hc.1)]
      · show La t' x = _
        unfold La; rw [hsame x hx]
        have := hLa2 x; unfold La at this; rw [this]
        by_cases hxp : x = C13.P s.tree y
        · subst hxp; rfl
        · rw [if_neg (fun hc => hxp hc.1), if_neg (fun hc => hxp hc.1)]

/-! ## the ghost context of the walk: what was freed and moved so far lies inside the visited subtree -/

/-- nothing was created -/
structure Shr (s s' : PState) : Prop where
  size : s'.tree.pool.size = s.tree.pool.size
  live : ∀ x, live s'.tree x = true → live s.tree x = true
  handle : s'.tableHandle = s.tableHandle
  rs : s'.r = s.r ∧ s'.scopeStack = s.scopeStack ∧ s'.pkgEndStack = s.pkgEndStack ∧ s'.streamEnd = s.streamEnd

theorem Shr.refl (s : PState) : Shr s s := ⟨rfl, fun _ h => h, rfl, rfl, rfl, rfl, rfl⟩
theorem Shr.trans {a b c : PState} (h1 : Shr a b) (h2 : Shr b c) : Shr a c :=
  ⟨by rw [h2.size, h1.size], fun x hx => h1.live x (h2.live x hx), by rw [h2.handle, h1.handle],
   by rw [h2.rs.1, h1.rs.1], by rw [h2.rs.2.1, h1.rs.2.1], by rw [h2.rs.2.2.1, h1.rs.2.2.1], by rw [h2.rs.2.2.2, h1.rs.2.2.2]⟩
theorem Shr.ofMv {s s' : PState} (m : Mv s s') : Shr s s' := ⟨m.size, fun x hx => by rw [← m.live]; exact hx, m.handle, m.rs⟩

/-- relative to the state `s0` in which the visit of `X0` began, with `Mvd` the set of objects moved since:
everything freed and everything moved was inside the subtree of `X0`, and behind a moved object in a sibling
list there are only moved objects -/
structure Ctx (s0 : PState) (X0 : Nat) (Mvd : Nat → Prop) (s : PState) : Prop where
  shr : Shr s0 s
  freed : ∀ y, live s0.tree y = true → live s.tree y = false → anc s0.tree X0 y
  moved : ∀ y, live s.tree y = true → C13.P s.tree y ≠ C13.P s0.tree y → Mvd y
  inside : ∀ y, Mvd y → anc s0.tree X0 y
  nx : ∀ y, live s.tree y = true → Mvd y → Nx s.tree y = INV ∨ Mvd (Nx s.tree y)

theorem Ctx.refl (s : PState) (X0 : Nat) : Ctx s X0 (fun _ => False) s :=
  ⟨Shr.refl s, fun y h1 h2 => (by rw [h1] at h2; cases h2), fun y _ h => absurd rfl h, fun _ h => False.elim h,
   fun _ _ h => False.elim h⟩

/-- a payload-free change of the parser state (counters) keeps the context -/
theorem Ctx.ofTree {s0 s s' : PState} {X0 : Nat} {Mvd : Nat → Prop} (c : Ctx s0 X0 Mvd s) (ht : s'.tree = s.tree)
    (hh : s'.tableHandle = s.tableHandle)
    (hrs : s'.r = s.r ∧ s'.scopeStack = s.scopeStack ∧ s'.pkgEndStack = s.pkgEndStack ∧ s'.streamEnd = s.streamEnd) :
    Ctx s0 X0 Mvd s' :=
  ⟨⟨by rw [ht]; exact c.shr.size, fun x hx => c.shr.live x (by rw [← ht]; exact hx), by rw [hh]; exact c.shr.handle,
    by rw [hrs.1]; exact c.shr.rs.1, by rw [hrs.2.1]; exact c.shr.rs.2.1, by rw [hrs.2.2.1]; exact c.shr.rs.2.2.1,
    by rw [hrs.2.2.2]; exact c.shr.rs.2.2.2⟩,
   fun y h1 h2 => c.freed y h1 (by rw [← ht]; exact h2), fun y h1 h2 => c.moved y (by rw [← ht]; exact h1) (by rw [← ht]; exact h2),
   c.inside, fun y h1 h2 => by rw [ht]; exact c.nx y (by rw [← ht]; exact h1) h2⟩

/-- moving `m` (inside `X0`) keeps the context, with `m` added to the moved set -/
theorem Ctx.move {s0 s s2 : PState} {X0 : Nat} {Mvd : Nat → Prop} (c : Ctx s0 X0 Mvd s) (w : WF s.tree) (m2 : Mv s s2)
    {m T : Nat} (hm : live s.tree m = true) (hin : anc s0.tree X0 m)
    (hP : ∀ x, C13.P s2.tree x = if x = m then T else C13.P s.tree x)
    (hNx : ∀ x, Nx s2.tree x = if x = m then INV else if x = La s.tree T ∧ La s.tree T ≠ INV then m
      else if x = Pv s.tree m ∧ Pv s.tree m ≠ INV then Nx s.tree m else Nx s.tree x) :
    Ctx s0 X0 (fun y => Mvd y ∨ y = m) s2 := by
  refine ⟨c.shr.trans (Shr.ofMv m2), ?_, ?_, ?_, ?_⟩
  · intro y h1 h2
    exact c.freed y h1 (by rw [← m2.live]; exact h2)
  · intro y h1 h2
    by_cases hy : y = m
    · exact Or.inr hy
    · left
      rw [hP, if_neg hy] at h2
      exact c.moved y (by rw [← m2.live]; exact h1) h2
  · intro y hy
    rcases hy with hy | hy
    · exact c.inside y hy
    · rw [hy]; exact hin
  · intro y h1 hy
    have h1' : live s.tree y = true := by rw [← m2.live]; exact h1
    rw [hNx]
    by_cases hym : y = m
    · rw [if_pos hym]; exact Or.inl rfl
    · rw [if_neg hym]
      have hyM : Mvd y := by
        rcases hy with hy | hy
        · exact hy
        · exact absurd hy hym
      by_cases hla : y = La s.tree T ∧ La s.tree T ≠ INV
      · rw [if_pos hla]; exact Or.inr (Or.inr rfl)
      · rw [if_neg hla]
        by_cases hpv : y = Pv s.tree m ∧ Pv s.tree m ≠ INV
        · rw [if_pos hpv]
          -- `y` is the moved predecessor of `m`, so `m` was moved before, and so was what follows it
          have hnxy : Nx s.tree y = m := by
            have := ((w.lP hm).pv hpv.2).1
            rw [← hpv.1] at this; exact this
          have hmM : Mvd m := by
            rcases c.nx y h1' hyM with h0 | h0
            · rw [hnxy] at h0; exact absurd h0 (live_ne_INV w.size_le hm)
            · rw [hnxy] at h0; exact h0
          rcases c.nx m hm hmM with h0 | h0
          · exact Or.inl h0
          · exact Or.inr (Or.inl h0)
        · rw [if_neg hpv]
          rcases c.nx y h1' hyM with h0 | h0
          · exact Or.inl h0
          · exact Or.inr (Or.inl h0)

/-- freeing `y` (inside `X0`) keeps the context -/
theorem Ctx.free {s0 s s1 : PState} {X0 : Nat} {Mvd : Nat → Prop} (c : Ctx s0 X0 Mvd s) (w : WF s.tree)
    {y : Nat} (hy : live s.tree y = true) (hin : anc s0.tree X0 y)
    (hsz : s1.tree.pool.size = s.tree.pool.size) (hh : s1.tableHandle = s.tableHandle)
    (hrs : s1.r = s.r ∧ s1.scopeStack = s.scopeStack ∧ s1.pkgEndStack = s.pkgEndStack ∧ s1.streamEnd = s.streamEnd)
    (hlive : ∀ x, live s1.tree x = (live s.tree x && decide (x ≠ y)))
    (hP : ∀ x, x ≠ y → C13.P s1.tree x = C13.P s.tree x)
    (hNx : ∀ x, x ≠ y → Nx s1.tree x = if x = Pv s.tree y ∧ Pv s.tree y ≠ INV then Nx s.tree y else Nx s.tree x) :
    Ctx s0 X0 Mvd s1 := by
  have hl1 : ∀ x, live s1.tree x = true → live s.tree x = true ∧ x ≠ y := by
    intro x hx
    have := hlive x; rw [hx] at this
    simp only [Bool.true_eq, Bool.and_eq_true, decide_eq_true_eq] at this; exact this
  refine ⟨⟨by rw [hsz]; exact c.shr.size, fun x hx => c.shr.live x (hl1 x hx).1, by rw [hh]; exact c.shr.handle,
    by rw [hrs.1]; exact c.shr.rs.1, by rw [hrs.2.1]; exact c.shr.rs.2.1, by rw [hrs.2.2.1]; exact c.shr.rs.2.2.1,
    by rw [hrs.2.2.2]; exact c.shr.rs.2.2.2⟩, ?_, ?_, c.inside, ?_⟩
  · intro z h1 h2
    by_cases hz : live s.tree z = true
    · have hzy : z = y := by
        by_cases hzy : z = y
        · exact hzy
        · exfalso
          have := hlive z; rw [h2, hz] at this
          simp [hzy] at this
      rw [hzy]; exact hin
    · exact c.freed z h1 (by cases hq : live s.tree z with | false => rfl | true => exact absurd hq hz)
  · intro z h1 h2
    obtain ⟨hz, hzy⟩ := hl1 z h1
    rw [hP z hzy] at h2
    exact c.moved z hz h2
  · intro z h1 hzM
    obtain ⟨hz, hzy⟩ := hl1 z h1
    rw [hNx z hzy]
    by_cases hpv : z = Pv s.tree y ∧ Pv s.tree y ≠ INV
    · rw [if_pos hpv]
      have hnxz : Nx s.tree z = y := by
        have := ((w.lP hy).pv hpv.2).1
        rw [← hpv.1] at this; exact this
      have hyM : Mvd y := by
        rcases c.nx z hz hzM with h0 | h0
        · rw [hnxz] at h0; exact absurd h0 (live_ne_INV w.size_le hy)
        · rw [hnxz] at h0; exact h0
      exact c.nx y hy hyM
    · rw [if_neg hpv]
      exact c.nx z hz hzM

/-! ## more about ancestors -/

/-- the Boolean walk only answers "yes" for ancestors -/
theorem isAnc_anc {t : ObjectTree} (w : WF t) (a : Nat) : ∀ (f x : Nat), live t x = true →
    C13.isAncestorOrSelf t a f x = true → anc t a x := by
  intro f
  induction f with
  | zero => intro x _ h; simp [C13.isAncestorOrSelf] at h
  | succ f ih =>
    intro x hx h
    simp only [C13.isAncestorOrSelf, Bool.or_eq_true, decide_eq_true_eq, Bool.and_eq_true, ne_eq, decide_not,
      Bool.not_eq_true', decide_eq_false_iff_not] at h
    rcases h with h | ⟨hp, h⟩
    · rw [← h]; exact w.anc_self hx
    · have hpl : live t (C13.P t x) = true := by
        rcases (w.lP hx).lp with h0 | h0
        · exact absurd h0 hp
        · exact h0
      by_cases hxa : x = a
      · rw [← hxa]; exact w.anc_self hx
      · rw [w.anc_step hx hxa]; exact ih _ hpl h

/-- "not an ancestor" for the contract of `append` -/
theorem isAnc_false_of_not_anc {t : ObjectTree} (w : WF t) {a x : Nat} (hx : live t x = true) (h : ¬ anc t a x) (f : Nat) :
    C13.isAncestorOrSelf t a f x = false := by
  cases hq : C13.isAncestorOrSelf t a f x with
  | false => rfl
  | true => exact absurd (isAnc_anc w a f x hx hq) h

/-- the parent of an ancestor-or-self of `y` (if it has one) is an ancestor of `y` -/
theorem anc_parent {t : ObjectTree} {m y : Nat} (h : anc t m y) (hp : C13.P t m ≠ INV) : anc t (C13.P t m) y := by
  obtain ⟨l, hc, hm⟩ := h
  refine ⟨l, hc, ?_⟩
  induction l generalizing y with
  | nil => cases hm
  | cons z zs ih =>
    obtain ⟨rfl, hz, hc'⟩ := hc
    rcases List.mem_cons.1 hm with e | e
    · subst e
      cases zs with
      | nil => exact absurd hc' hp
      | cons u us =>
        obtain ⟨hu, _, _⟩ := id hc'
        rw [hu]; exact List.mem_cons_of_mem _ (List.mem_cons_self ..)
    · exact List.mem_cons_of_mem _ (ih hc' e)

/-- a node is not an ancestor of its parent -/
theorem not_anc_own_parent {t : ObjectTree} (w : WF t) {x : Nat} (hx : live t x = true) (hp : C13.P t x ≠ INV) :
    ¬ anc t x (C13.P t x) := by
  have hpl : live t (C13.P t x) = true := by
    rcases (w.lP hx).lp with h0 | h0
    · exact absurd h0 hp
    · exact h0
  intro ha
  obtain ⟨l, hc, hm⟩ := ha
  obtain ⟨l', hc', hlen⟩ := w.parChain (C13.P t x) (Or.inr hpl)
  have := chain_det (C13.P t) w.size_le _ _ _ hc hc'
  subst this
  have h1 := isAnc_of_chain w.size_le x l t.fuel _ hc (by simp [ObjectTree.fuel]; omega) hm
  exact anc_parent_absurd w hx rfl hpl h1

/-- `detach(p, m)`; `append(T, m)` with everything the merge needs to know about the links afterwards -/
theorem move_full {s : PState} (h : TP s) {p T m : Nat} (hT : live s.tree T = true) (hm : live s.tree m = true)
    (hp : C13.P s.tree m = p) (hpl : live s.tree p = true) (hTp : T ≠ p)
    (hanc : C13.isAncestorOrSelf s.tree m s.tree.fuel T = false) :
    ∃ s1 s2, tree (·.detach p m) s = .ok ((), s1) ∧ tree (·.append T m) s1 = .ok ((), s2) ∧ TP s2 ∧ Mv s s2 ∧
      s2 = { s with tree := s2.tree } ∧ SamePay s.tree s2.tree ∧
      (∀ x, C13.P s2.tree x = if x = m then T else C13.P s.tree x) ∧
      (∀ x, Nx s2.tree x = if x = m then INV else if x = La s.tree T ∧ La s.tree T ≠ INV then m
        else if x = Pv s.tree m ∧ Pv s.tree m ≠ INV then Nx s.tree m else Nx s.tree x) ∧
      (∀ x, x ≠ p → x ≠ T → Fi s2.tree x = Fi s.tree x ∧ La s2.tree x = La s.tree x) ∧
      Fi s2.tree p = (if Fi s.tree p = m then Nx s.tree m else Fi s.tree p) := by
  have hpre : detachPre s.tree p m = true := by
    simp only [detachPre, Bool.and_eq_true, decide_eq_true_eq]; exact ⟨⟨hpl, hm⟩, hp⟩
  obtain ⟨t1, e1, w1, hsz1, hl1, _, hP1, _, hNx1, hFi1, hLa1⟩ := detach_wf h.wf hpre
  have sp1 := detach_samePay e1
  have h1 : TP { s with tree := t1 } := h.ofTree w1 hl1 sp1
  have hla : La t1 T = La s.tree T := by rw [hLa1, if_neg (fun hc => hTp hc.1)]
  have hpre2 : appendPre t1 T m = true := by
    simp only [appendPre, Bool.and_eq_true, decide_eq_true_eq, Bool.not_eq_true']
    refine ⟨⟨⟨by rw [hl1]; exact hT, by rw [hl1]; exact hm⟩, by rw [hP1, if_pos rfl]⟩, ?_⟩
    have hf : t1.fuel = s.tree.fuel := by unfold ObjectTree.fuel; rw [hsz1]
    rw [hf, isAnc_congr (t := s.tree) (t' := t1) m (fun x hx => by rw [hP1, if_neg hx])]
    exact hanc
  obtain ⟨t2, e2, w2, hsz2, hl2, _, hP2, _, hNx2, hFi2, hLa2⟩ := append_wf w1 hpre2
  have sp2 := append_samePay e2
  have h2 : TP { s with tree := t2 } := by
    have := h1.ofTree (s := { s with tree := t1 }) w2 hl2 sp2
    exact this
  refine ⟨{ s with tree := t1 }, { s with tree := t2 }, tree_ex e1, tree_ex e2, h2,
    ⟨by show t2.pool.size = _; rw [hsz2, hsz1], fun x => by show live t2 x = _; rw [hl2, hl1], rfl, rfl, rfl, rfl, rfl⟩, rfl, sp1.trans sp2, ?_, ?_, ?_, ?_⟩
  · intro x
    show C13.P t2 x = _
    rw [hP2]
    split
    · rfl
    · rename_i hx; rw [hP1, if_neg hx]
  · intro x
    show Nx t2 x = _
    rw [hNx2, hla]
    split
    · rfl
    · split
      · rfl
      · rename_i hx _; rw [hNx1, if_neg hx]
  · intro x hxp hxT
    constructor
    · show Fi t2 x = _
      rw [hFi2, if_neg (fun hc => hxT hc.1), hFi1, if_neg (fun hc => hxp hc.1)]
    · show La t2 x = _
      rw [hLa2, if_neg hxT, hLa1, if_neg (fun hc => hxp hc.1)]
  · show Fi t2 p = _
    rw [hFi2, if_neg (fun hc => hTp hc.1.symm), hFi1]
    by_cases hq : Fi s.tree p = m
    · rw [if_pos ⟨rfl, hq⟩, if_pos hq]
    · rw [if_neg (fun hc => hq hc.2), if_neg hq]

/-! ## the invariant of the merge pass -/

/-- a one-segment path must not start with a zero byte (it is a name: `parseNameString` accepted it) -/
def ExprOK (e : List UInt8) : Prop := e.length = 4 → ∀ b, e[0]? = some b → b ≠ 0

/-- the shape of a `Scope` directive `x` the first pass leaves: unnamed, exactly two arguments — a childless
name-path object holding the `[]byte` of the path, and a scope block -/
structure ShapeAt (d : Bytes) (t : ObjectTree) (x : Nat) : Prop where
  name0 : (slot t x).name.b0 = 0
  info : (slot t x).infoIndex = pOpcodeTableIndex opScope true
  nkids : Fi t (Fi t x) = INV
  two : Nx t (Fi t x) = La t x
  cop : (slot t (La t x)).opcode = opIntScopeBlock
  nop : (slot t (Fi t x)).opcode ≠ opIntScopeBlock
  val : ∃ off len, (slot t (Fi t x)).value = .bytes off len ∧ ExprOK (sliceBytes d off len)

/-- `x` is a `Scope` directive of the table being parsed that still has arguments -/
def IsDir (s : PState) (x : Nat) : Prop :=
  live s.tree x = true ∧ (slot s.tree x).opcode = opScope ∧ (slot s.tree x).tableHandle = s.tableHandle ∧ Fi s.tree x ≠ INV

/-- invariant of `mergeScopeDirectives` -/
structure MI (d : Bytes) (s : PState) : Prop where
  tp : TP s
  rootP : C13.P s.tree 0 = INV
  rootOp : (slot s.tree 0).opcode = opIntScopeBlock
  shape : ∀ x, IsDir s x → ShapeAt d s.tree x

/-- `MergeInv` and — when `b` holds — the shape of the `Method` objects (`MInv`).  The tree passes keep both; with
`b := False` this is `MergeInv` alone -/
structure MIJ (b : Prop) (d : Bytes) (s : PState) : Prop extends MI d s where
  mth : b → MInv s

theorem MIJ.ofMI {d : Bytes} {s : PState} (h : MI d s) : MIJ False d s := ⟨h, fun hb => hb.elim⟩

variable {b : Prop}

theorem pay_opcode {o o' : Obj} (h : Pay o' = Pay o) : o'.opcode = o.opcode := congrArg (fun p => p.1) h
theorem pay_info {o o' : Obj} (h : Pay o' = Pay o) : o'.infoIndex = o.infoIndex := congrArg (fun p => p.2.1) h
theorem pay_handle {o o' : Obj} (h : Pay o' = Pay o) : o'.tableHandle = o.tableHandle := congrArg (fun p => p.2.2.1) h
theorem pay_name {o o' : Obj} (h : Pay o' = Pay o) : o'.name = o.name := congrArg (fun p => p.2.2.2.1) h
theorem pay_value {o o' : Obj} (h : Pay o' = Pay o) : o'.value = o.value := congrArg (fun p => p.2.2.2.2.2.2.2) h

/-- the shape only depends on a few fields of `x`, of its first and of its last argument -/
theorem ShapeAt.transfer {d : Bytes} {t t' : ObjectTree} {x : Nat} (h : ShapeAt d t x)
    (hx : Pay (slot t' x) = Pay (slot t x)) (hfi : Fi t' x = Fi t x) (hla : La t' x = La t x)
    (hn : Pay (slot t' (Fi t x)) = Pay (slot t (Fi t x))) (hnf : Fi t' (Fi t x) = Fi t (Fi t x))
    (hnn : Nx t' (Fi t x) = Nx t (Fi t x)) (hc : Pay (slot t' (La t x)) = Pay (slot t (La t x))) : ShapeAt d t' x := by
  refine ⟨by rw [pay_name hx]; exact h.name0, by rw [pay_info hx]; exact h.info, by rw [hfi, hnf]; exact h.nkids, by rw [hfi, hla, hnn]; exact h.two,
    by rw [hla, pay_opcode hc]; exact h.cop, by rw [hfi, pay_opcode hn]; exact h.nop, ?_⟩
  obtain ⟨off, len, hv, he⟩ := h.val
  exact ⟨off, len, by rw [hfi, pay_value hn]; exact hv, he⟩

/-- an object with a parent inside `X0` (in `s0`, and unmoved) or moved is inside `X0` -/
theorem Ctx.inside_child {s0 s : PState} {X0 : Nat} {Mvd : Nat → Prop} (c : Ctx s0 X0 Mvd s) (w0 : WF s0.tree)
    {y q : Nat} (hy : live s.tree y = true) (hp : C13.P s.tree y = q) (hq : anc s0.tree X0 q) : anc s0.tree X0 y := by
  by_cases hM : Mvd y
  · exact c.inside y hM
  · have hp0 : C13.P s0.tree y = q := by
      by_cases hne : C13.P s.tree y = C13.P s0.tree y
      · rw [← hne]; exact hp
      · exact absurd (c.moved y hy hne) hM
    have hy0 := c.shr.live y hy
    by_cases hyx : y = X0
    · rw [hyx]; exact w0.anc_self (by rw [← hyx]; exact hy0)
    · rw [w0.anc_step hy0 hyx, hp0]; exact hq

/-- `scopeBlockOf`: the scope block of the lookup result — the object itself or one of its arguments -/
theorem findScopeBlock_np' {s : PState} (h : TP s) (par : Nat) : ∀ (f i : Nat),
    (i = INV ∨ (live s.tree i = true ∧ C13.P s.tree i = par)) →
    NPs (findScopeBlock f i) s (fun r s' => s' = s ∧ ∀ x, r = some x → live s.tree x = true ∧
      (slot s.tree x).opcode = opIntScopeBlock ∧ C13.P s.tree x = par) := by
  intro f
  induction f with
  | zero => intro i _; unfold findScopeBlock; exact NPs.fuel
  | succ f ih =>
    intro i hi
    unfold findScopeBlock
    by_cases h0 : i = invalidIndex
    · rw [if_pos h0]; exact NPs.pure ⟨rfl, fun x hx => by cases hx⟩
    · rw [if_neg h0]
      obtain ⟨hl, hp⟩ : live s.tree i = true ∧ C13.P s.tree i = par := by
        rcases hi with h1 | h1
        · exact absurd h1 h0
        · exact h1
      refine NPs.step (objectAt_live' hl) ?_
      refine NPs.step (derefP_some_ex _) ?_
      refine NPs.step (getObj_live hl) ?_
      split
      · rename_i hop
        exact NPs.pure ⟨rfl, fun x hx => by cases hx; exact ⟨hl, hop, hp⟩⟩
      · refine ih _ ?_
        have l := h.wf.lP hl
        show Nx s.tree i = INV ∨ (live s.tree (Nx s.tree i) = true ∧ C13.P s.tree (Nx s.tree i) = par)
        by_cases hn : Nx s.tree i = INV
        · exact Or.inl hn
        · right
          refine ⟨?_, by rw [(l.nx hn).2]; exact hp⟩
          rcases l.lnx with h1 | h1
          · exact absurd h1 hn
          · exact h1

theorem scopeBlockOf_np' {s : PState} (h : TP s) (fuel : Nat) {t0 : Nat} (ht : live s.tree t0 = true) :
    NPs (scopeBlockOf fuel t0) s (fun r s' => s' = s ∧ ∀ x, r = some x → live s.tree x = true ∧
      (slot s.tree x).opcode = opIntScopeBlock ∧ (x = t0 ∨ C13.P s.tree x = t0)) := by
  unfold scopeBlockOf
  refine NPs.step (getObj_live ht) ?_
  split
  · have l := h.wf.lP ht
    have hfi : Fi s.tree t0 = INV ∨ (live s.tree (Fi s.tree t0) = true ∧ C13.P s.tree (Fi s.tree t0) = t0) := by
      by_cases hf : Fi s.tree t0 = INV
      · exact Or.inl hf
      · right
        refine ⟨?_, (l.fi hf).1⟩
        rcases l.lfi with h1 | h1
        · exact absurd h1 hf
        · exact h1
    exact (findScopeBlock_np' h t0 fuel _ hfi).mono (fun r s' hq => ⟨hq.1, fun x hx => ⟨(hq.2 x hx).1, (hq.2 x hx).2.1, Or.inr (hq.2 x hx).2.2⟩⟩)
  · rename_i hop
    have hop' : (slot s.tree t0).opcode = opIntScopeBlock := by
      by_cases hq : (slot s.tree t0).opcode = opIntScopeBlock
      · exact hq
      · exact absurd hq hop
    exact NPs.pure ⟨rfl, fun x hx => by cases hx; exact ⟨ht, hop', Or.inl rfl⟩⟩

theorem scope_ne_block : opScope ≠ opIntScopeBlock := by decide

/-- moving a child of one scope block to another scope block keeps the merge invariant -/
theorem MI.move {d : Bytes} {s s2 : PState} (h : MI d s) (h2 : TP s2) (m2 : Mv s s2) (sp : SamePay s.tree s2.tree)
    {c T m : Nat} (hc : live s.tree c = true) (hcop : (slot s.tree c).opcode = opIntScopeBlock)
    (hT : live s.tree T = true) (hTop : (slot s.tree T).opcode = opIntScopeBlock)
    (hm : live s.tree m = true) (hpm : C13.P s.tree m = c)
    (hP : ∀ x, C13.P s2.tree x = if x = m then T else C13.P s.tree x)
    (hNx : ∀ x, Nx s2.tree x = if x = m then INV else if x = La s.tree T ∧ La s.tree T ≠ INV then m
      else if x = Pv s.tree m ∧ Pv s.tree m ≠ INV then Nx s.tree m else Nx s.tree x)
    (hFL : ∀ x, x ≠ c → x ≠ T → Fi s2.tree x = Fi s.tree x ∧ La s2.tree x = La s.tree x) : MI d s2 := by
  have w := h.tp.wf
  have hinv : ∀ j, live s.tree j = true → j ≠ INV := fun j hj => live_ne_INV w.size_le hj
  refine ⟨h2, ?_, by rw [pay_opcode (sp.pay 0)]; exact h.rootOp, ?_⟩
  · rw [hP, if_neg]
    · exact h.rootP
    · intro e
      rw [← e, h.rootP] at hpm
      exact hinv c hc hpm.symm
  · intro x hx
    obtain ⟨hxl, hxop, hxh, hxf⟩ := hx
    have hxl' : live s.tree x = true := by rw [← m2.live]; exact hxl
    have hxop' : (slot s.tree x).opcode = opScope := by rw [← pay_opcode (sp.pay x)]; exact hxop
    have hxc : x ≠ c := fun e => scope_ne_block (by rw [← hxop', e, hcop])
    have hxT : x ≠ T := fun e => scope_ne_block (by rw [← hxop', e, hTop])
    obtain ⟨hfx, hlx⟩ := hFL x hxc hxT
    have hdir : IsDir s x := ⟨hxl', hxop', by rw [← pay_handle (sp.pay x), hxh, m2.handle], by rw [← hfx]; exact hxf⟩
    have sh := h.shape x hdir
    have lx := w.lP hxl'
    have hnp : C13.P s.tree (Fi s.tree x) = x := (lx.fi hdir.2.2.2).1
    have hnc : Fi s.tree x ≠ c := fun e => sh.nop (by rw [e, hcop])
    have hnT : Fi s.tree x ≠ T := fun e => sh.nop (by rw [e, hTop])
    refine sh.transfer (sp.pay x) hfx hlx (sp.pay _) (hFL _ hnc hnT).1 ?_ (sp.pay _)
    rw [hNx]
    have h1 : Fi s.tree x ≠ m := fun e => hxc (by rw [← hnp, e, hpm])
    have h2' : ¬ (Fi s.tree x = La s.tree T ∧ La s.tree T ≠ INV) := by
      intro hq
      have := ((w.lP hT).la hq.2).1
      rw [← hq.1, hnp] at this
      exact hxT this
    have h3 : ¬ (Fi s.tree x = Pv s.tree m ∧ Pv s.tree m ≠ INV) := by
      intro hq
      have := ((w.lP hm).pv hq.2).2
      rw [← hq.1, hnp, hpm] at this
      exact hxc this
    rw [if_neg h1, if_neg h2', if_neg h3]

/-- the contents loop of a merge: every child of the contents block `c` goes to the end of the list of `T` -/
theorem moveContents_np {d : Bytes} {s0 : PState} {X0 : Nat} (w0 : WF s0.tree) (c T : Nat) :
    ∀ (f sib : Nat) {s : PState} {Mvd : Nat → Prop}, MIJ b d s → Ctx s0 X0 Mvd s →
    live s.tree c = true → (slot s.tree c).opcode = opIntScopeBlock → live s.tree T = true →
    (slot s.tree T).opcode = opIntScopeBlock → T ≠ c → ¬ anc s.tree c T → anc s0.tree X0 c → sib = Fi s.tree c →
    NPs (moveContents c T f sib) s (fun _ s' => MIJ b d s' ∧
      (∃ Mvd', (∀ y, Mvd y → Mvd' y) ∧ Ctx s0 X0 Mvd' s' ∧ (sib ≠ INV → Mvd' sib)) ∧ Mv s s' ∧
      Fi s'.tree c = INV ∧ SamePay s.tree s'.tree ∧
      (∀ x, C13.P s.tree x ≠ c → C13.P s'.tree x = C13.P s.tree x) ∧
      (∀ x, x ≠ c → x ≠ T → Fi s'.tree x = Fi s.tree x ∧ La s'.tree x = La s.tree x)) := by
  intro f
  induction f with
  | zero => intro sib s Mvd _ _ _ _ _ _ _ _ _ _; unfold moveContents; exact NPs.fuel
  | succ f ih =>
    intro sib s Mvd h ctx hc hcop hT hTop hTc hnanc hcin hsib
    have w := h.tp.wf
    unfold moveContents
    by_cases h0 : sib = invalidIndex
    · rw [if_pos h0]
      refine NPs.pure ⟨h, ⟨Mvd, fun _ hy => hy, ctx, fun hne => absurd h0 hne⟩, Mv.refl s, by rw [← hsib]; exact h0, SamePay.refl _, fun _ _ => rfl,
        fun _ _ _ => ⟨rfl, rfl⟩⟩
    · rw [if_neg h0]
      have lc := w.lP hc
      have hfne : Fi s.tree c ≠ INV := by rw [← hsib]; exact h0
      have hm : live s.tree sib = true := by
        rw [hsib]
        rcases lc.lfi with h1 | h1
        · exact absurd h1 hfne
        · exact h1
      have hpm : C13.P s.tree sib = c := by rw [hsib]; exact (lc.fi hfne).1
      refine NPs.step (objectAt_live' hm) ?_
      refine NPs.step (derefP_some_ex _) ?_
      refine NPs.step (nextOf_live hm) ?_
      have hcne : c ≠ INV := live_ne_INV w.size_le hc
      have hna : ¬ anc s.tree sib T := by
        intro ha
        have := anc_parent ha (by rw [hpm]; exact hcne)
        rw [hpm] at this
        exact hnanc this
      obtain ⟨s1, s2, e1, e2, h2, m2, hs2, sp2, hP2, hNx2, hFL2, hFc2⟩ :=
        move_full h.tp hT hm hpm hc hTc (isAnc_false_of_not_anc w hT hna _)
      refine NPs.step e1 ?_
      refine NPs.step e2 ?_
      have hi2 : MIJ b d s2 := ⟨h.toMI.move h2 m2 sp2 hc hcop hT hTop hm hpm hP2 hNx2 hFL2, fun hb =>
        (h.mth hb).move' w m2.live sp2 hm hpm hc hT hP2 (fun x h1 h2 => (hFL2 x h1 h2).1)
          (by rw [← hpm]; exact nx_weak w hT hm hNx2) (by rw [hcop]; exact sb_ne_method) (by rw [hTop]; exact sb_ne_method)
          (Or.inr hTop)⟩
      have ctx2 := ctx.move w m2 hm (ctx.inside_child w0 hm hpm hcin) hP2 hNx2
      -- the chain of `T` is untouched: `c` is still not one of its ancestors
      have fr : Frame s s2 T := by
        intro a ha
        rw [hP2, if_neg]
        intro e
        rw [e] at ha
        exact hna ha
      have hnanc2 : ¬ anc s2.tree c T := by
        rw [anc_of_frame h.tp m2 hT fr]; exact hnanc
      have hsib2 : Nx s.tree sib = Fi s2.tree c := by
        rw [hFc2, if_pos hsib.symm]
      have := ih (Nx s.tree sib) hi2 ctx2 (by rw [m2.live]; exact hc) (by rw [pay_opcode (sp2.pay c)]; exact hcop)
        (by rw [m2.live]; exact hT) (by rw [pay_opcode (sp2.pay T)]; exact hTop) hTc hnanc2 hcin hsib2
      refine this.mono ?_
      intro _ s' hq
      obtain ⟨q1, ⟨Mvd', q2, q3, _⟩, q4, q5, q6, q7, q8⟩ := hq
      refine ⟨q1, ⟨Mvd', fun y hy => q2 y (Or.inl hy), q3, fun _ => q2 sib (Or.inr rfl)⟩, m2.trans q4, q5, sp2.trans q6, ?_, ?_⟩
      · intro x hx
        have hxm : x ≠ sib := fun e => hx (by rw [e]; exact hpm)
        have : C13.P s2.tree x = C13.P s.tree x := by rw [hP2, if_neg hxm]
        rw [q7 x (by rw [this]; exact hx), this]
      · intro x hxc hxT
        obtain ⟨a1, a2⟩ := q8 x hxc hxT
        obtain ⟨b1, b2⟩ := hFL2 x hxc hxT
        exact ⟨by rw [a1, b1], by rw [a2, b2]⟩

/-- the arguments of a shaped directive are its name and its contents block, nothing else -/
theorem dir_kids {d : Bytes} {t : ObjectTree} (w : WF t) {x y : Nat} (hx : live t x = true) (hf : Fi t x ≠ INV)
    (sh : ShapeAt d t x) (hy : live t y = true) (hp : C13.P t y = x) : y = Fi t x ∨ y = La t x := by
  have lx := w.lP hx
  have hnl : live t (Fi t x) = true := by
    rcases lx.lfi with h1 | h1
    · exact absurd h1 hf
    · exact h1
  have hla : La t x ≠ INV := fun e => hf (lx.ends.2 e)
  have hcl : live t (La t x) = true := by
    rcases lx.lla with h1 | h1
    · exact absurd h1 hla
    · exact h1
  have hch : Chain t (Nx t) (Fi t x) [Fi t x, La t x] :=
    ⟨rfl, hnl, by rw [sh.two]; exact ⟨rfl, hcl, (lx.la hla).2⟩⟩
  have hk := w.kids_of_chain hx hch
  have := (w.kids_mem x hx y).2 ⟨hy, hp⟩
  rw [hk] at this
  simpa using this

/-- an object with a child has a first argument -/
theorem fi_ne_of_child {t : ObjectTree} (w : WF t) {q y : Nat} (hq : live t q = true) (hy : live t y = true)
    (hp : C13.P t y = q) : Fi t q ≠ INV := by
  intro e
  have := (kids_nil_iff w hq).2 e
  have hm := (w.kids_mem q hq y).2 ⟨hy, hp⟩
  rw [this] at hm; cases hm

/-- the three `free`s at the end of a merge: the (childless) name, the emptied contents block, the directive -/
theorem freeTriple {d : Bytes} {s0 s : PState} {X0 : Nat} {Mvd : Nat → Prop} (w0 : WF s0.tree) (h : MIJ b d s)
    (ctx : Ctx s0 X0 Mvd s) {X : Nat} (hX : IsDir s X) (hcf : Fi s.tree (La s.tree X) = INV) (hin : anc s0.tree X0 X) :
    ∃ s1 s2 s3, tree (·.free (Fi s.tree X)) s = .ok ((), s1) ∧ tree (·.free (La s.tree X)) s1 = .ok ((), s2) ∧
      tree (·.free X) s2 = .ok ((), s3) ∧ MIJ b d s3 ∧ Ctx s0 X0 Mvd s3 ∧ s3 = { s with tree := s3.tree } ∧
      (∀ y, live s3.tree y = (((live s.tree y && decide (y ≠ Fi s.tree X)) && decide (y ≠ La s.tree X)) && decide (y ≠ X))) := by
  obtain ⟨hXl, hXop, hXh, hXf⟩ := hX
  have w := h.tp.wf
  have sh := h.shape X ⟨hXl, hXop, hXh, hXf⟩
  have hinv : ∀ {t : ObjectTree} (w : WF t) j, live t j = true → j ≠ INV := fun w j hj => live_ne_INV w.size_le hj
  have lX := w.lP hXl
  -- the name `n` and the contents block `c`
  have hnl : live s.tree (Fi s.tree X) = true := by
    rcases lX.lfi with h1 | h1
    · exact absurd h1 hXf
    · exact h1
  have hla : La s.tree X ≠ INV := fun e => hXf (lX.ends.2 e)
  have hcl : live s.tree (La s.tree X) = true := by
    rcases lX.lla with h1 | h1
    · exact absurd h1 hla
    · exact h1
  have hnp : C13.P s.tree (Fi s.tree X) = X := (lX.fi hXf).1
  have hnpv : Pv s.tree (Fi s.tree X) = INV := (lX.fi hXf).2
  have hcp : C13.P s.tree (La s.tree X) = X := (lX.la hla).1
  have hcnx : Nx s.tree (La s.tree X) = INV := (lX.la hla).2
  have hXne : X ≠ INV := hinv w X hXl
  have hnc : Fi s.tree X ≠ La s.tree X := by
    intro e
    have := wf_Nx_ne_self w hnl
    rw [sh.two, ← e] at this; exact this rfl
  have hn0 : Fi s.tree X ≠ 0 := fun e => hXne (by rw [← hnp, e]; exact h.rootP)
  have hc0 : La s.tree X ≠ 0 := fun e => hXne (by rw [← hcp, e]; exact h.rootP)
  have hX0 : X ≠ 0 := fun e => scope_ne_block (by rw [← hXop, e]; exact h.rootOp)
  have hXn : X ≠ Fi s.tree X := fun e => wf_P_ne_self w hnl (by rw [hnp]; exact e)
  have hXc : X ≠ La s.tree X := fun e => wf_P_ne_self w hcl (by rw [hcp]; exact e)
  -- free the name
  obtain ⟨s1, e1, h1, hs1, hsz1, hl1, hpay1, hP1, hNx1, hFL1⟩ :=
    free_step h.tp hnl sh.nkids ((w.lP hnl).ends.1 sh.nkids) hn0
  have hNx1' : ∀ x, x ≠ Fi s.tree X → Nx s1.tree x = Nx s.tree x := by
    intro x hx; rw [hNx1 x hx, if_neg (fun hc => hc.2 hnpv)]
  have hcl1 : live s1.tree (La s.tree X) = true := by rw [hl1]; simp [hcl, Ne.symm hnc]
  have hXl1 : live s1.tree X = true := by rw [hl1]; simp [hXl, hXn]
  have hfX1 : Fi s1.tree X = La s.tree X := by
    rw [(hFL1 X hXn hXl).1, if_pos ⟨hnp.symm, rfl⟩, sh.two]
  have hfc1 : Fi s1.tree (La s.tree X) = INV := by
    rw [(hFL1 _ (Ne.symm hnc) hcl).1, if_neg (fun hc => hXc (by rw [hnp] at hc; exact hc.1.symm))]; exact hcf
  have hcp1 : C13.P s1.tree (La s.tree X) = X := by rw [hP1 _ (Ne.symm hnc)]; exact hcp
  have ctx1 : Ctx s0 X0 Mvd s1 := ctx.free w hnl (ctx.inside_child w0 hnl hnp hin) hsz1 (by rw [hs1]) (by rw [hs1]; exact ⟨rfl, rfl, rfl, rfl⟩) hl1 hP1 hNx1
  -- free the contents block
  obtain ⟨s2, e2, h2, hs2, hsz2, hl2, hpay2, hP2, hNx2, hFL2⟩ :=
    free_step h1 hcl1 hfc1 ((h1.wf.lP hcl1).ends.1 hfc1) hc0
  have hpvc1 : Pv s1.tree (La s.tree X) = INV := by
    have := ((h1.wf.lP hXl1).fi (by rw [hfX1]; exact hla)).2
    rw [hfX1] at this; exact this
  have hNx2' : ∀ x, x ≠ La s.tree X → Nx s2.tree x = Nx s1.tree x := by
    intro x hx; rw [hNx2 x hx, if_neg (fun hc => hc.2 hpvc1)]
  have hXl2 : live s2.tree X = true := by rw [hl2]; simp [hXl1, hXc]
  have hfX2 : Fi s2.tree X = INV := by
    rw [(hFL2 X hXc hXl1).1, if_pos ⟨hcp1.symm, hfX1⟩, hNx1' _ (Ne.symm hnc)]; exact hcnx
  have ctx2 : Ctx s0 X0 Mvd s2 :=
    ctx1.free h1.wf hcl1 (ctx1.inside_child w0 hcl1 hcp1 hin) hsz2 (by rw [hs2]) (by rw [hs2]; exact ⟨rfl, rfl, rfl, rfl⟩) hl2 hP2 hNx2
  -- free the directive
  obtain ⟨s3, e3, h3, hs3, hsz3, hl3, hpay3, hP3, hNx3, hFL3⟩ :=
    free_step h2 hXl2 hfX2 ((h2.wf.lP hXl2).ends.1 hfX2) hX0
  have ctx3 : Ctx s0 X0 Mvd s3 := ctx2.free h2.wf hXl2 hin hsz3 (by rw [hs3]) (by rw [hs3]; exact ⟨rfl, rfl, rfl, rfl⟩) hl3 hP3 hNx3
  have hlive3 : ∀ y, live s3.tree y = true → live s.tree y = true ∧ y ≠ Fi s.tree X ∧ y ≠ La s.tree X ∧ y ≠ X := by
    intro y hy
    have a3 := hl3 y; rw [hy] at a3
    simp only [Bool.true_eq, Bool.and_eq_true, decide_eq_true_eq] at a3
    have a2 := hl2 y; rw [a3.1] at a2
    simp only [Bool.true_eq, Bool.and_eq_true, decide_eq_true_eq] at a2
    have a1 := hl1 y; rw [a2.1] at a1
    simp only [Bool.true_eq, Bool.and_eq_true, decide_eq_true_eq] at a1
    exact ⟨a1.1, a1.2, a2.2, a3.2⟩
  have hpay : ∀ y, y ≠ Fi s.tree X → y ≠ La s.tree X → y ≠ X → Pay (slot s3.tree y) = Pay (slot s.tree y) := by
    intro y a b c; rw [hpay3 y c, hpay2 y b, hpay1 y a]
  have hPall : ∀ y, y ≠ Fi s.tree X → y ≠ La s.tree X → y ≠ X → C13.P s3.tree y = C13.P s.tree y := by
    intro y a b c; rw [hP3 y c, hP2 y b, hP1 y a]
  refine ⟨s1, s2, s3, e1, e2, e3, ⟨⟨h3, ?_, ?_, ?_⟩, ?_⟩, ctx3, by rw [hs3, hs2, hs1], fun y => by rw [hl3, hl2, hl1]⟩
  · rw [hPall 0 (Ne.symm hn0) (Ne.symm hc0) (Ne.symm hX0)]; exact h.rootP
  · rw [pay_opcode (hpay 0 (Ne.symm hn0) (Ne.symm hc0) (Ne.symm hX0))]; exact h.rootOp
  · -- the other directives keep their shape
    intro x hx
    obtain ⟨hxl3, hxop3, hxh3, hxf3⟩ := hx
    obtain ⟨hxl, hxn, hxc, hxX⟩ := hlive3 x hxl3
    have hxpay := hpay x hxn hxc hxX
    have hxop : (slot s.tree x).opcode = opScope := by rw [← pay_opcode hxpay]; exact hxop3
    have hxl1 : live s1.tree x = true := by rw [hl1]; simp [hxl, hxn]
    have hxl2 : live s2.tree x = true := by rw [hl2]; simp [hxl1, hxc]
    -- `x` is not the parent of the directive that was freed
    have hq : ∀ q, x = q → C13.P s.tree X = q → Fi s.tree x ≠ INV → False := by
      intro q hxq hpq hf
      have shx := h.shape x ⟨hxl, hxop, by rw [← pay_handle hxpay, hxh3, hs3, hs2, hs1], hf⟩
      rcases dir_kids w hxl hf shx hXl (by rw [hpq, hxq]) with e | e
      · exact hXf (by rw [e]; exact shx.nkids)
      · exact scope_ne_block (by rw [← hXop, e]; exact shx.cop)
    -- first and last argument of `x` did not change
    have hfx1 := hFL1 x hxn hxl
    rw [hnp, if_neg (fun hc => hxX hc.1), if_neg (fun hc => hxX hc.1)] at hfx1
    have hfx2 := hFL2 x hxc hxl1
    rw [hcp1, if_neg (fun hc => hxX hc.1), if_neg (fun hc => hxX hc.1)] at hfx2
    have hPX2 : C13.P s2.tree X = C13.P s.tree X := by rw [hP2 X hXc, hP1 X hXn]
    have hfx3 := hFL3 x hxX hxl2
    have hfx : Fi s.tree x ≠ INV := by
      intro e0
      apply hxf3
      rw [hfx3.1]
      split
      · rename_i hc
        exfalso
        -- x is the parent of X and has no first argument: impossible
        exact fi_ne_of_child w hxl hXl (by rw [← hPX2]; exact hc.1.symm) e0
      · rw [hfx2.1, hfx1.1]; exact e0
    have hxq : x ≠ C13.P s.tree X := fun e => hq _ e rfl hfx
    rw [hPX2, if_neg (fun hc => hxq hc.1), if_neg (fun hc => hxq hc.1)] at hfx3
    have hfi : Fi s3.tree x = Fi s.tree x := by rw [hfx3.1, hfx2.1, hfx1.1]
    have hlax : La s3.tree x = La s.tree x := by rw [hfx3.2, hfx2.2, hfx1.2]
    have hdir : IsDir s x := ⟨hxl, hxop, by rw [← pay_handle hxpay, hxh3, hs3, hs2, hs1], hfx⟩
    have shx := h.shape x hdir
    have lx := w.lP hxl
    -- its name object
    have hnxl : live s.tree (Fi s.tree x) = true := by
      rcases lx.lfi with h0 | h0
      · exact absurd h0 hfx
      · exact h0
    have hnxp : C13.P s.tree (Fi s.tree x) = x := (lx.fi hfx).1
    have n1 : Fi s.tree x ≠ Fi s.tree X := fun e => hxX (by rw [← hnxp, e, hnp])
    have n2 : Fi s.tree x ≠ La s.tree X := fun e => hxX (by rw [← hnxp, e, hcp])
    have n3 : Fi s.tree x ≠ X := fun e => hXf (by rw [← e]; exact shx.nkids)
    have hlax0 : La s.tree x ≠ INV := fun e => hfx (lx.ends.2 e)
    have hcxl : live s.tree (La s.tree x) = true := by
      rcases lx.lla with h0 | h0
      · exact absurd h0 hlax0
      · exact h0
    have hcxp : C13.P s.tree (La s.tree x) = x := (lx.la hlax0).1
    have c1 : La s.tree x ≠ Fi s.tree X := fun e => hxX (by rw [← hcxp, e, hnp])
    have c2 : La s.tree x ≠ La s.tree X := fun e => hxX (by rw [← hcxp, e, hcp])
    have c3 : La s.tree x ≠ X := fun e => scope_ne_block (by rw [← hXop, ← e]; exact shx.cop)
    have hnl1 : live s1.tree (Fi s.tree x) = true := by rw [hl1]; simp [hnxl, n1]
    have hnl2 : live s2.tree (Fi s.tree x) = true := by rw [hl2]; simp [hnl1, n2]
    -- the name object has no children: it is nobody's parent
    have nq : ∀ z, live s.tree z = true → C13.P s.tree z ≠ Fi s.tree x := by
      intro z hz e
      exact fi_ne_of_child w hnxl hz e shx.nkids
    have hnf : Fi s3.tree (Fi s.tree x) = Fi s.tree (Fi s.tree x) := by
      have a1 := (hFL1 _ n1 hnxl).1
      rw [if_neg (fun hc => nq _ hnl hc.1.symm)] at a1
      have a2 := (hFL2 _ n2 hnl1).1
      rw [if_neg (fun hc => nq _ hcl (by rw [← hP1 _ (Ne.symm hnc)]; exact hc.1.symm))] at a2
      have a3 := (hFL3 _ n3 hnl2).1
      rw [if_neg (fun hc => nq _ hXl (by rw [← hPX2]; exact hc.1.symm))] at a3
      rw [a3, a2, a1]
    have hnn : Nx s3.tree (Fi s.tree x) = Nx s.tree (Fi s.tree x) := by
      rw [hNx3 _ n3, hNx2' _ n2, hNx1' _ n1, if_neg]
      intro hc
      -- the predecessor of X would be the name object of x: then x is the parent of X
      have := ((h2.wf.lP hXl2).pv hc.2).2
      rw [← hc.1, hPX2, hP2 _ n2, hP1 _ n1, hnxp] at this
      exact hxq this
    exact shx.transfer hxpay hfi hlax (hpay _ n1 n2 n3) hnf hnn (hpay _ c1 c2 c3)
  · -- the methods: what is freed hangs under the directive, and the directive under no method
    intro hb
    have hXop1 : (slot s1.tree X).opcode = opScope := by rw [pay_opcode (hpay1 X hXn)]; exact hXop
    have hXop2 : (slot s2.tree X).opcode = opScope := by rw [pay_opcode (hpay2 X hXc)]; exact hXop1
    have J1 : MInv s1 := (h.mth hb).free w hnl hl1 hpay1 hP1 hNx1 hFL1
      (Or.inr (by rw [hnp, hXop]; exact scope_ne_method)) hn0
    have J2 : MInv s2 := J1.free h1.wf hcl1 hl2 hpay2 hP2 hNx2 hFL2
      (Or.inr (by rw [hcp1, hXop1]; exact scope_ne_method)) hc0
    refine J2.free h2.wf hXl2 hl3 hpay3 hP3 hNx3 hFL3 ?_ hX0
    rcases (h2.wf.lP hXl2).lp with h0 | h0
    · exact Or.inl h0
    · exact Or.inr (J2.parent_not_method h2.wf hXl2 h0 (Or.inr hXop2))

/-- the `pOpScope` case of `mergeScopeDirectives` for a shaped directive `X` -/
theorem mergeScope_np {d : Bytes} (fuel : Nat) {s0 : PState} {X0 : Nat} (w0 : WF s0.tree) {s : PState} {Mvd : Nat → Prop}
    (h : MIJ b d s) (ctx : Ctx s0 X0 Mvd s) {X : Nat} (hX : IsDir s X) (hin : anc s0.tree X0 X) :
    NPs (mergeScope d fuel X) s (fun r s' => MIJ b d s' ∧ s'.tableHandle = s.tableHandle ∧
      ∃ Mvd', (∀ y, Mvd y → Mvd' y) ∧ Ctx s0 X0 Mvd' s' ∧
        (∀ f1, r = .inr f1 → f1 = INV ∨ (live s'.tree f1 = true ∧ Mvd' f1))) := by
  obtain ⟨hXl, hXop, hXh, hXf⟩ := hX
  have w := h.tp.wf
  have sh := h.shape X ⟨hXl, hXop, hXh, hXf⟩
  have lX := w.lP hXl
  have hnl : live s.tree (Fi s.tree X) = true := by
    rcases lX.lfi with h1 | h1
    · exact absurd h1 hXf
    · exact h1
  have hla : La s.tree X ≠ INV := fun e => hXf (lX.ends.2 e)
  have hcl : live s.tree (La s.tree X) = true := by
    rcases lX.lla with h1 | h1
    · exact absurd h1 hla
    · exact h1
  have hcp : C13.P s.tree (La s.tree X) = X := (lX.la hla).1
  have hXne : X ≠ INV := live_ne_INV w.size_le hXl
  have same : MIJ b d s ∧ s.tableHandle = s.tableHandle ∧ ∃ Mvd', (∀ y, Mvd y → Mvd' y) ∧ Ctx s0 X0 Mvd' s ∧
      (∀ f1, (Sum.inl PRes.failed : Sum PRes Nat) = .inr f1 → f1 = INV ∨ (live s.tree f1 = true ∧ Mvd' f1)) :=
    ⟨h, rfl, Mvd, fun _ hy => hy, ctx, fun f1 hc => by cases hc⟩
  unfold mergeScope
  refine NPs.step (getObj_live hXl) ?_
  refine NPs.step (objectAt_live' hnl) ?_
  refine NPs.step (derefP_some_ex _) ?_
  obtain ⟨off, len, hv, hexpr⟩ := sh.val
  have eb : bytesValue d (Fi s.tree X) s = .ok (sliceBytes d off len, s) := by
    unfold bytesValue
    show (StateT.bind _ _) s = _
    simp only [StateT.bind, getObj_live hnl, bind, Except.bind, hv, valBytes]
    rfl
  refine NPs.step eb ?_
  refine NPs.step (a := s.tree) (s1 := s) rfl ?_
  have hscope : C13.P s.tree X = INV ∨ live s.tree (C13.P s.tree X) = true := lX.lp
  obtain ⟨ti, efind, hti⟩ := find_total' w h.tp.root (C13.P s.tree X) hscope (sliceBytes d off len)
  have e2 : liftR (s.tree.Find (slot s.tree X).parentIndex (sliceBytes d off len)) s = .ok (ti, s) := by
    unfold liftR
    have : (slot s.tree X).parentIndex = C13.P s.tree X := rfl
    rw [this, efind]; rfl
  refine NPs.step e2 ?_
  by_cases hti0 : ti = invalidIndex
  · rw [if_pos hti0]
    refine NPs.step (passCounters_ex s) ?_
    split
    · exact NPs.pure ⟨h, rfl, Mvd, fun _ hy => hy, ctx, fun f1 hc => by cases hc⟩
    · exact NPs.pure ⟨h, rfl, Mvd, fun _ hy => hy, ctx, fun f1 hc => by cases hc⟩
  · rw [if_neg hti0]
    have htl : live s.tree ti = true := by
      rcases hti with h1 | h1
      · exact absurd h1 hti0
      · exact h1
    -- the lookup result is outside the subtree of the directive
    have h0X : (0 : Nat) ≠ X := fun e => scope_ne_block (by rw [← hXop, ← e]; exact h.rootOp)
    have hscope' : C13.P s.tree X = INV ∨ (live s.tree (C13.P s.tree X) = true ∧ ¬ anc s.tree X (C13.P s.tree X)) := by
      by_cases hp : C13.P s.tree X = INV
      · exact Or.inl hp
      · right
        refine ⟨?_, not_anc_own_parent w hXl hp⟩
        rcases lX.lp with h1 | h1
        · exact absurd h1 hp
        · exact h1
    have hout : ¬ anc s.tree X ti :=
      (find_avoid w h.tp.root sh.name0 (not_anc_root w h.rootP h0X) _ hscope' _ hexpr ti efind hti0).2
    refine NPs.step (objectAt_live' htl) ?_
    refine NPs.step (derefP_some_ex _) ?_
    refine NPs.bind (scopeBlockOf_np' h.tp fuel htl) ?_
    intro r s1 hq
    obtain ⟨hs1, hr⟩ := hq
    subst hs1
    cases r with
    | none => exact NPs.pure ⟨h, rfl, Mvd, fun _ hy => hy, ctx, fun f1 hc => by cases hc⟩
    | some T =>
      obtain ⟨hT, hTop, hTrel⟩ := hr T rfl
      have hTX : T ≠ X := fun e => scope_ne_block (by rw [← hXop, ← e]; exact hTop)
      have houtT : ¬ anc s1.tree X T := by
        rcases hTrel with e | e
        · rw [e]; exact hout
        · exact not_anc_child w hT e hTX hout
      have hTc : T ≠ La s1.tree X := by
        intro e
        apply houtT
        rw [e, w.anc_step hcl (fun e2 => wf_P_ne_self w hcl (by rw [hcp]; exact e2.symm)), hcp]
        exact w.anc_self hXl
      have hnancc : ¬ anc s1.tree (La s1.tree X) T := by
        intro ha
        have := anc_parent ha (by rw [hcp]; exact hXne)
        rw [hcp] at this
        exact houtT this
      refine NPs.step (getObj_live hXl) ?_
      refine NPs.step (objectAt_live' hcl) ?_
      refine NPs.step (derefP_some_ex _) ?_
      refine NPs.step (getObj_live hcl) ?_
      have hcin : anc s0.tree X0 (La s1.tree X) := ctx.inside_child w0 hcl hcp hin
      refine NPs.bind (moveContents_np w0 (La s1.tree X) T fuel (Fi s1.tree (La s1.tree X)) h ctx hcl sh.cop hT hTop hTc
        hnancc hcin rfl) ?_
      intro _ s5 hq5
      obtain ⟨h5, ⟨Mvd5, hsub5, ctx5, hfirst5⟩, m5, hfc5, sp5, hP5, hFL5⟩ := hq5
      have hXc : X ≠ La s1.tree X := fun e => wf_P_ne_self w hcl (by rw [hcp]; exact e)
      obtain ⟨hfX5, hlX5⟩ := hFL5 X hXc (Ne.symm hTX)
      have hX5 : IsDir s5 X := ⟨by rw [m5.live]; exact hXl, by rw [pay_opcode (sp5.pay X)]; exact hXop,
        by rw [pay_handle (sp5.pay X), hXh, m5.handle], by rw [hfX5]; exact hXf⟩
      obtain ⟨s6, s7, s8, e6, e7, e8, h8, ctx8, hs8, hl8⟩ :=
        freeTriple w0 h5 ctx5 hX5 (by rw [hlX5]; exact hfc5) hin
      rw [hfX5] at e6
      rw [hlX5] at e7
      refine NPs.step e6 ?_
      refine NPs.step e7 ?_
      refine NPs.step e8 ?_
      have e9 : (modify fun s => { s with mergedScopes := u32 (s.mergedScopes + 1) } : P Unit) s8 =
          .ok ((), { s8 with mergedScopes := u32 (s8.mergedScopes + 1) }) := rfl
      refine NPs.step e9 ?_
      refine NPs.pure ⟨⟨⟨⟨h8.tp.wf, h8.tp.root, h8.tp.info⟩, h8.rootP, h8.rootOp, fun x hx => h8.shape x hx⟩,
          fun hb => (h8.mth hb).ofTree rfl⟩, ?_,
        Mvd5, hsub5, ctx8.ofTree rfl rfl ⟨rfl, rfl, rfl, rfl⟩, ?_⟩
      · show s8.tableHandle = _
        rw [hs8, m5.handle]
      · intro f1 hf1
        cases hf1
        by_cases hf0 : Fi s1.tree (La s1.tree X) = INV
        · exact Or.inl hf0
        · right
          have lc := w.lP hcl
          have hfl : live s1.tree (Fi s1.tree (La s1.tree X)) = true := by
            rcases lc.lfi with h1 | h1
            · exact absurd h1 hf0
            · exact h1
          have hfp : C13.P s1.tree (Fi s1.tree (La s1.tree X)) = La s1.tree X := (lc.fi hf0).1
          refine ⟨?_, hfirst5 hf0⟩
          show live s8.tree (Fi s1.tree (La s1.tree X)) = true
          rw [hl8, hfX5, hlX5, m5.live, hfl]
          have a1 : Fi s1.tree (La s1.tree X) ≠ Fi s1.tree X := by
            intro e
            have := (lX.fi hXf).1
            rw [← e, hfp] at this
            exact hXc this.symm
          have a2 : Fi s1.tree (La s1.tree X) ≠ La s1.tree X := fun e => wf_P_ne_self w hfl (by rw [hfp]; exact e.symm)
          have a3 : Fi s1.tree (La s1.tree X) ≠ X := by
            intro e
            exact wf_P_P_ne w hfl hcl hfp (by rw [hcp]; exact e.symm)
          simp [a1, a2, a3]

theorem NPs.and {α : Type} {x : P α} {s : PState} {Q R : α → PState → Prop} (h1 : NPs x s Q) (h2 : NPs x s R) :
    NPs x s (fun a s' => Q a s' ∧ R a s') :=
  ⟨h1.1, fun a s' he => ⟨h1.2 a s' he, h2.2 a s' he⟩⟩

/-- a later sibling is not inside the subtree of an earlier one -/
theorem sibling_not_desc {t : ObjectTree} (w : WF t) {a : Nat} (ha : live t a = true) (hn : Nx t a ≠ INV) :
    ¬ anc t a (Nx t a) := by
  have la := w.lP ha
  have hNl : live t (Nx t a) = true := by
    rcases la.lnx with h1 | h1
    · exact absurd h1 hn
    · exact h1
  have hpp : C13.P t (Nx t a) = C13.P t a := (la.nx hn).2
  have hp : C13.P t a ≠ INV := fun e => hn (la.det e).2
  intro h
  rw [w.anc_step hNl (wf_Nx_ne_self w ha), hpp] at h
  exact not_anc_own_parent w ha hp h

/-- what the sibling loop of the merge walk knows about its current position -/
def Good (s0 : PState) (X0 : Nat) (Mvd : Nat → Prop) (s : PState) (sib : Nat) : Prop :=
  sib = INV ∨ (live s.tree sib = true ∧ anc s0.tree X0 sib ∧ (Mvd sib ∨ anc s0.tree X0 (C13.P s.tree sib)))

/-- `mergeScopeDirectives` and the loop over the children, by induction on the fuel -/
theorem merge_np (d : Bytes) : ∀ (f : Nat),
    (∀ {s0 s : PState} {X0 : Nat} {Mvd : Nat → Prop} (X : Nat), WF s0.tree → MIJ b d s → Ctx s0 X0 Mvd s →
      live s.tree X = true → anc s0.tree X0 X →
      NPs (mergeScopeDirectives d f X) s (fun _ s' => MIJ b d s' ∧ s'.tableHandle = s.tableHandle ∧
        ∃ Mvd', (∀ y, Mvd y → Mvd' y) ∧ Ctx s0 X0 Mvd' s')) ∧
    (∀ {s0 s : PState} {X0 : Nat} {Mvd : Nat → Prop} (sib : Nat) (res : PRes), WF s0.tree → MIJ b d s → Ctx s0 X0 Mvd s →
      Good s0 X0 Mvd s sib →
      NPs (mergeLoop d f sib res) s (fun _ s' => MIJ b d s' ∧ s'.tableHandle = s.tableHandle ∧
        ∃ Mvd', (∀ y, Mvd y → Mvd' y) ∧ Ctx s0 X0 Mvd' s')) := by
  intro f
  induction f with
  | zero =>
    constructor
    · intro s0 s X0 Mvd X _ _ _ _ _; unfold mergeScopeDirectives; exact NPs.fuel
    · intro s0 s X0 Mvd sib res _ _ _ _; unfold mergeLoop; exact NPs.fuel
  | succ f ih =>
    constructor
    · intro s0 s X0 Mvd X w0 h ctx hXl hin
      unfold mergeScopeDirectives
      refine NPs.step (objectAt_live' hXl) ?_
      refine NPs.step (derefP_some_ex _) ?_
      refine NPs.step (getObj_live hXl) ?_
      -- the counter reset does not touch the tree
      have cont : ∀ sa : PState, sa.tree = s.tree → sa.tableHandle = s.tableHandle →
          (sa.r = s.r ∧ sa.scopeStack = s.scopeStack ∧ sa.pkgEndStack = s.pkgEndStack ∧ sa.streamEnd = s.streamEnd) →
          NPs (do
            let flags ← optP (opFlags (slot s.tree X).infoIndex)
            if hasFlag flags flagExecutable = true then pure PRes.ok
              else do
                let __do_lift ← tableHandle
                if (slot s.tree X).opcode = opScope ∧ (slot s.tree X).tableHandle = __do_lift then
                    if (slot s.tree X).firstArgIndex = invalidIndex then pure PRes.failed
                    else do
                      let __do_lift ← mergeScope d f X
                      match __do_lift with
                        | Sum.inl res => pure res
                        | Sum.inr firstArgIndex => mergeLoop d f firstArgIndex PRes.ok
                  else mergeLoop d f (slot s.tree X).firstArgIndex PRes.ok) sa
            (fun _ s' => MIJ b d s' ∧ s'.tableHandle = s.tableHandle ∧ ∃ Mvd', (∀ y, Mvd y → Mvd' y) ∧ Ctx s0 X0 Mvd' s') := by
        intro sa hta hha hrsa
        have ha : MIJ b d sa := ⟨⟨⟨by rw [hta]; exact h.tp.wf, by rw [hta]; exact h.tp.root, by rw [hta]; exact h.tp.info⟩,
          by rw [hta]; exact h.rootP, by rw [hta]; exact h.rootOp,
          fun x hx => by rw [hta]; exact h.shape x ⟨by rw [← hta]; exact hx.1, by rw [← hta]; exact hx.2.1,
            by rw [← hta, ← hha]; exact hx.2.2.1, by rw [← hta]; exact hx.2.2.2⟩⟩, fun hb => (h.mth hb).ofTree hta⟩
        have ctxa : Ctx s0 X0 Mvd sa := ctx.ofTree hta hha hrsa
        have hXla : live sa.tree X = true := by rw [hta]; exact hXl
        obtain ⟨fl, hfl⟩ := opFlags_of_info (h.tp.info X hXl)
        rw [hfl]
        refine NPs.step (optP_ex fl sa) ?_
        split
        · exact NPs.pure ⟨ha, hha, Mvd, fun _ hy => hy, ctxa⟩
        · refine NPs.step (tableHandle_ex sa) ?_
          split
          · rename_i hc
            split
            · exact NPs.pure ⟨ha, hha, Mvd, fun _ hy => hy, ctxa⟩
            · rename_i hfi
              have hdir : IsDir sa X := ⟨hXla, by rw [hta]; exact hc.1, by rw [hta]; exact hc.2, by rw [hta]; exact hfi⟩
              refine NPs.bind (mergeScope_np f w0 ha ctxa hdir hin) ?_
              intro r s1 hq
              obtain ⟨h1, hh1, Mvd1, hsub1, ctx1, hf1⟩ := hq
              cases r with
              | inl res => exact NPs.pure ⟨h1, by rw [hh1, hha], Mvd1, hsub1, ctx1⟩
              | inr f1 =>
                have hg : Good s0 X0 Mvd1 s1 f1 := by
                  rcases hf1 f1 rfl with e | ⟨e1, e2⟩
                  · exact Or.inl e
                  · exact Or.inr ⟨e1, ctx1.inside f1 e2, Or.inl e2⟩
                refine (ih.2 f1 PRes.ok w0 h1 ctx1 hg).mono ?_
                intro _ s' hq'
                obtain ⟨q1, q2, Mvd2, q3, q4⟩ := hq'
                exact ⟨q1, by rw [q2, hh1, hha], Mvd2, fun y hy => q3 y (hsub1 y hy), q4⟩
          · have hg : Good s0 X0 Mvd sa (slot s.tree X).firstArgIndex := by
              show Good s0 X0 Mvd sa (Fi s.tree X)
              by_cases hf0 : Fi s.tree X = INV
              · exact Or.inl hf0
              · right
                have lX := h.tp.wf.lP hXl
                have hfl' : live s.tree (Fi s.tree X) = true := by
                  rcases lX.lfi with h1 | h1
                  · exact absurd h1 hf0
                  · exact h1
                have hfp : C13.P s.tree (Fi s.tree X) = X := (lX.fi hf0).1
                refine ⟨by rw [hta]; exact hfl', ctx.inside_child w0 hfl' hfp hin, Or.inr (by rw [hta, hfp]; exact hin)⟩
            refine (ih.2 _ PRes.ok w0 ha ctxa hg).mono ?_
            intro _ s' hq'
            obtain ⟨q1, q2, Mvd2, q3, q4⟩ := hq'
            exact ⟨q1, by rw [q2, hha], Mvd2, q3, q4⟩
      dsimp only
      by_cases h00 : X = 0
      · rw [if_pos h00]
        refine NPs.step (s1 := { s with mergedScopes := 0 }) (a := ()) rfl ?_
        exact cont _ rfl rfl ⟨rfl, rfl, rfl, rfl⟩
      · rw [if_neg h00]
        exact cont s rfl rfl ⟨rfl, rfl, rfl, rfl⟩
    · intro s0 s X0 Mvd sib res w0 h ctx hg
      unfold mergeLoop
      by_cases h0 : sib = invalidIndex
      · rw [if_pos h0]; exact NPs.pure ⟨h, rfl, Mvd, fun _ hy => hy, ctx⟩
      · rw [if_neg h0]
        obtain ⟨hl, hins, hdisj⟩ : live s.tree sib = true ∧ anc s0.tree X0 sib ∧ (Mvd sib ∨ anc s0.tree X0 (C13.P s.tree sib)) := by
          rcases hg with h1 | h1
          · exact absurd h1 h0
          · exact h1
        have w := h.tp.wf
        refine NPs.step (objectAt_live' hl) ?_
        refine NPs.step (derefP_some_ex _) ?_
        refine NPs.step (getObj_live hl) ?_
        rw [w.index_eq sib (live_lt hl)]
        -- the call on `sib`, seen from the enclosing context and from its own
        have glob := ih.1 (s0 := s0) (X0 := X0) (Mvd := Mvd) sib w0 h ctx hl hins
        have loc := ih.1 (s0 := s) (X0 := sib) (Mvd := fun _ => False) sib w h (Ctx.refl s sib) hl (w.anc_self hl)
        refine NPs.bind (glob.and loc) ?_
        intro r s1 hq
        obtain ⟨⟨h1, hh1, Mvd1, hsub1, ctx1⟩, ⟨_, _, Ml, _, ctxl⟩⟩ := hq
        -- the sibling saved before the call
        have hgN : Good s0 X0 Mvd1 s1 (slot s.tree sib).nextSiblingIndex := by
          show Good s0 X0 Mvd1 s1 (Nx s.tree sib)
          by_cases hn : Nx s.tree sib = INV
          · exact Or.inl hn
          · right
            have ls := w.lP hl
            have hNl : live s.tree (Nx s.tree sib) = true := by
              rcases ls.lnx with h2 | h2
              · exact absurd h2 hn
              · exact h2
            have hNp : C13.P s.tree (Nx s.tree sib) = C13.P s.tree sib := (ls.nx hn).2
            have hNl1 : live s1.tree (Nx s.tree sib) = true := by
              cases hq : live s1.tree (Nx s.tree sib) with
              | true => rfl
              | false => exact absurd (ctxl.freed _ hNl hq) (sibling_not_desc w hl hn)
            by_cases hM : Mvd sib
            · have hMN : Mvd (Nx s.tree sib) := by
                rcases ctx.nx sib hl hM with h2 | h2
                · exact absurd h2 hn
                · exact h2
              exact ⟨hNl1, ctx.inside _ hMN, Or.inl (hsub1 _ hMN)⟩
            · have hq0 : anc s0.tree X0 (C13.P s.tree sib) := by
                rcases hdisj with h2 | h2
                · exact absurd h2 hM
                · exact h2
              have hNin : anc s0.tree X0 (Nx s.tree sib) := ctx.inside_child w0 hNl hNp hq0
              refine ⟨hNl1, hNin, ?_⟩
              by_cases hM1 : Mvd1 (Nx s.tree sib)
              · exact Or.inl hM1
              · right
                have hMN : ¬ Mvd (Nx s.tree sib) := fun hc => hM1 (hsub1 _ hc)
                have e1 : C13.P s1.tree (Nx s.tree sib) = C13.P s0.tree (Nx s.tree sib) := by
                  by_cases hne : C13.P s1.tree (Nx s.tree sib) = C13.P s0.tree (Nx s.tree sib)
                  · exact hne
                  · exact absurd (ctx1.moved _ hNl1 hne) hM1
                have e2 : C13.P s.tree (Nx s.tree sib) = C13.P s0.tree (Nx s.tree sib) := by
                  by_cases hne : C13.P s.tree (Nx s.tree sib) = C13.P s0.tree (Nx s.tree sib)
                  · exact hne
                  · exact absurd (ctx.moved _ hNl hne) hMN
                rw [e1, ← e2, hNp]; exact hq0
        have loop : ∀ res', NPs (mergeLoop d f (slot s.tree sib).nextSiblingIndex res') s1
            (fun _ s' => MIJ b d s' ∧ s'.tableHandle = s.tableHandle ∧ ∃ Mvd', (∀ y, Mvd y → Mvd' y) ∧ Ctx s0 X0 Mvd' s') := by
          intro res'
          refine (ih.2 _ res' w0 h1 ctx1 hgN).mono ?_
          intro _ s' hq'
          obtain ⟨q1, q2, Mvd2, q3, q4⟩ := hq'
          exact ⟨q1, by rw [q2, hh1], Mvd2, fun y hy => q3 y (hsub1 y hy), q4⟩
        cases r with
        | failed => exact NPs.pure ⟨h1, hh1, Mvd1, hsub1, ctx1⟩
        | requireExtraPass => exact loop _
        | ok => exact loop _
        | shortCircuit => exact loop _

/-! ## `relocateNamedObjects` keeps the merge invariant -/

/-- `detach(P m, m)`; `append(T, m)` for any live target outside the subtree of `m` (it may be the old parent) -/
theorem move_any {s : PState} (h : TP s) {T m : Nat} (hT : live s.tree T = true) (hm : live s.tree m = true)
    (hpl : live s.tree (C13.P s.tree m) = true) (hanc : C13.isAncestorOrSelf s.tree m s.tree.fuel T = false) :
    ∃ s1 s2, tree (·.detach (C13.P s.tree m) m) s = .ok ((), s1) ∧ tree (·.append T m) s1 = .ok ((), s2) ∧ TP s2 ∧ Mv s s2 ∧
      s2 = { s with tree := s2.tree } ∧ SamePay s.tree s2.tree ∧
      (∀ x, C13.P s2.tree x = if x = m then T else C13.P s.tree x) ∧
      (∀ x, x ≠ C13.P s.tree m → x ≠ T → Fi s2.tree x = Fi s.tree x ∧ La s2.tree x = La s.tree x) ∧
      (∀ x, x ≠ m → C13.P s.tree x ≠ C13.P s.tree m → C13.P s.tree x ≠ T → Nx s2.tree x = Nx s.tree x) ∧
      Fi s2.tree m = Fi s.tree m := by
  have w := h.wf
  have hpre : detachPre s.tree (C13.P s.tree m) m = true := by
    simp [detachPre, hpl, hm]
  obtain ⟨t1, e1, w1, hsz1, hl1, _, hP1, _, hNx1, hFi1, hLa1⟩ := detach_wf w hpre
  have sp1 := detach_samePay e1
  have h1 : TP { s with tree := t1 } := h.ofTree w1 hl1 sp1
  have hpre2 : appendPre t1 T m = true := by
    simp only [appendPre, Bool.and_eq_true, decide_eq_true_eq, Bool.not_eq_true']
    refine ⟨⟨⟨by rw [hl1]; exact hT, by rw [hl1]; exact hm⟩, by rw [hP1, if_pos rfl]⟩, ?_⟩
    have hf : t1.fuel = s.tree.fuel := by unfold ObjectTree.fuel; rw [hsz1]
    rw [hf, isAnc_congr (t := s.tree) (t' := t1) m (fun x hx => by rw [hP1, if_neg hx])]
    exact hanc
  obtain ⟨t2, e2, w2, hsz2, hl2, _, hP2, _, hNx2, hFi2, hLa2⟩ := append_wf w1 hpre2
  have sp2 := append_samePay e2
  have h2 : TP { s with tree := t2 } := by
    have := h1.ofTree (s := { s with tree := t1 }) w2 hl2 sp2
    exact this
  have hmp : m ≠ C13.P s.tree m := fun e => wf_P_ne_self w hm e.symm
  have hmT : m ≠ T := by
    intro e
    have : C13.isAncestorOrSelf s.tree m s.tree.fuel T = true := by
      unfold ObjectTree.fuel
      simp [C13.isAncestorOrSelf, e]
    rw [this] at hanc; cases hanc
  refine ⟨{ s with tree := t1 }, { s with tree := t2 }, tree_ex e1, tree_ex e2, h2,
    ⟨by show t2.pool.size = _; rw [hsz2, hsz1], fun x => by show live t2 x = _; rw [hl2, hl1], rfl, rfl, rfl, rfl, rfl⟩, rfl, sp1.trans sp2,
    ?_, ?_, ?_, ?_⟩
  · intro x
    show C13.P t2 x = _
    rw [hP2]
    split
    · rfl
    · rename_i hx; rw [hP1, if_neg hx]
  · intro x hxp hxT
    constructor
    · show Fi t2 x = _
      rw [hFi2, if_neg (fun hc => hxT hc.1), hFi1, if_neg (fun hc => hxp hc.1)]
    · show La t2 x = _
      rw [hLa2, if_neg hxT, hLa1, if_neg (fun hc => hxp hc.1)]
  · intro x hxm hxp hxT
    show Nx t2 x = _
    rw [hNx2, if_neg hxm]
    have hla1 : ¬ (x = La t1 T ∧ La t1 T ≠ INV) := by
      intro hc
      have hT1 : live t1 T = true := by rw [hl1]; exact hT
      have := ((w1.lP hT1).la hc.2).1
      rw [← hc.1, hP1, if_neg hxm] at this
      exact hxT this
    rw [if_neg hla1, hNx1, if_neg hxm]
    have hpv : ¬ (x = Pv s.tree m ∧ Pv s.tree m ≠ INV) := by
      intro hc
      have := ((w.lP hm).pv hc.2).2
      rw [← hc.1] at this
      exact hxp this
    rw [if_neg hpv]
  · show Fi t2 m = _
    rw [hFi2, if_neg (fun hc => hmT hc.1), hFi1, if_neg (fun hc => hmp hc.1)]

/-- moving an object that is not an argument of a `Scope` directive under a scope block keeps the merge invariant -/
theorem MI.reloc {d : Bytes} {s s2 : PState} (h : MI d s) (h2 : TP s2) (m2 : Mv s s2) (sp : SamePay s.tree s2.tree)
    {T m : Nat} (hT : live s.tree T = true) (hTop : (slot s.tree T).opcode = opIntScopeBlock)
    (hm : live s.tree m = true) (hpl : live s.tree (C13.P s.tree m) = true)
    (hnd : ∀ x, IsDir s x → C13.P s.tree m ≠ x)
    (hP : ∀ x, C13.P s2.tree x = if x = m then T else C13.P s.tree x)
    (hFL : ∀ x, x ≠ C13.P s.tree m → x ≠ T → Fi s2.tree x = Fi s.tree x ∧ La s2.tree x = La s.tree x)
    (hNx : ∀ x, x ≠ m → C13.P s.tree x ≠ C13.P s.tree m → C13.P s.tree x ≠ T → Nx s2.tree x = Nx s.tree x) : MI d s2 := by
  have w := h.tp.wf
  have hinv : ∀ j, live s.tree j = true → j ≠ INV := fun j hj => live_ne_INV w.size_le hj
  refine ⟨h2, ?_, by rw [pay_opcode (sp.pay 0)]; exact h.rootOp, ?_⟩
  · rw [hP, if_neg]
    · exact h.rootP
    · intro e
      have := hinv _ hpl
      rw [← e, h.rootP] at this
      exact this rfl
  · intro x hx
    obtain ⟨hxl, hxop, hxh, hxf⟩ := hx
    have hxl' : live s.tree x = true := by rw [← m2.live]; exact hxl
    have hxop' : (slot s.tree x).opcode = opScope := by rw [← pay_opcode (sp.pay x)]; exact hxop
    have hxh' : (slot s.tree x).tableHandle = s.tableHandle := by rw [← pay_handle (sp.pay x), hxh, m2.handle]
    have hxT : x ≠ T := fun e => scope_ne_block (by rw [← hxop', e, hTop])
    -- `x` is not the old parent of `m`: either it has no arguments (then it is nobody's parent) or it is a directive
    have hxp : x ≠ C13.P s.tree m := by
      intro e
      by_cases hf : Fi s.tree x = INV
      · exact fi_ne_of_child w hxl' hm e.symm hf
      · exact hnd x ⟨hxl', hxop', hxh', hf⟩ e.symm
    obtain ⟨hfx, hlx⟩ := hFL x hxp hxT
    have hdir : IsDir s x := ⟨hxl', hxop', hxh', by rw [← hfx]; exact hxf⟩
    have sh := h.shape x hdir
    have lx := w.lP hxl'
    have hnp : C13.P s.tree (Fi s.tree x) = x := (lx.fi hdir.2.2.2).1
    have hnl : live s.tree (Fi s.tree x) = true := by
      rcases lx.lfi with h0 | h0
      · exact absurd h0 hdir.2.2.2
      · exact h0
    have hnT : Fi s.tree x ≠ T := fun e => sh.nop (by rw [e, hTop])
    have hnpar : Fi s.tree x ≠ C13.P s.tree m := fun e => fi_ne_of_child w hnl hm e.symm sh.nkids
    have hnm : Fi s.tree x ≠ m := fun e => hxp (by rw [← hnp, e])
    refine sh.transfer (sp.pay x) hfx hlx (sp.pay _) (hFL _ hnpar hnT).1 ?_ (sp.pay _)
    exact hNx _ hnm (by rw [hnp]; exact hxp) (by rw [hnp]; exact hxT)

set_option maxRecDepth 100000 in
theorem scope_row_not_named : ∀ fl, opFlags (pOpcodeTableIndex opScope true) = some fl → hasFlag fl flagNamed = false := by
  have h : (opFlags (pOpcodeTableIndex opScope true)).all (fun fl => !hasFlag fl flagNamed) = true := by decide +kernel
  intro fl hfl
  rw [hfl] at h
  simpa using h

/-- a payload update of a slot that is not the name object of a directive keeps the merge invariant -/
theorem MI.upd {d : Bytes} {s s1 : PState} (h : MI d s) (h1 : TP s1) (m1 : Mv s s1) (sl : SameLinks s.tree s1.tree) {i : Nat}
    (hoth : ∀ x, x ≠ i → slot s1.tree x = slot s.tree x)
    (hpay : (slot s1.tree i).opcode = (slot s.tree i).opcode ∧ (slot s1.tree i).name = (slot s.tree i).name ∧
      (slot s1.tree i).tableHandle = (slot s.tree i).tableHandle ∧ (slot s1.tree i).infoIndex = (slot s.tree i).infoIndex)
    (hni : ∀ x, IsDir s x → Fi s.tree x ≠ i) : MI d s1 := by
  refine ⟨h1, by rw [sl.p]; exact h.rootP, ?_, ?_⟩
  · by_cases h0 : (0 : Nat) = i
    · rw [h0, hpay.1, ← h0]; exact h.rootOp
    · rw [hoth 0 h0]; exact h.rootOp
  · intro x hx
    obtain ⟨hxl, hxop, hxh, hxf⟩ := hx
    have hop : ∀ y, (slot s1.tree y).opcode = (slot s.tree y).opcode := by
      intro y; by_cases hy : y = i
      · rw [hy]; exact hpay.1
      · rw [hoth y hy]
    have hdir : IsDir s x := ⟨by rw [← sl.live]; exact hxl, by rw [← hop]; exact hxop, by
      by_cases hy : x = i
      · rw [← m1.handle, ← hxh, hy, hpay.2.2.1]
      · rw [← m1.handle, ← hxh, hoth x hy], by rw [← sl.fi]; exact hxf⟩
    have sh := h.shape x hdir
    have hn := hni x hdir
    refine ⟨?_, ?_, by rw [sl.fi, sl.fi]; exact sh.nkids, by rw [sl.fi, sl.nx, sl.la]; exact sh.two,
      by rw [sl.la, hop]; exact sh.cop, by rw [sl.fi, hop]; exact sh.nop, ?_⟩
    · by_cases hy : x = i
      · rw [hy, hpay.2.1, ← hy]; exact sh.name0
      · rw [hoth x hy]; exact sh.name0
    · by_cases hy : x = i
      · rw [hy, hpay.2.2.2, ← hy]; exact sh.info
      · rw [hoth x hy]; exact sh.info
    · obtain ⟨off, len, hv, he⟩ := sh.val
      exact ⟨off, len, by rw [sl.fi, hoth _ hn]; exact hv, he⟩

/-- the relocation of one named object keeps the merge invariant -/
theorem relocateOne_mi (d : Bytes) (fuel : Nat) {s : PState} (h : MIJ b d s) {obj : Nat} (ho : live s.tree obj = true)
    (hp : C13.P s.tree obj ≠ INV) (hfi : Fi s.tree obj ≠ INV) (hnsb : (slot s.tree obj).opcode ≠ opIntScopeBlock)
    (hnamed : ∃ fl, opFlags (slot s.tree obj).infoIndex = some fl ∧ hasFlag fl flagNamed = true)
    (off len : Nat) (bytes : List UInt8) :
    NPs (relocateOne d fuel obj off len bytes) s (fun _ s' => MIJ b d s' ∧ Mv s s' ∧ KeepAtt s s') := by
  have htp := h.tp
  have w := htp.wf
  unfold relocateOne
  refine NPs.step (a := s.tree) (s1 := s) rfl ?_
  have hn : ∀ i, live s.tree i = true → (namedInfo (slot s.tree i).infoIndex).isSome = true := by
    intro i hi
    obtain ⟨fl, hfl⟩ := opFlags_of_info (htp.info i hi)
    unfold namedInfo; rw [hfl]; rfl
  obtain ⟨anc0, eanc, hanc0⟩ := closestNamedAncestor_total' w namedInfo hn obj ho
  have e1 : liftR (s.tree.ClosestNamedAncestor namedInfo (some obj)) s = .ok (anc0, s) := by
    unfold liftR; rw [eanc]; rfl
  refine NPs.step e1 ?_
  obtain ⟨ti, efind, hti⟩ := find_total' w htp.root anc0 hanc0 (bytes.take (len - Gen.C12.amlNameLen))
  have e2 : liftR (s.tree.Find anc0 (bytes.take (len - Gen.C12.amlNameLen))) s = .ok (ti, s) := by
    unfold liftR; rw [efind]; rfl
  refine NPs.step e2 ?_
  by_cases hti0 : ti = invalidIndex
  · rw [if_pos hti0]
    refine NPs.step (passCounters_ex s) ?_
    split
    · exact NPs.pure ⟨h, Mv.refl s, KeepAtt.refl s⟩
    · exact NPs.pure ⟨h, Mv.refl s, KeepAtt.refl s⟩
  · rw [if_neg hti0]
    have htl : live s.tree ti = true := by
      rcases hti with h1 | h1
      · exact absurd h1 hti0
      · exact h1
    refine NPs.step (objectAt_live' htl) ?_
    refine NPs.step (derefP_some_ex _) ?_
    refine NPs.bind (scopeBlockOf_np' htp fuel htl) ?_
    intro r s1 hq
    obtain ⟨hs1, hr⟩ := hq
    subst hs1
    cases r with
    | none => exact NPs.pure ⟨h, Mv.refl _, KeepAtt.refl _⟩
    | some target =>
      obtain ⟨htg, htop, _⟩ := hr target rfl
      refine NPs.step (getObj_live htg) ?_
      rw [w.index_eq target (live_lt htg)]
      refine NPs.bind (isAncP_np htp ho fuel target htg) ?_
      intro b s2 hq2
      obtain ⟨hs2, hb⟩ := hq2
      subst hs2
      cases b with
      | true => exact NPs.pure ⟨h, Mv.refl _, KeepAtt.refl _⟩
      | false =>
        have hnanc := hb rfl
        have hpl : live s2.tree (C13.P s2.tree obj) = true := by
          rcases (w.lP ho).lp with h1 | h1
          · exact absurd h1 hp
          · exact h1
        refine NPs.step (getObj_live ho) ?_
        refine NPs.step (objectAt_live' hpl) ?_
        refine NPs.step (derefP_some_ex _) ?_
        obtain ⟨s3, s4, e3, e4, h4, m4, hs4, sp4, hP4, hFL4, hNx4, hFo4⟩ := move_any htp htg ho hpl (hnanc _)
        refine NPs.step e3 ?_
        refine NPs.step e4 ?_
        -- the old parent is not a directive: `obj` has arguments and is not a scope block
        have hnd : ∀ x, IsDir s2 x → C13.P s2.tree obj ≠ x := by
          intro x hx e
          have shx := h.shape x hx
          rcases dir_kids w hx.1 hx.2.2.2 shx ho e with e' | e'
          · exact hfi (by rw [e']; exact shx.nkids)
          · exact hnsb (by rw [e']; exact shx.cop)
        have hi4 : MIJ b d s4 := ⟨h.toMI.reloc h4 m4 sp4 htg htop ho hpl hnd hP4 hFL4 hNx4, fun hb =>
          (h.mth hb).move w m4.live sp4 ho hpl htg hP4 (fun x h1 h2 => (hFL4 x h1 h2).1) hNx4
            ((h.mth hb).parent_not_method w ho hpl (Or.inl ⟨hfi, hnsb⟩)) (by rw [htop]; exact sb_ne_method) (Or.inr htop)⟩
        have ho4 : live s4.tree obj = true := by rw [m4.live]; exact ho
        refine NPs.step (getObj_live ho4) ?_
        have hfl4 : live s4.tree (Fi s4.tree obj) = true := by
          rcases (h4.wf.lP ho4).lfi with h1 | h1
          · rw [hFo4] at h1; exact absurd h1 hfi
          · exact h1
        refine NPs.step (objectAt_live' hfl4) ?_
        refine NPs.step (derefP_some_ex _) ?_
        have hfv : ∃ fv : Obj → Obj, fv = fun fo => { fo with value := .bytes (off + (len - Gen.C12.amlNameLen)) (len - (len - Gen.C12.amlNameLen)) } :=
          ⟨_, rfl⟩
        obtain ⟨fv, hfvd⟩ := hfv
        rw [← hfvd]
        have hkl : KeepsLinks fv := by rw [hfvd]; keeps_links
        have hklv : KeepsLive s4.tree (Fi s4.tree obj) fv := by rw [hfvd]; exact Iff.rfl
        obtain ⟨s5, e5, h5, m5, sl5⟩ := updObj_tp h4 hfl4 fv hkl hklv (by rw [hfvd]; exact h4.info _ hfl4)
        refine NPs.step e5 ?_
        have hs5 : s5 = { s4 with tree := setAt s4.tree (Fi s4.tree obj) fv } := by
          have := updObj_ex (s := s4) fv (live_lt hfl4)
          rw [this] at e5; cases e5; rfl
        have hlt4 := live_lt hfl4
        have hoth5 : ∀ x, x ≠ Fi s4.tree obj → slot s5.tree x = slot s4.tree x := by
          intro x hx
          rw [hs5]; show slot (setAt s4.tree _ _) x = _
          rw [slot_setAt', if_neg (fun hc => hx hc.1.symm)]
        have hself5 : slot s5.tree (Fi s4.tree obj) = fv (slot s4.tree (Fi s4.tree obj)) := by
          rw [hs5]; show slot (setAt s4.tree _ _) _ = _
          rw [slot_setAt', if_pos ⟨rfl, hlt4⟩]
        -- `obj` is not a directive (it is named), so its first argument is not a directive's name object
        have hni : ∀ x, IsDir s4 x → Fi s4.tree x ≠ Fi s4.tree obj := by
          intro x hx e
          have hpx : C13.P s4.tree (Fi s4.tree x) = x := ((h4.wf.lP hx.1).fi hx.2.2.2).1
          have hpo : C13.P s4.tree (Fi s4.tree obj) = obj := ((h4.wf.lP ho4).fi (by rw [hFo4]; exact hfi)).1
          have hxo : x = obj := by rw [← hpx, e, hpo]
          have shx := hi4.shape x hx
          obtain ⟨fl, hfl, hnm⟩ := hnamed
          have hinfo : (slot s4.tree obj).infoIndex = (slot s2.tree obj).infoIndex := pay_info (sp4.pay obj)
          have := scope_row_not_named fl (by rw [← shx.info, hxo, hinfo]; exact hfl)
          rw [hnm] at this; cases this
        have hi5 : MIJ b d s5 := ⟨hi4.toMI.upd h5 m5 sl5 hoth5 (by rw [hself5, hfvd]; exact ⟨rfl, rfl, rfl, rfl⟩) hni, fun hb =>
          (hi4.mth hb).upd h4.wf sl5 hoth5 (by rw [hself5, hfvd]) (by rw [hself5, hfvd])
            (Or.inr ((h4.wf.lP ho4).fi (by rw [hFo4]; exact hfi)).2) (Or.inr ⟨_, _, by rw [hself5, hfvd]⟩)⟩
        have e6 : (modify fun s => { s with relocatedObjects := u32 (s.relocatedObjects + 1) } : P Unit) s5 =
            .ok ((), { s5 with relocatedObjects := u32 (s5.relocatedObjects + 1) }) := rfl
        refine NPs.step e6 ?_
        refine NPs.pure ⟨⟨⟨⟨h5.wf, h5.root, h5.info⟩, hi5.rootP, hi5.rootOp, fun x hx => hi5.shape x hx⟩,
          fun hb => (hi5.mth hb).ofTree rfl⟩, ⟨?_, ?_, ?_, ?_⟩, ?_⟩
        · show s5.tree.pool.size = _
          rw [m5.size, m4.size]
        · intro x; show live s5.tree x = _
          rw [m5.live, m4.live]
        · show s5.tableHandle = _
          rw [m5.handle, m4.handle]
        · exact (m4.trans m5).rs
        · intro x hx
          show C13.P s5.tree x ≠ INV
          rw [sl5.p, hP4]
          split
          · exact live_ne_INV w.size_le htg
          · exact hx

theorem relocateNamed_mi (d : Bytes) (fuel : Nat) {s : PState} (h : MIJ b d s) {obj : Nat} (ho : live s.tree obj = true)
    (hp : C13.P s.tree obj ≠ INV) (hfi : Fi s.tree obj ≠ INV) (hnsb : (slot s.tree obj).opcode ≠ opIntScopeBlock)
    (hnamed : ∃ fl, opFlags (slot s.tree obj).infoIndex = some fl ∧ hasFlag fl flagNamed = true) :
    NPs (relocateNamed d fuel obj) s (fun _ s' => MIJ b d s' ∧ Mv s s' ∧ KeepAtt s s') := by
  unfold relocateNamed
  refine NPs.step (getObj_live ho) ?_
  have hfl : live s.tree (Fi s.tree obj) = true := by
    rcases (h.tp.wf.lP ho).lfi with h1 | h1
    · exact absurd h1 hfi
    · exact h1
  refine NPs.step (objectAt_live' hfl) ?_
  refine NPs.step (derefP_some_ex _) ?_
  refine NPs.step (getObj_live hfl) ?_
  split
  · exact NPs.pure ⟨h, Mv.refl s, KeepAtt.refl s⟩
  · split
    · exact relocateOne_mi d fuel h ho hp hfi hnsb hnamed _ _ _
    · exact NPs.pure ⟨h, Mv.refl s, KeepAtt.refl s⟩

/-- `relocateNamedObjects` and its loop over the children, by induction on the fuel -/
theorem relocate_mi (d : Bytes) : ∀ (f : Nat),
    (∀ {s : PState} (objIndex : Nat), MIJ b d s → live s.tree objIndex = true →
      (C13.P s.tree objIndex ≠ INV ∨ (slot s.tree objIndex).opcode = opIntScopeBlock) →
      NPs (relocateNamedObjects d f objIndex) s (fun _ s' => MIJ b d s' ∧ Mv s s' ∧ KeepAtt s s')) ∧
    (∀ {s : PState} (sib : Nat) (res : PRes), MIJ b d s → (sib = INV ∨ (live s.tree sib = true ∧ C13.P s.tree sib ≠ INV)) →
      NPs (relocateLoop d f sib res) s (fun _ s' => MIJ b d s' ∧ Mv s s' ∧ KeepAtt s s')) := by
  intro f
  induction f with
  | zero =>
    constructor
    · intro s _ _ _ _; unfold relocateNamedObjects; exact NPs.fuel
    · intro s _ _ _ _; unfold relocateLoop; exact NPs.fuel
  | succ f ih =>
    constructor
    · intro s objIndex h ho hroot
      unfold relocateNamedObjects
      refine NPs.step (objectAt_live' ho) ?_
      refine NPs.step (derefP_some_ex _) ?_
      refine NPs.step (getObj_live ho) ?_
      obtain ⟨fl, hfl⟩ := opFlags_of_info (h.tp.info objIndex ho)
      rw [hfl]
      refine NPs.step (optP_ex fl s) ?_
      -- the counter reset does not touch the tree
      have cont : ∀ s0 : PState, s0.tree = s.tree → s0.tableHandle = s.tableHandle →
          (s0.r = s.r ∧ s0.scopeStack = s.scopeStack ∧ s0.pkgEndStack = s.pkgEndStack ∧ s0.streamEnd = s.streamEnd) →
          NPs (if hasFlag fl flagExecutable = true then pure PRes.ok
            else do
              let __do_lift ← tableHandle
              if hasFlag fl flagNamed = true ∧ (slot s.tree objIndex).firstArgIndex ≠ invalidIndex ∧
                    (slot s.tree objIndex).tableHandle = __do_lift ∧ (slot s.tree objIndex).opcode ≠ opIntScopeBlock then do
                  let __do_lift ← relocateNamed d f objIndex
                  match __do_lift with
                    | Sum.inl res => pure res
                    | Sum.inr val => do
                      let __do_lift ← getObj objIndex
                      relocateLoop d f __do_lift.firstArgIndex PRes.ok
                else relocateLoop d f (slot s.tree objIndex).firstArgIndex PRes.ok) s0
            (fun _ s' => MIJ b d s' ∧ Mv s s' ∧ KeepAtt s s') := by
        intro s0 ht0 hh0 hrs0
        have h0 : MIJ b d s0 := ⟨⟨⟨by rw [ht0]; exact h.tp.wf, by rw [ht0]; exact h.tp.root, by rw [ht0]; exact h.tp.info⟩,
          by rw [ht0]; exact h.rootP, by rw [ht0]; exact h.rootOp,
          fun x hx => by rw [ht0]; exact h.shape x ⟨by rw [← ht0]; exact hx.1, by rw [← ht0]; exact hx.2.1,
            by rw [← ht0, ← hh0]; exact hx.2.2.1, by rw [← ht0]; exact hx.2.2.2⟩⟩, fun hb => (h.mth hb).ofTree ht0⟩
        have m0 : Mv s s0 := ⟨by rw [ht0], fun x => by rw [ht0], hh0, hrs0⟩
        have k0 : KeepAtt s s0 := fun x hx => by rw [ht0]; exact hx
        have ho0 : live s0.tree objIndex = true := by rw [ht0]; exact ho
        have kids : ∀ {s1 : PState}, MIJ b d s1 → live s1.tree objIndex = true →
            (Fi s1.tree objIndex = INV ∨ (live s1.tree (Fi s1.tree objIndex) = true ∧ C13.P s1.tree (Fi s1.tree objIndex) ≠ INV)) := by
          intro s1 h1 ho1
          by_cases hf : Fi s1.tree objIndex = INV
          · exact Or.inl hf
          · right
            have l1 := h1.tp.wf.lP ho1
            refine ⟨?_, ?_⟩
            · rcases l1.lfi with h2 | h2
              · exact absurd h2 hf
              · exact h2
            · rw [(l1.fi hf).1]; exact live_ne_INV h1.tp.wf.size_le ho1
        split
        · exact NPs.pure ⟨h0, m0, k0⟩
        · refine NPs.step (tableHandle_ex s0) ?_
          split
          · rename_i hc
            have hp : C13.P s0.tree objIndex ≠ INV := by
              rw [ht0]
              rcases hroot with h1 | h1
              · exact h1
              · exact absurd h1 hc.2.2.2
            have hfi : Fi s0.tree objIndex ≠ INV := by rw [ht0]; exact hc.2.1
            refine NPs.bind (relocateNamed_mi d f h0 ho0 hp hfi (by rw [ht0]; exact hc.2.2.2) ⟨fl, by rw [ht0]; exact hfl, hc.1⟩) ?_
            intro r s1 hq
            obtain ⟨h1, m1, k1⟩ := hq
            cases r with
            | inl res => exact NPs.pure ⟨h1, m0.trans m1, k0.trans k1⟩
            | inr _ =>
              have ho1 : live s1.tree objIndex = true := by rw [m1.live]; exact ho0
              refine NPs.step (getObj_live ho1) ?_
              exact (ih.2 _ PRes.ok h1 (kids h1 ho1)).mono
                (fun a s' hq => ⟨hq.1, (m0.trans m1).trans hq.2.1, (k0.trans k1).trans hq.2.2⟩)
          · have := kids h0 ho0
            rw [ht0] at this
            exact (ih.2 _ PRes.ok h0 (by rw [ht0]; exact this)).mono
              (fun a s' hq => ⟨hq.1, m0.trans hq.2.1, k0.trans hq.2.2⟩)
      dsimp only
      by_cases h00 : objIndex = 0
      · rw [if_pos h00]
        refine NPs.step (s1 := { s with relocatedObjects := 0 }) (a := ()) rfl ?_
        exact cont _ rfl rfl ⟨rfl, rfl, rfl, rfl⟩
      · rw [if_neg h00]
        exact cont s rfl rfl ⟨rfl, rfl, rfl, rfl⟩
    · intro s sib res h hsib
      unfold relocateLoop
      by_cases h0 : sib = invalidIndex
      · rw [if_pos h0]; exact NPs.pure ⟨h, Mv.refl s, KeepAtt.refl s⟩
      · rw [if_neg h0]
        obtain ⟨hl, hp⟩ : live s.tree sib = true ∧ C13.P s.tree sib ≠ INV := by
          rcases hsib with h1 | h1
          · exact absurd h1 h0
          · exact h1
        refine NPs.step (objectAt_live' hl) ?_
        refine NPs.step (derefP_some_ex _) ?_
        refine NPs.step (getObj_live hl) ?_
        rw [h.tp.wf.index_eq sib (live_lt hl)]
        refine NPs.bind (ih.1 sib h hl (Or.inl hp)) ?_
        intro r s1 hq
        obtain ⟨h1, m1, k1⟩ := hq
        -- the sibling saved before the call is still a live attached object
        have hnext : Nx s.tree sib = INV ∨ (live s1.tree (Nx s.tree sib) = true ∧ C13.P s1.tree (Nx s.tree sib) ≠ INV) := by
          by_cases hn : Nx s.tree sib = INV
          · exact Or.inl hn
          · right
            have l := h.tp.wf.lP hl
            refine ⟨?_, ?_⟩
            · rw [m1.live]
              rcases l.lnx with h2 | h2
              · exact absurd h2 hn
              · exact h2
            · apply k1
              rw [(l.nx hn).2]; exact hp
        have loop : ∀ res', NPs (relocateLoop d f (slot s.tree sib).nextSiblingIndex res') s1
            (fun _ s' => MIJ b d s' ∧ Mv s s' ∧ KeepAtt s s') := by
          intro res'
          exact (ih.2 _ res' h1 hnext).mono (fun a s' hq => ⟨hq.1, m1.trans hq.2.1, k1.trans hq.2.2⟩)
        cases r with
        | failed => exact NPs.pure ⟨h1, m1, k1⟩
        | requireExtraPass => exact loop _
        | ok => exact loop _
        | shortCircuit => exact loop _


/-! ## the resolve loop -/

/-- a change of the counters keeps the merge invariant -/
theorem MI.ofTree {d : Bytes} {s s' : PState} (h : MI d s) (ht : s'.tree = s.tree) (hh : s'.tableHandle = s.tableHandle) :
    MI d s' :=
  ⟨⟨by rw [ht]; exact h.tp.wf, by rw [ht]; exact h.tp.root, by rw [ht]; exact h.tp.info⟩,
   by rw [ht]; exact h.rootP, by rw [ht]; exact h.rootOp,
   fun x hx => by rw [ht]; exact h.shape x ⟨by rw [← ht]; exact hx.1, by rw [← ht]; exact hx.2.1,
     by rw [← ht, ← hh]; exact hx.2.2.1, by rw [← ht]; exact hx.2.2.2⟩⟩

/-- the `for ; ; p.resolvePasses++` loop of `ParseAML`: `mergeScopeDirectives` and `relocateNamedObjects` in turn -/
theorem MIJ.ofTree {d : Bytes} {s s' : PState} (h : MIJ b d s) (ht : s'.tree = s.tree) (hh : s'.tableHandle = s.tableHandle) :
    MIJ b d s' := ⟨h.toMI.ofTree ht hh, fun hb => (h.mth hb).ofTree ht⟩

/-- the `for ; ; p.resolvePasses++` loop of `ParseAML`: `mergeScopeDirectives` and `relocateNamedObjects` in turn -/
theorem resolveLoopPasses_np (d : Bytes) (fuel : Nat) : ∀ (n : Nat) {s : PState}, MIJ b d s →
    NPs (resolveLoopPasses d fuel n) s (fun _ s' => MIJ b d s' ∧ Shr s s') := by
  intro n
  induction n with
  | zero => intro s _; unfold resolveLoopPasses; exact NPs.fuel
  | succ n ih =>
    intro s h
    unfold resolveLoopPasses
    have hm := (merge_np d fuel).1 (s0 := s) (X0 := 0) (Mvd := fun _ => False) 0 h.tp.wf h (Ctx.refl s 0) h.tp.root
      (h.tp.wf.anc_self h.tp.root)
    refine NPs.bind hm ?_
    intro mres s1 hq
    obtain ⟨h1, _, _, _, ctx1⟩ := hq
    have sh1 : Shr s s1 := ctx1.shr
    split
    · exact NPs.pure ⟨h1, sh1⟩
    · refine NPs.bind ((relocate_mi d fuel).1 0 h1 h1.tp.root (Or.inr h1.rootOp)) ?_
      intro rres s2 hq2
      obtain ⟨h2, m2, _⟩ := hq2
      have sh2 : Shr s s2 := sh1.trans (Shr.ofMv m2)
      split
      · exact NPs.pure ⟨h2, sh2⟩
      · split
        · exact NPs.pure ⟨h2, sh2⟩
        · refine NPs.step (s1 := { s2 with resolvePasses := u32 (s2.resolvePasses + 1) }) (a := ()) rfl ?_
          have := ih (s := { s2 with resolvePasses := u32 (s2.resolvePasses + 1) }) (h2.ofTree rfl rfl)
          exact this.mono (fun _ s' hq' => ⟨hq'.1, sh2.trans ⟨hq'.2.size, hq'.2.live, hq'.2.handle, hq'.2.rs⟩⟩)

/-! ## `connectNamedObjArgs` keeps the merge invariant -/

/-- an object whose table row is a named one is not a `Scope` directive -/
theorem named_not_dir {d : Bytes} {s : PState} (h : MI d s) {y : Nat}
    (hn : ∃ fl, opFlags (slot s.tree y).infoIndex = some fl ∧ hasFlag fl flagNamed = true) : ¬ IsDir s y := by
  intro hd
  obtain ⟨fl, hfl, hnm⟩ := hn
  have := scope_row_not_named fl (by rw [← (h.shape y hd).info]; exact hfl)
  rw [hnm] at this; cases this

/-- moving an object that is not an argument of a directive under an object that is neither a directive nor
childless keeps the merge invariant -/
theorem MI.reloc' {d : Bytes} {s s2 : PState} (h : MI d s) (h2 : TP s2) (m2 : Mv s s2) (sp : SamePay s.tree s2.tree)
    {T m : Nat} (hT : live s.tree T = true) (hTd : ¬ IsDir s T) (hTf : Fi s.tree T ≠ INV)
    (hm : live s.tree m = true) (hpl : live s.tree (C13.P s.tree m) = true)
    (hnd : ∀ x, IsDir s x → C13.P s.tree m ≠ x)
    (hP : ∀ x, C13.P s2.tree x = if x = m then T else C13.P s.tree x)
    (hFL : ∀ x, x ≠ C13.P s.tree m → x ≠ T → Fi s2.tree x = Fi s.tree x ∧ La s2.tree x = La s.tree x)
    (hNx : ∀ x, x ≠ m → C13.P s.tree x ≠ C13.P s.tree m → C13.P s.tree x ≠ T → Nx s2.tree x = Nx s.tree x) : MI d s2 := by
  have w := h.tp.wf
  have hinv : ∀ j, live s.tree j = true → j ≠ INV := fun j hj => live_ne_INV w.size_le hj
  refine ⟨h2, ?_, by rw [pay_opcode (sp.pay 0)]; exact h.rootOp, ?_⟩
  · rw [hP, if_neg]
    · exact h.rootP
    · intro e
      have := hinv _ hpl
      rw [← e, h.rootP] at this
      exact this rfl
  · intro x hx
    obtain ⟨hxl, hxop, hxh, hxf⟩ := hx
    have hxl' : live s.tree x = true := by rw [← m2.live]; exact hxl
    have hxop' : (slot s.tree x).opcode = opScope := by rw [← pay_opcode (sp.pay x)]; exact hxop
    have hxh' : (slot s.tree x).tableHandle = s.tableHandle := by rw [← pay_handle (sp.pay x), hxh, m2.handle]
    have hxT : x ≠ T := by
      intro e
      exact hTd ⟨hT, by rw [← e]; exact hxop', by rw [← e]; exact hxh', hTf⟩
    have hxp : x ≠ C13.P s.tree m := by
      intro e
      by_cases hf : Fi s.tree x = INV
      · exact fi_ne_of_child w hxl' hm e.symm hf
      · exact hnd x ⟨hxl', hxop', hxh', hf⟩ e.symm
    obtain ⟨hfx, hlx⟩ := hFL x hxp hxT
    have hdir : IsDir s x := ⟨hxl', hxop', hxh', by rw [← hfx]; exact hxf⟩
    have sh := h.shape x hdir
    have lx := w.lP hxl'
    have hnp : C13.P s.tree (Fi s.tree x) = x := (lx.fi hdir.2.2.2).1
    have hnl : live s.tree (Fi s.tree x) = true := by
      rcases lx.lfi with h0 | h0
      · exact absurd h0 hdir.2.2.2
      · exact h0
    have hnT : Fi s.tree x ≠ T := fun e => hTf (by rw [← e]; exact sh.nkids)
    have hnpar : Fi s.tree x ≠ C13.P s.tree m := fun e => fi_ne_of_child w hnl hm e.symm sh.nkids
    have hnm : Fi s.tree x ≠ m := fun e => hxp (by rw [← hnp, e])
    refine sh.transfer (sp.pay x) hfx hlx (sp.pay _) (hFL _ hnpar hnT).1 ?_ (sp.pay _)
    exact hNx _ hnm (by rw [hnp]; exact hxp) (by rw [hnp]; exact hxT)

/-- `attachSiblingsAsArgs` without parent siblings, on a named non-scope-block object with arguments -/
theorem attach_mi {d : Bytes} (parentObj targetObj : Nat) :
    ∀ (n sib0 : Nat) {s : PState}, MIJ b d s → live s.tree targetObj = true →
      (∃ fl, opFlags (slot s.tree targetObj).infoIndex = some fl ∧ hasFlag fl flagNamed = true) →
      (slot s.tree targetObj).opcode ≠ opIntScopeBlock → Fi s.tree targetObj ≠ INV → sib0 = Nx s.tree targetObj →
      (b → (slot s.tree targetObj).opcode ≠ opMethod) →
      NPs (attachSiblingsAsArgs parentObj targetObj false n sib0) s (fun _ s' => MIJ b d s' ∧ Mv s s') := by
  intro n
  induction n with
  | zero =>
    intro sib0 s h _ _ _ _ _ _
    unfold attachSiblingsAsArgs
    exact NPs.pure ⟨h, Mv.refl s⟩
  | succ n ih =>
    intro sib0 s h ht hnamed hnsb hfi hsib hnM
    have w := h.tp.wf
    have hinv : ∀ j, live s.tree j = true → j ≠ INV := fun j hj => live_ne_INV w.size_le hj
    unfold attachSiblingsAsArgs
    dsimp only
    rw [if_neg (fun hc => by cases hc.2)]
    refine NPs.step (a := sib0) (s1 := s) rfl ?_
    by_cases hS0 : sib0 = invalidIndex
    · rw [if_pos hS0]
      exact NPs.pure ⟨h, Mv.refl s⟩
    · rw [if_neg hS0]
      have lt := w.lP ht
      have hnx : Nx s.tree targetObj ≠ INV := by rw [← hsib]; exact hS0
      have hSl : live s.tree sib0 = true := by
        rcases lt.lnx with h1 | h1
        · exact absurd h1 hnx
        · rw [hsib]; exact h1
      obtain ⟨hpv, hpp⟩ := lt.nx hnx
      rw [← hsib] at hpv hpp
      have hpt : C13.P s.tree targetObj ≠ INV := fun e => hnx (lt.det e).2
      have hpl : live s.tree (C13.P s.tree sib0) = true := by
        rw [hpp]
        rcases lt.lp with h1 | h1
        · exact absurd h1 hpt
        · exact h1
      have hne : targetObj ≠ sib0 := by rw [hsib]; exact fun e => wf_Nx_ne_self w ht e.symm
      have hanc : C13.isAncestorOrSelf s.tree sib0 s.tree.fuel targetObj = false := by
        cases hq : C13.isAncestorOrSelf s.tree sib0 s.tree.fuel targetObj with
        | false => rfl
        | true =>
          exfalso
          obtain ⟨f', _, _, h2⟩ := isAnc_step hq hne
          rw [← hpp] at h2
          exact anc_parent_absurd w hSl rfl hpl h2
      refine NPs.step (objectAt_live' hSl) ?_
      refine NPs.step (derefP_some_ex _) ?_
      refine NPs.step (getObj_live hSl) ?_
      refine NPs.step (objectAt_live' hpl) ?_
      refine NPs.step (derefP_some_ex _) ?_
      obtain ⟨s1, s2, e1, e2, h2, m2, hs2, sp2, hP2, hFL2, hNx2, _⟩ := move_any h.tp ht hSl hpl hanc
      refine NPs.step e1 ?_
      refine NPs.step e2 ?_
      -- the common parent is not a directive: `targetObj` has arguments and is not a scope block
      have hnd : ∀ x, IsDir s x → C13.P s.tree sib0 ≠ x := by
        intro x hx e
        have shx := h.shape x hx
        rcases dir_kids w hx.1 hx.2.2.2 shx ht (by rw [← hpp]; exact e) with e' | e'
        · exact hfi (by rw [e']; exact shx.nkids)
        · exact hnsb (by rw [e']; exact shx.cop)
      have hi2 : MIJ b d s2 := ⟨h.toMI.reloc' h2 m2 sp2 ht (named_not_dir h.toMI hnamed) hfi hSl hpl hnd hP2 hFL2 hNx2, fun hb =>
        (h.mth hb).move w m2.live sp2 hSl hpl ht hP2 (fun x h1 h2 => (hFL2 x h1 h2).1) hNx2
          (by
            have hplt : live s.tree (C13.P s.tree targetObj) = true := by rw [← hpp]; exact hpl
            rw [hpp]; exact (h.mth hb).parent_not_method w ht hplt (Or.inl ⟨hfi, hnsb⟩))
          (hnM hb) (Or.inl hfi)⟩
      have ht2 : live s2.tree targetObj = true := by rw [m2.live]; exact ht
      have hS2 : live s2.tree sib0 = true := by rw [m2.live]; exact hSl
      have hfi2 : Fi s2.tree targetObj ≠ INV := fi_ne_of_child h2.wf ht2 hS2 (by rw [hP2, if_pos rfl])
      -- what follows `targetObj` now
      have hnxt : Nx s.tree sib0 = Nx s2.tree targetObj := by
        -- via the link effects of `move_step` (same operations, same results)
        obtain ⟨s1', s2', e1', e2', _, _, _, _, _, hNx2'⟩ := move_step h.tp ht hSl rfl hpl
          (by rw [hpp]; exact fun e => wf_P_ne_self w ht e.symm) hanc
        have hs1 : s1' = s1 := by rw [e1] at e1'; cases e1'; rfl
        subst hs1
        have hs2' : s2' = s2 := by rw [e2] at e2'; cases e2'; rfl
        subst hs2'
        rw [hNx2', if_neg hne]
        have hlat : La s.tree targetObj ≠ targetObj := by
          intro e
          have := (lt.la (by rw [e]; exact hinv _ ht)).1
          rw [e] at this
          exact wf_P_ne_self w ht this
        rw [if_neg (fun hc => hlat hc.1.symm), if_pos ⟨hpv.symm, by rw [hpv]; exact hinv _ ht⟩]
      have := ih (Nx s.tree sib0) hi2 ht2
        (by obtain ⟨fl, hfl, hnm⟩ := hnamed; exact ⟨fl, by rw [pay_info (sp2.pay targetObj)]; exact hfl, hnm⟩)
        (by rw [pay_opcode (sp2.pay targetObj)]; exact hnsb) hfi2 hnxt
        (fun hb => by rw [pay_opcode (sp2.pay targetObj)]; exact hnM hb)
      exact this.mono (fun _ s' hq => ⟨hq.1, m2.trans hq.2⟩)

/-- a payload update of a slot that is neither a directive nor the name object of one keeps the merge invariant
(the name may change) -/
theorem MI.upd' {d : Bytes} {s s1 : PState} (h : MI d s) (h1 : TP s1) (m1 : Mv s s1) (sl : SameLinks s.tree s1.tree) {i : Nat}
    (hoth : ∀ x, x ≠ i → slot s1.tree x = slot s.tree x)
    (hpay : (slot s1.tree i).opcode = (slot s.tree i).opcode ∧ (slot s1.tree i).tableHandle = (slot s.tree i).tableHandle)
    (hnd : ¬ IsDir s i) (hni : ∀ x, IsDir s x → Fi s.tree x ≠ i) : MI d s1 := by
  refine ⟨h1, by rw [sl.p]; exact h.rootP, ?_, ?_⟩
  · by_cases h0 : (0 : Nat) = i
    · rw [h0, hpay.1, ← h0]; exact h.rootOp
    · rw [hoth 0 h0]; exact h.rootOp
  · intro x hx
    obtain ⟨hxl, hxop, hxh, hxf⟩ := hx
    have hop : ∀ y, (slot s1.tree y).opcode = (slot s.tree y).opcode := by
      intro y; by_cases hy : y = i
      · rw [hy]; exact hpay.1
      · rw [hoth y hy]
    have hdir : IsDir s x := ⟨by rw [← sl.live]; exact hxl, by rw [← hop]; exact hxop, by
      by_cases hy : x = i
      · rw [← m1.handle, ← hxh, hy, hpay.2]
      · rw [← m1.handle, ← hxh, hoth x hy], by rw [← sl.fi]; exact hxf⟩
    have hxi : x ≠ i := fun e => hnd (by rw [← e]; exact hdir)
    have sh := h.shape x hdir
    have hn := hni x hdir
    refine ⟨by rw [hoth x hxi]; exact sh.name0, by rw [hoth x hxi]; exact sh.info, by rw [sl.fi, sl.fi]; exact sh.nkids,
      by rw [sl.fi, sl.nx, sl.la]; exact sh.two, by rw [sl.la, hop]; exact sh.cop, by rw [sl.fi, hop]; exact sh.nop, ?_⟩
    obtain ⟨off, len, hv, he⟩ := sh.val
    exact ⟨off, len, by rw [sl.fi, hoth _ hn]; exact hv, he⟩

/-- one iteration of the `connectNamedObjArgs` loop keeps the merge invariant -/
theorem connectNamedStep_mi (d : Bytes) {s : PState} (h : MIJ b d s) {obj argObj : Nat} (ho : live s.tree obj = true)
    (ha : live s.tree argObj = true) :
    NPs (connectNamedStep d obj argObj) s (fun _ s' => MIJ b d s' ∧ Mv s s') := by
  have htp := h.tp
  unfold connectNamedStep
  refine NPs.step (getObj_live ha) ?_
  have hinfo := htp.info argObj ha
  obtain ⟨fl, hfl⟩ := opFlags_of_info hinfo
  rw [hfl]
  refine NPs.step (optP_ex fl s) ?_
  refine NPs.step (tableHandle_ex s) ?_
  split
  · exact NPs.pure ⟨h, Mv.refl s⟩
  · rename_i hc
    have hnm : hasFlag fl flagNamed = true := by
      by_cases hq : hasFlag fl flagNamed = true
      · exact hq
      · exfalso; apply hc; left; simp [hq]
    have hfi : Fi s.tree argObj ≠ INV := by
      intro e; apply hc; right; right; left; exact e
    have hnsb : (slot s.tree argObj).opcode ≠ opIntScopeBlock := by
      intro e; apply hc; right; right; right; exact e
    have hfl' : live s.tree (Fi s.tree argObj) = true := by
      rcases (htp.wf.lP ha).lfi with h1 | h1
      · exact absurd h1 hfi
      · exact h1
    refine NPs.step (objectAt_live' hfl') ?_
    refine NPs.step (derefP_some_ex _) ?_
    refine NPs.step (getObj_live hfl') ?_
    split
    · exact NPs.pure ⟨h, Mv.refl s⟩
    · rename_i nb _
      split
      · exact NPs.pure ⟨h, Mv.refl s⟩
      · have hfv : ∃ fv : Obj → Obj, fv = fun o => { o with name := Name.ofList (nb.2.2.drop (nb.2.1 - Gen.C12.amlNameLen)) } :=
          ⟨_, rfl⟩
        obtain ⟨fv, hfvd⟩ := hfv
        rw [← hfvd]
        have hkl : KeepsLinks fv := by rw [hfvd]; keeps_links
        have hklv : KeepsLive s.tree argObj fv := by rw [hfvd]; exact Iff.rfl
        obtain ⟨s1, e1, h1, m1, sl1⟩ := updObj_tp htp ha fv hkl hklv (by rw [hfvd]; exact hinfo)
        refine NPs.step e1 ?_
        have hlt := live_lt ha
        have hs1 : s1 = { s with tree := setAt s.tree argObj fv } := by
          have := updObj_ex (s := s) fv hlt
          rw [this] at e1; cases e1; rfl
        have hoth1 : ∀ x, x ≠ argObj → slot s1.tree x = slot s.tree x := by
          intro x hx
          rw [hs1]; show slot (setAt s.tree _ _) x = _
          rw [slot_setAt', if_neg (fun hc => hx hc.1.symm)]
        have hself1 : slot s1.tree argObj = fv (slot s.tree argObj) := by
          rw [hs1]; show slot (setAt s.tree _ _) _ = _
          rw [slot_setAt', if_pos ⟨rfl, hlt⟩]
        have hnamed : ∃ fl, opFlags (slot s.tree argObj).infoIndex = some fl ∧ hasFlag fl flagNamed = true := ⟨fl, hfl, hnm⟩
        have hi1 : MIJ b d s1 := ⟨h.toMI.upd' h1 m1 sl1 hoth1 (by rw [hself1, hfvd]; exact ⟨rfl, rfl⟩) (named_not_dir h.toMI hnamed)
          (fun x hx e => hfi (by rw [← e]; exact (h.shape x hx).nkids)), fun hb =>
          (h.mth hb).upd htp.wf sl1 hoth1 (by rw [hself1, hfvd]) (by rw [hself1, hfvd]) (Or.inl (by rw [hself1, hfvd]))
            (Or.inl (by rw [hself1, hfvd]))⟩
        rw [opArgCount_of_info hinfo]
        refine NPs.step (optP_ex _ s1) ?_
        refine NPs.bind (firstTermArg_np2 hinfo _ s1) ?_
        intro ti s2 hs2
        obtain ⟨hs2, hti⟩ := hs2
        subst hs2
        have ha1 : live s2.tree argObj = true := by rw [m1.live]; exact ha
        obtain ⟨k, ek⟩ := numArgs_np h1 ha1
        refine NPs.step ek ?_
        split
        · exact NPs.pure ⟨hi1, m1⟩
        · rename_i hcnt
          refine NPs.step (nextOf_live ha1) ?_
          have hinfo1 : (slot s2.tree argObj).infoIndex = (slot s.tree argObj).infoIndex := by rw [hself1, hfvd]
          have hop1 : (slot s2.tree argObj).opcode = (slot s.tree argObj).opcode := by rw [hself1, hfvd]
          -- a `Method` has no term arguments: nothing is attached to it
          have hnM : b → (slot s2.tree argObj).opcode ≠ opMethod := by
            intro hb ho
            obtain ⟨k1, k2, k3, mk⟩ := (h.mth hb).mths argObj ha (by rw [← hop1]; exact ho)
            apply hcnt
            right
            rw [mk.im] at hti ⊢
            rw [hti method_noTerm.2]
            exact Nat.le_refl _
          have := attach_mi (d := d) obj argObj (argCnt (slot s.tree argObj).infoIndex - ti) (Nx s2.tree argObj) hi1 ha1
            ⟨fl, by rw [hinfo1]; exact hfl, hnm⟩ (by rw [hop1]; exact hnsb) (by rw [sl1.fi]; exact hfi) rfl hnM
          refine NPs.bind this ?_
          intro res s3 hq
          split
          · exact NPs.pure ⟨hq.1, m1.trans hq.2⟩
          · exact NPs.pure ⟨hq.1, m1.trans hq.2⟩

/-- `connectNamedObjArgs` and its argument loop keep the merge invariant -/
theorem connectNamed_mi (d : Bytes) : ∀ (f : Nat),
    (∀ {s : PState} (objIndex : Nat), MIJ b d s → live s.tree objIndex = true →
      NPs (connectNamedObjArgs d f objIndex) s (fun _ s' => MIJ b d s' ∧ Mv s s')) ∧
    (∀ {s : PState} (obj argIndex : Nat), MIJ b d s → live s.tree obj = true → (argIndex = INV ∨ live s.tree argIndex = true) →
      NPs (connectNamedLoop d f obj argIndex) s (fun _ s' => MIJ b d s' ∧ Mv s s')) := by
  intro f
  induction f with
  | zero =>
    constructor
    · intro s _ _ _; unfold connectNamedObjArgs; exact NPs.fuel
    · intro s _ _ _ _ _; unfold connectNamedLoop; exact NPs.fuel
  | succ f ih =>
    constructor
    · intro s objIndex h ho
      unfold connectNamedObjArgs
      refine NPs.step (objectAt_live' ho) ?_
      refine NPs.step (derefP_some_ex _) ?_
      refine NPs.step (getObj_live ho) ?_
      refine ih.2 objIndex _ h ho ?_
      rcases (h.tp.wf.lP ho).lla with h1 | h1
      · exact Or.inl h1
      · exact Or.inr h1
    · intro s obj argIndex h ho ha
      unfold connectNamedLoop
      by_cases hi : argIndex = invalidIndex
      · rw [if_pos hi]; exact NPs.pure ⟨h, Mv.refl s⟩
      · rw [if_neg hi]
        have hal : live s.tree argIndex = true := by
          rcases ha with h1 | h1
          · exact absurd h1 hi
          · exact h1
        refine NPs.step (objectAt_live' hal) ?_
        refine NPs.step (derefP_some_ex _) ?_
        refine NPs.step (getObj_live hal) ?_
        rw [h.tp.wf.index_eq argIndex (live_lt hal)]
        refine NPs.bind (ih.1 argIndex h hal) ?_
        intro res s1 hq
        obtain ⟨h1, m1⟩ := hq
        split
        · exact NPs.pure ⟨h1, m1⟩
        · have ho1 : live s1.tree obj = true := by rw [m1.live]; exact ho
          have ha1 : live s1.tree argIndex = true := by rw [m1.live]; exact hal
          refine NPs.bind (connectNamedStep_mi d h1 ho1 ha1) ?_
          intro r s2 hq2
          obtain ⟨h2, m2⟩ := hq2
          cases r with
          | inl res => exact NPs.pure ⟨h2, m1.trans m2⟩
          | inr _ =>
            have ha2 : live s2.tree argIndex = true := by rw [m2.live]; exact ha1
            refine NPs.step (prevOf_live ha2) ?_
            have := ih.2 obj (Pv s2.tree argIndex) h2 (by rw [m2.live]; exact ho1) (by
              rcases (h2.tp.wf.lP ha2).lpv with h3 | h3
              · exact Or.inl h3
              · exact Or.inr h3)
            exact this.mono (fun a s' hq3 => ⟨hq3.1, (m1.trans m2).trans hq3.2⟩)

/-- the tree passes between the first pass and the deferred blocks, as `ParseAML` runs them:
`connectNamedObjArgs(0)`, then (unless it failed) `resolvePasses = 1` and the resolve loop -/
def treePasses (d : Bytes) (fuel : Nat) : P Bool := do
  if (← connectNamedObjArgs d fuel 0) ≠ .ok then pure false
  else do
    modify fun s => { s with resolvePasses := 1 }
    resolveLoopPasses d fuel fuel

theorem treePasses_np (d : Bytes) (fuel : Nat) {s : PState} (h : MIJ b d s) :
    NPs (treePasses d fuel) s (fun _ s' => MIJ b d s' ∧ Shr s s') := by
  unfold treePasses
  refine NPs.bind ((connectNamed_mi d fuel).1 0 h h.tp.root) ?_
  intro r s1 hq
  obtain ⟨h1, m1⟩ := hq
  split
  · exact NPs.pure ⟨h1, Shr.ofMv m1⟩
  · refine NPs.step (s1 := { s1 with resolvePasses := 1 }) (a := ()) rfl ?_
    have := resolveLoopPasses_np d fuel fuel (s := { s1 with resolvePasses := 1 }) (h1.ofTree rfl rfl)
    exact this.mono (fun _ s' hq' => ⟨hq'.1, (Shr.ofMv m1).trans ⟨hq'.2.size, hq'.2.live, hq'.2.handle, hq'.2.rs⟩⟩)

/-! ## the executable checks of `Model/AmlShapes.lean` imply the hypotheses -/

theorem exprOKb_sound {e : List UInt8} (h : exprOKb e = true) : ExprOK e := by
  intro hl b hb
  unfold exprOKb at h
  simp only [hl, bne_self_eq_false, Bool.false_or, hb] at h
  simpa using h

theorem shapeAtB_sound {d : Bytes} {t : ObjectTree} {x : Nat} (h : shapeAtB d t x = true) : ShapeAt d t x := by
  unfold shapeAtB at h
  simp only [Bool.and_eq_true, beq_iff_eq, bne_iff_ne, ne_eq] at h
  obtain ⟨⟨⟨⟨⟨⟨h1, h2⟩, h3⟩, h4⟩, h5⟩, h6⟩, h7⟩ := h
  refine ⟨h1, h2, h3, h4, h5, h6, ?_⟩
  cases hv : (slot t (Fi t x)).value with
  | bytes off len => rw [hv] at h7; exact ⟨off, len, rfl, exprOKb_sound h7⟩
  | none => rw [hv] at h7; cases h7
  | u64 _ => rw [hv] at h7; cases h7
  | idx _ => rw [hv] at h7; cases h7
  | field _ _ _ _ _ _ _ _ _ => rw [hv] at h7; cases h7

/-- the oracle's check of `MergeInv` is sound -/
theorem mergeInvB_sound {d : Bytes} {s : PState} (tp : TP s) (h : mergeInvB d s = true) : MI d s := by
  unfold mergeInvB at h
  simp only [Bool.and_eq_true, beq_iff_eq, List.all_eq_true, List.mem_range, Bool.or_eq_true, Bool.not_eq_true'] at h
  obtain ⟨⟨h1, h2⟩, h3⟩ := h
  refine ⟨tp, h1, h2, ?_⟩
  intro x hx
  obtain ⟨hl, hop, hh, hf⟩ := hx
  rcases h3 x (live_lt hl) with h4 | h4
  · exfalso
    unfold isDirB at h4
    simp [hl, hop, hh, hf] at h4
  · exact shapeAtB_sound h4

/-- the oracle's check of `CallShape` is sound -/
theorem callShapeB_sound {s : PState} (h : callShapeB s = true) : CallShape s := by
  unfold callShapeB at h
  simp only [List.all_eq_true, List.mem_range, Bool.or_eq_true, Bool.not_eq_true', Bool.and_eq_false_imp] at h
  intro x hx hop
  rcases h x (live_lt hx) with h1 | h1
  · exfalso
    have := h1 hx
    simp [hop] at this
  · cases hv : (slot s.tree x).value with
    | bytes off len => exact ⟨off, len, rfl⟩
    | none => rw [hv] at h1; cases h1
    | u64 _ => rw [hv] at h1; cases h1
    | idx _ => rw [hv] at h1; cases h1
    | field _ _ _ _ _ _ _ _ _ => rw [hv] at h1; cases h1

end Firefly.AmlParser
