import Firefly.Proof.SpinLocked
/-!
Part 2, continued: the simulation proof — every move of the composed machine (`cstep`) is
invisible under `proj` or exactly one `Locked.step`; `creachable_proj` concludes.
-/
set_option linter.unusedSimpArgs false
set_option linter.unusedVariables false
namespace Firefly.Spin
open Firefly.Gen.C08

variable {σ ρ O : Type}

theorem upd_self {α : Type} (f : Nat → α) (i : Nat) (a : α) : Locked.upd f i a i = a := by simp [Locked.upd]
theorem upd_ne {α : Type} (f : Nat → α) {i j : Nat} (a : α) (h : j ≠ i) : Locked.upd f i a j = f j := by
  simp [Locked.upd, h]

theorem lstate_ext {a b : Locked.State σ ρ O} (h1 : a.sh = b.sh) (h2 : a.holder = b.holder)
    (h3 : ∀ j, a.threads j = b.threads j) (h4 : a.log = b.log) : a = b := by
  cases a; cases b
  simp only at h1 h2 h3 h4
  subst h1; subst h2; subst h4
  have : _ := funext h3
  subst this
  rfl

theorem cstep_micro (S : Locked.Sys σ ρ O) (cfg : Config) (c c' : CState σ ρ O) (i : Nat)
    (hI : CInv S cfg c) (h : cstep S cfg c i .micro = some c') :
    CInv S cfg c' ∧ Locked.step S (proj c) i = some (proj c') := by
  simp only [cstep] at h
  split at h
  · rename_i t o f fs loc ht hcur
    split at h
    · rename_i hc
      obtain ⟨hph, hheld⟩ := hc
      cases h
      have hh : c.holder = some i := held_is_abs_holder hI.inv hI.abs ht hheld
      constructor
      · refine ⟨hI.inv, hI.abs, ?_⟩
        intro j tj hj
        by_cases hji : j = i
        · subst hji
          rw [ht] at hj; cases hj
          simp [Coupled, hph, hheld, upd_self]
        · simp only [upd_ne _ _ hji]
          exact hI.coupled j tj hj
      · simp only [Locked.step, proj, hh, if_true, hcur]
        refine congrArg some (lstate_ext rfl rfl ?_ rfl)
        intro j
        by_cases hji : j = i
        · subst hji; simp [Locked.upd]
        · have : ¬ (some i = some j) := fun h => hji (Option.some.inj h).symm
          simp [Locked.upd, hji, this]
    · cases h
  · cases h

/-- a step that leaves the lock word alone is a stutter of the abstract lock -/
theorem sim_tau {cfg : Config} {s s' : State} {i : Nat} {ch : Choice} {h : Option Nat}
    (hI : Inv cfg s) (ha : Abs s h) (hs : step cfg s i ch = some s') (hl : s'.sh.lock = s.sh.lock) :
    Abs s' h := by
  obtain ⟨h', hst, ha'⟩ := sim_step hI ha hs
  have : evOf s s' i = .tau := by
    simp only [evOf, hl]
    rcases hI.word with hw | hw <;> simp [hw]
  rw [this] at hst
  simp [absStep] at hst
  subst hst
  exact ha'

theorem not_holder_of_not_owner {cfg : Config} {s : State} (hI : Inv cfg s) {h : Option Nat} (ha : Abs s h)
    {i : Nat} {t : Thread} (hi : s.threads[i]? = some t) (hno : ¬ Owner t) : h ≠ some i := by
  rintro rfl
  obtain ⟨t', ht', ho⟩ := ha
  rw [hi] at ht'; cases ht'
  exact hno ho

theorem cstep_callAcquire (S : Locked.Sys σ ρ O) (cfg : Config) (c c' : CState σ ρ O) (i : Nat)
    (hI : CInv S cfg c) (h : cstep S cfg c i (.lock .callAcquire) = some c') :
    CInv S cfg c' ∧ proj c' = proj c := by
  simp only [cstep] at h
  split at h
  · rename_i o sp' hcur hcl hs
    cases h
    obtain ⟨t, sh', t', hi, hts, rfl⟩ := step_cases hs
    have hph : t.ph = .idle ∧ t.held = false ∧ sh' = c.spin.sh ∧ t' = { t with ph := .go .acquire 0 } := by
      unfold tstep at hts
      cases hp : t.ph <;> simp [hp] at hts
      cases hh : t.held <;> simp [hh] at hts
      exact ⟨rfl, rfl, hts.1.symm, hts.2.symm⟩
    obtain ⟨hp, hh, rfl, rfl⟩ := hph
    have hno : ¬ Owner t := by simp [Owner, hp, hh]
    have hne : c.holder ≠ some i := not_holder_of_not_owner hI.inv hI.abs hi hno
    refine ⟨⟨step_inv hI.inv hs, sim_tau hI.inv hI.abs hs rfl, ?_⟩, ?_⟩
    · intro j tj hj
      by_cases hji : j = i
      · subst hji
        rw [get_set_self hi] at hj; cases hj
        simp only [Coupled, upd_self]
        exact ⟨o, rfl, hcl⟩
      · rw [get_set_ne (Ne.symm hji)] at hj
        simp only [upd_ne _ _ hji]
        exact hI.coupled j tj hj
    · refine lstate_ext rfl rfl ?_ rfl
      intro j
      by_cases hji : j = i
      · subst hji; simp [proj, hne, upd_self]
      · simp [proj, upd_ne _ _ hji]
  · cases h

theorem cstep_callRelease (S : Locked.Sys σ ρ O) (cfg : Config) (c c' : CState σ ρ O) (i : Nat)
    (hI : CInv S cfg c) (h : cstep S cfg c i (.lock .callRelease) = some c') :
    CInv S cfg c' ∧ proj c' = proj c := by
  simp only [cstep] at h
  split at h
  · rename_i o loc sp' hcur hs
    cases h
    obtain ⟨t, sh', t', hi, hts, rfl⟩ := step_cases hs
    have hph : sh' = c.spin.sh ∧ t'.ph = .go .release 0 := by
      unfold tstep at hts
      cases hp : t.ph <;> simp [hp] at hts
      cases hh : t.held <;> simp [hh] at hts
      exact ⟨hts.1.symm, by rw [← hts.2]⟩
    obtain ⟨rfl, hp'⟩ := hph
    refine ⟨⟨step_inv hI.inv hs, sim_tau hI.inv hI.abs hs rfl, ?_⟩, rfl⟩
    intro j tj hj
    by_cases hji : j = i
    · subst hji
      rw [get_set_self hi] at hj; cases hj
      simp only [Coupled, hp']
      exact ⟨o, loc, hcur⟩
    · rw [get_set_ne (Ne.symm hji)] at hj
      exact hI.coupled j tj hj
  · cases h

theorem evOf_tau {s s' : State} (i : Nat) (hl : s'.sh.lock = s.sh.lock) : evOf s s' i = .tau := by
  simp [evOf, hl]

/-- a stutter of the lock program: ghost fields, object and bookkeeping unchanged -/
theorem crun_tau (S : Locked.Sys σ ρ O) (cfg : Config) (c c' : CState σ ρ O) (i : Nat) (ch : Choice)
    (sp' : State) (t t' : Thread)
    (hI : CInv S cfg c) (hs : step cfg c.spin i ch = some sp') (hi : c.spin.threads[i]? = some t)
    (hi' : sp'.threads[i]? = some t') (hl : sp'.sh.lock = c.spin.sh.lock)
    (hc : Coupled S i t' (c.cl i))
    (h : crun S cfg c i ch = some c') : CInv S cfg c' ∧ proj c' = proj c := by
  simp only [crun, hs, evOf_tau i hl] at h
  cases h
  refine ⟨⟨step_inv hI.inv hs, sim_tau hI.inv hI.abs hs hl, ?_⟩, rfl⟩
  intro j tj hj
  by_cases hji : j = i
  · subst hji; rw [hi'] at hj; cases hj; exact hc
  · rw [step_other hs hji] at hj; exact hI.coupled j tj hj

theorem crun_refines (S : Locked.Sys σ ρ O) (cfg : Config) (c c' : CState σ ρ O) (i : Nat) (ch : Choice)
    (hr : ch.isRun = true) (hI : CInv S cfg c) (h : crun S cfg c i ch = some c') :
    CInv S cfg c' ∧ (proj c' = proj c ∨ Locked.step S (proj c) i = some (proj c')) := by
  cases hs : step cfg c.spin i ch with
  | none => simp [crun, hs] at h
  | some sp' =>
    obtain ⟨t, sh', t', hi, hts, hsp⟩ := step_cases hs
    have hi' : sp'.threads[i]? = some t' := by rw [hsp]; exact get_set_self hi
    have hshp : sp'.sh = sh' := by rw [hsp]
    have hL := hI.inv.loc i t hi
    have hph := run_phase cfg c.spin.sh sh' t t' ch hL hI.inv.word (hI.inv.own0 i t hi)
      (fun v hv => hI.inv.cs i t v hi hv) hr hts
    obtain ⟨hA0, hA1, hAsm, hR0, hR1⟩ := hph
    have hc := hI.coupled i t hi
    have hI' := step_inv hI.inv hs
    obtain ⟨hd', hst, habs'⟩ := sim_step hI.inv hI.abs hs
    -- stutter cases share this
    have tau := fun (hl : sp'.sh.lock = c.spin.sh.lock) (hc' : Coupled S i t' (c.cl i)) =>
      (fun r => (⟨r.1, Or.inl r.2⟩ : CInv S cfg c' ∧ (proj c' = proj c ∨ Locked.step S (proj c) i = some (proj c'))))
        (crun_tau S cfg c c' i ch sp' t t' hI hs hi hi' hl hc' h)
    cases hp : t.ph with
    | idle =>
      exfalso
      unfold tstep at hts
      cases ch <;> simp [Choice.isRun] at hr <;> simp [hp] at hts
    | fault => simp [Coupled, hp] at hc
    | go m pc =>
      cases m with
      | try_ => simp [Coupled, hp] at hc
      | acquire =>
        simp only [Local, hp] at hL
        simp only [Coupled, hp] at hc
        rcases (by omega : pc = 0 ∨ pc = 1) with rfl | rfl
        · obtain ⟨⟨pc', hp'⟩, hsh⟩ := hA0 hp
          exact tau (by rw [hshp, hsh]) (by simp only [Coupled, hp']; exact hc)
        · obtain ⟨hp', hh', hsh⟩ := hA1 hp
          refine tau (by rw [hshp, hsh]) ?_
          obtain ⟨o, hcur, _⟩ := hc
          simp [Coupled, hp', hh', hcur]
      | release =>
        simp only [Local, hp] at hL
        rcases (by omega : pc = 0 ∨ pc = 1) with rfl | rfl
        · -- the Release store: abstract release, the operation completes
          obtain ⟨hp', hl0, hl1⟩ := hR0 hp
          simp only [Coupled, hp] at hc
          obtain ⟨o, loc, hcur⟩ := hc
          have hev : evOf c.spin sp' i = .rel i := by simp [evOf, hshp, hl0, hl1]
          rw [hev] at hst
          have hh : c.holder = some i := by
            cases hh : c.holder with
            | none => simp [absStep, hh] at hst
            | some k =>
              simp only [absStep, hh] at hst
              split at hst
              · rename_i hk; exact hk
              · cases hst
          have hd : hd' = none := by simp [absStep, hh] at hst; exact hst.symm
          subst hd
          simp only [crun, hs, hev, hcur] at h
          cases h
          refine ⟨⟨hI', habs', ?_⟩, Or.inr ?_⟩
          · intro j tj hj
            by_cases hji : j = i
            · subst hji; rw [hi'] at hj; cases hj
              simp [Coupled, hp', upd_self]
            · rw [step_other hs hji] at hj
              simp only [upd_ne _ _ hji]
              exact hI.coupled j tj hj
          · simp only [Locked.step, proj, hh, if_true, hcur]
            refine congrArg some (lstate_ext rfl rfl ?_ rfl)
            intro j
            by_cases hji : j = i
            · subst hji; simp [Locked.upd]
            · have : ¬ (some i = some j) := fun h => hji (Option.some.inj h).symm
              simp [Locked.upd, hji, this]
        · obtain ⟨hp', hh', hsh⟩ := hR1 hp
          simp only [Coupled, hp] at hc
          refine tau (by rw [hshp, hsh]) ?_
          simp [Coupled, hp', hh', hc]
    | asm m rpc pc =>
      obtain ⟨hp', hnorel⟩ := hAsm m rpc pc hp
      simp only [Coupled, hp] at hc
      have hc' : Coupled S i t' (c.cl i) := by
        rcases hp' with ⟨pc', hp'⟩ | hp' <;> (simp only [Coupled, hp']; exact hc)
      by_cases hl : sp'.sh.lock = c.spin.sh.lock
      · exact tau hl hc'
      · -- the winning exchange: abstract acquire, the operation enters the log
        have hl0 : c.spin.sh.lock = 0 ∧ sp'.sh.lock = 1 := by
          rw [hshp] at hl ⊢
          rcases hI.inv.word with h0 | h1 <;> rcases hI'.word with h0' | h1'
          · rw [hsp] at h0'; simp only at h0'; omega
          · rw [hsp] at h1'; simp only at h1'; exact ⟨h0, h1'⟩
          · rw [hsp] at h0'; simp only at h0'; have := hnorel h0'; omega
          · rw [hsp] at h1'; simp only at h1'; omega
        have hev : evOf c.spin sp' i = .acq i := by simp [evOf, hl0.1, hl0.2]
        rw [hev] at hst
        have hh : c.holder = none := by
          cases hh : c.holder with
          | none => rfl
          | some k => simp [absStep, hh] at hst
        have hd : hd' = some i := by simp [absStep, hh] at hst; exact hst.symm
        subst hd
        obtain ⟨o, hcur, hcl⟩ := hc
        simp only [crun, hs, hev, hcur] at h
        cases h
        refine ⟨⟨hI', habs', ?_⟩, Or.inr ?_⟩
        · intro j tj hj
          by_cases hji : j = i
          · subst hji; rw [hi'] at hj; cases hj; exact hc'
          · rw [step_other hs hji] at hj; exact hI.coupled j tj hj
        · have hne : ¬ (none : Option Nat) = some i := by simp
          simp only [Locked.step, proj, hh, hne, if_false, hcl]
          refine congrArg some (lstate_ext rfl rfl ?_ rfl)
          intro j
          by_cases hji : j = i
          · subst hji
            cases hci : c.cl j with
            | mk hist cur => simp [Locked.upd, hci] at hcur ⊢; exact hcur.symm
          · have : ¬ (some i = some j) := fun h => hji (Option.some.inj h).symm
            simp [Locked.upd, hji, this]

/-- **Every move of the composed machine is invisible under `proj` or is exactly one step of
C09's Locked machine**, and the coupling invariant is preserved. -/
theorem cstep_refines (S : Locked.Sys σ ρ O) (cfg : Config) (c c' : CState σ ρ O) (i : Nat) (mv : CMove)
    (hI : CInv S cfg c) (h : cstep S cfg c i mv = some c') :
    CInv S cfg c' ∧ (proj c' = proj c ∨ Locked.step S (proj c) i = some (proj c')) := by
  cases mv with
  | micro => exact (fun r => ⟨r.1, Or.inr r.2⟩) (cstep_micro S cfg c c' i hI h)
  | lock ch =>
    cases ch with
    | callAcquire => exact (fun r => ⟨r.1, Or.inl r.2⟩) (cstep_callAcquire S cfg c c' i hI h)
    | callRelease => exact (fun r => ⟨r.1, Or.inl r.2⟩) (cstep_callRelease S cfg c c' i hI h)
    | run => exact crun_refines S cfg c c' i .run rfl hI (by simpa [cstep, Choice.isRun] using h)
    | havoc a b cc d z =>
      exact crun_refines S cfg c c' i (.havoc a b cc d z) rfl hI (by simpa [cstep, Choice.isRun] using h)
    | callTry => simp [cstep, Choice.isRun] at h
    | csRead => simp [cstep, Choice.isRun] at h
    | csWrite => simp [cstep, Choice.isRun] at h

/-- **Refinement.** Every reachable state of the composed machine (real spin-lock program, any
number of threads, any schedule, any register values left by the yield function) projects to a
reachable state of the machine of `Model/Locked.lean`. -/
theorem creachable_proj (S : Locked.Sys σ ρ O) (cfg : Config) (n : Nat) (s0 : σ) {c : CState σ ρ O}
    (h : CReachable S cfg n s0 c) : CInv S cfg c ∧ Locked.Reachable S s0 (proj c) := by
  induction h with
  | init => exact ⟨cinit_inv S cfg n s0, by
      have : proj (cinit n s0 : CState σ ρ O) = { sh := s0 } := lstate_ext rfl rfl (fun j => by simp [proj, cinit]) rfl
      rw [this]; exact Locked.Reachable.init⟩
  | step i mv _ hs ih =>
    obtain ⟨hI', hp⟩ := cstep_refines S cfg _ _ i mv ih.1 hs
    refine ⟨hI', ?_⟩
    rcases hp with hp | hp
    · rw [hp]; exact ih.2
    · exact Locked.Reachable.step i ih.2 hp

/-- The client shape the composed machine accepts: a thread calls `Acquire` only while it is outside
(idle, not holding, no operation in progress), executes micro-steps and calls `Release` only after
`Acquire` has returned and before `Release` is called, and makes no other lock call.  Per thread the
lock calls therefore alternate `Acquire`, `Release`, starting with `Acquire`. -/
theorem cstep_call_shape (S : Locked.Sys σ ρ O) (cfg : Config) (c c' : CState σ ρ O) (i : Nat) :
    (cstep S cfg c i (.lock .callAcquire) = some c' →
      ∃ t, c.spin.threads[i]? = some t ∧ t.ph = .idle ∧ t.held = false ∧ (c.cl i).cur = none) ∧
    (cstep S cfg c i (.lock .callRelease) = some c' →
      ∃ t, c.spin.threads[i]? = some t ∧ t.ph = .idle ∧ t.held = true) ∧
    (cstep S cfg c i .micro = some c' →
      ∃ t, c.spin.threads[i]? = some t ∧ t.ph = .idle ∧ t.held = true) ∧
    cstep S cfg c i (.lock .callTry) = none := by
  refine ⟨?_, ?_, ?_, by simp [cstep, Choice.isRun]⟩
  · intro h
    simp only [cstep] at h
    split at h
    · rename_i o sp' hcur hcl hs
      obtain ⟨t, sh', t', hi, hts, _⟩ := step_cases hs
      refine ⟨t, hi, ?_⟩
      unfold tstep at hts
      cases hp : t.ph <;> simp [hp] at hts
      cases hh : t.held <;> simp [hh] at hts
      exact ⟨rfl, rfl, hcur⟩
    · cases h
  · intro h
    simp only [cstep] at h
    split at h
    · rename_i o loc sp' hcur hs
      obtain ⟨t, sh', t', hi, hts, _⟩ := step_cases hs
      refine ⟨t, hi, ?_⟩
      unfold tstep at hts
      cases hp : t.ph <;> simp [hp] at hts
      cases hh : t.held <;> simp [hh] at hts
      exact ⟨rfl, rfl⟩
    · cases h
  · intro h
    simp only [cstep] at h
    split at h
    · rename_i t o f fs loc ht hcur
      split at h
      · rename_i hc; exact ⟨t, ht, hc.1, hc.2⟩
      · cases h
    · cases h

/-- run a schedule of the composed machine -/
def crunSched (S : Locked.Sys σ ρ O) (cfg : Config) (c : CState σ ρ O) : List (Nat × CMove) → Option (CState σ ρ O)
  | [] => some c
  | (i, mv) :: rest => match cstep S cfg c i mv with
    | none => none
    | some c' => crunSched S cfg c' rest

theorem crunSched_reachable (S : Locked.Sys σ ρ O) (cfg : Config) (n : Nat) (s0 : σ) (sched : List (Nat × CMove)) :
    ∀ {c c' : CState σ ρ O}, CReachable S cfg n s0 c → crunSched S cfg c sched = some c' →
      CReachable S cfg n s0 c' := by
  induction sched with
  | nil => intro c c' hr h; simp [crunSched] at h; subst h; exact hr
  | cons mv rest ih =>
    intro c c' hr h
    obtain ⟨i, m⟩ := mv
    simp only [crunSched] at h
    split at h
    · cases h
    · rename_i c1 h1
      exact ih (CReachable.step i m hr h1) h

end Firefly.Spin
