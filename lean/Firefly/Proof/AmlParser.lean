import Firefly.Proof.AmlLex
import Firefly.Model.AmlParser
/-!
Invariant reasoning about the parser model (`Model/AmlParser.lean`): a partial-correctness Hoare
calculus for `P = StateT PState (Except Err)`.

`Keeps I x φ`: whenever `x`, started in a state satisfying `I`, returns normally with result `a` in state
`s'`, then `I s'` and `φ a`.  (Runs that end in `.panic`/`.outOfFuel` carry no state; that they do not
occur is the subject of the totality theorems.)  The invariant used throughout is
`PInv d` = the reader window lies inside the table ∧ every `[]byte` value stored in the pool lies
inside the table.
-/
namespace Firefly.AmlParser
open Firefly.AmlLex Firefly.AmlTree
open Firefly.Gen.C12

/-- a stored value lies inside the table -/
def ValIn (d : Bytes) : Val → Prop
  | .bytes off len => off + len ≤ d.size
  | _ => True

/-- every value stored in the pool lies inside the table -/
def AllValsIn (d : Bytes) (t : ObjectTree) : Prop := ∀ (i : Nat) (o : Obj), t.pool[i]? = some o → ValIn d o.value

/-- the invariant of the parser: reader window inside the table, stored values inside the table -/
def PInv (d : Bytes) (s : PState) : Prop := Inv d s.r ∧ AllValsIn d s.tree

/-! ## tree operations keep the stored values -/

/-- `x` (an `ObjectTree` computation) returns only trees whose values lie inside the table -/
structure KT (d : Bytes) (x : Res ObjectTree) : Prop where
  run : ∀ t', x = .ok t' → AllValsIn d t'

theorem KT.pure {d : Bytes} {t : ObjectTree} (h : AllValsIn d t) : KT d (pure t) :=
  ⟨fun t' e => by cases e; exact h⟩

theorem KT.throw {d : Bytes} (e : Err) : KT d (throw e) := ⟨fun _ h => by cases h⟩

theorem KT.bind_tree {d : Bytes} {x : Res ObjectTree} {f : ObjectTree → Res ObjectTree}
    (hx : KT d x) (hf : ∀ t, AllValsIn d t → KT d (f t)) : KT d (x >>= f) := by
  constructor
  intro t' e
  cases hxe : x with
  | error err => rw [hxe] at e; cases e
  | ok t1 => rw [hxe] at e; exact (hf t1 (hx.run t1 hxe)).run t' e

theorem KT.bind_read {d : Bytes} {α : Type} {x : Res α} {f : α → Res ObjectTree}
    (hf : ∀ a, KT d (f a)) : KT d (x >>= f) := by
  constructor
  intro t' e
  cases hxe : x with
  | error err => rw [hxe] at e; cases e
  | ok a => rw [hxe] at e; exact (hf a).run t' e

theorem allVals_set {d : Bytes} {t : ObjectTree} (h : AllValsIn d t) (i : Nat) (hi : i < t.pool.size) (o' : Obj)
    (hv : ValIn d o'.value) : AllValsIn d { t with pool := t.pool.set i o' } := by
  intro j o hj
  by_cases hij : i = j
  · subst hij
    simp [hi] at hj
    subst hj; exact hv
  · simp [hij] at hj
    exact h j o hj

theorem KT.upd {d : Bytes} {t : ObjectTree} (h : AllValsIn d t) (i : Nat) (f : Obj → Obj)
    (hf : ∀ o, ValIn d o.value → ValIn d (f o).value) : KT d (t.upd i f) := by
  constructor
  intro t' e
  unfold ObjectTree.upd at e
  split at e
  · rename_i hi
    cases e
    apply allVals_set h i hi
    exact hf _ (h i _ (Array.getElem?_eq_getElem hi))
  · cases e

/-- one structural step of a `KT` proof -/
macro "kt_step" : tactic => `(tactic| first
  | exact KT.pure (by assumption)
  | exact KT.throw _
  | (apply KT.upd (by assumption); intro _ hv; exact hv)
  | assumption
  | (refine KT.bind_tree ?_ ?_)
  | (refine KT.bind_read ?_)
  | intro _
  | split
  | dsimp only)
macro "kt_tac" : tactic => `(tactic| repeat' kt_step)

theorem kt_append {d : Bytes} {t : ObjectTree} (h : AllValsIn d t) (obj arg : Nat) : KT d (t.append obj arg) := by
  unfold ObjectTree.append
  kt_tac

theorem kt_appendAfter {d : Bytes} {t : ObjectTree} (h : AllValsIn d t) (obj arg nextTo : Nat) :
    KT d (t.appendAfter obj arg nextTo) := by
  unfold ObjectTree.appendAfter
  have := @kt_append d
  kt_tac
  all_goals first | (apply kt_append; assumption) | skip

theorem kt_detach {d : Bytes} {t : ObjectTree} (h : AllValsIn d t) (obj arg : Nat) : KT d (t.detach obj arg) := by
  have h1 : ∀ t, AllValsIn d t → KT d (t.detachFirst obj arg) := by
    intro t h; unfold ObjectTree.detachFirst; kt_tac
  have h2 : ∀ t, AllValsIn d t → KT d (t.detachLast obj arg) := by
    intro t h; unfold ObjectTree.detachLast; kt_tac
  have h3 : ∀ t, AllValsIn d t → KT d (t.detachNext arg) := by
    intro t h; unfold ObjectTree.detachNext; kt_tac
  have h4 : ∀ t, AllValsIn d t → KT d (t.detachPrev arg) := by
    intro t h; unfold ObjectTree.detachPrev; kt_tac
  have h5 : ∀ t, AllValsIn d t → KT d (t.detachClear arg) := by
    intro t h; unfold ObjectTree.detachClear; kt_tac
  unfold ObjectTree.detach
  apply KT.bind_tree (h1 t h); intro t1 k1
  apply KT.bind_tree (h2 t1 k1); intro t2 k2
  apply KT.bind_tree (h3 t2 k2); intro t3 k3
  apply KT.bind_tree (h4 t3 k3); intro t4 k4
  exact h5 t4 k4

theorem allVals_head {d : Bytes} {t : ObjectTree} (h : AllValsIn d t) (x : Nat) :
    AllValsIn d { t with freeListHeadIndex := x } := h

theorem kt_free {d : Bytes} {t : ObjectTree} (h : AllValsIn d t) (obj : Nat) : KT d (t.free obj) := by
  have h1 : ∀ t, AllValsIn d t → KT d (t.freeDetach obj) := by
    intro t h; unfold ObjectTree.freeDetach
    kt_tac
    all_goals first | (apply kt_detach; assumption) | skip
  have h2 : ∀ t, AllValsIn d t → KT d (t.freePush obj) := by
    intro t h; unfold ObjectTree.freePush
    kt_tac
    all_goals first | exact KT.pure (allVals_head (by assumption) _) | skip
  unfold ObjectTree.free
  exact KT.bind_tree (h1 t h) h2

/-- `newObject`: the new (or reused) slot has no value, all other values are unchanged -/
theorem newObject_vals {d : Bytes} {t : ObjectTree} (h : AllValsIn d t) (opcode info th : Nat) :
    ∀ r, t.newObject opcode info th = .ok r → AllValsIn d r.1 := by
  intro r e
  unfold ObjectTree.newObject at e
  dsimp only at e
  split at e
  · -- reuse of a freed slot
    cases ho : t.obj t.freeListHeadIndex with
    | error err => simp [ho, bind, Except.bind] at e
    | ok o =>
      simp only [ho, bind, Except.bind] at e
      split at e
      · cases e
      · rename_i t1 ht1
        cases e
        exact (KT.upd (allVals_head h _) _ _ (by intro _ _; trivial)).run t1 ht1
  · cases e
    intro j o hj
    simp only [Array.getElem?_push] at hj
    split at hj
    · cases hj; trivial
    · exact h j o hj

/-! ## the calculus for `P` -/

/-- partial-correctness triple with a fixed invariant: see the module doc -/
structure Keeps {α : Type} (I : PState → Prop) (x : P α) (φ : α → Prop) : Prop where
  run : ∀ s, I s → ∀ a s', x s = .ok (a, s') → I s' ∧ φ a

theorem Keeps.pure {α : Type} {I : PState → Prop} {φ : α → Prop} {a : α} (h : φ a) : Keeps I (pure a : P α) φ :=
  ⟨fun s hs a' s' e => by cases e; exact ⟨hs, h⟩⟩

theorem Keeps.throw {α : Type} {I : PState → Prop} {φ : α → Prop} (err : Err) : Keeps I (throw err : P α) φ :=
  ⟨fun _ _ _ _ e => by cases e⟩

theorem Keeps.bind {α β : Type} {I : PState → Prop} {x : P α} {f : α → P β} {φ : α → Prop} {ψ : β → Prop}
    (hx : Keeps I x φ) (hf : ∀ a, φ a → Keeps I (f a) ψ) : Keeps I (x >>= f) ψ := by
  constructor
  intro s hs b s' e
  have e' : (StateT.bind x f) s = .ok (b, s') := e
  simp only [StateT.bind] at e'
  cases hxe : x s with
  | error err => rw [hxe] at e'; cases e'
  | ok as =>
    rw [hxe] at e'
    obtain ⟨a, s1⟩ := as
    have h1 := hx.run s hs a s1 hxe
    exact (hf a h1.2).run s1 h1.1 b s' e'

theorem Keeps.weaken {α : Type} {I : PState → Prop} {x : P α} {φ ψ : α → Prop}
    (hx : Keeps I x φ) (h : ∀ a, φ a → ψ a) : Keeps I x ψ :=
  ⟨fun s hs a s' e => let r := hx.run s hs a s' e; ⟨r.1, h a r.2⟩⟩

/-- forget the postcondition -/
theorem Keeps.tt {α : Type} {I : PState → Prop} {x : P α} {φ : α → Prop} (hx : Keeps I x φ) :
    Keeps I x (fun _ => True) := hx.weaken fun _ _ => trivial

/-- what a lexical action guarantees about its result from any reader inside the table -/
def LexSpec {α : Type} (d : Bytes) (x : LexM α) (φ : α → Prop) : Prop :=
  ∀ r, Inv d r → ∀ a r', x r = .ok (a, r') → Inv d r' ∧ φ a

theorem LexSpec.of_safe {α : Type} {d : Bytes} {x : LexM α} (h : Safe d x) : LexSpec d x (fun _ => True) := by
  intro r hr a r' e
  obtain ⟨a1, r1, e1, h1⟩ := h.run r hr
  rw [e1] at e; cases e
  exact ⟨h1, trivial⟩

theorem LexSpec.of_wp {α : Type} {d : Bytes} {x : LexM α} {φ : α → Prop}
    (h : ∀ r, Inv d r → wp x (fun a r' => Inv d r' ∧ φ a) r) : LexSpec d x φ := by
  intro r hr a r' e
  obtain ⟨a1, r1, e1, h1⟩ := h r hr
  rw [e1] at e; cases e
  exact h1

theorem keeps_lex {α : Type} {d : Bytes} {x : LexM α} {φ : α → Prop} (h : LexSpec d x φ) :
    Keeps (PInv d) (lex x) φ := by
  constructor
  intro s hs a s' e
  unfold lex at e
  cases hx : x s.r with
  | error err => simp [hx, bind, Except.bind] at e
  | ok ar =>
    obtain ⟨a1, r1⟩ := ar
    simp only [hx, bind, Except.bind, pure, Except.pure] at e
    have := h s.r hs.1 a1 r1 hx
    cases e
    exact ⟨⟨this.1, hs.2⟩, this.2⟩

theorem keeps_lex_safe {α : Type} {d : Bytes} {x : LexM α} (h : Safe d x) :
    Keeps (PInv d) (lex x) (fun _ => True) := keeps_lex (LexSpec.of_safe h)

theorem keeps_tree {d : Bytes} {f : ObjectTree → Res ObjectTree} (h : ∀ t, AllValsIn d t → KT d (f t)) :
    Keeps (PInv d) (tree f) (fun _ => True) := by
  constructor
  intro s hs a s' e
  unfold tree at e
  cases hx : f s.tree with
  | error err => simp [hx, bind, Except.bind] at e
  | ok t1 =>
    simp only [hx, bind, Except.bind, pure, Except.pure] at e
    cases e
    exact ⟨⟨hs.1, (h s.tree hs.2).run t1 hx⟩, trivial⟩

theorem keeps_updObj {d : Bytes} (i : Nat) (f : Obj → Obj) (hf : ∀ o, ValIn d o.value → ValIn d (f o).value) :
    Keeps (PInv d) (updObj i f) (fun _ => True) :=
  keeps_tree fun _ ht => KT.upd ht i f hf

theorem keeps_newObject {d : Bytes} (op : Nat) : Keeps (PInv d) (newObject op) (fun _ => True) := by
  constructor
  intro s hs a s' e
  unfold newObject at e
  cases hx : s.tree.newObject op (pOpcodeTableIndex op true) s.tableHandle with
  | error err => simp [hx, bind, Except.bind] at e
  | ok r =>
    obtain ⟨t1, i⟩ := r
    simp only [hx, bind, Except.bind, pure, Except.pure] at e
    cases e
    exact ⟨⟨hs.1, newObject_vals hs.2 _ _ _ _ hx⟩, trivial⟩

/-- a state-reading primitive: does not change the state; `φ` may use the invariant of that state -/
theorem keeps_read {α : Type} {I : PState → Prop} {φ : α → Prop} (g : PState → Res α)
    (h : ∀ s, I s → ∀ a, g s = .ok a → φ a) :
    Keeps I (fun s => do let a ← g s; pure (a, s) : P α) φ := by
  constructor
  intro s hs a s' e
  cases hg : g s with
  | error err => simp [hg, bind, Except.bind] at e
  | ok a1 =>
    simp only [hg, bind, Except.bind, pure, Except.pure] at e
    have := h s hs a1 hg
    cases e
    exact ⟨hs, this⟩

theorem keeps_getObj {d : Bytes} (i : Nat) : Keeps (PInv d) (getObj i) (fun o => ValIn d o.value) := by
  constructor
  intro s hs a s' e
  unfold getObj at e
  cases hg : s.tree.obj i with
  | error err => simp [hg, bind, Except.bind] at e
  | ok o =>
    simp only [hg, bind, Except.bind, pure, Except.pure] at e
    cases e
    refine ⟨hs, ?_⟩
    unfold ObjectTree.obj at hg
    split at hg
    · rename_i o' ho; cases hg; exact hs.2 i _ ho
    · cases hg

theorem keeps_pure_read {α : Type} {I : PState → Prop} (g : PState → α) :
    Keeps I (fun s => Except.ok (g s, s) : P α) (fun _ => True) :=
  ⟨fun s hs a s' e => by cases e; exact ⟨hs, trivial⟩⟩

theorem keeps_objectAt {I : PState → Prop} (i : Nat) : Keeps I (objectAt i) (fun _ => True) :=
  ⟨fun s hs a s' e => by cases e; exact ⟨hs, trivial⟩⟩
theorem keeps_allBlocks {I : PState → Prop} : Keeps I allBlocks (fun _ => True) :=
  ⟨fun s hs a s' e => by cases e; exact ⟨hs, trivial⟩⟩
theorem keeps_tableHandle {I : PState → Prop} : Keeps I tableHandle (fun _ => True) :=
  ⟨fun s hs a s' e => by cases e; exact ⟨hs, trivial⟩⟩
theorem keeps_pkgEndTop {I : PState → Prop} : Keeps I pkgEndTop (fun _ => True) :=
  ⟨fun s hs a s' e => by cases e; exact ⟨hs, trivial⟩⟩
theorem keeps_stackSizes {I : PState → Prop} : Keeps I stackSizes (fun _ => True) :=
  ⟨fun s hs a s' e => by cases e; exact ⟨hs, trivial⟩⟩
theorem keeps_getTree {I : PState → Prop} : Keeps I getTree (fun _ => True) :=
  ⟨fun s hs a s' e => by cases e; exact ⟨hs, trivial⟩⟩
theorem keeps_passCounters {I : PState → Prop} : Keeps I passCounters (fun _ => True) :=
  ⟨fun s hs a s' e => by cases e; exact ⟨hs, trivial⟩⟩
theorem keeps_reader {d : Bytes} : Keeps (PInv d) reader (fun r => Inv d r) :=
  ⟨fun s hs a s' e => by cases e; exact ⟨hs, hs.1⟩⟩

theorem keeps_scopeCurrent {I : PState → Prop} : Keeps I scopeCurrent (fun _ => True) := by
  constructor
  intro s hs a s' e
  unfold scopeCurrent at e
  split at e
  · cases e
  · cases e; exact ⟨hs, trivial⟩

theorem keeps_derefP {I : PState → Prop} (o : Option Nat) : Keeps I (derefP o) (fun _ => True) := by
  unfold derefP; split
  · exact Keeps.pure trivial
  · exact Keeps.throw _

theorem keeps_optP {α : Type} {I : PState → Prop} (o : Option α) : Keeps I (optP o) (fun _ => True) := by
  unfold optP; split
  · exact Keeps.pure trivial
  · exact Keeps.throw _

theorem keeps_liftR {α : Type} {I : PState → Prop} (x : Res α) : Keeps I (liftR x) (fun _ => True) := by
  constructor
  intro s hs a s' e
  unfold liftR at e
  cases hx : x with
  | error err => simp [hx, bind, Except.bind] at e
  | ok a1 => simp only [hx, bind, Except.bind, pure, Except.pure] at e; cases e; exact ⟨hs, trivial⟩

/-- `modify f` for an `f` that touches neither the reader nor the tree -/
theorem keeps_modify {d : Bytes} (f : PState → PState) (hf : ∀ s, (f s).r = s.r ∧ (f s).tree = s.tree) :
    Keeps (PInv d) (modify f : P Unit) (fun _ => True) := by
  constructor
  intro s hs a s' e
  have e' : (Except.ok ((), f s) : Res (Unit × PState)) = .ok (a, s') := e
  cases e'
  have := hf s
  exact ⟨⟨by rw [this.1]; exact hs.1, by rw [this.2]; exact hs.2⟩, trivial⟩

/-! ## values written by the parser -/

theorem valIn_sliceVal {d : Bytes} {sl : Slice} (h : SliceIn d sl) : ValIn d (sliceVal sl) := by
  unfold sliceVal
  split
  · show 0 + 0 ≤ d.size; omega
  · rename_i off ho; exact h off ho

theorem keeps_lex_parseString {d : Bytes} :
    Keeps (PInv d) (lex (parseString d)) (fun a => SliceIn d a.1) :=
  keeps_lex (LexSpec.of_wp fun r hr => parseString_slice d r hr)

theorem keeps_lex_parseNameString {d : Bytes} (hd : d.size + 1024 ≤ 4294967296) :
    Keeps (PInv d) (lex (parseNameString d)) (fun a => SliceIn d a.1) :=
  keeps_lex (LexSpec.of_wp fun r hr => wp_mono (parseNameString_slice d hd r hr) fun _ _ h => ⟨h.1, h.2.1⟩)

/-- a `Safe` lemma for the lexical action at hand -/
macro "safe_lemma" : tactic => `(tactic| first
  | exact safe_offset _ | exact safe_eof _ | exact safe_pkgEnd _ | exact safe_readByte _ | exact safe_peekByte _
  | exact safe_unreadByte _ | exact safe_setOffset _ _ | exact safe_setPkgEnd _ _ | exact safe_dataPtr _
  | exact safe_parsePkgLength _ | exact safe_parseNumConstant _ _ | exact safe_parseString _
  | exact safe_parseNameString _ | exact safe_nextOpcode _ | exact safe_peekNextOpcode _
  | exact safe_parseByteListRaw _ _)

/-- the side condition of `keeps_updObj`: the written value lies inside the table -/
macro "val_side" : tactic => `(tactic| first
  | (intro _ hv; exact hv)
  | (intro _ _; exact valIn_sliceVal (by assumption))
  | (intro _ _; simp only [ValIn]; done)
  | (intro _ _; simp only [ValIn]; omega))

/-- one structural step of a `Keeps (PInv d)` proof -/
macro "keeps_step" : tactic => `(tactic| with_reducible first
  | apply Keeps.bind
  | intro _
  | exact Keeps.pure trivial
  | exact Keeps.pure (φ := fun _ => True) trivial
  | exact Keeps.throw _
  | exact keeps_lex_parseString
  | exact keeps_lex_parseNameString (by assumption)
  | exact keeps_lex_safe (by safe_lemma)
  | exact keeps_updObj _ _ (by val_side)
  | exact keeps_newObject _
  | exact keeps_getObj _
  | exact keeps_objectAt _ | exact keeps_allBlocks | exact keeps_tableHandle | exact keeps_pkgEndTop
  | exact keeps_stackSizes | exact keeps_getTree | exact keeps_passCounters | exact keeps_reader
  | exact keeps_scopeCurrent | exact keeps_derefP _ | exact keeps_optP _ | exact keeps_liftR _
  | exact keeps_tree (fun _ ht => kt_append ht _ _)
  | exact keeps_tree (fun _ ht => kt_appendAfter ht _ _ _)
  | exact keeps_tree (fun _ ht => kt_detach ht _ _)
  | exact keeps_tree (fun _ ht => kt_free ht _)
  | exact keeps_modify _ (fun _ => ⟨rfl, rfl⟩)
  | split
  | apply_assumption -exfalso
  | dsimp only)
macro "keeps_tac" : tactic => `(tactic| repeat' keeps_step)

section
variable {d : Bytes} (hd : d.size + 1024 ≤ 4294967296)

theorem keeps_scopeEnter (i : Nat) : Keeps (PInv d) (scopeEnter i) (fun _ => True) := by
  unfold scopeEnter; keeps_tac

theorem keeps_scopeExit : Keeps (PInv d) scopeExit (fun _ => True) := by
  constructor
  intro s hs a s' e
  unfold scopeExit at e
  split at e
  · cases e
  · cases e; exact ⟨hs, trivial⟩

theorem keeps_pushPkgEnd (e : Nat) : Keeps (PInv d) (pushPkgEnd d e) (fun _ => True) := by
  unfold pushPkgEnd; keeps_tac

theorem keeps_popPkgEnd : Keeps (PInv d) (popPkgEnd d) (fun _ => True) := by
  unfold popPkgEnd
  apply Keeps.bind
  · exact keeps_modify _ (fun s => by split <;> exact ⟨rfl, rfl⟩)
  · keeps_tac

theorem keeps_setNumValue (obj n : Nat) : Keeps (PInv d) (setNumValue d obj n) (fun _ => True) := by
  unfold setNumValue; keeps_tac

theorem keeps_setStringValue (obj : Nat) : Keeps (PInv d) (setStringValue d obj) (fun _ => True) := by
  unfold setStringValue; keeps_tac

include hd in
theorem keeps_setNameValue (obj : Nat) : Keeps (PInv d) (setNameValue d obj) (fun _ => True) := by
  unfold setNameValue; keeps_tac

theorem keeps_setOpcode (obj op : Nat) : Keeps (PInv d) (setOpcode obj op) (fun _ => True) := by
  unfold setOpcode; keeps_tac

theorem keeps_finishSimpleArg (obj : Nat) (res : PRes) : Keeps (PInv d) (finishSimpleArg obj res) (fun _ => True) := by
  unfold finishSimpleArg; keeps_tac

theorem keeps_simpleNum (obj op n : Nat) : Keeps (PInv d) (simpleNum d obj op n) (fun _ => True) := by
  unfold simpleNum
  have h1 := @keeps_setNumValue d
  have h2 := @keeps_setOpcode d
  have h3 := @keeps_finishSimpleArg d
  keeps_tac

theorem keeps_simpleString (obj : Nat) : Keeps (PInv d) (simpleString d obj) (fun _ => True) := by
  unfold simpleString
  have h1 := @keeps_setStringValue d
  have h2 := @keeps_setOpcode d
  have h3 := @keeps_finishSimpleArg d
  keeps_tac

include hd in
theorem keeps_simpleName (obj : Nat) : Keeps (PInv d) (simpleName d obj) (fun _ => True) := by
  unfold simpleName
  have h1 := keeps_setNameValue hd
  have h2 := @keeps_setOpcode d
  have h3 := @keeps_finishSimpleArg d
  keeps_tac

include hd in
theorem keeps_parseSimpleArg (argType : Nat) : Keeps (PInv d) (parseSimpleArg d argType) (fun _ => True) := by
  unfold parseSimpleArg
  have h1 := @keeps_simpleNum d
  have h2 := @keeps_simpleString d
  have h3 := keeps_simpleName hd
  keeps_tac

/-! ### the byte-list cases (the slice depends on the reader state at the call) -/

theorem bind_ok {α β : Type} {x : P α} {f : α → P β} {s s' : PState} {b : β}
    (e : (x >>= f) s = .ok (b, s')) : ∃ a s1, x s = .ok (a, s1) ∧ f a s1 = .ok (b, s') := by
  have e' : (StateT.bind x f) s = .ok (b, s') := e
  simp only [StateT.bind] at e'
  cases hx : x s with
  | error err => rw [hx] at e'; cases e'
  | ok as => obtain ⟨a, s1⟩ := as; rw [hx] at e'; exact ⟨a, s1, rfl, e'⟩

theorem lex_run {α : Type} {x : LexM α} {s s' : PState} {a : α} (e : lex x s = .ok (a, s')) :
    ∃ r', x s.r = .ok (a, r') ∧ s' = { s with r := r' } := by
  unfold lex at e
  cases hx : x s.r with
  | error err => simp [hx, bind, Except.bind] at e
  | ok ar => obtain ⟨a1, r1⟩ := ar; simp only [hx, bind, Except.bind, pure, Except.pure] at e; cases e; exact ⟨r1, rfl, rfl⟩

theorem updObj_run {i : Nat} {f : Obj → Obj} {s s' : PState} {a : Unit} (e : updObj i f s = .ok (a, s')) :
    s'.r = s.r ∧ s.tree.upd i f = .ok s'.tree := by
  unfold updObj tree at e
  cases hx : s.tree.upd i f with
  | error err => simp [hx, bind, Except.bind] at e
  | ok t1 => simp only [hx, bind, Except.bind, pure, Except.pure] at e; cases e; exact ⟨rfl, rfl⟩

theorem newObject_run {op i : Nat} {s s' : PState} (e : newObject op s = .ok (i, s')) :
    s'.r = s.r ∧ ∃ t1, s.tree.newObject op (pOpcodeTableIndex op true) s.tableHandle = .ok (t1, i) ∧ s'.tree = t1 := by
  unfold newObject at e
  cases hx : s.tree.newObject op (pOpcodeTableIndex op true) s.tableHandle with
  | error err => simp [hx, bind, Except.bind] at e
  | ok r => obtain ⟨t1, j⟩ := r; simp only [hx, bind, Except.bind, pure, Except.pure] at e; cases e; exact ⟨rfl, t1, rfl, rfl⟩

/-- `parseByteList(obj, n)` from a state where the `n` bytes fit below `pkgEnd` (or the reader is at EOF) -/
theorem parseByteList_keeps (obj n : Nat) (s : PState) (hs : PInv d s)
    (hfit : s.r.pkgEnd ≤ s.r.offset ∨ s.r.offset + n ≤ s.r.pkgEnd) :
    ∀ a s', parseByteList d obj n s = .ok (a, s') → PInv d s' := by
  intro a s' e
  unfold parseByteList at e
  obtain ⟨_, s1, e1, e⟩ := bind_ok e
  obtain ⟨_, s2, e2, e⟩ := bind_ok e
  obtain ⟨sl, s3, e3, e⟩ := bind_ok e
  have k1 := (keeps_updObj (d := d) _ _ (by val_side)).run s hs _ _ e1
  have r1 := (updObj_run e1).1
  have k2 := (keeps_updObj (d := d) _ _ (by val_side)).run s1 k1.1 _ _ e2
  have r2 := (updObj_run e2).1
  have hfit2 : s2.r.pkgEnd ≤ s2.r.offset ∨ s2.r.offset + n ≤ s2.r.pkgEnd := by rw [r2, r1]; exact hfit
  obtain ⟨r3, x3, hs3⟩ := lex_run e3
  obtain ⟨sl', r', ew, hi', hsl⟩ := parseByteListRaw_slice d n s2.r k2.1.1 hfit2
  rw [ew] at x3; cases x3
  have k3 : PInv d s3 := by rw [hs3]; exact ⟨hi', k2.1.2⟩
  exact ((keeps_updObj (d := d) _ _ (by intro _ _; exact valIn_sliceVal hsl)).run s3 k3 _ _ e).1

theorem reader_run {s s' : PState} {r : Reader} (e : reader s = .ok (r, s')) : r = s.r ∧ s' = s := by
  cases e; exact ⟨rfl, rfl⟩

theorem pure_run {α : Type} {a b : α} {s s' : PState} (e : (pure a : P α) s = .ok (b, s')) : b = a ∧ s' = s := by
  cases e; exact ⟨rfl, rfl⟩

include hd in
theorem keeps_parseByteListArg : Keeps (PInv d) (parseByteListArg d) (fun _ => True) := by
  constructor
  intro s hs a s' e
  unfold parseByteListArg at e
  obtain ⟨r0, s0, e0, e⟩ := bind_ok e
  obtain ⟨_, hs0⟩ := reader_run e0
  rw [hs0] at e
  split at e
  · obtain ⟨_, hs'⟩ := pure_run e
    rw [hs']
    exact ⟨hs, trivial⟩
  obtain ⟨argObj, s1, e1, ea⟩ := bind_ok e
  obtain ⟨r, s2, e2, eb⟩ := bind_ok ea
  obtain ⟨_, s3, e3, ec⟩ := bind_ok eb
  have k1 := (keeps_newObject (d := d) _).run s hs _ _ e1
  obtain ⟨hr, hs2⟩ := reader_run e2
  rw [hs2] at e3; rw [hr] at e3
  have hfit := byteListArg_fits d (by omega) s1.r k1.1.1
  have k3 := parseByteList_keeps argObj _ s1 k1.1 hfit _ _ e3
  obtain ⟨_, hs'⟩ := pure_run ec
  rw [hs']
  exact ⟨k3, trivial⟩

theorem keeps_connBufferFinish (origPkgEnd origOffset pkgLen dataLen : Nat) :
    Keeps (PInv d) (connBufferFinish d origPkgEnd origOffset pkgLen dataLen) (fun _ => True) := by
  constructor
  intro s hs a s' e
  unfold connBufferFinish at e
  obtain ⟨r, s0, e0, ea⟩ := bind_ok e
  obtain ⟨hr, hs0⟩ := reader_run e0
  rw [hs0, hr] at ea
  split at ea
  · obtain ⟨_, hs'⟩ := pure_run ea
    rw [hs']; exact ⟨hs, trivial⟩
  · rename_i hle
    obtain ⟨connArg, s1, e1, eb⟩ := bind_ok ea
    obtain ⟨_, s2, e2, ec⟩ := bind_ok eb
    obtain ⟨_, s3, e3, ed⟩ := bind_ok ec
    obtain ⟨_, s4, e4, ee⟩ := bind_ok ed
    obtain ⟨_, s5, e5, ef⟩ := bind_ok ee
    have k1 := (keeps_newObject (d := d) _).run s hs _ _ e1
    have r1 := (newObject_run e1).1
    have k2 := (keeps_updObj (d := d) _ _ (by val_side)).run s1 k1.1 _ _ e2
    have r2 := (updObj_run e2).1
    have hfit : s2.r.pkgEnd ≤ s2.r.offset ∨ s2.r.offset + u32 dataLen ≤ s2.r.pkgEnd := by
      right; rw [r2, r1]
      have : u32 dataLen ≤ dataLen := Nat.mod_le _ _
      omega
    have k3 := parseByteList_keeps connArg _ s2 k2.1 hfit _ _ e3
    have k4 := (keeps_lex_safe (d := d) (safe_setPkgEnd d origPkgEnd)).run s3 k3 _ _ e4
    have k5 := (keeps_lex_safe (d := d) (safe_setOffset d _)).run s4 k4.1 _ _ e5
    obtain ⟨_, hs'⟩ := pure_run ef
    rw [hs']
    exact ⟨k5.1, trivial⟩

/-! ### field lists -/

theorem keeps_setNameByte (field i : Nat) (b : UInt8) : Keeps (PInv d) (setNameByte field i b) (fun _ => True) := by
  unfold setNameByte; keeps_tac

theorem keeps_readFieldName (field n i : Nat) : Keeps (PInv d) (readFieldName d field n i) (fun _ => True) := by
  induction n generalizing i with
  | zero => unfold readFieldName; keeps_tac
  | succ n ih =>
    unfold readFieldName
    have h := @keeps_setNameByte d
    keeps_tac

theorem keeps_fieldReserved (st : FieldSt) : Keeps (PInv d) (fieldReserved d st) (fun _ => True) := by
  unfold fieldReserved; keeps_tac
theorem keeps_fieldAccess (st : FieldSt) : Keeps (PInv d) (fieldAccess d st) (fun _ => True) := by
  unfold fieldAccess; keeps_tac
theorem keeps_fieldExtAccess (st : FieldSt) : Keeps (PInv d) (fieldExtAccess d st) (fun _ => True) := by
  unfold fieldExtAccess; keeps_tac
theorem keeps_connBufferLen (o p : Nat) : Keeps (PInv d) (connBufferLen d o p) (fun _ => True) := by
  unfold connBufferLen; keeps_tac

theorem keeps_connBuffer : Keeps (PInv d) (connBuffer d) (fun _ => True) := by
  unfold connBuffer
  have h1 := @keeps_connBufferLen d
  have h2 := @keeps_connBufferFinish d
  keeps_tac

include hd in
theorem keeps_connName : Keeps (PInv d) (connName d) (fun _ => True) := by
  unfold connName
  have h1 := keeps_setNameValue hd
  keeps_tac

include hd in
theorem keeps_fieldConnection (curObj : Nat) (st : FieldSt) : Keeps (PInv d) (fieldConnection d curObj st) (fun _ => True) := by
  unfold fieldConnection
  have h1 := @keeps_connBuffer d
  have h2 := keeps_connName hd
  keeps_tac

theorem keeps_fieldNamed (curObj : Nat) (st : FieldSt) : Keeps (PInv d) (fieldNamed d curObj st) (fun _ => True) := by
  unfold fieldNamed
  have h1 := @keeps_readFieldName d
  apply Keeps.bind; exact keeps_lex_safe (by safe_lemma); intro _ _
  apply Keeps.bind; exact keeps_newObject _; intro _ _
  apply Keeps.bind; exact keeps_lex_safe (by safe_lemma); intro _ _
  apply Keeps.bind; exact keeps_updObj _ _ (by val_side); intro _ _
  apply Keeps.bind; exact h1 _ _ _; intro _ _
  split
  · keeps_step
  · apply Keeps.bind; exact keeps_lex_safe (by safe_lemma); intro _ _
    split
    · keeps_step
    · apply Keeps.bind; exact keeps_getObj _; intro _ _
      keeps_tac

include hd in
theorem keeps_fieldStep (curObj : Nat) (st : FieldSt) : Keeps (PInv d) (fieldStep d curObj st) (fun _ => True) := by
  unfold fieldStep
  have h1 := @keeps_fieldReserved d
  have h2 := @keeps_fieldAccess d
  have h3 := @keeps_fieldExtAccess d
  have h4 := keeps_fieldConnection hd
  have h5 := @keeps_fieldNamed d
  keeps_tac

include hd in
theorem keeps_fieldLoop (curObj f : Nat) (st : FieldSt) : Keeps (PInv d) (fieldLoop d curObj f st) (fun _ => True) := by
  induction f generalizing st with
  | zero => unfold fieldLoop; keeps_tac
  | succ f ih =>
    unfold fieldLoop
    have h1 := keeps_fieldStep hd
    keeps_tac

theorem keeps_u64Value (i : Nat) : Keeps (PInv d) (u64Value i) (fun _ => True) := by
  unfold u64Value; keeps_tac

include hd in
theorem keeps_parseFieldElements (curObj : Nat) : Keeps (PInv d) (parseFieldElements d curObj) (fun _ => True) := by
  unfold parseFieldElements
  have h1 := keeps_fieldLoop hd
  have h2 := @keeps_u64Value d
  keeps_tac

/-! ### the first pass -/

theorem keeps_namePathOrCallObject (o : Nat) (sl : Slice) (hsl : SliceIn d sl) :
    Keeps (PInv d) (namePathOrCallObject o sl) (fun _ => True) := by
  unfold namePathOrCallObject; keeps_tac

theorem keeps_parsePkgLenArg (info curObj : Nat) : Keeps (PInv d) (parsePkgLenArg d info curObj) (fun _ => True) := by
  unfold parsePkgLenArg
  have h1 := @keeps_pushPkgEnd d
  keeps_tac

theorem keeps_newScopeBlock : Keeps (PInv d) newScopeBlock (fun _ => True) := by
  unfold newScopeBlock
  have h1 := @keeps_scopeEnter d
  keeps_tac

/-- the nine mutually recursive functions of the object parser keep the invariant -/
structure FirstPassKeeps (d : Bytes) (f : Nat) : Prop where
  nextObject : Keeps (PInv d) (parseNextObject d f) (fun _ => True)
  objectArgs : ∀ c, Keeps (PInv d) (parseObjectArgs d f c) (fun _ => True)
  args : ∀ i c a, Keeps (PInv d) (parseArgs d f i c a) (fun _ => True)
  arg : ∀ i c a, Keeps (PInv d) (parseArg d f i c a) (fun _ => True)
  termList : Keeps (PInv d) (termListLoop d f) (fun _ => True)
  namePath : Keeps (PInv d) (parseNamePathOrMethodCall d f) (fun _ => True)
  methodArgs : ∀ n, Keeps (PInv d) (methodArgsLoop d f n) (fun _ => True)
  strictTermArg : ∀ c, Keeps (PInv d) (parseStrictTermArg d f c) (fun _ => True)
  target : Keeps (PInv d) (parseTarget d f) (fun _ => True)

set_option maxRecDepth 4000 in
set_option maxHeartbeats 800000 in
include hd in
theorem firstPassKeeps (f : Nat) : FirstPassKeeps d f := by
  induction f with
  | zero =>
    constructor
    · unfold parseNextObject; exact Keeps.throw _
    · intro c; unfold parseObjectArgs; exact Keeps.throw _
    · intro i c a; unfold parseArgs; exact Keeps.throw _
    · intro i c a; unfold parseArg; exact Keeps.throw _
    · unfold termListLoop; exact Keeps.throw _
    · unfold parseNamePathOrMethodCall; exact Keeps.throw _
    · intro n; unfold methodArgsLoop; exact Keeps.throw _
    · intro c; unfold parseStrictTermArg; exact Keeps.throw _
    · unfold parseTarget; exact Keeps.throw _
  | succ f ih =>
    have i1 := ih.nextObject
    have i2 := ih.objectArgs
    have i3 := ih.args
    have i4 := ih.arg
    have i5 := ih.termList
    have i6 := ih.namePath
    have i7 := ih.methodArgs
    have i8 := ih.strictTermArg
    have i9 := ih.target
    have g1 := @keeps_setNumValue d
    have g2 := @keeps_setStringValue d
    have g3 := keeps_setNameValue hd
    have g4 := keeps_parseSimpleArg hd
    have g5 := keeps_parseByteListArg hd
    have g6 := @keeps_parsePkgLenArg d
    have g7 := keeps_parseFieldElements hd
    have g8 := @keeps_newScopeBlock d
    have g9 := @keeps_scopeEnter d
    have g10 := @keeps_scopeExit d
    have g11 := @keeps_popPkgEnd d
    have g12 := @keeps_u64Value d
    have g13 := @keeps_namePathOrCallObject d
    constructor
    · unfold parseNextObject; keeps_tac
    · intro c; unfold parseObjectArgs; keeps_tac
    · intro i c a; unfold parseArgs; keeps_tac
    · intro i c a; unfold parseArg; keeps_tac
    · unfold termListLoop; keeps_tac
    · unfold parseNamePathOrMethodCall; keeps_tac
    · intro n
      cases n with
      | zero => unfold methodArgsLoop; exact Keeps.pure trivial
      | succ n => unfold methodArgsLoop; keeps_tac
    · intro c; unfold parseStrictTermArg; keeps_tac
    · unfold parseTarget; keeps_tac

/-! ### `parseObjectList` and the tree passes -/

include hd in
theorem keeps_objectListInner (fuel n : Nat) : Keeps (PInv d) (objectListInner d fuel n) (fun _ => True) := by
  induction n with
  | zero => unfold objectListInner; exact Keeps.throw _
  | succ n ih =>
    unfold objectListInner
    have h1 := (firstPassKeeps hd fuel).nextObject
    keeps_tac

include hd in
theorem keeps_parseObjectList (fuel n : Nat) : Keeps (PInv d) (parseObjectList d fuel n) (fun _ => True) := by
  induction n with
  | zero => unfold parseObjectList; exact Keeps.throw _
  | succ n ih =>
    unfold parseObjectList
    have h1 := keeps_objectListInner hd
    have h2 := @keeps_scopeExit d
    have h3 := @keeps_popPkgEnd d
    keeps_tac

theorem keeps_attachSiblingsAsArgs (p t : Nat) (u : Bool) (n i : Nat) :
    Keeps (PInv d) (attachSiblingsAsArgs p t u n i) (fun _ => True) := by
  induction n generalizing i with
  | zero => unfold attachSiblingsAsArgs; exact Keeps.pure trivial
  | succ n ih => unfold attachSiblingsAsArgs; keeps_tac

theorem keeps_firstTermArg (info n i c : Nat) : Keeps (PInv d) (firstTermArg info n i c) (fun _ => True) := by
  induction n generalizing i with
  | zero => unfold firstTermArg; exact Keeps.pure trivial
  | succ n ih => unfold firstTermArg; keeps_tac

theorem keeps_numArgs (o : Nat) : Keeps (PInv d) (numArgs o) (fun _ => True) := by
  unfold numArgs; keeps_tac
theorem keeps_prevOf (o : Nat) : Keeps (PInv d) (prevOf o) (fun _ => True) := by
  unfold prevOf; keeps_tac
theorem keeps_nextOf (o : Nat) : Keeps (PInv d) (nextOf o) (fun _ => True) := by
  unfold nextOf; keeps_tac

theorem keeps_connectNamedStep (obj argObj : Nat) : Keeps (PInv d) (connectNamedStep d obj argObj) (fun _ => True) := by
  unfold connectNamedStep
  have h1 := @keeps_attachSiblingsAsArgs d
  have h2 := @keeps_firstTermArg d
  have h3 := @keeps_numArgs d
  have h4 := @keeps_nextOf d
  keeps_tac

set_option maxRecDepth 4000 in
theorem keeps_connectNamed (f : Nat) :
    (∀ i, Keeps (PInv d) (connectNamedObjArgs d f i) (fun _ => True)) ∧
    (∀ o i, Keeps (PInv d) (connectNamedLoop d f o i) (fun _ => True)) := by
  induction f with
  | zero =>
    constructor
    · intro i; unfold connectNamedObjArgs; exact Keeps.throw _
    · intro o i; unfold connectNamedLoop; exact Keeps.throw _
  | succ f ih =>
    have i1 := ih.1
    have i2 := ih.2
    have h1 := @keeps_connectNamedStep d
    have h2 := @keeps_prevOf d
    constructor
    · intro i; unfold connectNamedObjArgs; keeps_tac
    · intro o i; unfold connectNamedLoop; keeps_tac

theorem keeps_findScopeBlock (f i : Nat) : Keeps (PInv d) (findScopeBlock f i) (fun _ => True) := by
  induction f generalizing i with
  | zero => unfold findScopeBlock; exact Keeps.throw _
  | succ f ih => unfold findScopeBlock; keeps_tac

theorem keeps_scopeBlockOf (f t : Nat) : Keeps (PInv d) (scopeBlockOf f t) (fun _ => True) := by
  unfold scopeBlockOf
  have h1 := @keeps_findScopeBlock d
  keeps_tac

theorem keeps_moveContents (c t f i : Nat) : Keeps (PInv d) (moveContents c t f i) (fun _ => True) := by
  induction f generalizing i with
  | zero => unfold moveContents; exact Keeps.throw _
  | succ f ih =>
    unfold moveContents
    have h1 := @keeps_nextOf d
    keeps_tac

theorem keeps_bytesValue (i : Nat) : Keeps (PInv d) (bytesValue d i) (fun _ => True) := by
  unfold bytesValue; keeps_tac

theorem keeps_mergeScope (fuel obj : Nat) : Keeps (PInv d) (mergeScope d fuel obj) (fun _ => True) := by
  unfold mergeScope
  have h1 := @keeps_bytesValue d
  have h2 := @keeps_scopeBlockOf d
  have h3 := @keeps_moveContents d
  keeps_tac

theorem keeps_merge (f : Nat) :
    (∀ i, Keeps (PInv d) (mergeScopeDirectives d f i) (fun _ => True)) ∧
    (∀ i r, Keeps (PInv d) (mergeLoop d f i r) (fun _ => True)) := by
  induction f with
  | zero =>
    constructor
    · intro i; unfold mergeScopeDirectives; exact Keeps.throw _
    · intro i r; unfold mergeLoop; exact Keeps.throw _
  | succ f ih =>
    have i1 := ih.1
    have i2 := ih.2
    have h1 := @keeps_mergeScope d
    constructor
    · intro i; unfold mergeScopeDirectives; keeps_tac
    · intro i r; unfold mergeLoop; keeps_tac

theorem keeps_isAncestorOrSelf (o f a : Nat) : Keeps (PInv d) (isAncestorOrSelf o f a) (fun _ => True) := by
  induction f generalizing a with
  | zero => unfold isAncestorOrSelf; exact Keeps.throw _
  | succ f ih => unfold isAncestorOrSelf; keeps_tac

theorem keeps_relocateOne (fuel obj off len : Nat) (bytes : List UInt8) (hfit : off + len ≤ d.size) :
    Keeps (PInv d) (relocateOne d fuel obj off len bytes) (fun _ => True) := by
  unfold relocateOne
  have h2 := @keeps_scopeBlockOf d
  have h3 := @keeps_isAncestorOrSelf d
  keeps_tac

theorem valBytes_fit {v : Val} {nb : Nat × Nat × List UInt8} (hv : ValIn d v) (h : valBytes d v = some nb) :
    nb.1 + nb.2.1 ≤ d.size := by
  unfold valBytes at h
  split at h
  · cases h; exact hv
  · cases h

theorem keeps_relocateNamed (fuel obj : Nat) : Keeps (PInv d) (relocateNamed d fuel obj) (fun _ => True) := by
  unfold relocateNamed
  apply Keeps.bind; exact keeps_getObj _; intro _ _
  apply Keeps.bind; exact keeps_objectAt _; intro _ _
  apply Keeps.bind; exact keeps_derefP _; intro _ _
  apply Keeps.bind; exact keeps_getObj _; intro o ho
  split
  · exact Keeps.pure trivial
  · rename_i nb hnb
    split
    · exact keeps_relocateOne _ _ _ _ _ (valBytes_fit ho hnb)
    · exact Keeps.pure trivial

theorem keeps_relocate (f : Nat) :
    (∀ i, Keeps (PInv d) (relocateNamedObjects d f i) (fun _ => True)) ∧
    (∀ i r, Keeps (PInv d) (relocateLoop d f i r) (fun _ => True)) := by
  induction f with
  | zero =>
    constructor
    · intro i; unfold relocateNamedObjects; exact Keeps.throw _
    · intro i r; unfold relocateLoop; exact Keeps.throw _
  | succ f ih =>
    have i1 := ih.1
    have i2 := ih.2
    have h1 := @keeps_relocateNamed d
    constructor
    · intro i; unfold relocateNamedObjects; keeps_tac
    · intro i r; unfold relocateLoop; keeps_tac

theorem keeps_popAllPkgEnds (n : Nat) : Keeps (PInv d) (popAllPkgEnds d n) (fun _ => True) := by
  induction n with
  | zero => unfold popAllPkgEnds; exact Keeps.pure trivial
  | succ n ih =>
    unfold popAllPkgEnds
    have h1 := @keeps_popPkgEnd d
    keeps_tac

include hd in
theorem keeps_parseDeferred (fuel obj : Nat) : Keeps (PInv d) (parseDeferred d fuel obj) (fun _ => True) := by
  unfold parseDeferred
  have h1 := (firstPassKeeps hd fuel).objectArgs
  have h2 := @keeps_popAllPkgEnds d
  have h3 : Keeps (PInv d) (fun s => pure (s.streamEnd, s) : P Nat) (fun _ => True) :=
    ⟨fun s hs a s' e => by cases e; exact ⟨hs, trivial⟩⟩
  keeps_tac

include hd in
theorem keeps_deferred (fuel f : Nat) :
    (∀ i, Keeps (PInv d) (parseDeferredBlocks d fuel f i) (fun _ => True)) ∧
    (∀ i, Keeps (PInv d) (deferredLoop d fuel f i) (fun _ => True)) := by
  induction f with
  | zero =>
    constructor
    · intro i; unfold parseDeferredBlocks; exact Keeps.throw _
    · intro i; unfold deferredLoop; exact Keeps.throw _
  | succ f ih =>
    have i1 := ih.1
    have i2 := ih.2
    have h1 := keeps_parseDeferred hd
    have h2 := @keeps_nextOf d
    constructor
    · intro i; unfold parseDeferredBlocks; keeps_tac
    · intro i; unfold deferredLoop; keeps_tac

theorem keeps_connectNonNamedStep (obj argObj : Nat) : Keeps (PInv d) (connectNonNamedStep obj argObj) (fun _ => True) := by
  unfold connectNonNamedStep
  have h1 := @keeps_attachSiblingsAsArgs d
  have h2 := @keeps_firstTermArg d
  have h3 := @keeps_numArgs d
  have h4 := @keeps_nextOf d
  keeps_tac

set_option maxRecDepth 4000 in
theorem keeps_connectNonNamed (f : Nat) :
    (∀ i, Keeps (PInv d) (connectNonNamedObjArgs f i) (fun _ => True)) ∧
    (∀ o i, Keeps (PInv d) (connectNonNamedLoop f o i) (fun _ => True)) := by
  induction f with
  | zero =>
    constructor
    · intro i; unfold connectNonNamedObjArgs; exact Keeps.throw _
    · intro o i; unfold connectNonNamedLoop; exact Keeps.throw _
  | succ f ih =>
    have i1 := ih.1
    have i2 := ih.2
    have h1 := @keeps_connectNonNamedStep d
    have h2 := @keeps_prevOf d
    constructor
    · intro i; unfold connectNonNamedObjArgs; keeps_tac
    · intro o i; unfold connectNonNamedLoop; keeps_tac

theorem keeps_mutateOpcode (a op : Nat) : Keeps (PInv d) (mutateOpcode a op) (fun _ => True) := by
  unfold mutateOpcode; keeps_tac

theorem keeps_resolveToMethod (o a r : Nat) : Keeps (PInv d) (resolveToMethod o a r) (fun _ => True) := by
  unfold resolveToMethod
  have h1 := @keeps_mutateOpcode d
  have h2 := @keeps_attachSiblingsAsArgs d
  have h3 := @keeps_nextOf d
  keeps_tac

theorem keeps_resolveStep (o a : Nat) : Keeps (PInv d) (resolveStep d o a) (fun _ => True) := by
  unfold resolveStep
  have h1 := @keeps_mutateOpcode d
  have h2 := @keeps_resolveToMethod d
  have h3 := @keeps_bytesValue d
  keeps_tac

theorem keeps_resolve (f : Nat) :
    (∀ i, Keeps (PInv d) (resolveMethodCalls d f i) (fun _ => True)) ∧
    (∀ o i, Keeps (PInv d) (resolveLoop d f o i) (fun _ => True)) := by
  induction f with
  | zero =>
    constructor
    · intro i; unfold resolveMethodCalls; exact Keeps.throw _
    · intro o i; unfold resolveLoop; exact Keeps.throw _
  | succ f ih =>
    have i1 := ih.1
    have i2 := ih.2
    have h1 := @keeps_resolveStep d
    have h2 := @keeps_prevOf d
    constructor
    · intro i; unfold resolveMethodCalls; keeps_tac
    · intro o i; unfold resolveLoop; keeps_tac

theorem keeps_resolveLoopPasses (fuel n : Nat) : Keeps (PInv d) (resolveLoopPasses d fuel n) (fun _ => True) := by
  induction n with
  | zero => unfold resolveLoopPasses; exact Keeps.throw _
  | succ n ih =>
    unfold resolveLoopPasses
    have h1 := (@keeps_merge d fuel).1
    have h2 := (@keeps_relocate d fuel).1
    keeps_tac

/-! ### `ParseAML` -/

include hd in
theorem keeps_parseAMLBody (fuel : Nat) : Keeps (PInv d) (parseAMLBody d fuel) (fun _ => True) := by
  unfold parseAMLBody
  have h1 := @keeps_scopeEnter d
  have h2 := keeps_parseObjectList hd
  have h3 := (@keeps_connectNamed d fuel).1
  have h4 := @keeps_resolveLoopPasses d
  have h5 := (keeps_deferred hd fuel fuel).1
  have h6 := (@keeps_resolve d fuel).1
  have h7 := (@keeps_connectNonNamed d fuel).1
  keeps_tac

theorem modify_run {f : PState → PState} {s s' : PState} {a : Unit} (e : (modify f : P Unit) s = .ok (a, s')) :
    s' = f s := by
  have e' : (Except.ok ((), f s) : Res (Unit × PState)) = .ok (a, s') := e
  cases e'; rfl

/-- `init` establishes the invariant from any state whose stored values lie inside the table -/
theorem init_establishes (handle : Nat) (s : PState) (hs : AllValsIn d s.tree) :
    ∀ a s', init d handle s = .ok (a, s') → PInv d s' := by
  intro a s' e
  unfold init at e
  obtain ⟨_, s1, e1, ea⟩ := bind_ok e
  obtain ⟨_, s2, e2, eb⟩ := bind_ok ea
  obtain ⟨_, s3, e3, ec⟩ := bind_ok eb
  have h1 := modify_run e1
  have h2 := modify_run e2
  have hi2 : PInv d s2 := by
    rw [h2, h1]
    refine ⟨?_, hs⟩
    constructor
    · show (if headerLen > d.size then d.size else headerLen) ≤ d.size
      split <;> omega
    · exact Nat.le_refl _
  have k3 := (keeps_pushPkgEnd (d := d) d.size).run s2 hi2 _ _ e3
  obtain ⟨_, hs'⟩ := pure_run ec
  rw [hs']; exact k3.1

/-- **the parser keeps every stored value inside the table** (partial correctness): whenever
`parseAML` returns — success or parse error — from a tree whose stored values lie inside `d`, the
reader window and every value stored in the resulting pool lie inside `d` -/
theorem parseAML_keeps (hd : d.size + 1024 ≤ 4294967296) (fuel handle : Nat) (s : PState) (hs : AllValsIn d s.tree) :
    ∀ ok s', parseAML d fuel handle s = .ok (ok, s') → Inv d s'.r ∧ AllValsIn d s'.tree := by
  intro ok s' e
  unfold parseAML at e
  obtain ⟨_, s1, e1, ea⟩ := bind_ok e
  have k1 := init_establishes handle s hs _ _ e1
  exact ((keeps_parseAMLBody hd fuel).run s1 k1 _ _ ea).1

end

end Firefly.AmlParser
