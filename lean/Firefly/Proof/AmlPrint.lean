import Firefly.Replay.AmlCommon
import Firefly.Proof.AmlMerge
/-!
`print_total`: the walk of `PrettyPrint` (the model of its panic sites, `Replay.Aml.printWalk`) over a well-formed
pool whose values have the dynamic types `toString` asserts returns normally — no `.panic`, and the fuel
`printFuel` (quadratic in the pool size: at most `size + 1` levels of at most `size` siblings) is enough.
-/
namespace Firefly.AmlParser
open Firefly.AmlLex Firefly.AmlTree Firefly.C13 Firefly.AmlTree.ObjectTree
open Firefly.Gen.C12

/-- the dynamic types `toString` asserts, and the objects it dereferences -/
structure PrintOK (t : ObjectTree) (x : Nat) : Prop where
  call : (slot t x).opcode = opIntMethodCall → ∃ i fl v, (slot t x).value = .idx i ∧ C13.live t i = true ∧
    t.ArgAt (some i) 1 = .ok (some fl) ∧ C13.live t fl = true ∧ (slot t fl).value = .u64 v
  resolved : (slot t x).opcode = opIntResolvedNamePath → ∃ i, (slot t x).value = .idx i ∧ C13.live t i = true
  field : (slot t x).opcode = opIntNamedField → ∃ a b c d e f g h i, (slot t x).value = .field a b c d e f g h i
  str : ((slot t x).opcode = opStringPrefix ∨ (slot t x).opcode = opIntNamePath) → ∃ off len, (slot t x).value = .bytes off len
  dword : (slot t x).opcode = opDwordPrefix → (∃ v, (slot t x).value = .u64 v) → C13.live t (C13.P t x) = true

/-- the walk below a node at `m` levels above the deepest possible level, and the walk over a sibling list -/
theorem print_levels {t : ObjectTree} (w : WF t) (hp : ∀ x, C13.live t x = true → PrintOK t x) : ∀ (m : Nat),
    (∀ (x f : Nat) (l : List Nat), C13.live t x = true → Chain t (C13.P t) x l → t.pool.size + 1 ≤ l.length + m →
      m * (t.pool.size + 2) ≤ f → Replay.Aml.printWalk t f x = .ok ()) ∧
    (∀ (ks : List Nat) (i f par : Nat) (l : List Nat), Chain t (Nx t) i ks → (∀ k ∈ ks, C13.P t k = par) →
      C13.live t par = true → Chain t (C13.P t) par l → t.pool.size + 1 ≤ l.length + 1 + m →
      ks.length + 1 + m * (t.pool.size + 2) ≤ f → Replay.Aml.printKids t f i = .ok ()) := by
  intro m
  induction m with
  | zero =>
    constructor
    · intro x f l hx hc hlen _
      exfalso
      obtain ⟨l', hc', hlen'⟩ := w.parChain x (Or.inr hx)
      have := chain_det (C13.P t) w.size_le _ _ _ hc hc'
      subst this; omega
    · intro ks
      induction ks with
      | nil =>
        intro i f par l hc _ _ _ _ hf
        have hi : i = invalidIndex := hc
        cases f with
        | zero => omega
        | succ f =>
          unfold Replay.Aml.printKids
          rw [if_pos hi]; rfl
      | cons k ks _ =>
        intro i f par l hc hpar hpl hcl hlen _
        exfalso
        obtain ⟨rfl, hk, _⟩ := hc
        have hpk := hpar i (List.mem_cons_self ..)
        have hck : Chain t (C13.P t) i (i :: l) := ⟨rfl, hk, by rw [hpk]; exact hcl⟩
        obtain ⟨l', hc', hlen'⟩ := w.parChain i (Or.inr hk)
        have := chain_det (C13.P t) w.size_le _ _ _ hck hc'
        subst this
        simp at hlen'; omega
  | succ m ih =>
    have walk : ∀ (x f : Nat) (l : List Nat), C13.live t x = true → Chain t (C13.P t) x l → t.pool.size + 1 ≤ l.length + (m + 1) →
        (m + 1) * (t.pool.size + 2) ≤ f → Replay.Aml.printWalk t f x = .ok () := by
      intro x f l hx hc hlen hf
      cases f with
      | zero => exfalso; have : 0 < (m + 1) * (t.pool.size + 2) := Nat.mul_pos (by omega) (by omega); omega
      | succ f =>
        have hpx := hp x hx
        unfold Replay.Aml.printWalk
        simp only [objectAt_live hx, deref_some, obj_eq (live_lt hx), bind, Except.bind]
        -- the arguments
        obtain ⟨ks, hck, _, hklen⟩ := w.args_eq hx
        have hkpar : ∀ k ∈ ks, C13.P t k = x := by
          intro k hk
          have hkk := w.kids_of_chain hx hck
          exact ((w.kids_mem x hx k).1 (by rw [hkk]; exact hk)).2
        have hkids : Replay.Aml.printKids t f (slot t x).firstArgIndex = .ok () := by
          refine ih.2 ks _ f x l hck hkpar hx hc (by omega) ?_
          have : (m + 1) * (t.pool.size + 2) = m * (t.pool.size + 2) + (t.pool.size + 2) := by
            rw [Nat.add_mul]; simp
          omega
        rw [hkids]
        -- the node itself: every type assertion and dereference of `toString` succeeds
        obtain ⟨r, er, _⟩ := argAt_total' w x 1 hx
        by_cases hmeth : (slot t x).opcode = opMethod
        · rw [if_pos hmeth, er]
          simp only
          by_cases h1 : (slot t x).opcode = opIntMethodCall
          · rw [if_pos h1]
            obtain ⟨i, fl, v, hv, hil, harg, hfl, hfv⟩ := hpx.call h1
            rw [hv]
            simp only [objectAt_live hil, harg, deref_some, obj_eq (live_lt hfl), hfv]
          · rw [if_neg h1]
            by_cases h2 : (slot t x).opcode = opIntResolvedNamePath
            · rw [if_pos h2]
              obtain ⟨i, hv, hil⟩ := hpx.resolved h2
              rw [hv]
              simp only [objectAt_live hil, deref_some]
            · rw [if_neg h2]
              by_cases h3 : (slot t x).opcode = opIntNamedField
              · rw [if_pos h3]
                obtain ⟨a, b, c, d', e, f', g, h', i, hv⟩ := hpx.field h3
                rw [hv]
              · rw [if_neg h3]
                by_cases h4 : (slot t x).opcode = opStringPrefix ∨ (slot t x).opcode = opIntNamePath
                · rw [if_pos h4]
                  obtain ⟨off, len, hv⟩ := hpx.str h4
                  rw [hv]
                · rw [if_neg h4]
                  cases hv : (slot t x).value with
                  | u64 v =>
                    simp only
                    by_cases h5 : (slot t x).opcode = opDwordPrefix
                    · rw [if_pos h5]
                      have := hpx.dword h5 ⟨v, hv⟩
                      have hpp : (slot t x).parentIndex = C13.P t x := rfl
                      rw [hpp, objectAt_live this, deref_some]
                    · rw [if_neg h5]
                  | none => rfl
                  | idx _ => rfl
                  | bytes _ _ => rfl
                  | field _ _ _ _ _ _ _ _ _ => rfl
        · rw [if_neg hmeth]
          by_cases h1 : (slot t x).opcode = opIntMethodCall
          · rw [if_pos h1]
            obtain ⟨i, fl, v, hv, hil, harg, hfl, hfv⟩ := hpx.call h1
            rw [hv]
            simp only [objectAt_live hil, harg, deref_some, obj_eq (live_lt hfl), hfv]
          · rw [if_neg h1]
            by_cases h2 : (slot t x).opcode = opIntResolvedNamePath
            · rw [if_pos h2]
              obtain ⟨i, hv, hil⟩ := hpx.resolved h2
              rw [hv]
              simp only [objectAt_live hil, deref_some]
            · rw [if_neg h2]
              by_cases h3 : (slot t x).opcode = opIntNamedField
              · rw [if_pos h3]
                obtain ⟨a, b, c, d', e, f', g, h', i, hv⟩ := hpx.field h3
                rw [hv]
              · rw [if_neg h3]
                by_cases h4 : (slot t x).opcode = opStringPrefix ∨ (slot t x).opcode = opIntNamePath
                · rw [if_pos h4]
                  obtain ⟨off, len, hv⟩ := hpx.str h4
                  rw [hv]
                · rw [if_neg h4]
                  cases hv : (slot t x).value with
                  | u64 v =>
                    simp only
                    by_cases h5 : (slot t x).opcode = opDwordPrefix
                    · rw [if_pos h5]
                      have := hpx.dword h5 ⟨v, hv⟩
                      have hpp : (slot t x).parentIndex = C13.P t x := rfl
                      rw [hpp, objectAt_live this, deref_some]
                    · rw [if_neg h5]
                  | none => rfl
                  | idx _ => rfl
                  | bytes _ _ => rfl
                  | field _ _ _ _ _ _ _ _ _ => rfl
    constructor
    · exact walk
    · intro ks
      induction ks with
      | nil =>
        intro i f par l hc _ _ _ _ hf
        have hi : i = invalidIndex := hc
        cases f with
        | zero => omega
        | succ f =>
          unfold Replay.Aml.printKids
          rw [if_pos hi]; rfl
      | cons k ks ihk =>
        intro i f par l hc hpar hpl hcl hlen hf
        obtain ⟨rfl, hk, hc'⟩ := hc
        have hpk := hpar i (List.mem_cons_self ..)
        have hck : Chain t (C13.P t) i (i :: l) := ⟨rfl, hk, by rw [hpk]; exact hcl⟩
        cases f with
        | zero => simp at hf
        | succ f =>
          unfold Replay.Aml.printKids
          rw [if_neg (show ¬ i = invalidIndex from live_ne_INV w.size_le hk)]
          simp only [bind, Except.bind]
          have h1 : Replay.Aml.printWalk t f i = .ok () := by
            refine walk i f (i :: l) hk hck (by simp; omega) ?_
            simp at hf
            have : (m + 1) * (t.pool.size + 2) = m * (t.pool.size + 2) + (t.pool.size + 2) := by
              rw [Nat.add_mul]; simp
            omega
          rw [h1]
          simp only [objectAt_live hk, deref_some, obj_eq (live_lt hk)]
          refine ihk (Nx t i) f par l hc' (fun k hk' => hpar k (List.mem_cons_of_mem _ hk')) hpl hcl hlen ?_
          simp at hf; omega

/-- **`PrettyPrint` is total on well-formed pools**: the walk from the root returns normally with the fuel the
replay oracle gives it -/
theorem print_total' {t : ObjectTree} (w : WF t) (hroot : C13.live t 0 = true) (hp : ∀ x, C13.live t x = true → PrintOK t x) :
    Replay.Aml.printWalk t (Replay.Aml.printFuel t) 0 = .ok () ∧ Replay.Aml.printOutcome t = "ok" := by
  obtain ⟨l, hc, _⟩ := w.parChain 0 (Or.inr hroot)
  have h1 : Replay.Aml.printWalk t (Replay.Aml.printFuel t) 0 = .ok () := by
    refine (print_levels w hp (t.pool.size + 1)).1 0 _ l hroot hc (by omega) ?_
    unfold Replay.Aml.printFuel
    have : (t.pool.size + 2) * (t.pool.size + 2) = (t.pool.size + 1) * (t.pool.size + 2) + (t.pool.size + 2) := by
      rw [← Nat.succ_mul]
    omega
  refine ⟨h1, ?_⟩
  unfold Replay.Aml.printOutcome
  have hsz : t.pool.size ≠ 0 := by have := live_lt hroot; omega
  rw [if_neg hsz, h1]

end Firefly.AmlParser
