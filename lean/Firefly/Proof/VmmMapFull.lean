import Firefly.Proof.VmmOwnUpd
/-! `Map` in full generality: any number of new levels, allocator failure at any point. -/
namespace Firefly.Vmm
open Firefly.Gen.C04

/-- A well-formed address space rooted at `R`, seen through the active root's window: the tables form
a tree (`own`), the active root is `R` itself or lies outside the tree, and the frames the allocator
will hand out are RAM, < 2^40, pairwise distinct, not part of the tree and not the active root. -/
structure Good (st : St) (R : W) (own : Own) : Prop where
  win : Window st R
  owned : Owned st.mem R own
  act : frameN (st.cr3 &&& hwMask) = frameN R ∨ own (frameN (st.cr3 &&& hwMask)) = none
  free : ∀ f ∈ st.free, FrameOK f ∧ st.mem.backed f.toNat = true ∧ own f.toNat = none ∧
    f.toNat ≠ frameN (st.cr3 &&& hwMask)
  nodup : (st.free.map BitVec.toNat).Nodup

/-- registers and globals an operation leaves alone -/
structure SameRegs (st st' : St) : Prop where
  cr3 : st'.cr3 = st.cr3
  cursor : st'.cursor = st.cursor
  zeroFrame : st'.zeroFrame = st.zeroFrame
  protect : st'.protect = st.protect
  kpdt : st'.kpdt = st.kpdt
  tmpFail : st'.tmpFail = st.tmpFail
  backed : ∀ f, st'.mem.backed f = st.mem.backed f

theorem SameRegs.refl (st : St) : SameRegs st st := ⟨rfl, rfl, rfl, rfl, rfl, rfl, fun _ => rfl⟩
theorem SameRegs.trans {a b c : St} (h1 : SameRegs a b) (h2 : SameRegs b c) : SameRegs a c :=
  ⟨h2.cr3.trans h1.cr3, h2.cursor.trans h1.cursor, h2.zeroFrame.trans h1.zeroFrame, h2.protect.trans h1.protect,
    h2.kpdt.trans h1.kpdt, h2.tmpFail.trans h1.tmpFail, fun f => (h2.backed f).trans (h1.backed f)⟩

/-- what every run of `Map`'s walk guarantees, whatever its outcome -/
structure MapPost (st st' : St) (R : W) (own own' : Own) (va : W) : Prop where
  good : Good st' R own'
  /-- the tree only grows -/
  ext : ∀ F x, own F = some x → own' F = some x
  /-- new tables are empty except for the entry on the page's path -/
  newz : ∀ F L pre j, own F = none → own' F = some (L, pre) → st'.mem.rd F j ≠ 0#64 → j = kidx va L
  /-- in old tables only the entry on the page's path can change -/
  path : ∀ F L pre j, own F = some (L, pre) → st'.mem.rd F j ≠ st.mem.rd F j → j = kidx va L ∧ pre = idxs va L
  /-- memory outside the tree is untouched -/
  foot : ∀ F j, own' F = none → st'.mem.rd F j = st.mem.rd F j
  /-- new tables come from the allocator, which is consumed from the front -/
  newfree : ∀ F, own F = none → own' F ≠ none → ∃ f ∈ st.free, f.toNat = F
  sub : ∃ used, st.free = used ++ st'.free
  regs : SameRegs st st'

theorem Good.wr_leaf {st : St} {R : W} {own : Own} (g : Good st R own) {F3 : Nat} {pre : List Nat}
    (h3 : own F3 = some (3, pre)) (j : Nat) (v : W) (a : W) : Good ((st.wrLoc (F3, j) v).flush a) R own := by
  have hA : F3 ≠ frameN (st.cr3 &&& hwMask) := by
    intro h
    rcases g.act with h' | h'
    · rw [h, h', g.owned.root] at h3; cases h3
    · rw [h, h'] at h3; cases h3
  have hR : F3 ≠ frameN R := by
    intro h; rw [h, g.owned.root] at h3; cases h3
  refine ⟨⟨g.win.top.wr _ _ _ (fun h => hA h.1), g.win.self.wr _ _ _ (fun h => hR h.1)⟩, g.owned.leaf_wr h3 j v,
    g.act, ?_, g.nodup⟩
  intro f hf
  obtain ⟨a1, a2, a3, a4⟩ := g.free f hf
  exact ⟨a1, by simpa [St.flush, St.wrLoc] using a2, a3, a4⟩

/-- one new level: everything `newLevel` gives, plus the tree and the abstract address space -/
theorem Good.alloc_step {st : St} {R : W} {own : Own} (g : Good st R own) {va : W} (hu : UserVA va) {L : Nat}
    (hL : L < 3) {T : W} (hc : Chain st.mem R va L T)
    (hp : st.mem.rd (frameN T) (kidx va L) &&& 1#64 = 0#64) {f : W} {rest : List W} (hf : st.free = f :: rest)
    (page frame flags : W) (err : Nat) :
    mapCb page frame flags L (E va L) (frameN T, kidx va L) err st =
      .ok ((true, err), allocStep st f rest (frameN T, kidx va L)) ∧
    Good (allocStep st f rest (frameN T, kidx va L)) R (ownAdd own f.toNat L (idxs va L) (kidx va L)) ∧
    Chain (allocStep st f rest (frameN T, kidx va L)).mem R va (L + 1) (f <<< 12) ∧
    (∀ va', UserVA va' → hwEntry (allocStep st f rest (frameN T, kidx va L)).mem R va' = hwEntry st.mem R va') := by
  have ho := g.owned
  have oT := chain_own ho hu L T (by omega) hc
  obtain ⟨hfo, hfb, hfn, hfA⟩ := g.free f (by rw [hf]; exact List.mem_cons_self)
  have hnone : ∀ G x, own G = some x → f.toNat ≠ G := fun G x hG h => by rw [← h, hfn] at hG; cases hG
  have hTA : ¬(frameN T = frameN (st.cr3 &&& hwMask) ∧ kidx va L = 511) := by
    rintro ⟨h1, h2⟩
    rcases g.act with h' | h'
    · rw [h1, h'] at oT
      have := (own_inj oT ho.root).1
      subst this; exact hu h2
    · rw [h1, h'] at oT; cases oT
  have hTR : ¬(frameN T = frameN R ∧ kidx va L = 511) := by
    rintro ⟨h1, h2⟩
    rw [h1] at oT
    have := (own_inj oT ho.root).1
    subst this; exact hu h2
  have hi : ¬(L = 0 ∧ kidx va L = 511) := by rintro ⟨rfl, h⟩; exact hu h
  obtain ⟨hcb, hw2, hc2⟩ := newLevel va L hL T g.win hc (ho.backed _ _ oT) hp (ho.nohuge _ _ _ _ oT hL) hf hfo hfb
    hfA (hnone _ _ ho.root)
    (fun k T' hk hck => hnone _ _ (chain_own ho hu k T' (by omega) hck))
    hTA hTR
    (fun k T' hk hck hh => by
      have ok := chain_own ho hu k T' (by omega) hck
      rw [← hh.1] at ok
      have := (own_inj oT ok).1; omega)
    page frame flags err
  refine ⟨hcb, ⟨hw2, ?_, ?_, ?_, ?_⟩, hc2, ?_⟩
  · exact ho.link_new oT hL hi hp hfo hfn hfb
  · -- the active root
    rcases g.act with h' | h'
    · left; exact h'
    · right; show ownAdd own f.toNat L (idxs va L) (kidx va L) (frameN (st.cr3 &&& hwMask)) = none
      simp only [ownAdd, if_neg (Ne.symm hfA)]; exact h'
  · intro x hx
    have hx' : x ∈ st.free := by rw [hf]; exact List.mem_cons_of_mem _ hx
    obtain ⟨a1, a2, a3, a4⟩ := g.free x hx'
    refine ⟨a1, by simpa [allocStep, St.wrLoc] using a2, ?_, a4⟩
    have hnd := g.nodup
    rw [hf, List.map_cons, List.nodup_cons] at hnd
    have : x.toNat ≠ f.toNat := fun h => hnd.1 (by rw [← h]; exact List.mem_map_of_mem hx)
    simp only [ownAdd, if_neg this]; exact a3
  · have hnd := g.nodup
    rw [hf, List.map_cons, List.nodup_cons] at hnd
    exact hnd.2
  · intro va' hu'
    exact hwEntry_link_new ho hu hL hc hp hfo hfn va' hu'

theorem MapPost.refl {st : St} {R : W} {own : Own} (g : Good st R own) (va : W) : MapPost st st R own own va :=
  ⟨g, fun _ _ h => h, (fun F L pre j h1 h2 _ => by rw [h1] at h2; cases h2), fun _ _ _ _ _ h => absurd rfl h,
    fun _ _ _ => rfl, fun F h1 h2 => absurd h1 h2, ⟨[], rfl⟩, SameRegs.refl st⟩

/-- outcome of `Map`'s walk in terms of the abstract address space -/
def MapOutcome (st st' : St) (R va v : W) (code : Nat) : Prop :=
  (code = 0 ∧ st'.flushes = st.flushes ++ [va] ∧
    ∀ va', UserVA va' → hwEntry st'.mem R va' =
      if SamePage va' va then (if v &&& 1#64 = 0#64 then none else some v) else hwEntry st.mem R va') ∨
  (code = eAlloc ∧ st'.free = [] ∧ st'.flushes = st.flushes ∧
    ∀ va', UserVA va' → hwEntry st'.mem R va' = hwEntry st.mem R va')

/-- **`Map`'s walk from any level**, by induction on the number of levels left: present levels are
passed, missing levels are created from the allocator one after the other (or the walk stops with the
allocator's error), the leaf entry is stored. -/
theorem map_walk {R : W} (page frame flags va : W) (hva : pageAddr page = va) (hu : UserVA va) :
    ∀ (d L : Nat), L + d = 3 → ∀ (st : St) (own : Own) (T : W), Good st R own → Chain st.mem R va L T →
      ∃ code st' own', walkFrom (mapCb page frame flags) va (lv L) (tableVA va L) 0 st = .ok (code, st') ∧
        MapPost st st' R own own' va ∧ MapOutcome st st' R va (mkEntry frame flags) code := by
  intro d
  induction d with
  | zero =>
    intro L hL st own T g hc
    have : L = 3 := by omega
    subst this
    have oT := chain_own g.owned hu 3 T (by omega) hc
    have hb := g.owned.backed _ _ oT
    refine ⟨0, (st.wrLoc (frameN T, kidx va 3) (mkEntry frame flags)).flush va, own, ?_, ?_, ?_⟩
    · rw [show lv 3 = [3] from rfl, walkFrom_step _ _ _ _ _ _ _ (ptePtr_E g.win va 3 T (by omega) hc hb), mapCb_leaf, hva]
      simp [walkFrom]
    · refine ⟨g.wr_leaf oT _ _ _, fun _ _ h => h, (fun F L pre j h1 h2 _ => by rw [h1] at h2; cases h2), ?_, ?_,
        fun F h1 h2 => absurd h1 h2, ⟨[], rfl⟩, ⟨rfl, rfl, rfl, rfl, rfl, rfl, fun _ => rfl⟩⟩
      · intro F L pre j hF hne
        simp only [St.flush, St.wrLoc, rd_wr] at hne
        by_cases hl : frameN T = F ∧ kidx va 3 = j
        · obtain ⟨rfl, rfl⟩ := hl
          obtain ⟨e1, e2⟩ := own_inj hF oT
          rw [e1, e2]; exact ⟨rfl, rfl⟩
        · rw [if_neg hl] at hne; exact absurd rfl hne
      · intro F j hF
        simp only [St.flush, St.wrLoc, rd_wr]
        rw [if_neg]; rintro ⟨rfl, _⟩; rw [hF] at oT; cases oT
    · left
      refine ⟨rfl, rfl, fun va' hu' => ?_⟩
      exact hwEntry_leaf_wr g.owned hu hc _ va' hu'
  | succ d ih =>
    intro L hL st own T g hc
    have hL3 : L < 3 := by omega
    have oT := chain_own g.owned hu L T (by omega) hc
    have hb := g.owned.backed _ _ oT
    have hnh := g.owned.nohuge _ _ _ (kidx va L) oT hL3
    rw [lv_cons L (by omega), walkFrom_step _ _ _ _ _ _ _ (ptePtr_E g.win va L T (by omega) hc hb)]
    by_cases hp : st.mem.rd (frameN T) (kidx va L) &&& 1#64 = 0#64
    · -- the level is missing
      cases hfree : st.free with
      | nil =>
        refine ⟨eAlloc, st, own, ?_, MapPost.refl g va, Or.inr ⟨rfl, hfree, rfl, fun _ _ => rfl⟩⟩
        rw [mapCb_allocfail hL3 (by exact hp) (by exact hnh) hfree]
      | cons f rest =>
        obtain ⟨hcb, g2, hc2, has2⟩ := g.alloc_step hu hL3 hc hp hfree page frame flags 0
        obtain ⟨code, st', own', hwk, post, out⟩ := ih (L + 1) (by omega) _ _ _ g2 hc2
        obtain ⟨hfo, hfb, hfn, hfA⟩ := g.free f (by rw [hfree]; exact List.mem_cons_self)
        have hext1 : ∀ F x, own F = some x → ownAdd own f.toNat L (idxs va L) (kidx va L) F = some x := by
          intro F x hF
          have : F ≠ f.toNat := fun h => by rw [h, hfn] at hF; cases hF
          simp only [ownAdd, if_neg this]; exact hF
        have hrd2 : ∀ F j, F ≠ f.toNat → ¬(frameN T = F ∧ kidx va L = j) →
            (allocStep st f rest (frameN T, kidx va L)).mem.rd F j = st.mem.rd F j := by
          intro F j h1 h2
          simp only [allocStep, St.wrLoc, rd_setFrame, rd_wr, if_neg (Ne.symm h1), if_neg h2]
        have hz2 : ∀ j, (allocStep st f rest (frameN T, kidx va L)).mem.rd f.toNat j = 0#64 := by
          intro j; simp [allocStep, St.wrLoc]
        refine ⟨code, st', own', ?_, ?_, ?_⟩
        · rw [hcb]; exact hwk
        · refine ⟨post.good, fun F x hF => post.ext F x (hext1 F x hF), ?_, ?_, ?_, ?_, ?_, ?_⟩
          · -- new tables are empty off the path
            intro F L' pre j hF hF' hne
            by_cases hFf : F = f.toNat
            · subst hFf
              have o2 : ownAdd own f.toNat L (idxs va L) (kidx va L) f.toNat = some (L + 1, idxs va L ++ [kidx va L]) := by
                simp [ownAdd]
              have := post.ext _ _ o2
              obtain ⟨e1, _⟩ := own_inj hF' this
              subst e1
              exact (post.path _ _ _ j o2 (by rw [hz2]; exact hne)).1
            · have : ownAdd own f.toNat L (idxs va L) (kidx va L) F = none := by
                simp only [ownAdd, if_neg hFf]; exact hF
              exact post.newz F L' pre j this hF' hne
          · -- old tables change only on the path
            intro F L' pre j hF hne
            have hFf : F ≠ f.toNat := fun h => by rw [h, hfn] at hF; cases hF
            by_cases h2 : st'.mem.rd F j = (allocStep st f rest (frameN T, kidx va L)).mem.rd F j
            · rw [h2] at hne
              by_cases hl : frameN T = F ∧ kidx va L = j
              · obtain ⟨rfl, rfl⟩ := hl
                obtain ⟨e1, e2⟩ := own_inj hF oT
                rw [e1, e2]; exact ⟨rfl, rfl⟩
              · exact absurd (hrd2 F j hFf hl) hne
            · exact post.path F L' pre j (hext1 F _ hF) h2
          · intro F j hF
            have h2 : ownAdd own f.toNat L (idxs va L) (kidx va L) F = none := by
              cases h : ownAdd own f.toNat L (idxs va L) (kidx va L) F with
              | none => rfl
              | some x => rw [post.ext F x h] at hF; cases hF
            have hFf : F ≠ f.toNat := fun h => by simp [ownAdd, h] at h2
            have hFn : own F = none := by simpa [ownAdd, hFf] using h2
            rw [post.foot F j hF, hrd2 F j hFf]
            rintro ⟨rfl, _⟩; rw [hFn] at oT; cases oT
          · intro F hF hF'
            by_cases hFf : F = f.toNat
            · exact ⟨f, by rw [hfree]; exact List.mem_cons_self, hFf.symm⟩
            · have : ownAdd own f.toNat L (idxs va L) (kidx va L) F = none := by
                simp only [ownAdd, if_neg hFf]; exact hF
              obtain ⟨x, hx, hx'⟩ := post.newfree F this hF'
              exact ⟨x, by rw [hfree]; exact List.mem_cons_of_mem _ hx, hx'⟩
          · obtain ⟨used, hused⟩ := post.sub
            exact ⟨f :: used, by rw [hfree]; simp only [List.cons_append]; congr 1⟩
          · exact SameRegs.trans (b := allocStep st f rest (frameN T, kidx va L)) ⟨rfl, rfl, rfl, rfl, rfl, rfl, fun _ => rfl⟩ post.regs
        · rcases out with ⟨h1, h2, h3⟩ | ⟨h1, h2, h3, h4⟩
          · left; refine ⟨h1, h2, fun va' hu' => ?_⟩
            rw [h3 va' hu', has2 va' hu']
          · right; refine ⟨h1, h2, h3, fun va' hu' => ?_⟩
            rw [h4 va' hu', has2 va' hu']
    · -- the level exists
      have l : Link st.mem T (kidx va L) (st.mem.rd (frameN T) (kidx va L) &&& hwMask) := ⟨hb, hp, hnh, rfl⟩
      rw [mapCb_present hL3 (by exact hp) (by exact hnh)]
      exact ih (L + 1) (by omega) st own _ g ⟨T, hc, l⟩

/-- **`Map`, every case.** -/
theorem mapOp_full {st : St} {R : W} {own : Own} (g : Good st R own) (page frame flags : W)
    (hu : UserVA (pageAddr page)) :
    ∃ code st' own', mapOp st page frame flags = .ok (code, st') ∧
      MapPost st st' R own own' (pageAddr page) ∧
      (MapOutcome st st' R (pageAddr page) (mkEntry frame flags) code ∨
        (code = eRWZero ∧ st' = st ∧ st.protect = true ∧ frame = st.zeroFrame ∧ (flags &&& fRW) ≠ 0)) := by
  unfold mapOp
  by_cases hg : (st.protect && frame == st.zeroFrame && (flags &&& fRW) != 0) = true
  · rw [if_pos hg]
    simp only [Bool.and_eq_true, beq_iff_eq, bne_iff_ne] at hg
    exact ⟨eRWZero, st, own, rfl, MapPost.refl g _, Or.inr ⟨rfl, rfl, hg.1.1, hg.1.2, hg.2⟩⟩
  · rw [if_neg hg]
    obtain ⟨code, st', own', h1, h2, h3⟩ := map_walk page frame flags _ rfl hu 3 0 (by omega) st own R g rfl
    exact ⟨code, st', own', h1, h2, Or.inl h3⟩

/-- outcome of `Unmap` in terms of the abstract address space -/
def UnmapOutcome (st st' : St) (R : W) (own : Own) (va : W) (code : Nat) : Prop :=
  (code = 0 ∧ Good st' R own ∧ SameRegs st st' ∧ st'.free = st.free ∧ st'.flushes = st.flushes ++ [va] ∧
    (∀ F j, own F = none → st'.mem.rd F j = st.mem.rd F j) ∧
    (∀ F L pre j, own F = some (L, pre) → st'.mem.rd F j ≠ st.mem.rd F j → L = 3 ∧ pre = idxs va 3 ∧ j = kidx va 3) ∧
    ∀ va', UserVA va' → hwEntry st'.mem R va' = if SamePage va' va then none else hwEntry st.mem R va') ∨
  (code = eInvalidMapping ∧ st' = st ∧ hwEntry st.mem R va = none)

theorem unmap_walk {R : W} (page va : W) (hva : pageAddr page = va) (hu : UserVA va) :
    ∀ (d L : Nat), L + d = 3 → ∀ (st : St) (own : Own) (T : W), Good st R own → Chain st.mem R va L T →
      ∃ code st', walkFrom (unmapCb page) va (lv L) (tableVA va L) 0 st = .ok (code, st') ∧
        UnmapOutcome st st' R own va code := by
  intro d
  induction d with
  | zero =>
    intro L hL st own T g hc
    have : L = 3 := by omega
    subst this
    have oT := chain_own g.owned hu 3 T (by omega) hc
    have hb := g.owned.backed _ _ oT
    refine ⟨0, (st.wrLoc (frameN T, kidx va 3) (clearFlags (st.mem.rd (frameN T) (kidx va 3)) fPresent)).flush va, ?_,
      Or.inl ⟨rfl, g.wr_leaf oT _ _ _, ⟨rfl, rfl, rfl, rfl, rfl, rfl, fun _ => rfl⟩, rfl, rfl, ?_, ?_, ?_⟩⟩
    · rw [show lv 3 = [3] from rfl, walkFrom_step _ _ _ _ _ _ _ (ptePtr_E g.win va 3 T (by omega) hc hb), unmapCb_leaf, hva]
      simp [walkFrom, St.rdLoc]
    · intro F j hF
      simp only [St.flush, St.wrLoc, rd_wr]
      rw [if_neg]; rintro ⟨rfl, _⟩; rw [hF] at oT; cases oT
    · intro F L pre j hF hne
      simp only [St.flush, St.wrLoc, rd_wr] at hne
      by_cases hl : frameN T = F ∧ kidx va 3 = j
      · obtain ⟨rfl, rfl⟩ := hl
        obtain ⟨e1, e2⟩ := own_inj hF oT
        exact ⟨e1, e2, rfl⟩
      · rw [if_neg hl] at hne; exact absurd rfl hne
    · intro va' hu'
      have := hwEntry_leaf_wr g.owned hu hc (clearFlags (st.mem.rd (frameN T) (kidx va 3)) fPresent) va' hu'
      simp only [St.flush, St.wrLoc]
      rw [this]
      have hz : clearFlags (st.mem.rd (frameN T) (kidx va 3)) fPresent &&& 1#64 = 0#64 := by
        have : fPresent = 1#64 := by decide
        rw [clearFlags, this, BitVec.and_assoc]
        have : ~~~1#64 &&& 1#64 = 0#64 := by decide
        rw [this]; simp
      simp [hz]
  | succ d ih =>
    intro L hL st own T g hc
    have hL3 : L < 3 := by omega
    have oT := chain_own g.owned hu L T (by omega) hc
    have hb := g.owned.backed _ _ oT
    have hnh := g.owned.nohuge _ _ _ (kidx va L) oT hL3
    rw [lv_cons L (by omega), walkFrom_step _ _ _ _ _ _ _ (ptePtr_E g.win va L T (by omega) hc hb)]
    by_cases hp : st.mem.rd (frameN T) (kidx va L) &&& 1#64 = 0#64
    · refine ⟨eInvalidMapping, st, ?_, Or.inr ⟨rfl, rfl, ?_⟩⟩
      · rw [unmapCb_absent hL3 (by exact hp)]
      · rw [entWalk_chain L T (by omega) hc, lv_cons L (by omega), entWalk_absent hp]
    · have l : Link st.mem T (kidx va L) (st.mem.rd (frameN T) (kidx va L) &&& hwMask) := ⟨hb, hp, hnh, rfl⟩
      rw [unmapCb_present hL3 (by exact hp) (by exact hnh)]
      exact ih (L + 1) (by omega) st own _ g ⟨T, hc, l⟩

/-- **`Unmap`, every case.** -/
theorem unmapOp_full {st : St} {R : W} {own : Own} (g : Good st R own) (page : W) (hu : UserVA (pageAddr page)) :
    ∃ code st', unmapOp st page = .ok (code, st') ∧ UnmapOutcome st st' R own (pageAddr page) code :=
  unmap_walk page _ rfl hu 3 0 (by omega) st own R g rfl

/-- `Sane` follows from ownership -/
theorem Owned.sane {m : Mem} {R : W} {own : Own} (ho : Owned m R own) {va : W} (hu : UserVA va) : Sane m R va := by
  intro L T hL hc
  have o := chain_own ho hu L T hL hc
  exact ⟨ho.backed _ _ o, fun h => ho.nohuge _ _ _ _ o h⟩

/-- **`Translate`, abstractly**: the entry's frame address plus the page offset, or `ErrInvalidMapping`. -/
theorem translate_abs {st : St} {R : W} {own : Own} (g : Good st R own) (va : W) (hu : UserVA va) :
    translate st va =
      .ok ((match hwEntry st.mem R va with
            | some e => (0, (e &&& hwMask) + (va &&& 0xfff#64))
            | none => (eInvalidMapping, 0)), st) := by
  rw [translate_eq_hw g.win va (g.owned.sane hu), mmuWalk_eq_hwEntry g.owned hu]
  cases hwEntry st.mem R va <;> rfl

end Firefly.Vmm
