import Firefly.Proof.AmlPasses
import Firefly.Proof.AmlTreeAbs
/-!
The shape of `Method` objects that the tree passes in front of `parseDeferredBlocks` keep (`MInv`): exactly three
arguments — a childless name-path object, a childless byte constant holding the flags, and a scope block.  Kept by every
move, `free` and payload update of `connectNamedObjArgs`, `mergeScopeDirectives` and `relocateNamedObjects` (the sites
give the guards: what is moved or freed is never one of the three, and nothing is hung under a `Method` or its first two
arguments).
-/
namespace Firefly.AmlParser
open Firefly.AmlLex Firefly.AmlTree Firefly.C13
open Firefly.Gen.C12

/-- the table row of `Method` -/
def methodInfoIdx : Nat := pOpcodeTableIndex opMethod true

/-- `m` has exactly the arguments `k1` (name), `k2` (flags), `k3` (body) -/
structure MK3 (t : ObjectTree) (m k1 k2 k3 : Nat) : Prop where
  fi : Fi t m = k1
  n1 : Nx t k1 = k2
  n2 : Nx t k2 = k3
  l1 : live t k1 = true
  l2 : live t k2 = true
  l3 : live t k3 = true
  val : ∃ v, (slot t k2).value = .u64 v
  f1 : Fi t k1 = INV
  f2 : Fi t k2 = INV
  o1 : (slot t k1).opcode = opIntNamePath
  o2 : (slot t k2).opcode = opBytePrefix
  o3 : (slot t k3).opcode = opIntScopeBlock
  i1 : (slot t k1).infoIndex = pOpcodeTableIndex opIntNamePath true
  i2 : (slot t k2).infoIndex = pOpcodeTableIndex opBytePrefix true
  i3 : (slot t k3).infoIndex = pOpcodeTableIndex opIntScopeBlock true
  im : (slot t m).infoIndex = methodInfoIdx
  n3 : Nx t k3 = INV
  att : C13.P t m ≠ INV

/-- what the tree passes in front of `parseDeferredBlocks` keep besides `MergeInv`: every live `Method` is complete, every
unresolved name-or-call object holds the `[]byte` of its path (`CallShape`), and the root carries the table row of a scope
block -/
structure MInv (s : PState) : Prop where
  mths : ∀ m, live s.tree m = true → (slot s.tree m).opcode = opMethod → ∃ k1 k2 k3, MK3 s.tree m k1 k2 k3
  cs : CallShape s
  rootI : (slot s.tree 0).infoIndex = pOpcodeTableIndex opIntScopeBlock true

theorem MK3.transfer {t t' : ObjectTree} {m k1 k2 k3 : Nat} (h : MK3 t m k1 k2 k3)
    (hl : ∀ x, live t x = true → x = k1 ∨ x = k2 ∨ x = k3 → live t' x = true)
    (hfi : Fi t' m = Fi t m) (hn1 : Nx t' k1 = Nx t k1) (hn2 : Nx t' k2 = Nx t k2) (hn3 : Nx t' k3 = Nx t k3)
    (hf1 : Fi t' k1 = Fi t k1) (hf2 : Fi t' k2 = Fi t k2)
    (hp : ∀ x, x = m ∨ x = k1 ∨ x = k2 ∨ x = k3 → Pay (slot t' x) = Pay (slot t x))
    (hpm : C13.P t' m ≠ INV) : MK3 t' m k1 k2 k3 := by
  have p0 := hp m (Or.inl rfl)
  have p1 := hp k1 (Or.inr (Or.inl rfl))
  have p2 := hp k2 (Or.inr (Or.inr (Or.inl rfl)))
  have p3 := hp k3 (Or.inr (Or.inr (Or.inr rfl)))
  have pay_opcode : ∀ {o o' : Obj}, Pay o' = Pay o → o'.opcode = o.opcode := fun e => congrArg (fun p => p.1) e
  have pay_info : ∀ {o o' : Obj}, Pay o' = Pay o → o'.infoIndex = o.infoIndex := fun e => congrArg (fun p => p.2.1) e
  have pay_value : ∀ {o o' : Obj}, Pay o' = Pay o → o'.value = o.value := fun e => congrArg (fun p => p.2.2.2.2.2.2.2) e
  obtain ⟨v, hv⟩ := h.val
  exact ⟨by rw [hfi]; exact h.fi, by rw [hn1]; exact h.n1, by rw [hn2]; exact h.n2,
    hl _ h.l1 (Or.inl rfl), hl _ h.l2 (Or.inr (Or.inl rfl)), hl _ h.l3 (Or.inr (Or.inr rfl)),
    ⟨v, by rw [pay_value p2]; exact hv⟩, by rw [hf1]; exact h.f1, by rw [hf2]; exact h.f2,
    by rw [pay_opcode p1]; exact h.o1, by rw [pay_opcode p2]; exact h.o2, by rw [pay_opcode p3]; exact h.o3,
    by rw [pay_info p1]; exact h.i1, by rw [pay_info p2]; exact h.i2, by rw [pay_info p3]; exact h.i3,
    by rw [pay_info p0]; exact h.im, by rw [hn3]; exact h.n3, hpm⟩

/-- the parents of the three arguments -/
theorem MK3.parents {t : ObjectTree} (w : WF t) {m k1 k2 k3 : Nat} (hm : live t m = true) (h : MK3 t m k1 k2 k3) :
    C13.P t k1 = m ∧ C13.P t k2 = m ∧ C13.P t k3 = m ∧ Pv t k1 = INV ∧ Pv t k2 = k1 ∧ Pv t k3 = k2 := by
  have hinv : ∀ j, live t j = true → j ≠ INV := fun j hj => live_ne_INV w.size_le hj
  have a := (w.lP hm).fi (by rw [h.fi]; exact hinv _ h.l1)
  rw [h.fi] at a
  have b := (w.lP h.l1).nx (by rw [h.n1]; exact hinv _ h.l2)
  rw [h.n1, a.1] at b
  have c := (w.lP h.l2).nx (by rw [h.n2]; exact hinv _ h.l3)
  rw [h.n2, b.2] at c
  exact ⟨a.1, b.2, c.2, a.2, b.1, c.1⟩

/-- the three arguments are all the children -/
theorem MK3.kids {t : ObjectTree} (w : WF t) {m k1 k2 k3 : Nat} (hm : live t m = true) (h : MK3 t m k1 k2 k3) :
    ∀ x, live t x = true → C13.P t x = m → x = k1 ∨ x = k2 ∨ x = k3 := by
  intro x hx hp
  have hch : Chain t (Nx t) (Fi t m) [k1, k2, k3] :=
    ⟨h.fi, h.l1, by rw [h.n1]; exact ⟨rfl, h.l2, by rw [h.n2]; exact ⟨rfl, h.l3, h.n3⟩⟩⟩
  have hk := w.kids_of_chain hm hch
  have := (w.kids_mem m hm x).2 ⟨hx, hp⟩
  rw [hk] at this
  simpa using this

/-- an object with a child has a first argument -/
theorem fi_ne_of_child' {t : ObjectTree} (w : WF t) {q y : Nat} (hq : live t q = true) (hy : live t y = true)
    (hp : C13.P t y = q) : Fi t q ≠ INV := by
  intro e
  have := (kids_nil_iff w hq).2 e
  have hm := (w.kids_mem q hq y).2 ⟨hy, hp⟩
  rw [this] at hm; cases hm

/-- a child that has arguments and is not a scope block, or that is a `Scope`, does not hang under a `Method` -/
theorem MInv.parent_not_method {s : PState} (hJ : MInv s) (w : WF s.tree) {x : Nat} (hx : live s.tree x = true)
    (hpl : live s.tree (C13.P s.tree x) = true)
    (hg : (Fi s.tree x ≠ INV ∧ (slot s.tree x).opcode ≠ opIntScopeBlock) ∨ (slot s.tree x).opcode = opScope) :
    (slot s.tree (C13.P s.tree x)).opcode ≠ opMethod := by
  intro ho
  obtain ⟨k1, k2, k3, mk⟩ := hJ.mths _ hpl ho
  rcases mk.kids w hpl x hx rfl with e | e | e
  · rcases hg with ⟨h1, _⟩ | h1
    · exact h1 (by rw [e]; exact mk.f1)
    · rw [e, mk.o1] at h1; revert h1; decide
  · rcases hg with ⟨h1, _⟩ | h1
    · exact h1 (by rw [e]; exact mk.f2)
    · rw [e, mk.o2] at h1; revert h1; decide
  · rcases hg with ⟨_, h1⟩ | h1
    · exact h1 (by rw [e]; exact mk.o3)
    · rw [e, mk.o3] at h1; revert h1; decide

theorem MInv.ofTree {s s' : PState} (h : MInv s) (ht : s'.tree = s.tree) : MInv s' := by
  refine ⟨by rw [ht]; exact h.mths, ?_, by rw [ht]; exact h.rootI⟩
  unfold CallShape; rw [ht]; exact h.cs

/-- a move of `m` from its parent to the end of `T`: neither is a `Method`, and `T` has arguments or is a scope block -/
theorem MInv.move {s s2 : PState} (hJ : MInv s) (w : WF s.tree) (hl : ∀ x, live s2.tree x = live s.tree x)
    (sp : SamePay s.tree s2.tree) {T m : Nat} (hm : live s.tree m = true)
    (hpl : live s.tree (C13.P s.tree m) = true) (hT : live s.tree T = true)
    (hP : ∀ x, C13.P s2.tree x = if x = m then T else C13.P s.tree x)
    (hF : ∀ x, x ≠ C13.P s.tree m → x ≠ T → Fi s2.tree x = Fi s.tree x)
    (hN : ∀ x, x ≠ m → C13.P s.tree x ≠ C13.P s.tree m → C13.P s.tree x ≠ T → Nx s2.tree x = Nx s.tree x)
    (gp : (slot s.tree (C13.P s.tree m)).opcode ≠ opMethod)
    (gT : (slot s.tree T).opcode ≠ opMethod)
    (gT2 : Fi s.tree T ≠ INV ∨ (slot s.tree T).opcode = opIntScopeBlock) : MInv s2 := by
  refine ⟨?_, hJ.cs.ofPay hl sp, by
    have : (slot s2.tree 0).infoIndex = (slot s.tree 0).infoIndex := congrArg (fun p => p.2.1) (sp.pay 0)
    rw [this]; exact hJ.rootI⟩
  intro M hM hMo
  have hM0 : live s.tree M = true := by rw [← hl]; exact hM
  have hMo0 : (slot s.tree M).opcode = opMethod := by
    rw [← hMo]; exact (congrArg (fun p => p.1) (sp.pay M)).symm
  obtain ⟨k1, k2, k3, mk⟩ := hJ.mths M hM0 hMo0
  obtain ⟨p1, p2, p3, _, _, _⟩ := mk.parents w hM0
  have hMp : M ≠ C13.P s.tree m := fun e => gp (by rw [← e]; exact hMo0)
  have hMT : M ≠ T := fun e => gT (by rw [← e]; exact hMo0)
  have hfp : Fi s.tree (C13.P s.tree m) ≠ INV := fi_ne_of_child' w hpl hm rfl
  have hne : ∀ k, C13.P s.tree k = M → k ≠ m := fun k hk e => hMp (by rw [← hk, e])
  have hkT1 : k1 ≠ T := by
    intro e
    rcases gT2 with h1 | h1
    · exact h1 (by rw [← e]; exact mk.f1)
    · rw [← e, mk.o1] at h1; revert h1; decide
  have hkT2 : k2 ≠ T := by
    intro e
    rcases gT2 with h1 | h1
    · exact h1 (by rw [← e]; exact mk.f2)
    · rw [← e, mk.o2] at h1; revert h1; decide
  have hkp1 : k1 ≠ C13.P s.tree m := fun e => hfp (by rw [← e]; exact mk.f1)
  have hkp2 : k2 ≠ C13.P s.tree m := fun e => hfp (by rw [← e]; exact mk.f2)
  refine ⟨k1, k2, k3, mk.transfer (fun x hx _ => by rw [hl]; exact hx) (hF M hMp hMT)
    (hN k1 (hne k1 p1) (by rw [p1]; exact hMp) (by rw [p1]; exact hMT))
    (hN k2 (hne k2 p2) (by rw [p2]; exact hMp) (by rw [p2]; exact hMT))
    (hN k3 (hne k3 p3) (by rw [p3]; exact hMp) (by rw [p3]; exact hMT))
    (hF k1 hkp1 hkT1) (hF k2 hkp2 hkT2) (fun x _ => sp.pay x) ?_⟩
  rw [hP]
  split
  · exact live_ne_INV w.size_le hT
  · exact mk.att

/-- `free(y)`: `y` does not hang under a `Method` -/
theorem MInv.free {s s1 : PState} (hJ : MInv s) (w : WF s.tree) {y : Nat} (hy : live s.tree y = true)
    (hlive : ∀ x, live s1.tree x = (live s.tree x && decide (x ≠ y)))
    (hpay : ∀ x, x ≠ y → Pay (slot s1.tree x) = Pay (slot s.tree x))
    (hP : ∀ x, x ≠ y → C13.P s1.tree x = C13.P s.tree x)
    (hNx : ∀ x, x ≠ y → Nx s1.tree x = if x = Pv s.tree y ∧ Pv s.tree y ≠ INV then Nx s.tree y else Nx s.tree x)
    (hFL : ∀ x, x ≠ y → live s.tree x = true →
      Fi s1.tree x = (if x = C13.P s.tree y ∧ Fi s.tree x = y then Nx s.tree y else Fi s.tree x) ∧
      La s1.tree x = (if x = C13.P s.tree y ∧ La s.tree x = y then Pv s.tree y else La s.tree x))
    (gp : C13.P s.tree y = INV ∨ (slot s.tree (C13.P s.tree y)).opcode ≠ opMethod) (hy0 : y ≠ 0) : MInv s1 := by
  have hinv : ∀ j, live s.tree j = true → j ≠ INV := fun j hj => live_ne_INV w.size_le hj
  have hlv : ∀ x, live s1.tree x = true → live s.tree x = true ∧ x ≠ y := by
    intro x hx
    have := hlive x; rw [hx] at this
    simp only [Bool.true_eq, Bool.and_eq_true, decide_eq_true_eq] at this; exact this
  refine ⟨?_, ?_, by
    have : (slot s1.tree 0).infoIndex = (slot s.tree 0).infoIndex := congrArg (fun p => p.2.1) (hpay 0 (Ne.symm hy0))
    rw [this]; exact hJ.rootI⟩
  rotate_left
  · intro x hx hop
    obtain ⟨hx0, hxy⟩ := hlv x hx
    have hp := hpay x hxy
    have ho : (slot s1.tree x).opcode = (slot s.tree x).opcode := congrArg (fun p => p.1) hp
    have hv : (slot s1.tree x).value = (slot s.tree x).value := congrArg (fun p => p.2.2.2.2.2.2.2) hp
    rw [hv]
    exact hJ.cs x hx0 (by rw [← ho]; exact hop)
  intro M hM hMo
  obtain ⟨hM0, hMy⟩ := hlv M hM
  have hMo0 : (slot s.tree M).opcode = opMethod := by
    rw [← hMo]; exact (congrArg (fun p => p.1) (hpay M hMy)).symm
  obtain ⟨k1, k2, k3, mk⟩ := hJ.mths M hM0 hMo0
  obtain ⟨p1, p2, p3, _, _, _⟩ := mk.parents w hM0
  have hMp : M ≠ C13.P s.tree y := by
    intro e
    rcases gp with h1 | h1
    · exact hinv M hM0 (by rw [e]; exact h1)
    · exact h1 (by rw [← e]; exact hMo0)
  have hky : ∀ k, C13.P s.tree k = M → k ≠ y := fun k hk e => hMp (by rw [← hk, e])
  have hkpv : ∀ k, C13.P s.tree k = M → ¬ (k = Pv s.tree y ∧ Pv s.tree y ≠ INV) := by
    intro k hk hc
    have := ((w.lP hy).pv hc.2).2
    rw [← hc.1, hk] at this
    exact hMp this
  have hfk : ∀ k, live s.tree k = true → Fi s.tree k = INV → k ≠ y → Fi s1.tree k = Fi s.tree k := by
    intro k hkl hkf hne
    rw [(hFL k hne hkl).1, if_neg (fun hc => hinv y hy (by rw [← hc.2]; exact hkf))]
  refine ⟨k1, k2, k3, mk.transfer ?_ ?_ ?_ ?_ ?_ (hfk k1 mk.l1 mk.f1 (hky k1 p1)) (hfk k2 mk.l2 mk.f2 (hky k2 p2)) ?_ ?_⟩
  · intro x hx hc
    rw [hlive, hx]
    have : x ≠ y := by
      rcases hc with e | e | e
      · rw [e]; exact hky k1 p1
      · rw [e]; exact hky k2 p2
      · rw [e]; exact hky k3 p3
    simp [this]
  · rw [(hFL M hMy hM0).1, if_neg (fun hc => hMp hc.1)]
  · rw [hNx k1 (hky k1 p1), if_neg (hkpv k1 p1)]
  · rw [hNx k2 (hky k2 p2), if_neg (hkpv k2 p2)]
  · rw [hNx k3 (hky k3 p3), if_neg (hkpv k3 p3)]
  · intro x hc
    have : x ≠ y := by
      rcases hc with e | e | e | e
      · rw [e]; exact hMy
      · rw [e]; exact hky k1 p1
      · rw [e]; exact hky k2 p2
      · rw [e]; exact hky k3 p3
    exact hpay x this
  · rw [hP M hMy]; exact mk.att

/-- a payload update of `i` that keeps the opcode and the table row, and the value unless `i` is a first argument -/
theorem MInv.upd {s s1 : PState} (hJ : MInv s) (w : WF s.tree) (sl : SameLinks s.tree s1.tree) {i : Nat}
    (hoth : ∀ x, x ≠ i → slot s1.tree x = slot s.tree x)
    (hop : (slot s1.tree i).opcode = (slot s.tree i).opcode) (hinfo : (slot s1.tree i).infoIndex = (slot s.tree i).infoIndex)
    (hv : (slot s1.tree i).value = (slot s.tree i).value ∨ Pv s.tree i = INV)
    (hvb : (slot s1.tree i).value = (slot s.tree i).value ∨ ∃ off len, (slot s1.tree i).value = .bytes off len) : MInv s1 := by
  have hinv : ∀ j, live s.tree j = true → j ≠ INV := fun j hj => live_ne_INV w.size_le hj
  have hopA : ∀ y, (slot s1.tree y).opcode = (slot s.tree y).opcode := by
    intro y; by_cases hy : y = i
    · rw [hy]; exact hop
    · rw [hoth y hy]
  have hinfA : ∀ y, (slot s1.tree y).infoIndex = (slot s.tree y).infoIndex := by
    intro y; by_cases hy : y = i
    · rw [hy]; exact hinfo
    · rw [hoth y hy]
  refine ⟨?_, ?_, by rw [hinfA]; exact hJ.rootI⟩
  rotate_left
  · intro x hx hop
    have hx0 : live s.tree x = true := by rw [← sl.live]; exact hx
    have hc := hJ.cs x hx0 (by rw [← hopA]; exact hop)
    by_cases hxi : x = i
    · rcases hvb with h1 | h1
      · rw [hxi, h1, ← hxi]; exact hc
      · rw [hxi]; exact h1
    · rw [hoth x hxi]; exact hc
  intro M hM hMo
  have hM0 : live s.tree M = true := by rw [← sl.live]; exact hM
  obtain ⟨k1, k2, k3, mk⟩ := hJ.mths M hM0 (by rw [← hopA]; exact hMo)
  obtain ⟨_, _, _, _, pv2, _⟩ := mk.parents w hM0
  obtain ⟨v, hval⟩ := mk.val
  refine ⟨k1, k2, k3, ?_⟩
  exact ⟨by rw [sl.fi]; exact mk.fi, by rw [sl.nx]; exact mk.n1, by rw [sl.nx]; exact mk.n2,
    by rw [sl.live]; exact mk.l1, by rw [sl.live]; exact mk.l2, by rw [sl.live]; exact mk.l3,
    ⟨v, by
      by_cases hy : k2 = i
      · rcases hv with h1 | h1
        · rw [hy, h1, ← hy]; exact hval
        · rw [← hy, pv2] at h1; exact absurd h1 (hinv _ mk.l1)
      · rw [hoth k2 hy]; exact hval⟩,
    by rw [sl.fi]; exact mk.f1, by rw [sl.fi]; exact mk.f2,
    by rw [hopA]; exact mk.o1, by rw [hopA]; exact mk.o2, by rw [hopA]; exact mk.o3,
    by rw [hinfA]; exact mk.i1, by rw [hinfA]; exact mk.i2, by rw [hinfA]; exact mk.i3, by rw [hinfA]; exact mk.im,
    by rw [sl.nx]; exact mk.n3, by rw [sl.p]; exact mk.att⟩

/-- the sibling formula of a move, for the objects that hang elsewhere -/
theorem nx_weak {s s2 : PState} (w : WF s.tree) {T m : Nat} (hT : live s.tree T = true) (hm : live s.tree m = true)
    (hNx : ∀ x, Nx s2.tree x = if x = m then INV else if x = La s.tree T ∧ La s.tree T ≠ INV then m
      else if x = Pv s.tree m ∧ Pv s.tree m ≠ INV then Nx s.tree m else Nx s.tree x) :
    ∀ x, x ≠ m → C13.P s.tree x ≠ C13.P s.tree m → C13.P s.tree x ≠ T → Nx s2.tree x = Nx s.tree x := by
  intro x h1 h2 h3
  rw [hNx, if_neg h1, if_neg, if_neg]
  · intro hc
    have := ((w.lP hm).pv hc.2).2
    rw [← hc.1] at this
    exact h2 this
  · intro hc
    have := ((w.lP hT).la hc.2).1
    rw [← hc.1] at this
    exact h3 this

/-- `MInv.move` with the parent named -/
theorem MInv.move' {s s2 : PState} (hJ : MInv s) (w : WF s.tree) (hl : ∀ x, live s2.tree x = live s.tree x)
    (sp : SamePay s.tree s2.tree) {p T m : Nat} (hm : live s.tree m = true) (hpm : C13.P s.tree m = p)
    (hpl : live s.tree p = true) (hT : live s.tree T = true)
    (hP : ∀ x, C13.P s2.tree x = if x = m then T else C13.P s.tree x)
    (hF : ∀ x, x ≠ p → x ≠ T → Fi s2.tree x = Fi s.tree x)
    (hN : ∀ x, x ≠ m → C13.P s.tree x ≠ p → C13.P s.tree x ≠ T → Nx s2.tree x = Nx s.tree x)
    (gp : (slot s.tree p).opcode ≠ opMethod)
    (gT : (slot s.tree T).opcode ≠ opMethod)
    (gT2 : Fi s.tree T ≠ INV ∨ (slot s.tree T).opcode = opIntScopeBlock) : MInv s2 := by
  subst hpm
  exact hJ.move w hl sp hm hpl hT hP hF hN gp gT gT2

theorem sb_ne_method : opIntScopeBlock ≠ opMethod := by decide
theorem scope_ne_method : opScope ≠ opMethod := by decide

/-- a row without `TermArg` / `DataRefObj` arguments: `firstTermArg` runs to the end -/
theorem firstTermArg_noTerm {info : Nat} (hinfo : InfoOK info) (argCount : Nat)
    (hno : ∀ j, j < argCount → argAt info j ≠ argTypeTermArg ∧ argAt info j ≠ argTypeDataRefObj) :
    ∀ (n i : Nat) (s : PState), i + n = argCount → firstTermArg info n i argCount s = .ok (argCount, s) := by
  intro n
  induction n with
  | zero => intro i s h; unfold firstTermArg; rw [← h]; rfl
  | succ n ih =>
    intro i s h
    unfold firstTermArg
    rw [if_pos (by omega), opArg_of_info hinfo i]
    have e0 : optP (some (argAt info i)) s = .ok (argAt info i, s) := rfl
    show (optP (some (argAt info i)) >>= fun a => _) s = _
    simp only [bind, StateT.bind, e0, Except.bind]
    rw [if_neg (fun hc => by
      rcases hc with hc | hc
      · exact (hno i (by omega)).1 hc
      · exact (hno i (by omega)).2 hc)]
    exact ih (i + 1) s (by omega)

/-- `firstTermArg` over a whole row: the state is kept, and a row without term arguments yields its length -/
theorem firstTermArg_np2 {info : Nat} (hinfo : InfoOK info) (argCount : Nat) (s : PState) :
    NPs (firstTermArg info argCount 0 argCount) s (fun v s' => s' = s ∧
      ((∀ j, j < argCount → argAt info j ≠ argTypeTermArg ∧ argAt info j ≠ argTypeDataRefObj) → v = argCount)) := by
  by_cases hno : ∀ j, j < argCount → argAt info j ≠ argTypeTermArg ∧ argAt info j ≠ argTypeDataRefObj
  · exact NPs.of_eq (firstTermArg_noTerm hinfo argCount hno argCount 0 s (by omega)) ⟨rfl, fun _ => rfl⟩
  · exact (firstTermArg_np info hinfo argCount argCount 0 s).mono (fun v s' h => ⟨h, fun hn => absurd hn hno⟩)

set_option maxRecDepth 20000 in
/-- the row of `Method`: four arguments, none of them a term argument -/
theorem method_noTerm : InfoOK methodInfoIdx ∧
    ∀ j, j < argCnt methodInfoIdx → argAt methodInfoIdx j ≠ argTypeTermArg ∧ argAt methodInfoIdx j ≠ argTypeDataRefObj := by
  unfold InfoOK
  decide +kernel

end Firefly.AmlParser
