import Firefly.Proof.VmmFault
/-! The copy-on-write success path of `pageFaultHandler`. -/
namespace Firefly.Vmm
open Firefly.Gen.C04

theorem faultCb_upper {L : Nat} {ea : W} {loc : Loc} {acc : Option Loc} {st : St} (hL : L < 3)
    (hp : st.rdLoc loc &&& 1#64 ≠ 0#64) : faultCb L ea loc acc st = .ok ((true, acc), st) := by
  have h1 : ¬ L = pageLevels - 1 := by simp [pageLevels]; omega
  simp [faultCb, (hasFlags_present _).2 hp, h1]

theorem faultCb_leaf {ea : W} {loc : Loc} {acc : Option Loc} {st : St}
    (hp : st.rdLoc loc &&& 1#64 ≠ 0#64) : faultCb 3 ea loc acc st = .ok ((true, some loc), st) := by
  simp [faultCb, (hasFlags_present _).2 hp, pageLevels]

theorem tempVA_page : pageAddr (pageOf tempVA) = tempVA := by decide

/-- the fault handler's walk finds the leaf entry of a page whose path exists -/
theorem walk_faultCb_leaf {st : St} {R va T1 T2 T3 : W} (hw : Window st R) (p : Path st.mem R va T1 T2 T3)
    (hp : st.mem.rd (frameN T3) (kidx va 3) &&& 1#64 ≠ 0#64) :
    walk faultCb va none st = .ok (some (frameN T3, kidx va 3), st) := by
  rw [walk_to_leaf hw p faultCb none (fun L ea loc hL hp _ => faultCb_upper hL hp), faultCb_leaf (by exact hp)]

/-- the entry the handler installs: CoW cleared, Present|RW set, frame = the copy -/
def cowEntry (e copy : W) : W := setFrame (setFlags (clearFlags e fCoW) (fPresent ||| fRW)) copy

/-- state after a recovered copy-on-write fault -/
def cowState (st : St) (rest : List W) (copy : W) (tloc floc : Loc) (old : Nat) (va : W) : St :=
  { st with
    free := rest, allocs := st.allocs + 1,
    mem := (((((st.mem.wr tloc.1 tloc.2 (mkEntry copy (fPresent ||| fRW))).setFrame copy.toNat (fun i => st.mem.rd old i)).wr
      tloc.1 tloc.2 (clearFlags (mkEntry copy (fPresent ||| fRW)) fPresent))).wr floc.1 floc.2
        (cowEntry (st.mem.rd floc.1 floc.2) copy)),
    flushes := st.flushes ++ [tempVA, tempVA, va] }

theorem pageAddr_low (p : W) : pageAddr p &&& 0xfff#64 = 0#64 := shl12_and_low _ (by decide)

set_option maxHeartbeats 1000000 in
/-- **A recovered copy-on-write fault**, executed symbolically.  Hypotheses: the active root is
recursive; the faulting page's path exists and its leaf entry is present, read-only, CoW and points to
RAM; the temporary-mapping page's tables exist; the allocator hands out `copy` (RAM, < 2^40, not the
zero frame, not one of the tables involved, not the page's current frame). -/
theorem pageFault_cow {st : St} {R T1 T2 T3 U1 U2 U3 : W} (addr : W)
    (hA : st.cr3 &&& hwMask = R) (hw : Window st R)
    (pf : Path st.mem R (pageAddr (pageOf addr)) T1 T2 T3)
    (pt : Path st.mem R tempVA U1 U2 U3)
    (hpres : st.mem.rd (frameN T3) (kidx (pageAddr (pageOf addr)) 3) &&& 1#64 ≠ 0#64)
    (hrw : hasFlags (st.mem.rd (frameN T3) (kidx (pageAddr (pageOf addr)) 3)) fRW = false)
    (hcow : hasFlags (st.mem.rd (frameN T3) (kidx (pageAddr (pageOf addr)) 3)) fCoW = true)
    (hold : st.mem.backed (frameN (st.mem.rd (frameN T3) (kidx (pageAddr (pageOf addr)) 3) &&& hwMask)) = true)
    {copy : W} {rest : List W} (hf : st.free = copy :: rest) (hco : FrameOK copy)
    (hcb : st.mem.backed copy.toNat = true) (htf : st.tmpFail = false)
    (hz : (st.protect && copy == st.zeroFrame) = false)
    (hc : copy.toNat ≠ frameN R ∧ copy.toNat ≠ frameN T1 ∧ copy.toNat ≠ frameN T2 ∧ copy.toNat ≠ frameN T3 ∧
      copy.toNat ≠ frameN U1 ∧ copy.toNat ≠ frameN U2 ∧ copy.toNat ≠ frameN U3)
    (hu : frameN U3 ≠ frameN R ∧ frameN U3 ≠ frameN U1 ∧ frameN U3 ≠ frameN U2 ∧ frameN U3 ≠ frameN T1 ∧
      frameN U3 ≠ frameN T2 ∧ ¬(frameN U3 = frameN T3 ∧ kidx tempVA 3 = kidx (pageAddr (pageOf addr)) 3) ∧
      frameN U3 ≠ frameN (st.mem.rd (frameN T3) (kidx (pageAddr (pageOf addr)) 3) &&& hwMask)) :
    pageFault st addr = .ok ((), cowState st rest copy (frameN U3, kidx tempVA 3)
      (frameN T3, kidx (pageAddr (pageOf addr)) 3)
      (frameN (st.mem.rd (frameN T3) (kidx (pageAddr (pageOf addr)) 3) &&& hwMask)) (pageAddr (pageOf addr))) := by
  -- abbreviations
  generalize hva : pageAddr (pageOf addr) = va at *
  generalize he : st.mem.rd (frameN T3) (kidx va 3) = e at *
  have hfl3 : FlagsOK (fPresent ||| fRW) := by unfold FlagsOK; decide
  have hcN : frameN (copy <<< 12) = copy.toNat := frameN_shl12 hco
  -- S0: the walk
  have hwalk : walk faultCb va none st = .ok (some (frameN T3, kidx va 3), st) :=
    walk_faultCb_leaf hw pf (by rw [he]; exact hpres)
  -- S1/S2: allocate, map the temporary page
  let st1 : St := { st with free := rest, allocs := st.allocs + 1 }
  have halloc : allocFrame st = some (copy, st1) := by simp [allocFrame, hf, st1]
  have hw1 : Window st1 R := ⟨hw.top, hw.self⟩
  have pt1 : Path st1.mem R (pageAddr (pageOf tempVA)) U1 U2 U3 := by rw [tempVA_page]; exact pt
  have hz1 : (st1.protect && copy == st1.zeroFrame) = false := hz
  have hg1 : (st1.protect && copy == st1.zeroFrame && ((fPresent ||| fRW) &&& fRW) != 0) = false := by
    rw [hz1]; rfl
  let st2 : St := (st1.wrLoc (frameN U3, kidx tempVA 3) (mkEntry copy (fPresent ||| fRW))).flush tempVA
  have hmt : mapTemporaryFn st1 copy = .ok ((0, pageOf tempVA), st2) := by
    have hm := mapOp_present (pageOf tempVA) copy (fPresent ||| fRW) hw1 pt1 hg1
    rw [tempVA_page] at hm
    have : st1.tmpFail = false := htf
    simp only [mapTemporaryFn, this, Bool.false_eq_true, if_false, mapTemporary, hz1, hm]
    rfl
  -- S3: what the faulting page shows
  have l0 := pf.l0.wr (frameN U3) (kidx tempVA 3) (mkEntry copy (fPresent ||| fRW)) (fun h => hu.1 h.1)
  have l1 := pf.l1.wr (frameN U3) (kidx tempVA 3) (mkEntry copy (fPresent ||| fRW)) (fun h => hu.2.2.2.1 h.1)
  have l2 := pf.l2.wr (frameN U3) (kidx tempVA 3) (mkEntry copy (fPresent ||| fRW)) (fun h => hu.2.2.2.2.1 h.1)
  have hleaf2 : st2.mem.rd (frameN T3) (kidx va 3) = e := by
    simp only [st2, st1, St.flush, St.wrLoc, rd_wr, if_neg hu.2.2.2.2.2.1, he]
  obtain ⟨h39, h30, h21, h12⟩ := hwIdx_va va
  have hmmuF : mmu st2.mem st2.cr3 va = some (e &&& hwMask) := by
    unfold mmu
    rw [show st2.cr3 &&& hwMask = R from hA,
      mmuWalk_link (by rw [h39]; exact l0), mmuWalk_link (by rw [h30]; exact l1), mmuWalk_link (by rw [h21]; exact l2),
      mmuWalk_final (by simpa [st2, st1, St.flush, St.wrLoc] using pf.b3) (by rw [h12, hleaf2]; exact hpres), h12, hleaf2,
      ← hva, pageAddr_low]
    simp
  have hsrc : pageContents st2 va = fun i => st.mem.rd (frameN (e &&& hwMask)) i := by
    unfold pageContents
    rw [hmmuF]
    have : st2.mem.backed ((e &&& hwMask) >>> 12).toNat = true := by simpa [st2, st1, St.flush, St.wrLoc, frameN] using hold
    simp only [this, if_true]
    funext i
    simp only [st2, st1, St.flush, St.wrLoc, rd_wr]
    exact if_neg (fun h => hu.2.2.2.2.2.2 h.1)
  -- S4: the temporary page shows the copy
  have hmmuT : mmu st2.mem st2.cr3 (pageAddr (pageOf tempVA)) = some (copy <<< 12) := by
    rw [tempVA_page]
    unfold mmu
    rw [show st2.cr3 &&& hwMask = R from hA]
    have := mmuWalk_leaf_written pt (mkEntry copy (fPresent ||| fRW)) ⟨hu.1, hu.2.1, hu.2.2.1⟩
    simp only [st2, st1, St.flush, St.wrLoc]
    rw [this, mkEntry_low 1#64 (by decide), mkEntry_frame hco hfl3]
    have h1 : (fPresent ||| fRW) &&& 1#64 ≠ 0#64 := by decide
    have h2 : tempVA &&& 0xfff#64 = 0#64 := by decide
    simp [h1, h2]
  let st3 : St := { st2 with mem := st2.mem.setFrame copy.toNat (fun i => st.mem.rd (frameN (e &&& hwMask)) i) }
  -- S5: unmap the temporary page
  have hw3 : Window st3 R := by
    have t := (hw.top.wr (frameN U3) (kidx tempVA 3) (mkEntry copy (fPresent ||| fRW))
      (fun h => hu.1 (by rw [hA] at h; exact h.1))).setFrame copy.toNat (fun i => st.mem.rd (frameN (e &&& hwMask)) i)
      (by rw [hA]; exact hc.1)
    have s := (hw.self.wr (frameN U3) (kidx tempVA 3) (mkEntry copy (fPresent ||| fRW)) (fun h => hu.1 h.1)).setFrame
      copy.toNat (fun i => st.mem.rd (frameN (e &&& hwMask)) i) hc.1
    exact ⟨t, s⟩
  have pt3 : Path st3.mem R (pageAddr (pageOf tempVA)) U1 U2 U3 := by
    rw [tempVA_page]
    exact ⟨(pt.l0.wr _ _ _ (fun h => hu.1 h.1)).setFrame _ _ hc.1,
      (pt.l1.wr _ _ _ (fun h => hu.2.1 h.1)).setFrame _ _ hc.2.2.2.2.1,
      (pt.l2.wr _ _ _ (fun h => hu.2.2.1 h.1)).setFrame _ _ hc.2.2.2.2.2.1,
      by simpa [st3, st2, st1, St.flush, St.wrLoc] using pt.b3⟩
  have hun := unmapOp_present (pageOf tempVA) hw3 pt3
  rw [tempVA_page] at hun
  have hrd3 : st3.mem.rd (frameN U3) (kidx tempVA 3) = mkEntry copy (fPresent ||| fRW) := by
    simp only [st3, st2, st1, St.flush, St.wrLoc, rd_setFrame, if_neg hc.2.2.2.2.2.2, rd_wr, and_self, if_true]
  rw [hrd3] at hun
  -- assemble
  unfold pageFault
  simp only [hva, hwalk, St.rdLoc, he, hrw, hcow, Bool.not_false, Bool.and_self, if_true, halloc, hmt]
  rw [if_neg (by simp)]
  simp only [hsrc, hmmuT]
  have hbk : st2.mem.backed ((copy <<< 12) >>> 12).toNat = true := by
    have : ((copy <<< 12) >>> 12).toNat = copy.toNat := hcN
    rw [this]; simpa [st2, st1, St.flush, St.wrLoc] using hcb
  have hal : (copy <<< 12) &&& 0xfff#64 = 0#64 := shl12_and_low _ (by decide)
  simp only [hbk, hal, beq_self_eq_true, Bool.and_self, Bool.not_true, Bool.false_eq_true, if_false]
  have hcN' : ((copy <<< 12) >>> 12).toNat = copy.toNat := hcN
  rw [hcN']
  rw [show ({ st2 with mem := st2.mem.setFrame copy.toNat (fun i => st.mem.rd (frameN (e &&& hwMask)) i) } : St) = st3 from rfl, hun]
  simp only
  -- the leaf entry read back after all that is still `e`
  have hne1 : ¬(frameN U3 = frameN T3 ∧ kidx tempVA 3 = kidx va 3) := hu.2.2.2.2.2.1
  have hne2 : ¬ copy.toNat = frameN T3 := hc.2.2.2.1
  congr 1
  simp only [cowState, cowEntry, St.flush, St.wrLoc, st3, st2, st1, rd_wr, rd_setFrame, if_neg hne1, if_neg hne2, he,
    List.append_assoc, List.cons_append, List.nil_append]

end Firefly.Vmm
