import Firefly.Model.Prefix
/-! Lemmas about the PrefixWriter model (C16). Core Lean only. -/
namespace Firefly.Prefix

theorem prefixStream_true_cons (pfx : List UInt8) (b : UInt8) (t : List UInt8) :
    prefixStream pfx true (b :: t) = pfx ++ prefixStream pfx false (b :: t) := by
  simp [prefixStream]

theorem prefixStream_append (pfx : List UInt8) (s : Bool) (a b : List UInt8) :
    prefixStream pfx s (a ++ b) = prefixStream pfx s a ++ prefixStream pfx (lineState s a) b := by
  induction a generalizing s with
  | nil => simp [prefixStream, lineState]
  | cons x t ih =>
    simp only [List.cons_append, prefixStream, lineState, List.foldl_cons] at ih ⊢
    rw [ih]; simp [lineState]

theorem lineState_append (s : Bool) (a b : List UInt8) : lineState s (a ++ b) = lineState (lineState s a) b := by
  simp [lineState]

theorem lineState_snoc_newline (s : Bool) (a : List UInt8) : lineState s (a ++ [10]) = true := by
  simp [lineState]

/-- the loop: what the sink sees is the pending segment followed by the rest with a prefix after every
newline that is not the last byte (the prefix for that one is written by the next call) -/
theorem loop_chunks (pfx : List UInt8) (p seg : List UInt8) (bap w : Nat) :
    (loop pfx p seg bap w).chunks.flatten = seg ++ prefixStream pfx false p := by
  induction p generalizing seg bap w with
  | nil =>
    unfold loop; split
    · next h => simp [h, prefixStream]
    · simp [prefixStream]
  | cons b rest ih =>
    unfold loop
    by_cases hb : b = 10
    · simp only [hb, if_true]
      have := ih [] 0 (w + (seg.length + 1))
      cases rest with
      | nil => simp [loop, prefixStream]
      | cons c t =>
        simp only [reduceCtorEq, if_false, List.flatten_cons, this, List.nil_append]
        simp [prefixStream]
    · simp only [hb, if_false]
      have hb' : (b == 10) = false := by simp [hb]
      rw [ih]
      simp [prefixStream, hb']

theorem loop_bap (pfx : List UInt8) (p seg : List UInt8) (bap w : Nat) :
    ((loop pfx p seg bap w).bap = 0) ↔ lineState (decide (seg = [] ∧ bap = 0)) p = true := by
  induction p generalizing seg bap w with
  | nil =>
    unfold loop; split
    · next h => simp [h, lineState]
    · next h =>
      simp [lineState, h]
  | cons b rest ih =>
    unfold loop
    by_cases hb : b = 10
    · simp only [hb, if_true]
      rw [ih]; simp [lineState]
    · simp only [hb, if_false]
      have hb' : (b == 10) = false := by simp [hb]
      rw [ih]; simp [lineState, hb']

theorem loop_written (pfx : List UInt8) (p seg : List UInt8) (bap w : Nat) :
    (loop pfx p seg bap w).written = w + seg.length + p.length := by
  induction p generalizing seg bap w with
  | nil => unfold loop; split <;> simp_all
  | cons b rest ih =>
    unfold loop
    by_cases hb : b = 10
    · simp only [hb, if_true]; rw [ih]; simp; omega
    · simp only [hb, if_false]; rw [ih]; simp; omega

/-- one `Write`: the sink sees the input with the prefix in front of every line start -/
theorem write_stream (pw : PW) (p : List UInt8) :
    (pw.write p).chunks.flatten = prefixStream pw.pfx pw.atStart p := by
  unfold PW.write PW.atStart
  cases p with
  | nil => simp [loop, prefixStream]
  | cons b t =>
    by_cases h0 : pw.bap = 0
    · simp only [h0, ne_eq, reduceCtorEq, not_false_eq_true, and_self, if_true, List.flatten_cons, loop_chunks,
        List.nil_append, decide_true]
      rw [prefixStream_true_cons]
    · simp [h0, loop_chunks]

theorem write_atStart (pw : PW) (p : List UInt8) : (pw.write p).pw.atStart = lineState pw.atStart p := by
  unfold PW.write PW.atStart
  simp only
  have := loop_bap pw.pfx p [] pw.bap 0
  simp only [true_and] at this
  cases h : lineState (decide (pw.bap = 0)) p
  · rw [h] at this; simp at this; simp [this]
  · rw [h] at this; simp at this; simp [this]

theorem write_pfx (pw : PW) (p : List UInt8) : (pw.write p).pw.pfx = pw.pfx := rfl

theorem write_n (pw : PW) (p : List UInt8) : (pw.write p).n = p.length := by
  unfold PW.write; simp [loop_written]

end Firefly.Prefix
