import Firefly.Proof.AmlTot
/-!
Facts about the generated opcode table (`Gen/C12.lean`) that the total-correctness proof of the first
pass needs: every row an input opcode can select has its `TermList` argument behind a leading
`PkgLen`, its `FieldList` argument directly behind a `ByteData` argument, and at most seven arguments;
the opcodes `parseTarget` accepts have no `FieldList`.
-/
namespace Firefly.AmlParser
open Firefly.AmlLex Firefly.AmlTree Firefly.C13
open Firefly.Gen.C12

/-- `pOpcodeTable[i].argFlags.argCount()` of a row that exists -/
def argCnt (i : Nat) : Nat := (opArgCount i).getD 0
/-- `pOpcodeTable[i].argFlags.arg(k)` of a row that exists -/
def argAt (i k : Nat) : Nat := (opArg i k).getD 0

theorem opArgCount_of_info {i : Nat} (h : InfoOK i) : opArgCount i = some (argCnt i) := by
  unfold InfoOK opFlags at h
  unfold argCnt opArgCount
  cases hc : opcodeTable[i]? with
  | none => rw [hc] at h; cases h
  | some e => rfl

theorem opArg_of_info {i : Nat} (h : InfoOK i) (k : Nat) : opArg i k = some (argAt i k) := by
  unfold InfoOK opFlags at h
  unfold argAt opArg
  cases hc : opcodeTable[i]? with
  | none => rw [hc] at h; cases h
  | some e => rfl

theorem opFlags_of_info {i : Nat} (h : InfoOK i) : ∃ fl, opFlags i = some fl := by
  unfold InfoOK at h
  cases hc : opFlags i with
  | none => rw [hc] at h; cases h
  | some fl => exact ⟨fl, rfl⟩

/-- the shape of row `i` the first pass relies on -/
def rowFacts (i : Nat) : Bool :=
  decide (argCnt i ≤ 7) &&
  (List.range 8).all fun j =>
    (argAt i j != argTypeTermList || (decide (1 ≤ j) && argAt i 0 == argTypePkgLen)) &&
    (argAt i j != argTypeFieldList || (decide (1 ≤ j) && argAt i (j - 1) == argTypeByteData)) &&
    (argAt i j != argTypeByteList || (decide (1 ≤ j) && argAt i (j - 1) == argTypeTermArg))

/-- row `i` has a `TermList` argument at index `j` or later -/
def tlFrom (i j : Nat) : Bool := (List.range 8).any fun k => decide (j ≤ k) && argAt i k == argTypeTermList

/-- row `i` has no `FieldList` argument -/
def noFL (i : Nat) : Bool := (List.range 8).all fun j => argAt i j != argTypeFieldList

/-- the opcodes `parseTarget` accepts -/
def isTargetOp (op : Nat) : Bool :=
  pOpIsArg op || op == opRefOf || op == opDerefOf || op == opIndex || op == opDebug

/-- the check run over every opcode value the reader can form -/
def opChecks : Bool :=
  (List.range 511).all fun op =>
    (pOpcodeTableIndex op false == badOpcode) ||
      (rowFacts (pOpcodeTableIndex op true) && (opFlags (pOpcodeTableIndex op true)).isSome && op != pOpIntFreedObject &&
        (!isTargetOp op || noFL (pOpcodeTableIndex op true)))

set_option maxRecDepth 100000 in
theorem opChecks_true : opChecks = true := by decide +kernel

theorem op_facts {op : Nat} (hop : op ≤ 0x1fe) (hb : pOpcodeTableIndex op false ≠ badOpcode) :
    rowFacts (pOpcodeTableIndex op true) = true ∧ InfoOK (pOpcodeTableIndex op true) ∧ op ≠ pOpIntFreedObject ∧
    (isTargetOp op = true → noFL (pOpcodeTableIndex op true) = true) := by
  have h := opChecks_true
  unfold opChecks at h
  rw [List.all_eq_true] at h
  have := h op (List.mem_range.mpr (by omega))
  simp only [Bool.or_eq_true, Bool.and_eq_true, beq_iff_eq, bne_iff_ne, ne_eq, Bool.not_eq_true'] at this
  rcases this with hbad | ⟨⟨⟨h1, h2⟩, h3⟩, h4⟩
  · exact absurd hbad hb
  · refine ⟨h1, h2, h3, ?_⟩
    intro ht
    rcases h4 with h4 | h4
    · rw [ht] at h4; cases h4
    · exact h4

theorem rowFacts_cnt {i : Nat} (h : rowFacts i = true) : argCnt i ≤ 7 := by
  unfold rowFacts at h
  simp only [Bool.and_eq_true, decide_eq_true_eq] at h
  exact h.1

theorem rowFacts_tl {i j : Nat} (h : rowFacts i = true) (hj : j < 8) (ht : argAt i j = argTypeTermList) :
    1 ≤ j ∧ argAt i 0 = argTypePkgLen := by
  unfold rowFacts at h
  simp only [Bool.and_eq_true, decide_eq_true_eq, List.all_eq_true, List.mem_range, Bool.or_eq_true, bne_iff_ne, ne_eq,
    beq_iff_eq] at h
  rcases (h.2 j hj).1.1 with h1 | h1
  · exact absurd ht h1
  · exact h1

theorem rowFacts_fl {i j : Nat} (h : rowFacts i = true) (hj : j < 8) (ht : argAt i j = argTypeFieldList) :
    1 ≤ j ∧ argAt i (j - 1) = argTypeByteData := by
  unfold rowFacts at h
  simp only [Bool.and_eq_true, decide_eq_true_eq, List.all_eq_true, List.mem_range, Bool.or_eq_true, bne_iff_ne, ne_eq,
    beq_iff_eq] at h
  rcases (h.2 j hj).1.2 with h1 | h1
  · exact absurd ht h1
  · exact h1

/-- a `ByteList` argument sits directly behind a `TermArg` (which ends the argument loop of the first pass) -/
theorem rowFacts_bl {i j : Nat} (h : rowFacts i = true) (hj : j < 8) (ht : argAt i j = argTypeByteList) :
    1 ≤ j ∧ argAt i (j - 1) = argTypeTermArg := by
  unfold rowFacts at h
  simp only [Bool.and_eq_true, decide_eq_true_eq, List.all_eq_true, List.mem_range, Bool.or_eq_true, bne_iff_ne, ne_eq,
    beq_iff_eq] at h
  rcases (h.2 j hj).2 with h1 | h1
  · exact absurd ht h1
  · exact h1

theorem noFL_at {i j : Nat} (h : noFL i = true) (hj : j < 8) : argAt i j ≠ argTypeFieldList := by
  unfold noFL at h
  simp only [List.all_eq_true, List.mem_range, bne_iff_ne, ne_eq] at h
  exact h j hj

theorem tlFrom_of_at {i j : Nat} (hj : j < 8) (ht : argAt i j = argTypeTermList) : tlFrom i j = true := by
  unfold tlFrom
  simp only [List.any_eq_true, List.mem_range, Bool.and_eq_true, decide_eq_true_eq, beq_iff_eq]
  exact ⟨j, hj, Nat.le_refl _, ht⟩

theorem tlFrom_mono {i j : Nat} (h : tlFrom i (j + 1) = true) : tlFrom i j = true := by
  unfold tlFrom at h ⊢
  simp only [List.any_eq_true, List.mem_range, Bool.and_eq_true, decide_eq_true_eq, beq_iff_eq] at h ⊢
  obtain ⟨k, hk, hjk, ht⟩ := h
  exact ⟨k, hk, by omega, ht⟩

/-- a `TermList` behind index 0 means the row starts with a `PkgLen` -/
theorem tlFrom_pkg {i j : Nat} (h : rowFacts i = true) (ht : tlFrom i j = true) : argAt i 0 = argTypePkgLen := by
  unfold tlFrom at ht
  simp only [List.any_eq_true, List.mem_range, Bool.and_eq_true, decide_eq_true_eq, beq_iff_eq] at ht
  obtain ⟨k, hk, _, hk2⟩ := ht
  exact (rowFacts_tl h hk hk2).2

attribute [irreducible] argAt argCnt rowFacts tlFrom noFL

end Firefly.AmlParser
